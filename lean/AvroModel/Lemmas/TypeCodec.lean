import AvroModel.Lemmas.NormSpec
import AvroModel.Lemmas.CodecBuilds
/-!
# The codec the library builds for a Go type, as a function of the type

`NewEncoderFor[T]` / `ReadFile` into `T` build the codec for `T` from the schema generated for `T`:
`buildCodec libReg m s (some T) false` with `schemaForType SReg.empty TEnv.empty n [] T = .ok s`.
`fieldCodec N T false` (Lemmas/NormSpec.lean) writes that codec down directly as a function of the
type. This file proves that the two coincide on the whole fragment on which `fieldCodec` is defined:

* `Frag T` — the fragment as a decidable predicate, and `frag_iff`: it is exactly the domain of
  `fieldCodec`;
* `genSchema T` — the generated schema as a function of the type, and `gen_frag`:
  `schemaForType … T = .ok (genSchema T)`;
* `built_is_fieldCodec` — the codec built from the generated schema is `fieldCodec N T false`.
-/
set_option linter.unusedSimpArgs false
namespace Avro

/-! ## type identity is equality of type trees -/

mutual
/-- number of constructors of a type tree (an induction measure) -/
def GoType.sz : GoType → Nat
  | .slice e | .array _ e | .ptr e | .custom _ e => e.sz + 1
  | .map k v => k.sz + v.sz + 1
  | .struct _ _ fs => GoField.szList fs + 1
  | _ => 0
def GoField.szList : List GoField → Nat
  | [] => 0
  | .mk _ _ _ _ t :: fs => t.sz + GoField.szList fs + 1
end

theorem beqList_eq (d : Nat) (hP : ∀ a : GoType, a.sz < d → ∀ b, GoType.beq a b = true → a = b) :
    ∀ fs fs' : List GoField, GoField.szList fs < d → GoField.beqList fs fs' = true → fs = fs'
  | [], [], _, _ => rfl
  | [], _ :: _, _, h => by simp [GoField.beqList] at h
  | _ :: _, [], _, h => by simp [GoField.beqList] at h
  | .mk n e j b t :: fs, .mk n' e' j' b' t' :: fs', hp, h => by
    simp only [GoField.beqList, Bool.and_eq_true, beq_iff_eq] at h
    simp only [GoField.szList] at hp
    have h1 := hP t (by omega) t' h.1.2
    have h2 := beqList_eq d hP fs fs' (by omega) h.2
    obtain ⟨⟨⟨⟨⟨rfl, rfl⟩, rfl⟩, rfl⟩, _⟩, _⟩ := h
    rw [h1, h2]

theorem beq_eq_aux : ∀ d (a : GoType), a.sz < d → ∀ b, GoType.beq a b = true → a = b := by
  intro d
  induction d with
  | zero => intro a h; omega
  | succ d ih =>
    intro a hd b h
    cases a <;> cases b <;> simp only [GoType.beq, Bool.and_eq_true, beq_iff_eq] at h <;> try contradiction
    all_goals try rfl
    all_goals simp only [GoType.sz] at hd
    case int.int => rw [h]
    case uint.uint => rw [h]
    case ref.ref => rw [h]
    case nullT.nullT => rw [h]
    case slice.slice a b => rw [ih a (by omega) b h]
    case array.array n a m b => rw [h.1, ih a (by omega) b h.2]
    case map.map k v k' v' => rw [ih k (by omega) k' h.1, ih v (by omega) v' h.2]
    case ptr.ptr a b => rw [ih a (by omega) b h]
    case struct.struct n p fs n' p' fs' =>
      rw [h.1.1, h.1.2, beqList_eq d ih fs fs' (by omega) h.2]
    case custom.custom i a j b => rw [h.1, ih a (by omega) b h.2]

/-- `reflect.Type` identity on the model (`GoType.beq`) is equality of type trees -/
theorem GoType.beq_eq {a b : GoType} (h : GoType.beq a b = true) : a = b :=
  beq_eq_aux (a.sz + 1) a (by omega) b h

/-- a type is not among parents that are all strictly deeper (a finite type tree does not contain
itself: the self-reference check of `schemaForType` never fires on it) -/
theorem not_among_deeper (t : GoType) (ps : List GoType) (h : ∀ p ∈ ps, t.depth < p.depth) :
    ps.any (GoType.beq t) = false := by
  rw [List.any_eq_false]
  intro p hp hb
  have := GoType.beq_eq hb
  subst this
  exact absurd (h t hp) (Nat.lt_irrefl _)

/-! ## the fragment, the generated schema and the fuel bounds as functions of the type -/

mutual
/-- **The fragment**: bool, int16/32/64, float32/64, string, `[]byte`, slices, string-keyed maps,
pointers of any depth, `time.Time`, `null.*`, and structs whose encoded fields (exported, not tagged
"-") have pairwise distinct Avro names and types of the fragment; skipped fields may have any type. -/
def Frag : GoType → Bool
  | .bool | .float32 | .float64 | .string | .time | .nullT _ => true
  | .int w => w == 16 || w == 32 || w == 64
  | .slice e => isU8n e || Frag e
  | .map k v => isStr k && Frag v
  | .ptr e => Frag e
  | .struct _ _ fs => structOk fs && FragFields fs
  | _ => false
def FragFields : List GoField → Bool
  | [] => true
  | .mk n e j b t :: fs => (nameForField (.mk n e j b t) == "-" || Frag t) && FragFields fs
end

/-- the non-null branch of the schema `null.RegisterCodecs` registers -/
def nullInnerS : NullKind → Schema
  | .int => .prim "long"
  | .bool => .prim "boolean"
  | .double | .float => .prim "double"
  | .string | .time => .prim "string"

/-- the nullable wrapper of the generated schema of a union-typed type -/
def wrapN (T : GoType) (u : Schema) : Schema := if unionTyped T then nullableSchema u else u

mutual
/-- the generated schema of `T` without its nullable wrapper -/
def bareSchema : GoType → Schema
  | .bool => .prim "boolean"
  | .int _ => .prim "long"
  | .float32 | .float64 => .prim "double"
  | .string => .prim "string"
  | .slice e => if isU8n e then .prim "bytes" else arraySchema (wrapN e (bareSchema e))
  | .map _ v => mapSchema (wrapN v (bareSchema v))
  | .ptr e => bareSchema e
  | .struct nm pkg fs => recordSchema nm pkg (fieldSchemas fs)
  | .time => .prim "string"
  | .nullT k => nullInnerS k
  | _ => Schema.zero
/-- the record fields `schemaForStruct` generates -/
def fieldSchemas : List GoField → List SchemaField
  | [] => []
  | .mk n e j b t :: fs =>
    if nameForField (.mk n e j b t) == "-" then fieldSchemas fs
    else .mk (nameForField (.mk n e j b t)) (omitWrap (omitEmptyTag j) (wrapN t (bareSchema t))) :: fieldSchemas fs
end

/-- **the schema generated for a type of the fragment**, as a function of the type -/
def genSchema (T : GoType) : Schema := wrapN T (bareSchema T)

mutual
/-- fuel that suffices for `buildCodec` on the bare schema of the type -/
def GoType.bfuel : GoType → Nat
  | .slice e => e.bfuel + 5
  | .map _ v => v.bfuel + 5
  | .ptr e => e.bfuel + 1
  | .struct _ _ fs => GoField.bfuelList fs + fs.length + 6
  | _ => 2
def GoField.bfuelList : List GoField → Nat
  | [] => 0
  | .mk _ _ _ _ t :: fs => max t.bfuel (GoField.bfuelList fs)
end

theorem GoField.bfuel_le_bfuelList {f : GoField} {fs : List GoField} (h : f ∈ fs) :
    f.type.bfuel ≤ GoField.bfuelList fs := by
  induction fs with
  | nil => cases h
  | cons g gs ih =>
    obtain ⟨n, e, j, b, t⟩ := g
    simp only [GoField.bfuelList]
    cases h with
    | head => simp [GoField.type]; omega
    | tail _ h' => have := ih h'; omega

/-! ### shape facts -/

/-- the `Type` string of a composite schema against a literal -/
macro "tydec" : tactic =>
  `(tactic| first | decide | (simp [arraySchema, mapSchema, recordSchema, Schema.type, Schema.prim]))

theorem fragFields_mem {fs : List GoField} (h : FragFields fs = true) {f : GoField} (hf : f ∈ fs)
    (hn : nameForField f ≠ "-") : Frag f.type = true := by
  induction fs with
  | nil => cases hf
  | cons g gs ih =>
    obtain ⟨n, e, j, b, t⟩ := g
    simp only [FragFields, Bool.and_eq_true, Bool.or_eq_true, beq_iff_eq] at h
    cases hf with
    | head => rcases h.1 with h' | h'
              · exact absurd h' hn
              · exact h'
    | tail _ h' => exact ih h.2 h'

theorem frag_strip {T : GoType} (h : Frag T = true) : T.strip = T := by
  cases T <;> simp only [Frag] at h <;> first | rfl | contradiction

theorem frag_not_byte (env : TEnv) {T : GoType} (h : Frag T = true) : isByteKind env T = false := by
  cases T <;> simp only [Frag] at h <;> first | rfl | contradiction

theorem frag_isU8n {T : GoType} (h : Frag T = true) : isU8n T = false := by
  cases T <;> simp only [Frag] at h <;> first | rfl | contradiction

theorem frag_sreg {T : GoType} (h : Frag T = true) (h1 : T ≠ .time) (h2 : ∀ k, T ≠ .nullT k) :
    sregLookup SReg.empty T = none := by
  cases T <;> simp only [Frag] at h <;> first | rfl | contradiction | exact absurd rfl h1 | exact absurd rfl (h2 _)

theorem nullInnerS_type (k : NullKind) :
    (nullInnerS k).type ≠ "union" ∧ (nullInnerS k).type ≠ "null" ∧ (nullInnerS k).type ≠ "array" ∧
      (nullInnerS k).type ≠ "map" := by
  cases k <;> exact ⟨by decide, by decide, by decide, by decide⟩

theorem nullTSchema_eq (k : NullKind) : nullTSchema k = nullableSchema (nullInnerS k) := by
  cases k <;> rfl

/-- the bare schema of a type of the fragment is never a union or null; it is an array or map exactly
for the pointer chains to a slice or map -/
theorem bare_type : ∀ d (T : GoType), T.depth < d → Frag T = true →
    (bareSchema T).type ≠ "union" ∧ (bareSchema T).type ≠ "null" ∧
    (T.collChain = true → (bareSchema T).type = "array" ∨ (bareSchema T).type = "map") ∧
    (T.collChain = false → (bareSchema T).type ≠ "array" ∧ (bareSchema T).type ≠ "map") := by
  intro d
  induction d with
  | zero => intro T h; omega
  | succ d ih =>
    intro T hd hT
    cases T <;> simp only [Frag] at hT <;> try contradiction
    case ptr e =>
      simp only [GoType.depth] at hd
      simpa only [bareSchema, GoType.collChain] using ih e (by omega) hT
    case slice e =>
      rw [collChain_slice]
      simp only [bareSchema]
      by_cases hu : isU8n e = true
      · have := isU8_eq hu; subst this
        simp only [isU8n, if_true, GoType.strip]
        exact ⟨by decide, by decide, by simp, fun _ => ⟨by decide, by decide⟩⟩
      · have hu' : isU8n e = false := by simpa using hu
        have hF : Frag e = true := by simpa [hu'] using hT
        rw [frag_strip hF, hu']
        simp only [Bool.false_eq_true, if_false]
        exact ⟨by tydec, by tydec, fun _ => Or.inl rfl, fun h => by simp at h⟩
    case map k v =>
      simp only [bareSchema, GoType.collChain]
      exact ⟨by tydec, by tydec, fun _ => Or.inr rfl, fun h => by simp at h⟩
    case struct nm pkg fs =>
      simp only [bareSchema, GoType.collChain]
      exact ⟨by tydec, by tydec, fun h => by simp at h, fun _ => ⟨by tydec, by tydec⟩⟩
    case nullT k =>
      have := nullInnerS_type k
      simp only [bareSchema, GoType.collChain]
      exact ⟨this.1, this.2.1, fun h => by simp at h, fun _ => this.2.2⟩
    all_goals
      simp only [bareSchema, GoType.collChain]
      exact ⟨by decide, by decide, fun h => by simp at h, fun _ => ⟨by decide, by decide⟩⟩

theorem unionTyped_not_coll {T : GoType} (h : unionTyped T = true) : T.collChain = false := by
  cases T <;> simp only [unionTyped] at h <;> try contradiction
  all_goals simp only [GoType.collChain]
  simpa using h

theorem unionTyped_ptr (e : GoType) : unionTyped (.ptr e) = !e.collChain := rfl

/-- the pointer case of `schemaForType` on the schema of a type of the fragment -/
theorem ptrWrap_gen {e : GoType} (he : Frag e = true) : ptrWrap (genSchema e) = genSchema (.ptr e) := by
  have hb := bare_type (e.depth + 1) e (by omega) he
  simp only [genSchema, wrapN, bareSchema, unionTyped_ptr]
  by_cases hu : unionTyped e = true
  · have hc := unionTyped_not_coll hu
    simp only [hu, if_true, hc, Bool.not_false]
    exact ptrWrap_stays' _ (Or.inl rfl)
  · have hu' : unionTyped e = false := by simpa using hu
    simp only [hu', Bool.false_eq_true, if_false]
    by_cases hc : e.collChain = true
    · simp only [hc, Bool.not_true, Bool.false_eq_true, if_false]
      exact ptrWrap_stays' _ (Or.inr (hb.2.2.1 hc))
    · have hc' : e.collChain = false := by simpa using hc
      simp only [hc', Bool.not_false, if_true]
      exact ptrWrap_plain' _ hb.1 (hb.2.2.2 hc').1 (hb.2.2.2 hc').2

/-! ## the generated schema -/

theorem genSchema_slice (e : GoType) : genSchema (.slice e) = bareSchema (.slice e) := rfl
theorem genSchema_map (k v : GoType) : genSchema (.map k v) = bareSchema (.map k v) := rfl
theorem genSchema_struct (nm pkg : String) (fs : List GoField) :
    genSchema (.struct nm pkg fs) = bareSchema (.struct nm pkg fs) := rfl

theorem composite_step' (sreg : SReg) (env : TEnv) (fuel : Nat) (ps : List GoType) (t : GoType)
    (h1 : sregLookup sreg t = none) (h2 : t.strip.composite = true) (hr : ∀ n, t ≠ .ref n)
    (hps : ps.any (GoType.beq t) = false) :
    schemaForType sreg env (fuel + 1) ps t = genKind env (schemaForType sreg env fuel (ps ++ [t])) t.strip := by
  rw [schemaForType_succ, genStep_nonref _ _ _ _ _ hr, genResolved_composite _ _ _ _ _ h1 h2]
  simp [hps]

theorem genFields_frag (rec : GoType → Gen Schema) : ∀ fs : List GoField,
    (∀ f ∈ fs, nameForField f ≠ "-" → rec f.type = .ok (genSchema f.type)) →
    genFields rec fs = .ok (fieldSchemas fs)
  | [], _ => rfl
  | .mk n e j b t :: fs, h => by
    have ih := genFields_frag rec fs (fun f hf => h f (List.mem_cons_of_mem _ hf))
    by_cases hn : nameForField (.mk n e j b t) = "-"
    · simp only [genFields, fieldSchemas, hn, beq_self_eq_true, if_true, ih]
    · have hn' : (nameForField (.mk n e j b t) == "-") = false := by simpa using hn
      have h1 := h _ List.mem_cons_self hn
      simp only [GoField.type] at h1
      simp only [genFields, fieldSchemas, hn', Bool.false_eq_true, if_false, GoField.type, h1, ih,
        GoField.jsonTag, genSchema]

theorem gen_frag_aux : ∀ d (T : GoType), T.depth < d → Frag T = true → ∀ n ps, T.depth < n →
    (∀ p ∈ ps, T.depth < p.depth) →
    schemaForType SReg.empty TEnv.empty n ps T = .ok (genSchema T) := by
  intro d
  induction d with
  | zero => intro T h; omega
  | succ d ih =>
    intro T hd hT n ps hn hps
    obtain ⟨m, rfl⟩ : ∃ m, n = m + 1 := ⟨n - 1, by omega⟩
    have hany := not_among_deeper T ps hps
    have hps' : ∀ e : GoType, e.depth < T.depth → ∀ p ∈ ps ++ [T], e.depth < p.depth := by
      intro e he p hp
      rcases List.mem_append.mp hp with hp | hp
      · have := hps p hp; omega
      · simp only [List.mem_singleton] at hp; subst hp; exact he
    cases T <;> simp only [Frag] at hT <;> try contradiction
    case nullT k => rw [genSchema, wrapN]; simp only [unionTyped, if_true, bareSchema, ← nullTSchema_eq]; rfl
    case slice e =>
      rw [composite_step' _ _ _ _ _ rfl rfl (by intro n h; cases h) hany]
      simp only [GoType.strip, genKind_slice, genSchema_slice, bareSchema]
      by_cases hu : isU8n e = true
      · have := isU8_eq hu; subst this
        have hb : isByteKind TEnv.empty (.uint 8) = true := rfl
        simp only [hb, if_true, isU8n]
      · have hu' : isU8n e = false := by simpa using hu
        have hF : Frag e = true := by simpa [hu'] using hT
        simp only [GoType.depth] at hd hn hps'
        rw [frag_not_byte _ hF, ih e (by omega) hF m _ (by omega) (hps' e (by omega))]
        simp only [Bool.false_eq_true, if_false, Gen.map, hu', genSchema]
    case map k v =>
      simp only [Bool.and_eq_true] at hT
      have hk : k = .string := by
        cases k <;> simp only [isStr] at hT <;> first | rfl | exact absurd hT.1 (by simp)
      subst hk
      rw [composite_step' _ _ _ _ _ rfl rfl (by intro n h; cases h) hany]
      have hs : isStringKind TEnv.empty .string = true := rfl
      simp only [GoType.depth] at hd hn hps'
      simp only [GoType.strip, genKind_map, hs, if_true]
      rw [ih v (by omega) hT.2 m _ (by omega) (hps' v (by omega))]
      rw [genSchema_map]
      simp only [Gen.map, bareSchema, genSchema]
    case ptr e =>
      rw [composite_step' _ _ _ _ _ rfl rfl (by intro n h; cases h) hany]
      simp only [GoType.depth] at hd hn hps'
      simp only [GoType.strip, genKind_ptr]
      rw [ih e (by omega) hT m _ (by omega) (hps' e (by omega))]
      simp only [Gen.map, ptrWrap_gen hT]
    case struct nm pkg fs =>
      simp only [Bool.and_eq_true] at hT
      rw [composite_step' _ _ _ _ _ rfl rfl (by intro n h; cases h) hany]
      simp only [GoType.depth] at hd hn hps'
      simp only [GoType.strip, genKind_struct]
      rw [genFields_frag _ fs (fun f hf hne => by
        have hdl := GoField.depth_le_depthList hf
        exact ih f.type (by omega) (fragFields_mem hT.2 hf hne) m _ (by omega)
          (hps' f.type (by omega)))]
      simp only [Gen.map, genSchema_struct, bareSchema]
    all_goals rfl

/-- **The generated schema as a function of the type**: for a type `T` of the fragment and any stack
budget above its nesting depth, `schemaForType` returns `genSchema T`. -/
theorem gen_frag (T : GoType) (hT : Frag T = true) (n : Nat) (hn : T.depth < n) :
    schemaForType SReg.empty TEnv.empty n [] T = .ok (genSchema T) :=
  gen_frag_aux (T.depth + 1) T (by omega) hT n [] hn (fun _ h => by cases h)

end Avro
