import AvroModel.Lemmas.NormSpec
import AvroModel.Lemmas.CodecBuilds
/-!
# The codec the library builds for a Go type, as a function of the type

`NewEncoderFor[T]` / `ReadFile` into `T` build the codec for `T` from the schema generated for `T`:
`buildCodec libReg m s (some T) false` with `schemaForType SReg.empty TEnv.empty n [] T = .ok s`.
`fieldCodec N T false` (Lemmas/NormSpec.lean) writes that codec down directly as a function of the
type. This file proves that the two coincide on the whole fragment on which `fieldCodec` is defined:

* `Frag T` — the fragment as a decidable predicate, and `frag_iff`: it is exactly the domain of
  `fieldCodec`;
* `genSchema T` — the generated schema as a function of the type, and `gen_frag`:
  `schemaForType … T = .ok (genSchema T)`;
* `built_is_fieldCodec` — the codec built from the generated schema is `fieldCodec N T false`.
-/
set_option linter.unusedSimpArgs false
namespace Avro

/-! ## type identity is equality of type trees -/

mutual
/-- number of constructors of a type tree (an induction measure) -/
def GoType.sz : GoType → Nat
  | .slice e | .array _ e | .ptr e | .custom _ e => e.sz + 1
  | .map k v => k.sz + v.sz + 1
  | .struct _ _ fs => GoField.szList fs + 1
  | _ => 0
def GoField.szList : List GoField → Nat
  | [] => 0
  | .mk _ _ _ _ t :: fs => t.sz + GoField.szList fs + 1
end

theorem beqList_eq (d : Nat) (hP : ∀ a : GoType, a.sz < d → ∀ b, GoType.beq a b = true → a = b) :
    ∀ fs fs' : List GoField, GoField.szList fs < d → GoField.beqList fs fs' = true → fs = fs'
  | [], [], _, _ => rfl
  | [], _ :: _, _, h => by simp [GoField.beqList] at h
  | _ :: _, [], _, h => by simp [GoField.beqList] at h
  | .mk n e j b t :: fs, .mk n' e' j' b' t' :: fs', hp, h => by
    simp only [GoField.beqList, Bool.and_eq_true, beq_iff_eq] at h
    simp only [GoField.szList] at hp
    have h1 := hP t (by omega) t' h.1.2
    have h2 := beqList_eq d hP fs fs' (by omega) h.2
    obtain ⟨⟨⟨⟨⟨rfl, rfl⟩, rfl⟩, rfl⟩, _⟩, _⟩ := h
    rw [h1, h2]

theorem beq_eq_aux : ∀ d (a : GoType), a.sz < d → ∀ b, GoType.beq a b = true → a = b := by
  intro d
  induction d with
  | zero => intro a h; omega
  | succ d ih =>
    intro a hd b h
    cases a <;> cases b <;> simp only [GoType.beq, Bool.and_eq_true, beq_iff_eq] at h <;> try contradiction
    all_goals try rfl
    all_goals simp only [GoType.sz] at hd
    case int.int => rw [h]
    case uint.uint => rw [h]
    case ref.ref => rw [h]
    case nullT.nullT => rw [h]
    case slice.slice a b => rw [ih a (by omega) b h]
    case array.array n a m b => rw [h.1, ih a (by omega) b h.2]
    case map.map k v k' v' => rw [ih k (by omega) k' h.1, ih v (by omega) v' h.2]
    case ptr.ptr a b => rw [ih a (by omega) b h]
    case struct.struct n p fs n' p' fs' =>
      rw [h.1.1, h.1.2, beqList_eq d ih fs fs' (by omega) h.2]
    case custom.custom i a j b => rw [h.1, ih a (by omega) b h.2]

/-- `reflect.Type` identity on the model (`GoType.beq`) is equality of type trees -/
theorem GoType.beq_eq {a b : GoType} (h : GoType.beq a b = true) : a = b :=
  beq_eq_aux (a.sz + 1) a (by omega) b h

/-- a type is not among parents that are all strictly deeper (a finite type tree does not contain
itself: the self-reference check of `schemaForType` never fires on it) -/
theorem not_among_deeper (t : GoType) (ps : List GoType) (h : ∀ p ∈ ps, t.depth < p.depth) :
    ps.any (GoType.beq t) = false := by
  rw [List.any_eq_false]
  intro p hp hb
  have := GoType.beq_eq hb
  subst this
  exact absurd (h t hp) (Nat.lt_irrefl _)

/-! ## the fragment, the generated schema and the fuel bounds as functions of the type -/

mutual
/-- **The fragment**: bool, int16/32/64, float32/64, string, `[]byte`, slices, string-keyed maps,
pointers of any depth, `time.Time`, `null.*`, and structs whose encoded fields (exported, not tagged
"-") have pairwise distinct Avro names and types of the fragment; skipped fields may have any type. -/
def Frag : GoType → Bool
  | .bool | .float32 | .float64 | .string | .time | .nullT _ => true
  | .int w => w == 16 || w == 32 || w == 64
  | .slice e => isU8n e || Frag e
  | .map k v => isStr k && Frag v
  | .ptr e => Frag e
  | .struct _ _ fs => structOk fs && FragFields fs
  | _ => false
def FragFields : List GoField → Bool
  | [] => true
  | .mk n e j b t :: fs => (nameForField (.mk n e j b t) == "-" || Frag t) && FragFields fs
end

/-- the non-null branch of the schema `null.RegisterCodecs` registers -/
def nullInnerS : NullKind → Schema
  | .int => .prim "long"
  | .bool => .prim "boolean"
  | .double | .float => .prim "double"
  | .string | .time => .prim "string"

/-- the nullable wrapper of the generated schema of a union-typed type -/
def wrapN (T : GoType) (u : Schema) : Schema := if unionTyped T then nullableSchema u else u

mutual
/-- the generated schema of `T` without its nullable wrapper -/
def bareSchema : GoType → Schema
  | .bool => .prim "boolean"
  | .int _ => .prim "long"
  | .float32 | .float64 => .prim "double"
  | .string => .prim "string"
  | .slice e => if isU8n e then .prim "bytes" else arraySchema (wrapN e (bareSchema e))
  | .map _ v => mapSchema (wrapN v (bareSchema v))
  | .ptr e => bareSchema e
  | .struct nm pkg fs => recordSchema nm pkg (fieldSchemas fs)
  | .time => .prim "string"
  | .nullT k => nullInnerS k
  | _ => Schema.zero
/-- the record fields `schemaForStruct` generates -/
def fieldSchemas : List GoField → List SchemaField
  | [] => []
  | .mk n e j b t :: fs =>
    if nameForField (.mk n e j b t) == "-" then fieldSchemas fs
    else .mk (nameForField (.mk n e j b t)) (omitWrap (omitEmptyTag j) (wrapN t (bareSchema t))) :: fieldSchemas fs
end

/-- **the schema generated for a type of the fragment**, as a function of the type -/
def genSchema (T : GoType) : Schema := wrapN T (bareSchema T)

mutual
/-- fuel that suffices for `buildCodec` on the bare schema of the type -/
def GoType.bfuel : GoType → Nat
  | .slice e => e.bfuel + 5
  | .map _ v => v.bfuel + 5
  | .ptr e => e.bfuel + 1
  | .struct _ _ fs => GoField.bfuelList fs + fs.length + 6
  | _ => 2
def GoField.bfuelList : List GoField → Nat
  | [] => 0
  | .mk _ _ _ _ t :: fs => max t.bfuel (GoField.bfuelList fs)
end

theorem GoField.bfuel_le_bfuelList {f : GoField} {fs : List GoField} (h : f ∈ fs) :
    f.type.bfuel ≤ GoField.bfuelList fs := by
  induction fs with
  | nil => cases h
  | cons g gs ih =>
    obtain ⟨n, e, j, b, t⟩ := g
    simp only [GoField.bfuelList]
    cases h with
    | head => simp [GoField.type]; omega
    | tail _ h' => have := ih h'; omega

/-! ### shape facts -/

/-- the `Type` string of a composite schema against a literal -/
macro "tydec" : tactic =>
  `(tactic| first | decide | (simp [arraySchema, mapSchema, recordSchema, Schema.type, Schema.prim]))

theorem fragFields_mem {fs : List GoField} (h : FragFields fs = true) {f : GoField} (hf : f ∈ fs)
    (hn : nameForField f ≠ "-") : Frag f.type = true := by
  induction fs with
  | nil => cases hf
  | cons g gs ih =>
    obtain ⟨n, e, j, b, t⟩ := g
    simp only [FragFields, Bool.and_eq_true, Bool.or_eq_true, beq_iff_eq] at h
    cases hf with
    | head => rcases h.1 with h' | h'
              · exact absurd h' hn
              · exact h'
    | tail _ h' => exact ih h.2 h'

theorem frag_strip {T : GoType} (h : Frag T = true) : T.strip = T := by
  cases T <;> simp only [Frag] at h <;> first | rfl | contradiction

theorem frag_not_byte (env : TEnv) {T : GoType} (h : Frag T = true) : isByteKind env T = false := by
  cases T <;> simp only [Frag] at h <;> first | rfl | contradiction

theorem frag_isU8n {T : GoType} (h : Frag T = true) : isU8n T = false := by
  cases T <;> simp only [Frag] at h <;> first | rfl | contradiction

theorem frag_sreg {T : GoType} (h : Frag T = true) (h1 : T ≠ .time) (h2 : ∀ k, T ≠ .nullT k) :
    sregLookup SReg.empty T = none := by
  cases T <;> simp only [Frag] at h <;> first | rfl | contradiction | exact absurd rfl h1 | exact absurd rfl (h2 _)

theorem nullInnerS_type (k : NullKind) :
    (nullInnerS k).type ≠ "union" ∧ (nullInnerS k).type ≠ "null" ∧ (nullInnerS k).type ≠ "array" ∧
      (nullInnerS k).type ≠ "map" := by
  cases k <;> exact ⟨by decide, by decide, by decide, by decide⟩

theorem nullTSchema_eq (k : NullKind) : nullTSchema k = nullableSchema (nullInnerS k) := by
  cases k <;> rfl

/-- the bare schema of a type of the fragment is never a union or null; it is an array or map exactly
for the pointer chains to a slice or map -/
theorem bare_type : ∀ d (T : GoType), T.depth < d → Frag T = true →
    (bareSchema T).type ≠ "union" ∧ (bareSchema T).type ≠ "null" ∧
    (T.collChain = true → (bareSchema T).type = "array" ∨ (bareSchema T).type = "map") ∧
    (T.collChain = false → (bareSchema T).type ≠ "array" ∧ (bareSchema T).type ≠ "map") := by
  intro d
  induction d with
  | zero => intro T h; omega
  | succ d ih =>
    intro T hd hT
    cases T <;> simp only [Frag] at hT <;> try contradiction
    case ptr e =>
      simp only [GoType.depth] at hd
      simpa only [bareSchema, GoType.collChain] using ih e (by omega) hT
    case slice e =>
      rw [collChain_slice]
      simp only [bareSchema]
      by_cases hu : isU8n e = true
      · have := isU8_eq hu; subst this
        simp only [isU8n, if_true, GoType.strip]
        exact ⟨by decide, by decide, by simp, fun _ => ⟨by decide, by decide⟩⟩
      · have hu' : isU8n e = false := by simpa using hu
        have hF : Frag e = true := by simpa [hu'] using hT
        rw [frag_strip hF, hu']
        simp only [Bool.false_eq_true, if_false]
        exact ⟨by tydec, by tydec, fun _ => Or.inl rfl, fun h => by simp at h⟩
    case map k v =>
      simp only [bareSchema, GoType.collChain]
      exact ⟨by tydec, by tydec, fun _ => Or.inr rfl, fun h => by simp at h⟩
    case struct nm pkg fs =>
      simp only [bareSchema, GoType.collChain]
      exact ⟨by tydec, by tydec, fun h => by simp at h, fun _ => ⟨by tydec, by tydec⟩⟩
    case nullT k =>
      have := nullInnerS_type k
      simp only [bareSchema, GoType.collChain]
      exact ⟨this.1, this.2.1, fun h => by simp at h, fun _ => this.2.2⟩
    all_goals
      simp only [bareSchema, GoType.collChain]
      exact ⟨by decide, by decide, fun h => by simp at h, fun _ => ⟨by decide, by decide⟩⟩

theorem unionTyped_not_coll {T : GoType} (h : unionTyped T = true) : T.collChain = false := by
  cases T <;> simp only [unionTyped] at h <;> try contradiction
  all_goals simp only [GoType.collChain]
  simpa using h

theorem unionTyped_ptr (e : GoType) : unionTyped (.ptr e) = !e.collChain := rfl

/-- the pointer case of `schemaForType` on the schema of a type of the fragment -/
theorem ptrWrap_gen {e : GoType} (he : Frag e = true) : ptrWrap (genSchema e) = genSchema (.ptr e) := by
  have hb := bare_type (e.depth + 1) e (by omega) he
  simp only [genSchema, wrapN, bareSchema, unionTyped_ptr]
  by_cases hu : unionTyped e = true
  · have hc := unionTyped_not_coll hu
    simp only [hu, if_true, hc, Bool.not_false]
    exact ptrWrap_stays' _ (Or.inl rfl)
  · have hu' : unionTyped e = false := by simpa using hu
    simp only [hu', Bool.false_eq_true, if_false]
    by_cases hc : e.collChain = true
    · simp only [hc, Bool.not_true, Bool.false_eq_true, if_false]
      exact ptrWrap_stays' _ (Or.inr (hb.2.2.1 hc))
    · have hc' : e.collChain = false := by simpa using hc
      simp only [hc', Bool.not_false, if_true]
      exact ptrWrap_plain' _ hb.1 (hb.2.2.2 hc').1 (hb.2.2.2 hc').2

/-! ## the generated schema -/

theorem genSchema_slice (e : GoType) : genSchema (.slice e) = bareSchema (.slice e) := rfl
theorem genSchema_map (k v : GoType) : genSchema (.map k v) = bareSchema (.map k v) := rfl
theorem genSchema_struct (nm pkg : String) (fs : List GoField) :
    genSchema (.struct nm pkg fs) = bareSchema (.struct nm pkg fs) := rfl

theorem composite_step' (sreg : SReg) (env : TEnv) (fuel : Nat) (ps : List GoType) (t : GoType)
    (h1 : sregLookup sreg t = none) (h2 : t.strip.composite = true) (hr : ∀ n, t ≠ .ref n)
    (hps : ps.any (GoType.beq t) = false) :
    schemaForType sreg env (fuel + 1) ps t = genKind env (schemaForType sreg env fuel (ps ++ [t])) t.strip := by
  rw [schemaForType_succ, genStep_nonref _ _ _ _ _ hr, genResolved_composite _ _ _ _ _ h1 h2]
  simp [hps]

theorem genFields_frag (rec : GoType → Gen Schema) : ∀ fs : List GoField,
    (∀ f ∈ fs, nameForField f ≠ "-" → rec f.type = .ok (genSchema f.type)) →
    genFields rec fs = .ok (fieldSchemas fs)
  | [], _ => rfl
  | .mk n e j b t :: fs, h => by
    have ih := genFields_frag rec fs (fun f hf => h f (List.mem_cons_of_mem _ hf))
    by_cases hn : nameForField (.mk n e j b t) = "-"
    · simp only [genFields, fieldSchemas, hn, beq_self_eq_true, if_true, ih]
    · have hn' : (nameForField (.mk n e j b t) == "-") = false := by simpa using hn
      have h1 := h _ List.mem_cons_self hn
      simp only [GoField.type] at h1
      simp only [genFields, fieldSchemas, hn', Bool.false_eq_true, if_false, GoField.type, h1, ih,
        GoField.jsonTag, genSchema]

theorem gen_frag_aux : ∀ d (T : GoType), T.depth < d → Frag T = true → ∀ n ps, T.depth < n →
    (∀ p ∈ ps, T.depth < p.depth) →
    schemaForType SReg.empty TEnv.empty n ps T = .ok (genSchema T) := by
  intro d
  induction d with
  | zero => intro T h; omega
  | succ d ih =>
    intro T hd hT n ps hn hps
    obtain ⟨m, rfl⟩ : ∃ m, n = m + 1 := ⟨n - 1, by omega⟩
    have hany := not_among_deeper T ps hps
    have hps' : ∀ e : GoType, e.depth < T.depth → ∀ p ∈ ps ++ [T], e.depth < p.depth := by
      intro e he p hp
      rcases List.mem_append.mp hp with hp | hp
      · have := hps p hp; omega
      · simp only [List.mem_singleton] at hp; subst hp; exact he
    cases T <;> simp only [Frag] at hT <;> try contradiction
    case nullT k => rw [genSchema, wrapN]; simp only [unionTyped, if_true, bareSchema, ← nullTSchema_eq]; rfl
    case slice e =>
      rw [composite_step' _ _ _ _ _ rfl rfl (by intro n h; cases h) hany]
      simp only [GoType.strip, genKind_slice, genSchema_slice, bareSchema]
      by_cases hu : isU8n e = true
      · have := isU8_eq hu; subst this
        have hb : isByteKind TEnv.empty (.uint 8) = true := rfl
        simp only [hb, if_true, isU8n]
      · have hu' : isU8n e = false := by simpa using hu
        have hF : Frag e = true := by simpa [hu'] using hT
        simp only [GoType.depth] at hd hn hps'
        rw [frag_not_byte _ hF, ih e (by omega) hF m _ (by omega) (hps' e (by omega))]
        simp only [Bool.false_eq_true, if_false, Gen.map, hu', genSchema]
    case map k v =>
      simp only [Bool.and_eq_true] at hT
      have hk : k = .string := by
        cases k <;> simp only [isStr] at hT <;> first | rfl | exact absurd hT.1 (by simp)
      subst hk
      rw [composite_step' _ _ _ _ _ rfl rfl (by intro n h; cases h) hany]
      have hs : isStringKind TEnv.empty .string = true := rfl
      simp only [GoType.depth] at hd hn hps'
      simp only [GoType.strip, genKind_map, hs, if_true]
      rw [ih v (by omega) hT.2 m _ (by omega) (hps' v (by omega))]
      rw [genSchema_map]
      simp only [Gen.map, bareSchema, genSchema]
    case ptr e =>
      rw [composite_step' _ _ _ _ _ rfl rfl (by intro n h; cases h) hany]
      simp only [GoType.depth] at hd hn hps'
      simp only [GoType.strip, genKind_ptr]
      rw [ih e (by omega) hT m _ (by omega) (hps' e (by omega))]
      simp only [Gen.map, ptrWrap_gen hT]
    case struct nm pkg fs =>
      simp only [Bool.and_eq_true] at hT
      rw [composite_step' _ _ _ _ _ rfl rfl (by intro n h; cases h) hany]
      simp only [GoType.depth] at hd hn hps'
      simp only [GoType.strip, genKind_struct]
      rw [genFields_frag _ fs (fun f hf hne => by
        have hdl := GoField.depth_le_depthList hf
        exact ih f.type (by omega) (fragFields_mem hT.2 hf hne) m _ (by omega)
          (hps' f.type (by omega)))]
      simp only [Gen.map, genSchema_struct, bareSchema]
    all_goals rfl

/-- **The generated schema as a function of the type**: for a type `T` of the fragment and any stack
budget above its nesting depth, `schemaForType` returns `genSchema T`. -/
theorem gen_frag (T : GoType) (hT : Frag T = true) (n : Nat) (hn : T.depth < n) :
    schemaForType SReg.empty TEnv.empty n [] T = .ok (genSchema T) :=
  gen_frag_aux (T.depth + 1) T (by omega) hT n [] hn (fun _ h => by cases h)

/-! ## `buildCodec` step by step, as equations -/

theorem build_union_ok {reg : Reg} {n : Nat} {u : Schema} {typ : Option GoType} {oe : Bool} {cb : Codec}
    (h : buildCodec reg n u typ oe = .ok cb) :
    buildCodec reg (n + 3) (nullableSchema u) typ oe = .ok (wrapU cb) := by
  rw [buildCodec_union_eq reg n _ u typ oe (nullable_type u) (nullable_union u), h]
  cases cb <;> rfl

theorem build_array_ok {reg : Reg} {n : Nat} {u : Schema} {e : GoType} {oe : Bool} {ci : Codec}
    (h : buildCodec reg n u (some e) false = .ok ci) :
    buildCodec reg (n + 2) (arraySchema u) (some (.slice e)) oe = .ok (.array ci oe) := by
  simp [buildCodec, arraySchema, Schema.type, regLookup, buildKind, Schema.object, GoType.strip, SchemaObject.items, h]

theorem build_map_ok {reg : Reg} {n : Nat} {u : Schema} {v : GoType} {oe : Bool} {ci : Codec}
    (h : buildCodec reg n u (some v) false = .ok ci) :
    buildCodec reg (n + 2) (mapSchema u) (some (.map .string v)) oe = .ok (.map ci oe) := by
  simp [buildCodec, mapSchema, Schema.type, regLookup, buildKind, Schema.object, GoType.strip, SchemaObject.values, h]

theorem build_record_ok {reg : Reg} {n : Nat} {name pkg gn gp : String} {sfs : List SchemaField} {fs : List GoField}
    {oe : Bool} {cs : List Codec} {ts : List (Option Nat)} (h : buildFields reg n sfs (some fs) = .ok (cs, ts)) :
    buildCodec reg (n + 2) (recordSchema name pkg sfs) (some (.struct gn gp fs)) oe
      = .ok (.record (zeroFields fs) cs ts) := by
  simp [buildCodec, recordSchema, Schema.type, regLookup, buildKind, Schema.object, GoType.strip, SchemaObject.fields, h]

theorem build_ptr_ok {reg : Reg} {n : Nat} {s : Schema} {e : GoType} {oe : Bool} {c : Codec}
    (h1 : s.type ≠ "union") (h2 : s.type ≠ "null") (h : buildCodec reg n s (some e) false = .ok c) :
    buildCodec reg (n + 1) s (some (.ptr e)) oe = .ok (.pointer c) := by
  rw [buildCodec_ptr reg n s e oe h1 h2, h]

theorem omitWrap_union (oe : Bool) (u : Schema) : omitWrap oe (nullableSchema u) = nullableSchema u := by
  simp [omitWrap, nullable_type]

theorem omitWrap_true {u : Schema} (h : u.type ≠ "union") : omitWrap true u = nullableSchema u := by
  simp [omitWrap, h]

theorem omitWrap_false (u : Schema) : omitWrap false u = u := by
  simp [omitWrap]

/-! ## the built codec is the codec of the type -/

/-- at budget `N` of `bareCodec` / `fieldCodec`: where they are defined the type is in the fragment
and `buildCodec` yields the same codec on the bare schema (`bare`), respectively on the field schema
(`field`: the generated schema under the `omitempty` wrapper), with any sufficient fuel -/
structure TieAt (N : Nat) : Prop where
  bare : ∀ (T : GoType) (oe : Bool) (cb : Codec), bareCodec N T oe = some cb →
    Frag T = true ∧ ∀ m, T.bfuel ≤ m → buildCodec libReg m (bareSchema T) (some T) oe = .ok cb
  field : ∀ (T : GoType) (oe : Bool) (c : Codec), fieldCodec N T oe = some c →
    Frag T = true ∧
      ∀ m, T.bfuel + 3 ≤ m → buildCodec libReg m (omitWrap oe (genSchema T)) (some T) oe = .ok c

theorem tie_zero : TieAt 0 where
  bare := fun _ _ _ h => by simp [bareCodec] at h
  field := fun _ _ _ h => by simp [fieldCodec] at h

theorem tie_field_step (N : Nat) (ih : TieAt N) (T : GoType) (oe : Bool) (c : Codec)
    (h : fieldCodec (N + 1) T oe = some c) :
    Frag T = true ∧
      ∀ m, T.bfuel + 3 ≤ m → buildCodec libReg m (omitWrap oe (genSchema T)) (some T) oe = .ok c := by
  simp only [fieldCodec] at h
  by_cases hu : unionTyped T = true
  · simp only [hu, if_true, Option.map_eq_some_iff] at h
    obtain ⟨cb, hcb, rfl⟩ := h
    obtain ⟨hF, hb⟩ := ih.bare T oe cb hcb
    refine ⟨hF, fun m hm => ?_⟩
    obtain ⟨m', rfl⟩ : ∃ m', m = m' + 3 := ⟨m - 3, by omega⟩
    simp only [genSchema, wrapN, hu, if_true, omitWrap_union]
    exact build_union_ok (hb m' (by omega))
  · have hu' : unionTyped T = false := by simpa using hu
    simp only [hu', Bool.false_eq_true, if_false] at h
    cases oe with
    | true =>
      simp only [if_true, Option.map_eq_some_iff] at h
      obtain ⟨cb, hcb, rfl⟩ := h
      obtain ⟨hF, hb⟩ := ih.bare T true cb hcb
      refine ⟨hF, fun m hm => ?_⟩
      obtain ⟨m', rfl⟩ : ∃ m', m = m' + 3 := ⟨m - 3, by omega⟩
      have hty := bare_type (T.depth + 1) T (by omega) hF
      simp only [genSchema, wrapN, hu', Bool.false_eq_true, if_false, omitWrap_true hty.1]
      exact build_union_ok (hb m' (by omega))
    | false =>
      simp only [Bool.false_eq_true, if_false] at h
      obtain ⟨hF, hb⟩ := ih.bare T false c h
      refine ⟨hF, fun m hm => ?_⟩
      simp only [genSchema, wrapN, hu', Bool.false_eq_true, if_false, omitWrap_false]
      exact hb m (by omega)

theorem nodupB_cons {a : String} {r : List String} (h : nodupB (a :: r) = true) : a ∉ r ∧ nodupB r = true := by
  simpa [nodupB] using h

theorem encFields_cons_skip {f : GoField} {fs : List GoField} (h : nameForField f = "-") :
    encFields (f :: fs) = encFields fs := by
  simp [encFields, h]

theorem encFields_cons_keep {f : GoField} {fs : List GoField} (h : nameForField f ≠ "-") :
    encFields (f :: fs) = f :: encFields fs := by
  simp [encFields, h]

theorem mem_encFields {g : GoField} {fs : List GoField} (hg : g ∈ fs) (hn : nameForField g ≠ "-") :
    g ∈ encFields fs := by
  simp [encFields, hg, hn]

theorem fieldSchemas_cons (f : GoField) (fs : List GoField) :
    fieldSchemas (f :: fs) =
      if nameForField f == "-" then fieldSchemas fs
      else .mk (nameForField f) (omitWrap (omitEmptyTag f.jsonTag) (genSchema f.type)) :: fieldSchemas fs := by
  obtain ⟨n, e, j, b, t⟩ := f
  simp only [fieldSchemas, GoField.jsonTag, GoField.type, genSchema]

theorem fragFields_cons (f : GoField) (fs : List GoField) :
    FragFields (f :: fs) = ((nameForField f == "-" || Frag f.type) && FragFields fs) := by
  obtain ⟨n, e, j, b, t⟩ := f
  simp only [FragFields, GoField.type]

theorem bfuelList_cons (f : GoField) (fs : List GoField) :
    GoField.bfuelList (f :: fs) = max f.type.bfuel (GoField.bfuelList fs) := by
  obtain ⟨n, e, j, b, t⟩ := f
  simp only [GoField.bfuelList, GoField.type]

/-- the field loop of `buildRecordCodec` on the generated record fields of the struct fields `post`
(the tail of `fs = pre ++ post`): the codecs of the encoded fields, each targeting its own position -/
theorem buildFields_tie (N : Nat) (ih : TieAt N) (fs : List GoField) :
    ∀ (post pre : List GoField) (cs : List Codec), fs = pre ++ post →
      nodupB ((encFields post).map nameForField) = true →
      allSome ((encFields post).map fun f => fieldCodec N f.type (omitEmptyTag f.jsonTag)) = some cs →
      FragFields post = true ∧
      ∀ m, GoField.bfuelList post + post.length + 4 ≤ m →
        buildFields libReg m (fieldSchemas post) (some fs) = .ok (cs, targetsFrom pre.length post)
  | [], pre, cs, _, _, hcs => by
    simp only [encFields, List.filter_nil, List.map_nil, allSome, Option.some.injEq] at hcs
    subst hcs
    refine ⟨rfl, fun m hm => ?_⟩
    obtain ⟨m', rfl⟩ : ∃ m', m = m' + 1 := ⟨m - 1, by omega⟩
    rfl
  | f :: post, pre, cs, hfs, hnd, hcs => by
    have hfs' : fs = (pre ++ [f]) ++ post := by simp [hfs]
    by_cases hn : nameForField f = "-"
    · rw [encFields_cons_skip hn] at hnd hcs
      obtain ⟨hF, hb⟩ := buildFields_tie N ih fs post (pre ++ [f]) cs hfs' hnd hcs
      refine ⟨by simp [fragFields_cons, hn, hF], fun m hm => ?_⟩
      simp only [fieldSchemas_cons, hn, beq_self_eq_true, if_true, targetsFrom, bne_self_eq_false,
        Bool.false_eq_true, if_false]
      rw [bfuelList_cons, List.length_cons] at hm
      have := hb m (by omega)
      simpa using this
    · have hn' : (nameForField f == "-") = false := by simpa using hn
      have hn'' : (nameForField f != "-") = true := by simpa using hn
      rw [encFields_cons_keep hn] at hnd hcs
      simp only [List.map_cons] at hnd hcs
      obtain ⟨hnot, hnd'⟩ := nodupB_cons hnd
      cases hc : fieldCodec N f.type (omitEmptyTag f.jsonTag) with
      | none => simp [hc, allSome] at hcs
      | some c =>
        simp only [hc, allSome, Option.map_eq_some_iff] at hcs
        obtain ⟨cs', hcs', rfl⟩ := hcs
        obtain ⟨hF, hb⟩ := buildFields_tie N ih fs post (pre ++ [f]) cs' hfs' hnd' hcs'
        obtain ⟨hFf, hbf⟩ := ih.field f.type _ c hc
        refine ⟨by simp [fragFields_cons, hFf, hF], fun m hm => ?_⟩
        rw [bfuelList_cons, List.length_cons] at hm
        obtain ⟨m', rfl⟩ : ∃ m', m = m' + 1 := ⟨m - 1, by omega⟩
        have hlook : lookupField (nameForField f) fs 0 none = some (pre.length, f) := by
          rw [hfs, lookupField_last pre post f 0 none hn ?_]
          · simp
          · intro g hg heq
            apply hnot
            rw [← heq]
            exact List.mem_map.mpr ⟨g, mem_encFields hg (by rw [heq]; exact hn), rfl⟩
        have h1 := hbf m' (by omega)
        have h2 := hb m' (by omega)
        simp only [List.length_append, List.length_singleton] at h2
        simp only [fieldSchemas_cons, hn', Bool.false_eq_true, if_false, targetsFrom, hn'', if_true,
          buildFields, SchemaField.name, SchemaField.type, hlook, h1, h2, Option.map]

theorem tie_bare_step (N : Nat) (ih : TieAt N) (T : GoType) (oe : Bool) (cb : Codec)
    (h : bareCodec (N + 1) T oe = some cb) :
    Frag T = true ∧ ∀ m, T.bfuel ≤ m → buildCodec libReg m (bareSchema T) (some T) oe = .ok cb := by
  cases T
  case slice e =>
    rw [bareCodec_slice] at h
    by_cases hu : isU8n e = true
    · have := isU8_eq hu; subst this
      simp only [isU8n, if_true, Option.some.injEq] at h
      subst h
      refine ⟨by simp [Frag, isU8n], fun m hm => ?_⟩
      simp only [GoType.bfuel] at hm
      obtain ⟨m', rfl⟩ : ∃ m', m = m' + 2 := ⟨m - 2, by omega⟩
      simp [bareSchema, isU8n, buildCodec, Schema.prim, Schema.type, regLookup, buildKind, GoType.strip]
    · have hu' : isU8n e = false := by simpa using hu
      simp only [hu', Bool.false_eq_true, if_false, Option.map_eq_some_iff] at h
      obtain ⟨ci, hci, rfl⟩ := h
      obtain ⟨hF, hb⟩ := ih.field e false ci hci
      refine ⟨by simp [Frag, hF], fun m hm => ?_⟩
      simp only [GoType.bfuel] at hm
      obtain ⟨m', rfl⟩ : ∃ m', m = m' + 2 := ⟨m - 2, by omega⟩
      have := hb m' (by omega)
      rw [omitWrap_false] at this
      simp only [bareSchema, hu', Bool.false_eq_true, if_false]
      exact build_array_ok this
  case map k v =>
    rw [bareCodec_map] at h
    by_cases hk : isStr k = true
    · have hk' : k = .string := by
        cases k <;> simp only [isStr] at hk <;> first | rfl | exact absurd hk (by simp)
      subst hk'
      simp only [isStr, if_true, Option.map_eq_some_iff] at h
      obtain ⟨ci, hci, rfl⟩ := h
      obtain ⟨hF, hb⟩ := ih.field v false ci hci
      refine ⟨by simp [Frag, isStr, hF], fun m hm => ?_⟩
      simp only [GoType.bfuel] at hm
      obtain ⟨m', rfl⟩ : ∃ m', m = m' + 2 := ⟨m - 2, by omega⟩
      have := hb m' (by omega)
      rw [omitWrap_false] at this
      simp only [bareSchema]
      exact build_map_ok this
    · simp [hk] at h
  case ptr e =>
    rw [bareCodec_ptr] at h
    simp only [Option.map_eq_some_iff] at h
    obtain ⟨ce, hce, rfl⟩ := h
    obtain ⟨hF, hb⟩ := ih.bare e false ce hce
    refine ⟨by simpa [Frag] using hF, fun m hm => ?_⟩
    simp only [GoType.bfuel] at hm
    obtain ⟨m', rfl⟩ : ∃ m', m = m' + 1 := ⟨m - 1, by omega⟩
    have hty := bare_type (e.depth + 1) e (by omega) hF
    simp only [bareSchema]
    exact build_ptr_ok hty.1 hty.2.1 (hb m' (by omega))
  case struct nm pkg fs =>
    rw [bareCodec_struct] at h
    by_cases hok : structOk fs = true
    · simp only [hok, if_true, Option.map_eq_some_iff] at h
      obtain ⟨cs, hcs, rfl⟩ := h
      obtain ⟨hF, hb⟩ := buildFields_tie N ih fs fs [] cs rfl hok hcs
      refine ⟨by simp [Frag, hok, hF], fun m hm => ?_⟩
      simp only [GoType.bfuel] at hm
      obtain ⟨m', rfl⟩ : ∃ m', m = m' + 2 := ⟨m - 2, by omega⟩
      simp only [bareSchema]
      exact build_record_ok (hb m' (by omega))
    · simp [hok] at h
  case int w =>
    simp only [bareCodec] at h
    split at h
    · rename_i hw
      simp only [Option.some.injEq] at h; subst h
      refine ⟨by rcases hw with rfl | rfl | rfl <;> rfl, fun m hm => ?_⟩
      simp only [GoType.bfuel] at hm
      obtain ⟨m', rfl⟩ : ∃ m', m = m' + 2 := ⟨m - 2, by omega⟩
      rcases hw with rfl | rfl | rfl <;>
        simp [bareSchema, buildCodec, Schema.prim, Schema.type, regLookup, buildKind, GoType.strip, buildLong]
    · contradiction
  case nullT k =>
    simp only [bareCodec, Option.some.injEq] at h; subst h
    refine ⟨rfl, fun m hm => ?_⟩
    simp only [GoType.bfuel] at hm
    obtain ⟨m', rfl⟩ : ∃ m', m = m' + 1 := ⟨m - 1, by omega⟩
    have hty := nullInnerS_type k
    rw [bareSchema, buildCodec_reg libReg m' _ (.nullT k) oe (buildNull k) hty.1 hty.2.1 (by intro e he; cases he) rfl]
    cases k <;> rfl
  case time =>
    simp only [bareCodec, Option.some.injEq] at h; subst h
    refine ⟨rfl, fun m hm => ?_⟩
    simp only [GoType.bfuel] at hm
    obtain ⟨m', rfl⟩ : ∃ m', m = m' + 1 := ⟨m - 1, by omega⟩
    rw [bareSchema, buildCodec_reg libReg m' _ .time oe buildTime (by decide) (by decide) (by intro e he; cases he) rfl]
    rfl
  all_goals (simp only [bareCodec] at h; try contradiction)
  all_goals (simp only [Option.some.injEq] at h; subst h)
  all_goals (refine ⟨rfl, fun m hm => ?_⟩; simp only [GoType.bfuel] at hm)
  all_goals (obtain ⟨m', rfl⟩ : ∃ m', m = m' + 2 := ⟨m - 2, by omega⟩)
  all_goals simp [bareSchema, buildCodec, Schema.prim, Schema.type, regLookup, buildKind, GoType.strip, libReg]

theorem tieAt : ∀ N, TieAt N
  | 0 => tie_zero
  | N + 1 => ⟨tie_bare_step N (tieAt N), tie_field_step N (tieAt N)⟩

/-! ## the fragment is the domain of `fieldCodec` -/

theorem allSome_of_forall {α : Type} : ∀ (l : List (Option α)), (∀ x ∈ l, ∃ a, x = some a) → ∃ r, allSome l = some r
  | [], _ => ⟨[], rfl⟩
  | none :: _, h => by obtain ⟨a, ha⟩ := h none List.mem_cons_self; cases ha
  | some a :: l, h => by
    obtain ⟨r, hr⟩ := allSome_of_forall l (fun x hx => h x (List.mem_cons_of_mem _ hx))
    exact ⟨a :: r, by simp [allSome, hr]⟩

theorem field_of_bare {n : Nat} {T : GoType} (h : ∀ oe, ∃ cb, bareCodec n T oe = some cb) (oe : Bool) :
    ∃ c, fieldCodec (n + 1) T oe = some c := by
  simp only [fieldCodec]
  split
  · obtain ⟨cb, hcb⟩ := h oe; exact ⟨_, by rw [hcb]; rfl⟩
  · split
    · obtain ⟨cb, hcb⟩ := h true; exact ⟨_, by rw [hcb]; rfl⟩
    · exact h false

/-- on the fragment `bareCodec` is defined from budget `2 * depth + 1` on -/
theorem frag_bare : ∀ d (T : GoType), T.depth < d → Frag T = true →
    ∀ N, 2 * T.depth + 1 ≤ N → ∀ oe, ∃ cb, bareCodec N T oe = some cb := by
  intro d
  induction d with
  | zero => intro T h; omega
  | succ d ih =>
    intro T hd hT N hN oe
    obtain ⟨n, rfl⟩ : ∃ n, N = n + 1 := ⟨N - 1, by omega⟩
    have ihf : ∀ e : GoType, e.depth < d → Frag e = true → 2 * e.depth + 2 ≤ n → ∀ oe, ∃ c, fieldCodec n e oe = some c := by
      intro e hed hF hn oe
      obtain ⟨k, rfl⟩ : ∃ k, n = k + 1 := ⟨n - 1, by omega⟩
      exact field_of_bare (fun oe => ih e hed hF k (by omega) oe) oe
    cases T <;> simp only [Frag] at hT <;> try contradiction
    case int w =>
      have hw : w = 16 ∨ w = 32 ∨ w = 64 := by
        rcases (by simpa using hT : (w = 16 ∨ w = 32) ∨ w = 64) with (h | h) | h <;> simp [h]
      exact ⟨_, by simp only [bareCodec, hw, if_true] <;> rfl⟩
    case slice e =>
      simp only [GoType.depth] at hd hN
      rw [bareCodec_slice]
      by_cases hu : isU8n e = true
      · exact ⟨_, by simp only [hu, if_true] <;> rfl⟩
      · have hu' : isU8n e = false := by simpa using hu
        have hF : Frag e = true := by simpa [hu'] using hT
        obtain ⟨c, hc⟩ := ihf e (by omega) hF (by omega) false
        exact ⟨_, by simp only [hu', Bool.false_eq_true, if_false, hc]; rfl⟩
    case map k v =>
      simp only [GoType.depth] at hd hN
      simp only [Bool.and_eq_true] at hT
      rw [bareCodec_map]
      obtain ⟨c, hc⟩ := ihf v (by omega) hT.2 (by omega) false
      exact ⟨_, by simp only [hT.1, if_true, hc]; rfl⟩
    case ptr e =>
      simp only [GoType.depth] at hd hN
      rw [bareCodec_ptr]
      obtain ⟨c, hc⟩ := ih e (by omega) hT n (by omega) false
      exact ⟨_, by rw [hc]; rfl⟩
    case struct nm pkg fs =>
      simp only [GoType.depth] at hd hN
      simp only [Bool.and_eq_true] at hT
      rw [bareCodec_struct]
      obtain ⟨cs, hcs⟩ := allSome_of_forall ((encFields fs).map fun f => fieldCodec n f.type (omitEmptyTag f.jsonTag))
        (by
          intro x hx
          obtain ⟨f, hf, rfl⟩ := List.mem_map.mp hx
          have hf' : f ∈ fs ∧ nameForField f ≠ "-" := by simpa [encFields] using hf
          have hdl := GoField.depth_le_depthList hf'.1
          exact ihf f.type (by omega) (fragFields_mem hT.2 hf'.1 hf'.2) (by omega) _)
      exact ⟨_, by simp only [hT.1, if_true, hcs]; rfl⟩
    all_goals exact ⟨_, by simp only [bareCodec] <;> rfl⟩

/-- on the fragment `fieldCodec` is defined from budget `2 * depth + 2` on -/
theorem frag_field (T : GoType) (hT : Frag T = true) (N : Nat) (hN : 2 * T.depth + 2 ≤ N) (oe : Bool) :
    ∃ c, fieldCodec N T oe = some c := by
  obtain ⟨n, rfl⟩ : ∃ n, N = n + 1 := ⟨N - 1, by omega⟩
  exact field_of_bare (fun oe => frag_bare (T.depth + 1) T (by omega) hT n (by omega) oe) oe

/-- **The fragment is exactly the domain of `fieldCodec`.** -/
theorem frag_iff (T : GoType) : Frag T = true ↔ ∃ N c, fieldCodec N T false = some c :=
  ⟨fun h => ⟨2 * T.depth + 2, frag_field T h _ (Nat.le_refl _) false⟩,
   fun ⟨N, c, h⟩ => ((tieAt N).field T false c h).1⟩

/-! ## headline -/

/-- **The codec of a type, from `fieldCodec`**: wherever `fieldCodec N T false = some c`, schema
generation for `T` succeeds with `genSchema T` (any stack budget above the nesting depth of `T`) and
`buildCodec` on that schema, for `T`, with the library's registry and any fuel from `T.bfuel + 3` on,
yields exactly `c`. -/
theorem built_of_fieldCodec {N : Nat} {T : GoType} {c : Codec} (h : fieldCodec N T false = some c)
    (n m : Nat) (hn : T.depth < n) (hm : T.bfuel + 3 ≤ m) :
    schemaForType SReg.empty TEnv.empty n [] T = .ok (genSchema T) ∧
      buildCodec libReg m (genSchema T) (some T) false = .ok c := by
  obtain ⟨hF, hb⟩ := (tieAt N).field T false c h
  refine ⟨gen_frag T hF n hn, ?_⟩
  have := hb m hm
  rwa [omitWrap_false] at this

/-- **The codec the library builds for a Go type is `fieldCodec` of that type.** For every Go type `T`
of the fragment (`Frag`), every stack budget `n` above its nesting depth, every build fuel
`m ≥ T.bfuel + 3` and every budget `N ≥ 2 * T.depth + 2`: schema generation yields a schema `s`
(namely `genSchema T`), `buildCodec` with the library's registry (`time.Time`, `null.*` registered, no
user registrations) builds a codec `c` from `s` for `T`, and `c` is `fieldCodec N T false`. -/
theorem built_is_fieldCodec (T : GoType) (hT : Frag T = true) (n m N : Nat)
    (hn : T.depth < n) (hm : T.bfuel + 3 ≤ m) (hN : 2 * T.depth + 2 ≤ N) :
    ∃ s c, schemaForType SReg.empty TEnv.empty n [] T = .ok s ∧
      buildCodec libReg m s (some T) false = .ok c ∧ fieldCodec N T false = some c := by
  obtain ⟨c, hc⟩ := frag_field T hT N hN false
  obtain ⟨h1, h2⟩ := built_of_fieldCodec hc n m hn hm
  exact ⟨genSchema T, c, h1, h2, hc⟩

/-- the same for `builtCodec` (stack budget 100, build fuel 100) -/
theorem builtCodec_eq (T : GoType) (hT : Frag T = true) (hd : T.depth < 100) (hf : T.bfuel + 3 ≤ 100)
    (N : Nat) (hN : 2 * T.depth + 2 ≤ N) :
    (fieldCodec N T false).map Except.ok = some (builtCodec T) := by
  obtain ⟨c, hc⟩ := frag_field T hT N hN false
  obtain ⟨h1, h2⟩ := built_of_fieldCodec hc 100 100 hd hf
  simp only [builtCodec, h1, h2, hc, Option.map]

/-- `fieldCodec` does not depend on its budget once it is defined -/
theorem fieldCodec_budget {N N' : Nat} {T : GoType} {c c' : Codec} (h : fieldCodec N T false = some c)
    (h' : fieldCodec N' T false = some c') : c = c' := by
  have h1 := (built_of_fieldCodec h (T.depth + 1) (T.bfuel + 3) (by omega) (by omega)).2
  have h2 := (built_of_fieldCodec h' (T.depth + 1) (T.bfuel + 3) (by omega) (by omega)).2
  rw [h1] at h2
  cases h2; rfl

/-! ## the generated schema denotes an Avro schema -/

theorem classify_nullable {fa : Nat} {u : Schema} {a : ASchema} (h : classify fa u = some a) :
    classify (fa + 3) (nullableSchema u) = some (.union [.null, a]) := by
  obtain ⟨fa', rfl⟩ : ∃ fa', fa = fa' + 1 := by
    cases fa with
    | zero => simp [classify] at h
    | succ k => exact ⟨k, rfl⟩
  have h0 : classify (fa' + 1 + 1) (Schema.prim "null") = some .null := by
    simp [classify, Schema.prim, Schema.type]
  have h2 : classifyBranches (fa' + 1 + 2) [Schema.prim "null", u] = some [.null, a] := by
    simp [classifyBranches, h0, h]
  simp [classify, nullableSchema, Schema.type, Schema.union, h2]

theorem classify_array {fa : Nat} {u : Schema} {a : ASchema} (h : classify fa u = some a) :
    classify (fa + 1) (arraySchema u) = some (.array a) := by
  simp [classify, arraySchema, Schema.type, Schema.object, SchemaObject.items, h]

theorem classify_map {fa : Nat} {u : Schema} {a : ASchema} (h : classify fa u = some a) :
    classify (fa + 1) (mapSchema u) = some (.map a) := by
  simp [classify, mapSchema, Schema.type, Schema.object, SchemaObject.values, h]

theorem classify_record {fa : Nat} {nm pkg : String} {sfs : List SchemaField} {ns : List String} {as : List ASchema}
    (h : classifyFields fa sfs = some (ns, as)) :
    classify (fa + 1) (recordSchema nm pkg sfs) = some (.record ns as) := by
  simp [classify, recordSchema, Schema.type, Schema.object, SchemaObject.fields, h]

theorem classifyFields_frag : ∀ fs : List GoField,
    (∀ f ∈ fs, nameForField f ≠ "-" → ∀ fa, f.type.bfuel + 3 ≤ fa →
      ∃ a, classify fa (omitWrap (omitEmptyTag f.jsonTag) (genSchema f.type)) = some a) →
    ∀ fa, GoField.bfuelList fs + fs.length + 4 ≤ fa → ∃ r, classifyFields fa (fieldSchemas fs) = some r
  | [], _, fa, hfa => by
    obtain ⟨k, rfl⟩ : ∃ k, fa = k + 1 := ⟨fa - 1, by omega⟩
    exact ⟨_, rfl⟩
  | f :: fs, h, fa, hfa => by
    rw [bfuelList_cons, List.length_cons] at hfa
    have ih := classifyFields_frag fs (fun g hg => h g (List.mem_cons_of_mem _ hg))
    rw [fieldSchemas_cons]
    by_cases hn : nameForField f = "-"
    · simp only [hn, beq_self_eq_true, if_true]
      exact ih fa (by omega)
    · have hn' : (nameForField f == "-") = false := by simpa using hn
      simp only [hn', Bool.false_eq_true, if_false]
      obtain ⟨k, rfl⟩ : ∃ k, fa = k + 1 := ⟨fa - 1, by omega⟩
      obtain ⟨a, ha⟩ := h f List.mem_cons_self hn k (by omega)
      obtain ⟨⟨ns, as⟩, hr⟩ := ih k (by omega)
      exact ⟨_, by simp only [classifyFields, SchemaField.type, SchemaField.name, ha, hr] <;> rfl⟩

theorem classify_wrap {T : GoType} (hF : Frag T = true)
    (h : ∀ fa, T.bfuel ≤ fa → ∃ a, classify fa (bareSchema T) = some a) (oe : Bool) (fa : Nat)
    (hfa : T.bfuel + 3 ≤ fa) : ∃ a, classify fa (omitWrap oe (genSchema T)) = some a := by
  obtain ⟨k, rfl⟩ : ∃ k, fa = k + 3 := ⟨fa - 3, by omega⟩
  obtain ⟨a, ha⟩ := h k (by omega)
  have hty := bare_type (T.depth + 1) T (by omega) hF
  by_cases hu : unionTyped T = true
  · simp only [genSchema, wrapN, hu, if_true, omitWrap_union]
    exact ⟨_, classify_nullable ha⟩
  · have hu' : unionTyped T = false := by simpa using hu
    simp only [genSchema, wrapN, hu', Bool.false_eq_true, if_false]
    cases oe with
    | true => rw [omitWrap_true hty.1]; exact ⟨_, classify_nullable ha⟩
    | false => rw [omitWrap_false]; exact h (k + 3) (by omega)

theorem classify_bare : ∀ d (T : GoType), T.depth < d → Frag T = true →
    ∀ fa, T.bfuel ≤ fa → ∃ a, classify fa (bareSchema T) = some a := by
  intro d
  induction d with
  | zero => intro T h; omega
  | succ d ih =>
    intro T hd hT fa hfa
    cases T <;> simp only [Frag] at hT <;> try contradiction
    case slice e =>
      simp only [GoType.depth] at hd
      simp only [GoType.bfuel] at hfa
      obtain ⟨k, rfl⟩ : ∃ k, fa = k + 1 := ⟨fa - 1, by omega⟩
      simp only [bareSchema]
      by_cases hu : isU8n e = true
      · simp only [hu, if_true]
        exact ⟨_, by simp [classify, Schema.prim, Schema.type] <;> rfl⟩
      · have hu' : isU8n e = false := by simpa using hu
        have hF : Frag e = true := by simpa [hu'] using hT
        simp only [hu', Bool.false_eq_true, if_false]
        obtain ⟨a, ha⟩ := classify_wrap hF (ih e (by omega) hF) false k (by omega)
        rw [omitWrap_false] at ha
        exact ⟨_, classify_array ha⟩
    case map k v =>
      simp only [GoType.depth] at hd
      simp only [GoType.bfuel] at hfa
      simp only [Bool.and_eq_true] at hT
      obtain ⟨k, rfl⟩ : ∃ k, fa = k + 1 := ⟨fa - 1, by omega⟩
      simp only [bareSchema]
      obtain ⟨a, ha⟩ := classify_wrap hT.2 (ih v (by omega) hT.2) false k (by omega)
      rw [omitWrap_false] at ha
      exact ⟨_, classify_map ha⟩
    case ptr e =>
      simp only [GoType.depth] at hd
      simp only [GoType.bfuel] at hfa
      simp only [bareSchema]
      exact ih e (by omega) hT fa (by omega)
    case struct nm pkg fs =>
      simp only [GoType.depth] at hd
      simp only [GoType.bfuel] at hfa
      simp only [Bool.and_eq_true] at hT
      obtain ⟨k, rfl⟩ : ∃ k, fa = k + 1 := ⟨fa - 1, by omega⟩
      simp only [bareSchema]
      obtain ⟨⟨ns, as⟩, hr⟩ := classifyFields_frag fs (fun f hf hn fa hfa => by
        have hdl := GoField.depth_le_depthList hf
        have hF := fragFields_mem hT.2 hf hn
        exact classify_wrap hF (ih f.type (by omega) hF) _ fa hfa) k (by omega)
      exact ⟨_, classify_record hr⟩
    case nullT k =>
      simp only [GoType.bfuel] at hfa
      obtain ⟨j, rfl⟩ : ∃ j, fa = j + 1 := ⟨fa - 1, by omega⟩
      cases k <;> exact ⟨_, by simp [bareSchema, nullInnerS, classify, Schema.prim, Schema.type] <;> rfl⟩
    all_goals
      simp only [GoType.bfuel] at hfa
      obtain ⟨j, rfl⟩ : ∃ j, fa = j + 1 := ⟨fa - 1, by omega⟩
      exact ⟨_, by simp [bareSchema, classify, Schema.prim, Schema.type] <;> rfl⟩

/-- **The generated schema of a type of the fragment denotes an Avro schema** (`classify`: the
schema.go representation ↦ the specification's `ASchema`), with any fuel from `T.bfuel + 3` on. -/
theorem classify_frag (T : GoType) (hT : Frag T = true) (fa : Nat) (hfa : T.bfuel + 3 ≤ fa) :
    ∃ a, classify fa (genSchema T) = some a := by
  have := classify_wrap hT (classify_bare (T.depth + 1) T (by omega) hT) false fa hfa
  rwa [omitWrap_false] at this

/-! non-vacuity: `tBig` (NormSpec.lean) has every case of the fragment; `tSkip` has skipped fields
(unexported, `json:"-"`, `bq:"-"`) of types outside the fragment, also in a nested struct -/

example : Frag tBig = true := by decide
example : tBig.depth = 5 ∧ tBig.bfuel = 36 := by decide

example : (fieldCodec 20 tBig false).map Except.ok = some (builtCodec tBig) :=
  builtCodec_eq tBig (by decide) (by decide) (by decide) 20 (by decide)

def tSkip : GoType :=
  .struct "Ex" "main" [.mk "a" false "" "" .chan, .mk "B" true "b,omitempty" "" (.int 32), .mk "C" true "-" "" .iface,
    .mk "D" true "" "-" (.int 8),
    .mk "E" true "" "" (.ptr (.struct "In" "main" [.mk "x" false "" "" .string, .mk "Y" true "" "" .time]))]

example : Frag tSkip = true := by decide

example : fieldCodec 8 tSkip false = some (.record
    [.unit, .int 0, .unit, .int 0, .ptr none]
    [.unionOne (.int 32 true) 1,
     .unionOne (.pointer (.record [.str [], .time TimeVal.zero] [.unionOne .timeString 1] [some 1])) 1]
    [some 1, some 4]) := by rfl

example : ∃ s c, schemaForType SReg.empty TEnv.empty 4000 [] tSkip = .ok s ∧
    buildCodec libReg 200 s (some tSkip) false = .ok c ∧ fieldCodec 8 tSkip false = some c :=
  built_is_fieldCodec tSkip (by decide) 4000 200 8 (by decide) (by decide) (by decide)

end Avro
