import AvroModel.Lemmas.Outcome
/-!
Monotonicity of the ten fuel-indexed decoder functions in the step budget: once a call returns
anything but `.fuel`, every larger budget returns the same outcome.
-/
namespace Avro

/-- `o'` (the outcome with a larger budget) refines `o`: they agree unless `o` ran out of budget -/
def Outcome.le {α : Type} (o o' : Outcome α) : Prop := o ≠ .fuel → o' = o

theorem Outcome.le_refl {α : Type} (o : Outcome α) : Outcome.le o o := fun _ => rfl

theorem Outcome.le_fuel {α : Type} (o : Outcome α) : Outcome.le .fuel o := fun h => absurd rfl h

theorem Outcome.bind_le {α β : Type} {o o' : Outcome α} {f f' : α → Outcome β}
    (h1 : Outcome.le o o') (h2 : ∀ a, Outcome.le (f a) (f' a)) :
    Outcome.le (Outcome.bind o f) (Outcome.bind o' f') := by
  cases o with
  | fuel => exact Outcome.le_fuel _
  | ok a => rw [h1 (by simp)]; exact h2 a
  | err => rw [h1 (by simp)]; exact Outcome.le_refl _
  | panic => rw [h1 (by simp)]; exact Outcome.le_refl _
  | stuck => rw [h1 (by simp)]; exact Outcome.le_refl _

variable (env : Env)

/-- all ten mutually recursive functions: budget `m` refines budget `n` -/
structure MonoAt (n m : Nat) : Prop where
  read : ∀ c bs dst, Outcome.le (read env n c bs dst) (read env m c bs dst)
  readFields : ∀ cs ts bs fs, Outcome.le (readFields env n cs ts bs fs) (readFields env m cs ts bs fs)
  readArrayBlocks : ∀ item bs acc,
    Outcome.le (readArrayBlocks env n item bs acc) (readArrayBlocks env m item bs acc)
  readItems : ∀ item k bs acc, Outcome.le (readItems env n item k bs acc) (readItems env m item k bs acc)
  readMapBlocks : ∀ val bs ks vs,
    Outcome.le (readMapBlocks env n val bs ks vs) (readMapBlocks env m val bs ks vs)
  readMapItems : ∀ val k bs ks vs,
    Outcome.le (readMapItems env n val k bs ks vs) (readMapItems env m val k bs ks vs)
  skip : ∀ c bs, Outcome.le (skip env n c bs) (skip env m c bs)
  skipFields : ∀ cs bs, Outcome.le (skipFields env n cs bs) (skipFields env m cs bs)
  skipBlocks : ∀ keyed item bs, Outcome.le (skipBlocks env n keyed item bs) (skipBlocks env m keyed item bs)
  skipItems : ∀ keyed item k bs,
    Outcome.le (skipItems env n keyed item k bs) (skipItems env m keyed item k bs)

/-- closes goals `Outcome.le o o'` where `o'` is `o` with the recursive calls given a larger budget -/
syntax "mono_tac" : tactic
macro_rules
  | `(tactic| mono_tac) => `(tactic| repeat' (first
      | exact Outcome.le_refl _
      | exact MonoAt.read (by assumption) _ _ _
      | exact MonoAt.readFields (by assumption) _ _ _ _
      | exact MonoAt.readArrayBlocks (by assumption) _ _ _
      | exact MonoAt.readItems (by assumption) _ _ _ _
      | exact MonoAt.readMapBlocks (by assumption) _ _ _ _
      | exact MonoAt.readMapItems (by assumption) _ _ _ _ _
      | exact MonoAt.skip (by assumption) _ _
      | exact MonoAt.skipFields (by assumption) _ _
      | exact MonoAt.skipBlocks (by assumption) _ _ _
      | exact MonoAt.skipItems (by assumption) _ _ _ _
      | (refine Outcome.bind_le ?_ (fun _ => ?_))
      | split))

theorem monoAt_zero (m : Nat) : MonoAt env 0 m := by
  constructor <;> intros <;> simp only [read, readFields, readArrayBlocks, readItems, readMapBlocks,
    readMapItems, skip, skipFields, skipBlocks, skipItems] <;> exact Outcome.le_fuel _

theorem monoAt_succ {n m : Nat} (ih : MonoAt env n m) : MonoAt env (n + 1) (m + 1) := by
  constructor
  · intro c bs dst
    cases c <;> simp only [read, Outcome.bind_eq, Outcome.pure_eq]
    all_goals mono_tac
  · intro cs ts bs fs
    rcases cs with _ | ⟨c, cs⟩
    · simp only [readFields]; exact Outcome.le_refl _
    · rcases ts with _ | ⟨t, ts⟩
      · simp only [readFields]; exact Outcome.le_refl _
      · cases t <;> simp only [readFields, Outcome.bind_eq] <;> mono_tac
  · intro item bs acc
    simp only [readArrayBlocks, Outcome.bind_eq, Outcome.pure_eq]; mono_tac
  · intro item k bs acc
    cases k <;> simp only [readItems, Outcome.bind_eq] <;> mono_tac
  · intro val bs ks vs
    simp only [readMapBlocks, Outcome.bind_eq, Outcome.pure_eq]; mono_tac
  · intro val k bs ks vs
    cases k <;> simp only [readMapItems, Outcome.bind_eq] <;> mono_tac
  · intro c bs
    cases c <;> simp only [skip, Outcome.bind_eq, Outcome.pure_eq]
    all_goals mono_tac
  · intro cs bs
    cases cs <;> simp only [skipFields, Outcome.bind_eq] <;> mono_tac
  · intro keyed item bs
    simp only [skipBlocks, Outcome.bind_eq, Outcome.pure_eq]; mono_tac
  · intro keyed item k bs
    cases k <;> simp only [skipItems, Outcome.bind_eq, Outcome.pure_eq] <;> mono_tac

/-- budget `n + k` refines budget `n` -/
theorem monoAt : ∀ n k, MonoAt env n (n + k)
  | 0, k => monoAt_zero env _
  | n + 1, k => by
    have := monoAt_succ env (monoAt n k)
    rwa [show n + k + 1 = n + 1 + k by omega] at this

theorem monoAt_le {n m : Nat} (h : n ≤ m) : MonoAt env n m := by
  obtain ⟨k, rfl⟩ := Nat.exists_eq_add_of_le h
  exact monoAt env n k

/-! ### The ten monotonicity statements in plain form -/

theorem read_mono {n m : Nat} (h : n ≤ m) {c : Codec} {bs : Bytes} {dst : GoVal}
    (hr : read env n c bs dst ≠ .fuel) : read env m c bs dst = read env n c bs dst :=
  (monoAt_le env h).read c bs dst hr

theorem readFields_mono {n m : Nat} (h : n ≤ m) {cs : List Codec} {ts : List (Option Nat)} {bs : Bytes}
    {fs : List GoVal} (hr : readFields env n cs ts bs fs ≠ .fuel) :
    readFields env m cs ts bs fs = readFields env n cs ts bs fs :=
  (monoAt_le env h).readFields cs ts bs fs hr

theorem readArrayBlocks_mono {n m : Nat} (h : n ≤ m) {item : Codec} {bs : Bytes} {acc : List GoVal}
    (hr : readArrayBlocks env n item bs acc ≠ .fuel) :
    readArrayBlocks env m item bs acc = readArrayBlocks env n item bs acc :=
  (monoAt_le env h).readArrayBlocks item bs acc hr

theorem readItems_mono {n m : Nat} (h : n ≤ m) {item : Codec} {k : Nat} {bs : Bytes} {acc : List GoVal}
    (hr : readItems env n item k bs acc ≠ .fuel) :
    readItems env m item k bs acc = readItems env n item k bs acc :=
  (monoAt_le env h).readItems item k bs acc hr

theorem readMapBlocks_mono {n m : Nat} (h : n ≤ m) {val : Codec} {bs : Bytes} {ks : List Bytes}
    {vs : List GoVal} (hr : readMapBlocks env n val bs ks vs ≠ .fuel) :
    readMapBlocks env m val bs ks vs = readMapBlocks env n val bs ks vs :=
  (monoAt_le env h).readMapBlocks val bs ks vs hr

theorem readMapItems_mono {n m : Nat} (h : n ≤ m) {val : Codec} {k : Nat} {bs : Bytes} {ks : List Bytes}
    {vs : List GoVal} (hr : readMapItems env n val k bs ks vs ≠ .fuel) :
    readMapItems env m val k bs ks vs = readMapItems env n val k bs ks vs :=
  (monoAt_le env h).readMapItems val k bs ks vs hr

theorem skip_mono {n m : Nat} (h : n ≤ m) {c : Codec} {bs : Bytes}
    (hr : skip env n c bs ≠ .fuel) : skip env m c bs = skip env n c bs :=
  (monoAt_le env h).skip c bs hr

theorem skipFields_mono {n m : Nat} (h : n ≤ m) {cs : List Codec} {bs : Bytes}
    (hr : skipFields env n cs bs ≠ .fuel) : skipFields env m cs bs = skipFields env n cs bs :=
  (monoAt_le env h).skipFields cs bs hr

theorem skipBlocks_mono {n m : Nat} (h : n ≤ m) {keyed : Bool} {item : Codec} {bs : Bytes}
    (hr : skipBlocks env n keyed item bs ≠ .fuel) :
    skipBlocks env m keyed item bs = skipBlocks env n keyed item bs :=
  (monoAt_le env h).skipBlocks keyed item bs hr

theorem skipItems_mono {n m : Nat} (h : n ≤ m) {keyed : Bool} {item : Codec} {k : Nat} {bs : Bytes}
    (hr : skipItems env n keyed item k bs ≠ .fuel) :
    skipItems env m keyed item k bs = skipItems env n keyed item k bs :=
  (monoAt_le env h).skipItems keyed item k bs hr

end Avro

