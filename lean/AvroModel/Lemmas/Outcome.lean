import AvroModel.Codec
/-! Lemmas about the `Outcome` monad and the read primitives. -/
namespace Avro

@[simp] theorem Outcome.bind_ok' {α β : Type} (a : α) (f : α → Outcome β) : Outcome.bind (.ok a) f = f a := rfl
@[simp] theorem Outcome.bind_err' {α β : Type} (f : α → Outcome β) : Outcome.bind (.err : Outcome α) f = .err := rfl
@[simp] theorem Outcome.bind_panic' {α β : Type} (f : α → Outcome β) : Outcome.bind (.panic : Outcome α) f = .panic := rfl
@[simp] theorem Outcome.bind_stuck' {α β : Type} (f : α → Outcome β) : Outcome.bind (.stuck : Outcome α) f = .stuck := rfl
@[simp] theorem Outcome.bind_fuel' {α β : Type} (f : α → Outcome β) : Outcome.bind (.fuel : Outcome α) f = .fuel := rfl

@[simp] theorem Outcome.bind_eq {α β : Type} (o : Outcome α) (f : α → Outcome β) : (o >>= f) = Outcome.bind o f := rfl
@[simp] theorem Outcome.pure_eq {α : Type} (a : α) : (pure a : Outcome α) = .ok a := rfl

theorem Outcome.bind_ne_panic {α β : Type} {o : Outcome α} {f : α → Outcome β}
    (h1 : o ≠ .panic) (h2 : ∀ a, o = .ok a → f a ≠ .panic) : Outcome.bind o f ≠ .panic := by
  cases o with
  | ok a => exact h2 a rfl
  | panic => exact absurd rfl h1
  | _ => simp [Outcome.bind]

theorem Outcome.bind_eq_ok {α β : Type} {o : Outcome α} {f : α → Outcome β} {b : β} :
    Outcome.bind o f = .ok b ↔ ∃ a, o = .ok a ∧ f a = .ok b := by
  cases o <;> simp [Outcome.bind]

/-- `ReadBuf.Next` never panics: the guard `l < 0 || l > len(d.buf)-d.i` makes the slice expression safe. -/
theorem next_ne_panic (l : Int) (bs : Bytes) : next l bs ≠ .panic := by
  unfold next
  split
  · simp
  · rename_i h
    have : 0 ≤ l ∧ l.toNat ≤ bs.length := by omega
    simp [this]

theorem rdVarint_ne_panic (bs : Bytes) : rdVarint bs ≠ .panic := by
  unfold rdVarint; split <;> simp

theorem rdInt_ne_panic (w : Nat) (bs : Bytes) : rdInt w bs ≠ .panic := by
  unfold rdInt; split <;> simp

theorem rdByte_ne_panic (bs : Bytes) : rdByte bs ≠ .panic := by
  cases bs <;> simp [rdByte]

theorem skipN_ne_panic (l : Int) (bs : Bytes) : skipN l bs ≠ .panic := by
  unfold skipN
  have := next_ne_panic l bs
  split <;> simp_all

theorem skipVar_ne_panic (bs : Bytes) : skipVar bs ≠ .panic := by
  unfold skipVar; split <;> simp

theorem skipLen_ne_panic (bs : Bytes) : skipLen bs ≠ .panic := by
  unfold skipLen; split
  · exact skipN_ne_panic _ _
  · simp

theorem blockCount_ne_panic (c : Int) (r : Bytes) : blockCount c r ≠ .panic := by
  unfold blockCount
  split
  · simp only [Outcome.bind_eq]
    apply Outcome.bind_ne_panic (rdVarint_ne_panic r)
    intro a _; simp
  · simp

theorem arrayBlockCount_ne_panic (c : Int) (r : Bytes) (len : Nat) : arrayBlockCount c r len ≠ .panic := by
  unfold arrayBlockCount
  apply Outcome.bind_ne_panic
  · split
    · apply Outcome.bind_ne_panic (rdVarint_ne_panic r)
      intro a _; simp
    · simp
  · intro a _; split <;> simp

end Avro
