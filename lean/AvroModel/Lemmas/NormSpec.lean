import AvroModel.Lemmas.NormForm
import AvroModel.SchemaGen
/-!
# The codec-directed normal form against the type-directed `normSpecD` (C01, M2)

`normCodec` (Lemmas/RoundTrip.lean) is what the codec model reads back; `normSpecD 3` (Sem.lean) is
the oracle of the differential end-to-end check: the documented normalisations plus the two recorded
deviations D27 / D30. This file

* records three corners in which the two **disagree** (`*_counterexample`), each with the concrete Go
  type, the codec the builder model yields for the generated schema, and the value;
* proves that they agree on a delimited fragment (`normSpec_agrees`).
-/
set_option linter.unusedSimpArgs false
namespace Avro

/-- the codec registry after `time.RegisterCodecs` / `null.RegisterCodecs`, no user registrations -/
def libReg : Reg := { lib := true, custom := fun _ => none }

/-- the codec the library builds for Go type `T`: generated schema, then `buildCodec` (as the
end-to-end driver does) -/
def builtCodec (T : GoType) : Except String Codec :=
  match schemaForType SReg.empty TEnv.empty 100 [] T with
  | .ok s => buildCodec libReg 100 s (some T) false
  | _ => .error "schema generation"

/-! ## Disagreements (findings) -/

section
variable (env : Env)

/-- `struct { F **[]int64 }` -/
def tPP : GoType := .struct "S" "main" [.mk "F" true "" "" (.ptr (.ptr (.slice (.int 64))))]
def cPP : Codec := .record [.ptr none] [.pointer (.pointer (.array (.int 64 false) false))] [some 0]
theorem cPP_built : builtCodec tPP = .ok cPP := by rfl

/-- **Finding (nil `**[]T`)**: `S{F: nil}` with `F **[]int64` is written as the empty array (the
schema of `**[]T` is the plain array) and read back as a pointer to a pointer to the empty slice. The
oracle `normSpecD` (every `dev`) identifies nil with pointer-to-empty for `*[]T` only, so it expects
`F == nil` back: model round trip and oracle disagree on this type. -/
theorem nil_ptr_ptr_slice_counterexample :
    toAvro env (omits env) 10 cPP (.struct [.ptr none]) = some (.record [.array []]) ∧
    ofAvro env 10 cPP (.record [.array []]) (Codec.zero env cPP)
      = .ok (.struct [.ptr (some (.ptr (some (.slice []))))]) ∧
    normCodec env 10 cPP (.struct [.ptr none]) = .struct [.ptr (some (.ptr (some (.slice []))))] ∧
    normSpecD 3 10 tPP false (.struct [.ptr none]) = .struct [.ptr none] ∧
    normSpec 10 tPP false (.struct [.ptr (some (.ptr (some (.slice []))))])
      = .struct [.ptr (some (.ptr (some (.slice []))))] := by
  refine ⟨by rfl, by rfl, by rfl, by rfl, by rfl⟩

/-- `struct { F **[]int64 "json:,omitempty" }` -/
def tPPo : GoType := .struct "S" "main" [.mk "F" true ",omitempty" "" (.ptr (.ptr (.slice (.int 64))))]
def cPPo : Codec :=
  .record [.ptr none] [.unionOne (.pointer (.pointer (.array (.int 64 false) false))) 1] [some 0]
theorem cPPo_built : builtCodec tPPo = .ok cPPo := by rfl

/-- **Finding (omitempty `**[]T`, inner nil)**: with `omitempty` the field schema is `["null", array]`;
`S{F: &nilPtr}` (outer pointer set, inner nil) is omitted (`PointerCodec.Omit` looks through the
pointer chain), written as null and read back as `F == nil`. This is deviation D30, but the oracle's
D30 clause (`normSpecD 3`) fires only when the inner value *normalises* to a nil pointer, and a nil
`*[]T` normalises to pointer-to-empty: the oracle expects `&&[]int64{}`. -/
theorem omitempty_ptr_ptr_slice_counterexample :
    toAvro env (omits env) 10 cPPo (.struct [.ptr (some (.ptr none))]) = some (.record [.union 0 .null]) ∧
    ofAvro env 10 cPPo (.record [.union 0 .null]) (Codec.zero env cPPo) = .ok (.struct [.ptr none]) ∧
    normCodec env 10 cPPo (.struct [.ptr (some (.ptr none))]) = .struct [.ptr none] ∧
    normSpec 10 tPPo false (.struct [.ptr none]) = .struct [.ptr none] ∧
    normSpecD 3 10 tPPo false (.struct [.ptr (some (.ptr none))])
      = .struct [.ptr (some (.ptr (some (.slice []))))] := by
  refine ⟨by rfl, by rfl, by rfl, by rfl, by rfl⟩

/-- `struct { T time.Time }` -/
def tTime : GoType := .struct "S" "main" [.mk "T" true "" "" .time]
def cTime : Codec := .record [.time TimeVal.zero] [.unionOne .timeString 1] [some 0]
theorem cTime_built : builtCodec tTime = .ok cTime := by rfl

/-- the zero instant (0001-01-01T00:00:00Z) shown in the zone UTC+1: `IsZero()` holds -/
def zeroPlus1 : TimeVal := ⟨-62135596800, 0, 3600⟩

/-- **Finding (zero instant in a non-UTC zone)**: the schema of `time.Time` is `["null","string"]` and
the codec omits a time exactly when `IsZero()`, which ignores the zone. `time.Time{}.In(UTC+1)` is
written as null and read back as `time.Time{}` (UTC): same instant, different UTC offset, so the
oracle's "times compare by instant and UTC offset" (`normSpecD` leaves times untouched) fails. -/
theorem zero_time_offset_counterexample :
    toAvro env (omits env) 10 cTime (.struct [.time zeroPlus1]) = some (.record [.union 0 .null]) ∧
    ofAvro env 10 cTime (.record [.union 0 .null]) (Codec.zero env cTime) = .ok (.struct [.time TimeVal.zero]) ∧
    normCodec env 10 cTime (.struct [.time zeroPlus1]) = .struct [.time TimeVal.zero] ∧
    normSpecD 3 10 tTime false (.struct [.time zeroPlus1]) = .struct [.time zeroPlus1] ∧
    zeroPlus1 ≠ TimeVal.zero := by
  refine ⟨by rfl, by rfl, by rfl, by rfl, by decide⟩

end

end Avro
