import AvroModel.Lemmas.NormForm
import AvroModel.SchemaGen
/-!
# The codec-directed normal form against the type-directed `normSpecD` (C01, M2)

`normCodec` (Lemmas/RoundTrip.lean) is what the codec model reads back; `normSpecD` (Sem.lean) is the
oracle of the differential end-to-end check: the documented normalisations (`dev = 0`) plus the
recorded deviations D27 / D30 / D32 (`dev = 7`). This file

* records the corners that were found while proving the agreement: two gaps of the earlier oracle
  around `**[]T` (now part of `normSpecD`: pointer chains to a slice or map) and one genuine small
  deviation of the code (D32, zero instant in a non-UTC zone), each with the concrete Go type, the
  codec the builder model yields for the generated schema, and the value;
* proves that model and oracle agree on a delimited fragment (`normSpec_agrees`).
-/
set_option linter.unusedSimpArgs false
namespace Avro

/-- the codec registry after `time.RegisterCodecs` / `null.RegisterCodecs`, no user registrations -/
def libReg : Reg := { lib := true, custom := fun _ => none }

/-- the codec the library builds for Go type `T`: generated schema, then `buildCodec` (as the
end-to-end driver does) -/
def builtCodec (T : GoType) : Except String Codec :=
  match schemaForType SReg.empty TEnv.empty 100 [] T with
  | .ok s => buildCodec libReg 100 s (some T) false
  | _ => .error "schema generation"

/-! ## Corners -/

section
variable (env : Env)

/-- `struct { F **[]int64 }` -/
def tPP : GoType := .struct "S" "main" [.mk "F" true "" "" (.ptr (.ptr (.slice (.int 64))))]
def cPP : Codec := .record [.ptr none] [.pointer (.pointer (.array (.int 64 false) false))] [some 0]
theorem cPP_built : builtCodec tPP = .ok cPP := by rfl

/-- **nil `**[]T`**: `S{F: nil}` with `F **[]int64` is written as the empty array (the schema of
`**[]T` is the plain array) and read back as a pointer to a pointer to the empty slice. The oracle
identifies a nil pointer anywhere in a pointer chain to a slice or map with the chain to the empty
collection (before this was found it did so for `*[]T` only and expected `F == nil` back). -/
theorem nil_ptr_ptr_slice :
    toAvro env (omits env) 10 cPP (.struct [.ptr none]) = some (.record [.array []]) ∧
    ofAvro env 10 cPP (.record [.array []]) (Codec.zero env cPP)
      = .ok (.struct [.ptr (some (.ptr (some (.slice []))))]) ∧
    normCodec env 10 cPP (.struct [.ptr none]) = .struct [.ptr (some (.ptr (some (.slice []))))] ∧
    normSpec 10 tPP false (.struct [.ptr none]) = .struct [.ptr (some (.ptr (some (.slice []))))] ∧
    normSpec 10 tPP false (.struct [.ptr (some (.ptr (some (.slice []))))])
      = .struct [.ptr (some (.ptr (some (.slice []))))] := by
  refine ⟨by rfl, by rfl, by rfl, by rfl, by rfl⟩

/-- `struct { F **[]int64 "json:,omitempty" }` -/
def tPPo : GoType := .struct "S" "main" [.mk "F" true ",omitempty" "" (.ptr (.ptr (.slice (.int 64))))]
def cPPo : Codec :=
  .record [.ptr none] [.unionOne (.pointer (.pointer (.array (.int 64 false) false))) 1] [some 0]
theorem cPPo_built : builtCodec tPPo = .ok cPPo := by rfl

/-- **omitempty `**[]T`, inner nil**: with `omitempty` the field schema is `["null", array]`;
`S{F: &nilPtr}` (outer pointer set, inner nil) is omitted (`PointerCodec.Omit` looks through the
pointer chain), written as null and read back as `F == nil`. Both normalise to `&&[]int64{}`
(the D30 clause is not involved: it is restricted to chains that do not end in a slice or map). -/
theorem omitempty_ptr_ptr_slice :
    toAvro env (omits env) 10 cPPo (.struct [.ptr (some (.ptr none))]) = some (.record [.union 0 .null]) ∧
    ofAvro env 10 cPPo (.record [.union 0 .null]) (Codec.zero env cPPo) = .ok (.struct [.ptr none]) ∧
    normCodec env 10 cPPo (.struct [.ptr (some (.ptr none))]) = .struct [.ptr none] ∧
    normSpec 10 tPPo false (.struct [.ptr none]) = .struct [.ptr (some (.ptr (some (.slice []))))] ∧
    normSpec 10 tPPo false (.struct [.ptr (some (.ptr none))])
      = .struct [.ptr (some (.ptr (some (.slice []))))] := by
  refine ⟨by rfl, by rfl, by rfl, by rfl, by rfl⟩

/-- `struct { T time.Time }` -/
def tTime : GoType := .struct "S" "main" [.mk "T" true "" "" .time]
def cTime : Codec := .record [.time TimeVal.zero] [.unionOne .timeString 1] [some 0]
theorem cTime_built : builtCodec tTime = .ok cTime := by rfl

/-- the zero instant (0001-01-01T00:00:00Z) shown in the zone UTC+1: `IsZero()` holds -/
def zeroPlus1 : TimeVal := ⟨-62135596800, 0, 3600⟩

/-- **Known finding D32 (zero instant in a non-UTC zone)**: the schema of `time.Time` is
`["null","string"]` and the codec omits a time exactly when `IsZero()`, which ignores the zone.
`time.Time{}.In(UTC+1)` is written as null and read back as `time.Time{}` (UTC): same instant,
different UTC offset, so "times compare by instant and UTC offset" fails for the documented
normalisations (`normSpec`); bit 2 of `dev` records the deviation. -/
theorem zero_time_offset_counterexample :
    toAvro env (omits env) 10 cTime (.struct [.time zeroPlus1]) = some (.record [.union 0 .null]) ∧
    ofAvro env 10 cTime (.record [.union 0 .null]) (Codec.zero env cTime) = .ok (.struct [.time TimeVal.zero]) ∧
    normCodec env 10 cTime (.struct [.time zeroPlus1]) = .struct [.time TimeVal.zero] ∧
    normSpec 10 tTime false (.struct [.time zeroPlus1]) = .struct [.time zeroPlus1] ∧
    normSpecD 3 10 tTime false (.struct [.time zeroPlus1]) = .struct [.time zeroPlus1] ∧
    normSpecD 4 10 tTime false (.struct [.time zeroPlus1]) = .struct [.time TimeVal.zero] ∧
    zeroPlus1 ≠ TimeVal.zero := by
  refine ⟨by rfl, by rfl, by rfl, by rfl, by rfl, by rfl, by decide⟩

end

/-! ## Agreement on a fragment

### the codec of a Go type, written directly -/

/-- the generated schema of the type is a nullable union already -/
def unionTyped : GoType → Bool
  | .time | .nullT _ => true
  | .ptr e => !e.collChain
  | _ => false

/-- the element type is `byte` itself -/
def isU8 : GoType → Bool
  | .uint 8 => true
  | _ => false

def isStr : GoType → Bool
  | .string => true
  | _ => false

/-- `buildUnionCodec` for `["null", s]` around the codec of `s` -/
def wrapU : Codec → Codec
  | .string o => .unionNullString o 1
  | c => .unionOne c 1

def allSome {α : Type} : List (Option α) → Option (List α)
  | [] => some []
  | none :: _ => none
  | some a :: r => (allSome r).map (a :: ·)

def nodupB : List String → Bool
  | [] => true
  | a :: r => !r.contains a && nodupB r

/-- every field is encoded (exported, not named "-") and the Avro names are pairwise distinct -/
def structOk (fs : List GoField) : Bool :=
  (fs.map nameForField).all (· != "-") && nodupB (fs.map nameForField)

mutual
/-- the codec for the non-union part of the generated schema of `T`
(`buildCodec u (some T) oe` with `u` the schema of `T` without its nullable wrapper).
The fragment: bool, int16/32/64, float32/64, string, `[]byte`, slices, string-keyed maps, pointers,
structs all of whose fields are encoded under distinct names, `time.Time`, `null.*`. -/
def bareCodec : Nat → GoType → Bool → Option Codec
  | 0, _, _ => none
  | n + 1, T, oe =>
    match T with
    | .bool => some (.bool oe)
    | .int w => if w = 16 ∨ w = 32 ∨ w = 64 then some (.int w oe) else none
    | .float32 => some (.f32double oe)
    | .float64 => some (.double oe)
    | .string => some (.string oe)
    | .slice e =>
      if isU8 e then some (.bytes oe)
      else (fieldCodec n e false).map (.array · oe)
    | .map k v => if isStr k then (fieldCodec n v false).map (.map · oe) else none
    | .ptr e => (bareCodec n e false).map .pointer
    | .struct _ _ fs =>
      if structOk fs then
        (allSome (fs.map fun f => fieldCodec n f.type (omitEmptyTag f.jsonTag))).map fun cs =>
          .record (zeroFields fs) cs ((List.range fs.length).map some)
      else none
    | .time => some .timeString
    | .nullT k => some (.nullw (match k with | .float => .double | k => k))
    | _ => none

/-- the codec for a struct field (or slice element, map value: `oe = false`) of type `T`:
`buildCodec (omitWrap oe (schema of T)) (some T) oe` -/
def fieldCodec : Nat → GoType → Bool → Option Codec
  | 0, _, _ => none
  | n + 1, T, oe =>
    if unionTyped T then (bareCodec n T oe).map wrapU
    else if oe then (bareCodec n T true).map wrapU
    else bareCodec n T false
end

/-! the tie to the builder model, on a type that exercises every case of the fragment -/

def tBig : GoType :=
  .struct "Big" "example.com/pkg" [
    .mk "A" true "" "" .bool, .mk "B" true "b,omitempty" "" (.int 32), .mk "C" true ",omitempty" "" .float32,
    .mk "D" true "" "" .float64, .mk "E" true ",omitempty" "" .string, .mk "F" true "" "" (.slice (.uint 8)),
    .mk "G" true ",omitempty" "" (.slice (.ptr .string)), .mk "H" true "" "" (.map .string (.slice (.int 64))),
    .mk "I" true "" "" (.ptr (.slice .float64)), .mk "J" true ",omitempty" "" (.ptr (.map .string .bool)),
    .mk "K" true "" "" (.ptr (.ptr (.int 16))), .mk "L" true "" "" .time, .mk "M" true ",omitempty" "" (.ptr .time),
    .mk "N" true "" "" (.nullT .float), .mk "O" true "" "" (.ptr (.nullT .string)),
    .mk "P" true ",omitempty" "" (.struct "In" "main" [.mk "X" true "" "" (.ptr (.ptr (.ptr .string)))]),
    .mk "Q" true ",omitempty" "" (.ptr (.ptr (.slice .time))), .mk "R" true "" "" (.ptr (.ptr (.map .string (.nullT .time))))]

example : (fieldCodec 20 tBig false).map Except.ok = some (builtCodec tBig) := by rfl

/-! ### well-typed values of the fragment -/

def TypedFields (P : GoType → GoVal → Prop) : List GoField → List GoVal → Prop
  | [], [] => True
  | f :: fs, g :: gs => P f.type g ∧ TypedFields P fs gs
  | _, _ => False

def nullInnerTyped : NullKind → GoVal → Prop
  | .int, .int _ => True
  | .bool, .bool _ => True
  | .double, .f64 _ => True
  | .float, .f64 _ => True
  | .string, .str _ => True
  | .time, .time t => t.Printable
  | _, _ => False

/-- `Typed M T g`: `g` is a value of Go type `T` (the budget `M` bounds its depth). Beyond shape:
a float32 is not a signalling NaN (the float32→float64→float32 conversions would quiet it), a map has
one value per key, times are printable (RFC 3339 can express them). -/
def Typed : Nat → GoType → GoVal → Prop
  | 0, _, _ => False
  | n + 1, T, g =>
    match T, g with
    | .bool, .bool _ => True
    | .int _, .int _ => True
    | .float32, .f32 b => ¬ SNaN32 b
    | .float64, .f64 _ => True
    | .string, .str _ => True
    | .slice e, .bytes _ => isU8 e = true
    | .slice e, .slice items => isU8 e = false ∧ ∀ x ∈ items, Typed n e x
    | .map _ v, .map _ ks vs => ks.length = vs.length ∧ ∀ x ∈ vs, Typed n v x
    | .ptr _, .ptr none => True
    | .ptr e, .ptr (some x) => Typed n e x
    | .struct _ _ fs, .struct gs => TypedFields (Typed n) fs gs
    | .time, .time t => t.Printable
    | .nullT k, .nullw _ inner => nullInnerTyped k inner
    | _, _ => False

/-! ### the pointer clause of `normSpecD` -/

def ptrClause (dev : Nat) (e : GoType) (x' x : GoVal) : GoVal :=
  match e.strip, x', x with
  | .ptr _, .ptr none, _ => if dev / 2 % 2 == 1 && !e.collChain then .ptr none else .ptr (some x')
  | .nullT _, _, .nullw false p => if dev % 2 == 1 then .ptr (some (.nullw true p)) else .ptr (some x')
  | .time, _, _ => .ptr (some x)
  | _, _, _ => .ptr (some x')

theorem normSpecD_ptr_some (d n : Nat) (e : GoType) (oe : Bool) (x : GoVal) :
    normSpecD d (n + 1) (.ptr e) oe (.ptr (some x)) = ptrClause d e (normSpecD d n e false x) x := by
  simp only [normSpecD, GoType.strip, ptrClause]
  rfl

theorem normSpecD_ptr_none (d n : Nat) (e : GoType) (oe : Bool) :
    normSpecD d (n + 1) (.ptr e) oe (.ptr none) = if e.collChain then .ptr (some e.emptyChain) else .ptr none := by
  simp only [normSpecD, GoType.strip]

/-- what the pointer clause puts behind the pointer: the D27 adjustment (an invalid wrapper behind a
pointer comes back valid, with its payload) and times behind a pointer as they are -/
def adj (e : GoType) (x' x : GoVal) : GoVal :=
  match e, x with
  | .nullT _, .nullw false p => .nullw true p
  | .time, x => x
  | _, _ => x'

theorem ptrClause_ptr_ne (d : Nat) (e2 : GoType) (x' x : GoVal) (h : x' ≠ .ptr none) :
    ptrClause d (.ptr e2) x' x = .ptr (some x') := by
  unfold ptrClause
  simp only [GoType.strip]
  split
  all_goals first | rfl | (exact absurd rfl h) | (rename_i heq; cases heq) | (rename_i heq _; cases heq)

theorem ptrClause_ptr_nil (e2 : GoType) (x : GoVal) :
    ptrClause 7 (.ptr e2) (.ptr none) x
      = if (GoType.ptr e2).collChain then .ptr (some (.ptr none)) else .ptr none := by
  unfold ptrClause
  simp only [GoType.strip]
  cases (GoType.ptr e2).collChain <;> simp

/-! ### facts about the codec of a type -/

theorem bareCodec_strip {N : Nat} {e : GoType} {oe : Bool} {c : Codec} (h : bareCodec N e oe = some c) :
    e.strip = e := by
  cases N with
  | zero => simp [bareCodec] at h
  | succ N => cases e <;> simp [bareCodec] at h <;> rfl

theorem fieldCodec_bare {N : Nat} {T : GoType} {oe : Bool} {c : Codec} (h : fieldCodec N T oe = some c) :
    ∃ n oe' cb, N = n + 1 ∧ bareCodec n T oe' = some cb := by
  cases N with
  | zero => simp [fieldCodec] at h
  | succ n =>
    simp only [fieldCodec] at h
    split at h
    · simp only [Option.map_eq_some_iff] at h
      obtain ⟨cb, hcb, -⟩ := h
      exact ⟨n, oe, cb, rfl, hcb⟩
    · split at h
      · simp only [Option.map_eq_some_iff] at h
        obtain ⟨cb, hcb, -⟩ := h
        exact ⟨n, true, cb, rfl, hcb⟩
      · exact ⟨n, false, c, rfl, h⟩

theorem fieldCodec_strip {N : Nat} {e : GoType} {oe : Bool} {c : Codec} (h : fieldCodec N e oe = some c) :
    e.strip = e := by
  obtain ⟨n, oe', cb, -, hb⟩ := fieldCodec_bare h
  exact bareCodec_strip hb

theorem ptrClause_emptyChain (d : Nat) (e : GoType) (x : GoVal) (h : e.collChain = true) :
    ptrClause d e e.emptyChain x = .ptr (some e.emptyChain) := by
  cases e <;> simp [GoType.collChain] at h <;> simp [ptrClause, GoType.strip, GoType.emptyChain]

def IsColl (c : Codec) : Prop := (∃ i o, Codec.stripPtr c = .array i o) ∨ (∃ v o, Codec.stripPtr c = .map v o)

theorem bareCodec_slice (n : Nat) (e : GoType) (oe : Bool) :
    bareCodec (n + 1) (.slice e) oe = if isU8 e then some (.bytes oe) else (fieldCodec n e false).map (.array · oe) := by
  simp only [bareCodec]
theorem bareCodec_map (n : Nat) (k v : GoType) (oe : Bool) :
    bareCodec (n + 1) (.map k v) oe = if isStr k then (fieldCodec n v false).map (.map · oe) else none := by
  simp only [bareCodec]
theorem bareCodec_ptr (n : Nat) (e : GoType) (oe : Bool) :
    bareCodec (n + 1) (.ptr e) oe = (bareCodec n e false).map .pointer := by
  simp only [bareCodec]
theorem bareCodec_struct (n : Nat) (nm pkg : String) (fs : List GoField) (oe : Bool) :
    bareCodec (n + 1) (.struct nm pkg fs) oe =
      if structOk fs then
        (allSome (fs.map fun f => fieldCodec n f.type (omitEmptyTag f.jsonTag))).map fun cs =>
          .record (zeroFields fs) cs ((List.range fs.length).map some)
      else none := by
  simp only [bareCodec]

theorem matches_u8 (e : GoType) : (e matches .uint 8) = isU8 e := by
  unfold isU8; rfl

theorem isU8_uint (w : Nat) : isU8 (.uint w) = decide (w = 8) := by
  simp only [isU8]
  by_cases h : w = 8
  · subst h; rfl
  · simp [h]

theorem isU8_eq {e : GoType} (h : isU8 e = true) : e = .uint 8 := by
  cases e <;> try (simp [isU8] at h; done)
  rename_i w
  rw [isU8_uint] at h
  simp at h
  subst h; rfl

theorem collChain_slice (e : GoType) : (GoType.slice e).collChain = !isU8 e.strip := by
  simp only [GoType.collChain]; unfold isU8; rfl

theorem not_u8_strip {e : GoType} (h : isU8 e = false) (hs : e.strip = e) : (e.strip matches .uint 8) = false := by
  rw [hs, matches_u8, h]

/-- a type is a pointer chain to a slice or map exactly when its codec is a pointer chain to an array
or map codec; the codec's `nilForm` is then the type's `emptyChain` up to the nil flag of maps -/
theorem bareCodec_coll : ∀ (N : Nat) (e : GoType) (oe : Bool) (c : Codec), bareCodec N e oe = some c →
    (e.collChain = true → IsColl c ∧ ∀ n', N ≤ n' → normSpecD 0 n' e false (nilForm c) = e.emptyChain) ∧
    (e.collChain = false → ¬ IsColl c) := by
  intro N
  induction N with
  | zero => intro e oe c h; simp [bareCodec] at h
  | succ N ih =>
    intro e oe c h
    cases e
    case slice e' =>
      rw [bareCodec_slice] at h
      by_cases hb : isU8 e' = true
      · simp only [hb, if_true, Option.some.injEq] at h; subst h
        have := isU8_eq hb
        subst this
        simp [GoType.collChain, GoType.strip, IsColl, Codec.stripPtr]
      · simp only [hb, if_false, Option.map_eq_some_iff, Bool.false_eq_true] at h
        obtain ⟨ci, hci, rfl⟩ := h
        have hs := fieldCodec_strip hci
        have hcc : (GoType.slice e').collChain = true := by
          rw [collChain_slice, hs]
          simpa using hb
        refine ⟨fun _ => ⟨Or.inl ⟨ci, oe, rfl⟩, ?_⟩, fun hf => by rw [hcc] at hf; contradiction⟩
        intro n' hn'
        obtain ⟨k, rfl⟩ : ∃ k, n' = k + 1 := ⟨n' - 1, by omega⟩
        simp [nilForm, normSpecD, GoType.strip, GoType.emptyChain]
    case map k v =>
      rw [bareCodec_map] at h
      by_cases hb : isStr k = true
      · simp only [hb, if_true, Option.map_eq_some_iff] at h
        obtain ⟨ci, hci, rfl⟩ := h
        refine ⟨fun _ => ⟨Or.inr ⟨ci, oe, rfl⟩, ?_⟩, fun hf => by simp [GoType.collChain] at hf⟩
        intro n' hn'
        obtain ⟨k, rfl⟩ : ∃ k, n' = k + 1 := ⟨n' - 1, by omega⟩
        simp [nilForm, normSpecD, GoType.strip, GoType.emptyChain]
      · simp [hb] at h
    case ptr e' =>
      rw [bareCodec_ptr] at h
      simp only [Option.map_eq_some_iff] at h
      obtain ⟨c', hc', rfl⟩ := h
      obtain ⟨h1, h2⟩ := ih e' false c' hc'
      refine ⟨fun hcc => ?_, fun hcc => ?_⟩
      · simp only [GoType.collChain] at hcc
        obtain ⟨h3, h4⟩ := h1 hcc
        refine ⟨by simpa [IsColl, Codec.stripPtr] using h3, ?_⟩
        intro n' hn'
        obtain ⟨k, rfl⟩ : ∃ k, n' = k + 1 := ⟨n' - 1, by omega⟩
        rw [nilForm, normSpecD_ptr_some, h4 k (by omega), ptrClause_emptyChain _ _ _ hcc]
        rfl
      · simp only [GoType.collChain] at hcc
        simpa [IsColl, Codec.stripPtr] using h2 hcc
    case struct nm pkg fs =>
      rw [bareCodec_struct] at h
      split at h
      · simp only [Option.map_eq_some_iff] at h
        obtain ⟨cs, -, rfl⟩ := h
        exact ⟨fun hf => by simp [GoType.collChain] at hf, fun _ => by simp [IsColl, Codec.stripPtr]⟩
      · contradiction
    all_goals (simp only [bareCodec] at h; try contradiction)
    all_goals try (split at h <;> try contradiction)
    all_goals (simp only [Option.some.injEq] at h; subst h)
    all_goals (refine ⟨fun hf => by simp [GoType.collChain] at hf, fun _ => by simp [IsColl, Codec.stripPtr]⟩)

end Avro
