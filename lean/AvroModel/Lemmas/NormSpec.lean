import AvroModel.Lemmas.NormForm
import AvroModel.SchemaGen
/-!
# The codec-directed normal form against the type-directed `normSpecD` (C01, M2)

`normCodec` (Lemmas/RoundTrip.lean) is what the codec model reads back; `normSpecD` (Sem.lean) is the
oracle of the differential end-to-end check: the documented normalisations (`dev = 0`) plus the
recorded deviations D27 / D30 / D32 (`dev = 7`). This file

* records the corners that were found while proving the agreement: two gaps of the earlier oracle
  around `**[]T` (now part of `normSpecD`: pointer chains to a slice or map) and one genuine small
  deviation of the code (D32, zero instant in a non-UTC zone), each with the concrete Go type, the
  codec the builder model yields for the generated schema, and the value;
* proves that model and oracle agree on a delimited fragment (`normSpec_agrees`).
-/
set_option linter.unusedSimpArgs false
namespace Avro

/-- the codec registry after `time.RegisterCodecs` / `null.RegisterCodecs`, no user registrations -/
def libReg : Reg := { lib := true, custom := fun _ => none }

/-- the codec the library builds for Go type `T`: generated schema, then `buildCodec` (as the
end-to-end driver does) -/
def builtCodec (T : GoType) : Except String Codec :=
  match schemaForType SReg.empty TEnv.empty 100 [] T with
  | .ok s => buildCodec libReg 100 s (some T) false
  | _ => .error "schema generation"

/-! ## Corners -/

section
variable (env : Env)

/-- `struct { F **[]int64 }` -/
def tPP : GoType := .struct "S" "main" [.mk "F" true "" "" (.ptr (.ptr (.slice (.int 64))))]
def cPP : Codec := .record [.ptr none] [.pointer (.pointer (.array (.int 64 false) false))] [some 0]
theorem cPP_built : builtCodec tPP = .ok cPP := by rfl

/-- **nil `**[]T`**: `S{F: nil}` with `F **[]int64` is written as the empty array (the schema of
`**[]T` is the plain array) and read back as a pointer to a pointer to the empty slice. The oracle
identifies a nil pointer anywhere in a pointer chain to a slice or map with the chain to the empty
collection (before this was found it did so for `*[]T` only and expected `F == nil` back). -/
theorem nil_ptr_ptr_slice :
    toAvro env (omits env) 10 cPP (.struct [.ptr none]) = some (.record [.array []]) ∧
    ofAvro env 10 cPP (.record [.array []]) (Codec.zero env cPP)
      = .ok (.struct [.ptr (some (.ptr (some (.slice []))))]) ∧
    normCodec env 10 cPP (.struct [.ptr none]) = .struct [.ptr (some (.ptr (some (.slice []))))] ∧
    normSpec 10 tPP false (.struct [.ptr none]) = .struct [.ptr (some (.ptr (some (.slice []))))] ∧
    normSpec 10 tPP false (.struct [.ptr (some (.ptr (some (.slice []))))])
      = .struct [.ptr (some (.ptr (some (.slice []))))] := by
  refine ⟨by rfl, by rfl, by rfl, by rfl, by rfl⟩

/-- `struct { F **[]int64 "json:,omitempty" }` -/
def tPPo : GoType := .struct "S" "main" [.mk "F" true ",omitempty" "" (.ptr (.ptr (.slice (.int 64))))]
def cPPo : Codec :=
  .record [.ptr none] [.unionOne (.pointer (.pointer (.array (.int 64 false) false))) 1] [some 0]
theorem cPPo_built : builtCodec tPPo = .ok cPPo := by rfl

/-- **omitempty `**[]T`, inner nil**: with `omitempty` the field schema is `["null", array]`;
`S{F: &nilPtr}` (outer pointer set, inner nil) is omitted (`PointerCodec.Omit` looks through the
pointer chain), written as null and read back as `F == nil`. Both normalise to `&&[]int64{}`
(the D30 clause is not involved: it is restricted to chains that do not end in a slice or map). -/
theorem omitempty_ptr_ptr_slice :
    toAvro env (omits env) 10 cPPo (.struct [.ptr (some (.ptr none))]) = some (.record [.union 0 .null]) ∧
    ofAvro env 10 cPPo (.record [.union 0 .null]) (Codec.zero env cPPo) = .ok (.struct [.ptr none]) ∧
    normCodec env 10 cPPo (.struct [.ptr (some (.ptr none))]) = .struct [.ptr none] ∧
    normSpec 10 tPPo false (.struct [.ptr none]) = .struct [.ptr (some (.ptr (some (.slice []))))] ∧
    normSpec 10 tPPo false (.struct [.ptr (some (.ptr none))])
      = .struct [.ptr (some (.ptr (some (.slice []))))] := by
  refine ⟨by rfl, by rfl, by rfl, by rfl, by rfl⟩

/-- `struct { T time.Time }` -/
def tTime : GoType := .struct "S" "main" [.mk "T" true "" "" .time]
def cTime : Codec := .record [.time TimeVal.zero] [.unionOne .timeString 1] [some 0]
theorem cTime_built : builtCodec tTime = .ok cTime := by rfl

/-- the zero instant (0001-01-01T00:00:00Z) shown in the zone UTC+1: `IsZero()` holds -/
def zeroPlus1 : TimeVal := ⟨-62135596800, 0, 3600⟩

/-- **Known finding D32 (zero instant in a non-UTC zone)**: the schema of `time.Time` is
`["null","string"]` and the codec omits a time exactly when `IsZero()`, which ignores the zone.
`time.Time{}.In(UTC+1)` is written as null and read back as `time.Time{}` (UTC): same instant,
different UTC offset, so "times compare by instant and UTC offset" fails for the documented
normalisations (`normSpec`); bit 2 of `dev` records the deviation. -/
theorem zero_time_offset_counterexample :
    toAvro env (omits env) 10 cTime (.struct [.time zeroPlus1]) = some (.record [.union 0 .null]) ∧
    ofAvro env 10 cTime (.record [.union 0 .null]) (Codec.zero env cTime) = .ok (.struct [.time TimeVal.zero]) ∧
    normCodec env 10 cTime (.struct [.time zeroPlus1]) = .struct [.time TimeVal.zero] ∧
    normSpec 10 tTime false (.struct [.time zeroPlus1]) = .struct [.time zeroPlus1] ∧
    normSpecD 3 10 tTime false (.struct [.time zeroPlus1]) = .struct [.time zeroPlus1] ∧
    normSpecD 4 10 tTime false (.struct [.time zeroPlus1]) = .struct [.time TimeVal.zero] ∧
    zeroPlus1 ≠ TimeVal.zero := by
  refine ⟨by rfl, by rfl, by rfl, by rfl, by rfl, by rfl, by decide⟩

end

/-! ## Agreement on a fragment

### the codec of a Go type, written directly -/

/-- the generated schema of the type is a nullable union already -/
def unionTyped : GoType → Bool
  | .time | .nullT _ => true
  | .ptr e => !e.collChain
  | _ => false

/-- the element type is `byte` itself -/
def isU8n : GoType → Bool
  | .uint 8 => true
  | _ => false

def isStr : GoType → Bool
  | .string => true
  | _ => false

/-- `buildUnionCodec` for `["null", s]` around the codec of `s` -/
def wrapU : Codec → Codec
  | .string o => .unionNullString o 1
  | c => .unionOne c 1

def allSome {α : Type} : List (Option α) → Option (List α)
  | [] => some []
  | none :: _ => none
  | some a :: r => (allSome r).map (a :: ·)

def nodupB : List String → Bool
  | [] => true
  | a :: r => !r.contains a && nodupB r

/-- the struct fields that are encoded: exported and not excluded by a `json:"-"` / `bq:"-"` tag
(`nameForField f ≠ "-"`); the others have no schema field and no codec -/
def encFields (fs : List GoField) : List GoField := fs.filter fun f => nameForField f != "-"

/-- the struct field index each record field is read into (`RecordCodec` targets): the positions of
the encoded fields, counted from `i` -/
def targetsFrom : Nat → List GoField → List (Option Nat)
  | _, [] => []
  | i, f :: fs => if nameForField f != "-" then some i :: targetsFrom (i + 1) fs else targetsFrom (i + 1) fs

/-- every field is encoded (exported, not named "-") -/
def allEnc (fs : List GoField) : Bool := (fs.map nameForField).all (· != "-")

/-- the Avro names of the encoded fields are pairwise distinct -/
def structOk (fs : List GoField) : Bool := nodupB ((encFields fs).map nameForField)

mutual
/-- the codec for the non-union part of the generated schema of `T`
(`buildCodec u (some T) oe` with `u` the schema of `T` without its nullable wrapper).
The fragment: bool, int16/32/64, float32/64, string, `[]byte`, slices, string-keyed maps, pointers,
structs whose encoded fields have distinct names (unexported fields and fields tagged "-" are
skipped: no schema field, no codec, no target), `time.Time`, `null.*`. -/
def bareCodec : Nat → GoType → Bool → Option Codec
  | 0, _, _ => none
  | n + 1, T, oe =>
    match T with
    | .bool => some (.bool oe)
    | .int w => if w = 16 ∨ w = 32 ∨ w = 64 then some (.int w oe) else none
    | .float32 => some (.f32double oe)
    | .float64 => some (.double oe)
    | .string => some (.string oe)
    | .slice e =>
      if isU8n e then some (.bytes oe)
      else (fieldCodec n e false).map (.array · oe)
    | .map k v => if isStr k then (fieldCodec n v false).map (.map · oe) else none
    | .ptr e => (bareCodec n e false).map .pointer
    | .struct _ _ fs =>
      if structOk fs then
        (allSome ((encFields fs).map fun f => fieldCodec n f.type (omitEmptyTag f.jsonTag))).map fun cs =>
          .record (zeroFields fs) cs (targetsFrom 0 fs)
      else none
    | .time => some .timeString
    | .nullT k => some (.nullw (match k with | .float => .double | k => k))
    | _ => none

/-- the codec for a struct field (or slice element, map value: `oe = false`) of type `T`:
`buildCodec (omitWrap oe (schema of T)) (some T) oe` -/
def fieldCodec : Nat → GoType → Bool → Option Codec
  | 0, _, _ => none
  | n + 1, T, oe =>
    if unionTyped T then (bareCodec n T oe).map wrapU
    else if oe then (bareCodec n T true).map wrapU
    else bareCodec n T false
end

/-! the tie to the builder model, on a type that exercises every case of the fragment -/

def tBig : GoType :=
  .struct "Big" "example.com/pkg" [
    .mk "A" true "" "" .bool, .mk "B" true "b,omitempty" "" (.int 32), .mk "C" true ",omitempty" "" .float32,
    .mk "D" true "" "" .float64, .mk "E" true ",omitempty" "" .string, .mk "F" true "" "" (.slice (.uint 8)),
    .mk "G" true ",omitempty" "" (.slice (.ptr .string)), .mk "H" true "" "" (.map .string (.slice (.int 64))),
    .mk "I" true "" "" (.ptr (.slice .float64)), .mk "J" true ",omitempty" "" (.ptr (.map .string .bool)),
    .mk "K" true "" "" (.ptr (.ptr (.int 16))), .mk "L" true "" "" .time, .mk "M" true ",omitempty" "" (.ptr .time),
    .mk "N" true "" "" (.nullT .float), .mk "O" true "" "" (.ptr (.nullT .string)),
    .mk "P" true ",omitempty" "" (.struct "In" "main" [.mk "X" true "" "" (.ptr (.ptr (.ptr .string)))]),
    .mk "Q" true ",omitempty" "" (.ptr (.ptr (.slice .time))), .mk "R" true "" "" (.ptr (.ptr (.map .string (.nullT .time))))]

example : (fieldCodec 20 tBig false).map Except.ok = some (builtCodec tBig) := by rfl

/-! ### well-typed values of the fragment -/

def TypedFields (P : GoType → GoVal → Prop) : List GoField → List GoVal → Prop
  | [], [] => True
  | f :: fs, g :: gs => P f.type g ∧ TypedFields P fs gs
  | _, _ => False

def nullInnerTyped : NullKind → GoVal → Prop
  | .int, .int _ => True
  | .bool, .bool _ => True
  | .double, .f64 _ => True
  | .float, .f64 _ => True
  | .string, .str _ => True
  | .time, .time t => t.Printable
  | _, _ => False

/-- `Typed M T g`: `g` is a value of Go type `T` (the budget `M` bounds its depth). Beyond shape:
a float32 is not a signalling NaN (the float32→float64→float32 conversions would quiet it), a map has
one value per key, times are printable (RFC 3339 can express them), every field of a struct is
encoded (a skipped field is not written and reads back as its zero value). -/
def Typed : Nat → GoType → GoVal → Prop
  | 0, _, _ => False
  | n + 1, T, g =>
    match T, g with
    | .bool, .bool _ => True
    | .int _, .int _ => True
    | .float32, .f32 b => ¬ SNaN32 b
    | .float64, .f64 _ => True
    | .string, .str _ => True
    | .slice e, .bytes _ => isU8n e = true
    | .slice e, .slice items => isU8n e = false ∧ ∀ x ∈ items, Typed n e x
    | .map _ v, .map _ ks vs => ks.length = vs.length ∧ ∀ x ∈ vs, Typed n v x
    | .ptr _, .ptr none => True
    | .ptr e, .ptr (some x) => Typed n e x
    | .struct _ _ fs, .struct gs => allEnc fs = true ∧ TypedFields (Typed n) fs gs
    | .time, .time t => t.Printable
    | .nullT k, .nullw _ inner => nullInnerTyped k inner
    | _, _ => False

/-! ### the pointer clause of `normSpecD` -/

def ptrClause (dev : Nat) (e : GoType) (x' x : GoVal) : GoVal :=
  match e.strip, x', x with
  | .ptr _, .ptr none, _ => if dev / 2 % 2 == 1 && !e.collChain then .ptr none else .ptr (some x')
  | .nullT _, _, .nullw false p => if dev % 2 == 1 then .ptr (some (.nullw true p)) else .ptr (some x')
  | .time, _, _ => .ptr (some x)
  | _, _, _ => .ptr (some x')

theorem normSpecD_ptr_some (d n : Nat) (e : GoType) (oe : Bool) (x : GoVal) :
    normSpecD d (n + 1) (.ptr e) oe (.ptr (some x)) = ptrClause d e (normSpecD d n e false x) x := by
  simp only [normSpecD, GoType.strip, ptrClause]
  rfl

theorem normSpecD_ptr_none (d n : Nat) (e : GoType) (oe : Bool) :
    normSpecD d (n + 1) (.ptr e) oe (.ptr none) = if e.collChain then .ptr (some e.emptyChain) else .ptr none := by
  simp only [normSpecD, GoType.strip]

/-- what the pointer clause puts behind the pointer: the D27 adjustment (an invalid wrapper behind a
pointer comes back valid, with its payload) and times behind a pointer as they are -/
def adj (e : GoType) (x' x : GoVal) : GoVal :=
  match e, x with
  | .nullT _, .nullw false p => .nullw true p
  | .time, x => x
  | _, _ => x'

theorem ptrClause_ptr_ne (d : Nat) (e2 : GoType) (x' x : GoVal) (h : x' ≠ .ptr none) :
    ptrClause d (.ptr e2) x' x = .ptr (some x') := by
  unfold ptrClause
  simp only [GoType.strip]
  split
  all_goals first | rfl | (exact absurd rfl h) | (rename_i heq; cases heq) | (rename_i heq _; cases heq)

theorem ptrClause_ptr_nil (e2 : GoType) (x : GoVal) :
    ptrClause 7 (.ptr e2) (.ptr none) x
      = if (GoType.ptr e2).collChain then .ptr (some (.ptr none)) else .ptr none := by
  unfold ptrClause
  simp only [GoType.strip]
  cases (GoType.ptr e2).collChain <;> simp

/-! ### facts about the codec of a type -/

theorem bareCodec_strip {N : Nat} {e : GoType} {oe : Bool} {c : Codec} (h : bareCodec N e oe = some c) :
    e.strip = e := by
  cases N with
  | zero => simp [bareCodec] at h
  | succ N => cases e <;> simp [bareCodec] at h <;> rfl

theorem fieldCodec_bare {N : Nat} {T : GoType} {oe : Bool} {c : Codec} (h : fieldCodec N T oe = some c) :
    ∃ n oe' cb, N = n + 1 ∧ bareCodec n T oe' = some cb := by
  cases N with
  | zero => simp [fieldCodec] at h
  | succ n =>
    simp only [fieldCodec] at h
    split at h
    · simp only [Option.map_eq_some_iff] at h
      obtain ⟨cb, hcb, -⟩ := h
      exact ⟨n, oe, cb, rfl, hcb⟩
    · split at h
      · simp only [Option.map_eq_some_iff] at h
        obtain ⟨cb, hcb, -⟩ := h
        exact ⟨n, true, cb, rfl, hcb⟩
      · exact ⟨n, false, c, rfl, h⟩

theorem fieldCodec_strip {N : Nat} {e : GoType} {oe : Bool} {c : Codec} (h : fieldCodec N e oe = some c) :
    e.strip = e := by
  obtain ⟨n, oe', cb, -, hb⟩ := fieldCodec_bare h
  exact bareCodec_strip hb

theorem ptrClause_emptyChain (d : Nat) (e : GoType) (x : GoVal) (h : e.collChain = true) :
    ptrClause d e e.emptyChain x = .ptr (some e.emptyChain) := by
  cases e <;> simp [GoType.collChain] at h <;> simp [ptrClause, GoType.strip, GoType.emptyChain]

def IsColl (c : Codec) : Prop := (∃ i o, Codec.stripPtr c = .array i o) ∨ (∃ v o, Codec.stripPtr c = .map v o)

theorem bareCodec_slice (n : Nat) (e : GoType) (oe : Bool) :
    bareCodec (n + 1) (.slice e) oe = if isU8n e then some (.bytes oe) else (fieldCodec n e false).map (.array · oe) := by
  simp only [bareCodec]
theorem bareCodec_map (n : Nat) (k v : GoType) (oe : Bool) :
    bareCodec (n + 1) (.map k v) oe = if isStr k then (fieldCodec n v false).map (.map · oe) else none := by
  simp only [bareCodec]
theorem bareCodec_ptr (n : Nat) (e : GoType) (oe : Bool) :
    bareCodec (n + 1) (.ptr e) oe = (bareCodec n e false).map .pointer := by
  simp only [bareCodec]
theorem bareCodec_struct (n : Nat) (nm pkg : String) (fs : List GoField) (oe : Bool) :
    bareCodec (n + 1) (.struct nm pkg fs) oe =
      if structOk fs then
        (allSome ((encFields fs).map fun f => fieldCodec n f.type (omitEmptyTag f.jsonTag))).map fun cs =>
          .record (zeroFields fs) cs (targetsFrom 0 fs)
      else none := by
  simp only [bareCodec]

theorem matches_u8 (e : GoType) : (e matches .uint 8) = isU8n e := by
  unfold isU8n; rfl

theorem isU8_uint (w : Nat) : isU8n (.uint w) = decide (w = 8) := by
  simp only [isU8n]
  by_cases h : w = 8
  · subst h; rfl
  · simp [h]

theorem isU8_eq {e : GoType} (h : isU8n e = true) : e = .uint 8 := by
  cases e <;> try (simp [isU8n] at h; done)
  rename_i w
  rw [isU8_uint] at h
  simp at h
  subst h; rfl

theorem collChain_slice (e : GoType) : (GoType.slice e).collChain = !isU8n e.strip := by
  simp only [GoType.collChain]; unfold isU8n; rfl

theorem not_u8_strip {e : GoType} (h : isU8n e = false) (hs : e.strip = e) : (e.strip matches .uint 8) = false := by
  rw [hs, matches_u8, h]

/-- a type is a pointer chain to a slice or map exactly when its codec is a pointer chain to an array
or map codec; the codec's `nilForm` is then the type's `emptyChain` up to the nil flag of maps -/
theorem bareCodec_coll : ∀ (N : Nat) (e : GoType) (oe : Bool) (c : Codec), bareCodec N e oe = some c →
    (e.collChain = true → IsColl c ∧ ∀ n', N ≤ n' → normSpecD 0 n' e false (nilForm c) = e.emptyChain) ∧
    (e.collChain = false → ¬ IsColl c) := by
  intro N
  induction N with
  | zero => intro e oe c h; simp [bareCodec] at h
  | succ N ih =>
    intro e oe c h
    cases e
    case slice e' =>
      rw [bareCodec_slice] at h
      by_cases hb : isU8n e' = true
      · simp only [hb, if_true, Option.some.injEq] at h; subst h
        have := isU8_eq hb
        subst this
        simp [GoType.collChain, GoType.strip, IsColl, Codec.stripPtr]
      · simp only [hb, if_false, Option.map_eq_some_iff, Bool.false_eq_true] at h
        obtain ⟨ci, hci, rfl⟩ := h
        have hs := fieldCodec_strip hci
        have hcc : (GoType.slice e').collChain = true := by
          rw [collChain_slice, hs]
          simpa using hb
        refine ⟨fun _ => ⟨Or.inl ⟨ci, oe, rfl⟩, ?_⟩, fun hf => by rw [hcc] at hf; contradiction⟩
        intro n' hn'
        obtain ⟨k, rfl⟩ : ∃ k, n' = k + 1 := ⟨n' - 1, by omega⟩
        simp [nilForm, normSpecD, GoType.strip, GoType.emptyChain]
    case map k v =>
      rw [bareCodec_map] at h
      by_cases hb : isStr k = true
      · simp only [hb, if_true, Option.map_eq_some_iff] at h
        obtain ⟨ci, hci, rfl⟩ := h
        refine ⟨fun _ => ⟨Or.inr ⟨ci, oe, rfl⟩, ?_⟩, fun hf => by simp [GoType.collChain] at hf⟩
        intro n' hn'
        obtain ⟨k, rfl⟩ : ∃ k, n' = k + 1 := ⟨n' - 1, by omega⟩
        simp [nilForm, normSpecD, GoType.strip, GoType.emptyChain]
      · simp [hb] at h
    case ptr e' =>
      rw [bareCodec_ptr] at h
      simp only [Option.map_eq_some_iff] at h
      obtain ⟨c', hc', rfl⟩ := h
      obtain ⟨h1, h2⟩ := ih e' false c' hc'
      refine ⟨fun hcc => ?_, fun hcc => ?_⟩
      · simp only [GoType.collChain] at hcc
        obtain ⟨h3, h4⟩ := h1 hcc
        refine ⟨by simpa [IsColl, Codec.stripPtr] using h3, ?_⟩
        intro n' hn'
        obtain ⟨k, rfl⟩ : ∃ k, n' = k + 1 := ⟨n' - 1, by omega⟩
        rw [nilForm, normSpecD_ptr_some, h4 k (by omega), ptrClause_emptyChain _ _ _ hcc]
        rfl
      · simp only [GoType.collChain] at hcc
        simpa [IsColl, Codec.stripPtr] using h2 hcc
    case struct nm pkg fs =>
      rw [bareCodec_struct] at h
      split at h
      · simp only [Option.map_eq_some_iff] at h
        obtain ⟨cs, -, rfl⟩ := h
        exact ⟨fun hf => by simp [GoType.collChain] at hf, fun _ => by simp [IsColl, Codec.stripPtr]⟩
      · contradiction
    all_goals (simp only [bareCodec] at h; try contradiction)
    all_goals try (split at h <;> try contradiction)
    all_goals (simp only [Option.some.injEq] at h; subst h)
    all_goals (refine ⟨fun hf => by simp [GoType.collChain] at hf, fun _ => by simp [IsColl, Codec.stripPtr]⟩)

theorem ptrClause_zero (e : GoType) (y' y : GoVal) :
    ptrClause 0 e y' y = .ptr (some (match e.strip with | .time => y | _ => y')) := by
  unfold ptrClause
  split <;> simp_all

theorem ptrClause_nonptr (e : GoType) (x' x : GoVal) (hs : e.strip = e) (hp : isPtr e = false) :
    ptrClause 7 e x' x = .ptr (some (adj e x' x)) := by
  unfold ptrClause
  rw [hs]
  cases e <;> simp [isPtr] at hp <;> try (simp [adj]; done)
  -- nullT
  cases x <;> try (simp [adj]; done)
  rename_i valid p
  cases valid <;> simp [adj]

theorem bareCodec_isPtr {N : Nat} {e : GoType} {oe : Bool} {c : Codec} (h : bareCodec N e oe = some c) :
    (isPtr e = true → ∃ c2, c = .pointer c2) ∧ (isPtr e = false → ∀ c2, c ≠ .pointer c2) := by
  cases N with
  | zero => simp [bareCodec] at h
  | succ N =>
    cases e
    case ptr e' =>
      rw [bareCodec_ptr] at h
      simp only [Option.map_eq_some_iff] at h
      obtain ⟨c', -, rfl⟩ := h
      exact ⟨fun _ => ⟨c', rfl⟩, fun hf => by simp [isPtr] at hf⟩
    case slice e' =>
      rw [bareCodec_slice] at h
      refine ⟨fun hf => by simp [isPtr] at hf, fun _ c2 => ?_⟩
      split at h
      · simp only [Option.some.injEq] at h; subst h; simp
      · simp only [Option.map_eq_some_iff] at h; obtain ⟨ci, -, rfl⟩ := h; simp
    case map k v =>
      rw [bareCodec_map] at h
      refine ⟨fun hf => by simp [isPtr] at hf, fun _ c2 => ?_⟩
      split at h
      · simp only [Option.map_eq_some_iff] at h; obtain ⟨ci, -, rfl⟩ := h; simp
      · contradiction
    case struct nm pkg fs =>
      rw [bareCodec_struct] at h
      refine ⟨fun hf => by simp [isPtr] at hf, fun _ c2 => ?_⟩
      split at h
      · simp only [Option.map_eq_some_iff] at h; obtain ⟨ci, -, rfl⟩ := h; simp
      · contradiction
    all_goals (simp only [bareCodec] at h; try contradiction)
    all_goals try (split at h <;> try contradiction)
    all_goals (simp only [Option.some.injEq] at h; subst h)
    all_goals (exact ⟨fun hf => by simp [isPtr] at hf, fun _ c2 => by simp⟩)

/-! ### records whose targets are `0, 1, 2, …` -/

theorem listSet_take {α : Type} : ∀ (acc : List α) (i : Nat) (a : α), i < acc.length →
    (listSet acc i a).take (i + 1) = acc.take i ++ [a]
  | [], _, _, h => by simp at h
  | _ :: _, 0, _, _ => by simp [listSet]
  | x :: xs, i + 1, a, h => by
    simp only [listSet, List.take_succ_cons, List.cons_append, List.cons.injEq, true_and]
    exact listSet_take xs i a (by simpa using h)

theorem normFieldsWith_range' (f : Codec → GoVal → GoVal) (gs : List GoVal) :
    ∀ (cs : List Codec) (i0 : Nat) (acc : List GoVal), acc.length = gs.length → gs.length = i0 + cs.length →
      normFieldsWith f cs ((List.range' i0 cs.length).map some) gs acc
        = acc.take i0 ++ List.zipWith f cs (gs.drop i0)
  | [], i0, acc, h1, h2 => by
    simp only [List.length_nil, Nat.add_zero] at h2
    simp [normFieldsWith, List.take_of_length_le (show acc.length ≤ i0 by omega)]
  | c :: cs, i0, acc, h1, h2 => by
    simp only [List.length_cons] at h2
    have hi : i0 < gs.length := by omega
    have hg : gs[i0]? = some gs[i0] := by simp [hi]
    simp only [List.length_cons, List.range'_succ, List.map_cons, normFieldsWith, hg]
    rw [normFieldsWith_range' f gs cs (i0 + 1) _ (by rw [listSet_length, h1]) (by omega),
      listSet_take acc i0 _ (by omega)]
    have hd : gs.drop i0 = gs[i0] :: gs.drop (i0 + 1) := by
      rw [List.drop_eq_getElem_cons hi]
    simp only [List.append_assoc, List.singleton_append, hd, List.zipWith_cons_cons]

theorem normFieldsWith_range (f : Codec → GoVal → GoVal) (cs : List Codec) (gs z : List GoVal)
    (h1 : z.length = gs.length) (h2 : gs.length = cs.length) :
    normFieldsWith f cs ((List.range cs.length).map some) gs z = List.zipWith f cs gs := by
  rw [List.range_eq_range']
  simpa using normFieldsWith_range' f gs cs 0 z h1 (by omega)

theorem allSome_length {α : Type} : ∀ (l : List (Option α)) (r : List α), allSome l = some r → r.length = l.length
  | [], r, h => by simp [allSome] at h; subst h; rfl
  | none :: _, _, h => by simp [allSome] at h
  | some a :: l, r, h => by
    simp only [allSome, Option.map_eq_some_iff] at h
    obtain ⟨r', hr', rfl⟩ := h
    simp [allSome_length l r' hr']

theorem typedFields_length {P : GoType → GoVal → Prop} : ∀ (fs : List GoField) (gs : List GoVal),
    TypedFields P fs gs → gs.length = fs.length
  | [], [], _ => rfl
  | [], _ :: _, h => by simp [TypedFields] at h
  | _ :: _, [], h => by simp [TypedFields] at h
  | _ :: fs, _ :: gs, h => by simp [typedFields_length fs gs h.2]

theorem zeroFields_length : ∀ fs : List GoField, (zeroFields fs).length = fs.length
  | [] => rfl
  | .mk _ _ _ _ _ :: fs => by simp [zeroFields, zeroFields_length fs]

theorem encFields_all {fs : List GoField} (h : allEnc fs = true) : encFields fs = fs := by
  unfold encFields
  rw [List.filter_eq_self]
  intro f hf
  simp only [allEnc, List.all_map, List.all_eq_true] at h
  exact h f hf

theorem targetsFrom_all : ∀ (fs : List GoField) (i : Nat), allEnc fs = true →
    targetsFrom i fs = (List.range' i fs.length).map some
  | [], _, _ => rfl
  | f :: fs, i, h => by
    have h' : (nameForField f != "-") = true ∧ allEnc fs = true := by
      simpa [allEnc] using h
    simp only [targetsFrom, h'.1, if_true, List.length_cons, List.range'_succ, List.map_cons]
    rw [targetsFrom_all fs (i + 1) h'.2]

theorem zipWith_fields_agree (φ : GoField → Option Codec) (P : GoType → GoVal → Prop)
    (F0 F7 : GoField → GoVal → GoVal) (Nm : Codec → GoVal → GoVal) :
    ∀ (fs : List GoField) (cs : List Codec) (gs : List GoVal), allSome (fs.map φ) = some cs → TypedFields P fs gs →
      (∀ f ∈ fs, ∀ c g, φ f = some c → P f.type g → F0 f (Nm c g) = F7 f g) →
      List.zipWith F0 fs (List.zipWith Nm cs gs) = List.zipWith F7 fs gs
  | [], _, _, _, _, _ => by simp
  | _ :: _, _, [], _, h, _ => by simp [TypedFields] at h
  | f :: fs, cs, g :: gs, ha, ht, hp => by
    simp only [List.map_cons] at ha
    cases hf : φ f with
    | none => simp [hf, allSome] at ha
    | some c =>
      simp only [hf, allSome, Option.map_eq_some_iff] at ha
      obtain ⟨cs', hcs', rfl⟩ := ha
      simp only [List.zipWith_cons_cons, List.cons.injEq]
      exact ⟨hp f (by simp) c g hf ht.1,
        zipWith_fields_agree φ P F0 F7 Nm fs cs' gs hcs' ht.2 (fun f' hf' => hp f' (by simp [hf']))⟩

section
variable (env : Env)

theorem omits_ptr_some {N : Nat} {e : GoType} {oe : Bool} {ce : Codec} (h : bareCodec N e oe = some ce)
    (x : GoVal) : omits env (.pointer ce) (.ptr (some x)) = (isPtr e && omits env ce x) := by
  obtain ⟨h1, h2⟩ := bareCodec_isPtr h
  cases hp : isPtr e
  · have := h2 hp
    cases ce <;> first | (simp [omits]; done) | (exact absurd rfl (this _))
  · obtain ⟨c2, rfl⟩ := h1 hp
    simp [omits]

/-- the statement proved by induction on the budget `N` of `bareCodec` / `fieldCodec` -/
structure AgreeAt (N : Nat) : Prop where
  bare : ∀ T oe cb g M n n', bareCodec N T oe = some cb → Typed M T g → N ≤ n → N ≤ n' →
    (isPtr T = true →
      (T.collChain = false → (omits env cb g = true ↔ normSpecD 7 n' T false g = .ptr none)) ∧
      (T.collChain = true → omits env cb g = true → normSpecD 7 n' T false g = T.emptyChain)) ∧
    ((isPtr T = true → T.collChain = false → omits env cb g = false) →
      normSpecD 0 n' T false (normCodec env n cb g) = adj T (normSpecD 7 n' T false g) g)
  field : ∀ T oe c g M n n', fieldCodec N T oe = some c → Typed M T g → N ≤ n → N ≤ n' →
    normSpecD 0 n' T oe (normCodec env n c g) = normSpecD 7 n' T oe g

theorem agree_zero : AgreeAt env 0 where
  bare := by intro T oe cb g M n n' h; simp [bareCodec] at h
  field := by intro T oe c g M n n' h; simp [fieldCodec] at h

theorem agree_bare_ptr (hlaws : EnvLaws env) (N : Nat) (ih : AgreeAt env N) (e : GoType) (ce : Codec) (g : GoVal) (M n n' : Nat)
    (hce : bareCodec N e false = some ce) (ht : Typed (M + 1) (.ptr e) g) (hn : N ≤ n) (hn' : N ≤ n') :
    ((e.collChain = false → (omits env (.pointer ce) g = true ↔ normSpecD 7 (n' + 1) (.ptr e) false g = .ptr none)) ∧
      (e.collChain = true → omits env (.pointer ce) g = true →
        normSpecD 7 (n' + 1) (.ptr e) false g = .ptr (some e.emptyChain))) ∧
    ((e.collChain = false → omits env (.pointer ce) g = false) →
      normSpecD 0 (n' + 1) (.ptr e) false (normCodec env (n + 1) (.pointer ce) g)
        = normSpecD 7 (n' + 1) (.ptr e) false g) := by
  have hstrip := bareCodec_strip hce
  obtain ⟨hc1, hc2⟩ := bareCodec_coll N e false ce hce
  cases g <;> simp only [Typed] at ht
  rename_i tgt
  cases tgt with
  | none =>
    refine ⟨⟨fun hcc => ?_, fun hcc _ => ?_⟩, fun pre => ?_⟩
    · simp [omits, normSpecD_ptr_none, hcc]
    · simp [normSpecD_ptr_none, hcc]
    · cases hcc : e.collChain
      · have := pre hcc
        simp [omits] at this
      · obtain ⟨h3, h4⟩ := hc1 hcc
        rw [norm_ptr_nil_coll env n ce h3, normSpecD_ptr_some, h4 n' hn', ptrClause_emptyChain _ _ _ hcc,
          normSpecD_ptr_none]
        simp [hcc]
  | some x =>
    have I := ih.bare e false ce x M n n' hce ht hn hn'
    have I1 := I.1
    have I2 := I.2
    have hom := omits_ptr_some env hce x
    rw [normSpecD_ptr_some]
    refine ⟨⟨fun hcc => ?_, fun hcc ho => ?_⟩, fun pre => ?_⟩
    · -- not a chain to a collection: omitted iff the oracle collapses to nil
      rw [hom]
      cases hp : isPtr e
      · rw [ptrClause_nonptr e _ x hstrip hp]; simp
      · obtain ⟨e2, rfl⟩ : ∃ e2, e = .ptr e2 := by cases e <;> simp [isPtr] at hp; exact ⟨_, rfl⟩
        have J := (I1 hp).1 hcc
        simp only [Bool.true_and]
        rw [J]
        constructor
        · intro hx
          rw [hx, ptrClause_ptr_nil, hcc]; rfl
        · intro hpc
          apply Classical.byContradiction
          intro hne
          rw [ptrClause_ptr_ne _ _ _ _ hne] at hpc
          cases hpc
    · -- a chain to a collection that ends in nil normalises to the chain to the empty collection
      rw [hom] at ho
      simp only [Bool.and_eq_true] at ho
      rw [(I1 ho.1).2 hcc ho.2, ptrClause_emptyChain _ _ _ hcc]
    · have hpre2 : isPtr e = true → e.collChain = false → omits env ce x = false := by
        intro hp hcc
        have := pre hcc
        rw [hom, hp] at this
        simpa using this
      have hI2 := I2 hpre2
      simp only [normCodec]
      rw [normSpecD_ptr_some, hI2, ptrClause_zero, hstrip]
      cases hp : isPtr e
      · rw [ptrClause_nonptr e _ x hstrip hp]
        cases e <;> try rfl
        -- time behind a pointer: kept as it is
        cases M with
        | zero => simp [Typed] at ht
        | succ M =>
          cases x <;> simp only [Typed] at ht
          obtain ⟨k, rfl⟩ : ∃ k, N = k + 1 := by
            cases N with
            | zero => simp [bareCodec] at hce
            | succ k => exact ⟨k, rfl⟩
          simp only [bareCodec, Option.some.injEq] at hce
          subst hce
          obtain ⟨m, rfl⟩ : ∃ m, n = m + 1 := ⟨n - 1, by omega⟩
          simp [normCodec, adj, normTime_printable env hlaws _ ht]
      · obtain ⟨e2, rfl⟩ : ∃ e2, e = .ptr e2 := by cases e <;> simp [isPtr] at hp; exact ⟨_, rfl⟩
        simp only [adj]
        by_cases hx : normSpecD 7 n' (.ptr e2) false x = .ptr none
        · rw [hx, ptrClause_ptr_nil]
          cases hcc : (GoType.ptr e2).collChain
          · exfalso
            have := ((I1 hp).1 hcc).2 hx
            rw [hpre2 hp hcc] at this
            contradiction
          · rfl
        · rw [ptrClause_ptr_ne _ _ _ _ hx]

theorem agree_bare_step (hlaws : EnvLaws env) (N : Nat) (ih : AgreeAt env N) :
    ∀ T oe cb g M n n', bareCodec (N + 1) T oe = some cb → Typed M T g → N + 1 ≤ n → N + 1 ≤ n' →
    (isPtr T = true →
      (T.collChain = false → (omits env cb g = true ↔ normSpecD 7 n' T false g = .ptr none)) ∧
      (T.collChain = true → omits env cb g = true → normSpecD 7 n' T false g = T.emptyChain)) ∧
    ((isPtr T = true → T.collChain = false → omits env cb g = false) →
      normSpecD 0 n' T false (normCodec env n cb g) = adj T (normSpecD 7 n' T false g) g) := by
  intro T oe cb g M n n' hb ht hn hn'
  obtain ⟨n, rfl⟩ : ∃ k, n = k + 1 := ⟨n - 1, by omega⟩
  obtain ⟨n', rfl⟩ : ∃ k, n' = k + 1 := ⟨n' - 1, by omega⟩
  cases M with
  | zero => simp [Typed] at ht
  | succ M =>
  cases T
  case ptr e =>
    rw [bareCodec_ptr] at hb
    simp only [Option.map_eq_some_iff] at hb
    obtain ⟨ce, hce, rfl⟩ := hb
    have := agree_bare_ptr env hlaws N ih e ce g M n n' hce ht (by omega) (by omega)
    simpa [isPtr, GoType.collChain, GoType.emptyChain, adj] using this
  case slice e =>
    rw [bareCodec_slice] at hb
    refine ⟨fun hp => by simp [isPtr] at hp, fun hpre => ?_⟩
    clear hpre
    cases g <;> simp only [Typed] at ht
    case bytes bs =>
      simp only [ht, if_true, Option.some.injEq] at hb; subst hb
      simp [normCodec, normSpecD, GoType.strip, adj]
    case slice items =>
      simp only [ht.1, if_false, Option.map_eq_some_iff, Bool.false_eq_true] at hb
      obtain ⟨ci, hci, rfl⟩ := hb
      simp only [normCodec, normSpecD, GoType.strip, adj, List.map_map, GoVal.slice.injEq]
      exact List.map_congr_left fun x hx => ih.field e false ci x M n n' hci (ht.2 x hx) (by omega) (by omega)
  case map k v =>
    rw [bareCodec_map] at hb
    refine ⟨fun hp => by simp [isPtr] at hp, fun hpre => ?_⟩
    clear hpre
    cases g <;> simp only [Typed] at ht
    rename_i nl ks vs
    split at hb
    · simp only [Option.map_eq_some_iff] at hb
      obtain ⟨ci, hci, rfl⟩ := hb
      simp only [normCodec, normSpecD, GoType.strip, adj, List.map_map, GoVal.map.injEq, true_and]
      exact List.map_congr_left fun x hx => ih.field v false ci x M n n' hci (ht.2 x hx) (by omega) (by omega)
    · contradiction
  case struct nm pkg fs =>
    rw [bareCodec_struct] at hb
    refine ⟨fun hp => by simp [isPtr] at hp, fun hpre => ?_⟩
    clear hpre
    cases g <;> simp only [Typed] at ht
    rename_i gs
    obtain ⟨henc, ht⟩ := ht
    rw [encFields_all henc, targetsFrom_all fs 0 henc, ← List.range_eq_range'] at hb
    split at hb
    · simp only [Option.map_eq_some_iff] at hb
      obtain ⟨cs, hcs, rfl⟩ := hb
      have hl1 := allSome_length _ _ hcs
      simp only [List.length_map] at hl1
      have hl2 := typedFields_length fs gs ht
      rw [← hl1]
      simp only [normCodec, normSpecD, GoType.strip, adj, GoVal.struct.injEq]
      rw [normFieldsWith_range _ cs gs _ (by rw [zeroFields_length, hl2]) (by omega)]
      exact zipWith_fields_agree _ (Typed M) _ _ _ fs cs gs hcs ht
        (fun f _ c g hc hg => ih.field f.type _ c g M n n' hc hg (by omega) (by omega))
    · contradiction
  case time =>
    simp only [bareCodec, Option.some.injEq] at hb; subst hb
    refine ⟨fun hp => by simp [isPtr] at hp, fun hpre => ?_⟩
    clear hpre
    cases g <;> simp only [Typed] at ht
    simp [normCodec, normSpecD, GoType.strip, adj, normTime_printable env hlaws _ ht]
  case nullT k =>
    simp only [bareCodec, Option.some.injEq] at hb; subst hb
    refine ⟨fun hp => by simp [isPtr] at hp, fun hpre => ?_⟩
    clear hpre
    cases g <;> simp only [Typed] at ht
    rename_i valid inner
    cases k <;> cases inner <;> simp only [nullInnerTyped] at ht <;>
      cases valid <;> simp [normCodec, normSpecD, GoType.strip, adj]
    all_goals exact normTime_printable env hlaws _ ht
  case float32 =>
    simp only [bareCodec, Option.some.injEq] at hb; subst hb
    refine ⟨fun hp => by simp [isPtr] at hp, fun hpre => ?_⟩
    clear hpre
    cases g <;> simp only [Typed] at ht
    simp [normCodec, normSpecD, GoType.strip, adj, hlaws.narrow_widen _ ht]
  case int w =>
    simp only [bareCodec] at hb
    split at hb <;> try contradiction
    simp only [Option.some.injEq] at hb; subst hb
    refine ⟨fun hp => by simp [isPtr] at hp, fun hpre => ?_⟩
    clear hpre
    cases g <;> simp only [Typed] at ht
    simp [normCodec, normSpecD, GoType.strip, adj]
  all_goals (simp only [bareCodec] at hb; try contradiction)
  all_goals (simp only [Option.some.injEq] at hb; subst hb)
  all_goals (refine ⟨fun hp => by simp [isPtr] at hp, fun hpre => ?_⟩; clear hpre)
  all_goals (cases g <;> simp only [Typed] at ht)
  all_goals simp [normCodec, normSpecD, GoType.strip, adj]

theorem norm_unionOne (n : Nat) (cb : Codec) (k : Nat) (g : GoVal) :
    normCodec env (n + 1) (.unionOne cb k) g
      = if omits env cb g = true then Codec.zero env cb else normCodec env n cb g := by
  simp only [normCodec]

theorem normSpecD_ptr_oe (d n : Nat) (e : GoType) (oe : Bool) (g : GoVal) :
    normSpecD d n (.ptr e) oe g = normSpecD d n (.ptr e) false g := by
  cases n with
  | zero => rfl
  | succ n =>
    cases g <;> try (simp only [normSpecD, GoType.strip]; done)
    rename_i tgt
    cases tgt with
    | none => rw [normSpecD_ptr_none, normSpecD_ptr_none]
    | some x => rw [normSpecD_ptr_some, normSpecD_ptr_some]

theorem normSpecD_slice_oe (d n : Nat) (e : GoType) (oe : Bool) (g : GoVal) :
    normSpecD d n (.slice e) oe g = normSpecD d n (.slice e) false g := by
  cases n with
  | zero => rfl
  | succ n => cases g <;> simp only [normSpecD, GoType.strip]

theorem normSpecD_map_oe (d n : Nat) (k v : GoType) (oe : Bool) (g : GoVal) :
    normSpecD d n (.map k v) oe g = normSpecD d n (.map k v) false g := by
  cases n with
  | zero => rfl
  | succ n => cases g <;> simp only [normSpecD, GoType.strip]

theorem normSpecD_struct_oe (d n : Nat) (nm pkg : String) (fs : List GoField) (oe : Bool) (g : GoVal) :
    normSpecD d n (.struct nm pkg fs) oe g = normSpecD d n (.struct nm pkg fs) false g := by
  cases n with
  | zero => rfl
  | succ n => cases g <;> simp only [normSpecD, GoType.strip]

theorem agree_field_step (hlaws : EnvLaws env) (N : Nat) (ih : AgreeAt env N) :
    ∀ T oe c g M n n', fieldCodec (N + 1) T oe = some c → Typed M T g → N + 1 ≤ n → N + 1 ≤ n' →
    normSpecD 0 n' T oe (normCodec env n c g) = normSpecD 7 n' T oe g := by
  intro T oe c g M n n' hc ht hn hn'
  obtain ⟨n, rfl⟩ : ∃ k, n = k + 1 := ⟨n - 1, by omega⟩
  obtain ⟨n', rfl⟩ : ∃ k, n' = k + 1 := ⟨n' - 1, by omega⟩
  have hN : N ≤ n := by omega
  have hN' : N ≤ n' + 1 := by omega
  simp only [fieldCodec] at hc
  by_cases hu : unionTyped T = true
  · -- the generated schema is a union already: time.Time, null.*, pointers (not to a slice/map chain)
    simp only [hu, if_true, Option.map_eq_some_iff] at hc
    obtain ⟨cb, hcb, rfl⟩ := hc
    have B := ih.bare T oe cb g M n (n' + 1) hcb ht hN hN'
    cases T <;> simp only [unionTyped] at hu <;> try contradiction
    case ptr e =>
      simp only [Bool.not_eq_true'] at hu
      obtain ⟨k, rfl⟩ : ∃ k, N = k + 1 := by
        cases N with
        | zero => simp [bareCodec] at hcb
        | succ k => exact ⟨k, rfl⟩
      have hcb' := hcb
      rw [bareCodec_ptr] at hcb'
      simp only [Option.map_eq_some_iff] at hcb'
      obtain ⟨ce, -, rfl⟩ := hcb'
      have hcc : (GoType.ptr e).collChain = false := by simpa [GoType.collChain] using hu
      have B1 := (B.1 rfl).1 hcc
      have B2 := B.2
      simp only [wrapU, norm_unionOne]
      rw [normSpecD_ptr_oe 0, normSpecD_ptr_oe 7]
      by_cases ho : omits env (.pointer ce) g = true
      · simp only [ho, if_true, Codec.zero]
        rw [B1.mp ho, normSpecD_ptr_none, hu]
        rfl
      · simp only [ho, if_false, Bool.false_eq_true]
        rw [B2 (fun _ _ => by simpa using ho)]
        simp [adj]
    case time =>
      cases M with
      | zero => simp [Typed] at ht
      | succ M =>
      cases g <;> simp only [Typed] at ht
      rename_i t
      obtain ⟨k, rfl⟩ : ∃ k, N = k + 1 := by
        cases N with
        | zero => simp [bareCodec] at hcb
        | succ k => exact ⟨k, rfl⟩
      simp only [bareCodec, Option.some.injEq] at hcb; subst hcb
      obtain ⟨m, rfl⟩ : ∃ m, n = m + 1 := ⟨n - 1, by omega⟩
      simp only [wrapU, norm_unionOne, omits, Codec.zero]
      by_cases hz : t.isZero = true
      · simp [hz, normSpecD, GoType.strip, timeZero_isZero]
      · simp [hz, normSpecD, GoType.strip, normCodec, normTime_printable env hlaws _ ht]
    case nullT k =>
      cases M with
      | zero => simp [Typed] at ht
      | succ M =>
      cases g <;> simp only [Typed] at ht
      rename_i valid inner
      obtain ⟨j, rfl⟩ : ∃ j, N = j + 1 := by
        cases N with
        | zero => simp [bareCodec] at hcb
        | succ j => exact ⟨j, rfl⟩
      simp only [bareCodec, Option.some.injEq] at hcb; subst hcb
      obtain ⟨m, rfl⟩ : ∃ m, n = m + 1 := ⟨n - 1, by omega⟩
      simp only [wrapU, norm_unionOne, omits]
      cases valid
      · cases k <;> simp [Codec.zero, normSpecD, GoType.strip]
      · cases k <;> cases inner <;> simp only [nullInnerTyped] at ht <;>
          simp [normSpecD, GoType.strip, normCodec]
        exact normTime_printable env hlaws _ ht
  · have hu' : unionTyped T = false := by simpa using hu
    simp only [hu', Bool.false_eq_true, if_false] at hc
    have hpre : ∀ cb, isPtr T = true → T.collChain = false → omits env cb g = false := by
      intro cb hp hcc
      cases T <;> simp [isPtr] at hp
      simp only [unionTyped, Bool.not_eq_false'] at hu'
      simp [GoType.collChain, hu'] at hcc
    have hadj : ∀ x', adj T x' g = x' := by
      intro x'
      cases T <;> simp [unionTyped] at hu' <;> simp [adj]
    cases oe
    · -- no omitempty: the bare codec
      simp only [Bool.false_eq_true, if_false] at hc
      have B := (ih.bare T false c g M (n + 1) (n' + 1) hc ht (by omega) hN').2 (hpre c)
      rw [B, hadj]
    · -- omitempty on a type whose schema is not a union: `["null", s]` around the bare codec
      simp only [if_true, Option.map_eq_some_iff] at hc
      obtain ⟨cb, hcb, rfl⟩ := hc
      have B := ih.bare T true cb g M n (n' + 1) hcb ht hN hN'
      have B2 := B.2 (hpre cb)
      rw [hadj] at B2
      obtain ⟨k, rfl⟩ : ∃ k, N = k + 1 := by
        cases N with
        | zero => simp [bareCodec] at hcb
        | succ k => exact ⟨k, rfl⟩
      obtain ⟨m, rfl⟩ : ∃ m, n = m + 1 := ⟨n - 1, by omega⟩
      cases M with
      | zero => simp [Typed] at ht
      | succ M =>
      cases T <;> simp only [unionTyped] at hu'
      case bool =>
        simp only [bareCodec, Option.some.injEq] at hcb; subst hcb
        cases g <;> simp only [Typed] at ht
        rename_i b
        cases b <;> simp [wrapU, norm_unionOne, omits, Codec.zero, normCodec, normSpecD, GoType.strip]
      case int w =>
        simp only [bareCodec] at hcb
        split at hcb <;> try contradiction
        simp only [Option.some.injEq] at hcb; subst hcb
        cases g <;> simp only [Typed] at ht
        rename_i v
        by_cases hv : v = 0
        · subst hv; simp [wrapU, norm_unionOne, omits, Codec.zero, normSpecD, GoType.strip]
        · simp [wrapU, norm_unionOne, omits, hv, normCodec, normSpecD, GoType.strip]
      case float32 =>
        simp only [bareCodec, Option.some.injEq] at hcb; subst hcb
        cases g <;> simp only [Typed] at ht
        rename_i b
        by_cases hz : isZeroF32 b = true
        · simp only [wrapU, norm_unionOne, omits, Bool.true_and, hz, if_true, Codec.zero]
          simp [normSpecD, GoType.strip, hz]
        · simp [wrapU, norm_unionOne, omits, hz, normCodec, normSpecD, GoType.strip, hlaws.narrow_widen _ ht]
      case float64 =>
        simp only [bareCodec, Option.some.injEq] at hcb; subst hcb
        cases g <;> simp only [Typed] at ht
        rename_i b
        by_cases hz : isZeroF64 b = true
        · simp only [wrapU, norm_unionOne, omits, Bool.true_and, hz, if_true, Codec.zero]
          simp [normSpecD, GoType.strip, hz]
        · simp [wrapU, norm_unionOne, omits, hz, normCodec, normSpecD, GoType.strip]
      case string =>
        simp only [bareCodec, Option.some.injEq] at hcb; subst hcb
        cases g <;> simp only [Typed] at ht
        simp [wrapU, normCodec, normSpecD, GoType.strip]
      case slice e =>
        have hcb' := hcb
        rw [bareCodec_slice] at hcb'
        cases g <;> simp only [Typed] at ht
        case bytes bs =>
          simp only [ht, if_true, Option.some.injEq] at hcb'; subst hcb'
          cases bs <;> simp [wrapU, norm_unionOne, omits, Codec.zero, normCodec, normSpecD, GoType.strip]
        case slice items =>
          simp only [ht.1, if_false, Option.map_eq_some_iff, Bool.false_eq_true] at hcb'
          obtain ⟨ci, hci, rfl⟩ := hcb'
          simp only [wrapU, norm_unionOne, omits, Bool.true_and]
          cases items with
          | nil => simp [Codec.zero, normSpecD, GoType.strip]
          | cons x xs =>
            simp only [List.isEmpty_cons, Bool.false_eq_true, if_false]
            rw [normSpecD_slice_oe 0, normSpecD_slice_oe 7]
            exact B2
      case map kt v =>
        have hcb' := hcb
        rw [bareCodec_map] at hcb'
        cases g <;> simp only [Typed] at ht
        rename_i nl ks vs
        split at hcb'
        · simp only [Option.map_eq_some_iff] at hcb'
          obtain ⟨ci, hci, rfl⟩ := hcb'
          simp only [wrapU, norm_unionOne, omits, Bool.true_and]
          cases ks with
          | nil =>
            have : vs = [] := by
              have := ht.1
              simp at this
              exact List.eq_nil_of_length_eq_zero this.symm
            subst this
            simp [Codec.zero, normSpecD, GoType.strip]
          | cons x xs =>
            simp only [List.isEmpty_cons, Bool.false_eq_true, if_false]
            rw [normSpecD_map_oe 0, normSpecD_map_oe 7]
            exact B2
        · contradiction
      case struct nm pkg fs =>
        have hcb' := hcb
        rw [bareCodec_struct] at hcb'
        cases g <;> simp only [Typed] at ht
        split at hcb'
        · simp only [Option.map_eq_some_iff] at hcb'
          obtain ⟨cs, -, rfl⟩ := hcb'
          simp only [wrapU, norm_unionOne, omits, Bool.false_eq_true, if_false]
          rw [normSpecD_struct_oe 0, normSpecD_struct_oe 7]
          exact B2
        · contradiction
      case ptr e =>
        simp only [Bool.not_eq_false'] at hu'
        have hcb' := hcb
        rw [bareCodec_ptr] at hcb'
        simp only [Option.map_eq_some_iff] at hcb'
        obtain ⟨ce, -, rfl⟩ := hcb'
        have hcc : (GoType.ptr e).collChain = true := by simpa [GoType.collChain] using hu'
        have B1 := (B.1 rfl).2 hcc
        simp only [wrapU, norm_unionOne]
        rw [normSpecD_ptr_oe 0, normSpecD_ptr_oe 7]
        by_cases ho : omits env (.pointer ce) g = true
        · simp only [ho, if_true, Codec.zero]
          rw [B1 ho, normSpecD_ptr_none, hu']
          rfl
        · simp only [ho, if_false, Bool.false_eq_true]
          exact B2
      all_goals (simp only [bareCodec] at hcb; try contradiction)

/-- model and oracle agree at every budget -/
theorem agreeAt (hlaws : EnvLaws env) : ∀ N, AgreeAt env N
  | 0 => agree_zero env
  | N + 1 => ⟨agree_bare_step env hlaws N (agreeAt hlaws N), agree_field_step env hlaws N (agreeAt hlaws N)⟩

/-- **M2, model against oracle**: for a Go type `T` of the fragment (`fieldCodec N T oe = some c`: bool,
int16/32/64, float32/64, string, `[]byte`, slices, string-keyed maps, pointers of any depth, structs
whose fields are all encoded under distinct names and carry arbitrary `omitempty` tags, `time.Time`
with the default string schema, `null.*`), its codec `c` and a well-typed value `g`, what the codec
model reads back (`normCodec … c g`, by `roundTrip`) and the written value agree up to the documented
normalisations and the three recorded deviations D27, D30, D32:
`normSpec T (normCodec c g) = normSpecD 7 T g`.
Excluded: named (`custom`) types, uint/int8/complex/array kinds, structs with clashing names,
non-default time schemas (long / date logical types), `null.Float` under a `float` schema; for those
nothing is claimed. `fieldCodec` is also defined for structs with skipped (unexported or "-") fields,
but `Typed` asks that every field of a struct value is encoded: a skipped field is not written and
reads back as its zero value. That `fieldCodec` is the codec the builder model yields for the
generated schema is proved in general in `Lemmas/TypeCodec.lean` (`built_is_fieldCodec`); the
`example … tBig`, `cPP_built`, … here are instances. -/
theorem normSpec_agrees (hlaws : EnvLaws env) (N M n n' : Nat) (T : GoType) (oe : Bool) (c : Codec) (g : GoVal)
    (hc : fieldCodec N T oe = some c) (ht : Typed M T g) (hn : N ≤ n) (hn' : N ≤ n') :
    normSpec n' T oe (normCodec env n c g) = normSpecD 7 n' T oe g :=
  (agreeAt env hlaws N).field T oe c g M n n' hc ht hn hn'

end

end Avro
