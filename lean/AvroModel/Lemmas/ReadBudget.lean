import AvroModel.Lemmas.Budget
/-!
Reading a valid encoding with at least `readBudget c v` steps does not run out of budget, whatever
the destination holds and whatever follows the datum (`read_ne_fuel`). The induction proves more
(`Done`): the call either succeeds leaving exactly the bytes after the datum, or fails with an
outcome other than `.fuel` — this also covers destinations of the wrong shape, for which
`ReadSpec` claims nothing. `read_exact` / `read_misfit` combine it with `readOkAt`.
-/
namespace Avro

/-- the call finished within its budget: success leaves exactly `rest` unread -/
def Done {α : Type} (o : Outcome (α × Bytes)) (rest : Bytes) : Prop :=
  match o with
  | .ok (_, r) => r = rest
  | .fuel => False
  | _ => True

theorem Done.ok {α : Type} (g : α) (rest : Bytes) : Done (.ok (g, rest)) rest := rfl
theorem Done.err {α : Type} (rest : Bytes) : Done (.err : Outcome (α × Bytes)) rest := trivial
theorem Done.stuck {α : Type} (rest : Bytes) : Done (.stuck : Outcome (α × Bytes)) rest := trivial
theorem Done.panic {α : Type} (rest : Bytes) : Done (.panic : Outcome (α × Bytes)) rest := trivial

theorem Done.ne_fuel {α : Type} {o : Outcome (α × Bytes)} {rest : Bytes} (h : Done o rest) : o ≠ .fuel := by
  intro hf; rw [hf] at h; exact h

theorem Done.bind {α β : Type} {o : Outcome (α × Bytes)} {mid rest : Bytes} {k : α × Bytes → Outcome (β × Bytes)}
    (h1 : Done o mid) (h2 : ∀ g, Done (k (g, mid)) rest) : Done (o.bind k) rest := by
  cases o with
  | ok a =>
    obtain ⟨g, r⟩ := a
    have : r = mid := h1
    subst this; exact h2 g
  | fuel => exact absurd h1 id
  | err => trivial
  | panic => trivial
  | stuck => trivial

theorem Done.after_skip {β : Type} {o : Outcome Bytes} {mid rest : Bytes} {k : Bytes → Outcome (β × Bytes)}
    (h1 : o = .ok mid) (h2 : Done (k mid) rest) : Done (o.bind k) rest := by
  rw [h1]; exact h2

variable (env : Env)

/-- codecs whose `read` calls no other codec -/
def Codec.isLeaf : Codec → Bool
  | .null | .bool _ | .int _ _ | .float _ | .double _ | .f32double _ | .bytes _ | .string _ | .fixed _
  | .timeString | .timeLong _ | .date => true
  | _ => false

/-- leaf codecs finish in one step -/
theorem done_read_leaf (n : Nat) :
    ∀ c s p v bs rest dst, CodecFor c s → c.isLeaf = true → encode p s v = some bs →
    Done (read env (n + 1) c (bs ++ rest) dst) rest := by
  intro c s p v bs rest dst hc hl he
  cases hc <;> (try (simp [Codec.isLeaf] at hl; done))
  case null =>
    obtain ⟨rfl, rfl⟩ := encode_null_inv he
    simp only [read, List.nil_append]; exact Done.ok _ _
  case bool =>
    obtain ⟨b, rfl, rfl⟩ := encode_boolean_inv he
    simp only [read, Outcome.bind_eq, Outcome.pure_eq, rdByte_writeBool, Outcome.bind_ok']
    exact Done.ok _ _
  case intI =>
    obtain ⟨i, rfl, hr, rfl⟩ := encode_int_inv he
    simp only [read, Outcome.bind_eq, Outcome.pure_eq, rdInt_write _ _ (inRange_32_64 hr)]
    split
    · exact Done.ok _ _
    · exact Done.err _
  case intL =>
    obtain ⟨i, rfl, hr, rfl⟩ := encode_long_inv he
    simp only [read, Outcome.bind_eq, Outcome.pure_eq, rdInt_write _ _ hr]
    split
    · exact Done.ok _ _
    · exact Done.err _
  case float =>
    obtain ⟨b, rfl, hb, rfl⟩ := encode_float_inv he
    simp only [read, Outcome.bind_eq, Outcome.pure_eq]
    rw [next_putLE4]; exact Done.ok _ _
  case double =>
    obtain ⟨b, rfl, hb, rfl⟩ := encode_double_inv he
    simp only [read, Outcome.bind_eq, Outcome.pure_eq]
    rw [next_putLE8]; exact Done.ok _ _
  case f32double =>
    obtain ⟨b, rfl, hb, rfl⟩ := encode_double_inv he
    simp only [read, Outcome.bind_eq, Outcome.pure_eq]
    rw [next_putLE8]; exact Done.ok _ _
  case bytes =>
    obtain ⟨b, rfl, hl, rfl⟩ := encode_bytes_inv he
    simp only [read, Outcome.bind_eq, Outcome.pure_eq, encBytes, List.append_assoc,
      rdVarint_write _ (inRange_of_nat_lt hl), Outcome.bind_ok']
    split
    · rename_i h0
      have : b = [] := by cases b with
        | nil => rfl
        | cons x xs => simp at h0; omega
      subst this; exact Done.ok _ _
    · rw [next_append]; exact Done.ok _ _
  case string =>
    obtain ⟨b, rfl, hl, rfl⟩ := encode_string_inv he
    simp only [read, Outcome.bind_eq, Outcome.pure_eq, encBytes, List.append_assoc,
      rdVarint_write _ (inRange_of_nat_lt hl), Outcome.bind_ok']
    have h0 : ¬ ((b.length : Int) < 0) := by omega
    rw [if_neg h0, next_append]
    exact Done.ok _ _
  case fixed =>
    obtain ⟨rfl, hl⟩ := encode_fixed_inv he
    simp only [read, Outcome.bind_eq, Outcome.pure_eq]
    subst hl
    rw [next_append]
    exact Done.ok _ _
  case timeString =>
    obtain ⟨b, rfl, hl, rfl⟩ := encode_string_inv he
    simp only [read, Outcome.bind_eq, Outcome.pure_eq, encBytes, List.append_assoc,
      rdVarint_write _ (inRange_of_nat_lt hl), Outcome.bind_ok']
    split
    · rename_i h0
      have : b = [] := by cases b with
        | nil => rfl
        | cons x xs => simp at h0; omega
      subst this; exact Done.ok _ _
    · rw [next_append]
      simp only [Outcome.bind_ok']
      cases env.parseTime b with
      | some t => exact Done.ok _ _
      | none => exact Done.err _
  case timeLong =>
    obtain ⟨i, rfl, hr, rfl⟩ := encode_long_inv he
    simp only [read, Outcome.bind_eq, Outcome.pure_eq, rdInt_write _ _ hr, if_pos hr, Outcome.bind_ok']
    exact Done.ok _ _
  case date =>
    obtain ⟨i, rfl, hr, rfl⟩ := encode_int_inv he
    simp only [read, Outcome.bind_eq, Outcome.pure_eq, rdInt_write _ _ (inRange_32_64 hr), if_pos hr, Outcome.bind_ok']
    exact Done.ok _ _

/-- at budget `n`, reading a valid encoding whose budget is at most `n` finishes -/
structure ReadDoneAt (n : Nat) : Prop where
  read : ∀ c s p v bs rest dst, CodecFor c s → encode p s v = some bs → c.sz + 2 * v.sz + 2 ≤ n →
    Done (read env n c (bs ++ rest) dst) rest
  readFields : ∀ cs ss ts ps vs bs rest fs, CodecsFor cs ss → encodeFields ps ss vs = some bs →
    Codec.szList cs + 2 * Value.szList vs + 2 ≤ n →
    Done (readFields env n cs ts (bs ++ rest) fs) rest
  readItems : ∀ item s vs es rest acc, CodecFor item s → ItemsEnc s vs es →
    item.sz + 2 * Value.szList vs + 2 ≤ n →
    Done (readItems env n item es.length (es.flatten ++ rest) acc) rest
  readArrayBlocks : ∀ item s bl vs es bs rest acc, CodecFor item s → ItemsEnc s vs es → encBlocks bl es = some bs →
    item.sz + 2 * Value.szList vs + 3 ≤ n →
    Done (readArrayBlocks env n item (bs ++ rest) acc) rest
  readMapItems : ∀ val s kvs es rest ks0 vs0, CodecFor val s → EntriesEnc s kvs es →
    val.sz + 2 * Value.szList (kvs.map (·.2)) + 2 ≤ n →
    Done (readMapItems env n val es.length (es.flatten ++ rest) ks0 vs0) rest
  readMapBlocks : ∀ val s bl kvs es bs rest ks0 vs0, CodecFor val s → EntriesEnc s kvs es → encBlocks bl es = some bs →
    val.sz + 2 * Value.szList (kvs.map (·.2)) + 3 ≤ n →
    Done (readMapBlocks env n val (bs ++ rest) ks0 vs0) rest

theorem readDone_read (n : Nat) (ih : ReadDoneAt env n) :
    ∀ c s p v bs rest dst, CodecFor c s → encode p s v = some bs → c.sz + 2 * v.sz + 2 ≤ n + 1 →
    Done (read env (n + 1) c (bs ++ rest) dst) rest := by
  intro c s p v bs rest dst hc he hn
  have hread := ih.read
  cases hc with
  | null => exact done_read_leaf env n _ _ _ _ _ _ _ .null rfl he
  | bool => exact done_read_leaf env n _ _ _ _ _ _ _ .bool rfl he
  | intI => exact done_read_leaf env n _ _ _ _ _ _ _ .intI rfl he
  | intL => exact done_read_leaf env n _ _ _ _ _ _ _ .intL rfl he
  | float => exact done_read_leaf env n _ _ _ _ _ _ _ .float rfl he
  | double => exact done_read_leaf env n _ _ _ _ _ _ _ .double rfl he
  | f32double => exact done_read_leaf env n _ _ _ _ _ _ _ .f32double rfl he
  | bytes => exact done_read_leaf env n _ _ _ _ _ _ _ .bytes rfl he
  | string => exact done_read_leaf env n _ _ _ _ _ _ _ .string rfl he
  | fixed => exact done_read_leaf env n _ _ _ _ _ _ _ .fixed rfl he
  | timeString => exact done_read_leaf env n _ _ _ _ _ _ _ .timeString rfl he
  | timeLong => exact done_read_leaf env n _ _ _ _ _ _ _ .timeLong rfl he
  | date => exact done_read_leaf env n _ _ _ _ _ _ _ .date rfl he
  | array hitem =>
    obtain ⟨bl, subs, vs, encs, rfl, rfl, hi, hb⟩ := encode_array_inv he
    simp only [Codec.sz, Value.sz] at hn
    cases dst <;> simp only [read] <;> (try exact Done.stuck _)
    rename_i items
    simp only [Outcome.bind_eq, Outcome.pure_eq]
    exact Done.bind (ih.readArrayBlocks _ _ bl vs encs bs rest items hitem (encodeItems_inv hi) hb (by omega))
      (fun g => Done.ok _ _)
  | map hval =>
    obtain ⟨bl, subs, ks, vs, encs, rfl, rfl, hlen, hks, hi, hb⟩ := encode_map_inv he
    simp only [Codec.sz, Value.sz] at hn
    cases dst <;> simp only [read] <;> (try exact Done.stuck _)
    rename_i nl ks0 vs0
    simp only [Outcome.bind_eq, Outcome.pure_eq]
    have := ih.readMapBlocks _ _ bl (ks.zip vs) _ bs rest ks0 vs0 hval (entriesEnc_of (encodeItems_inv hi) ks hlen hks) hb
      (by rw [zip_map_snd ks vs hlen]; omega)
    exact Done.bind this (fun g => Done.ok _ _)
  | pointer hc' =>
    simp only [Codec.sz] at hn
    cases dst <;> simp only [read] <;> (try exact Done.stuck _)
    rename_i tgt
    cases tgt with
    | none =>
      simp only [Outcome.bind_eq, Outcome.pure_eq]
      exact Done.bind (hread _ _ _ _ _ _ _ hc' he (by omega)) (fun g => Done.ok _ _)
    | some x =>
      simp only [Outcome.bind_eq, Outcome.pure_eq]
      exact Done.bind (hread _ _ _ _ _ _ _ hc' he (by omega)) (fun g => Done.ok _ _)
  | record hcs _ =>
    obtain ⟨bl, subs, vs, rfl, rfl, hf⟩ := encode_record_inv he
    simp only [Codec.sz, Value.sz] at hn
    cases dst <;> simp only [read] <;> (try exact Done.stuck _)
    rename_i fs
    simp only [Outcome.bind_eq, Outcome.pure_eq]
    exact Done.bind (ih.readFields _ _ _ _ _ _ _ fs hcs hf (by omega)) (fun g => Done.ok _ _)
  | @union cs ss hcs =>
    obtain ⟨bl, idx, v', b, p', e, rfl, rfl, hb, he', hi, rfl⟩ := encode_union_inv he
    obtain ⟨c', hc', hf⟩ := hcs.get hb
    have hlen : idx < cs.length := (List.getElem?_eq_some_iff.mp hc').1
    have hsz := Codec.sz_le_of_getElem? _ _ _ hc'
    simp only [Codec.sz, Value.sz] at hn
    simp only [read, Outcome.bind_eq]
    rw [List.append_assoc, rdVarint_write _ (inRange_of_nat_lt hi)]
    simp only [Outcome.bind_ok']
    have hr : ¬ ((idx : Int) < 0 ∨ (idx : Int) ≥ (cs.length : Nat)) := by omega
    rw [if_neg hr]
    simp only [Int.toNat_natCast, hc']
    exact hread _ _ _ _ _ _ _ hf he' (by omega)
  | unionOne0 hc' =>
    obtain ⟨bl, idx, v', b, p', e, rfl, rfl, hb, he', hi, rfl⟩ := encode_union_inv he
    simp only [Codec.sz, Value.sz] at hn
    simp only [read, Outcome.bind_eq, Outcome.pure_eq]
    match idx, hb with
    | 0, hb =>
      simp at hb; subst hb
      rw [sel0]; simp
      exact hread _ _ _ _ _ _ _ hc' he' (by omega)
    | 1, hb =>
      simp at hb; subst hb
      obtain ⟨_, rfl⟩ := encode_null_inv he'
      rw [sel1]; simp
      exact Done.ok _ _
    | k + 2, hb => simp at hb
  | unionOne1 hc' =>
    obtain ⟨bl, idx, v', b, p', e, rfl, rfl, hb, he', hi, rfl⟩ := encode_union_inv he
    simp only [Codec.sz, Value.sz] at hn
    simp only [read, Outcome.bind_eq, Outcome.pure_eq]
    match idx, hb with
    | 0, hb =>
      simp at hb; subst hb
      obtain ⟨_, rfl⟩ := encode_null_inv he'
      rw [sel0]; simp
      exact Done.ok _ _
    | 1, hb =>
      simp at hb; subst hb
      rw [sel1]; simp
      exact hread _ _ _ _ _ _ _ hc' he' (by omega)
    | k + 2, hb => simp at hb
  | unionNullString0 =>
    obtain ⟨bl, idx, v', b, p', e, rfl, rfl, hb, he', hi, rfl⟩ := encode_union_inv he
    simp only [Codec.sz, Value.sz] at hn
    simp only [read, Outcome.bind_eq, Outcome.pure_eq]
    match idx, hb with
    | 0, hb =>
      simp at hb; subst hb
      rw [sel0]; simp
      exact hread (.string false) .string p' v' e rest dst CodecFor.string he' (by simp only [Codec.sz]; omega)
    | 1, hb =>
      simp at hb; subst hb
      obtain ⟨_, rfl⟩ := encode_null_inv he'
      rw [sel1]; simp
      exact Done.ok _ _
    | k + 2, hb => simp at hb
  | unionNullString1 =>
    obtain ⟨bl, idx, v', b, p', e, rfl, rfl, hb, he', hi, rfl⟩ := encode_union_inv he
    simp only [Codec.sz, Value.sz] at hn
    simp only [read, Outcome.bind_eq, Outcome.pure_eq]
    match idx, hb with
    | 0, hb =>
      simp at hb; subst hb
      obtain ⟨_, rfl⟩ := encode_null_inv he'
      rw [sel0]; simp
      exact Done.ok _ _
    | 1, hb =>
      simp at hb; subst hb
      rw [sel1]; simp
      exact hread (.string false) .string p' v' e rest dst CodecFor.string he' (by simp only [Codec.sz]; omega)
    | k + 2, hb => simp at hb
  | nullInt =>
    obtain ⟨n', rfl⟩ : ∃ k, n = k + 1 := ⟨n - 1, by omega⟩
    simp only [read, nullInner, Outcome.bind_eq, Outcome.pure_eq]
    exact Done.bind (done_read_leaf env n' (.int 64 false) .long p v bs rest (match dst with | .nullw _ x => x | x => x) .intL rfl he) (fun g => Done.ok _ _)
  | nullIntI =>
    obtain ⟨n', rfl⟩ : ∃ k, n = k + 1 := ⟨n - 1, by omega⟩
    simp only [read, nullInner, Outcome.bind_eq, Outcome.pure_eq]
    exact Done.bind (done_read_leaf env n' (.int 64 false) .int p v bs rest (match dst with | .nullw _ x => x | x => x) .intI rfl he) (fun g => Done.ok _ _)
  | nullBool =>
    obtain ⟨n', rfl⟩ : ∃ k, n = k + 1 := ⟨n - 1, by omega⟩
    simp only [read, nullInner, Outcome.bind_eq, Outcome.pure_eq]
    exact Done.bind (done_read_leaf env n' (.bool false) .boolean p v bs rest (match dst with | .nullw _ x => x | x => x) .bool rfl he) (fun g => Done.ok _ _)
  | nullDouble =>
    obtain ⟨n', rfl⟩ : ∃ k, n = k + 1 := ⟨n - 1, by omega⟩
    simp only [read, nullInner, Outcome.bind_eq, Outcome.pure_eq]
    exact Done.bind (done_read_leaf env n' (.double false) .double p v bs rest (match dst with | .nullw _ x => x | x => x) .double rfl he) (fun g => Done.ok _ _)
  | nullFloat =>
    obtain ⟨n', rfl⟩ : ∃ k, n = k + 1 := ⟨n - 1, by omega⟩
    simp only [read, nullInner, Outcome.bind_eq, Outcome.pure_eq]
    exact Done.bind (done_read_leaf env n' (.float false) .float p v bs rest (match dst with | .nullw _ x => x | x => x) .float rfl he) (fun g => Done.ok _ _)
  | nullString =>
    obtain ⟨n', rfl⟩ : ∃ k, n = k + 1 := ⟨n - 1, by omega⟩
    simp only [read, nullInner, Outcome.bind_eq, Outcome.pure_eq]
    exact Done.bind (done_read_leaf env n' (.string false) .string p v bs rest (match dst with | .nullw _ x => x | x => x) .string rfl he) (fun g => Done.ok _ _)
  | nullTime =>
    obtain ⟨n', rfl⟩ : ∃ k, n = k + 1 := ⟨n - 1, by omega⟩
    simp only [read, nullInner, Outcome.bind_eq, Outcome.pure_eq]
    exact Done.bind (done_read_leaf env n' .timeString .string p v bs rest (match dst with | .nullw _ x => x | x => x) .timeString rfl he) (fun g => Done.ok _ _)

theorem readDone_readFields (n : Nat) (ih : ReadDoneAt env n) :
    ∀ cs ss ts ps vs bs rest fs, CodecsFor cs ss → encodeFields ps ss vs = some bs →
    Codec.szList cs + 2 * Value.szList vs + 2 ≤ n + 1 →
    Done (readFields env (n + 1) cs ts (bs ++ rest) fs) rest := by
  intro cs ss ts ps vs bs rest fs hcs he hn
  cases hcs with
  | nil =>
    obtain ⟨rfl, rfl, rfl⟩ := encodeFields_nil_inv he
    simp only [readFields, List.nil_append]; exact Done.ok _ _
  | cons h1 h2 =>
    obtain ⟨p, ps', v, vs', a, b, rfl, rfl, ha, hb, rfl⟩ := encodeFields_cons_inv he
    simp only [Codec.szList, Value.szList] at hn
    cases ts with
    | nil => simp only [readFields]; exact Done.stuck _
    | cons t ts =>
      cases t with
      | none =>
        simp only [readFields, Outcome.bind_eq, List.append_assoc]
        exact Done.after_skip ((skipBudAt env n).skip _ _ _ _ _ _ h1 ha (by omega))
          (ih.readFields _ _ _ _ _ _ _ fs h2 hb (by omega))
      | some i =>
        simp only [readFields, List.append_assoc]
        cases hfi : fs[i]? with
        | none => exact Done.stuck _
        | some cur =>
          simp only [Outcome.bind_eq]
          exact Done.bind (k := fun x => readFields env n _ ts x.2 (listSet fs i x.1))
            (ih.read _ _ _ _ _ _ cur h1 ha (by omega)) (fun g => ih.readFields _ _ _ _ _ _ _ _ h2 hb (by omega))

theorem readDone_readItems (n : Nat) (ih : ReadDoneAt env n) :
    ∀ item s vs es rest acc, CodecFor item s → ItemsEnc s vs es →
    item.sz + 2 * Value.szList vs + 2 ≤ n + 1 →
    Done (readItems env (n + 1) item es.length (es.flatten ++ rest) acc) rest := by
  intro item s vs es rest acc hitem henc hn
  cases henc with
  | nil => simp only [List.length_nil, readItems, List.flatten_nil, List.nil_append]; exact Done.ok _ _
  | cons hr ht =>
    obtain ⟨p, hp⟩ := hr
    simp only [Value.szList] at hn
    simp only [List.length_cons, readItems, List.flatten_cons, List.append_assoc, Outcome.bind_eq]
    exact Done.bind (k := fun x => readItems env n item _ x.2 (acc ++ [x.1]))
      (ih.read _ _ _ _ _ _ _ hitem hp (by omega)) (fun g => ih.readItems item s _ _ rest (acc ++ [g]) hitem ht (by omega))

theorem readDone_readArrayBlocks (n : Nat) (ih : ReadDoneAt env n) :
    ∀ item s bl vs es bs rest acc, CodecFor item s → ItemsEnc s vs es → encBlocks bl es = some bs →
    item.sz + 2 * Value.szList vs + 3 ≤ n + 1 →
    Done (readArrayBlocks env (n + 1) item (bs ++ rest) acc) rest := by
  intro item s bl vs es bs rest acc hitem henc hb hn
  cases bl with
  | nil =>
    obtain ⟨rfl, rfl⟩ := encBlocks_nil_inv hb
    simp only [readArrayBlocks, Outcome.bind_eq, Outcome.pure_eq]
    rw [rdVarint_write 0 (by unfold inRange; omega)]
    simp only [Outcome.bind_ok', if_true]
    exact Done.ok _ _
  | cons blk bl =>
    obtain ⟨k, sized⟩ := blk
    obtain ⟨rest', hk0, hkl, hk63, hbody63, hrest, rfl⟩ := encBlocks_cons_inv hb
    have hlenv : vs.length = es.length := henc.length_eq
    have htake := henc.take k
    have hdrop := henc.drop k
    have hlen : (es.take k).length = k := by simp; omega
    have hsum := Value.szList_take_add_drop k vs
    have hpos := Value.szList_take_pos (k := k) (vs := vs) hk0 (by omega)
    simp only [readArrayBlocks, Outcome.bind_eq, Outcome.pure_eq]
    rw [List.append_assoc, List.append_assoc, rdVarint_blockHeader sized k _ hk63]
    simp only [Outcome.bind_ok']
    have hne : ¬ ((if sized then -(k : Int) else (k : Int)) = 0) := by cases sized <;> simp <;> omega
    rw [if_neg hne]
    rcases arrayBlockCount_header sized k _ hk0 hk63 hbody63 ((es.take k).flatten ++ (rest' ++ rest)) acc.length with h | h
    · rw [h]
      simp only [Outcome.bind_ok']
      have h1 := ih.readItems item s _ _ (rest' ++ rest) acc hitem htake (by omega)
      rw [hlen] at h1
      exact Done.bind (k := fun x => readArrayBlocks env n item x.2 x.1) h1
        (fun g => ih.readArrayBlocks item s bl _ _ rest' rest g hitem hdrop hrest (by omega))
    · rw [h]; exact Done.err _

theorem readDone_readMapItems (n : Nat) (ih : ReadDoneAt env n) :
    ∀ val s kvs es rest ks0 vs0, CodecFor val s → EntriesEnc s kvs es →
    val.sz + 2 * Value.szList (kvs.map (·.2)) + 2 ≤ n + 1 →
    Done (readMapItems env (n + 1) val es.length (es.flatten ++ rest) ks0 vs0) rest := by
  intro val s kvs es rest ks0 vs0 hval henc hn
  cases henc with
  | nil =>
    simp only [List.length_nil, readMapItems, List.flatten_nil, List.nil_append]
    exact Done.ok _ _
  | @cons kv e kvs' es' hr ht =>
    obtain ⟨key, v⟩ := kv
    obtain ⟨hkl, p, d, hp, rfl⟩ := hr
    simp only [List.map_cons, Value.szList] at hn
    simp only [List.length_cons, readMapItems, List.flatten_cons, Outcome.bind_eq, encBytes, List.append_assoc]
    rw [rdVarint_write _ (inRange_of_nat_lt hkl)]
    simp only [Outcome.bind_ok']
    have h0 : ¬ ((key.length : Int) < 0) := by omega
    rw [if_neg h0, next_append]
    simp only [Outcome.bind_ok']
    exact Done.bind (k := fun x => readMapItems env n val _ x.2 (mapAssign key x.1 ks0 vs0).1 (mapAssign key x.1 ks0 vs0).2)
      (ih.read val s p v d (es'.flatten ++ rest) (Codec.zero env val) hval hp (by omega))
      (fun g => ih.readMapItems val s kvs' es' rest _ _ hval ht (by omega))

theorem readDone_readMapBlocks (n : Nat) (ih : ReadDoneAt env n) :
    ∀ val s bl kvs es bs rest ks0 vs0, CodecFor val s → EntriesEnc s kvs es → encBlocks bl es = some bs →
    val.sz + 2 * Value.szList (kvs.map (·.2)) + 3 ≤ n + 1 →
    Done (readMapBlocks env (n + 1) val (bs ++ rest) ks0 vs0) rest := by
  intro val s bl kvs es bs rest ks0 vs0 hval henc hb hn
  cases bl with
  | nil =>
    obtain ⟨rfl, rfl⟩ := encBlocks_nil_inv hb
    simp only [readMapBlocks, Outcome.bind_eq, Outcome.pure_eq]
    rw [rdVarint_write 0 (by unfold inRange; omega)]
    simp only [Outcome.bind_ok', if_true]
    exact Done.ok _ _
  | cons blk bl =>
    obtain ⟨k, sized⟩ := blk
    obtain ⟨rest', hk0, hkl, hk63, hbody63, hrest, rfl⟩ := encBlocks_cons_inv hb
    have hlenv : kvs.length = es.length := henc.length_eq
    have htake := henc.take k
    have hdrop := henc.drop k
    have hlen : (es.take k).length = k := by simp; omega
    have hsum := Value.szList_take_add_drop k (kvs.map (·.2))
    have hpos := Value.szList_take_pos (k := k) (vs := kvs.map (·.2)) hk0 (by simp; omega)
    rw [← List.map_take, ← List.map_drop] at hsum
    rw [← List.map_take] at hpos
    simp only [readMapBlocks, Outcome.bind_eq, Outcome.pure_eq]
    rw [List.append_assoc, List.append_assoc, rdVarint_blockHeader sized k _ hk63]
    simp only [Outcome.bind_ok']
    have hne : ¬ ((if sized then -(k : Int) else (k : Int)) = 0) := by cases sized <;> simp <;> omega
    rw [if_neg hne, blockCount_header sized k _ hk0 hk63 hbody63]
    simp only [Outcome.bind_ok']
    have h1 := ih.readMapItems val s _ _ (rest' ++ rest) ks0 vs0 hval htake (by omega)
    rw [hlen] at h1
    exact Done.bind (k := fun x => readMapBlocks env n val x.2 x.1.1 x.1.2) h1
      (fun g => ih.readMapBlocks val s bl _ _ rest' rest g.1 g.2 hval hdrop hrest (by omega))

theorem readDoneAt : ∀ n, ReadDoneAt env n := by
  intro n
  induction n with
  | zero => constructor <;> intros <;> omega
  | succ n ih =>
    exact ⟨readDone_read env n ih, readDone_readFields env n ih, readDone_readItems env n ih,
      readDone_readArrayBlocks env n ih, readDone_readMapItems env n ih, readDone_readMapBlocks env n ih⟩

/-! ### The budget theorems -/

/-- **Reading a valid encoding with at least `readBudget c v` steps does not run out of budget**:
any plan, any destination, anything after the datum. -/
theorem read_ne_fuel {c : Codec} {s : ASchema} {p : Plan} {v : Value} {bs : Bytes} (hcf : CodecFor c s)
    (he : encode p s v = some bs) {n : Nat} (hn : readBudget c v ≤ n) (rest : Bytes) (dst : GoVal) :
    read env n c (bs ++ rest) dst ≠ .fuel :=
  ((readDoneAt env n).read c s p v bs rest dst hcf he hn).ne_fuel

/-- on success exactly the datum's bytes were consumed — also for destinations of the wrong shape -/
theorem read_budget_rest {c : Codec} {s : ASchema} {p : Plan} {v : Value} {bs : Bytes} (hcf : CodecFor c s)
    (he : encode p s v = some bs) {n : Nat} (hn : readBudget c v ≤ n) {rest : Bytes} {dst g : GoVal} {r : Bytes}
    (h : read env n c (bs ++ rest) dst = .ok (g, r)) : r = rest := by
  have := (readDoneAt env n).read c s p v bs rest dst hcf he hn
  rw [h] at this; exact this

/-- **Read correctness with an explicit budget** (no "or out of budget" alternative): when the datum
fits the destination (`ofAvro … = .ok g`), `read` returns `g` and exactly the bytes after the datum. -/
theorem read_exact {c : Codec} {s : ASchema} {p : Plan} {v : Value} {bs : Bytes} (hcf : CodecFor c s)
    (he : encode p s v = some bs) {n : Nat} (hn : readBudget c v ≤ n) (rest : Bytes) {m : Nat} {dst g : GoVal}
    (hf : ofAvro env m c v dst = .ok g) :
    read env n c (bs ++ rest) dst = .ok (g, rest) := by
  have h := (readOkAt env n).read m c s p v bs rest dst hcf he
  rw [hf] at h
  rcases h with h | h
  · exact h
  · exact absurd h (read_ne_fuel env hcf he hn rest dst)

/-- a datum that does not fit (integer out of the Go type's range, unparsable timestamp) is an error -/
theorem read_misfit {c : Codec} {s : ASchema} {p : Plan} {v : Value} {bs : Bytes} (hcf : CodecFor c s)
    (he : encode p s v = some bs) {n : Nat} (hn : readBudget c v ≤ n) (rest : Bytes) {m : Nat} {dst : GoVal}
    (hf : ofAvro env m c v dst = .misfit) :
    read env n c (bs ++ rest) dst = .err := by
  have h := (readOkAt env n).read m c s p v bs rest dst hcf he
  rw [hf] at h
  rcases h with h | h
  · exact h
  · exact absurd h (read_ne_fuel env hcf he hn rest dst)

/-- the three `Fit` outcomes in one statement -/
def ReadExact {α : Type} (o : Outcome (α × Bytes)) (f : Fit α) (rest : Bytes) : Prop :=
  match f with
  | .ok g => o = .ok (g, rest)
  | .misfit => o = .err
  | .illtyped => o ≠ .fuel

theorem read_budget_spec {c : Codec} {s : ASchema} {p : Plan} {v : Value} {bs : Bytes} (hcf : CodecFor c s)
    (he : encode p s v = some bs) {n : Nat} (hn : readBudget c v ≤ n) (rest : Bytes) (m : Nat) (dst : GoVal) :
    ReadExact (read env n c (bs ++ rest) dst) (ofAvro env m c v dst) rest := by
  cases hf : ofAvro env m c v dst with
  | ok g => exact read_exact env hcf he hn rest hf
  | misfit => exact read_misfit env hcf he hn rest hf
  | illtyped => exact read_ne_fuel env hcf he hn rest dst

/-- one budget for a whole list of records -/
theorem read_exact_list {c : Codec} {s : ASchema} {vs : List Value} {N : Nat} (hN : readBudgetList c vs ≤ N)
    {p : Plan} {v : Value} {bs : Bytes} (hv : v ∈ vs) (hcf : CodecFor c s) (he : encode p s v = some bs)
    (rest : Bytes) {m : Nat} {dst g : GoVal} (hf : ofAvro env m c v dst = .ok g) :
    read env N c (bs ++ rest) dst = .ok (g, rest) :=
  read_exact env hcf he (Nat.le_trans (readBudget_le_list hv) hN) rest hf

/-! Non-vacuity: a two-block array of longs (first block size-prefixed) in a nullable union, read into
an empty slice with the budget `readBudget = 14`, whatever follows; and the same bytes skipped. -/
example : readBudget (.unionOne (.array (.int 64 false) false) 0) (.union 0 (.array [.int 1, .int (-1), .int 64])) = 14 := by
  simp [readBudget, Codec.sz, Value.sz, Value.szList]

example (rest : Bytes) :
    read env 14 (.unionOne (.array (.int 64 false) false) 0) ([0, 1, 2, 2, 4, 1, 0x80, 0x01, 0] ++ rest) (.slice []) =
      .ok (.slice [.int 1, .int (-1), .int 64], rest) :=
  read_exact env (s := .union [.array .long, .null]) (v := .union 0 (.array [.int 1, .int (-1), .int 64]))
    (p := .node [] [.node [(1, true), (2, false)] [.leaf, .leaf, .leaf]])
    (.unionOne0 (.array .intL))
    (by simp [encode, encodeItems, encBlocks, writeVarint, zigzag, putUvarint, inRange, Plan.leaf])
    (by simp [readBudget, Codec.sz, Value.sz, Value.szList]) rest (m := 4)
    (by simp [ofAvro, mapFit, inRange])

example (rest : Bytes) :
    skip env 14 (.unionOne (.array (.int 64 false) false) 0) ([0, 1, 2, 2, 4, 1, 0x80, 0x01, 0] ++ rest) = .ok rest :=
  skip_budget env (s := .union [.array .long, .null]) (v := .union 0 (.array [.int 1, .int (-1), .int 64]))
    (p := .node [] [.node [(1, true), (2, false)] [.leaf, .leaf, .leaf]])
    (.unionOne0 (.array .intL))
    (by simp [encode, encodeItems, encBlocks, writeVarint, zigzag, putUvarint, inRange, Plan.leaf])
    (by simp [readBudget, Codec.sz, Value.sz, Value.szList]) rest

end Avro
