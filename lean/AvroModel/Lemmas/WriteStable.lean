import AvroModel.Lemmas.WriteMono
/-!
Explicit sufficient budgets for the encoder model and the semantic functions: from the budget
`Codec.sz c + GoVal.sz g + 1` on (resp. `Codec.sz c + Value.sz v + 1` for `ofAvro`) the result no
longer changes. Since `none` / `.illtyped` double as "ill-typed", this is the form "termination"
takes for these functions: whatever they return at that budget is their final answer, so a `none`
there is a property of the codec and the value, not of the budget.
-/
namespace Avro

mutual
/-- nesting measure of a codec tree (leaves 0) -/
def Codec.sz : Codec → Nat
  | .array item _ => item.sz + 1
  | .map val _ => val.sz + 1
  | .pointer c => c.sz + 1
  | .record _ cs _ => Codec.szList cs + 1
  | .union cs => Codec.szList cs + 1
  | .unionOne c _ => c.sz + 1
  | _ => 0
def Codec.szList : List Codec → Nat
  | [] => 0
  | c :: cs => c.sz + Codec.szList cs + 1
end

mutual
/-- size measure of a Go value (leaves 0; lists count their elements) -/
def GoVal.sz : GoVal → Nat
  | .slice items => GoVal.szList items + 1
  | .map _ _ vs => GoVal.szList vs + 1
  | .ptr (some x) => x.sz + 1
  | .struct fs => GoVal.szList fs + 1
  | _ => 0
def GoVal.szList : List GoVal → Nat
  | [] => 0
  | g :: gs => g.sz + GoVal.szList gs + 1
end

mutual
/-- size measure of an Avro datum -/
def Value.sz : Value → Nat
  | .record fs => Value.szList fs + 1
  | .array items => Value.szList items + 1
  | .map _ vs => Value.szList vs + 1
  | .union _ v => v.sz + 1
  | _ => 0
def Value.szList : List Value → Nat
  | [] => 0
  | v :: vs => v.sz + Value.szList vs + 1
end

theorem GoVal.sz_le_of_getElem? : ∀ (fs : List GoVal) (i : Nat) (v : GoVal), fs[i]? = some v → v.sz ≤ GoVal.szList fs
  | [], i, v, h => by simp at h
  | g :: gs, 0, v, h => by
    simp only [List.getElem?_cons_zero, Option.some.injEq] at h
    subst h; simp only [GoVal.szList]; omega
  | g :: gs, i + 1, v, h => by
    simp only [List.getElem?_cons_succ] at h
    have := GoVal.sz_le_of_getElem? gs i v h
    simp only [GoVal.szList]; omega

example : Codec.sz (.record [] [.array (.int 64 false) false, .null] []) = 4 := by
  simp [Codec.sz, Codec.szList]

variable (env : Env)

/-- at budget `n`, for arguments whose measure is below `n`, every larger budget agrees -/
structure WStableAt (n : Nat) : Prop where
  write : ∀ c g m, c.sz + g.sz + 1 ≤ n → n ≤ m → write env m c g = write env n c g
  writeItems : ∀ c vs m, c.sz + GoVal.szList vs + 1 ≤ n → n ≤ m → writeItems env m c vs = writeItems env n c vs
  writeEntries : ∀ c ks vs m, c.sz + GoVal.szList vs + 1 ≤ n → n ≤ m →
    writeEntries env m c ks vs = writeEntries env n c ks vs
  writeFields : ∀ cs ts fs m, Codec.szList cs + GoVal.szList fs + 1 ≤ n → n ≤ m →
    writeFields env m cs ts fs = writeFields env n cs ts fs

set_option linter.unusedSimpArgs false in
theorem wStableAt : ∀ n, WStableAt env n := by
  intro n
  induction n with
  | zero => constructor <;> intros <;> omega
  | succ n ih =>
    constructor
    · intro c g m hb hm
      obtain ⟨m, rfl⟩ : ∃ k, m = k + 1 := ⟨m - 1, by omega⟩
      cases c
      case unionOne c' nn =>
        simp only [Codec.sz] at hb
        simp only [write]
        rw [ih.write c' g m (by omega) (by omega)]
      case pointer c' =>
        cases g <;> try (simp only [write])
        case ptr t =>
          cases t <;> simp only [write]
          simp only [Codec.sz, GoVal.sz] at hb
          exact ih.write _ _ m (by omega) (by omega)
      case array item oe =>
        cases g <;> simp only [write]
        simp only [Codec.sz, GoVal.sz] at hb
        rw [ih.writeItems item _ m (by omega) (by omega)]
      case map val oe =>
        cases g <;> simp only [write]
        simp only [Codec.sz, GoVal.sz] at hb
        rw [ih.writeEntries val _ _ m (by omega) (by omega)]
      case record z cs ts =>
        cases g <;> simp only [write]
        simp only [Codec.sz, GoVal.sz] at hb
        exact ih.writeFields _ _ _ m (by omega) (by omega)
      all_goals (cases g <;> simp only [write])
    · intro c vs m hb hm
      obtain ⟨m, rfl⟩ : ∃ k, m = k + 1 := ⟨m - 1, by omega⟩
      cases vs with
      | nil => simp only [writeItems]
      | cons v vs =>
        simp only [GoVal.szList] at hb
        simp only [writeItems]
        rw [ih.write c v m (by omega) (by omega), ih.writeItems c vs m (by omega) (by omega)]
    · intro c ks vs m hb hm
      obtain ⟨m, rfl⟩ : ∃ k, m = k + 1 := ⟨m - 1, by omega⟩
      cases ks <;> cases vs <;> simp only [writeEntries]
      rename_i k ks v vs
      simp only [GoVal.szList] at hb
      rw [ih.write c v m (by omega) (by omega), ih.writeEntries c ks vs m (by omega) (by omega)]
    · intro cs ts fs m hb hm
      obtain ⟨m, rfl⟩ : ∃ k, m = k + 1 := ⟨m - 1, by omega⟩
      rcases cs with _ | ⟨c, cs⟩
      · simp only [writeFields]
      · rcases ts with _ | ⟨t, ts⟩
        · simp only [writeFields]
        · cases t <;> simp only [writeFields]
          simp only [Codec.szList] at hb
          split
          · rfl
          · rename_i v hv
            have := GoVal.sz_le_of_getElem? _ _ _ hv
            rw [ih.write c v m (by omega) (by omega), ih.writeFields cs ts fs m (by omega) (by omega)]

/-- **Sufficient budget for `write`.** From budget `c.sz + g.sz + 1` on, `write` returns one and
the same result. In particular a `none` at that budget is not budget exhaustion. -/
theorem write_stable (c : Codec) (g : GoVal) (m : Nat) (h : c.sz + g.sz + 1 ≤ m) :
    write env m c g = write env (c.sz + g.sz + 1) c g :=
  (wStableAt env _).write c g m (Nat.le_refl _) h

/-! ### `toAvro` -/

structure TStableAt (nullp : Codec → GoVal → Bool) (n : Nat) : Prop where
  toAvro : ∀ c g m, c.sz + g.sz + 1 ≤ n → n ≤ m → toAvro env nullp m c g = toAvro env nullp n c g
  toAvroItems : ∀ c gs m, c.sz + GoVal.szList gs + 1 ≤ n → n ≤ m →
    toAvroItems env nullp m c gs = toAvroItems env nullp n c gs
  toAvroFields : ∀ cs ts fs m, Codec.szList cs + GoVal.szList fs + 1 ≤ n → n ≤ m →
    toAvroFields env nullp m cs ts fs = toAvroFields env nullp n cs ts fs

set_option linter.unusedSimpArgs false in
theorem tStableAt (nullp : Codec → GoVal → Bool) : ∀ n, TStableAt env nullp n := by
  intro n
  induction n with
  | zero => constructor <;> intros <;> omega
  | succ n ih =>
    constructor
    · intro c g m hb hm
      obtain ⟨m, rfl⟩ : ∃ k, m = k + 1 := ⟨m - 1, by omega⟩
      cases c
      case unionOne c' nn =>
        simp only [Codec.sz] at hb
        simp only [toAvro]
        rw [ih.toAvro c' g m (by omega) (by omega)]
      case pointer c' =>
        cases g <;> try (simp only [toAvro])
        case ptr t =>
          cases t <;> simp only [toAvro]
          simp only [Codec.sz, GoVal.sz] at hb
          exact ih.toAvro _ _ m (by omega) (by omega)
      case array item oe =>
        cases g <;> simp only [toAvro]
        simp only [Codec.sz, GoVal.sz] at hb
        rw [ih.toAvroItems item _ m (by omega) (by omega)]
      case map val oe =>
        cases g <;> simp only [toAvro]
        simp only [Codec.sz, GoVal.sz] at hb
        rw [ih.toAvroItems val _ m (by omega) (by omega)]
      case record z cs ts =>
        cases g <;> simp only [toAvro]
        simp only [Codec.sz, GoVal.sz] at hb
        rw [ih.toAvroFields _ _ _ m (by omega) (by omega)]
      all_goals (cases g <;> simp only [toAvro])
    · intro c gs m hb hm
      obtain ⟨m, rfl⟩ : ∃ k, m = k + 1 := ⟨m - 1, by omega⟩
      cases gs with
      | nil => simp only [toAvroItems]
      | cons g gs =>
        simp only [GoVal.szList] at hb
        simp only [toAvroItems]
        rw [ih.toAvro c g m (by omega) (by omega), ih.toAvroItems c gs m (by omega) (by omega)]
    · intro cs ts fs m hb hm
      obtain ⟨m, rfl⟩ : ∃ k, m = k + 1 := ⟨m - 1, by omega⟩
      rcases cs with _ | ⟨c, cs⟩
      · simp only [toAvroFields]
      · rcases ts with _ | ⟨t, ts⟩
        · simp only [toAvroFields]
        · cases t <;> simp only [toAvroFields]
          simp only [Codec.szList] at hb
          split
          · rfl
          · rename_i v hv
            have := GoVal.sz_le_of_getElem? _ _ _ hv
            rw [ih.toAvro c v m (by omega) (by omega), ih.toAvroFields cs ts fs m (by omega) (by omega)]

/-- **Sufficient budget for `toAvro`.** -/
theorem toAvro_stable (nullp : Codec → GoVal → Bool) (c : Codec) (g : GoVal) (m : Nat) (h : c.sz + g.sz + 1 ≤ m) :
    toAvro env nullp m c g = toAvro env nullp (c.sz + g.sz + 1) c g :=
  (tStableAt env nullp _).toAvro c g m (Nat.le_refl _) h

/-! ### `ofAvro` -/

theorem Codec.sz_le_of_getElem? : ∀ (cs : List Codec) (i : Nat) (c : Codec), cs[i]? = some c → c.sz ≤ Codec.szList cs
  | [], i, v, h => by simp at h
  | g :: gs, 0, v, h => by
    simp only [List.getElem?_cons_zero, Option.some.injEq] at h
    subst h; simp only [Codec.szList]; omega
  | g :: gs, i + 1, v, h => by
    simp only [List.getElem?_cons_succ] at h
    have := Codec.sz_le_of_getElem? gs i v h
    simp only [Codec.szList]; omega

theorem mapFit_congr {f f' : Value → Fit GoVal} :
    ∀ vs, (∀ v, v.sz ≤ Value.szList vs → f' v = f v) → mapFit f' vs = mapFit f vs
  | [], _ => rfl
  | v :: vs, h => by
    simp only [mapFit]
    rw [h v (by simp only [Value.szList]; omega),
      mapFit_congr vs (fun v' hv' => h v' (by simp only [Value.szList]; omega))]

theorem fieldsFit_congr {f f' : Codec → Value → GoVal → Fit GoVal} :
    ∀ cs ts vs fs, (∀ c v g, c.sz ≤ Codec.szList cs → v.sz ≤ Value.szList vs → f' c v g = f c v g) →
      fieldsFit f' cs ts vs fs = fieldsFit f cs ts vs fs := by
  intro cs ts vs fs
  fun_induction fieldsFit f cs ts vs fs <;> intro h <;> simp only [fieldsFit]
  case case2 ih =>
    exact ih (fun c v g hc hv => h c v g (by simp only [Codec.szList]; omega) (by simp only [Value.szList]; omega))
  case case3 hcur => simp only [hcur]
  case case4 hcur ih =>
    simp only [hcur]
    rw [h _ _ _ (by simp only [Codec.szList]; omega) (by simp only [Value.szList]; omega)]
    congr 1
    funext g
    exact ih g (fun c v g hc hv => h c v g (by simp only [Codec.szList]; omega) (by simp only [Value.szList]; omega))

theorem ofAvro_stableAt : ∀ n c v dst m, c.sz + v.sz + 1 ≤ n → n ≤ m →
    ofAvro env m c v dst = ofAvro env n c v dst := by
  intro n
  induction n with
  | zero => intros; omega
  | succ n ih =>
    intro c v dst m hb hm
    obtain ⟨m, rfl⟩ : ∃ k, m = k + 1 := ⟨m - 1, by omega⟩
    cases c
    case pointer c' =>
      simp only [Codec.sz] at hb
      simp only [ofAvro]
      split
      · rw [ih c' v _ m (by omega) (by omega)]
      · rw [ih c' v _ m (by omega) (by omega)]
      · rfl
    case nullw k => simp only [ofAvro]
    case array item oe =>
      cases v <;> simp only [ofAvro]
      simp only [Codec.sz, Value.sz] at hb
      rw [mapFit_congr _ (fun v hv => ih item v _ m (by omega) (by omega))]
    case map val oe =>
      cases v <;> simp only [ofAvro]
      simp only [Codec.sz, Value.sz] at hb
      rw [mapFit_congr _ (fun v hv => ih val v _ m (by omega) (by omega))]
    case record z cs ts =>
      cases v <;> simp only [ofAvro]
      simp only [Codec.sz, Value.sz] at hb
      split
      · rw [fieldsFit_congr _ _ _ _ (fun c v g hc hv => ih c v g m (by omega) (by omega))]
      · rfl
    case union cs =>
      cases v <;> simp only [ofAvro]
      simp only [Codec.sz, Value.sz] at hb
      split
      · rename_i c' hc'
        have := Codec.sz_le_of_getElem? _ _ _ hc'
        exact ih c' _ _ m (by omega) (by omega)
      · rfl
    case unionOne c' nn =>
      cases v <;> simp only [ofAvro]
      simp only [Codec.sz, Value.sz] at hb
      rw [ih c' _ _ m (by omega) (by omega)]
    all_goals (cases v <;> simp only [ofAvro])

/-- **Sufficient budget for `ofAvro`.** -/
theorem ofAvro_stable (c : Codec) (v : Value) (dst : GoVal) (m : Nat) (h : c.sz + v.sz + 1 ≤ m) :
    ofAvro env m c v dst = ofAvro env (c.sz + v.sz + 1) c v dst :=
  ofAvro_stableAt env _ c v dst m (Nat.le_refl _) h

end Avro
