import AvroModel.Bytes
/-! Helper lemmas for the primitive wire layer. Property theorems live in `Props/C17.lean`. -/
namespace Avro

theorem toUInt8_toNat {n : Nat} (h : n < 256) : n.toUInt8.toNat = n := by
  simp [Nat.toUInt8, UInt8.toNat_ofNat', Nat.mod_eq_of_lt h]

theorem pow7_succ (i : Nat) : 2 ^ (7 * (i + 1)) = 128 * 2 ^ (7 * i) := by
  rw [Nat.mul_succ, Nat.pow_add]; simp [Nat.mul_comm]

theorem putUvarint_lt {n : Nat} (h : n < 128) : putUvarint n = [n.toUInt8] := by
  rw [putUvarint]; simp [h]

theorem putUvarint_ge {n : Nat} (h : ¬ n < 128) :
    putUvarint n = (n % 128 + 128).toUInt8 :: putUvarint (n / 128) := by
  rw [putUvarint]; simp [h]

theorem putUvarint_ne_nil (n : Nat) : putUvarint n ≠ [] := by
  by_cases h : n < 128
  · rw [putUvarint_lt h]; simp
  · rw [putUvarint_ge h]; simp

/-- Bound helper: `n < 2^(a+7)` gives `n / 128 < 2^a`. -/
theorem div128_lt {n a : Nat} (h : n < 2 ^ (a + 7)) : n / 128 < 2 ^ a := by
  have : 2 ^ (a + 7) = 2 ^ a * 128 := by rw [Nat.pow_add]
  rw [this] at h
  exact Nat.div_lt_of_lt_mul (by rw [Nat.mul_comm]; exact h)

/-- Main decoding lemma: reading what `putUvarint n` wrote, starting at byte index `i`
with accumulator `x`, yields `x + n * 2^(7i)` and leaves `rest`, provided the value
still fits in 64 bits (`n < 2^(64-7i)`). -/
theorem readUvarintAux_put (n : Nat) : ∀ (i x : Nat) (rest : Bytes),
    7 * i ≤ 63 → n < 2 ^ (64 - 7 * i) →
    readUvarintAux i x (putUvarint n ++ rest) = .ok (x + n * 2 ^ (7 * i), rest) := by
  induction n using Nat.strongRecOn with
  | _ n ih =>
    intro i x rest hi hn
    by_cases h : n < 128
    · rw [putUvarint_lt h]
      have hb : n.toUInt8.toNat = n := toUInt8_toNat (by omega)
      simp only [List.cons_append, List.nil_append, readUvarintAux, hb, h, if_true]
      have hc : ¬ (i > 9 ∨ (i = 9 ∧ n > 1)) := by
        intro hc
        rcases hc with hc | ⟨hc, hc2⟩
        · omega
        · subst hc; simp at hn; omega
      simp [hc]
    · rw [putUvarint_ge h]
      have hb : (n % 128 + 128).toUInt8.toNat = n % 128 + 128 := toUInt8_toNat (by omega)
      have hnb : ¬ (n % 128 + 128 < 128) := by omega
      simp only [List.cons_append, readUvarintAux, hb, hnb, if_false]
      -- i ≤ 8, otherwise n < 2
      have hi8 : i ≤ 8 := by
        by_cases h9 : i = 9
        · subst h9; simp at hn; omega
        · omega
      have hexp : 64 - 7 * i = (64 - 7 * (i + 1)) + 7 := by omega
      have hdiv : n / 128 < 2 ^ (64 - 7 * (i + 1)) := by
        apply div128_lt; rw [← hexp]; exact hn
      have := ih (n / 128) (by omega) (i + 1) (x + (n % 128 + 128) % 128 * 2 ^ (7 * i)) rest
        (by omega) hdiv
      rw [this, pow7_succ]
      have hm : (n % 128 + 128) % 128 = n % 128 := by omega
      rw [hm]
      have hd := Nat.mod_add_div n 128
      congr 2
      generalize 2 ^ (7 * i) = m
      generalize n % 128 = a at *
      generalize n / 128 = b at *
      subst hd
      grind

theorem readUvarint_put {n : Nat} (h : n < 2 ^ 64) (rest : Bytes) :
    readUvarint (putUvarint n ++ rest) = .ok (n, rest) := by
  have := readUvarintAux_put n 0 0 rest (by omega) (by simpa using h)
  simpa [readUvarint] using this

/-- length of the encoding -/
theorem putUvarint_length_le (n : Nat) : ∀ k, n < 2 ^ (7 * k) → 1 ≤ k → (putUvarint n).length ≤ k := by
  induction n using Nat.strongRecOn with
  | _ n ih =>
    intro k hk h1
    by_cases h : n < 128
    · rw [putUvarint_lt h]; simpa using h1
    · rw [putUvarint_ge h]
      have hk2 : 2 ≤ k := by
        by_cases hk1 : k = 1
        · subst hk1; simp at hk; omega
        · omega
      obtain ⟨k', rfl⟩ : ∃ k', k = k' + 1 := ⟨k - 1, by omega⟩
      have : n / 128 < 2 ^ (7 * k') := by
        apply div128_lt
        have : 7 * (k' + 1) = 7 * k' + 7 := by omega
        rw [← this]; exact hk
      have := ih (n / 128) (by omega) k' this (by omega)
      simp; omega

theorem putUvarint_length_pos (n : Nat) : 1 ≤ (putUvarint n).length := by
  cases h : putUvarint n with
  | nil => exact absurd h (putUvarint_ne_nil n)
  | cons _ _ => simp

/-- zig-zag facts -/
theorem zigzag_lt {v : Int} (h : inRange 64 v) : zigzag v < 2 ^ 64 := by
  unfold inRange at h; unfold zigzag
  split <;> omega

theorem unzig_zigzag (v : Int) : unzig (zigzag v) = v := by
  unfold unzig zigzag
  split <;> split <;> omega

theorem zigzag_unzig (n : Nat) : zigzag (unzig n) = n := by
  unfold unzig zigzag
  split <;> split <;> omega

theorem unzig_inRange {n : Nat} (h : n < 2 ^ 64) : inRange 64 (unzig n) := by
  unfold inRange unzig
  split <;> omega

/-- Canonical (shortest) form: every byte but the last has the continuation bit,
the last has not, and the last is non-zero unless the encoding is one byte long. -/
def Canonical : Bytes → Prop
  | [] => False
  | [b] => b.toNat < 128
  | b :: c :: rest => 128 ≤ b.toNat ∧ CanonicalTail (c :: rest)
where
  CanonicalTail : Bytes → Prop
    | [] => False
    | [b] => b.toNat < 128 ∧ b.toNat ≠ 0
    | b :: c :: rest => 128 ≤ b.toNat ∧ CanonicalTail (c :: rest)

theorem putUvarint_canonicalTail (n : Nat) (h0 : n ≠ 0) : Canonical.CanonicalTail (putUvarint n) := by
  induction n using Nat.strongRecOn with
  | _ n ih =>
    by_cases h : n < 128
    · rw [putUvarint_lt h]
      simp [Canonical.CanonicalTail, toUInt8_toNat (show n < 256 by omega), h, h0]
    · rw [putUvarint_ge h]
      have ih' := ih (n / 128) (by omega) (by omega)
      cases hp : putUvarint (n / 128) with
      | nil => exact absurd hp (putUvarint_ne_nil _)
      | cons c rest =>
        rw [hp] at ih'
        simp only [Canonical.CanonicalTail]
        refine ⟨?_, ih'⟩
        rw [toUInt8_toNat (by omega)]; omega

theorem putUvarint_canonical (n : Nat) : Canonical (putUvarint n) := by
  by_cases h : n < 128
  · rw [putUvarint_lt h]; simp [Canonical, toUInt8_toNat (show n < 256 by omega), h]
  · rw [putUvarint_ge h]
    have ih' := putUvarint_canonicalTail (n / 128) (by omega)
    cases hp : putUvarint (n / 128) with
    | nil => exact absurd hp (putUvarint_ne_nil _)
    | cons c rest =>
      rw [hp] at ih'
      simp only [Canonical]
      refine ⟨?_, ih'⟩
      rw [toUInt8_toNat (by omega)]; omega

end Avro

namespace Avro

/-- decoding inverts encoding for every 64-bit value, whatever follows (also stated as `C17.varint_roundtrip`) -/
theorem readVarint_writeVarint (v : Int) (hv : inRange 64 v) (rest : Bytes) :
    readVarint (writeVarint v ++ rest) = .ok (v, rest) := by
  unfold readVarint writeVarint
  rw [readUvarint_put (zigzag_lt hv)]
  simp [unzig_zigzag]

theorem inRange_of_nat_lt {n : Nat} (h : n < 2 ^ 63) : inRange 64 (n : Int) := by
  unfold inRange; omega

theorem takeN_append' (a rest : Bytes) : takeN a.length (a ++ rest) = some (a, rest) := by
  unfold takeN; simp

end Avro
