import AvroModel.Conc
/-! Lemmas about the interleaving semantics of `AvroModel/Conc.lean`: the discipline excludes races, steps
preserve the invariant, independent steps commute, fact rows are checked programs. -/
namespace Avro.Conc
set_option linter.unusedSectionVars false

section Sem
variable {M V : Type} [DecidableEq M] [DecidableEq V]

theorem holds_ex_iff {σ : St M V} {t : Tid} {m : M} : holds σ t m = some .ex ↔ (σ.locks m).writer = some t := by
  unfold holds
  constructor
  · intro h
    split at h
    · assumption
    · split at h <;> simp at h
  · intro h; simp [h]

/-- Mutual exclusion: if `t` holds `m` exclusively no other thread holds it in any mode. -/
theorem excl_excludes {σ : St M V} {t u : Tid} {m : M} (hl : LockOK σ) (ht : holds σ t m = some .ex) (hne : t ≠ u) :
    holds σ u m = none := by
  have hw := holds_ex_iff.mp ht
  have hr := hl m t hw
  unfold holds
  have : (σ.locks m).writer ≠ some u := by
    rw [hw]; intro h; exact hne (Option.some.inj h)
  simp [this, hr]

/-- **Lock discipline ⇒ no data race** (state level). -/
theorem no_race_of_disciplined {L : V → Option M} {σ : St M V} (hd : Disciplined L σ) (hl : LockOK σ) : ¬ Race σ := by
  rintro ⟨t, u, a, b, hne, ha, hb, hc⟩
  have hda := hd t a ha
  have hdb := hd u b hb
  cases a <;> cases b <;> simp only [conflicts] at hc
  case wr.wr x v y w =>
    subst hc
    obtain ⟨m, hm, hex⟩ := hda.1 x v rfl
    obtain ⟨m', hm', hex'⟩ := hdb.1 x w rfl
    have : m' = m := by rw [hm] at hm'; exact (Option.some.inj hm').symm
    subst this
    have := excl_excludes hl hex hne
    rw [this] at hex'; exact absurd hex' (by simp)
  case wr.rd x v y =>
    subst hc
    obtain ⟨m, hm, hex⟩ := hda.1 x v rfl
    exact hdb.2 x rfl m hm (excl_excludes hl hex hne)
  case rd.wr x y w =>
    subst hc
    obtain ⟨m, hm, hex⟩ := hdb.1 x w rfl
    exact hda.2 x rfl m hm (excl_excludes hl hex (Ne.symm hne))

/-- Preservation 1: every step keeps the RW-mutex state consistent (no discipline needed). -/
theorem step_preserves_lockOK {σ σ' : St M V} {t : Tid} (hs : Step σ t σ') (hl : LockOK σ) : LockOK σ' := by
  intro m' t' hw
  cases hs with
  | acqEx hp hw0 hr0 =>
    rename_i m rest
    by_cases hm : m' = m
    · subst hm; simp
    · simp only [upd_other _ _ hm] at hw ⊢; exact hl m' t' hw
  | acqSh hp hw0 =>
    rename_i m rest
    by_cases hm : m' = m
    · subst hm; simp at hw
    · simp only [upd_other _ _ hm] at hw ⊢; exact hl m' t' hw
  | relEx hp hw0 =>
    rename_i m rest
    by_cases hm : m' = m
    · subst hm; simp at hw
    · simp only [upd_other _ _ hm] at hw ⊢; exact hl m' t' hw
  | relSh hp hw0 hr0 =>
    rename_i m rest
    by_cases hm : m' = m
    · subst hm
      simp only [upd_same] at hw ⊢
      have := hl m' t' hw
      rw [this] at hr0; simp at hr0
    · simp only [upd_other _ _ hm] at hw ⊢; exact hl m' t' hw
  | rd hp => exact hl m' t' hw
  | wr hp => exact hl m' t' hw
  | atomicOp hp => exact hl m' t' hw
  | localStep hp => exact hl m' t' hw

theorem checked_cons {L : V → Option M} {h : M → Option Mode} {a : Act M V} {p : List (Act M V)}
    (hc : Checked L h (a :: p)) : ∃ h', stepHeld L h a = some h' ∧ Checked L h' p := by
  unfold Checked run at hc
  cases hs : stepHeld L h a with
  | none => simp [hs] at hc
  | some h' => exact ⟨h', rfl, by simpa [hs, Checked] using hc⟩

/-- Frame: a step of `t` does not change what any other thread holds. -/
theorem holds_other {σ σ' : St M V} {t u : Tid} (hs : Step σ t σ') (hl : LockOK σ) (hne : u ≠ t) :
    holds σ' u = holds σ u := by
  funext m'
  have hne' : t ≠ u := Ne.symm hne
  cases hs with
  | acqEx hp hw0 hr0 =>
    rename_i m rest
    by_cases hm : m' = m
    · subst hm; simp [holds, hw0, hr0, hne']
    · simp [holds, upd_other _ _ hm]
  | acqSh hp hw0 =>
    rename_i m rest
    by_cases hm : m' = m
    · subst hm; simp [holds, hw0, hne]
    · simp [holds, upd_other _ _ hm]
  | relEx hp hw0 =>
    rename_i m rest
    by_cases hm : m' = m
    · subst hm
      have := hl m' t hw0
      simp [holds, hw0, this, hne']
    · simp [holds, upd_other _ _ hm]
  | relSh hp hw0 hr0 =>
    rename_i m rest
    by_cases hm : m' = m
    · subst hm
      simp [holds, List.mem_erase_of_ne hne]
    · simp [holds, upd_other _ _ hm]
  | rd hp => rfl
  | wr hp => rfl
  | atomicOp hp => rfl
  | localStep hp => rfl

/-- Preservation 2: a step from a state satisfying the invariant (consistent locks, every thread's remaining
program statically checked against what it really holds) leads to such a state. -/
theorem step_preserves_inv {L : V → Option M} {σ σ' : St M V} {t : Tid} (hs : Step σ t σ') (hi : Inv L σ) :
    Inv L σ' := by
  refine ⟨step_preserves_lockOK hs hi.lockOK, ?_, ?_⟩
  · -- reader lists stay duplicate-free
    intro m'
    have hct := hi.checked t
    cases hs with
    | acqEx hp hw0 hr0 =>
      rename_i m rest
      by_cases hm : m' = m
      · subst hm; simp
      · simp only [upd_other _ _ hm]; exact hi.nodup m'
    | acqSh hp hw0 =>
      rename_i m rest
      by_cases hm : m' = m
      · subst hm
        rw [hp] at hct
        obtain ⟨h', hst, _⟩ := checked_cons hct
        have hnone : holds σ t m' = none := by
          simp only [stepHeld] at hst
          split at hst
          · assumption
          · simp at hst
        have : t ∉ (σ.locks m').readers := by
          intro hmem; simp [holds, hw0, hmem] at hnone
        simp only [upd_same]
        exact List.nodup_cons.mpr ⟨this, hi.nodup m'⟩
      · simp only [upd_other _ _ hm]; exact hi.nodup m'
    | relEx hp hw0 =>
      rename_i m rest
      by_cases hm : m' = m
      · subst hm; simp only [upd_same]; exact hi.nodup m'
      · simp only [upd_other _ _ hm]; exact hi.nodup m'
    | relSh hp hw0 hr0 =>
      rename_i m rest
      by_cases hm : m' = m
      · subst hm; simp only [upd_same]; exact (hi.nodup m').erase t
      · simp only [upd_other _ _ hm]; exact hi.nodup m'
    | rd hp => exact hi.nodup m'
    | wr hp => exact hi.nodup m'
    | atomicOp hp => exact hi.nodup m'
    | localStep hp => exact hi.nodup m'
  · intro u
    by_cases hu : u = t
    · -- the thread that moved: its real lock set follows the static one
      subst hu
      have hct := hi.checked u
      cases hs with
      | acqEx hp hw0 hr0 =>
        rename_i m rest
        rw [hp] at hct
        obtain ⟨h', hst, hrest⟩ := checked_cons hct
        simp only [stepHeld] at hst
        split at hst <;> simp at hst
        subst hst
        have : holds ({ σ with prog := upd σ.prog u rest, locks := upd σ.locks m ⟨some u, []⟩ } : St M V) u
            = upd (holds σ u) m (some .ex) := by
          funext m'
          by_cases hm : m' = m
          · subst hm; simp [holds]
          · simp [holds, upd_other _ _ hm]
        simpa [this] using hrest
      | acqSh hp hw0 =>
        rename_i m rest
        rw [hp] at hct
        obtain ⟨h', hst, hrest⟩ := checked_cons hct
        simp only [stepHeld] at hst
        split at hst <;> simp at hst
        subst hst
        have : holds ({ σ with prog := upd σ.prog u rest, locks := upd σ.locks m ⟨none, u :: (σ.locks m).readers⟩ } : St M V) u
            = upd (holds σ u) m (some .sh) := by
          funext m'
          by_cases hm : m' = m
          · subst hm; simp [holds]
          · simp [holds, upd_other _ _ hm]
        simpa [this] using hrest
      | relEx hp hw0 =>
        rename_i m rest
        rw [hp] at hct
        obtain ⟨h', hst, hrest⟩ := checked_cons hct
        simp only [stepHeld] at hst
        split at hst <;> simp at hst
        subst hst
        have hr := hi.lockOK m u hw0
        have : holds ({ σ with prog := upd σ.prog u rest, locks := upd σ.locks m ⟨none, (σ.locks m).readers⟩ } : St M V) u
            = upd (holds σ u) m none := by
          funext m'
          by_cases hm : m' = m
          · subst hm; simp [holds, hr]
          · simp [holds, upd_other _ _ hm]
        simpa [this] using hrest
      | relSh hp hw0 hr0 =>
        rename_i m rest
        rw [hp] at hct
        obtain ⟨h', hst, hrest⟩ := checked_cons hct
        simp only [stepHeld] at hst
        split at hst <;> simp at hst
        subst hst
        have hnd : u ∉ (σ.locks m).readers.erase u := by
          intro hmem
          exact ((hi.nodup m).mem_erase_iff.mp hmem).1 rfl
        have : holds ({ σ with prog := upd σ.prog u rest, locks := upd σ.locks m ⟨(σ.locks m).writer, (σ.locks m).readers.erase u⟩ } : St M V) u
            = upd (holds σ u) m none := by
          funext m'
          by_cases hm : m' = m
          · subst hm; simp [holds, hw0, hnd]
          · simp [holds, upd_other _ _ hm]
        simpa [this] using hrest
      | rd hp =>
        rename_i x rest
        rw [hp] at hct
        obtain ⟨h', hst, hrest⟩ := checked_cons hct
        have : h' = holds σ u := by
          simp only [stepHeld] at hst
          split at hst
          · exact (Option.some.inj hst).symm
          · split at hst <;> simp at hst; exact hst.symm
        subst this
        simp only [upd_same]; exact hrest
      | wr hp =>
        rename_i x v rest
        rw [hp] at hct
        obtain ⟨h', hst, hrest⟩ := checked_cons hct
        have : h' = holds σ u := by
          simp only [stepHeld] at hst
          split at hst
          · simp at hst
          · split at hst <;> simp at hst; exact hst.symm
        subst this
        simp only [upd_same]; exact hrest
      | atomicOp hp =>
        rename_i rest
        rw [hp] at hct
        obtain ⟨h', hst, hrest⟩ := checked_cons hct
        have : h' = holds σ u := by simp only [stepHeld] at hst; exact (Option.some.inj hst).symm
        subst this
        simp only [upd_same]; exact hrest
      | localStep hp =>
        rename_i rest
        rw [hp] at hct
        obtain ⟨h', hst, hrest⟩ := checked_cons hct
        have : h' = holds σ u := by simp only [stepHeld] at hst; exact (Option.some.inj hst).symm
        subst this
        simp only [upd_same]; exact hrest
    · have hh := holds_other hs hi.lockOK hu
      have hp : σ'.prog u = σ.prog u := by
        cases hs <;> simp [upd_other _ _ hu]
      rw [hh, hp]; exact hi.checked u

/-- The invariant implies the state-level discipline. -/
theorem inv_disciplined {L : V → Option M} {σ : St M V} (hi : Inv L σ) : Disciplined L σ := by
  intro t a hn
  have hct := hi.checked t
  unfold next at hn
  cases hp : σ.prog t with
  | nil => simp [hp] at hn
  | cons a' rest =>
    simp [hp] at hn
    subst hn
    rw [hp] at hct
    obtain ⟨h', hst, _⟩ := checked_cons hct
    constructor
    · intro x v ha
      subst ha
      simp only [stepHeld] at hst
      split at hst
      · simp at hst
      · rename_i m hm
        split at hst
        · exact ⟨m, hm, by assumption⟩
        · simp at hst
    · intro x ha m hm
      subst ha
      simp only [stepHeld, hm] at hst
      split at hst
      · simp at hst
      · assumption

theorem inv_init {L : V → Option M} (progs : Tid → List (Act M V)) (mem : V → Nat)
    (hc : ∀ t, Checked L (fun _ => none) (progs t)) : Inv L (init progs mem) := by
  refine ⟨?_, ?_, ?_⟩
  · intro m t hw; simp [init, LockSt.free] at hw
  · intro m; simp [init, LockSt.free]
  · intro t
    have : holds (init progs mem) t = fun _ => none := by
      funext m; simp [holds, init, LockSt.free]
    rw [this]; exact hc t

theorem reachable_inv {L : V → Option M} {σ₀ σ : St M V} (h0 : Inv L σ₀) (hr : Reachable σ₀ σ) : Inv L σ := by
  induction hr with
  | refl => exact h0
  | step _ hs ih => exact step_preserves_inv hs ih

/-- Isolation of critical sections: while `t` holds `m` exclusively no other thread is about to access a
variable guarded by `m`; while `t` holds `m` shared no other thread is about to write one. -/
theorem section_isolated {L : V → Option M} {σ : St M V} (hi : Inv L σ) {t u : Tid} {m : M} {md : Mode}
    (ht : holds σ t m = some md) (hne : t ≠ u) {a : Act M V} (hn : next σ u = some a) :
    (∀ x v, a = .wr x v → L x ≠ some m) ∧ (md = .ex → ∀ x, a = .rd x → L x ≠ some m) := by
  have hd := inv_disciplined hi u a hn
  constructor
  · intro x v ha hL
    obtain ⟨m', hm', hex⟩ := hd.1 x v ha
    have : m' = m := by rw [hL] at hm'; exact (Option.some.inj hm').symm
    subst this
    have := excl_excludes hi.lockOK hex (Ne.symm hne)
    rw [this] at ht; simp at ht
  · intro hmd x ha hL
    subst hmd
    exact hd.2 x ha m hL (excl_excludes hi.lockOK ht hne)

/-- A checked thread never reaches "unlock of unlocked mutex": its `rel` steps are always enabled. -/
theorem rel_enabled {L : V → Option M} {σ : St M V} (hi : Inv L σ) {t : Tid} {m : M} {rest : List (Act M V)}
    (hp : σ.prog t = .rel m :: rest) : ∃ σ', Step σ t σ' := by
  have hct := hi.checked t
  rw [hp] at hct
  obtain ⟨h', hst, _⟩ := checked_cons hct
  simp only [stepHeld] at hst
  split at hst
  · simp at hst
  · rename_i hne
    by_cases hw : (σ.locks m).writer = some t
    · exact ⟨_, Step.relEx hp hw⟩
    · have : t ∈ (σ.locks m).readers := by
        apply Classical.byContradiction
        intro hnot; simp [holds, hw, hnot] at hne
      exact ⟨_, Step.relSh hp hw this⟩

theorem run_append {L : V → Option M} (h : M → Option Mode) (p q : List (Act M V)) :
    run L h (p ++ q) = (run L h p).bind fun h' => run L h' q := by
  induction p generalizing h with
  | nil => simp [run]
  | cons a p ih =>
    simp only [List.cons_append, run]
    cases stepHeld L h a with
    | none => simp
    | some h' => simp [ih]

/-! ## Movers: lock-free steps of a disciplined program commute with steps of other threads -/

theorem St.ext' {σ σ' : St M V} (h1 : σ.prog = σ'.prog) (h2 : σ.locks = σ'.locks) (h3 : σ.mem = σ'.mem)
    (h4 : σ.seen = σ'.seen) : σ = σ' := by
  cases σ; cases σ'; simp_all

theorem step_of_eq {σ σ' σ'' : St M V} {t : Tid} (h : Step σ t σ') (e : σ' = σ'') : Step σ t σ'' := e ▸ h

local macro "st_close" : tactic =>
  `(tactic| (apply St.ext' <;> (first | rfl | (funext z; simp only [upd]; (repeat' split) <;> simp_all))))

/-- Lock operations (`acq`/`rel`) as opposed to lock-free steps (plain accesses, atomic and local steps). -/
def Act.isLockOp : Act M V → Bool
  | .acq _ _ => true
  | .rel _ => true
  | _ => false


/-- Right mover: in a state satisfying the invariant, a lock-free step of `t` followed by any step of another
thread `u` can be swapped (same final state). No independence hypothesis is needed: the discipline excludes
the conflicting cases. -/
theorem lockfree_right_mover {L : V → Option M} {σ σ₁ σ₂ : St M V} {t u : Tid} (hi : Inv L σ) (hne : t ≠ u)
    (h1 : Step σ t σ₁) (h2 : Step σ₁ u σ₂) (hfree : ∀ a, next σ t = some a → a.isLockOp = false) :
    ∃ σ₁', Step σ u σ₁' ∧ Step σ₁' t σ₂ := by
  have hnr : ¬ Race σ := no_race_of_disciplined (inv_disciplined hi) hi.lockOK
  have hut : u ≠ t := Ne.symm hne
  cases h1 with
  | acqEx hp hw hr =>
    rename_i m rest
    have := hfree (.acq m .ex) (by simp [next, hp])
    simp [Act.isLockOp] at this
  | acqSh hp hw =>
    rename_i m rest
    have := hfree (.acq m .sh) (by simp [next, hp])
    simp [Act.isLockOp] at this
  | relEx hp hw =>
    rename_i m rest
    have := hfree (.rel m) (by simp [next, hp])
    simp [Act.isLockOp] at this
  | relSh hp hw hr =>
    rename_i m rest
    have := hfree (.rel m) (by simp [next, hp])
    simp [Act.isLockOp] at this
  | rd hp =>
    rename_i x rest
    cases h2 with
    | acqEx hp2 hw2 hr2 =>
      rename_i m2 rest2
      simp only [upd_other _ _ hut] at hp2
      refine ⟨_, Step.acqEx hp2 hw2 hr2, step_of_eq (Step.rd (x := x) (rest := rest) (by simp [upd_other _ _ hne, hp])) ?_⟩
      st_close
    | acqSh hp2 hw2 =>
      rename_i m2 rest2
      simp only [upd_other _ _ hut] at hp2
      refine ⟨_, Step.acqSh hp2 hw2, step_of_eq (Step.rd (x := x) (rest := rest) (by simp [upd_other _ _ hne, hp])) ?_⟩
      st_close
    | relEx hp2 hw2 =>
      rename_i m2 rest2
      simp only [upd_other _ _ hut] at hp2
      refine ⟨_, Step.relEx hp2 hw2, step_of_eq (Step.rd (x := x) (rest := rest) (by simp [upd_other _ _ hne, hp])) ?_⟩
      st_close
    | relSh hp2 hw2 hr2 =>
      rename_i m2 rest2
      simp only [upd_other _ _ hut] at hp2
      refine ⟨_, Step.relSh hp2 hw2 hr2, step_of_eq (Step.rd (x := x) (rest := rest) (by simp [upd_other _ _ hne, hp])) ?_⟩
      st_close
    | rd hp2 =>
      rename_i x2 rest2
      simp only [upd_other _ _ hut] at hp2
      refine ⟨_, Step.rd hp2, step_of_eq (Step.rd (x := x) (rest := rest) (by simp [upd_other _ _ hne, hp])) ?_⟩
      st_close
    | wr hp2 =>
      rename_i x2 v2 rest2
      simp only [upd_other _ _ hut] at hp2
      have hxy : x2 ≠ x := by
        intro e; subst e
        exact hnr ⟨t, u, .rd x2, .wr x2 v2, hne, by simp [next, hp], by simp [next, hp2], rfl⟩
      refine ⟨_, Step.wr hp2, step_of_eq (Step.rd (x := x) (rest := rest) (by simp [upd_other _ _ hne, hp])) ?_⟩
      st_close
    | atomicOp hp2 =>
      rename_i rest2
      simp only [upd_other _ _ hut] at hp2
      refine ⟨_, Step.atomicOp hp2, step_of_eq (Step.rd (x := x) (rest := rest) (by simp [upd_other _ _ hne, hp])) ?_⟩
      st_close
    | localStep hp2 =>
      rename_i rest2
      simp only [upd_other _ _ hut] at hp2
      refine ⟨_, Step.localStep hp2, step_of_eq (Step.rd (x := x) (rest := rest) (by simp [upd_other _ _ hne, hp])) ?_⟩
      st_close
  | wr hp =>
    rename_i x v rest
    cases h2 with
    | acqEx hp2 hw2 hr2 =>
      rename_i m2 rest2
      simp only [upd_other _ _ hut] at hp2
      refine ⟨_, Step.acqEx hp2 hw2 hr2, step_of_eq (Step.wr (x := x) (v := v) (rest := rest) (by simp [upd_other _ _ hne, hp])) ?_⟩
      st_close
    | acqSh hp2 hw2 =>
      rename_i m2 rest2
      simp only [upd_other _ _ hut] at hp2
      refine ⟨_, Step.acqSh hp2 hw2, step_of_eq (Step.wr (x := x) (v := v) (rest := rest) (by simp [upd_other _ _ hne, hp])) ?_⟩
      st_close
    | relEx hp2 hw2 =>
      rename_i m2 rest2
      simp only [upd_other _ _ hut] at hp2
      refine ⟨_, Step.relEx hp2 hw2, step_of_eq (Step.wr (x := x) (v := v) (rest := rest) (by simp [upd_other _ _ hne, hp])) ?_⟩
      st_close
    | relSh hp2 hw2 hr2 =>
      rename_i m2 rest2
      simp only [upd_other _ _ hut] at hp2
      refine ⟨_, Step.relSh hp2 hw2 hr2, step_of_eq (Step.wr (x := x) (v := v) (rest := rest) (by simp [upd_other _ _ hne, hp])) ?_⟩
      st_close
    | rd hp2 =>
      rename_i x2 rest2
      simp only [upd_other _ _ hut] at hp2
      have hxy : x2 ≠ x := by
        intro e; subst e
        exact hnr ⟨t, u, .wr x2 v, .rd x2, hne, by simp [next, hp], by simp [next, hp2], rfl⟩
      refine ⟨_, Step.rd hp2, step_of_eq (Step.wr (x := x) (v := v) (rest := rest) (by simp [upd_other _ _ hne, hp])) ?_⟩
      st_close
    | wr hp2 =>
      rename_i x2 v2 rest2
      simp only [upd_other _ _ hut] at hp2
      have hxy : x2 ≠ x := by
        intro e; subst e
        exact hnr ⟨t, u, .wr x2 v, .wr x2 v2, hne, by simp [next, hp], by simp [next, hp2], rfl⟩
      refine ⟨_, Step.wr hp2, step_of_eq (Step.wr (x := x) (v := v) (rest := rest) (by simp [upd_other _ _ hne, hp])) ?_⟩
      st_close
    | atomicOp hp2 =>
      rename_i rest2
      simp only [upd_other _ _ hut] at hp2
      refine ⟨_, Step.atomicOp hp2, step_of_eq (Step.wr (x := x) (v := v) (rest := rest) (by simp [upd_other _ _ hne, hp])) ?_⟩
      st_close
    | localStep hp2 =>
      rename_i rest2
      simp only [upd_other _ _ hut] at hp2
      refine ⟨_, Step.localStep hp2, step_of_eq (Step.wr (x := x) (v := v) (rest := rest) (by simp [upd_other _ _ hne, hp])) ?_⟩
      st_close
  | atomicOp hp =>
    rename_i rest
    cases h2 with
    | acqEx hp2 hw2 hr2 =>
      rename_i m2 rest2
      simp only [upd_other _ _ hut] at hp2
      refine ⟨_, Step.acqEx hp2 hw2 hr2, step_of_eq (Step.atomicOp (rest := rest) (by simp [upd_other _ _ hne, hp])) ?_⟩
      st_close
    | acqSh hp2 hw2 =>
      rename_i m2 rest2
      simp only [upd_other _ _ hut] at hp2
      refine ⟨_, Step.acqSh hp2 hw2, step_of_eq (Step.atomicOp (rest := rest) (by simp [upd_other _ _ hne, hp])) ?_⟩
      st_close
    | relEx hp2 hw2 =>
      rename_i m2 rest2
      simp only [upd_other _ _ hut] at hp2
      refine ⟨_, Step.relEx hp2 hw2, step_of_eq (Step.atomicOp (rest := rest) (by simp [upd_other _ _ hne, hp])) ?_⟩
      st_close
    | relSh hp2 hw2 hr2 =>
      rename_i m2 rest2
      simp only [upd_other _ _ hut] at hp2
      refine ⟨_, Step.relSh hp2 hw2 hr2, step_of_eq (Step.atomicOp (rest := rest) (by simp [upd_other _ _ hne, hp])) ?_⟩
      st_close
    | rd hp2 =>
      rename_i x2 rest2
      simp only [upd_other _ _ hut] at hp2
      refine ⟨_, Step.rd hp2, step_of_eq (Step.atomicOp (rest := rest) (by simp [upd_other _ _ hne, hp])) ?_⟩
      st_close
    | wr hp2 =>
      rename_i x2 v2 rest2
      simp only [upd_other _ _ hut] at hp2
      refine ⟨_, Step.wr hp2, step_of_eq (Step.atomicOp (rest := rest) (by simp [upd_other _ _ hne, hp])) ?_⟩
      st_close
    | atomicOp hp2 =>
      rename_i rest2
      simp only [upd_other _ _ hut] at hp2
      refine ⟨_, Step.atomicOp hp2, step_of_eq (Step.atomicOp (rest := rest) (by simp [upd_other _ _ hne, hp])) ?_⟩
      st_close
    | localStep hp2 =>
      rename_i rest2
      simp only [upd_other _ _ hut] at hp2
      refine ⟨_, Step.localStep hp2, step_of_eq (Step.atomicOp (rest := rest) (by simp [upd_other _ _ hne, hp])) ?_⟩
      st_close
  | localStep hp =>
    rename_i rest
    cases h2 with
    | acqEx hp2 hw2 hr2 =>
      rename_i m2 rest2
      simp only [upd_other _ _ hut] at hp2
      refine ⟨_, Step.acqEx hp2 hw2 hr2, step_of_eq (Step.localStep (rest := rest) (by simp [upd_other _ _ hne, hp])) ?_⟩
      st_close
    | acqSh hp2 hw2 =>
      rename_i m2 rest2
      simp only [upd_other _ _ hut] at hp2
      refine ⟨_, Step.acqSh hp2 hw2, step_of_eq (Step.localStep (rest := rest) (by simp [upd_other _ _ hne, hp])) ?_⟩
      st_close
    | relEx hp2 hw2 =>
      rename_i m2 rest2
      simp only [upd_other _ _ hut] at hp2
      refine ⟨_, Step.relEx hp2 hw2, step_of_eq (Step.localStep (rest := rest) (by simp [upd_other _ _ hne, hp])) ?_⟩
      st_close
    | relSh hp2 hw2 hr2 =>
      rename_i m2 rest2
      simp only [upd_other _ _ hut] at hp2
      refine ⟨_, Step.relSh hp2 hw2 hr2, step_of_eq (Step.localStep (rest := rest) (by simp [upd_other _ _ hne, hp])) ?_⟩
      st_close
    | rd hp2 =>
      rename_i x2 rest2
      simp only [upd_other _ _ hut] at hp2
      refine ⟨_, Step.rd hp2, step_of_eq (Step.localStep (rest := rest) (by simp [upd_other _ _ hne, hp])) ?_⟩
      st_close
    | wr hp2 =>
      rename_i x2 v2 rest2
      simp only [upd_other _ _ hut] at hp2
      refine ⟨_, Step.wr hp2, step_of_eq (Step.localStep (rest := rest) (by simp [upd_other _ _ hne, hp])) ?_⟩
      st_close
    | atomicOp hp2 =>
      rename_i rest2
      simp only [upd_other _ _ hut] at hp2
      refine ⟨_, Step.atomicOp hp2, step_of_eq (Step.localStep (rest := rest) (by simp [upd_other _ _ hne, hp])) ?_⟩
      st_close
    | localStep hp2 =>
      rename_i rest2
      simp only [upd_other _ _ hut] at hp2
      refine ⟨_, Step.localStep hp2, step_of_eq (Step.localStep (rest := rest) (by simp [upd_other _ _ hne, hp])) ?_⟩
      st_close

/-- Left mover: any step of `u` followed by a lock-free step of another thread `t` can be swapped. -/
theorem lockfree_left_mover {L : V → Option M} {σ σ₁ σ₂ : St M V} {t u : Tid} (hi : Inv L σ) (hne : t ≠ u)
    (h1 : Step σ u σ₁) (h2 : Step σ₁ t σ₂) (hfree : ∀ a, next σ t = some a → a.isLockOp = false) :
    ∃ σ₁', Step σ t σ₁' ∧ Step σ₁' u σ₂ := by
  have hnr : ¬ Race σ := no_race_of_disciplined (inv_disciplined hi) hi.lockOK
  have hut : u ≠ t := Ne.symm hne
  cases h1 with
  | acqEx hp2 hw2 hr2 =>
    rename_i m2 rest2
    cases h2 with
    | acqEx hp hw hr =>
      rename_i m rest
      simp only [upd_other _ _ hne] at hp
      have := hfree (.acq m .ex) (by simp [next, hp])
      simp [Act.isLockOp] at this
    | acqSh hp hw =>
      rename_i m rest
      simp only [upd_other _ _ hne] at hp
      have := hfree (.acq m .sh) (by simp [next, hp])
      simp [Act.isLockOp] at this
    | relEx hp hw =>
      rename_i m rest
      simp only [upd_other _ _ hne] at hp
      have := hfree (.rel m) (by simp [next, hp])
      simp [Act.isLockOp] at this
    | relSh hp hw hr =>
      rename_i m rest
      simp only [upd_other _ _ hne] at hp
      have := hfree (.rel m) (by simp [next, hp])
      simp [Act.isLockOp] at this
    | rd hp =>
      rename_i x rest
      simp only [upd_other _ _ hne] at hp
      refine ⟨_, Step.rd hp, step_of_eq (Step.acqEx (m := m2) (rest := rest2) (by simp [upd_other _ _ hut, hp2]) hw2 hr2) ?_⟩
      st_close
    | wr hp =>
      rename_i x v rest
      simp only [upd_other _ _ hne] at hp
      refine ⟨_, Step.wr hp, step_of_eq (Step.acqEx (m := m2) (rest := rest2) (by simp [upd_other _ _ hut, hp2]) hw2 hr2) ?_⟩
      st_close
    | atomicOp hp =>
      rename_i rest
      simp only [upd_other _ _ hne] at hp
      refine ⟨_, Step.atomicOp hp, step_of_eq (Step.acqEx (m := m2) (rest := rest2) (by simp [upd_other _ _ hut, hp2]) hw2 hr2) ?_⟩
      st_close
    | localStep hp =>
      rename_i rest
      simp only [upd_other _ _ hne] at hp
      refine ⟨_, Step.localStep hp, step_of_eq (Step.acqEx (m := m2) (rest := rest2) (by simp [upd_other _ _ hut, hp2]) hw2 hr2) ?_⟩
      st_close
  | acqSh hp2 hw2 =>
    rename_i m2 rest2
    cases h2 with
    | acqEx hp hw hr =>
      rename_i m rest
      simp only [upd_other _ _ hne] at hp
      have := hfree (.acq m .ex) (by simp [next, hp])
      simp [Act.isLockOp] at this
    | acqSh hp hw =>
      rename_i m rest
      simp only [upd_other _ _ hne] at hp
      have := hfree (.acq m .sh) (by simp [next, hp])
      simp [Act.isLockOp] at this
    | relEx hp hw =>
      rename_i m rest
      simp only [upd_other _ _ hne] at hp
      have := hfree (.rel m) (by simp [next, hp])
      simp [Act.isLockOp] at this
    | relSh hp hw hr =>
      rename_i m rest
      simp only [upd_other _ _ hne] at hp
      have := hfree (.rel m) (by simp [next, hp])
      simp [Act.isLockOp] at this
    | rd hp =>
      rename_i x rest
      simp only [upd_other _ _ hne] at hp
      refine ⟨_, Step.rd hp, step_of_eq (Step.acqSh (m := m2) (rest := rest2) (by simp [upd_other _ _ hut, hp2]) hw2) ?_⟩
      st_close
    | wr hp =>
      rename_i x v rest
      simp only [upd_other _ _ hne] at hp
      refine ⟨_, Step.wr hp, step_of_eq (Step.acqSh (m := m2) (rest := rest2) (by simp [upd_other _ _ hut, hp2]) hw2) ?_⟩
      st_close
    | atomicOp hp =>
      rename_i rest
      simp only [upd_other _ _ hne] at hp
      refine ⟨_, Step.atomicOp hp, step_of_eq (Step.acqSh (m := m2) (rest := rest2) (by simp [upd_other _ _ hut, hp2]) hw2) ?_⟩
      st_close
    | localStep hp =>
      rename_i rest
      simp only [upd_other _ _ hne] at hp
      refine ⟨_, Step.localStep hp, step_of_eq (Step.acqSh (m := m2) (rest := rest2) (by simp [upd_other _ _ hut, hp2]) hw2) ?_⟩
      st_close
  | relEx hp2 hw2 =>
    rename_i m2 rest2
    cases h2 with
    | acqEx hp hw hr =>
      rename_i m rest
      simp only [upd_other _ _ hne] at hp
      have := hfree (.acq m .ex) (by simp [next, hp])
      simp [Act.isLockOp] at this
    | acqSh hp hw =>
      rename_i m rest
      simp only [upd_other _ _ hne] at hp
      have := hfree (.acq m .sh) (by simp [next, hp])
      simp [Act.isLockOp] at this
    | relEx hp hw =>
      rename_i m rest
      simp only [upd_other _ _ hne] at hp
      have := hfree (.rel m) (by simp [next, hp])
      simp [Act.isLockOp] at this
    | relSh hp hw hr =>
      rename_i m rest
      simp only [upd_other _ _ hne] at hp
      have := hfree (.rel m) (by simp [next, hp])
      simp [Act.isLockOp] at this
    | rd hp =>
      rename_i x rest
      simp only [upd_other _ _ hne] at hp
      refine ⟨_, Step.rd hp, step_of_eq (Step.relEx (m := m2) (rest := rest2) (by simp [upd_other _ _ hut, hp2]) hw2) ?_⟩
      st_close
    | wr hp =>
      rename_i x v rest
      simp only [upd_other _ _ hne] at hp
      refine ⟨_, Step.wr hp, step_of_eq (Step.relEx (m := m2) (rest := rest2) (by simp [upd_other _ _ hut, hp2]) hw2) ?_⟩
      st_close
    | atomicOp hp =>
      rename_i rest
      simp only [upd_other _ _ hne] at hp
      refine ⟨_, Step.atomicOp hp, step_of_eq (Step.relEx (m := m2) (rest := rest2) (by simp [upd_other _ _ hut, hp2]) hw2) ?_⟩
      st_close
    | localStep hp =>
      rename_i rest
      simp only [upd_other _ _ hne] at hp
      refine ⟨_, Step.localStep hp, step_of_eq (Step.relEx (m := m2) (rest := rest2) (by simp [upd_other _ _ hut, hp2]) hw2) ?_⟩
      st_close
  | relSh hp2 hw2 hr2 =>
    rename_i m2 rest2
    cases h2 with
    | acqEx hp hw hr =>
      rename_i m rest
      simp only [upd_other _ _ hne] at hp
      have := hfree (.acq m .ex) (by simp [next, hp])
      simp [Act.isLockOp] at this
    | acqSh hp hw =>
      rename_i m rest
      simp only [upd_other _ _ hne] at hp
      have := hfree (.acq m .sh) (by simp [next, hp])
      simp [Act.isLockOp] at this
    | relEx hp hw =>
      rename_i m rest
      simp only [upd_other _ _ hne] at hp
      have := hfree (.rel m) (by simp [next, hp])
      simp [Act.isLockOp] at this
    | relSh hp hw hr =>
      rename_i m rest
      simp only [upd_other _ _ hne] at hp
      have := hfree (.rel m) (by simp [next, hp])
      simp [Act.isLockOp] at this
    | rd hp =>
      rename_i x rest
      simp only [upd_other _ _ hne] at hp
      refine ⟨_, Step.rd hp, step_of_eq (Step.relSh (m := m2) (rest := rest2) (by simp [upd_other _ _ hut, hp2]) hw2 hr2) ?_⟩
      st_close
    | wr hp =>
      rename_i x v rest
      simp only [upd_other _ _ hne] at hp
      refine ⟨_, Step.wr hp, step_of_eq (Step.relSh (m := m2) (rest := rest2) (by simp [upd_other _ _ hut, hp2]) hw2 hr2) ?_⟩
      st_close
    | atomicOp hp =>
      rename_i rest
      simp only [upd_other _ _ hne] at hp
      refine ⟨_, Step.atomicOp hp, step_of_eq (Step.relSh (m := m2) (rest := rest2) (by simp [upd_other _ _ hut, hp2]) hw2 hr2) ?_⟩
      st_close
    | localStep hp =>
      rename_i rest
      simp only [upd_other _ _ hne] at hp
      refine ⟨_, Step.localStep hp, step_of_eq (Step.relSh (m := m2) (rest := rest2) (by simp [upd_other _ _ hut, hp2]) hw2 hr2) ?_⟩
      st_close
  | rd hp2 =>
    rename_i x2 rest2
    cases h2 with
    | acqEx hp hw hr =>
      rename_i m rest
      simp only [upd_other _ _ hne] at hp
      have := hfree (.acq m .ex) (by simp [next, hp])
      simp [Act.isLockOp] at this
    | acqSh hp hw =>
      rename_i m rest
      simp only [upd_other _ _ hne] at hp
      have := hfree (.acq m .sh) (by simp [next, hp])
      simp [Act.isLockOp] at this
    | relEx hp hw =>
      rename_i m rest
      simp only [upd_other _ _ hne] at hp
      have := hfree (.rel m) (by simp [next, hp])
      simp [Act.isLockOp] at this
    | relSh hp hw hr =>
      rename_i m rest
      simp only [upd_other _ _ hne] at hp
      have := hfree (.rel m) (by simp [next, hp])
      simp [Act.isLockOp] at this
    | rd hp =>
      rename_i x rest
      simp only [upd_other _ _ hne] at hp
      refine ⟨_, Step.rd hp, step_of_eq (Step.rd (x := x2) (rest := rest2) (by simp [upd_other _ _ hut, hp2]) ) ?_⟩
      st_close
    | wr hp =>
      rename_i x v rest
      simp only [upd_other _ _ hne] at hp
      have hxy : x2 ≠ x := by
        intro e; subst e
        exact hnr ⟨t, u, .wr x2 v, .rd x2, hne, by simp [next, hp], by simp [next, hp2], rfl⟩
      refine ⟨_, Step.wr hp, step_of_eq (Step.rd (x := x2) (rest := rest2) (by simp [upd_other _ _ hut, hp2]) ) ?_⟩
      st_close
    | atomicOp hp =>
      rename_i rest
      simp only [upd_other _ _ hne] at hp
      refine ⟨_, Step.atomicOp hp, step_of_eq (Step.rd (x := x2) (rest := rest2) (by simp [upd_other _ _ hut, hp2]) ) ?_⟩
      st_close
    | localStep hp =>
      rename_i rest
      simp only [upd_other _ _ hne] at hp
      refine ⟨_, Step.localStep hp, step_of_eq (Step.rd (x := x2) (rest := rest2) (by simp [upd_other _ _ hut, hp2]) ) ?_⟩
      st_close
  | wr hp2 =>
    rename_i x2 v2 rest2
    cases h2 with
    | acqEx hp hw hr =>
      rename_i m rest
      simp only [upd_other _ _ hne] at hp
      have := hfree (.acq m .ex) (by simp [next, hp])
      simp [Act.isLockOp] at this
    | acqSh hp hw =>
      rename_i m rest
      simp only [upd_other _ _ hne] at hp
      have := hfree (.acq m .sh) (by simp [next, hp])
      simp [Act.isLockOp] at this
    | relEx hp hw =>
      rename_i m rest
      simp only [upd_other _ _ hne] at hp
      have := hfree (.rel m) (by simp [next, hp])
      simp [Act.isLockOp] at this
    | relSh hp hw hr =>
      rename_i m rest
      simp only [upd_other _ _ hne] at hp
      have := hfree (.rel m) (by simp [next, hp])
      simp [Act.isLockOp] at this
    | rd hp =>
      rename_i x rest
      simp only [upd_other _ _ hne] at hp
      have hxy : x2 ≠ x := by
        intro e; subst e
        exact hnr ⟨t, u, .rd x2, .wr x2 v2, hne, by simp [next, hp], by simp [next, hp2], rfl⟩
      refine ⟨_, Step.rd hp, step_of_eq (Step.wr (x := x2) (v := v2) (rest := rest2) (by simp [upd_other _ _ hut, hp2]) ) ?_⟩
      st_close
    | wr hp =>
      rename_i x v rest
      simp only [upd_other _ _ hne] at hp
      have hxy : x2 ≠ x := by
        intro e; subst e
        exact hnr ⟨t, u, .wr x2 v, .wr x2 v2, hne, by simp [next, hp], by simp [next, hp2], rfl⟩
      refine ⟨_, Step.wr hp, step_of_eq (Step.wr (x := x2) (v := v2) (rest := rest2) (by simp [upd_other _ _ hut, hp2]) ) ?_⟩
      st_close
    | atomicOp hp =>
      rename_i rest
      simp only [upd_other _ _ hne] at hp
      refine ⟨_, Step.atomicOp hp, step_of_eq (Step.wr (x := x2) (v := v2) (rest := rest2) (by simp [upd_other _ _ hut, hp2]) ) ?_⟩
      st_close
    | localStep hp =>
      rename_i rest
      simp only [upd_other _ _ hne] at hp
      refine ⟨_, Step.localStep hp, step_of_eq (Step.wr (x := x2) (v := v2) (rest := rest2) (by simp [upd_other _ _ hut, hp2]) ) ?_⟩
      st_close
  | atomicOp hp2 =>
    rename_i rest2
    cases h2 with
    | acqEx hp hw hr =>
      rename_i m rest
      simp only [upd_other _ _ hne] at hp
      have := hfree (.acq m .ex) (by simp [next, hp])
      simp [Act.isLockOp] at this
    | acqSh hp hw =>
      rename_i m rest
      simp only [upd_other _ _ hne] at hp
      have := hfree (.acq m .sh) (by simp [next, hp])
      simp [Act.isLockOp] at this
    | relEx hp hw =>
      rename_i m rest
      simp only [upd_other _ _ hne] at hp
      have := hfree (.rel m) (by simp [next, hp])
      simp [Act.isLockOp] at this
    | relSh hp hw hr =>
      rename_i m rest
      simp only [upd_other _ _ hne] at hp
      have := hfree (.rel m) (by simp [next, hp])
      simp [Act.isLockOp] at this
    | rd hp =>
      rename_i x rest
      simp only [upd_other _ _ hne] at hp
      refine ⟨_, Step.rd hp, step_of_eq (Step.atomicOp (rest := rest2) (by simp [upd_other _ _ hut, hp2]) ) ?_⟩
      st_close
    | wr hp =>
      rename_i x v rest
      simp only [upd_other _ _ hne] at hp
      refine ⟨_, Step.wr hp, step_of_eq (Step.atomicOp (rest := rest2) (by simp [upd_other _ _ hut, hp2]) ) ?_⟩
      st_close
    | atomicOp hp =>
      rename_i rest
      simp only [upd_other _ _ hne] at hp
      refine ⟨_, Step.atomicOp hp, step_of_eq (Step.atomicOp (rest := rest2) (by simp [upd_other _ _ hut, hp2]) ) ?_⟩
      st_close
    | localStep hp =>
      rename_i rest
      simp only [upd_other _ _ hne] at hp
      refine ⟨_, Step.localStep hp, step_of_eq (Step.atomicOp (rest := rest2) (by simp [upd_other _ _ hut, hp2]) ) ?_⟩
      st_close
  | localStep hp2 =>
    rename_i rest2
    cases h2 with
    | acqEx hp hw hr =>
      rename_i m rest
      simp only [upd_other _ _ hne] at hp
      have := hfree (.acq m .ex) (by simp [next, hp])
      simp [Act.isLockOp] at this
    | acqSh hp hw =>
      rename_i m rest
      simp only [upd_other _ _ hne] at hp
      have := hfree (.acq m .sh) (by simp [next, hp])
      simp [Act.isLockOp] at this
    | relEx hp hw =>
      rename_i m rest
      simp only [upd_other _ _ hne] at hp
      have := hfree (.rel m) (by simp [next, hp])
      simp [Act.isLockOp] at this
    | relSh hp hw hr =>
      rename_i m rest
      simp only [upd_other _ _ hne] at hp
      have := hfree (.rel m) (by simp [next, hp])
      simp [Act.isLockOp] at this
    | rd hp =>
      rename_i x rest
      simp only [upd_other _ _ hne] at hp
      refine ⟨_, Step.rd hp, step_of_eq (Step.localStep (rest := rest2) (by simp [upd_other _ _ hut, hp2]) ) ?_⟩
      st_close
    | wr hp =>
      rename_i x v rest
      simp only [upd_other _ _ hne] at hp
      refine ⟨_, Step.wr hp, step_of_eq (Step.localStep (rest := rest2) (by simp [upd_other _ _ hut, hp2]) ) ?_⟩
      st_close
    | atomicOp hp =>
      rename_i rest
      simp only [upd_other _ _ hne] at hp
      refine ⟨_, Step.atomicOp hp, step_of_eq (Step.localStep (rest := rest2) (by simp [upd_other _ _ hut, hp2]) ) ?_⟩
      st_close
    | localStep hp =>
      rename_i rest
      simp only [upd_other _ _ hne] at hp
      refine ⟨_, Step.localStep hp, step_of_eq (Step.localStep (rest := rest2) (by simp [upd_other _ _ hut, hp2]) ) ?_⟩
      st_close

/-- A finite sequence of steps, none of them by thread `t`. -/
inductive OtherSteps (t : Tid) : St M V → St M V → Prop
  | refl {σ : St M V} : OtherSteps t σ σ
  | step {σ σ' σ'' : St M V} {u : Tid} : u ≠ t → Step σ u σ' → OtherSteps t σ' σ'' → OtherSteps t σ σ''

theorem step_prog_other {σ σ' : St M V} {t u : Tid} (hs : Step σ u σ') (hne : t ≠ u) : σ'.prog t = σ.prog t := by
  cases hs <;> simp [upd_other _ _ hne]

theorem step_next_other {σ σ' : St M V} {t u : Tid} (hs : Step σ u σ') (hne : t ≠ u) : next σ' t = next σ t := by
  simp [next, step_prog_other hs hne]

/-- A lock-free step of a disciplined thread can be postponed past any sequence of steps of other threads. -/
theorem lockfree_step_delays {L : V → Option M} {σ σ₁ σ₂ : St M V} {t : Tid} (hi : Inv L σ)
    (h1 : Step σ t σ₁) (hs : OtherSteps t σ₁ σ₂) (hfree : ∀ a, next σ t = some a → a.isLockOp = false) :
    ∃ σ', OtherSteps t σ σ' ∧ Step σ' t σ₂ := by
  induction hs generalizing σ with
  | refl => exact ⟨σ, .refl, h1⟩
  | step hne hu _ ih =>
    obtain ⟨σa, hua, hta⟩ := lockfree_right_mover hi (Ne.symm hne) h1 hu hfree
    have hfree' : ∀ a, next σa t = some a → a.isLockOp = false := by
      intro a ha; rw [step_next_other hua (Ne.symm hne)] at ha; exact hfree a ha
    obtain ⟨σ', ho, ht⟩ := ih (step_preserves_inv hua hi) hta hfree'
    exact ⟨σ', .step hne hua ho, ht⟩

/-- A lock-free step of a disciplined thread can be brought forward before any sequence of steps of other
threads. -/
theorem lockfree_step_advances {L : V → Option M} {σ σ₁ σ₂ : St M V} {t : Tid} (hi : Inv L σ)
    (hs : OtherSteps t σ σ₁) (h2 : Step σ₁ t σ₂) (hfree : ∀ a, next σ t = some a → a.isLockOp = false) :
    ∃ σ', Step σ t σ' ∧ OtherSteps t σ' σ₂ := by
  induction hs with
  | refl => exact ⟨_, h2, .refl⟩
  | @step σ0 σa _ u hne hu _ ih =>
    have hfree' : ∀ a, next σa t = some a → a.isLockOp = false := by
      intro a ha; rw [step_next_other hu (Ne.symm hne)] at ha; exact hfree a ha
    obtain ⟨σb, htb, hob⟩ := ih (step_preserves_inv hu hi) h2 hfree'
    obtain ⟨σc, htc, huc⟩ := lockfree_left_mover hi (Ne.symm hne) hu htb hfree
    exact ⟨σc, htc, .step hne huc hob⟩

end Sem
/-! ## Fact rows are checked programs -/

/-- The thread-local lock set after acquiring `hs` on top of `base`. -/
def heldFn (hs : List HeldLock) (base : String → Option Mode) : String → Option Mode :=
  hs.foldl (fun f h => upd f h.mutex (some (modeOf h))) base

theorem heldFn_notin (hs : List HeldLock) (base : String → Option Mode) (m : String)
    (h : m ∉ hs.map (·.mutex)) : heldFn hs base m = base m := by
  induction hs generalizing base with
  | nil => rfl
  | cons a hs ih =>
    simp only [List.map_cons, List.mem_cons, not_or] at h
    show heldFn hs (upd base a.mutex (some (modeOf a))) m = base m
    rw [ih _ h.2, upd_other _ _ h.1]

theorem heldFn_mem (hs : List HeldLock) (base : String → Option Mode) (hl : HeldLock)
    (hmem : hl ∈ hs) (hnd : (hs.map (·.mutex)).Nodup) : heldFn hs base hl.mutex = some (modeOf hl) := by
  induction hs generalizing base with
  | nil => cases hmem
  | cons a hs ih =>
    simp only [List.map_cons, List.nodup_cons] at hnd
    show heldFn hs (upd base a.mutex (some (modeOf a))) hl.mutex = some (modeOf hl)
    rcases List.mem_cons.mp hmem with rfl | hin
    · rw [heldFn_notin _ _ _ hnd.1]; simp
    · exact ih _ hin hnd.2

theorem bracket_run (L : String → Option String) (body : List (Act String String)) :
    ∀ (hs : List HeldLock) (base : String → Option Mode),
      (∀ h ∈ hs, base h.mutex = none) → (hs.map (·.mutex)).Nodup →
      run L (heldFn hs base) body = some (heldFn hs base) →
      run L base (bracket hs body) = some base := by
  intro hs
  induction hs with
  | nil => intro base _ _ hb; exact hb
  | cons a hs ih =>
    intro base hfree hnd hb
    simp only [List.map_cons, List.nodup_cons] at hnd
    have ha : base a.mutex = none := hfree a (List.mem_cons_self ..)
    let base' := upd base a.mutex (some (modeOf a))
    have hfree' : ∀ h ∈ hs, base' h.mutex = none := by
      intro h hh
      have hne : h.mutex ≠ a.mutex := by
        intro e; exact hnd.1 (e ▸ List.mem_map_of_mem (f := (·.mutex)) hh)
      show upd base a.mutex _ h.mutex = none
      rw [upd_other _ _ hne]; exact hfree h (List.mem_cons_of_mem _ hh)
    have hih := ih base' hfree' hnd.2 hb
    have hback : upd base' a.mutex none = base := by
      funext x
      by_cases hx : x = a.mutex
      · subst hx; simp [ha]
      · simp [base', upd_other _ _ hx]
    show run L base (.acq a.mutex (modeOf a) :: (bracket hs body ++ [.rel a.mutex])) = some base
    simp only [run, stepHeld, ha, if_true, Option.bind_some]
    rw [run_append, hih]
    simp [run, stepHeld, base', hback]

theorem mem_liveAccesses {f : LockFacts} {a : Access} (ha : a ∈ f.accesses) (hi : a.atInit = false) :
    a ∈ liveAccesses f a.var := by
  simp [liveAccesses, List.mem_filter, ha, hi]

theorem accessOK_held {m : String} {a : Access} (h : accessOK m a = true) :
    ∃ hl ∈ a.held, hl.mutex = m ∧ (a.write = true → hl.excl = true) := by
  simp only [accessOK, List.any_eq_true, Bool.and_eq_true, Bool.or_eq_true, beq_iff_eq] at h
  obtain ⟨hl, hmem, hm, hx⟩ := h
  refine ⟨hl, hmem, hm, ?_⟩
  intro hw
  rcases hx with hx | hx
  · exact hx
  · simp [hw] at hx

theorem lockOf_some {f : LockFacts} {x m : String} (h : lockOf f x = some m) :
    ∀ a ∈ liveAccesses f x, accessOK m a = true := by
  unfold lockOf at h
  split at h
  · have := List.find?_some h
    simpa [List.all_eq_true] using this
  · cases h

/-- One fact row, executed from a thread holding nothing, respects the discipline and ends holding nothing. -/
theorem row_checked {f : LockFacts} (hg : Guarded f = true) {a : Access} (ha : a ∈ f.accesses)
    (hi : a.atInit = false) (val : Nat) :
    run (lockOf f) (fun _ => none) (bracket a.held [accessAct a val]) = some (fun _ => none) := by
  simp only [Guarded, Bool.and_eq_true, List.all_eq_true] at hg
  have hrow := hg.2 a ha
  simp only [rowOK, Bool.and_eq_true, List.any_eq_true, beq_iff_eq, decide_eq_true_eq] at hrow
  obtain ⟨⟨v, hv, hname⟩, hnd⟩ := hrow
  have hvar := hg.1 v hv
  have hlive : a ∈ liveAccesses f v.name := hname ▸ mem_liveAccesses ha hi
  apply bracket_run _ _ _ _ (fun _ _ => rfl) hnd
  -- the access itself, under the recorded lock set
  simp only [varOK] at hvar
  split at hvar
  · -- sync object: atomic operation
    have := (List.all_eq_true.mp hvar) a hlive
    simp [accessAct, this, run, stepHeld]
  · simp only [Bool.and_eq_true, List.all_eq_true, Bool.or_eq_true, Bool.not_eq_eq_eq_not, Bool.not_true] at hvar
    have hns : a.syncCall = false := by simpa using hvar.1 a hlive
    cases hw : a.write with
    | true =>
      have hany : (liveAccesses f v.name).any (·.write) = true := List.any_eq_true.mpr ⟨a, hlive, hw⟩
      have hsome : (lockOf f v.name).isSome = true := by
        rcases hvar.2 with h | h
        · rw [hany] at h; cases h
        · exact h
      obtain ⟨m, hm⟩ := Option.isSome_iff_exists.mp hsome
      obtain ⟨hl, hmem, hlm, hex⟩ := accessOK_held (lockOf_some hm a hlive)
      have hheld := heldFn_mem a.held (fun _ => none) hl hmem hnd
      rw [hlm] at hheld
      have hmode : modeOf hl = .ex := by simp [modeOf, hex hw]
      simp [accessAct, hns, hw, run, stepHeld, ← hname, hm, hheld, hmode]
    | false =>
      cases hm : lockOf f v.name with
      | none => simp [accessAct, hns, hw, run, stepHeld, ← hname, hm]
      | some m =>
        obtain ⟨hl, hmem, hlm, _⟩ := accessOK_held (lockOf_some hm a hlive)
        have hheld := heldFn_mem a.held (fun _ => none) hl hmem hnd
        rw [hlm] at hheld
        simp [accessAct, hns, hw, run, stepHeld, ← hname, hm, hheld]

/-- Every program the facts describe is a checked program (and is well bracketed). -/
theorem fromFacts_checked {f : LockFacts} (hg : Guarded f = true) {p : List (Act String String)}
    (hp : FromFacts f p) : run (lockOf f) (fun _ => none) p = some (fun _ => none) := by
  induction hp with
  | nil => rfl
  | op a val rest ha hi _ ih => rw [run_append, row_checked hg ha hi val]; exact ih
  | localStep rest _ ih => simpa [run, stepHeld] using ih

end Avro.Conc
