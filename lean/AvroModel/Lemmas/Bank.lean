import AvroModel.Bank
/-!
Invariant of the bank state machine and its preservation by every allowed step
(helper lemmas for `Props/C10.lean`).
-/
namespace Avro.BankL
open Avro.Bank

/-! ## `findTyp` -/

def TypDistinct (l : List Arena) : Prop := l.Pairwise fun a1 a2 => a1.typ ≠ a2.typ

theorem findArena_typ (τ : Nat) (l : List Arena) : (findArena τ l).typ = τ := by
  induction l with
  | nil => rfl
  | cons a as ih => simp only [findArena]; split <;> simp_all

theorem findArena_mem (τ : Nat) (l : List Arena) : findArena τ l ∈ l ∨ findArena τ l = Arena.new τ := by
  induction l with
  | nil => right; rfl
  | cons a as ih =>
    simp only [findArena]; split
    · left; exact List.mem_cons_self
    · rcases ih with h | h
      · left; exact List.mem_cons_of_mem _ h
      · right; exact h

theorem updArena_self (τ : Nat) (f : Arena → Arena) (l : List Arena) : f (findArena τ l) ∈ updArena τ f l := by
  induction l with
  | nil => simp [findArena, updArena]
  | cons a as ih =>
    simp only [findArena, updArena]; split
    · exact List.mem_cons_self
    · exact List.mem_cons_of_mem _ ih

theorem mem_updArena {τ : Nat} {f : Arena → Arena} {l : List Arena} (hd : TypDistinct l) {y : Arena}
    (hy : y ∈ updArena τ f l) : y = f (findArena τ l) ∨ (y ∈ l ∧ y.typ ≠ τ) := by
  induction l with
  | nil => simp [updArena, findArena] at hy ⊢; exact hy
  | cons a as ih =>
    have hd' := List.pairwise_cons.mp hd
    simp only [updArena, findArena] at hy ⊢
    split at hy
    · rename_i ha
      simp only [ha, if_true]
      rcases List.mem_cons.mp hy with h | h
      · left; exact h
      · right; refine ⟨List.mem_cons_of_mem _ h, ?_⟩
        have := hd'.1 y h
        intro hty; exact this (by rw [ha, hty])
    · rename_i ha
      simp only [ha, if_false]
      rcases List.mem_cons.mp hy with h | h
      · right; subst h; exact ⟨List.mem_cons_self, ha⟩
      · rcases ih hd'.2 h with h' | ⟨h1, h2⟩
        · left; exact h'
        · right; exact ⟨List.mem_cons_of_mem _ h1, h2⟩

theorem updArena_distinct {τ : Nat} {f : Arena → Arena} {l : List Arena} (hf : ∀ a, (f a).typ = a.typ)
    (hd : TypDistinct l) : TypDistinct (updArena τ f l) := by
  induction l with
  | nil => simp [updArena, TypDistinct]
  | cons a as ih =>
    have hd' := List.pairwise_cons.mp hd
    simp only [updArena]
    split
    · refine List.pairwise_cons.mpr ⟨?_, hd'.2⟩
      intro y hy; rw [hf]; exact hd'.1 y hy
    · rename_i ha
      refine List.pairwise_cons.mpr ⟨?_, ih hd'.2⟩
      intro y hy
      rcases mem_updArena hd'.2 hy with h | ⟨h1, _⟩
      · rw [h, hf, findArena_typ]; exact ha
      · exact hd'.1 y h1

/-! ## arithmetic of one `Alloc` -/

theorem grow_typ (a : Arena) (n nc : Nat) : (a.grow n nc).typ = a.typ := by
  unfold Arena.grow; split <;> rfl

theorem take_typ (a : Arena) (n nc : Nat) : (a.take n nc).typ = a.typ := by
  simp [Arena.take, grow_typ]

theorem grow_full {a : Arena} (n : Nat) {nc : Nat} (h : a.len = a.cap) (hnc : a.cap < nc) :
    (a.grow n nc).arr = some n ∧ (a.grow n nc).len = a.len ∧ a.len < (a.grow n nc).cap := by
  unfold Arena.grow; simp only [h, if_true]
  exact ⟨trivial, trivial, hnc⟩

theorem grow_spare {a : Arena} (n nc : Nat) (h : a.len ≠ a.cap) : a.grow n nc = a := by
  unfold Arena.grow; simp [h]

/-! ## the invariant -/

def CellNe (h1 h2 : Handle) : Prop := ¬ (h1.arr = h2.arr ∧ h1.idx = h2.idx)

/-- the byte ranges of two strings do not overlap -/
def RangeDisj (s1 s2 : SHandle) : Prop :=
  ∀ x, s1.arr = some x → s2.arr = some x → s1.start + s1.len ≤ s2.start ∨ s2.start + s2.len ≤ s1.start

/-- typed arenas and pointers -/
structure TInv (w : World) : Prop where
  t0 : ∀ h ∈ w.issued, h.bank < w.nbanks
  /-- a live pointer into the current array of an arena belongs to that arena's bank and lies below `len` -/
  t1 : ∀ h ∈ w.issued, w.Live h → ∀ b, ∀ a ∈ (w.banks b).arenas, a.arr = some h.arr → h.bank = b ∧ h.idx < a.len
  t2 : ∀ h ∈ w.issued, h.arr < w.nextArr
  /-- an array is the current array of at most one arena -/
  t3 : ∀ b1 b2 a1 a2 x, a1 ∈ (w.banks b1).arenas → a2 ∈ (w.banks b2).arenas → a1.arr = some x → a2.arr = some x →
        b1 = b2 ∧ a1.typ = a2.typ
  t4 : ∀ b, ∀ a ∈ (w.banks b).arenas, ∀ x, a.arr = some x → x < w.nextArr
  t5 : ∀ h ∈ w.issued, h.epoch ≤ (w.banks h.bank).epoch
  /-- live pointers are pairwise different cells -/
  t6 : w.issued.Pairwise fun h1 h2 => w.Live h1 → w.Live h2 → CellNe h1 h2
  t7 : ∀ b, TypDistinct (w.banks b).arenas
  t8 : ∀ b, ∀ a ∈ (w.banks b).arenas, a.len ≤ a.cap ∧ (a.arr = none → a.cap = 0)

/-- string arena and strings -/
structure SInv (w : World) : Prop where
  s0 : ∀ s ∈ w.sissued, s.bank < w.nbanks
  /-- a live string in the current array of a bank's `sData` belongs to that bank and ends below `len` -/
  s1 : ∀ s ∈ w.sissued, w.SLive s → ∀ x, s.arr = some x → ∀ b, (w.banks b).sdata.arr = some x →
        s.bank = b ∧ s.start + s.len ≤ (w.banks b).sdata.len
  s2 : ∀ s ∈ w.sissued, ∀ x, s.arr = some x → x < w.nextSArr
  s3 : ∀ b1 b2 x, (w.banks b1).sdata.arr = some x → (w.banks b2).sdata.arr = some x → b1 = b2
  s4 : ∀ b x, (w.banks b).sdata.arr = some x → x < w.nextSArr
  s5 : ∀ s ∈ w.sissued, s.epoch ≤ (w.banks s.bank).epoch
  /-- live strings occupy pairwise disjoint byte ranges -/
  s6 : w.sissued.Pairwise fun s1 s2 => w.SLive s1 → w.SLive s2 → RangeDisj s1 s2
  s8 : ∀ b, (w.banks b).sdata.len ≤ (w.banks b).sdata.cap ∧ ((w.banks b).sdata.arr = none → (w.banks b).sdata.cap = 0)

structure Inv (w : World) : Prop where
  t : TInv w
  s : SInv w

theorem inv_init : Inv init := by
  constructor
  · constructor <;> simp [init, BankSt.fresh, TypDistinct]
  · constructor <;> simp [init, BankSt.fresh]

/-- `TInv` only looks at arenas, epochs, `nbanks`, `nextArr` and `issued`. -/
theorem TInv.congr {w w' : World} (h : TInv w)
    (ha : ∀ b, (w'.banks b).arenas = (w.banks b).arenas) (he : ∀ b, (w'.banks b).epoch = (w.banks b).epoch)
    (hn : w'.nbanks = w.nbanks) (hx : w'.nextArr = w.nextArr) (hi : w'.issued = w.issued) : TInv w' := by
  have hl : ∀ x, w'.Live x ↔ w.Live x := fun x => by simp [World.Live, he]
  constructor
  · simpa [hi, hn] using h.t0
  · simpa [hi, hl, ha] using h.t1
  · simpa [hi, hx] using h.t2
  · simpa [ha] using h.t3
  · simpa [ha, hx] using h.t4
  · simpa [hi, he] using h.t5
  · simpa [hi, hl] using h.t6
  · simpa [ha] using h.t7
  · simpa [ha] using h.t8

/-- `SInv` only looks at `sData`, epochs, `nbanks`, `nextSArr` and `sissued`. -/
theorem SInv.congr {w w' : World} (h : SInv w)
    (ha : ∀ b, (w'.banks b).sdata = (w.banks b).sdata) (he : ∀ b, (w'.banks b).epoch = (w.banks b).epoch)
    (hn : w'.nbanks = w.nbanks) (hx : w'.nextSArr = w.nextSArr) (hi : w'.sissued = w.sissued) : SInv w' := by
  have hl : ∀ x, w'.SLive x ↔ w.SLive x := fun x => by simp [World.SLive, he]
  constructor
  · simpa [hi, hn] using h.s0
  · simpa [hi, hl, ha] using h.s1
  · simpa [hi, hx] using h.s2
  · simpa [ha] using h.s3
  · simpa [ha, hx] using h.s4
  · simpa [hi, he] using h.s5
  · simpa [hi, hl] using h.s6
  · simpa [ha] using h.s8

/-! ## steps that do not touch the arenas -/

theorem upd_same {α : Type} (f : Nat → α) (i : Nat) (v : α) : upd f i v i = v := by simp [upd]
theorem upd_other {α : Type} (f : Nat → α) {i j : Nat} (v : α) (h : j ≠ i) : upd f i v j = f j := by simp [upd, h]

theorem inv_getSome {w : World} (hinv : Inv w) (b : Nat) :
    Inv { w with banks := upd w.banks b { w.banks b with pooled := false } } := by
  have hb : ∀ b', (upd w.banks b { w.banks b with pooled := false } b').arenas = (w.banks b').arenas ∧
      (upd w.banks b { w.banks b with pooled := false } b').sdata = (w.banks b').sdata ∧
      (upd w.banks b { w.banks b with pooled := false } b').epoch = (w.banks b').epoch := by
    intro b'; by_cases h : b' = b
    · subst h; simp [upd]
    · simp [upd, h]
  exact ⟨hinv.t.congr (fun b' => (hb b').1) (fun b' => (hb b').2.2) rfl rfl rfl,
         hinv.s.congr (fun b' => (hb b').2.1) (fun b' => (hb b').2.2) rfl rfl rfl⟩

theorem inv_store {w : World} (hinv : Inv w) (m : Nat → Nat → Nat) : Inv { w with mem := m } :=
  ⟨hinv.t.congr (fun _ => rfl) (fun _ => rfl) rfl rfl rfl, hinv.s.congr (fun _ => rfl) (fun _ => rfl) rfl rfl rfl⟩

theorem inv_getNone {w : World} (hinv : Inv w) :
    Inv { w with banks := upd w.banks w.nbanks BankSt.fresh, nbanks := w.nbanks + 1 } := by
  have hT := hinv.t
  have hS := hinv.s
  have hne : ∀ h ∈ w.issued, h.bank ≠ w.nbanks := fun h hh => Nat.ne_of_lt (hT.t0 h hh)
  have hnes : ∀ s ∈ w.sissued, s.bank ≠ w.nbanks := fun s hs => Nat.ne_of_lt (hS.s0 s hs)
  have hfr : (upd w.banks w.nbanks BankSt.fresh w.nbanks) = BankSt.fresh := upd_same _ _ _
  have hot : ∀ b, b ≠ w.nbanks → upd w.banks w.nbanks BankSt.fresh b = w.banks b := fun b h => upd_other _ _ h
  constructor
  · constructor
    · intro h hh; exact Nat.lt_succ_of_lt (hT.t0 h hh)
    · intro h hh hl b a ha hx
      have hl' : w.Live h := by simpa [World.Live, hot _ (hne h hh)] using hl
      by_cases hb : b = w.nbanks
      · subst hb; simp [upd_same, BankSt.fresh] at ha
      · simp only [hot b hb] at ha; exact hT.t1 h hh hl' b a ha hx
    · exact hT.t2
    · intro b1 b2 a1 a2 x h1 h2
      by_cases hb1 : b1 = w.nbanks
      · subst hb1; simp [upd_same, BankSt.fresh] at h1
      · by_cases hb2 : b2 = w.nbanks
        · subst hb2; simp [upd_same, BankSt.fresh] at h2
        · simp only [hot _ hb1] at h1; simp only [hot _ hb2] at h2; exact hT.t3 b1 b2 a1 a2 x h1 h2
    · intro b a ha
      by_cases hb : b = w.nbanks
      · subst hb; simp [upd_same, BankSt.fresh] at ha
      · simp only [hot b hb] at ha; exact hT.t4 b a ha
    · intro h hh; simp only [hot _ (hne h hh)]; exact hT.t5 h hh
    · refine List.Pairwise.imp_of_mem ?_ hT.t6
      intro h1 h2 hh1 hh2 hR l1 l2
      exact hR (by simpa [World.Live, hot _ (hne h1 hh1)] using l1) (by simpa [World.Live, hot _ (hne h2 hh2)] using l2)
    · intro b
      by_cases hb : b = w.nbanks
      · subst hb; simp [upd_same, BankSt.fresh, TypDistinct]
      · simp only [hot b hb]; exact hT.t7 b
    · intro b a ha
      by_cases hb : b = w.nbanks
      · subst hb; simp [upd_same, BankSt.fresh] at ha
      · simp only [hot b hb] at ha; exact hT.t8 b a ha
  · constructor
    · intro s hs; exact Nat.lt_succ_of_lt (hS.s0 s hs)
    · intro s hs hl x hx b hbx
      have hl' : w.SLive s := by simpa [World.SLive, hot _ (hnes s hs)] using hl
      by_cases hb : b = w.nbanks
      · subst hb; simp [upd_same, BankSt.fresh] at hbx
      · simp only [hot b hb] at hbx ⊢; exact hS.s1 s hs hl' x hx b hbx
    · exact hS.s2
    · intro b1 b2 x h1 h2
      by_cases hb1 : b1 = w.nbanks
      · subst hb1; simp [upd_same, BankSt.fresh] at h1
      · by_cases hb2 : b2 = w.nbanks
        · subst hb2; simp [upd_same, BankSt.fresh] at h2
        · simp only [hot _ hb1] at h1; simp only [hot _ hb2] at h2; exact hS.s3 b1 b2 x h1 h2
    · intro b x hx
      by_cases hb : b = w.nbanks
      · subst hb; simp [upd_same, BankSt.fresh] at hx
      · simp only [hot b hb] at hx; exact hS.s4 b x hx
    · intro s hs; simp only [hot _ (hnes s hs)]; exact hS.s5 s hs
    · refine List.Pairwise.imp_of_mem ?_ hS.s6
      intro s1 s2 hs1 hs2 hR l1 l2
      exact hR (by simpa [World.SLive, hot _ (hnes s1 hs1)] using l1) (by simpa [World.SLive, hot _ (hnes s2 hs2)] using l2)
    · intro b
      by_cases hb : b = w.nbanks
      · subst hb; simp [upd_same, BankSt.fresh]
      · simp only [hot b hb]; exact hS.s8 b

/-! ## `Close` -/

/-- the bank record `Close` leaves behind -/
def closedBank (bk : BankSt) : BankSt :=
  { arenas := bk.arenas.map (fun a => { a with len := 0 })
    sdata := { bk.sdata with len := 0 }
    epoch := bk.epoch + 1
    pooled := true }

theorem inv_close {w : World} (hinv : Inv w) (b : Nat) :
    Inv { w with banks := upd w.banks b (closedBank (w.banks b)) } := by
  have hT := hinv.t
  have hS := hinv.s
  have hsame : upd w.banks b (closedBank (w.banks b)) b = closedBank (w.banks b) := upd_same _ _ _
  have hot : ∀ b', b' ≠ b → upd w.banks b (closedBank (w.banks b)) b' = w.banks b' := fun b' h => upd_other _ _ h
  -- a handle that is live afterwards belongs to another bank and was live before
  have hlive : ∀ h ∈ w.issued, (upd w.banks b (closedBank (w.banks b)) h.bank).epoch = h.epoch → h.bank ≠ b ∧ w.Live h := by
    intro h hh hl
    by_cases hb : h.bank = b
    · have := hT.t5 h hh
      rw [hb] at hl this; rw [hsame] at hl; simp only [closedBank] at hl; omega
    · rw [hot _ hb] at hl; exact ⟨hb, hl⟩
  have hslive : ∀ s ∈ w.sissued, (upd w.banks b (closedBank (w.banks b)) s.bank).epoch = s.epoch → s.bank ≠ b ∧ w.SLive s := by
    intro s hs hl
    by_cases hb : s.bank = b
    · have := hS.s5 s hs
      rw [hb] at hl this; rw [hsame] at hl; simp only [closedBank] at hl; omega
    · rw [hot _ hb] at hl; exact ⟨hb, hl⟩
  -- arenas afterwards come from arenas before, same typ / arr / cap
  have hmem : ∀ b' a, a ∈ (upd w.banks b (closedBank (w.banks b)) b').arenas →
      ∃ a0 ∈ (w.banks b').arenas, a0.arr = a.arr ∧ a0.typ = a.typ ∧ a0.cap = a.cap ∧ (b' ≠ b → a = a0) ∧ (b' = b → a.len = 0) := by
    intro b' a ha
    by_cases hb : b' = b
    · subst hb; rw [hsame] at ha; simp only [closedBank, List.mem_map] at ha
      obtain ⟨a0, ha0, rfl⟩ := ha
      exact ⟨a0, ha0, rfl, rfl, rfl, fun h => absurd rfl h, fun _ => rfl⟩
    · rw [hot _ hb] at ha; exact ⟨a, ha, rfl, rfl, rfl, fun _ => rfl, fun h => absurd h hb⟩
  constructor
  · constructor
    · exact hT.t0
    · intro h hh hl b' a ha hx
      obtain ⟨hnb, hl'⟩ := hlive h hh hl
      obtain ⟨a0, ha0, harr, _, _, hne, _⟩ := hmem b' a ha
      have := hT.t1 h hh hl' b' a0 ha0 (by rw [harr]; exact hx)
      by_cases hb : b' = b
      · exact absurd (this.1.trans hb) hnb
      · rw [hne hb]; exact this
    · exact hT.t2
    · intro b1 b2 a1 a2 x h1 h2 hx1 hx2
      obtain ⟨a10, ha10, harr1, htyp1, _⟩ := hmem b1 a1 h1
      obtain ⟨a20, ha20, harr2, htyp2, _⟩ := hmem b2 a2 h2
      have := hT.t3 b1 b2 a10 a20 x ha10 ha20 (by rw [harr1]; exact hx1) (by rw [harr2]; exact hx2)
      rw [← htyp1, ← htyp2]; exact this
    · intro b' a ha x hx
      obtain ⟨a0, ha0, harr, _⟩ := hmem b' a ha
      exact hT.t4 b' a0 ha0 x (by rw [harr]; exact hx)
    · intro h hh
      have := hT.t5 h hh
      by_cases hb : h.bank = b
      · show h.epoch ≤ (upd w.banks b (closedBank (w.banks b)) h.bank).epoch
        rw [hb, hsame]; rw [hb] at this; simp only [closedBank]; omega
      · show h.epoch ≤ (upd w.banks b (closedBank (w.banks b)) h.bank).epoch
        rw [hot _ hb]; exact this
    · refine List.Pairwise.imp_of_mem ?_ hT.t6
      intro h1 h2 hh1 hh2 hR l1 l2
      exact hR (hlive h1 hh1 l1).2 (hlive h2 hh2 l2).2
    · intro b'
      by_cases hb : b' = b
      · subst hb
        show TypDistinct (upd w.banks b' (closedBank (w.banks b')) b').arenas
        rw [hsame]; simp only [closedBank, TypDistinct]
        rw [List.pairwise_map]; exact hT.t7 b'
      · show TypDistinct (upd w.banks b (closedBank (w.banks b)) b').arenas
        rw [hot _ hb]; exact hT.t7 b'
    · intro b' a ha
      obtain ⟨a0, ha0, harr, _, hcap, hne, hz⟩ := hmem b' a ha
      have := hT.t8 b' a0 ha0
      by_cases hb : b' = b
      · rw [hz hb, ← harr, ← hcap]; exact ⟨Nat.zero_le _, this.2⟩
      · rw [hne hb]; exact this
  · -- strings
    have hsd : ∀ b', (upd w.banks b (closedBank (w.banks b)) b').sdata.arr = (w.banks b').sdata.arr ∧
        (upd w.banks b (closedBank (w.banks b)) b').sdata.cap = (w.banks b').sdata.cap ∧
        (b' ≠ b → (upd w.banks b (closedBank (w.banks b)) b').sdata.len = (w.banks b').sdata.len) ∧
        (b' = b → (upd w.banks b (closedBank (w.banks b)) b').sdata.len = 0) := by
      intro b'
      by_cases hb : b' = b
      · subst hb; rw [hsame]; simp [closedBank]
      · rw [hot _ hb]; simp [hb]
    constructor
    · exact hS.s0
    · intro s hs hl x hx b' hbx
      obtain ⟨hnb, hl'⟩ := hslive s hs hl
      have := hS.s1 s hs hl' x hx b' (by rw [← (hsd b').1]; exact hbx)
      by_cases hb : b' = b
      · exact absurd (this.1.trans hb) hnb
      · show s.bank = b' ∧ s.start + s.len ≤ (upd w.banks b (closedBank (w.banks b)) b').sdata.len
        rw [(hsd b').2.2.1 hb]; exact this
    · exact hS.s2
    · intro b1 b2 x h1 h2
      exact hS.s3 b1 b2 x (by rw [← (hsd b1).1]; exact h1) (by rw [← (hsd b2).1]; exact h2)
    · intro b' x hx
      exact hS.s4 b' x (by rw [← (hsd b').1]; exact hx)
    · intro s hs
      have := hS.s5 s hs
      show s.epoch ≤ (upd w.banks b (closedBank (w.banks b)) s.bank).epoch
      by_cases hb : s.bank = b
      · rw [hb, hsame]; rw [hb] at this; simp only [closedBank]; omega
      · rw [hot _ hb]; exact this
    · refine List.Pairwise.imp_of_mem ?_ hS.s6
      intro s1 s2 hs1 hs2 hR l1 l2
      exact hR (hslive s1 hs1 l1).2 (hslive s2 hs2 l2).2
    · intro b'
      have := hS.s8 b'
      show (upd w.banks b (closedBank (w.banks b)) b').sdata.len ≤ (upd w.banks b (closedBank (w.banks b)) b').sdata.cap ∧
        ((upd w.banks b (closedBank (w.banks b)) b').sdata.arr = none → (upd w.banks b (closedBank (w.banks b)) b').sdata.cap = 0)
      rw [(hsd b').1, (hsd b').2.1]
      by_cases hb : b' = b
      · rw [(hsd b').2.2.2 hb]; exact ⟨Nat.zero_le _, this.2⟩
      · rw [(hsd b').2.2.1 hb]; exact this

/-! ## `Alloc` -/

/-- What `Alloc` on bank `b`, type `τ` finds after its growth step: the arena has a current array `x` with
a spare cell `i`; no live pointer occupies that cell or anything above it; `x` belongs to no other arena. -/
structure AllocFacts (w : World) (b τ nc x i : Nat) : Prop where
  arr : ((findArena τ (w.banks b).arenas).grow w.nextArr nc).arr = some x
  idx : ((findArena τ (w.banks b).arenas).grow w.nextArr nc).len = i
  spare : i < ((findArena τ (w.banks b).arenas).grow w.nextArr nc).cap
  below : ∀ h ∈ w.issued, w.Live h → h.arr = x → h.bank = b ∧ h.idx < i
  owner : ∀ b' a', a' ∈ (w.banks b').arenas → a'.arr = some x → b' = b ∧ a'.typ = τ
  fresh : x < (if (findArena τ (w.banks b).arenas).len = (findArena τ (w.banks b).arenas).cap then w.nextArr + 1 else w.nextArr)

theorem alloc_facts {w : World} (hT : TInv w) (b τ nc : Nat)
    (hnc : (findArena τ (w.banks b).arenas).len = (findArena τ (w.banks b).arenas).cap → (findArena τ (w.banks b).arenas).cap < nc) :
    ∃ x i, AllocFacts w b τ nc x i := by
  have hfa := findArena_mem τ (w.banks b).arenas
  have htyp := findArena_typ τ (w.banks b).arenas
  generalize ha0 : findArena τ (w.banks b).arenas = a0 at hfa htyp hnc
  by_cases hfull : a0.len = a0.cap
  · obtain ⟨h1, h2, h3⟩ := grow_full w.nextArr hfull (hnc hfull)
    refine ⟨w.nextArr, a0.len, ?_, ?_, ?_, ?_, ?_, ?_⟩ <;> try rw [ha0]
    · exact h1
    · exact h2
    · exact h3
    · intro h hh _ hx; have := hT.t2 h hh; omega
    · intro b' a' ha' hx; have := hT.t4 b' a' ha' _ hx; omega
    · simp [hfull]
  · have hmem : a0 ∈ (w.banks b).arenas := by
      rcases hfa with h | h
      · exact h
      · exfalso; apply hfull; rw [h]; rfl
    have h8 := hT.t8 b a0 hmem
    have hsome : ∃ x, a0.arr = some x := by
      cases hx : a0.arr with
      | some x => exact ⟨x, rfl⟩
      | none => have := h8.2 hx; omega
    obtain ⟨x, hx⟩ := hsome
    refine ⟨x, a0.len, ?_, ?_, ?_, ?_, ?_, ?_⟩ <;> try rw [ha0]
    · rw [grow_spare _ _ hfull]; exact hx
    · rw [grow_spare _ _ hfull]
    · rw [grow_spare _ _ hfull]; omega
    · intro h hh hl hhx
      exact hT.t1 h hh hl b a0 hmem (by rw [hx, hhx])
    · intro b' a' ha' hx'
      have := hT.t3 b' b a' a0 x ha' hmem hx' hx
      exact ⟨this.1, this.2.trans htyp⟩
    · simp only [hfull, if_false]; exact hT.t4 b a0 hmem x hx

theorem inv_alloc {w : World} (hinv : Inv w) (b τ nc x i : Nat) (hb : b < w.nbanks) (hf : AllocFacts w b τ nc x i) :
    Inv { w with
          banks := upd w.banks b { w.banks b with arenas := updArena τ (fun a => a.take w.nextArr nc) (w.banks b).arenas }
          nextArr := if (findArena τ (w.banks b).arenas).len = (findArena τ (w.banks b).arenas).cap then w.nextArr + 1 else w.nextArr
          mem := upd2 w.mem x i 0
          issued := ⟨b, (w.banks b).epoch, x, i⟩ :: w.issued } := by
  have hT := hinv.t
  have hS := hinv.s
  obtain ⟨harr, hidx, hspare, hbelow, howner, hfresh⟩ := hf
  generalize hbs : upd w.banks b { w.banks b with arenas := updArena τ (fun a => a.take w.nextArr nc) (w.banks b).arenas } = bs'
  generalize hnx : (if (findArena τ (w.banks b).arenas).len = (findArena τ (w.banks b).arenas).cap then w.nextArr + 1 else w.nextArr) = nx at hfresh
  have hnx' : w.nextArr ≤ nx := by rw [← hnx]; split <;> omega
  have hep : ∀ b', (bs' b').epoch = (w.banks b').epoch := by
    intro b'; rw [← hbs]; by_cases h : b' = b
    · subst h; simp [upd]
    · simp [upd, h]
  have hsd : ∀ b', (bs' b').sdata = (w.banks b').sdata := by
    intro b'; rw [← hbs]; by_cases h : b' = b
    · subst h; simp [upd]
    · simp [upd, h]
  -- the arena that was changed
  let a2 : Arena := (findArena τ (w.banks b).arenas).take w.nextArr nc
  have ha2arr : a2.arr = some x := by simp only [a2, Arena.take]; exact harr
  have ha2len : a2.len = i + 1 := by simp only [a2, Arena.take, hidx]
  have ha2cap : a2.cap = ((findArena τ (w.banks b).arenas).grow w.nextArr nc).cap := by simp only [a2, Arena.take]
  have ha2typ : a2.typ = τ := by simp only [a2, take_typ, findArena_typ]
  have hmem : ∀ b' a, a ∈ (bs' b').arenas → (b' = b ∧ a = a2) ∨ (a ∈ (w.banks b').arenas ∧ (b' = b → a.typ ≠ τ)) := by
    intro b' a ha; rw [← hbs] at ha
    by_cases h : b' = b
    · subst h; simp only [upd, if_true] at ha
      rcases mem_updArena (hT.t7 b') ha with h1 | ⟨h1, h2⟩
      · left; exact ⟨rfl, h1⟩
      · right; exact ⟨h1, fun _ => h2⟩
    · simp only [upd, h, if_false] at ha; right; exact ⟨ha, fun hb => absurd hb h⟩
  have hlive : ∀ h, (bs' h.bank).epoch = h.epoch ↔ w.Live h := fun h => by simp [World.Live, hep]
  constructor
  · constructor
    · intro h hh
      rcases List.mem_cons.mp hh with rfl | hh
      · exact hb
      · exact hT.t0 h hh
    · intro h hh hl b' a ha hx
      rcases List.mem_cons.mp hh with rfl | hh
      · -- the new pointer
        rcases hmem b' a ha with ⟨rfl, rfl⟩ | ⟨ha0, hty⟩
        · exact ⟨rfl, by rw [ha2len]; exact Nat.lt_succ_self _⟩
        · have := howner b' a ha0 hx
          exact absurd this.2 (hty this.1)
      · have hl' := (hlive h).mp hl
        have hh0 : h ∈ w.issued := hh
        clear hh
        rcases hmem b' a ha with ⟨rfl, rfl⟩ | ⟨ha0, _⟩
        · have := hbelow h hh0 hl' (by rw [ha2arr] at hx; exact (Option.some.inj hx).symm)
          exact ⟨this.1, by rw [ha2len]; omega⟩
        · exact hT.t1 h hh0 hl' b' a ha0 hx
    · intro h hh
      rcases List.mem_cons.mp hh with rfl | hh
      · exact hfresh
      · have := hT.t2 h hh; show h.arr < nx; omega
    · intro b1 b2 a1 a2' y h1 h2 hy1 hy2
      rcases hmem b1 a1 h1 with ⟨rfl, rfl⟩ | ⟨h10, hty1⟩
      · rcases hmem b2 a2' h2 with ⟨rfl, rfl⟩ | ⟨h20, hty2⟩
        · exact ⟨rfl, rfl⟩
        · have hxy : x = y := Option.some.inj (ha2arr.symm.trans hy1)
          have := howner b2 a2' h20 (by rw [hxy]; exact hy2)
          exact absurd this.2 (hty2 this.1)
      · rcases hmem b2 a2' h2 with ⟨rfl, rfl⟩ | ⟨h20, hty2⟩
        · have hxy : x = y := Option.some.inj (ha2arr.symm.trans hy2)
          have := howner b1 a1 h10 (by rw [hxy]; exact hy1)
          exact absurd this.2 (hty1 this.1)
        · exact hT.t3 b1 b2 a1 a2' y h10 h20 hy1 hy2
    · intro b' a ha y hy
      rcases hmem b' a ha with ⟨rfl, rfl⟩ | ⟨ha0, _⟩
      · have hxy : x = y := Option.some.inj (ha2arr.symm.trans hy)
        show y < nx; omega
      · have := hT.t4 b' a ha0 y hy; show y < nx; omega
    · intro h hh
      rcases List.mem_cons.mp hh with rfl | hh
      · show (w.banks b).epoch ≤ (bs' b).epoch; rw [hep]; exact Nat.le_refl _
      · show h.epoch ≤ (bs' h.bank).epoch; rw [hep]; exact hT.t5 h hh
    · refine List.pairwise_cons.mpr ⟨?_, ?_⟩
      · intro h hh _ hl hc
        have := hbelow h hh ((hlive h).mp hl) hc.1.symm
        have h2 : i = h.idx := hc.2
        omega
      · refine List.Pairwise.imp_of_mem ?_ hT.t6
        intro h1 h2 _ _ hR l1 l2
        exact hR ((hlive h1).mp l1) ((hlive h2).mp l2)
    · intro b'
      show TypDistinct (bs' b').arenas
      rw [← hbs]
      by_cases h : b' = b
      · subst h; simp only [upd, if_true]
        exact updArena_distinct (fun a => take_typ a _ _) (hT.t7 b')
      · simp only [upd, h, if_false]; exact hT.t7 b'
    · intro b' a ha
      rcases hmem b' a ha with ⟨rfl, rfl⟩ | ⟨ha0, _⟩
      · rw [ha2len, ha2cap, ha2arr]; exact ⟨hspare, fun h => by cases h⟩
      · exact hT.t8 b' a ha0
  · exact hS.congr hsd hep rfl rfl rfl

/-! ## `ToString` -/

/-- empty string cut from a nil `sData` -/
theorem inv_toString_nil {w : World} (hinv : Inv w) (b st : Nat) (hb : b < w.nbanks) :
    Inv { w with sissued := ⟨b, (w.banks b).epoch, none, st, 0⟩ :: w.sissued } := by
  have hS := hinv.s
  refine ⟨hinv.t.congr (fun _ => rfl) (fun _ => rfl) rfl rfl rfl, ?_⟩
  constructor
  · intro s hs; rcases List.mem_cons.mp hs with rfl | hs
    · exact hb
    · exact hS.s0 s hs
  · intro s hs hl x hx; rcases List.mem_cons.mp hs with rfl | hs
    · cases hx
    · exact hS.s1 s hs hl x hx
  · intro s hs x hx; rcases List.mem_cons.mp hs with rfl | hs
    · cases hx
    · exact hS.s2 s hs x hx
  · exact hS.s3
  · exact hS.s4
  · intro s hs; rcases List.mem_cons.mp hs with rfl | hs
    · exact Nat.le_refl _
    · exact hS.s5 s hs
  · refine List.pairwise_cons.mpr ⟨?_, hS.s6⟩
    intro s _ _ _ x hx; cases hx
  · exact hS.s8

/-- common part of the in-place and the reallocating `append`: afterwards `sData` of bank `b` is `sd'`
(array `x`), the new string is `[len, len+n)` of `x`. -/
theorem inv_toString_some {w : World} (hinv : Inv w) (b n x nx : Nat) (sd' : SData) (m : Nat → Nat → Nat)
    (hb : b < w.nbanks)
    (harr : sd'.arr = some x) (hlen : sd'.len = (w.banks b).sdata.len + n) (hcap : sd'.len ≤ sd'.cap)
    (hnx : w.nextSArr ≤ nx) (hx : x < nx)
    (howner : ∀ b', (w.banks b').sdata.arr = some x → b' = b)
    (hbelow : ∀ s ∈ w.sissued, w.SLive s → s.arr = some x → s.bank = b ∧ s.start + s.len ≤ (w.banks b).sdata.len) :
    Inv { w with
          banks := upd w.banks b { w.banks b with sdata := sd' }
          nextSArr := nx
          smem := m
          sissued := ⟨b, (w.banks b).epoch, some x, (w.banks b).sdata.len, n⟩ :: w.sissued } := by
  have hS := hinv.s
  generalize hbs : upd w.banks b { w.banks b with sdata := sd' } = bs'
  have hep : ∀ b', (bs' b').epoch = (w.banks b').epoch := by
    intro b'; rw [← hbs]; by_cases h : b' = b
    · subst h; simp [upd]
    · simp [upd, h]
  have har : ∀ b', (bs' b').arenas = (w.banks b').arenas := by
    intro b'; rw [← hbs]; by_cases h : b' = b
    · subst h; simp [upd]
    · simp [upd, h]
  have hsame : (bs' b).sdata = sd' := by rw [← hbs]; simp [upd]
  have hot : ∀ b', b' ≠ b → (bs' b').sdata = (w.banks b').sdata := by
    intro b' h; rw [← hbs]; simp [upd, h]
  have hlive : ∀ s : SHandle, (bs' s.bank).epoch = s.epoch ↔ w.SLive s := fun s => by simp [World.SLive, hep]
  refine ⟨hinv.t.congr har hep rfl rfl rfl, ?_⟩
  constructor
  · intro s hs; rcases List.mem_cons.mp hs with rfl | hs
    · exact hb
    · exact hS.s0 s hs
  · intro s hs hl y hy b' hby
    rcases List.mem_cons.mp hs with rfl | hs0
    · have hxy : x = y := Option.some.inj hy
      by_cases h : b' = b
      · subst h
        show b' = b' ∧ _ ≤ (bs' b').sdata.len
        rw [hsame, hlen]; exact ⟨rfl, Nat.le_refl _⟩
      · have : (w.banks b').sdata.arr = some x := by
          have := hby; change (bs' b').sdata.arr = some y at this; rw [hot b' h] at this; rw [hxy]; exact this
        exact absurd (howner b' this) h
    · have hl' := (hlive s).mp hl
      by_cases h : b' = b
      · subst h
        have hby' : (bs' b').sdata.arr = some y := hby
        rw [hsame, harr] at hby'
        have hxy : x = y := Option.some.inj hby'
        have := hbelow s hs0 hl' (by rw [hxy]; exact hy)
        show s.bank = b' ∧ _ ≤ (bs' b').sdata.len
        rw [hsame, hlen]; exact ⟨this.1, by omega⟩
      · have hby' : (bs' b').sdata.arr = some y := hby
        rw [hot b' h] at hby'
        have := hS.s1 s hs0 hl' y hy b' hby'
        show s.bank = b' ∧ _ ≤ (bs' b').sdata.len
        rw [hot b' h]; exact this
  · intro s hs y hy
    rcases List.mem_cons.mp hs with rfl | hs0
    · have hxy : x = y := Option.some.inj hy
      show y < nx; omega
    · have := hS.s2 s hs0 y hy; show y < nx; omega
  · intro b1 b2 y h1 h2
    have h1' : (bs' b1).sdata.arr = some y := h1
    have h2' : (bs' b2).sdata.arr = some y := h2
    by_cases hb1 : b1 = b
    · by_cases hb2 : b2 = b
      · rw [hb1, hb2]
      · rw [hb1, hsame, harr] at h1'; rw [hot b2 hb2] at h2'
        have hxy : x = y := Option.some.inj h1'
        exact absurd (howner b2 (by rw [hxy]; exact h2')) hb2
    · by_cases hb2 : b2 = b
      · rw [hb2, hsame, harr] at h2'; rw [hot b1 hb1] at h1'
        have hxy : x = y := Option.some.inj h2'
        exact absurd (howner b1 (by rw [hxy]; exact h1')) hb1
      · rw [hot b1 hb1] at h1'; rw [hot b2 hb2] at h2'; exact hS.s3 b1 b2 y h1' h2'
  · intro b' y hy
    have hy' : (bs' b').sdata.arr = some y := hy
    by_cases h : b' = b
    · rw [h, hsame, harr] at hy'
      have hxy : x = y := Option.some.inj hy'
      show y < nx; omega
    · rw [hot b' h] at hy'
      have := hS.s4 b' y hy'; show y < nx; omega
  · intro s hs
    rcases List.mem_cons.mp hs with rfl | hs0
    · show (w.banks b).epoch ≤ (bs' b).epoch; rw [hep]; exact Nat.le_refl _
    · show s.epoch ≤ (bs' s.bank).epoch; rw [hep]; exact hS.s5 s hs0
  · refine List.pairwise_cons.mpr ⟨?_, ?_⟩
    · intro s hs _ hl y hy1 hy2
      have hxy : x = y := Option.some.inj hy1
      have := hbelow s hs ((hlive s).mp hl) (by rw [hxy]; exact hy2)
      right; exact this.2
    · refine List.Pairwise.imp_of_mem ?_ hS.s6
      intro s1 s2 _ _ hR l1 l2
      exact hR ((hlive s1).mp l1) ((hlive s2).mp l2)
  · intro b'
    show (bs' b').sdata.len ≤ (bs' b').sdata.cap ∧ ((bs' b').sdata.arr = none → (bs' b').sdata.cap = 0)
    by_cases h : b' = b
    · rw [h, hsame]; exact ⟨hcap, fun hn => by rw [harr] at hn; cases hn⟩
    · rw [hot b' h]; exact hS.s8 b'

end Avro.BankL
