import AvroModel.Lemmas.SchemaGen
/-!
Structural validity of generated schemas: unions (`UnionsOk`), the sub-schema relation `Sub`, and the
invariant `gen_unionsOk` behind C15 `no_nested_union` / `no_dup_branch`.
-/
namespace Avro

mutual
/-- every union anywhere in the schema is `[null, X]` with `X` neither a union nor null -/
def Schema.UnionsOk : Schema → Prop
  | .mk t none u =>
    (t = "union" → ∃ x, u = [.prim "null", x] ∧ x.type ≠ "union" ∧ x.type ≠ "null") ∧ Schema.UnionsOkList u
  | .mk t (some ob) u =>
    (t = "union" → ∃ x, u = [.prim "null", x] ∧ x.type ≠ "union" ∧ x.type ≠ "null") ∧ Schema.UnionsOkList u ∧
      ob.UnionsOk
def SchemaObject.UnionsOk : SchemaObject → Prop
  | .mk _ _ _ _ fs items values _ _ => SchemaField.UnionsOkList fs ∧ items.UnionsOk ∧ values.UnionsOk
def Schema.UnionsOkList : List Schema → Prop
  | [] => True
  | s :: r => s.UnionsOk ∧ Schema.UnionsOkList r
def SchemaField.UnionsOkList : List SchemaField → Prop
  | [] => True
  | .mk _ t :: r => t.UnionsOk ∧ SchemaField.UnionsOkList r
end

/-- `Sub x s`: the schema `x` occurs in `s` (as `s` itself, a union branch, a field type, the item
type of an array, the value type of a map, at any depth) -/
inductive Sub : Schema → Schema → Prop
  | refl (s : Schema) : Sub s s
  | branch {x b : Schema} {t : String} {o : Option SchemaObject} {u : List Schema} :
      b ∈ u → Sub x b → Sub x (.mk t o u)
  | field {x : Schema} {f : SchemaField} {t : String} {ob : SchemaObject} {u : List Schema} :
      f ∈ ob.fields → Sub x f.type → Sub x (.mk t (some ob) u)
  | items {x : Schema} {t : String} {ob : SchemaObject} {u : List Schema} :
      Sub x ob.items → Sub x (.mk t (some ob) u)
  | values {x : Schema} {t : String} {ob : SchemaObject} {u : List Schema} :
      Sub x ob.values → Sub x (.mk t (some ob) u)

theorem unionsOkList_mem {u : List Schema} (h : Schema.UnionsOkList u) {b : Schema} (hb : b ∈ u) : b.UnionsOk := by
  induction u with
  | nil => cases hb
  | cons a r ih =>
    simp only [Schema.UnionsOkList] at h
    cases hb with
    | head => exact h.1
    | tail _ h' => exact ih h.2 h'

theorem fieldsOkList_mem {fs : List SchemaField} (h : SchemaField.UnionsOkList fs) {f : SchemaField} (hf : f ∈ fs) :
    f.type.UnionsOk := by
  induction fs with
  | nil => cases hf
  | cons a r ih =>
    obtain ⟨n, t⟩ := a
    simp only [SchemaField.UnionsOkList] at h
    cases hf with
    | head => exact h.1
    | tail _ h' => exact ih h.2 h'

theorem unionsOk_branches {t : String} {o : Option SchemaObject} {u : List Schema} (h : (Schema.mk t o u).UnionsOk) :
    Schema.UnionsOkList u := by
  cases o with
  | none => simp only [Schema.UnionsOk] at h; exact h.2
  | some ob => simp only [Schema.UnionsOk] at h; exact h.2.1

theorem unionsOk_top {t : String} {o : Option SchemaObject} {u : List Schema} (h : (Schema.mk t o u).UnionsOk) :
    t = "union" → ∃ x, u = [.prim "null", x] ∧ x.type ≠ "union" ∧ x.type ≠ "null" := by
  cases o with
  | none => simp only [Schema.UnionsOk] at h; exact h.1
  | some ob => simp only [Schema.UnionsOk] at h; exact h.1

theorem unionsOk_object {t : String} {ob : SchemaObject} {u : List Schema} (h : (Schema.mk t (some ob) u).UnionsOk) :
    SchemaField.UnionsOkList ob.fields ∧ ob.items.UnionsOk ∧ ob.values.UnionsOk := by
  obtain ⟨a, b, c, d, fs, i, v, e, g⟩ := ob
  simp only [Schema.UnionsOk, SchemaObject.UnionsOk] at h
  exact h.2.2

theorem unionsOk_sub {x s : Schema} (hs : s.UnionsOk) (h : Sub x s) : x.UnionsOk := by
  induction h with
  | refl => exact hs
  | branch hb _ ih => exact ih (unionsOkList_mem (unionsOk_branches hs) hb)
  | field hf _ ih => exact ih (fieldsOkList_mem (unionsOk_object hs).1 hf)
  | items _ ih => exact ih (unionsOk_object hs).2.1
  | values _ ih => exact ih (unionsOk_object hs).2.2

theorem unionsOk_prim (t : String) (h : t ≠ "union") : (Schema.prim t).UnionsOk := by
  simp [Schema.prim, Schema.UnionsOk, Schema.UnionsOkList, h]

theorem unionsOk_zero : Schema.zero.UnionsOk := by
  simp [Schema.zero, Schema.UnionsOk, Schema.UnionsOkList]

theorem unionsOk_nullable (x : Schema) (h : x.UnionsOk) (h1 : x.type ≠ "union") (h2 : x.type ≠ "null") :
    (nullableSchema x).UnionsOk := by
  simp only [nullableSchema, Schema.UnionsOk, Schema.UnionsOkList]
  exact ⟨fun _ => ⟨x, rfl, h1, h2⟩, unionsOk_prim "null" (by decide), h, trivial⟩

theorem unionsOk_array (s : Schema) (h : s.UnionsOk) : (arraySchema s).UnionsOk := by
  simp only [arraySchema, Schema.UnionsOk, SchemaObject.UnionsOk, Schema.UnionsOkList, SchemaField.UnionsOkList]
  exact ⟨fun h => absurd h (by decide), trivial, trivial, h, unionsOk_zero⟩

theorem unionsOk_map (s : Schema) (h : s.UnionsOk) : (mapSchema s).UnionsOk := by
  simp only [mapSchema, Schema.UnionsOk, SchemaObject.UnionsOk, Schema.UnionsOkList, SchemaField.UnionsOkList]
  exact ⟨fun h => absurd h (by decide), trivial, trivial, unionsOk_zero, h⟩

theorem unionsOk_record (name pkg : String) (fs : List SchemaField) (h : SchemaField.UnionsOkList fs) :
    (recordSchema name pkg fs).UnionsOk := by
  simp only [recordSchema, Schema.UnionsOk, SchemaObject.UnionsOk, Schema.UnionsOkList]
  exact ⟨fun h => absurd h (by decide), trivial, h, unionsOk_zero, unionsOk_zero⟩

theorem nullable_type (x : Schema) : (nullableSchema x).type = "union" := rfl

theorem unionsOk_ptrWrap (u : Schema) (h : u.UnionsOk) (h2 : u.type ≠ "null") :
    (ptrWrap u).UnionsOk ∧ (ptrWrap u).type ≠ "null" := by
  unfold ptrWrap
  split
  · exact ⟨h, h2⟩
  · rename_i hc
    simp only [Bool.or_eq_true, beq_iff_eq, not_or] at hc
    exact ⟨unionsOk_nullable u h hc.1.1 h2, by simp [nullable_type]⟩

theorem unionsOk_omitWrap (oe : Bool) (s : Schema) (h : s.UnionsOk) (h2 : s.type ≠ "null") :
    (omitWrap oe s).UnionsOk := by
  unfold omitWrap
  split
  · rename_i hc
    simp only [Bool.and_eq_true, bne_iff_ne, ne_eq] at hc
    exact unionsOk_nullable s h hc.2 h2
  · exact h

/-- the registered schemas themselves are flat (the user's obligation when calling `RegisterSchema`) -/
def RegSchemasFlat (sreg : SReg) : Prop :=
  ∀ id s, assocLookup id sreg.custom = some s → s.UnionsOk ∧ s.type ≠ "null"

theorem regFlat_lookup {sreg : SReg} (hreg : RegSchemasFlat sreg) {t : GoType} {s : Schema}
    (h : sregLookup sreg t = some s) : s.UnionsOk ∧ s.type ≠ "null" := by
  cases t <;> simp only [sregLookup] at h <;> try (cases h; done)
  · cases h
    exact ⟨unionsOk_nullable _ (unionsOk_prim _ (by decide)) (by decide) (by decide), by decide⟩
  · cases h
    rename_i k
    cases k <;> exact ⟨unionsOk_nullable _ (unionsOk_prim _ (by decide)) (by decide) (by decide), by decide⟩
  · exact hreg _ _ h

theorem fieldsOf_unionsOk {rec : GoType → Gen Schema} (hrec : ∀ t s, rec t = .ok s → s.UnionsOk ∧ s.type ≠ "null")
    {fs : List GoField} {r : List SchemaField} (h : FieldsOf rec fs r) : SchemaField.UnionsOkList r := by
  induction h with
  | nil => trivial
  | skip _ _ ih => exact ih
  | keep _ hr _ ih =>
    simp only [SchemaField.UnionsOkList]
    exact ⟨unionsOk_omitWrap _ _ (hrec _ _ hr).1 (hrec _ _ hr).2, ih⟩

theorem genKind_unionsOk (env : TEnv) (rec : GoType → Gen Schema)
    (hrec : ∀ t s, rec t = .ok s → s.UnionsOk ∧ s.type ≠ "null") (k : GoType) (s : Schema)
    (h : genKind env rec k = .ok s) : s.UnionsOk ∧ s.type ≠ "null" := by
  cases k <;> simp only [genKind] at h <;> try (cases h; done)
  case bool => cases h; exact ⟨unionsOk_prim _ (by decide), by decide⟩
  case int => cases h; exact ⟨unionsOk_prim _ (by decide), by decide⟩
  case float32 => cases h; exact ⟨unionsOk_prim _ (by decide), by decide⟩
  case float64 => cases h; exact ⟨unionsOk_prim _ (by decide), by decide⟩
  case string => cases h; exact ⟨unionsOk_prim _ (by decide), by decide⟩
  case slice e =>
    split at h
    · cases h; exact ⟨unionsOk_prim _ (by decide), by decide⟩
    · cases h1 : rec e with
      | ok s' => simp only [h1] at h; cases h; exact ⟨unionsOk_array _ (hrec _ _ h1).1, (by show "array" ≠ "null"; decide)⟩
      | err => simp [h1] at h
      | overflow => simp [h1] at h
  case array n e =>
    split at h
    · cases h; exact ⟨unionsOk_prim _ (by decide), by decide⟩
    · cases h1 : rec e with
      | ok s' => simp only [h1] at h; cases h; exact ⟨unionsOk_array _ (hrec _ _ h1).1, (by show "array" ≠ "null"; decide)⟩
      | err => simp [h1] at h
      | overflow => simp [h1] at h
  case map k v =>
    split at h
    · cases h1 : rec v with
      | ok s' => simp only [h1] at h; cases h; exact ⟨unionsOk_map _ (hrec _ _ h1).1, (by show "map" ≠ "null"; decide)⟩
      | err => simp [h1] at h
      | overflow => simp [h1] at h
    · cases h
  case ptr e =>
    cases h1 : rec e with
    | ok s' => simp only [h1] at h; cases h; exact unionsOk_ptrWrap _ (hrec _ _ h1).1 (hrec _ _ h1).2
    | err => simp [h1] at h
    | overflow => simp [h1] at h
  case struct name pkg fs =>
    cases h1 : genFields rec fs with
    | ok r =>
      simp only [h1] at h; cases h
      exact ⟨unionsOk_record _ _ _ (fieldsOf_unionsOk hrec ((genFields_ok_iff _ _ _).mp h1)), (by show "record" ≠ "null"; decide)⟩
    | err => simp [h1] at h
    | overflow => simp [h1] at h

/-- invariant: every generated schema has only flat `[null, X]` unions and is not the null schema -/
theorem gen_unionsOk (sreg : SReg) (env : TEnv) (hreg : RegSchemasFlat sreg) :
    ∀ fuel ps t s, schemaForType sreg env fuel ps t = .ok s → s.UnionsOk ∧ s.type ≠ "null" := by
  intro fuel
  induction fuel with
  | zero => intro ps t s h; simp [schemaForType] at h
  | succ m ih =>
    intro ps t s h
    rw [schemaForType_succ] at h
    by_cases hr : ∃ n, t = .ref n
    · obtain ⟨n, rfl⟩ := hr
      simp only [genStep] at h
      cases he : env n with
      | none => simp [he] at h
      | some t' => simp only [he] at h; exact ih ps t' s h
    · rw [genStep_nonref _ _ _ _ _ (fun n hn => hr ⟨n, hn⟩)] at h
      unfold genResolved at h
      cases hl : sregLookup sreg t with
      | some s' => simp only [hl] at h; cases h; exact regFlat_lookup hreg hl
      | none =>
        simp only [hl] at h
        split at h
        · split at h
          · cases h
          · exact genKind_unionsOk env _ (fun t' s' h' => ih _ t' s' h') _ _ h
        · exact genKind_unionsOk env _ (fun t' s' h' => ih _ t' s' h') _ _ h

/-! ### named types are defined once -/

mutual
/-- the record definitions with a name, as (namespace, name), in document order -/
def Schema.recordNames : Schema → List (String × String)
  | .mk _ none u => Schema.recordNamesList u
  | .mk t (some ob) u =>
    (if t == "record" && ob.name != "" then [(ob.nspace, ob.name)] else []) ++ ob.recordNames ++
      Schema.recordNamesList u
def SchemaObject.recordNames : SchemaObject → List (String × String)
  | .mk _ _ _ _ fs items values _ _ => SchemaField.recordNamesList fs ++ items.recordNames ++ values.recordNames
def Schema.recordNamesList : List Schema → List (String × String)
  | [] => []
  | s :: r => s.recordNames ++ Schema.recordNamesList r
def SchemaField.recordNamesList : List SchemaField → List (String × String)
  | [] => []
  | .mk _ t :: r => t.recordNames ++ SchemaField.recordNamesList r
end

mutual
/-- the named struct types of a type tree, as (namespace, name), in declaration order -/
def GoType.structNames : GoType → List (String × String)
  | .struct name pkg fs => (if name != "" then [(namespaceOf pkg, name)] else []) ++ GoField.structNamesList fs
  | .slice e | .array _ e | .ptr e | .custom _ e => e.structNames
  | .map _ v => v.structNames
  | _ => []
def GoField.structNamesList : List GoField → List (String × String)
  | [] => []
  | .mk _ _ _ _ t :: fs => t.structNames ++ GoField.structNamesList fs
end

theorem recordNames_prim (t : String) : (Schema.prim t).recordNames = [] := by
  simp [Schema.prim, Schema.recordNames, Schema.recordNamesList]

theorem recordNames_zero : Schema.zero.recordNames = [] := by
  simp [Schema.zero, Schema.recordNames, Schema.recordNamesList]

theorem recordNames_nullable (x : Schema) : (nullableSchema x).recordNames = x.recordNames := by
  simp [nullableSchema, Schema.recordNames, Schema.recordNamesList, recordNames_prim]

theorem recordNames_ptrWrap (u : Schema) : (ptrWrap u).recordNames = u.recordNames := by
  unfold ptrWrap; split <;> simp [recordNames_nullable]

theorem recordNames_omitWrap (oe : Bool) (u : Schema) : (omitWrap oe u).recordNames = u.recordNames := by
  unfold omitWrap; split <;> simp [recordNames_nullable]

theorem recordNames_array (s : Schema) : (arraySchema s).recordNames = s.recordNames := by
  simp [arraySchema, Schema.recordNames, SchemaObject.recordNames, Schema.recordNamesList,
    SchemaField.recordNamesList, recordNames_zero, SchemaObject.name]

theorem recordNames_map (s : Schema) : (mapSchema s).recordNames = s.recordNames := by
  simp [mapSchema, Schema.recordNames, SchemaObject.recordNames, Schema.recordNamesList,
    SchemaField.recordNamesList, recordNames_zero, SchemaObject.name]

theorem recordNames_record (name pkg : String) (fs : List SchemaField) :
    (recordSchema name pkg fs).recordNames =
      (if name != "" then [(namespaceOf pkg, name)] else []) ++ SchemaField.recordNamesList fs := by
  simp [recordSchema, Schema.recordNames, SchemaObject.recordNames, Schema.recordNamesList, recordNames_zero,
    SchemaObject.name, SchemaObject.nspace]

/-- registered schemas that define no named record (true of the library's own registrations) -/
def RegSchemasNameless (sreg : SReg) : Prop :=
  ∀ id s, assocLookup id sreg.custom = some s → s.recordNames = []

theorem regNameless_lookup {sreg : SReg} (hreg : RegSchemasNameless sreg) {t : GoType} {s : Schema}
    (h : sregLookup sreg t = some s) : s.recordNames = [] := by
  cases t <;> simp only [sregLookup] at h <;> try (cases h; done)
  · cases h; simp [recordNames_nullable, recordNames_prim]
  · cases h
    rename_i k
    cases k <;> simp [nullTSchema, recordNames_nullable, recordNames_prim]
  · exact hreg _ _ h

theorem fieldsOf_recordNames {rec : GoType → Gen Schema}
    (hrec : ∀ t s, rec t = .ok s → s.recordNames.Sublist t.structNames)
    {fs : List GoField} {r : List SchemaField} (h : FieldsOf rec fs r) :
    (SchemaField.recordNamesList r).Sublist (GoField.structNamesList fs) := by
  induction h with
  | nil => exact List.Sublist.refl _
  | @skip f fs r _ _ ih =>
    obtain ⟨n, e, j, b, t⟩ := f
    simp only [GoField.structNamesList]
    exact List.Sublist.trans ih (List.sublist_append_right _ _)
  | @keep f fs r s _ hr _ ih =>
    obtain ⟨n, e, j, b, t⟩ := f
    simp only [GoField.structNamesList, SchemaField.recordNamesList, recordNames_omitWrap]
    exact List.Sublist.append (hrec _ _ hr) ih

theorem strip_structNames (t : GoType) : t.strip.structNames = t.structNames := by
  cases t <;> simp [GoType.strip, GoType.structNames]

theorem genKind_recordNames (rec : GoType → Gen Schema)
    (hrec : ∀ t s, rec t = .ok s → s.recordNames.Sublist t.structNames) (k : GoType) (s : Schema)
    (h : genKind TEnv.empty rec k = .ok s) : s.recordNames.Sublist k.structNames := by
  cases k <;> simp only [genKind] at h <;> try (cases h; done)
  case bool => cases h; simp [recordNames_prim]
  case int => cases h; simp [recordNames_prim]
  case float32 => cases h; simp [recordNames_prim]
  case float64 => cases h; simp [recordNames_prim]
  case string => cases h; simp [recordNames_prim]
  case slice e =>
    split at h
    · cases h; simp [recordNames_prim]
    · cases h1 : rec e with
      | ok s' => simp only [h1] at h; cases h; simpa [recordNames_array, GoType.structNames] using hrec _ _ h1
      | err => simp [h1] at h
      | overflow => simp [h1] at h
  case array n e =>
    split at h
    · cases h; simp [recordNames_prim]
    · cases h1 : rec e with
      | ok s' => simp only [h1] at h; cases h; simpa [recordNames_array, GoType.structNames] using hrec _ _ h1
      | err => simp [h1] at h
      | overflow => simp [h1] at h
  case map k v =>
    split at h
    · cases h1 : rec v with
      | ok s' => simp only [h1] at h; cases h; simpa [recordNames_map, GoType.structNames] using hrec _ _ h1
      | err => simp [h1] at h
      | overflow => simp [h1] at h
    · cases h
  case ptr e =>
    cases h1 : rec e with
    | ok s' => simp only [h1] at h; cases h; simpa [recordNames_ptrWrap, GoType.structNames] using hrec _ _ h1
    | err => simp [h1] at h
    | overflow => simp [h1] at h
  case struct name pkg fs =>
    cases h1 : genFields rec fs with
    | ok r =>
      simp only [h1] at h; cases h
      rw [recordNames_record]
      simp only [GoType.structNames]
      exact List.Sublist.append (List.Sublist.refl _) (fieldsOf_recordNames hrec ((genFields_ok_iff _ _ _).mp h1))
    | err => simp [h1] at h
    | overflow => simp [h1] at h

/-- the records a generated schema defines are, in order, named struct types of the type tree -/
theorem gen_recordNames (sreg : SReg) (hreg : RegSchemasNameless sreg) :
    ∀ fuel ps t s, schemaForType sreg TEnv.empty fuel ps t = .ok s → s.recordNames.Sublist t.structNames := by
  intro fuel
  induction fuel with
  | zero => intro ps t s h; simp [schemaForType] at h
  | succ m ih =>
    intro ps t s h
    rw [schemaForType_succ] at h
    by_cases hr : ∃ n, t = .ref n
    · obtain ⟨n, rfl⟩ := hr
      simp [genStep, TEnv.empty] at h
    · rw [genStep_nonref _ _ _ _ _ (fun n hn => hr ⟨n, hn⟩)] at h
      unfold genResolved at h
      cases hl : sregLookup sreg t with
      | some s' => simp only [hl] at h; cases h; rw [regNameless_lookup hreg hl]; exact List.nil_sublist _
      | none =>
        simp only [hl] at h
        rw [← strip_structNames]
        split at h
        · split at h
          · cases h
          · exact genKind_recordNames _ (fun t' s' h' => ih _ t' s' h') _ _ h
        · exact genKind_recordNames _ (fun t' s' h' => ih _ t' s' h') _ _ h

/-! ### record field names are unique -/

mutual
/-- every record anywhere in the schema has pairwise distinct field names -/
def Schema.FieldsUnique : Schema → Prop
  | .mk _ none u => Schema.FieldsUniqueList u
  | .mk t (some ob) u =>
    (t = "record" → (ob.fields.map SchemaField.name).Nodup) ∧ ob.FieldsUnique ∧ Schema.FieldsUniqueList u
def SchemaObject.FieldsUnique : SchemaObject → Prop
  | .mk _ _ _ _ fs items values _ _ => SchemaField.FieldsUniqueList fs ∧ items.FieldsUnique ∧ values.FieldsUnique
def Schema.FieldsUniqueList : List Schema → Prop
  | [] => True
  | s :: r => s.FieldsUnique ∧ Schema.FieldsUniqueList r
def SchemaField.FieldsUniqueList : List SchemaField → Prop
  | [] => True
  | .mk _ t :: r => t.FieldsUnique ∧ SchemaField.FieldsUniqueList r
end

mutual
/-- in every struct of the type tree the JSON names of the included fields are pairwise distinct -/
def GoType.JsonNamesDistinct : GoType → Prop
  | .struct _ _ fs => ((fs.map nameForField).filter (· != "-")).Nodup ∧ GoField.JsonNamesDistinctList fs
  | .slice e | .array _ e | .ptr e | .custom _ e => e.JsonNamesDistinct
  | .map _ v => v.JsonNamesDistinct
  | _ => True
def GoField.JsonNamesDistinctList : List GoField → Prop
  | [] => True
  | .mk _ _ _ _ t :: fs => t.JsonNamesDistinct ∧ GoField.JsonNamesDistinctList fs
end

theorem fieldsUnique_prim (t : String) : (Schema.prim t).FieldsUnique := by
  simp [Schema.prim, Schema.FieldsUnique, Schema.FieldsUniqueList]

theorem fieldsUnique_zero : Schema.zero.FieldsUnique := by
  simp [Schema.zero, Schema.FieldsUnique, Schema.FieldsUniqueList]

theorem fieldsUnique_nullable (x : Schema) (h : x.FieldsUnique) : (nullableSchema x).FieldsUnique := by
  simp only [nullableSchema, Schema.FieldsUnique, Schema.FieldsUniqueList]
  exact ⟨fieldsUnique_prim _, h, trivial⟩

theorem fieldsUnique_ptrWrap (u : Schema) (h : u.FieldsUnique) : (ptrWrap u).FieldsUnique := by
  unfold ptrWrap; split
  · exact h
  · exact fieldsUnique_nullable u h

theorem fieldsUnique_omitWrap (oe : Bool) (u : Schema) (h : u.FieldsUnique) : (omitWrap oe u).FieldsUnique := by
  unfold omitWrap; split
  · exact fieldsUnique_nullable u h
  · exact h

theorem fieldsUnique_array (s : Schema) (h : s.FieldsUnique) : (arraySchema s).FieldsUnique := by
  simp only [arraySchema, Schema.FieldsUnique, SchemaObject.FieldsUnique, Schema.FieldsUniqueList,
    SchemaField.FieldsUniqueList]
  exact ⟨fun h => absurd h (by decide), ⟨trivial, h, fieldsUnique_zero⟩, trivial⟩

theorem fieldsUnique_map (s : Schema) (h : s.FieldsUnique) : (mapSchema s).FieldsUnique := by
  simp only [mapSchema, Schema.FieldsUnique, SchemaObject.FieldsUnique, Schema.FieldsUniqueList,
    SchemaField.FieldsUniqueList]
  exact ⟨fun h => absurd h (by decide), ⟨trivial, fieldsUnique_zero, h⟩, trivial⟩

theorem fieldsUnique_record (name pkg : String) (fs : List SchemaField) (hn : (fs.map SchemaField.name).Nodup)
    (h : SchemaField.FieldsUniqueList fs) : (recordSchema name pkg fs).FieldsUnique := by
  simp only [recordSchema, Schema.FieldsUnique, SchemaObject.FieldsUnique, Schema.FieldsUniqueList]
  exact ⟨fun _ => hn, ⟨h, fieldsUnique_zero, fieldsUnique_zero⟩, trivial⟩

/-- the registered schemas themselves have unique field names -/
def RegSchemasFieldsUnique (sreg : SReg) : Prop :=
  ∀ id s, assocLookup id sreg.custom = some s → s.FieldsUnique

theorem regFieldsUnique_lookup {sreg : SReg} (hreg : RegSchemasFieldsUnique sreg) {t : GoType} {s : Schema}
    (h : sregLookup sreg t = some s) : s.FieldsUnique := by
  cases t <;> simp only [sregLookup] at h <;> try (cases h; done)
  · cases h; exact fieldsUnique_nullable _ (fieldsUnique_prim _)
  · cases h
    rename_i k
    cases k <;> exact fieldsUnique_nullable _ (fieldsUnique_prim _)
  · exact hreg _ _ h

theorem fieldsOf_names {rec : GoType → Gen Schema} {fs : List GoField} {r : List SchemaField} (h : FieldsOf rec fs r) :
    r.map SchemaField.name = (fs.map nameForField).filter (· != "-") := by
  induction h with
  | nil => rfl
  | skip hn _ ih => simp [hn, ih]
  | keep hn _ _ ih => simp [hn, ih, SchemaField.name]

theorem fieldsOf_fieldsUnique {rec : GoType → Gen Schema}
    (hrec : ∀ t s, t.JsonNamesDistinct → rec t = .ok s → s.FieldsUnique)
    {fs : List GoField} {r : List SchemaField} (h : FieldsOf rec fs r) (hd : GoField.JsonNamesDistinctList fs) :
    SchemaField.FieldsUniqueList r := by
  induction h with
  | nil => trivial
  | @skip f fs r _ _ ih =>
    obtain ⟨n, e, j, b, t⟩ := f
    simp only [GoField.JsonNamesDistinctList] at hd
    exact ih hd.2
  | @keep f fs r s _ hr _ ih =>
    obtain ⟨n, e, j, b, t⟩ := f
    simp only [GoField.JsonNamesDistinctList] at hd
    simp only [SchemaField.FieldsUniqueList]
    exact ⟨fieldsUnique_omitWrap _ _ (hrec _ _ hd.1 hr), ih hd.2⟩

theorem strip_jsonNamesDistinct (t : GoType) (h : t.JsonNamesDistinct) : t.strip.JsonNamesDistinct := by
  cases t <;> simp_all [GoType.strip, GoType.JsonNamesDistinct]

theorem genKind_fieldsUnique (rec : GoType → Gen Schema)
    (hrec : ∀ t s, t.JsonNamesDistinct → rec t = .ok s → s.FieldsUnique) (k : GoType) (hk : k.JsonNamesDistinct)
    (s : Schema) (h : genKind TEnv.empty rec k = .ok s) : s.FieldsUnique := by
  cases k <;> simp only [genKind] at h <;> try (cases h; done)
  case bool => cases h; exact fieldsUnique_prim _
  case int => cases h; exact fieldsUnique_prim _
  case float32 => cases h; exact fieldsUnique_prim _
  case float64 => cases h; exact fieldsUnique_prim _
  case string => cases h; exact fieldsUnique_prim _
  case slice e =>
    simp only [GoType.JsonNamesDistinct] at hk
    split at h
    · cases h; exact fieldsUnique_prim _
    · cases h1 : rec e with
      | ok s' => simp only [h1] at h; cases h; exact fieldsUnique_array _ (hrec _ _ hk h1)
      | err => simp [h1] at h
      | overflow => simp [h1] at h
  case array n e =>
    simp only [GoType.JsonNamesDistinct] at hk
    split at h
    · cases h; exact fieldsUnique_prim _
    · cases h1 : rec e with
      | ok s' => simp only [h1] at h; cases h; exact fieldsUnique_array _ (hrec _ _ hk h1)
      | err => simp [h1] at h
      | overflow => simp [h1] at h
  case map k v =>
    simp only [GoType.JsonNamesDistinct] at hk
    split at h
    · cases h1 : rec v with
      | ok s' => simp only [h1] at h; cases h; exact fieldsUnique_map _ (hrec _ _ hk h1)
      | err => simp [h1] at h
      | overflow => simp [h1] at h
    · cases h
  case ptr e =>
    simp only [GoType.JsonNamesDistinct] at hk
    cases h1 : rec e with
    | ok s' => simp only [h1] at h; cases h; exact fieldsUnique_ptrWrap _ (hrec _ _ hk h1)
    | err => simp [h1] at h
    | overflow => simp [h1] at h
  case struct name pkg fs =>
    simp only [GoType.JsonNamesDistinct] at hk
    cases h1 : genFields rec fs with
    | ok r =>
      simp only [h1] at h; cases h
      have hf := (genFields_ok_iff _ _ _).mp h1
      exact fieldsUnique_record _ _ _ (by rw [fieldsOf_names hf]; exact hk.1) (fieldsOf_fieldsUnique hrec hf hk.2)
    | err => simp [h1] at h
    | overflow => simp [h1] at h

/-- distinct JSON names in every struct give unique field names in every record -/
theorem gen_fieldsUnique (sreg : SReg) (hreg : RegSchemasFieldsUnique sreg) :
    ∀ fuel ps t s, t.JsonNamesDistinct → schemaForType sreg TEnv.empty fuel ps t = .ok s → s.FieldsUnique := by
  intro fuel
  induction fuel with
  | zero => intro ps t s _ h; simp [schemaForType] at h
  | succ m ih =>
    intro ps t s hd h
    rw [schemaForType_succ] at h
    by_cases hr : ∃ n, t = .ref n
    · obtain ⟨n, rfl⟩ := hr
      simp [genStep, TEnv.empty] at h
    · rw [genStep_nonref _ _ _ _ _ (fun n hn => hr ⟨n, hn⟩)] at h
      unfold genResolved at h
      cases hl : sregLookup sreg t with
      | some s' => simp only [hl] at h; cases h; exact regFieldsUnique_lookup hreg hl
      | none =>
        simp only [hl] at h
        have hd' := strip_jsonNamesDistinct t hd
        split at h
        · split at h
          · cases h
          · exact genKind_fieldsUnique _ (fun t' s' hd'' h' => ih _ t' s' hd'' h') _ hd' _ h
        · exact genKind_fieldsUnique _ (fun t' s' hd'' h' => ih _ t' s' hd'' h') _ hd' _ h

end Avro
