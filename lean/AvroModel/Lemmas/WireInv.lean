import AvroModel.Wire
/-! Inversion lemmas for the specification encoder: what `encode p s v = some bs` says for each schema. -/
namespace Avro

theorem encode_null_inv {p v bs} (h : encode p .null v = some bs) : v = .null ∧ bs = [] := by
  cases v <;> simp [encode] at h; exact ⟨rfl, h⟩

theorem encode_boolean_inv {p v bs} (h : encode p .boolean v = some bs) : ∃ b, v = .bool b ∧ bs = writeBool b := by
  cases v <;> simp [encode] at h; exact ⟨_, rfl, h.symm⟩

theorem encode_int_inv {p v bs} (h : encode p .int v = some bs) : ∃ i, v = .int i ∧ inRange 32 i ∧ bs = writeVarint i := by
  cases v <;> simp [encode] at h; exact ⟨_, rfl, h.1, h.2.symm⟩

theorem encode_long_inv {p v bs} (h : encode p .long v = some bs) : ∃ i, v = .int i ∧ inRange 64 i ∧ bs = writeVarint i := by
  cases v <;> simp [encode] at h; exact ⟨_, rfl, h.1, h.2.symm⟩

theorem encode_float_inv {p v bs} (h : encode p .float v = some bs) : ∃ b, v = .float b ∧ b < 2 ^ 32 ∧ bs = putLE 4 b := by
  cases v <;> simp [encode] at h; exact ⟨_, rfl, h.1, h.2.symm⟩

theorem encode_double_inv {p v bs} (h : encode p .double v = some bs) : ∃ b, v = .double b ∧ b < 2 ^ 64 ∧ bs = putLE 8 b := by
  cases v <;> simp [encode] at h; exact ⟨_, rfl, h.1, h.2.symm⟩

theorem encode_bytes_inv {p v bs} (h : encode p .bytes v = some bs) : ∃ b, v = .bytes b ∧ b.length < 2 ^ 63 ∧ bs = encBytes b := by
  cases v <;> simp [encode] at h; exact ⟨_, rfl, h.1, h.2.symm⟩

theorem encode_string_inv {p v bs} (h : encode p .string v = some bs) : ∃ b, v = .bytes b ∧ b.length < 2 ^ 63 ∧ bs = encBytes b := by
  cases v <;> simp [encode] at h; exact ⟨_, rfl, h.1, h.2.symm⟩

theorem encode_fixed_inv {p n v bs} (h : encode p (.fixed n) v = some bs) : v = .bytes bs ∧ bs.length = n := by
  cases v <;> simp [encode] at h; obtain ⟨h1, h2⟩ := h; subst h2; exact ⟨rfl, h1⟩

theorem encode_record_inv {p ns fs v bs} (h : encode p (.record ns fs) v = some bs) :
    ∃ bl subs vs, p = .node bl subs ∧ v = .record vs ∧ encodeFields subs fs vs = some bs := by
  cases v <;> cases p <;> simp [encode] at h
  exact ⟨_, _, _, rfl, rfl, h⟩

theorem encode_array_inv {p items v bs} (h : encode p (.array items) v = some bs) :
    ∃ bl subs vs encs, p = .node bl subs ∧ v = .array vs ∧ encodeItems subs items vs = some encs ∧
      encBlocks bl encs = some bs := by
  cases v <;> cases p <;> simp only [encode] at h <;> try (cases h; done)
  rename_i vs bl subs
  split at h
  · cases h
  · rename_i encs he; exact ⟨_, _, _, encs, rfl, rfl, he, h⟩

theorem encode_map_inv {p values v bs} (h : encode p (.map values) v = some bs) :
    ∃ bl subs ks vs encs, p = .node bl subs ∧ v = .map ks vs ∧ ks.length = vs.length ∧
      (∀ k ∈ ks, k.length < 2 ^ 63) ∧ encodeItems subs values vs = some encs ∧
      encBlocks bl (List.zipWith (fun k e => encBytes k ++ e) ks encs) = some bs := by
  cases v <;> cases p <;> simp only [encode] at h <;> try (cases h; done)
  rename_i ks vs bl subs
  split at h
  · cases h
  · rename_i hg
    split at h
    · cases h
    · rename_i encs he
      have hg' : ks.length = vs.length ∧ ks.all (fun k => decide (k.length < 2 ^ 63)) = true := by
        constructor
        · by_cases hl : ks.length = vs.length
          · exact hl
          · exact absurd (Or.inl hl) hg
        · by_cases ha : ks.all (fun k => decide (k.length < 2 ^ 63)) = true
          · exact ha
          · exact absurd (Or.inr ha) hg
      refine ⟨_, _, _, _, encs, rfl, rfl, hg'.1, ?_, he, h⟩
      intro k hk
      have := List.all_eq_true.mp hg'.2 k hk
      simpa using this

theorem encode_union_inv {p branches v bs} (h : encode p (.union branches) v = some bs) :
    ∃ bl idx v' b p' e, p = .node bl [p'] ∧ v = .union idx v' ∧ branches[idx]? = some b ∧
      encode p' b v' = some e ∧ idx < 2 ^ 63 ∧ bs = writeVarint idx ++ e := by
  cases v <;> cases p <;> (try (simp [encode] at h; done))
  rename_i idx v' bl subs
  cases subs with
  | nil => simp [encode] at h
  | cons p' ps =>
    cases ps with
    | cons _ _ => simp [encode] at h
    | nil =>
      cases hb : branches[idx]? with
      | none => simp [encode, hb] at h
      | some b =>
        cases he : encode p' b v' with
        | none => simp [encode, hb, he] at h
        | some e =>
          simp [encode, hb, he] at h
          exact ⟨bl, idx, v', b, p', e, rfl, rfl, hb, he, h.1, h.2.symm⟩

theorem encodeFields_nil_inv {ps vs bs} (h : encodeFields ps [] vs = some bs) : ps = [] ∧ vs = [] ∧ bs = [] := by
  cases ps <;> cases vs <;> simp [encodeFields] at h
  exact ⟨rfl, rfl, h⟩

theorem encodeFields_cons_inv {ps s ss vs bs} (h : encodeFields ps (s :: ss) vs = some bs) :
    ∃ p ps' v vs' a b, ps = p :: ps' ∧ vs = v :: vs' ∧ encode p s v = some a ∧
      encodeFields ps' ss vs' = some b ∧ bs = a ++ b := by
  cases ps <;> cases vs <;> simp only [encodeFields] at h <;> try (cases h; done)
  rename_i p ps' v vs'
  split at h
  · rename_i a b ha hb; cases h; exact ⟨p, ps', v, vs', a, b, rfl, rfl, ha, hb, rfl⟩
  · cases h

/-- pointwise relation between two lists -/
inductive All2 {α β : Type} (R : α → β → Prop) : List α → List β → Prop where
  | nil : All2 R [] []
  | cons {a b as bs} : R a b → All2 R as bs → All2 R (a :: as) (b :: bs)

/-- each item has its own encoding, in order -/
theorem encodeItems_inv {s : ASchema} : ∀ {ps : List Plan} {vs : List Value} {encs : List Bytes},
    encodeItems ps s vs = some encs → All2 (fun v e => ∃ p, encode p s v = some e) vs encs := by
  intro ps vs
  induction vs generalizing ps with
  | nil =>
    intro encs h
    cases ps <;> simp [encodeItems] at h
    subst h; exact .nil
  | cons v vs ih =>
    intro encs h
    cases ps with
    | nil => simp [encodeItems] at h
    | cons p ps =>
      simp only [encodeItems] at h
      split at h
      · rename_i a b ha hb; cases h
        exact .cons ⟨p, ha⟩ (ih hb)
      · cases h

theorem encBlocks_nil_inv {es bs} (h : encBlocks [] es = some bs) : es = [] ∧ bs = writeVarint 0 := by
  cases es <;> simp [encBlocks] at h
  exact ⟨rfl, h.symm⟩

theorem encBlocks_cons_inv {n sized bl es bs} (h : encBlocks ((n, sized) :: bl) es = some bs) :
    ∃ rest, 0 < n ∧ n ≤ es.length ∧ n < 2 ^ 63 ∧ ((es.take n).flatten).length < 2 ^ 63 ∧
      encBlocks bl (es.drop n) = some rest ∧
      bs = (if sized then writeVarint (-(n : Int)) ++ writeVarint ((es.take n).flatten).length else writeVarint n) ++
            (es.take n).flatten ++ rest := by
  simp only [encBlocks] at h
  split at h
  · cases h
  · rename_i hg
    split at h
    · cases h
    · rename_i rest hr
      cases h
      refine ⟨rest, by omega, by omega, by omega, by omega, hr, rfl⟩

end Avro
