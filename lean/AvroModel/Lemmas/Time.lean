import AvroModel.Time
import AvroModel.Lemmas.Bytes
/-! Helper lemmas for C18 / C19 (model: `AvroModel/Time.lean`). -/
namespace Avro.Time

open Avro

/-! ### the outcome monad -/

@[simp] theorem ok_bind {α β} (a : α) (f : α → TOutcome β) : (TOutcome.ok a >>= f) = f a := rfl
@[simp] theorem err_bind {α β} (e) (f : α → TOutcome β) : (TOutcome.err e >>= f) = .err e := rfl
@[simp] theorem panic_bind {α β} (k) (f : α → TOutcome β) : (TOutcome.panic k >>= f) = .panic k := rfl
@[simp] theorem ok_bind' {α β} (a : α) (f : α → TOutcome β) : (TOutcome.ok a).bind f = f a := rfl
@[simp] theorem err_bind' {α β} (e) (f : α → TOutcome β) : (TOutcome.err e : TOutcome α).bind f = .err e := rfl
@[simp] theorem panic_bind' {α β} (k) (f : α → TOutcome β) : (TOutcome.panic k : TOutcome α).bind f = .panic k := rfl
@[simp] theorem pure_eq {α} (a : α) : (pure a : TOutcome α) = .ok a := rfl

/-- `x` is not a Go run-time panic -/
def NoPanic {α} (x : TOutcome α) : Prop := ∀ k, x ≠ .panic k

/-- Hoare-style judgement: `x` does not panic and, if it succeeds, its result satisfies `P` -/
def Safe {α} (P : α → Prop) (x : TOutcome α) : Prop :=
  match x with
  | .ok a => P a
  | .err _ => True
  | .panic _ => False

theorem Safe.noPanic {α} {P : α → Prop} {x : TOutcome α} (h : Safe P x) : NoPanic x := by
  intro k hk; subst hk; exact h

theorem Safe.mono {α} {P Q : α → Prop} {x : TOutcome α} (h : Safe P x) (hpq : ∀ a, P a → Q a) :
    Safe Q x := by
  cases x with
  | ok a => exact hpq a h
  | err e => trivial
  | panic k => exact h

theorem safe_ok {α} {P : α → Prop} {a : α} (h : P a) : Safe P (TOutcome.ok a) := h
theorem safe_pure {α} {P : α → Prop} {a : α} (h : P a) : Safe P (pure a : TOutcome α) := h
theorem safe_err {α} {P : α → Prop} (e) : Safe P (TOutcome.err e : TOutcome α) := trivial

theorem safe_bind {α β} {Q : α → Prop} {P : β → Prop} {x : TOutcome α} {f : α → TOutcome β}
    (hx : Safe Q x) (hf : ∀ a, Q a → Safe P (f a)) : Safe P (x >>= f) := by
  cases x with
  | ok a => exact hf a hx
  | err e => trivial
  | panic k => exact hx

theorem safe_bind' {α β} {Q : α → Prop} {P : β → Prop} {x : TOutcome α} {f : α → TOutcome β}
    (hx : Safe Q x) (hf : ∀ a, Q a → Safe P (f a)) : Safe P (x.bind f) := safe_bind hx hf

theorem safe_check (c e) : Safe (fun _ => c = true) (check c e) := by
  unfold check; split
  · assumption
  · trivial

theorem safe_num {r e} (h : Safe (fun _ => True) r) : Safe (fun _ => True) (num r e) := by
  unfold num
  refine safe_bind' h fun o _ => ?_
  cases o
  · trivial
  · trivial

theorem idx_of_lt {s : Bytes} {k : Nat} (h : k < s.length) : idx s k = .ok s[k].toNat := by
  unfold idx; simp [h]

theorem safe_idx {s : Bytes} {k : Nat} (h : k < s.length) : Safe (fun _ => True) (idx s k) := by
  rw [idx_of_lt h]; trivial

theorem slice_of_le {s : Bytes} {a b : Nat} (hab : a ≤ b) (hb : b ≤ s.length) :
    slice s a b = .ok ((s.take b).drop a) := by
  unfold slice; simp [hab, hb]

theorem sliceFrom_of_le {s : Bytes} {a : Int} (h0 : 0 ≤ a) (h1 : a ≤ s.length) :
    sliceFrom s a = .ok (s.drop a.toNat) := by
  unfold sliceFrom; simp [h0, h1]

theorem safe_sliceFrom {s : Bytes} {a : Int} (h0 : 0 ≤ a) (h1 : a ≤ s.length) :
    Safe (fun r => r.length = s.length - a.toNat) (sliceFrom s a) := by
  rw [sliceFrom_of_le h0 h1]; simp [Safe]

theorem safe_atoi2 {s : Bytes} (h : 2 ≤ s.length) : Safe (fun _ => True) (atoi2 s) := by
  unfold atoi2
  rw [idx_of_lt (show 1 < s.length by omega), idx_of_lt (show 0 < s.length by omega)]
  simp only [ok_bind]
  split <;> trivial

theorem safe_atoi4 {s : Bytes} (h : 4 ≤ s.length) : Safe (fun _ => True) (atoi4 s) := by
  unfold atoi4
  rw [idx_of_lt (show 3 < s.length by omega), idx_of_lt (show 0 < s.length by omega),
    idx_of_lt (show 1 < s.length by omega), idx_of_lt (show 2 < s.length by omega)]
  simp only [ok_bind]
  split <;> trivial

/-- `atoiN(in[a:b])` with the slice in range and long enough -/
theorem safe_slice_atoi2 {s : Bytes} {a b : Nat} (hab : a + 2 ≤ b) (hb : b ≤ s.length) :
    Safe (fun _ => True) ((slice s a b).bind atoi2) := by
  rw [slice_of_le (by omega) hb, ok_bind']
  apply safe_atoi2; simp; omega

theorem safe_slice_atoi4 {s : Bytes} {a b : Nat} (hab : a + 4 ≤ b) (hb : b ≤ s.length) :
    Safe (fun _ => True) ((slice s a b).bind atoi4) := by
  rw [slice_of_le (by omega) hb, ok_bind']
  apply safe_atoi4; simp; omega

/-! ### digits -/

theorem dig_toNat (n : Nat) : (dig n).toNat = 48 + n % 10 := by
  unfold dig
  simp [Nat.toUInt8]
  omega

theorem subZero_dig (n : Nat) : subZero (48 + n % 10) = n % 10 := by unfold subZero; omega

@[simp] theorem atoi2_d2 (n : Nat) (h : n ≤ 99) : atoi2 [dig (n / 10), dig n] = .ok (some n) := by
  simp only [atoi2, idx, List.getElem?_cons_succ, List.getElem?_cons_zero, dig_toNat, subZero_dig,
    ok_bind, pure_eq]
  rw [if_neg (by omega)]
  congr 2; omega

@[simp] theorem atoi4_d4 (n : Nat) (h : n ≤ 9999) :
    atoi4 [dig (n / 1000), dig (n / 100), dig (n / 10), dig n] = .ok (some n) := by
  simp only [atoi4, idx, List.getElem?_cons_succ, List.getElem?_cons_zero, dig_toNat, subZero_dig,
    ok_bind, pure_eq]
  rw [if_neg (by omega)]
  congr 2; omega

/-! ### the fraction loop -/

/-- what the loop body does to `(val, mult)` over a run of digits -/
def accum : List (Fin 10) → Nat → Nat → Nat × Nat
  | [], v, m => (v, m)
  | d :: ds, v, m => if m > 1 then accum ds (v * 10 + d.val) (m / 10) else accum ds v m

theorem digitsVal_cons (v : Nat) (d : Fin 10) (ds : List (Fin 10)) :
    digitsVal v (d :: ds) = digitsVal (v * 10 + d.val) ds := rfl

theorem digitsVal_replicate (v : Nat) : ∀ j, digitsVal v (List.replicate j 0) = v * 10 ^ j
  | 0 => by simp [digitsVal]
  | j + 1 => by
    rw [List.replicate_succ, digitsVal_cons, digitsVal_replicate _ j]
    simp [Nat.pow_succ]; rw [Nat.mul_assoc, Nat.mul_comm 10]

theorem accum_spec : ∀ (ds : List (Fin 10)) (v j : Nat),
    (accum ds v (10 ^ j)).1 * (accum ds v (10 ^ j)).2
      = digitsVal v (ds.take j ++ List.replicate (j - ds.length) 0)
  | [], v, j => by simp [accum, digitsVal_replicate]
  | d :: ds, v, 0 => by
    have := accum_spec ds v 0
    simp only [Nat.pow_zero] at this
    simp [accum, this, digitsVal]
  | d :: ds, v, j + 1 => by
    have hgt : 10 ^ (j + 1) > 1 := Nat.one_lt_pow (by omega) (by omega)
    have hdiv : 10 ^ (j + 1) / 10 = 10 ^ j := by rw [Nat.pow_succ]; omega
    simp only [accum, hgt, if_true, hdiv]
    rw [accum_spec ds (v * 10 + d.val) j]
    simp [digitsVal_cons]

theorem dig_fin_toNat (d : Fin 10) : (dig d.val).toNat = 48 + d.val := by
  rw [dig_toNat]; have := d.isLt; omega

/-- the loop over a run of digits followed by a non-empty rest that starts with a non-digit:
it stops at the first byte of the rest -/
theorem fracLoop_digits (rest : Bytes) (c : UInt8) (hc : ¬ (48 ≤ c.toNat ∧ c.toNat ≤ 57)) :
    ∀ (ds : List (Fin 10)) (pos : Nat) (i : Int) (val mult : Nat),
    fracLoop (ds.map (fun d => dig d.val) ++ c :: rest) pos i val mult
      = (((pos + ds.length : Nat) : Int) - 1, accum ds val mult)
  | [], pos, i, val, mult => by simp [fracLoop, hc, accum]
  | d :: ds, pos, i, val, mult => by
    have hd : 48 ≤ (dig d.val).toNat ∧ (dig d.val).toNat ≤ 57 := by
      rw [dig_fin_toNat]; have := d.isLt; omega
    simp only [List.map_cons, List.cons_append, fracLoop, hd, and_self, if_true, accum]
    have hsub : (dig d.val).toNat - 48 = d.val := by rw [dig_fin_toNat]; omega
    split
    · rw [fracLoop_digits rest c hc ds, hsub]
      simp; omega
    · rw [fracLoop_digits rest c hc ds]
      simp; omega

/-- bounds of the loop variable `i` after the loop, for a non-empty string -/
theorem fracLoop_bounds : ∀ (s : Bytes) (pos : Nat) (i : Int) (val mult : Nat), s ≠ [] →
    (pos : Int) - 1 ≤ (fracLoop s pos i val mult).1 ∧
      (fracLoop s pos i val mult).1 < (pos : Int) + s.length
  | [], _, _, _, _, h => absurd rfl h
  | c :: rest, pos, i, val, mult, _ => by
    simp only [fracLoop]
    cases rest with
    | nil => split <;> (try split) <;> simp [fracLoop] <;> omega
    | cons c' rest' =>
      have h1 := fun v m => fracLoop_bounds (c' :: rest') (pos + 1) pos v m (by simp)
      split
      · split
        · have := h1 (val * 10 + (c.toNat - 48)) (mult / 10)
          simp only [List.length_cons] at this ⊢
          omega
        · have := h1 val mult
          simp only [List.length_cons] at this ⊢
          omega
      · simp only [List.length_cons]; omega

/-! ### calendar -/

theorem daysFromCivil_epoch : daysFromCivil 1970 1 1 = 0 := by decide

/-! ### wrap-around -/

theorem wrapS64_id {x : Int} (h : inRange 64 x) : wrapS 64 x = x := by
  unfold inRange at h; unfold wrapS
  simp at h ⊢
  omega

theorem wrapS32_id {x : Int} (h : inRange 32 x) : wrapS 32 x = x := by
  unfold inRange at h; unfold wrapS
  simp at h ⊢
  omega

theorem readVarint_write {v : Int} (hv : inRange 64 v) (rest : Bytes) :
    readVarint (writeVarint v ++ rest) = .ok (v, rest) := by
  unfold readVarint writeVarint
  rw [readUvarint_put (zigzag_lt hv)]
  simp [unzig_zigzag]

end Avro.Time
