import AvroModel.Lemmas.EndToEnd
/-!
# Crash consistency: the glue between the writer-side and the reader-side theorems

* `C16.accepted_prefix` (writer side): whatever a failing `io.Writer` accepted is a prefix of the
  fault-free output.
* `C08.truncation` (reader side): reading the first `k` bytes of a valid file delivers the records of
  the completely present blocks, and succeeds iff `k` is a block/header boundary.
* `EndToEnd.written_valid`: the fault-free output *is* a valid file.

This file holds the small facts needed to chain them: a prefix is a `take`, the fault-free output in
the reader's vocabulary (`written_bytes`), what the blocks of the file hold relative to the records
of the history (`allVals_written_prefix`), and the validity of the header the library's writer emits
(`valid_writerHeader`). The headline statements are `C08.written_file_truncation` and
`C16.crash_consistent`.
-/
namespace Avro.Crash
open Avro Avro.File Avro.EndToEnd

variable {α ε : Type}

/-- a prefix of a list is the `take` of its own length -/
theorem prefix_eq_take {β : Type} {l₁ l₂ : List β} (h : l₁ <+: l₂) : l₁ = l₂.take l₁.length := by
  obtain ⟨t, rfl⟩ := h
  simp

theorem prefix_map {β γ : Type} (f : β → γ) {l₁ l₂ : List β} (h : l₁ <+: l₂) : l₁.map f <+: l₂.map f := by
  obtain ⟨t, rfl⟩ := h
  rw [List.map_append]
  exact List.prefix_append _ _

/-- the blocks the fault-free writer emitted for the history `ops`, in the reader's vocabulary -/
def writtenBlocks (cfg : EncCfg) (dec : Bytes → α) (ops : List EncOp) : List (Blk α) :=
  (specPart cfg.blockSize ops []).1.map (blkOf cfg dec)

/-- **the fault-free output, in the reader's vocabulary**: header, then the frames of `writtenBlocks` -/
theorem written_bytes (cfg : EncCfg) (dec : Bytes → α) (ops : List EncOp) :
    (encRun cfg {} ops).2.1.accepted = cfg.header ++ body cfg.sync (writtenBlocks cfg dec ops) := by
  obtain ⟨s', w', hrun, hacc, _, _⟩ := C09.refines cfg ops
  rw [hrun]
  simp only [writtenBlocks]
  rw [hacc, frames_eq cfg dec]

/-- the fault-free run reports no error -/
theorem written_no_error (cfg : EncCfg) (ops : List EncOp) : (encRun cfg {} ops).2.2 = none := by
  obtain ⟨s', w', hrun, _, _, _⟩ := C09.refines cfg ops
  rw [hrun]

/-- the records stored in the file are a prefix of the records of the history (all of them when the
history ends with a `Flush`: `allVals_written_flushed`) -/
theorem allVals_written_prefix (cfg : EncCfg) (dec : Bytes → α) (ops : List EncOp) :
    allVals (writtenBlocks cfg dec ops) <+: (encodings ops).map dec := by
  simp only [writtenBlocks]
  rw [allVals_blkOf]
  exact prefix_map dec (part_flatten_prefix _ _)

theorem allVals_written_flushed (cfg : EncCfg) (dec : Bytes → α) (ops : List EncOp) :
    allVals (writtenBlocks cfg dec (ops ++ [.flush])) = (encodings ops).map dec := by
  simp only [writtenBlocks]
  rw [allVals_blkOf]
  have := C09.spec_preserves cfg.blockSize (ops ++ [.flush]) []
  rw [C09.spec_flush_drains, encodings_append_flush] at this
  simp only [List.append_nil, List.nil_append] at this
  rw [this]

/-! ### The header the library's writer emits -/

/-- `name` is one of the three codec names the reader knows, and `sel` the codec it selects -/
def CodecName (name : Bytes) (sel : CodecSel) : Prop :=
  (name = vNull ∧ sel = .null) ∨ (name = vDeflate ∧ sel = .deflate) ∨ (name = vSnappy ∧ sel = .snappy)

theorem CodecName.length_le {name : Bytes} {sel : CodecSel} (h : CodecName name sel) : name.length ≤ maxLen := by
  rcases h with ⟨rfl, _⟩ | ⟨rfl, _⟩ | ⟨rfl, _⟩ <;> decide

theorem selectCodec_name {name : Bytes} {sel : CodecSel} (h : CodecName name sel) (m : Meta) :
    selectCodec ((kCodec, name) :: m) = some sel := by
  rcases h with ⟨rfl, rfl⟩ | ⟨rfl, rfl⟩ | ⟨rfl, rfl⟩ <;> simp [selectCodec, metaGet] <;> decide

/-- the metadata the writer emits: one map block with the entries `avro.schema`, `avro.codec` -/
def writerMeta (js name : Bytes) : List (Bytes × Bytes) := [(kSchema, js), (kCodec, name)]

theorem good_writerMeta (js name : Bytes) (hjs : js.length ≤ maxLen) (hname : name.length ≤ maxLen) :
    GoodMetaBlocks [writerMeta js name] := by
  intro es hes
  simp only [List.mem_singleton] at hes
  subst hes
  refine ⟨by simp [writerMeta], (by show 2 ≤ maxLen; decide), ?_⟩
  intro kv hkv
  simp only [writerMeta, List.mem_cons, List.not_mem_nil, or_false] at hkv
  rcases hkv with rfl | rfl
  · exact ⟨(by show kSchema.length ≤ maxLen; decide), hjs⟩
  · exact ⟨(by show kCodec.length ≤ maxLen; decide), hname⟩

/-- **The writer's header is a valid header** for the library's reader: `mkHeader` of the single
metadata block `avro.schema = js`, `avro.codec = name`, with a 16-byte sync marker, as soon as the
schema JSON builds the record decoder and `name` is one of null / deflate / snappy. -/
theorem valid_writerHeader (X : Ext α) (js name sync : Bytes) (fuel : Nat) (hf : 1 < fuel)
    (hs : sync.length = 16) (hjs : js.length ≤ maxLen) (sel : CodecSel) (rc : RecCodec α)
    (hname : CodecName name sel) (hb : X.build js = some rc) :
    ValidHeader X fuel (mkHeader [writerMeta js name] sync)
      { «meta» := metaOf [writerMeta js name], sync := sync } sel rc := by
  refine C07.valid_mkHeader X _ sync fuel (good_writerMeta js name hjs hname.length_le) (by simpa using hf) hs sel rc ?_ ?_
  · simp only [metaOf, writerMeta, List.flatten_cons, List.flatten_nil, List.append_nil, List.reverse_cons,
      List.reverse_nil, List.nil_append, List.cons_append]
    exact selectCodec_name hname _
  · refine ⟨js, ?_, hb⟩
    have hk : ¬ kCodec = kSchema := by decide
    simp [metaOf, writerMeta, metaGet, hk]

end Avro.Crash
