import AvroModel.Lemmas.SchemaValid
/-! Lemmas for C20: inversion of `buildCodec` on generated schemas, and the induction over type contexts. -/
namespace Avro

theorem buildCodec_reg (reg : Reg) (n : Nat) (s : Schema) (t : GoType) (oe : Bool) (b : Schema → Except String Codec)
    (h1 : s.type ≠ "union") (h2 : s.type ≠ "null") (hp : ∀ e, t ≠ .ptr e) (hr : regLookup reg t = some b) :
    buildCodec reg (n + 1) s (some t) oe = b s := by
  have hc : (s.type != "union" && s.type != "null") = true := by simp [h1, h2]
  simp only [buildCodec, hc, if_true]
  cases t <;> simp_all

theorem buildCodec_ptr (reg : Reg) (n : Nat) (s : Schema) (e : GoType) (oe : Bool)
    (h1 : s.type ≠ "union") (h2 : s.type ≠ "null") :
    buildCodec reg (n + 1) s (some (.ptr e)) oe =
      (match buildCodec reg n s (some e) false with
       | .ok c => .ok (.pointer c)
       | .error e => .error e) := by
  have hc : (s.type != "union" && s.type != "null") = true := by simp [h1, h2]
  simp only [buildCodec, hc, if_true]
  cases buildCodec reg n s (some e) false <;> rfl

theorem buildCodec_union_inv (reg : Reg) (fuel : Nat) (s x : Schema) (typ : Option GoType) (oe : Bool) (cd : Codec)
    (h1 : s.type = "union") (h2 : s.union = [.prim "null", x])
    (h : buildCodec reg fuel s typ oe = .ok cd) :
    ∃ n c, buildCodec reg n x typ oe = .ok c ∧
      ((∃ o, c = .string o ∧ cd = .unionNullString o 1) ∨ ((∀ o, c ≠ .string o) ∧ cd = .unionOne c 1)) := by
  cases fuel with
  | zero => simp [buildCodec] at h
  | succ n1 =>
    have hc : (s.type != "union" && s.type != "null") = false := by simp [h1]
    simp only [buildCodec, hc, Bool.false_eq_true, if_false] at h
    cases n1 with
    | zero => simp [buildKind] at h
    | succ n2 =>
      simp [buildKind, h1, h2] at h
      cases n2 with
      | zero => simp [buildUnion] at h
      | succ n3 =>
        simp [buildUnion, Schema.prim, Schema.type] at h
        refine ⟨n3, ?_⟩
        cases hb : buildCodec reg n3 x typ oe with
        | error e => simp [hb] at h
        | ok c =>
          refine ⟨c, rfl, ?_⟩
          by_cases hs : ∃ o, c = .string o
          · obtain ⟨o, rfl⟩ := hs
            simp [hb] at h
            exact Or.inl ⟨o, rfl, h.symm⟩
          · simp only [hb] at h
            right
            refine ⟨fun o ho => hs ⟨o, ho⟩, ?_⟩
            cases c <;> first | (cases h; rfl) | exact absurd ⟨_, rfl⟩ hs


theorem buildCodec_array_inv (reg : Reg) (fuel : Nat) (u : Schema) (e : GoType) (oe : Bool) (cd : Codec)
    (h : buildCodec reg fuel (arraySchema u) (some (.slice e)) oe = .ok cd) :
    ∃ n ci, buildCodec reg n u (some e) false = .ok ci ∧ cd = .array ci oe := by
  cases fuel with
  | zero => simp [buildCodec] at h
  | succ n1 =>
    simp [buildCodec, arraySchema, Schema.type, regLookup] at h
    cases n1 with
    | zero => simp [buildKind] at h
    | succ n2 =>
      simp [buildKind, Schema.type, Schema.object, GoType.strip, SchemaObject.items] at h
      cases hb : buildCodec reg n2 u (some e) false with
      | error er => simp [hb] at h
      | ok ci => simp [hb] at h; exact ⟨n2, ci, hb, h.symm⟩

theorem buildCodec_goarray_inv (reg : Reg) (fuel : Nat) (u : Schema) (k : Nat) (e : GoType) (oe : Bool) (cd : Codec)
    (h : buildCodec reg fuel (arraySchema u) (some (.array k e)) oe = .ok cd) : False := by
  cases fuel with
  | zero => simp [buildCodec] at h
  | succ n1 =>
    simp [buildCodec, arraySchema, Schema.type, regLookup] at h
    cases n1 with
    | zero => simp [buildKind] at h
    | succ n2 => simp [buildKind, Schema.type, Schema.object, GoType.strip] at h

theorem buildCodec_map_inv (reg : Reg) (fuel : Nat) (u : Schema) (k v : GoType) (oe : Bool) (cd : Codec)
    (h : buildCodec reg fuel (mapSchema u) (some (.map k v)) oe = .ok cd) :
    ∃ n cv, buildCodec reg n u (some v) false = .ok cv ∧ cd = .map cv oe := by
  cases fuel with
  | zero => simp [buildCodec] at h
  | succ n1 =>
    simp [buildCodec, mapSchema, Schema.type, regLookup] at h
    cases n1 with
    | zero => simp [buildKind] at h
    | succ n2 =>
      have hs : (GoType.map k v).strip = .map k v := rfl
      simp [buildKind, Schema.type, Schema.object, SchemaObject.values, hs] at h
      split at h
      · cases hb : buildCodec reg n2 u (some v) false with
        | error er => simp [hb] at h
        | ok cv => simp [hb] at h; exact ⟨n2, cv, hb, h.symm⟩
      · cases h

theorem buildCodec_record_inv (reg : Reg) (fuel : Nat) (name pkg : String) (sfs : List SchemaField)
    (gname gpkg : String) (fs : List GoField) (oe : Bool) (cd : Codec)
    (h : buildCodec reg fuel (recordSchema name pkg sfs) (some (.struct gname gpkg fs)) oe = .ok cd) :
    ∃ n cs ts, buildFields reg n sfs (some fs) = .ok (cs, ts) ∧ cd = .record (zeroFields fs) cs ts := by
  cases fuel with
  | zero => simp [buildCodec] at h
  | succ n1 =>
    simp [buildCodec, recordSchema, Schema.type, regLookup] at h
    cases n1 with
    | zero => simp [buildKind] at h
    | succ n2 =>
      simp [buildKind, Schema.type, Schema.object, GoType.strip, SchemaObject.fields] at h
      cases hb : buildFields reg n2 sfs (some fs) with
      | error er => simp [hb] at h
      | ok p => obtain ⟨cs, ts⟩ := p; simp [hb] at h; exact ⟨n2, cs, ts, hb, h.symm⟩

theorem lookupField_nomatch (name : String) (post : List GoField) (i : Nat) (acc : Option (Nat × GoField))
    (h : ∀ g ∈ post, nameForField g ≠ name) : lookupField name post i acc = acc := by
  induction post generalizing i acc with
  | nil => rfl
  | cons g gs ih =>
    have hg : (nameForField g == name) = false := by simpa using h g List.mem_cons_self
    simp only [lookupField, hg, Bool.and_false, Bool.false_eq_true, if_false]
    exact ih _ _ (fun g' hg' => h g' (List.mem_cons_of_mem _ hg'))

/-- `ntf[name]`: the last field with that name wins, so a field is found under its own name exactly
when no later field has the same name -/
theorem lookupField_last (pre post : List GoField) (f : GoField) (i : Nat) (acc : Option (Nat × GoField))
    (hf : nameForField f ≠ "-") (h : ∀ g ∈ post, nameForField g ≠ nameForField f) :
    lookupField (nameForField f) (pre ++ f :: post) i acc = some (i + pre.length, f) := by
  induction pre generalizing i acc with
  | nil =>
    have h1 : (nameForField f != "-") = true := by simpa using hf
    simp only [List.nil_append, lookupField, h1, beq_self_eq_true, Bool.and_self, if_true, List.length_nil,
      Nat.add_zero]
    exact lookupField_nomatch _ _ _ _ h
  | cons g gs ih =>
    simp only [List.cons_append, lookupField, List.length_cons]
    split
    · rw [ih]; congr 2; omega
    · rw [ih]; congr 2; omega

/-- what the field loop of `buildRecordCodec` builds for the schema field at position `|pre'|` -/
theorem buildFields_at (reg : Reg) (gfs : List GoField) (pre' post' : List SchemaField) (sf : SchemaField) :
    ∀ (n : Nat) (cs : List Codec) (ts : List (Option Nat)),
      buildFields reg n (pre' ++ sf :: post') (some gfs) = .ok (cs, ts) →
      ∃ m fc, cs[pre'.length]? = some fc ∧
        (match lookupField sf.name gfs 0 none with
          | some (_, gf) => buildCodec reg m sf.type (some gf.type) (omitEmptyTag gf.jsonTag)
          | none => buildCodec reg m sf.type none false) = .ok fc := by
  induction pre' with
  | nil =>
    intro n cs ts h
    cases n with
    | zero => simp [buildFields] at h
    | succ m =>
      simp only [List.nil_append, buildFields] at h
      refine ⟨m, ?_⟩
      split at h
      · rename_i c cs' ts' hc hrest
        cases h
        exact ⟨c, by simp, hc⟩
      · cases h
      · cases h
  | cons a pre' ih =>
    intro n cs ts h
    cases n with
    | zero => simp [buildFields] at h
    | succ m =>
      simp only [List.cons_append, buildFields] at h
      split at h
      · rename_i c cs' ts' hc hrest
        cases h
        obtain ⟨m', fc, h1, h2⟩ := ih m cs' ts' hrest
        exact ⟨m', fc, by simpa using h1, h2⟩
      · cases h
      · cases h

theorem fieldsOf_split (rec : GoType → Gen Schema) (pre post : List GoField) (f : GoField)
    (hf : nameForField f ≠ "-") :
    ∀ r, FieldsOf rec (pre ++ f :: post) r →
      ∃ pre' post' s, r = pre' ++ SchemaField.mk (nameForField f) (omitWrap (omitEmptyTag f.jsonTag) s) :: post' ∧
        rec f.type = .ok s ∧ pre'.length = ((pre.map nameForField).filter (· != "-")).length := by
  induction pre with
  | nil =>
    intro r h
    simp only [List.nil_append] at h
    cases h with
    | skip hn _ => exact absurd hn hf
    | keep _ hr hrest => exact ⟨[], _, _, rfl, hr, rfl⟩
  | cons g gs ih =>
    intro r h
    simp only [List.cons_append] at h
    cases h with
    | skip hn hrest =>
      obtain ⟨pre', post', s, h1, h2, h3⟩ := ih _ hrest
      exact ⟨pre', post', s, h1, h2, by simp [hn, h3]⟩
    | keep hn hr hrest =>
      obtain ⟨pre', post', s, h1, h2, h3⟩ := ih _ hrest
      exact ⟨_ :: pre', post', s, by rw [h1]; rfl, h2, by simp [hn, h3]⟩

/-! ### inversion of schema generation on composite types -/

theorem gen_registered_inv (sreg : SReg) (env : TEnv) (fuel : Nat) (ps : List GoType) (t : GoType) (rs S : Schema)
    (hs : sregLookup sreg t = some rs) (h : schemaForType sreg env fuel ps t = .ok S) : S = rs := by
  cases fuel with
  | zero => simp [schemaForType] at h
  | succ m =>
    have hr : ∀ n, t ≠ .ref n := by intro n hn; subst hn; simp [sregLookup] at hs
    rw [schemaForType_succ, genStep_nonref _ _ _ _ _ hr] at h
    simp [genResolved, hs] at h
    exact h.symm

theorem gen_composite_inv (sreg : SReg) (env : TEnv) (fuel : Nat) (ps : List GoType) (t : GoType) (S : Schema)
    (h1 : sregLookup sreg t = none) (h2 : t.strip.composite = true) (hr : ∀ n, t ≠ .ref n)
    (h : schemaForType sreg env fuel ps t = .ok S) :
    ∃ m, genKind env (schemaForType sreg env m (ps ++ [t])) t.strip = .ok S := by
  cases fuel with
  | zero => simp [schemaForType] at h
  | succ m =>
    rw [schemaForType_succ, genStep_nonref _ _ _ _ _ hr, genResolved_composite _ _ _ _ _ h1 h2] at h
    split at h
    · cases h
    · exact ⟨m, h⟩

theorem gen_ptr_inv (sreg : SReg) (env : TEnv) (fuel : Nat) (ps : List GoType) (e : GoType) (S : Schema)
    (h : schemaForType sreg env fuel ps (.ptr e) = .ok S) :
    ∃ m u, schemaForType sreg env m (ps ++ [.ptr e]) e = .ok u ∧ S = ptrWrap u := by
  obtain ⟨m, hm⟩ := gen_composite_inv sreg env fuel ps _ S rfl rfl (by intro n hn; cases hn) h
  simp only [GoType.strip, genKind_ptr] at hm
  cases h1 : schemaForType sreg env m (ps ++ [.ptr e]) e with
  | ok u => simp [h1, Gen.map] at hm; exact ⟨m, u, h1, hm.symm⟩
  | err => simp [h1, Gen.map] at hm
  | overflow => simp [h1, Gen.map] at hm

theorem gen_slice_inv (sreg : SReg) (env : TEnv) (fuel : Nat) (ps : List GoType) (e : GoType) (S : Schema)
    (hb : isByteKind env e = false) (h : schemaForType sreg env fuel ps (.slice e) = .ok S) :
    ∃ m u, schemaForType sreg env m (ps ++ [.slice e]) e = .ok u ∧ S = arraySchema u := by
  obtain ⟨m, hm⟩ := gen_composite_inv sreg env fuel ps _ S rfl rfl (by intro n hn; cases hn) h
  simp only [GoType.strip, genKind_slice, hb, Bool.false_eq_true, if_false] at hm
  cases h1 : schemaForType sreg env m (ps ++ [.slice e]) e with
  | ok u => simp [h1, Gen.map] at hm; exact ⟨m, u, h1, hm.symm⟩
  | err => simp [h1, Gen.map] at hm
  | overflow => simp [h1, Gen.map] at hm

theorem gen_array_inv (sreg : SReg) (env : TEnv) (fuel : Nat) (ps : List GoType) (k : Nat) (e : GoType) (S : Schema)
    (hb : isByteKind env e = false) (h : schemaForType sreg env fuel ps (.array k e) = .ok S) :
    ∃ m u, schemaForType sreg env m (ps ++ [.array k e]) e = .ok u ∧ S = arraySchema u := by
  obtain ⟨m, hm⟩ := gen_composite_inv sreg env fuel ps _ S rfl rfl (by intro n hn; cases hn) h
  simp only [GoType.strip, genKind_array, hb, Bool.false_eq_true, if_false] at hm
  cases h1 : schemaForType sreg env m (ps ++ [.array k e]) e with
  | ok u => simp [h1, Gen.map] at hm; exact ⟨m, u, h1, hm.symm⟩
  | err => simp [h1, Gen.map] at hm
  | overflow => simp [h1, Gen.map] at hm

theorem gen_map_inv (sreg : SReg) (env : TEnv) (fuel : Nat) (ps : List GoType) (k v : GoType) (S : Schema)
    (h : schemaForType sreg env fuel ps (.map k v) = .ok S) :
    ∃ m u, schemaForType sreg env m (ps ++ [.map k v]) v = .ok u ∧ S = mapSchema u := by
  obtain ⟨m, hm⟩ := gen_composite_inv sreg env fuel ps _ S rfl rfl (by intro n hn; cases hn) h
  simp only [GoType.strip, genKind_map] at hm
  split at hm
  · cases h1 : schemaForType sreg env m (ps ++ [.map k v]) v with
    | ok u => simp [h1, Gen.map] at hm; exact ⟨m, u, h1, hm.symm⟩
    | err => simp [h1, Gen.map] at hm
    | overflow => simp [h1, Gen.map] at hm
  · cases hm

theorem gen_struct_inv (sreg : SReg) (env : TEnv) (fuel : Nat) (ps : List GoType) (name pkg : String)
    (fs : List GoField) (S : Schema) (h : schemaForType sreg env fuel ps (.struct name pkg fs) = .ok S) :
    ∃ m sfs, FieldsOf (schemaForType sreg env m (ps ++ [.struct name pkg fs])) fs sfs ∧ S = recordSchema name pkg sfs := by
  obtain ⟨m, hm⟩ := gen_composite_inv sreg env fuel ps _ S rfl rfl (by intro n hn; cases hn) h
  simp only [GoType.strip, genKind_struct] at hm
  cases h1 : genFields (schemaForType sreg env m (ps ++ [.struct name pkg fs])) fs with
  | ok sfs => simp [h1, Gen.map] at hm; exact ⟨m, sfs, (genFields_ok_iff _ _ _).mp h1, hm.symm⟩
  | err => simp [h1, Gen.map] at hm
  | overflow => simp [h1, Gen.map] at hm

/-! ### the codec at the hole -/

/-- no later sibling field has the JSON name of a field on the path (the record codec maps a schema
field to the *last* Go field of that name) -/
def Ctx.NoShadow : Ctx → Prop
  | .hole => True
  | .ptr c | .slice c | .array _ c | .map _ c => c.NoShadow
  | .field _ _ _ fname j b c post =>
    (∀ g ∈ post, nameForField g ≠ nameForField (.mk fname true j b .bool)) ∧ c.NoShadow

/-- The codec at the hole of a context inside a built codec tree. The nullable wrapper of a position
(`unionOne`) sits above the pointer codecs of that position; `stripped` says it has been passed already.
`nullable`: the registered schema itself is a nullable union. -/
def nav (nullable : Bool) : Ctx → Bool → Codec → Option Codec
  | .hole, stripped, c =>
    if nullable && !stripped then
      (match c with
       | .unionOne l _ => some l
       | _ => none)
    else some c
  | .ptr c, false, .unionOne (.pointer x) _ => nav nullable c true x
  | .ptr c, _, .pointer x => nav nullable c true x
  | .slice c, _, .array item _ => nav nullable c false item
  | .map _ c, _, .map v _ => nav nullable c false v
  | .field _ _ pre _ j _ c _, _, .record _ cs _ =>
    match cs[((pre.map nameForField).filter (· != "-")).length]? with
    | some fc =>
      if omitEmptyTag j then
        (match fc with
         | .unionOne x _ => nav nullable c true x
         | _ => none)
      else nav nullable c false fc
    | none => none
  | _, _, _ => none

/-- the shape of a registered schema: plain, or the nullable union of a plain one; `core` is what the
registered builder is handed -/
inductive RegShape : Schema → Schema → Prop
  | plain {rs : Schema} : rs.type ≠ "union" → rs.type ≠ "null" → RegShape rs rs
  | nullable {x : Schema} : x.type ≠ "union" → x.type ≠ "null" → RegShape (nullableSchema x) x

theorem regLookup_shape {reg : Reg} {t : GoType} {b : Schema → Except String Codec} (h : regLookup reg t = some b) :
    (∀ e, t ≠ .ptr e) ∧ (∀ n, t ≠ .ref n) ∧ (∀ s o, b s ≠ .ok (.string o)) := by
  cases t <;> simp only [regLookup] at h <;> try (cases h; done)
  · -- time
    split at h <;> cases h
    refine ⟨fun e he => (by cases he), fun n hn => (by cases hn), ?_⟩
    intro s o hb
    unfold buildTime at hb
    split at hb
    · cases hb
    · split at hb
      · cases hb
      · split at hb
        · split at hb
          · split at hb <;> cases hb
          · cases hb
        · cases hb
  · -- null.*
    split at h <;> cases h
    refine ⟨fun e he => (by cases he), fun n hn => (by cases hn), ?_⟩
    intro s o hb
    rename_i k _
    unfold buildNull at hb
    cases k <;> simp only at hb <;> (repeat' (split at hb)) <;> cases hb
  · -- custom
    rename_i id u
    refine ⟨fun e he => (by cases he), fun n hn => (by cases hn), ?_⟩
    cases hc : reg.custom id with
    | none => simp [hc] at h
    | some acc =>
      simp only [hc] at h; cases h
      intro s o hb
      simp only at hb
      split at hb <;> cases hb

theorem nav_not_string {N : Bool} {c : Ctx} {cd l : Codec} {b : Schema → Except String Codec} {core : Schema}
    (hb : ∀ s o, b s ≠ .ok (.string o)) (h1 : nav N c true cd = some l) (h2 : b core = .ok l) :
    ∀ o, cd ≠ .string o := by
  intro o ho
  subst ho
  cases c <;> simp [nav] at h1
  subst h1
  exact hb _ _ h2

theorem build_plain {reg : Reg} {R : GoType} {b : Schema → Except String Codec} (hR : regLookup reg R = some b)
    {X : Schema} (h1 : X.type ≠ "union") (h2 : X.type ≠ "null") {fuel : Nat} {oe : Bool} {cd : Codec}
    (h : buildCodec reg fuel X (some R) oe = .ok cd) : b X = .ok cd := by
  cases fuel with
  | zero => simp [buildCodec] at h
  | succ n => rwa [buildCodec_reg reg n X R oe b h1 h2 (regLookup_shape hR).1 hR] at h

theorem build_ptr_inv {reg : Reg} {X : Schema} (h1 : X.type ≠ "union") (h2 : X.type ≠ "null") {e : GoType}
    {fuel : Nat} {oe : Bool} {cd : Codec} (h : buildCodec reg fuel X (some (.ptr e)) oe = .ok cd) :
    ∃ n c', buildCodec reg n X (some e) false = .ok c' ∧ cd = .pointer c' := by
  cases fuel with
  | zero => simp [buildCodec] at h
  | succ n =>
    rw [buildCodec_ptr reg n X e oe h1 h2] at h
    cases hb : buildCodec reg n X (some e) false with
    | error er => simp [hb] at h
    | ok c' => simp [hb] at h; exact ⟨n, c', hb, h.symm⟩

theorem nullable_union (x : Schema) : (nullableSchema x).union = [.prim "null", x] := rfl

theorem nullable_inj {x y : Schema} (h : (nullableSchema x).union = [.prim "null", y]) : y = x := by
  simp [nullableSchema, Schema.union] at h; exact h.symm

/-- the statement proved by induction over contexts: `A` for the schema generated at a position, `B`
for the non-null branch of a position whose schema is a union, `C` for a non-union schema below an
already stripped union -/
def GovernsAt (reg : Reg) (R : GoType) (b : Schema → Except String Codec) (N : Bool) (core : Schema)
    (c : Ctx) (S : Schema) : Prop :=
  (∀ fuel oe cd, buildCodec reg fuel S (some (c.fill R)) oe = .ok cd →
    ∃ l, nav N c false cd = some l ∧ b core = .ok l) ∧
  (S.type = "union" → ∀ x, S.union = [.prim "null", x] → ∀ fuel oe cd,
    buildCodec reg fuel x (some (c.fill R)) oe = .ok cd → ∃ l, nav N c true cd = some l ∧ b core = .ok l) ∧
  (S.type ≠ "union" → ∀ fuel oe cd, buildCodec reg fuel S (some (c.fill R)) oe = .ok cd →
    ∃ l, nav N c true cd = some l ∧ b core = .ok l)

theorem governs_hole {reg : Reg} {R : GoType} {b : Schema → Except String Codec} {rs core : Schema}
    (hR : regLookup reg R = some b) (hshape : RegShape rs core) :
    GovernsAt reg R b (rs.type == "union") core .hole rs := by
  have hns := (regLookup_shape hR).2.2
  cases hshape with
  | plain h1 h2 =>
    have hN : (rs.type == "union") = false := by simpa using h1
    refine ⟨?_, ?_, ?_⟩
    · intro fuel oe cd h
      exact ⟨cd, by simp [nav, hN], build_plain hR h1 h2 h⟩
    · intro hu; exact absurd hu h1
    · intro _ fuel oe cd h
      exact ⟨cd, by simp [nav, hN], build_plain hR h1 h2 h⟩
  | nullable h1 h2 =>
    have hN : ((nullableSchema core).type == "union") = true := by simp [nullable_type]
    refine ⟨?_, ?_, ?_⟩
    · intro fuel oe cd h
      obtain ⟨n, c1, hc1, hcase⟩ :=
        buildCodec_union_inv reg fuel _ core _ oe cd (nullable_type core) (nullable_union core) h
      have hb1 := build_plain hR h1 h2 hc1
      rcases hcase with ⟨o, rfl, _⟩ | ⟨_, rfl⟩
      · exact absurd hb1 (hns _ _)
      · exact ⟨c1, by simp [nav, hN], hb1⟩
    · intro _ y hy fuel oe cd h
      have := nullable_inj hy; subst this
      exact ⟨cd, by simp [nav], build_plain hR h1 h2 h⟩
    · intro hu; exact absurd (nullable_type core) hu

theorem governs_ptr {reg : Reg} {sreg : SReg} {env : TEnv} {R : GoType} {b : Schema → Except String Codec}
    {N : Bool} {core : Schema} (hflat : RegSchemasFlat sreg) (c : Ctx) (m : Nat) (ps : List GoType) (u : Schema)
    (hu : schemaForType sreg env m ps (c.fill R) = .ok u) (ih : GovernsAt reg R b N core c u) :
    GovernsAt reg R b N core (.ptr c) (ptrWrap u) := by
  obtain ⟨ihA, ihB, ihC⟩ := ih
  have hfl := gen_unionsOk sreg env hflat m ps _ u hu
  by_cases hun : u.type = "union"
  · -- the element's schema is already a nullable union: it is passed through
    have hS : ptrWrap u = u := ptrWrap_stays' u (Or.inl hun)
    rw [hS]
    obtain ⟨tu, ou, bru⟩ := u
    obtain ⟨x, hx, hx1, hx2⟩ := unionsOk_top hfl.1 hun
    have hx' : (Schema.mk tu ou bru).union = [.prim "null", x] := hx
    refine ⟨?_, ?_, ?_⟩
    · intro fuel oe cd h
      obtain ⟨n, c1, hc1, hcase⟩ := buildCodec_union_inv reg fuel _ x _ oe cd hun hx' h
      obtain ⟨n', c', hc', rfl⟩ := build_ptr_inv hx1 hx2 hc1
      rcases hcase with ⟨o, ho, _⟩ | ⟨_, rfl⟩
      · cases ho
      · obtain ⟨l, hl, hbl⟩ := ihB hun x hx' n' false c' hc'
        exact ⟨l, by simpa [nav, Ctx.fill] using hl, hbl⟩
    · intro _ y hy fuel oe cd h
      have : y = x := by rw [hx'] at hy; simpa using hy.symm
      subst this
      obtain ⟨n', c', hc', rfl⟩ := build_ptr_inv hx1 hx2 h
      obtain ⟨l, hl, hbl⟩ := ihB hun y hx' n' false c' hc'
      exact ⟨l, by simpa [nav] using hl, hbl⟩
    · intro hu'; exact absurd hun hu'
  · by_cases ham : u.type = "array" ∨ u.type = "map"
    · -- pointers to arrays and maps stay plain
      have hS : ptrWrap u = u := ptrWrap_stays' u (Or.inr ham)
      rw [hS]
      have key : ∀ fuel oe cd, buildCodec reg fuel u (some ((Ctx.ptr c).fill R)) oe = .ok cd →
          ∃ c', cd = .pointer c' ∧ ∃ l, nav N c true c' = some l ∧ b core = .ok l := by
        intro fuel oe cd h
        obtain ⟨n', c', hc', rfl⟩ := build_ptr_inv hun hfl.2 h
        exact ⟨c', rfl, ihC hun n' false c' hc'⟩
      refine ⟨?_, ?_, ?_⟩
      · intro fuel oe cd h
        obtain ⟨c', rfl, l, hl, hbl⟩ := key fuel oe cd h
        exact ⟨l, by simpa [nav] using hl, hbl⟩
      · intro hu'; exact absurd hu' hun
      · intro _ fuel oe cd h
        obtain ⟨c', rfl, l, hl, hbl⟩ := key fuel oe cd h
        exact ⟨l, by simpa [nav] using hl, hbl⟩
    · -- everything else becomes [null, u]
      have ham' : u.type ≠ "array" ∧ u.type ≠ "map" := by
        constructor <;> intro h' <;> exact ham (by simp [h'])
      have hS : ptrWrap u = nullableSchema u := by
        exact ptrWrap_plain' u hun ham'.1 ham'.2
      rw [hS]
      refine ⟨?_, ?_, ?_⟩
      · intro fuel oe cd h
        obtain ⟨n, c1, hc1, hcase⟩ := buildCodec_union_inv reg fuel _ u _ oe cd (nullable_type u) (nullable_union u) h
        obtain ⟨n', c', hc', rfl⟩ := build_ptr_inv hun hfl.2 hc1
        rcases hcase with ⟨o, ho, _⟩ | ⟨_, rfl⟩
        · cases ho
        · obtain ⟨l, hl, hbl⟩ := ihC hun n' false c' hc'
          exact ⟨l, by simpa [nav] using hl, hbl⟩
      · intro _ y hy fuel oe cd h
        have := nullable_inj hy; subst this
        obtain ⟨n', c', hc', rfl⟩ := build_ptr_inv hun hfl.2 h
        obtain ⟨l, hl, hbl⟩ := ihC hun n' false c' hc'
        exact ⟨l, by simpa [nav] using hl, hbl⟩
      · intro hu'; exact absurd (nullable_type u) hu'

theorem governs_slice {reg : Reg} {R : GoType} {b : Schema → Except String Codec} {N : Bool} {core : Schema}
    (c : Ctx) (u : Schema) (ih : GovernsAt reg R b N core c u) :
    GovernsAt reg R b N core (.slice c) (arraySchema u) := by
  obtain ⟨ihA, _, _⟩ := ih
  have key : ∀ (st : Bool) fuel oe cd, buildCodec reg fuel (arraySchema u) (some ((Ctx.slice c).fill R)) oe = .ok cd →
      ∃ l, nav N (.slice c) st cd = some l ∧ b core = .ok l := by
    intro st fuel oe cd h
    obtain ⟨n, ci, hci, rfl⟩ := buildCodec_array_inv reg fuel u _ oe cd h
    obtain ⟨l, hl, hbl⟩ := ihA n false ci hci
    exact ⟨l, by simpa [nav] using hl, hbl⟩
  exact ⟨key false, fun hu => absurd hu (by show "array" ≠ "union"; decide), fun _ => key true⟩

theorem governs_goarray {reg : Reg} {R : GoType} {b : Schema → Except String Codec} {N : Bool} {core : Schema}
    (c : Ctx) (k : Nat) (u : Schema) : GovernsAt reg R b N core (.array k c) (arraySchema u) := by
  refine ⟨?_, fun hu => absurd hu (by show "array" ≠ "union"; decide), ?_⟩
  · intro fuel oe cd h; exact (buildCodec_goarray_inv reg fuel u k _ oe cd h).elim
  · intro _ fuel oe cd h; exact (buildCodec_goarray_inv reg fuel u k _ oe cd h).elim

theorem governs_map {reg : Reg} {R : GoType} {b : Schema → Except String Codec} {N : Bool} {core : Schema}
    (c : Ctx) (k : GoType) (u : Schema) (ih : GovernsAt reg R b N core c u) :
    GovernsAt reg R b N core (.map k c) (mapSchema u) := by
  obtain ⟨ihA, _, _⟩ := ih
  have key : ∀ (st : Bool) fuel oe cd, buildCodec reg fuel (mapSchema u) (some ((Ctx.map k c).fill R)) oe = .ok cd →
      ∃ l, nav N (.map k c) st cd = some l ∧ b core = .ok l := by
    intro st fuel oe cd h
    obtain ⟨n, cv, hcv, rfl⟩ := buildCodec_map_inv reg fuel u k _ oe cd h
    obtain ⟨l, hl, hbl⟩ := ihA n false cv hcv
    exact ⟨l, by simpa [nav] using hl, hbl⟩
  exact ⟨key false, fun hu => absurd hu (by show "map" ≠ "union"; decide), fun _ => key true⟩

theorem governs_field {reg : Reg} {sreg : SReg} {env : TEnv} {R : GoType} {b : Schema → Except String Codec}
    {N : Bool} {core : Schema} (hns : ∀ s o, b s ≠ .ok (.string o)) (hflat : RegSchemasFlat sreg)
    (name pkg : String) (pre post : List GoField) (fname j bq : String) (c : Ctx)
    (hinc : nameForField (.mk fname true j bq .bool) ≠ "-")
    (hshadow : ∀ g ∈ post, nameForField g ≠ nameForField (.mk fname true j bq .bool))
    (m : Nat) (ps : List GoType) (u : Schema) (hu : schemaForType sreg env m ps (c.fill R) = .ok u)
    (pre' post' : List SchemaField)
    (hlen : pre'.length = ((pre.map nameForField).filter (· != "-")).length)
    (ih : GovernsAt reg R b N core c u) :
    GovernsAt reg R b N core (.field name pkg pre fname j bq c post)
      (recordSchema name pkg (pre' ++ SchemaField.mk (nameForField (.mk fname true j bq (c.fill R)))
        (omitWrap (omitEmptyTag j) u) :: post')) := by
  obtain ⟨ihA, ihB, ihC⟩ := ih
  have hfl := gen_unionsOk sreg env hflat m ps _ u hu
  let f : GoField := .mk fname true j bq (c.fill R)
  have hfn : nameForField f ≠ "-" := hinc
  have hsh : ∀ g ∈ post, nameForField g ≠ nameForField f := hshadow
  have key : ∀ (st : Bool) fuel oe cd,
      buildCodec reg fuel (recordSchema name pkg (pre' ++ SchemaField.mk (nameForField f)
        (omitWrap (omitEmptyTag j) u) :: post')) (some ((Ctx.field name pkg pre fname j bq c post).fill R)) oe = .ok cd →
      ∃ l, nav N (.field name pkg pre fname j bq c post) st cd = some l ∧ b core = .ok l := by
    intro st fuel oe cd h
    obtain ⟨n, cs, ts, hbf, rfl⟩ := buildCodec_record_inv reg fuel name pkg _ name pkg _ oe cd h
    obtain ⟨m2, fc, hfc, hbuilt⟩ := buildFields_at reg _ pre' post' _ n cs ts hbf
    simp only [SchemaField.name, SchemaField.type] at hbuilt
    rw [lookupField_last pre post f 0 none hfn hsh] at hbuilt
    simp only [GoField.type, GoField.jsonTag, f] at hbuilt
    have hidx : cs[((pre.map nameForField).filter (· != "-")).length]? = some fc := by rw [← hlen]; exact hfc
    by_cases hoe : omitEmptyTag j = true
    · simp only [hoe] at hbuilt
      by_cases hun : u.type = "union"
      · have hw : omitWrap true u = u := by simp [omitWrap, hun]
        rw [hw] at hbuilt
        obtain ⟨tu, ou, bru⟩ := u
        obtain ⟨x, hx, hx1, hx2⟩ := unionsOk_top hfl.1 hun
        have hx' : (Schema.mk tu ou bru).union = [.prim "null", x] := hx
        obtain ⟨n3, c1, hc1, hcase⟩ := buildCodec_union_inv reg m2 _ x _ true fc hun hx' hbuilt
        obtain ⟨l, hl, hbl⟩ := ihB hun x hx' n3 true c1 hc1
        have hnos := nav_not_string hns hl hbl
        rcases hcase with ⟨o, ho, _⟩ | ⟨_, rfl⟩
        · exact absurd ho (hnos o)
        · exact ⟨l, by simp [nav, hidx, hoe, hl], hbl⟩
      · have hw : omitWrap true u = nullableSchema u := by simp [omitWrap, hun]
        rw [hw] at hbuilt
        obtain ⟨n3, c1, hc1, hcase⟩ :=
          buildCodec_union_inv reg m2 _ u _ true fc (nullable_type u) (nullable_union u) hbuilt
        obtain ⟨l, hl, hbl⟩ := ihC hun n3 true c1 hc1
        have hnos := nav_not_string hns hl hbl
        rcases hcase with ⟨o, ho, _⟩ | ⟨_, rfl⟩
        · exact absurd ho (hnos o)
        · exact ⟨l, by simp [nav, hidx, hoe, hl], hbl⟩
    · have hoe' : omitEmptyTag j = false := by simpa using hoe
      simp only [hoe', omitWrap, Bool.false_and, Bool.false_eq_true, if_false] at hbuilt
      obtain ⟨l, hl, hbl⟩ := ihA m2 false fc hbuilt
      exact ⟨l, by simp [nav, hidx, hoe', hl], hbl⟩
  exact ⟨key false, fun hu => absurd hu (by show "record" ≠ "union"; decide), fun _ => key true⟩

/-- **Governing lemma**: at the hole of every context, the codec tree built for the generated schema
holds exactly what the registered builder returns for the core of the registered schema. -/
theorem governs_aux {reg : Reg} {sreg : SReg} {env : TEnv} {R : GoType} {b : Schema → Except String Codec}
    {rs core : Schema} (hR : regLookup reg R = some b) (hS : sregLookup sreg R = some rs)
    (hshape : RegShape rs core) (hflat : RegSchemasFlat sreg) (hbyte : isByteKind env R = false) :
    ∀ (c : Ctx), c.Included → c.NoShadow → ∀ fuelG ps S, schemaForType sreg env fuelG ps (c.fill R) = .ok S →
      GovernsAt reg R b (rs.type == "union") core c S := by
  intro c
  induction c with
  | hole =>
    intro _ _ fuelG ps S h
    have := gen_registered_inv sreg env fuelG ps R rs S hS h
    subst this
    exact governs_hole hR hshape
  | ptr c ih =>
    intro hi hs fuelG ps S h
    obtain ⟨m, u, hu, rfl⟩ := gen_ptr_inv sreg env fuelG ps _ S h
    exact governs_ptr hflat c m _ u hu (ih hi hs m _ u hu)
  | slice c ih =>
    intro hi hs fuelG ps S h
    obtain ⟨m, u, hu, rfl⟩ := gen_slice_inv sreg env fuelG ps _ S (isByteKind_fill env c R hbyte) h
    exact governs_slice c u (ih hi hs m _ u hu)
  | array k c ih =>
    intro hi hs fuelG ps S h
    obtain ⟨m, u, hu, rfl⟩ := gen_array_inv sreg env fuelG ps k _ S (isByteKind_fill env c R hbyte) h
    exact governs_goarray c k u
  | map k c ih =>
    intro hi hs fuelG ps S h
    obtain ⟨m, u, hu, rfl⟩ := gen_map_inv sreg env fuelG ps k _ S h
    exact governs_map c k u (ih hi hs m _ u hu)
  | field name pkg pre fname j bq c post ih =>
    intro hi hs fuelG ps S h
    obtain ⟨m, sfs, hfo, rfl⟩ := gen_struct_inv sreg env fuelG ps name pkg _ S h
    obtain ⟨pre', post', u, hsplit, hu, hlen⟩ :=
      fieldsOf_split _ pre post (.mk fname true j bq (c.fill R)) hi.1 _ hfo
    rw [hsplit]
    exact governs_field (regLookup_shape hR).2.2 hflat name pkg pre post fname j bq c hi.1 hs.1 m _ u hu pre' post' hlen
      (ih hi.2 hs.2 m _ u hu)

/-! ### the schema around the hole -/

/-- `CtxSchema c h S`: `S` is the schema of a type with the schema `h` at the hole of `c`: pointers wrap
by `ptrWrap`, slices and arrays give arrays, maps give maps, a struct gives a record whose field at the
path's position carries the (possibly `omitempty`-wrapped) schema below it -/
inductive CtxSchema : Ctx → Schema → Schema → Prop
  | hole (h : Schema) : CtxSchema .hole h h
  | ptr {c : Ctx} {h u : Schema} : CtxSchema c h u → CtxSchema (.ptr c) h (ptrWrap u)
  | slice {c : Ctx} {h u : Schema} : CtxSchema c h u → CtxSchema (.slice c) h (arraySchema u)
  | array {c : Ctx} {h u : Schema} (n : Nat) : CtxSchema c h u → CtxSchema (.array n c) h (arraySchema u)
  | map {c : Ctx} {h u : Schema} (k : GoType) : CtxSchema c h u → CtxSchema (.map k c) h (mapSchema u)
  | field {c : Ctx} {h u : Schema} (name pkg : String) (pre post : List GoField) (fname j bq : String)
      (pre' post' : List SchemaField) :
      CtxSchema c h u → pre'.length = ((pre.map nameForField).filter (· != "-")).length →
      CtxSchema (.field name pkg pre fname j bq c post) h
        (recordSchema name pkg (pre' ++ SchemaField.mk (nameForField (.mk fname true j bq .bool))
          (omitWrap (omitEmptyTag j) u) :: post'))

theorem governs_schema_aux {sreg : SReg} {env : TEnv} {R : GoType} {rs : Schema}
    (hS : sregLookup sreg R = some rs) (hbyte : isByteKind env R = false) :
    ∀ (c : Ctx), c.Included → ∀ fuelG ps S, schemaForType sreg env fuelG ps (c.fill R) = .ok S →
      CtxSchema c rs S := by
  intro c
  induction c with
  | hole =>
    intro _ fuelG ps S h
    have := gen_registered_inv sreg env fuelG ps R rs S hS h
    subst this
    exact .hole _
  | ptr c ih =>
    intro hi fuelG ps S h
    obtain ⟨m, u, hu, rfl⟩ := gen_ptr_inv sreg env fuelG ps _ S h
    exact .ptr (ih hi m _ u hu)
  | slice c ih =>
    intro hi fuelG ps S h
    obtain ⟨m, u, hu, rfl⟩ := gen_slice_inv sreg env fuelG ps _ S (isByteKind_fill env c R hbyte) h
    exact .slice (ih hi m _ u hu)
  | array k c ih =>
    intro hi fuelG ps S h
    obtain ⟨m, u, hu, rfl⟩ := gen_array_inv sreg env fuelG ps k _ S (isByteKind_fill env c R hbyte) h
    exact .array k (ih hi m _ u hu)
  | map k c ih =>
    intro hi fuelG ps S h
    obtain ⟨m, u, hu, rfl⟩ := gen_map_inv sreg env fuelG ps k _ S h
    exact .map k (ih hi m _ u hu)
  | field name pkg pre fname j bq c post ih =>
    intro hi fuelG ps S h
    obtain ⟨m, sfs, hfo, rfl⟩ := gen_struct_inv sreg env fuelG ps name pkg _ S h
    obtain ⟨pre', post', u, hsplit, hu, hlen⟩ :=
      fieldsOf_split _ pre post (.mk fname true j bq (c.fill R)) hi.1 _ hfo
    rw [hsplit]
    exact .field name pkg pre post fname j bq pre' post' (ih hi.2 m _ u hu) hlen

end Avro
