import AvroModel.Lemmas.ReadSpec
/-!
Read correctness (C03): for every codec the library can build for a schema, every datum of it,
every legal encoding (any block partition, with or without size prefixes, null in either union
position), every destination and every step budget, `read` returns what `ofAvro` specifies and the
exact remainder; a datum that does not fit is an error.
-/
namespace Avro

variable (env : Env)

/-- item encodings: value `vᵢ` has encoding `eᵢ` -/
abbrev ItemsEnc (s : ASchema) (vs : List Value) (es : List Bytes) : Prop :=
  All2 (fun v e => ∃ p, encode p s v = some e) vs es

/-- map entries: `eᵢ` is key `kᵢ` followed by an encoding of `vᵢ` -/
abbrev EntriesEnc (s : ASchema) (kvs : List (Bytes × Value)) (es : List Bytes) : Prop :=
  All2 (fun (kv : Bytes × Value) e => kv.1.length < 2 ^ 63 ∧ ∃ p d, encode p s kv.2 = some d ∧ e = encBytes kv.1 ++ d) kvs es

structure ReadOkAt (n : Nat) : Prop where
  read : ∀ m c s p v bs rest dst, CodecFor c s → encode p s v = some bs →
    ReadSpec (read env n c (bs ++ rest) dst) (ofAvro env m c v dst) rest
  readFields : ∀ m cs ss ts ps vs bs rest fs, CodecsFor cs ss → encodeFields ps ss vs = some bs →
    ReadSpec (readFields env n cs ts (bs ++ rest) fs) (fieldsFit (ofAvro env m) cs ts vs fs) rest
  readItems : ∀ m item s vs es rest acc, CodecFor item s → ItemsEnc s vs es →
    ReadSpec (readItems env n item es.length (es.flatten ++ rest) acc)
      ((mapFit (fun v => ofAvro env m item v (Codec.zero env item)) vs).bind fun gs => .ok (acc ++ gs)) rest
  readArrayBlocks : ∀ m item s bl vs es bs rest acc, CodecFor item s → ItemsEnc s vs es → encBlocks bl es = some bs →
    acc.length + vs.length < 2 ^ 63 →
    ReadSpec (readArrayBlocks env n item (bs ++ rest) acc)
      ((mapFit (fun v => ofAvro env m item v (Codec.zero env item)) vs).bind fun gs => .ok (acc ++ gs)) rest
  readMapItems : ∀ m val s kvs es rest ks0 vs0, CodecFor val s → EntriesEnc s kvs es →
    ReadSpec (readMapItems env n val es.length (es.flatten ++ rest) ks0 vs0)
      ((mapFit (fun v => ofAvro env m val v (Codec.zero env val)) (kvs.map (·.2))).bind fun gs =>
        .ok (assignAll (kvs.map (·.1)) gs ks0 vs0)) rest
  readMapBlocks : ∀ m val s bl kvs es bs rest ks0 vs0, CodecFor val s → EntriesEnc s kvs es → encBlocks bl es = some bs →
    ReadSpec (readMapBlocks env n val (bs ++ rest) ks0 vs0)
      ((mapFit (fun v => ofAvro env m val v (Codec.zero env val)) (kvs.map (·.2))).bind fun gs =>
        .ok (assignAll (kvs.map (·.1)) gs ks0 vs0)) rest

theorem entriesEnc_of {s : ASchema} {vs : List Value} {encs : List Bytes}
    (h : ItemsEnc s vs encs) : ∀ (ks : List Bytes), ks.length = vs.length → (∀ k ∈ ks, k.length < 2 ^ 63) →
    EntriesEnc s (ks.zip vs) (List.zipWith (fun k e => encBytes k ++ e) ks encs) := by
  induction h with
  | nil => intro ks hl _; cases ks <;> simp at hl ⊢; exact .nil
  | cons hr _ ih =>
    intro ks hl hks
    cases ks with
    | nil => simp at hl
    | cons k ks =>
      simp only [List.zip_cons_cons, List.zipWith_cons_cons]
      obtain ⟨p, hp⟩ := hr
      exact .cons ⟨hks k (by simp), p, _, hp, rfl⟩ (ih ks (by simpa using hl) (fun k' hk' => hks k' (by simp [hk'])))

theorem rdByte_writeBool (b : Bool) (rest : Bytes) :
    rdByte (writeBool b ++ rest) = .ok ((if b then 1 else 0), rest) := by
  cases b <;> rfl

theorem zip_map_fst {α β : Type} : ∀ (as : List α) (bs : List β), as.length = bs.length → (as.zip bs).map (·.1) = as := by
  intro as
  induction as with
  | nil => intro bs _; simp
  | cons a as ih => intro bs h; cases bs with
    | nil => simp at h
    | cons b bs => simp [ih bs (by simpa using h)]

theorem zip_map_snd {α β : Type} : ∀ (as : List α) (bs : List β), as.length = bs.length → (as.zip bs).map (·.2) = bs := by
  intro as
  induction as with
  | nil => intro bs h; cases bs <;> simp at h ⊢
  | cons a as ih => intro bs h; cases bs with
    | nil => simp at h
    | cons b bs => simp [ih bs (by simpa using h)]

/-- the selector byte of a nullable union written by the specification -/
theorem sel0 (e rest : Bytes) : rdByte (writeVarint ((0 : Nat) : Int) ++ e ++ rest) = .ok (0, e ++ rest) := by
  have : writeVarint ((0 : Nat) : Int) = [0] := writeVarint_zero
  rw [this]; rfl
theorem sel1 (e rest : Bytes) : rdByte (writeVarint ((1 : Nat) : Int) ++ e ++ rest) = .ok (2, e ++ rest) := by
  have : writeVarint ((1 : Nat) : Int) = [2] := writeVarint_one
  rw [this]; rfl

theorem next_putLE4 (b : Nat) (rest : Bytes) : next 4 (putLE 4 b ++ rest) = .ok (putLE 4 b, rest) := by
  have := next_putLE 4 b rest
  exact_mod_cast this
theorem next_putLE8 (b : Nat) (rest : Bytes) : next 8 (putLE 8 b ++ rest) = .ok (putLE 8 b, rest) := by
  have := next_putLE 8 b rest
  exact_mod_cast this

theorem readOk_read (n : Nat) (ih : ReadOkAt env n) :
    ∀ m c s p v bs rest dst, CodecFor c s → encode p s v = some bs →
    ReadSpec (read env (n + 1) c (bs ++ rest) dst) (ofAvro env m c v dst) rest := by
  intro m c s p v bs rest dst hc he
  cases m with
  | zero => exact ReadSpec.illtyped _ _
  | succ m =>
  have hread := ih.read
  cases hc with
  | null =>
    obtain ⟨rfl, rfl⟩ := encode_null_inv he
    simp only [read, ofAvro, List.nil_append]; exact ReadSpec.ok _ _
  | bool =>
    obtain ⟨b, rfl, rfl⟩ := encode_boolean_inv he
    simp only [read, ofAvro, Outcome.bind_eq, Outcome.pure_eq, rdByte_writeBool, Outcome.bind_ok']
    cases b <;> exact ReadSpec.ok _ _
  | intI =>
    obtain ⟨i, rfl, hr, rfl⟩ := encode_int_inv he
    simp only [read, ofAvro, Outcome.bind_eq, Outcome.pure_eq, rdInt_write _ _ (inRange_32_64 hr)]
    split
    · exact ReadSpec.ok _ _
    · exact ReadSpec.err _
  | intL =>
    obtain ⟨i, rfl, hr, rfl⟩ := encode_long_inv he
    simp only [read, ofAvro, Outcome.bind_eq, Outcome.pure_eq, rdInt_write _ _ hr]
    split
    · exact ReadSpec.ok _ _
    · exact ReadSpec.err _
  | float =>
    obtain ⟨b, rfl, hb, rfl⟩ := encode_float_inv he
    simp only [read, ofAvro, Outcome.bind_eq, Outcome.pure_eq]
    rw [next_putLE4]; simp only [Outcome.bind_ok', getLE_putLE']
    have : b % 256 ^ 4 = b := Nat.mod_eq_of_lt (by omega)
    rw [this]; exact ReadSpec.ok _ _
  | double =>
    obtain ⟨b, rfl, hb, rfl⟩ := encode_double_inv he
    simp only [read, ofAvro, Outcome.bind_eq, Outcome.pure_eq]
    rw [next_putLE8]; simp only [Outcome.bind_ok', getLE_putLE']
    have : b % 256 ^ 8 = b := Nat.mod_eq_of_lt (by omega)
    rw [this]; exact ReadSpec.ok _ _
  | f32double =>
    obtain ⟨b, rfl, hb, rfl⟩ := encode_double_inv he
    simp only [read, ofAvro, Outcome.bind_eq, Outcome.pure_eq]
    rw [next_putLE8]; simp only [Outcome.bind_ok', getLE_putLE']
    have : b % 256 ^ 8 = b := Nat.mod_eq_of_lt (by omega)
    rw [this]; exact ReadSpec.ok _ _
  | bytes =>
    obtain ⟨b, rfl, hl, rfl⟩ := encode_bytes_inv he
    simp only [read, ofAvro, Outcome.bind_eq, Outcome.pure_eq, encBytes, List.append_assoc,
      rdVarint_write _ (inRange_of_nat_lt hl), Outcome.bind_ok']
    cases b with
    | nil => simp; exact ReadSpec.ok _ _
    | cons x xs =>
      have h0 : ¬ (((x :: xs).length : Nat) : Int) = 0 := by simp; omega
      rw [if_neg h0, next_append]
      simp only [Outcome.bind_ok', List.isEmpty_cons]
      exact ReadSpec.ok _ _
  | string =>
    obtain ⟨b, rfl, hl, rfl⟩ := encode_string_inv he
    simp only [read, ofAvro, Outcome.bind_eq, Outcome.pure_eq, encBytes, List.append_assoc,
      rdVarint_write _ (inRange_of_nat_lt hl), Outcome.bind_ok']
    have h0 : ¬ ((b.length : Int) < 0) := by omega
    rw [if_neg h0, next_append]
    exact ReadSpec.ok _ _
  | fixed =>
    obtain ⟨rfl, hl⟩ := encode_fixed_inv he
    simp only [read, ofAvro, Outcome.bind_eq, Outcome.pure_eq]
    subst hl
    rw [next_append]
    exact ReadSpec.ok _ _
  | array hitem =>
    obtain ⟨bl, subs, vs, encs, rfl, rfl, hi, hb⟩ := encode_array_inv he
    cases dst <;> simp only [read, ofAvro] <;> (try exact ReadSpec.illtyped _ _)
    rename_i items
    by_cases hbig : items.length + vs.length ≥ 2 ^ 63
    · simp only [hbig, if_true]; exact ReadSpec.illtyped _ _
    simp only [hbig, if_false]
    simp only [Outcome.bind_eq, Outcome.pure_eq, Fit.bind_eq, Fit.pure_eq]
    have := ih.readArrayBlocks m _ _ bl vs encs bs rest items hitem (encodeItems_inv hi) hb (by omega)
    have h2 := ReadSpec.bind (k := fun x => Outcome.ok (GoVal.slice x.1, x.2)) (k' := fun l => Fit.ok (GoVal.slice l)) (rest := rest) this
      (fun g _ => ReadSpec.ok _ _)
    rw [Fit.bind_assoc] at h2
    exact h2
  | map hval =>
    obtain ⟨bl, subs, ks, vs, encs, rfl, rfl, hlen, hks, hi, hb⟩ := encode_map_inv he
    cases dst <;> simp only [read, ofAvro] <;> (try exact ReadSpec.illtyped _ _)
    rename_i nl ks0 vs0
    simp only [Outcome.bind_eq, Outcome.pure_eq, Fit.bind_eq, Fit.pure_eq]
    have := ih.readMapBlocks m _ _ bl (ks.zip vs) _ bs rest ks0 vs0 hval (entriesEnc_of (encodeItems_inv hi) ks hlen hks) hb
    rw [zip_map_fst ks vs hlen, zip_map_snd ks vs hlen] at this
    have h2 := ReadSpec.bind (k := fun x => Outcome.ok (GoVal.map false x.1.1 x.1.2, x.2))
      (k' := fun (l : List Bytes × List GoVal) => Fit.ok (GoVal.map false l.1 l.2)) (rest := rest) this
      (fun g _ => ReadSpec.ok _ _)
    rw [Fit.bind_assoc] at h2
    exact h2
  | pointer hc' =>
    cases dst <;> simp only [read, ofAvro] <;> (try exact ReadSpec.illtyped _ _)
    rename_i tgt
    cases tgt with
    | none =>
      simp only [Outcome.bind_eq, Outcome.pure_eq, Fit.bind_eq, Fit.pure_eq]
      exact ReadSpec.bind (k := fun x => Outcome.ok (GoVal.ptr (some x.1), x.2)) (hread m _ _ _ _ _ _ _ hc' he) (fun g _ => ReadSpec.ok _ _)
    | some x =>
      simp only [Outcome.bind_eq, Outcome.pure_eq, Fit.bind_eq, Fit.pure_eq]
      exact ReadSpec.bind (k := fun x => Outcome.ok (GoVal.ptr (some x.1), x.2)) (hread m _ _ _ _ _ _ _ hc' he) (fun g _ => ReadSpec.ok _ _)
  | record hcs _ =>
    obtain ⟨bl, subs, vs, rfl, rfl, hf⟩ := encode_record_inv he
    cases dst <;> simp only [read, ofAvro] <;> (try exact ReadSpec.illtyped _ _)
    rename_i fs
    simp only [Outcome.bind_eq, Outcome.pure_eq, Fit.bind_eq, Fit.pure_eq]
    exact ReadSpec.bind (k := fun x => Outcome.ok (GoVal.struct x.1, x.2)) (ih.readFields m _ _ _ _ _ _ _ fs hcs hf) (fun g _ => ReadSpec.ok _ _)
  | @union cs ss hcs =>
    obtain ⟨bl, idx, v', b, p', e, rfl, rfl, hb, he', hi, rfl⟩ := encode_union_inv he
    obtain ⟨c', hc', hf⟩ := hcs.get hb
    have hlen : idx < cs.length := (List.getElem?_eq_some_iff.mp hc').1
    simp only [read, ofAvro, Outcome.bind_eq, hc']
    rw [List.append_assoc, rdVarint_write _ (inRange_of_nat_lt hi)]
    simp only [Outcome.bind_ok']
    have hr : ¬ ((idx : Int) < 0 ∨ (idx : Int) ≥ (cs.length : Nat)) := by omega
    rw [if_neg hr]
    simp only [Int.toNat_natCast, hc']
    exact hread m _ _ _ _ _ _ _ hf he'
  | unionOne0 hc' =>
    obtain ⟨bl, idx, v', b, p', e, rfl, rfl, hb, he', hi, rfl⟩ := encode_union_inv he
    simp only [read, ofAvro, Outcome.bind_eq, Outcome.pure_eq]
    match idx, hb with
    | 0, hb =>
      simp at hb; subst hb
      rw [sel0]; simp
      exact hread m _ _ _ _ _ _ _ hc' he'
    | 1, hb =>
      simp at hb; subst hb
      obtain ⟨_, rfl⟩ := encode_null_inv he'
      rw [sel1]; simp
      exact ReadSpec.ok _ _
    | k + 2, hb => simp at hb
  | unionOne1 hc' =>
    obtain ⟨bl, idx, v', b, p', e, rfl, rfl, hb, he', hi, rfl⟩ := encode_union_inv he
    simp only [read, ofAvro, Outcome.bind_eq, Outcome.pure_eq]
    match idx, hb with
    | 0, hb =>
      simp at hb; subst hb
      obtain ⟨_, rfl⟩ := encode_null_inv he'
      rw [sel0]; simp
      exact ReadSpec.ok _ _
    | 1, hb =>
      simp at hb; subst hb
      rw [sel1]; simp
      exact hread m _ _ _ _ _ _ _ hc' he'
    | k + 2, hb => simp at hb
  | unionNullString0 =>
    obtain ⟨bl, idx, v', b, p', e, rfl, rfl, hb, he', hi, rfl⟩ := encode_union_inv he
    simp only [read, ofAvro, Outcome.bind_eq, Outcome.pure_eq]
    match idx, hb with
    | 0, hb =>
      simp at hb; subst hb
      rw [sel0]; simp
      have := hread (m + 1) (.string false) .string p' v' e rest dst CodecFor.string he'
      obtain ⟨sb, rfl, _, rfl⟩ := encode_string_inv he'
      simpa [ofAvro] using this
    | 1, hb =>
      simp at hb; subst hb
      obtain ⟨_, rfl⟩ := encode_null_inv he'
      rw [sel1]; simp
      exact ReadSpec.ok _ _
    | k + 2, hb => simp at hb
  | unionNullString1 =>
    obtain ⟨bl, idx, v', b, p', e, rfl, rfl, hb, he', hi, rfl⟩ := encode_union_inv he
    simp only [read, ofAvro, Outcome.bind_eq, Outcome.pure_eq]
    match idx, hb with
    | 0, hb =>
      simp at hb; subst hb
      obtain ⟨_, rfl⟩ := encode_null_inv he'
      rw [sel0]; simp
      exact ReadSpec.ok _ _
    | 1, hb =>
      simp at hb; subst hb
      rw [sel1]; simp
      have := hread (m + 1) (.string false) .string p' v' e rest dst CodecFor.string he'
      obtain ⟨sb, rfl, _, rfl⟩ := encode_string_inv he'
      simpa [ofAvro] using this
    | k + 2, hb => simp at hb
  | timeString =>
    obtain ⟨b, rfl, hl, rfl⟩ := encode_string_inv he
    simp only [read, ofAvro, Outcome.bind_eq, Outcome.pure_eq, encBytes, List.append_assoc,
      rdVarint_write _ (inRange_of_nat_lt hl), Outcome.bind_ok']
    cases b with
    | nil => simp; exact ReadSpec.ok _ _
    | cons x xs =>
      have h0 : ¬ (((x :: xs).length : Nat) : Int) = 0 := by simp; omega
      rw [if_neg h0, next_append]
      simp only [Outcome.bind_ok', List.isEmpty_cons]
      cases env.parseTime (x :: xs) with
      | some t => exact ReadSpec.ok _ _
      | none => exact ReadSpec.err _
  | timeLong =>
    obtain ⟨i, rfl, hr, rfl⟩ := encode_long_inv he
    simp only [read, ofAvro, Outcome.bind_eq, Outcome.pure_eq, rdInt_write _ _ hr, if_pos hr, Outcome.bind_ok']
    exact ReadSpec.ok _ _
  | date =>
    obtain ⟨i, rfl, hr, rfl⟩ := encode_int_inv he
    simp only [read, ofAvro, Outcome.bind_eq, Outcome.pure_eq, rdInt_write _ _ (inRange_32_64 hr), if_pos hr, Outcome.bind_ok']
    exact ReadSpec.ok _ _
  | nullInt =>
    obtain ⟨i, rfl, hr, rfl⟩ := encode_long_inv he
    have h1 := hread 1 (.int 64 false) .long p (.int i) _ rest (match dst with | .nullw _ x => x | x => x) CodecFor.intL he
    simp only [ofAvro, if_pos hr] at h1
    simp only [read, ofAvro, nullInner, Outcome.bind_eq, Outcome.pure_eq]
    exact ReadSpec.bind (k' := fun g => Fit.ok (GoVal.nullw true g)) h1 (fun g hg => by cases hg; exact ReadSpec.ok _ _)
  | nullIntI =>
    obtain ⟨i, rfl, hr, rfl⟩ := encode_int_inv he
    have h1 := hread 1 (.int 64 false) .int p (.int i) _ rest (match dst with | .nullw _ x => x | x => x) CodecFor.intI he
    simp only [ofAvro, if_pos (inRange_32_64 hr)] at h1
    simp only [read, ofAvro, nullInner, Outcome.bind_eq, Outcome.pure_eq]
    exact ReadSpec.bind (k' := fun g => Fit.ok (GoVal.nullw true g)) h1 (fun g hg => by cases hg; exact ReadSpec.ok _ _)
  | nullBool =>
    obtain ⟨b, rfl, rfl⟩ := encode_boolean_inv he
    have h1 := hread 1 (.bool false) .boolean p (.bool b) _ rest (match dst with | .nullw _ x => x | x => x) CodecFor.bool he
    simp only [ofAvro] at h1
    simp only [read, ofAvro, nullInner, Outcome.bind_eq, Outcome.pure_eq]
    exact ReadSpec.bind (k' := fun g => Fit.ok (GoVal.nullw true g)) h1 (fun g hg => by cases hg; exact ReadSpec.ok _ _)
  | nullDouble =>
    obtain ⟨b, rfl, hb, rfl⟩ := encode_double_inv he
    have h1 := hread 1 (.double false) .double p (.double b) _ rest (match dst with | .nullw _ x => x | x => x) CodecFor.double he
    simp only [ofAvro] at h1
    simp only [read, ofAvro, nullInner, Outcome.bind_eq, Outcome.pure_eq]
    exact ReadSpec.bind (k' := fun g => Fit.ok (GoVal.nullw true g)) h1 (fun g hg => by cases hg; exact ReadSpec.ok _ _)
  | nullFloat =>
    obtain ⟨b, rfl, hb, rfl⟩ := encode_float_inv he
    have h1 : ∀ d, ReadSpec (read env n (.float false) (putLE 4 b ++ rest) d) (Fit.ok (GoVal.f32 b)) rest := by
      intro d
      have := hread 1 (.float false) .float p (.float b) _ rest d CodecFor.float he
      simpa only [ofAvro] using this
    simp only [read, ofAvro, nullInner, Outcome.bind_eq, Outcome.pure_eq]
    cases dst <;> (
      rcases h1 _ with h | h
      · rw [h]; simp only [Outcome.bind_ok']; exact ReadSpec.ok _ _
      · rw [h]; exact ReadSpec.fuel _ _)
  | nullString =>
    obtain ⟨b, rfl, hl, rfl⟩ := encode_string_inv he
    have h1 := hread 1 (.string false) .string p (.bytes b) _ rest (match dst with | .nullw _ x => x | x => x) CodecFor.string he
    simp only [ofAvro] at h1
    simp only [read, ofAvro, nullInner, Outcome.bind_eq, Outcome.pure_eq]
    exact ReadSpec.bind (k' := fun g => Fit.ok (GoVal.nullw true g)) h1 (fun g hg => by cases hg; exact ReadSpec.ok _ _)
  | nullTime =>
    obtain ⟨b, rfl, hl, rfl⟩ := encode_string_inv he
    have h1 := hread 1 .timeString .string p (.bytes b) _ rest (match dst with | .nullw _ x => x | x => x) CodecFor.timeString he
    simp only [ofAvro] at h1
    simp only [read, ofAvro, nullInner, Outcome.bind_eq, Outcome.pure_eq]
    have h2 := ReadSpec.bind (k := fun x => Outcome.ok (GoVal.nullw true x.1, x.2)) (k' := fun g => Fit.ok (GoVal.nullw true g)) (rest := rest) h1
      (fun g _ => ReadSpec.ok _ _)
    cases hb : b.isEmpty with
    | true => simp only [hb, if_true, Fit.bind_ok'] at h2 ⊢; exact h2
    | false =>
      simp only [hb, Bool.false_eq_true, if_false] at h2 ⊢
      cases hp : env.parseTime b with
      | some t => simp only [hp, Fit.bind_ok'] at h2 ⊢; exact h2
      | none => simp only [hp, Fit.bind_misfit'] at h2 ⊢; exact h2

theorem readOk_readFields (n : Nat) (ih : ReadOkAt env n) (hsk : SkipExactAt env n) :
    ∀ m cs ss ts ps vs bs rest fs, CodecsFor cs ss → encodeFields ps ss vs = some bs →
    ReadSpec (readFields env (n + 1) cs ts (bs ++ rest) fs) (fieldsFit (ofAvro env m) cs ts vs fs) rest := by
  intro m cs ss ts ps vs bs rest fs hcs he
  cases hcs with
  | nil =>
    obtain ⟨rfl, rfl, rfl⟩ := encodeFields_nil_inv he
    simp only [readFields, fieldsFit, List.nil_append]; exact ReadSpec.ok _ _
  | cons h1 h2 =>
    obtain ⟨p, ps', v, vs', a, b, rfl, rfl, ha, hb, rfl⟩ := encodeFields_cons_inv he
    cases ts with
    | nil => simp only [fieldsFit]; exact ReadSpec.illtyped _ _
    | cons t ts =>
      cases t with
      | none =>
        simp only [readFields, fieldsFit, Outcome.bind_eq, List.append_assoc]
        exact ReadSpec.after_skip (hsk.skip _ _ _ _ _ _ h1 ha) (ih.readFields m _ _ _ _ _ _ _ fs h2 hb)
      | some i =>
        simp only [readFields, fieldsFit, List.append_assoc]
        cases hfi : fs[i]? with
        | none => exact ReadSpec.illtyped _ _
        | some cur =>
          simp only [Outcome.bind_eq, Fit.bind_eq]
          exact ReadSpec.bind (k := fun x => readFields env n _ ts x.2 (listSet fs i x.1))
            (ih.read m _ _ _ _ _ _ cur h1 ha) (fun g _ => ih.readFields m _ _ _ _ _ _ _ _ h2 hb)

theorem readOk_readItems (n : Nat) (ih : ReadOkAt env n) :
    ∀ m item s vs es rest acc, CodecFor item s → ItemsEnc s vs es →
    ReadSpec (readItems env (n + 1) item es.length (es.flatten ++ rest) acc)
      ((mapFit (fun v => ofAvro env m item v (Codec.zero env item)) vs).bind fun gs => .ok (acc ++ gs)) rest := by
  intro m item s vs es rest acc hitem henc
  cases henc with
  | nil => simp only [List.length_nil, readItems, mapFit, Fit.bind_ok', List.append_nil, List.flatten_nil, List.nil_append]; exact ReadSpec.ok _ _
  | cons hr ht =>
    obtain ⟨p, hp⟩ := hr
    simp only [List.length_cons, readItems, mapFit, List.flatten_cons, List.append_assoc, Outcome.bind_eq, Fit.bind_eq, Fit.pure_eq]
    rw [Fit.bind_assoc]
    refine ReadSpec.bind (k := fun x => readItems env n item _ x.2 (acc ++ [x.1])) (ih.read m _ _ _ _ _ _ _ hitem hp) ?_
    intro g _
    have := ih.readItems m item s _ _ rest (acc ++ [g]) hitem ht
    rw [Fit.bind_assoc]
    simp only [Fit.bind_ok', List.append_assoc, List.cons_append, List.nil_append] at this ⊢
    exact this

theorem readOk_readArrayBlocks (n : Nat) (ih : ReadOkAt env n) :
    ∀ m item s bl vs es bs rest acc, CodecFor item s → ItemsEnc s vs es → encBlocks bl es = some bs →
    acc.length + vs.length < 2 ^ 63 →
    ReadSpec (readArrayBlocks env (n + 1) item (bs ++ rest) acc)
      ((mapFit (fun v => ofAvro env m item v (Codec.zero env item)) vs).bind fun gs => .ok (acc ++ gs)) rest := by
  intro m item s bl vs es bs rest acc hitem henc hb hfits
  cases bl with
  | nil =>
    obtain ⟨rfl, rfl⟩ := encBlocks_nil_inv hb
    cases henc
    simp only [readArrayBlocks, Outcome.bind_eq, Outcome.pure_eq, mapFit, Fit.bind_ok', List.append_nil]
    rw [rdVarint_write 0 (by unfold inRange; omega)]
    simp only [Outcome.bind_ok', if_true]
    exact ReadSpec.ok _ _
  | cons blk bl =>
    obtain ⟨k, sized⟩ := blk
    obtain ⟨rest', hk0, hkl, hk63, hbody63, hrest, rfl⟩ := encBlocks_cons_inv hb
    have hlenv : vs.length = es.length := henc.length_eq
    have hsplit : vs = vs.take k ++ vs.drop k := (List.take_append_drop k vs).symm
    have htake := henc.take k
    have hdrop := henc.drop k
    have hlen : (es.take k).length = k := by simp; omega
    -- the expected value, split at the block boundary
    rw [hsplit, mapFit_append, Fit.bind_assoc]
    -- the header
    have hkv : k ≤ vs.length := by omega
    have hdr : ∀ tail : Bytes,
        (arrayBlockCount (if sized then -(k : Int) else (k : Int))
          ((if sized then writeVarint ((es.take k).flatten.length : Nat) else []) ++ tail) acc.length) = .ok (k, tail) := by
      intro tail
      unfold arrayBlockCount
      have hr : ¬ ((k : Int) < 0 ∨ (k : Int) > 2 ^ 63 - 1 - (acc.length : Int)) := by omega
      cases sized with
      | true =>
        have h2 : (-(k : Int) < 0) := by omega
        simp only [if_true, h2]
        rw [rdVarint_write _ (inRange_of_nat_lt hbody63)]
        simp only [Outcome.bind_ok']
        have hw : wrap64 (- -(k : Int)) = k := by unfold wrap64; omega
        rw [hw, if_neg hr]; simp
      | false =>
        have h2 : ¬ ((k : Int) < 0) := by omega
        have hr' : ¬ (False ∨ (k : Int) > 2 ^ 63 - 1 - (acc.length : Int)) := fun h => hr (Or.inr (h.resolve_left id))
        simp only [Bool.false_eq_true, if_false, h2, List.nil_append, Outcome.bind_ok']
        rw [if_neg hr']; simp
    simp only [readArrayBlocks, Outcome.bind_eq, Outcome.pure_eq]
    have hcount : rdVarint ((if sized then writeVarint (-(k : Int)) ++ writeVarint ((es.take k).flatten.length : Nat) else writeVarint (k : Int)) ++
        (es.take k).flatten ++ rest' ++ rest) =
        .ok ((if sized then -(k : Int) else (k : Int)),
          (if sized then writeVarint ((es.take k).flatten.length : Nat) else []) ++ ((es.take k).flatten ++ (rest' ++ rest))) := by
      cases sized with
      | true =>
        simp only [if_true, List.append_assoc]
        exact rdVarint_write _ (by unfold inRange; omega) _
      | false =>
        simp only [Bool.false_eq_true, if_false, List.append_assoc, List.nil_append]
        exact rdVarint_write _ (inRange_of_nat_lt hk63) _
    rw [hcount]
    simp only [Outcome.bind_ok']
    have hne : ¬ ((if sized then -(k : Int) else (k : Int)) = 0) := by cases sized <;> simp <;> omega
    rw [if_neg hne, hdr]
    simp only [Outcome.bind_ok']
    have h1 := ih.readItems m item s _ _ (rest' ++ rest) acc hitem htake
    rw [hlen] at h1
    cases hga : mapFit (fun v => ofAvro env m item v (Codec.zero env item)) (vs.take k) with
    | ok ga =>
      rw [hga] at h1; simp only [Fit.bind_ok'] at h1 ⊢
      rcases h1 with h | h
      · rw [h]; simp only [Outcome.bind_ok']
        have hgal : ga.length = (vs.take k).length := mapFit_length _ _ _ hga
        have h2 := ih.readArrayBlocks m item s bl _ _ rest' rest (acc ++ ga) hitem hdrop hrest (by simp [hgal]; omega)
        rw [Fit.bind_assoc]
        simp only [Fit.bind_ok', List.append_assoc] at h2 ⊢
        exact h2
      · rw [h]; exact ReadSpec.fuel _ _
    | misfit =>
      rw [hga] at h1; simp only [Fit.bind_misfit'] at h1 ⊢
      rcases h1 with h | h
      · rw [h]; exact Or.inl rfl
      · rw [h]; exact Or.inr rfl
    | illtyped => exact ReadSpec.illtyped _ _

theorem readOk_readMapItems (n : Nat) (ih : ReadOkAt env n) :
    ∀ m val s kvs es rest ks0 vs0, CodecFor val s → EntriesEnc s kvs es →
    ReadSpec (readMapItems env (n + 1) val es.length (es.flatten ++ rest) ks0 vs0)
      ((mapFit (fun v => ofAvro env m val v (Codec.zero env val)) (kvs.map (·.2))).bind fun gs =>
        .ok (assignAll (kvs.map (·.1)) gs ks0 vs0)) rest := by
  intro m val s kvs es rest ks0 vs0 hval henc
  cases henc with
  | nil =>
    simp only [List.length_nil, readMapItems, List.map_nil, mapFit, Fit.bind_ok', assignAll, List.flatten_nil, List.nil_append]
    exact ReadSpec.ok _ _
  | @cons kv e kvs' es' hr ht =>
    obtain ⟨key, v⟩ := kv
    obtain ⟨hkl, p, d, hp, rfl⟩ := hr
    simp only [List.length_cons, readMapItems, List.map_cons, mapFit, List.flatten_cons, Outcome.bind_eq, Fit.bind_eq, Fit.pure_eq,
      encBytes, List.append_assoc]
    rw [rdVarint_write _ (inRange_of_nat_lt hkl)]
    simp only [Outcome.bind_ok']
    have h0 : ¬ ((key.length : Int) < 0) := by omega
    rw [if_neg h0, next_append]
    simp only [Outcome.bind_ok']
    have h1 := ih.read m val s p v d (es'.flatten ++ rest) (Codec.zero env val) hval hp
    cases hg : ofAvro env m val v (Codec.zero env val) with
    | ok g =>
      rw [hg] at h1
      simp only [Fit.bind_ok']
      rcases h1 with h | h
      · rw [h]; simp only [Outcome.bind_ok']
        have h2 := ih.readMapItems m val s kvs' es' rest (mapAssign key g ks0 vs0).1 (mapAssign key g ks0 vs0).2 hval ht
        rw [Fit.bind_assoc]
        simp only [Fit.bind_ok', assignAll] at h2 ⊢
        exact h2
      · rw [h]; exact ReadSpec.fuel _ _
    | misfit =>
      rw [hg] at h1
      simp only [Fit.bind_misfit']
      rcases h1 with h | h
      · rw [h]; exact Or.inl rfl
      · rw [h]; exact Or.inr rfl
    | illtyped => exact ReadSpec.illtyped _ _

theorem readOk_readMapBlocks (n : Nat) (ih : ReadOkAt env n) :
    ∀ m val s bl kvs es bs rest ks0 vs0, CodecFor val s → EntriesEnc s kvs es → encBlocks bl es = some bs →
    ReadSpec (readMapBlocks env (n + 1) val (bs ++ rest) ks0 vs0)
      ((mapFit (fun v => ofAvro env m val v (Codec.zero env val)) (kvs.map (·.2))).bind fun gs =>
        .ok (assignAll (kvs.map (·.1)) gs ks0 vs0)) rest := by
  intro m val s bl kvs es bs rest ks0 vs0 hval henc hb
  cases bl with
  | nil =>
    obtain ⟨rfl, rfl⟩ := encBlocks_nil_inv hb
    cases henc
    simp only [readMapBlocks, Outcome.bind_eq, Outcome.pure_eq, List.map_nil, mapFit, Fit.bind_ok', assignAll]
    rw [rdVarint_write 0 (by unfold inRange; omega)]
    simp only [Outcome.bind_ok', if_true]
    exact ReadSpec.ok _ _
  | cons blk bl =>
    obtain ⟨k, sized⟩ := blk
    obtain ⟨rest', hk0, hkl, hk63, hbody63, hrest, rfl⟩ := encBlocks_cons_inv hb
    have hlenv : kvs.length = es.length := henc.length_eq
    have hsplit : kvs = kvs.take k ++ kvs.drop k := (List.take_append_drop k kvs).symm
    have htake := henc.take k
    have hdrop := henc.drop k
    have hlen : (es.take k).length = k := by simp; omega
    rw [hsplit, List.map_append, List.map_append, mapFit_append, Fit.bind_assoc]
    have hdr : ∀ tail : Bytes,
        (blockCount (if sized then -(k : Int) else (k : Int))
          ((if sized then writeVarint ((es.take k).flatten.length : Nat) else []) ++ tail)) = .ok (k, tail) := by
      intro tail
      unfold blockCount
      cases sized with
      | true =>
        have h2 : (-(k : Int) < 0) := by omega
        simp only [if_true, h2, Outcome.bind_eq, Outcome.pure_eq]
        rw [rdVarint_write _ (inRange_of_nat_lt hbody63)]
        simp only [Outcome.bind_ok']
        have hw : wrap64 (- -(k : Int)) = k := by unfold wrap64; omega
        rw [hw]
        have h3 : ¬ ((k : Int) < 0) := by omega
        simp [h3]
      | false =>
        have h2 : ¬ ((k : Int) < 0) := by omega
        simp [h2]
    simp only [readMapBlocks, Outcome.bind_eq, Outcome.pure_eq]
    have hcount : rdVarint ((if sized then writeVarint (-(k : Int)) ++ writeVarint ((es.take k).flatten.length : Nat) else writeVarint (k : Int)) ++
        (es.take k).flatten ++ rest' ++ rest) =
        .ok ((if sized then -(k : Int) else (k : Int)),
          (if sized then writeVarint ((es.take k).flatten.length : Nat) else []) ++ ((es.take k).flatten ++ (rest' ++ rest))) := by
      cases sized with
      | true =>
        simp only [if_true, List.append_assoc]
        exact rdVarint_write _ (by unfold inRange; omega) _
      | false =>
        simp only [Bool.false_eq_true, if_false, List.append_assoc, List.nil_append]
        exact rdVarint_write _ (inRange_of_nat_lt hk63) _
    rw [hcount]
    simp only [Outcome.bind_ok']
    have hne : ¬ ((if sized then -(k : Int) else (k : Int)) = 0) := by cases sized <;> simp <;> omega
    rw [if_neg hne, hdr]
    simp only [Outcome.bind_ok']
    have h1 := ih.readMapItems m val s _ _ (rest' ++ rest) ks0 vs0 hval htake
    rw [hlen] at h1
    cases hga : mapFit (fun v => ofAvro env m val v (Codec.zero env val)) ((kvs.take k).map (·.2)) with
    | ok ga =>
      have hgl : ga.length = ((kvs.take k).map (·.2)).length := mapFit_length _ _ _ hga
      rw [hga] at h1; simp only [Fit.bind_ok'] at h1 ⊢
      rcases h1 with h | h
      · rw [h]; simp only [Outcome.bind_ok']
        have h2 := ih.readMapBlocks m val s bl _ _ rest' rest
          (assignAll ((kvs.take k).map (·.1)) ga ks0 vs0).1 (assignAll ((kvs.take k).map (·.1)) ga ks0 vs0).2 hval hdrop hrest
        rw [Fit.bind_assoc]
        simp only [Fit.bind_ok']
        have hassoc : ∀ gb, assignAll ((kvs.take k).map (·.1) ++ (kvs.drop k).map (·.1)) (ga ++ gb) ks0 vs0 =
            assignAll ((kvs.drop k).map (·.1)) gb (assignAll ((kvs.take k).map (·.1)) ga ks0 vs0).1
              (assignAll ((kvs.take k).map (·.1)) ga ks0 vs0).2 := by
          intro gb
          apply assignAll_append
          simp only [List.length_map] at hgl ⊢
          exact hgl.symm
        simp only [hassoc]
        exact h2
      · rw [h]; exact ReadSpec.fuel _ _
    | misfit =>
      rw [hga] at h1; simp only [Fit.bind_misfit'] at h1 ⊢
      rcases h1 with h | h
      · rw [h]; exact Or.inl rfl
      · rw [h]; exact Or.inr rfl
    | illtyped => exact ReadSpec.illtyped _ _

/-- **Read correctness** at every step budget. -/
theorem readOkAt : ∀ n, ReadOkAt env n := by
  intro n
  induction n with
  | zero =>
    constructor <;> intros <;> (first
      | (simp only [read]; exact ReadSpec.fuel _ _)
      | (simp only [readFields]; exact ReadSpec.fuel _ _)
      | (simp only [readItems]; exact ReadSpec.fuel _ _)
      | (simp only [readArrayBlocks]; exact ReadSpec.fuel _ _)
      | (simp only [readMapItems]; exact ReadSpec.fuel _ _)
      | (simp only [readMapBlocks]; exact ReadSpec.fuel _ _))
  | succ n ih =>
    exact ⟨readOk_read env n ih, readOk_readFields env n ih (skipExactAt env n), readOk_readItems env n ih,
      readOk_readArrayBlocks env n ih, readOk_readMapItems env n ih, readOk_readMapBlocks env n ih⟩

end Avro
