import AvroModel.Lemmas.ReadSpec
/-!
Read correctness (C03): for every codec the library can build for a schema, every datum of it,
every legal encoding (any block partition, with or without size prefixes, null in either union
position), every destination and every step budget, `read` returns what `ofAvro` specifies and the
exact remainder; a datum that does not fit is an error.
-/
namespace Avro

variable (env : Env)

/-- item encodings: value `vᵢ` has encoding `eᵢ` -/
abbrev ItemsEnc (s : ASchema) (vs : List Value) (es : List Bytes) : Prop :=
  All2 (fun v e => ∃ p, encode p s v = some e) vs es

/-- map entries: `eᵢ` is key `kᵢ` followed by an encoding of `vᵢ` -/
abbrev EntriesEnc (s : ASchema) (kvs : List (Bytes × Value)) (es : List Bytes) : Prop :=
  All2 (fun (kv : Bytes × Value) e => kv.1.length < 2 ^ 63 ∧ ∃ p d, encode p s kv.2 = some d ∧ e = encBytes kv.1 ++ d) kvs es

structure ReadOkAt (n : Nat) : Prop where
  read : ∀ m c s p v bs rest dst, CodecFor c s → encode p s v = some bs →
    ReadSpec (read env n c (bs ++ rest) dst) (ofAvro env m c v dst) rest
  readFields : ∀ m cs ss ts ps vs bs rest fs, CodecsFor cs ss → encodeFields ps ss vs = some bs →
    ReadSpec (readFields env n cs ts (bs ++ rest) fs) (fieldsFit (ofAvro env m) cs ts vs fs) rest
  readItems : ∀ m item s vs es rest acc, CodecFor item s → ItemsEnc s vs es →
    ReadSpec (readItems env n item es.length (es.flatten ++ rest) acc)
      ((mapFit (fun v => ofAvro env m item v (Codec.zero env item)) vs).bind fun gs => .ok (acc ++ gs)) rest
  readArrayBlocks : ∀ m item s bl vs es bs rest acc, CodecFor item s → ItemsEnc s vs es → encBlocks bl es = some bs →
    ReadSpec (readArrayBlocks env n item (bs ++ rest) acc)
      ((mapFit (fun v => ofAvro env m item v (Codec.zero env item)) vs).bind fun gs => .ok (acc ++ gs)) rest
  readMapItems : ∀ m val s kvs es rest ks0 vs0, CodecFor val s → EntriesEnc s kvs es →
    ReadSpec (readMapItems env n val es.length (es.flatten ++ rest) ks0 vs0)
      ((mapFit (fun v => ofAvro env m val v (Codec.zero env val)) (kvs.map (·.2))).bind fun gs =>
        .ok (assignAll (kvs.map (·.1)) gs ks0 vs0)) rest
  readMapBlocks : ∀ m val s bl kvs es bs rest ks0 vs0, CodecFor val s → EntriesEnc s kvs es → encBlocks bl es = some bs →
    ReadSpec (readMapBlocks env n val (bs ++ rest) ks0 vs0)
      ((mapFit (fun v => ofAvro env m val v (Codec.zero env val)) (kvs.map (·.2))).bind fun gs =>
        .ok (assignAll (kvs.map (·.1)) gs ks0 vs0)) rest

theorem entriesEnc_of {s : ASchema} {vs : List Value} {encs : List Bytes}
    (h : ItemsEnc s vs encs) : ∀ (ks : List Bytes), ks.length = vs.length → (∀ k ∈ ks, k.length < 2 ^ 63) →
    EntriesEnc s (ks.zip vs) (List.zipWith (fun k e => encBytes k ++ e) ks encs) := by
  induction h with
  | nil => intro ks hl _; cases ks <;> simp at hl ⊢; exact .nil
  | cons hr _ ih =>
    intro ks hl hks
    cases ks with
    | nil => simp at hl
    | cons k ks =>
      simp only [List.zip_cons_cons, List.zipWith_cons_cons]
      obtain ⟨p, hp⟩ := hr
      exact .cons ⟨hks k (by simp), p, _, hp, rfl⟩ (ih ks (by simpa using hl) (fun k' hk' => hks k' (by simp [hk'])))

theorem rdByte_writeBool (b : Bool) (rest : Bytes) :
    rdByte (writeBool b ++ rest) = .ok ((if b then 1 else 0), rest) := by
  cases b <;> rfl

theorem zip_map_fst {α β : Type} : ∀ (as : List α) (bs : List β), as.length = bs.length → (as.zip bs).map (·.1) = as := by
  intro as
  induction as with
  | nil => intro bs _; simp
  | cons a as ih => intro bs h; cases bs with
    | nil => simp at h
    | cons b bs => simp [ih bs (by simpa using h)]

theorem zip_map_snd {α β : Type} : ∀ (as : List α) (bs : List β), as.length = bs.length → (as.zip bs).map (·.2) = bs := by
  intro as
  induction as with
  | nil => intro bs h; cases bs <;> simp at h ⊢
  | cons a as ih => intro bs h; cases bs with
    | nil => simp at h
    | cons b bs => simp [ih bs (by simpa using h)]

/-- the selector byte of a nullable union written by the specification -/
theorem sel0 (e rest : Bytes) : rdByte (writeVarint ((0 : Nat) : Int) ++ e ++ rest) = .ok (0, e ++ rest) := by
  have : writeVarint ((0 : Nat) : Int) = [0] := writeVarint_zero
  rw [this]; rfl
theorem sel1 (e rest : Bytes) : rdByte (writeVarint ((1 : Nat) : Int) ++ e ++ rest) = .ok (2, e ++ rest) := by
  have : writeVarint ((1 : Nat) : Int) = [2] := writeVarint_one
  rw [this]; rfl

theorem next_putLE4 (b : Nat) (rest : Bytes) : next 4 (putLE 4 b ++ rest) = .ok (putLE 4 b, rest) := by
  have := next_putLE 4 b rest
  exact_mod_cast this
theorem next_putLE8 (b : Nat) (rest : Bytes) : next 8 (putLE 8 b ++ rest) = .ok (putLE 8 b, rest) := by
  have := next_putLE 8 b rest
  exact_mod_cast this

theorem readOk_read (n : Nat) (ih : ReadOkAt env n) :
    ∀ m c s p v bs rest dst, CodecFor c s → encode p s v = some bs →
    ReadSpec (read env (n + 1) c (bs ++ rest) dst) (ofAvro env m c v dst) rest := by
  intro m c s p v bs rest dst hc he
  cases m with
  | zero => exact ReadSpec.illtyped _ _
  | succ m =>
  have hread := ih.read
  cases hc with
  | null =>
    obtain ⟨rfl, rfl⟩ := encode_null_inv he
    simp only [read, ofAvro, List.nil_append]; exact ReadSpec.ok _ _
  | bool =>
    obtain ⟨b, rfl, rfl⟩ := encode_boolean_inv he
    simp only [read, ofAvro, Outcome.bind_eq, Outcome.pure_eq, rdByte_writeBool, Outcome.bind_ok']
    cases b <;> exact ReadSpec.ok _ _
  | intI =>
    obtain ⟨i, rfl, hr, rfl⟩ := encode_int_inv he
    simp only [read, ofAvro, Outcome.bind_eq, Outcome.pure_eq, rdInt_write _ _ (inRange_32_64 hr)]
    split
    · exact ReadSpec.ok _ _
    · exact ReadSpec.err _
  | intL =>
    obtain ⟨i, rfl, hr, rfl⟩ := encode_long_inv he
    simp only [read, ofAvro, Outcome.bind_eq, Outcome.pure_eq, rdInt_write _ _ hr]
    split
    · exact ReadSpec.ok _ _
    · exact ReadSpec.err _
  | float =>
    obtain ⟨b, rfl, hb, rfl⟩ := encode_float_inv he
    simp only [read, ofAvro, Outcome.bind_eq, Outcome.pure_eq]
    rw [next_putLE4]; simp only [Outcome.bind_ok', getLE_putLE']
    have : b % 256 ^ 4 = b := Nat.mod_eq_of_lt (by omega)
    rw [this]; exact ReadSpec.ok _ _
  | double =>
    obtain ⟨b, rfl, hb, rfl⟩ := encode_double_inv he
    simp only [read, ofAvro, Outcome.bind_eq, Outcome.pure_eq]
    rw [next_putLE8]; simp only [Outcome.bind_ok', getLE_putLE']
    have : b % 256 ^ 8 = b := Nat.mod_eq_of_lt (by omega)
    rw [this]; exact ReadSpec.ok _ _
  | f32double =>
    obtain ⟨b, rfl, hb, rfl⟩ := encode_double_inv he
    simp only [read, ofAvro, Outcome.bind_eq, Outcome.pure_eq]
    rw [next_putLE8]; simp only [Outcome.bind_ok', getLE_putLE']
    have : b % 256 ^ 8 = b := Nat.mod_eq_of_lt (by omega)
    rw [this]; exact ReadSpec.ok _ _
  | bytes =>
    obtain ⟨b, rfl, hl, rfl⟩ := encode_bytes_inv he
    simp only [read, ofAvro, Outcome.bind_eq, Outcome.pure_eq, encBytes, List.append_assoc,
      rdVarint_write _ (inRange_of_nat_lt hl), Outcome.bind_ok']
    cases b with
    | nil => simp; exact ReadSpec.ok _ _
    | cons x xs =>
      have h0 : ¬ (((x :: xs).length : Nat) : Int) = 0 := by simp; omega
      rw [if_neg h0, next_append]
      simp only [Outcome.bind_ok', List.isEmpty_cons]
      exact ReadSpec.ok _ _
  | string =>
    obtain ⟨b, rfl, hl, rfl⟩ := encode_string_inv he
    simp only [read, ofAvro, Outcome.bind_eq, Outcome.pure_eq, encBytes, List.append_assoc,
      rdVarint_write _ (inRange_of_nat_lt hl), Outcome.bind_ok']
    have h0 : ¬ ((b.length : Int) < 0) := by omega
    rw [if_neg h0, next_append]
    exact ReadSpec.ok _ _
  | fixed =>
    obtain ⟨rfl, hl⟩ := encode_fixed_inv he
    simp only [read, ofAvro, Outcome.bind_eq, Outcome.pure_eq]
    subst hl
    rw [next_append]
    exact ReadSpec.ok _ _
  | array hitem =>
    obtain ⟨bl, subs, vs, encs, rfl, rfl, hi, hb⟩ := encode_array_inv he
    cases dst <;> simp only [read, ofAvro] <;> (try exact ReadSpec.illtyped _ _)
    rename_i items
    simp only [Outcome.bind_eq, Outcome.pure_eq, Fit.bind_eq, Fit.pure_eq]
    have := ih.readArrayBlocks m _ _ bl vs encs bs rest items hitem (encodeItems_inv hi) hb
    have h2 := ReadSpec.bind (k := fun x => Outcome.ok (GoVal.slice x.1, x.2)) (k' := fun l => Fit.ok (GoVal.slice l)) (rest := rest) this
      (fun g _ => ReadSpec.ok _ _)
    rw [Fit.bind_assoc] at h2
    exact h2
  | map hval =>
    obtain ⟨bl, subs, ks, vs, encs, rfl, rfl, hlen, hks, hi, hb⟩ := encode_map_inv he
    cases dst <;> simp only [read, ofAvro] <;> (try exact ReadSpec.illtyped _ _)
    rename_i nl ks0 vs0
    simp only [Outcome.bind_eq, Outcome.pure_eq, Fit.bind_eq, Fit.pure_eq]
    have := ih.readMapBlocks m _ _ bl (ks.zip vs) _ bs rest ks0 vs0 hval (entriesEnc_of (encodeItems_inv hi) ks hlen hks) hb
    rw [zip_map_fst ks vs hlen, zip_map_snd ks vs hlen] at this
    have h2 := ReadSpec.bind (k := fun x => Outcome.ok (GoVal.map false x.1.1 x.1.2, x.2))
      (k' := fun (l : List Bytes × List GoVal) => Fit.ok (GoVal.map false l.1 l.2)) (rest := rest) this
      (fun g _ => ReadSpec.ok _ _)
    rw [Fit.bind_assoc] at h2
    exact h2
  | pointer hc' =>
    cases dst <;> simp only [read, ofAvro] <;> (try exact ReadSpec.illtyped _ _)
    rename_i tgt
    cases tgt with
    | none =>
      simp only [Outcome.bind_eq, Outcome.pure_eq, Fit.bind_eq, Fit.pure_eq]
      exact ReadSpec.bind (k := fun x => Outcome.ok (GoVal.ptr (some x.1), x.2)) (hread m _ _ _ _ _ _ _ hc' he) (fun g _ => ReadSpec.ok _ _)
    | some x =>
      simp only [Outcome.bind_eq, Outcome.pure_eq, Fit.bind_eq, Fit.pure_eq]
      exact ReadSpec.bind (k := fun x => Outcome.ok (GoVal.ptr (some x.1), x.2)) (hread m _ _ _ _ _ _ _ hc' he) (fun g _ => ReadSpec.ok _ _)
  | record hcs _ =>
    obtain ⟨bl, subs, vs, rfl, rfl, hf⟩ := encode_record_inv he
    cases dst <;> simp only [read, ofAvro] <;> (try exact ReadSpec.illtyped _ _)
    rename_i fs
    simp only [Outcome.bind_eq, Outcome.pure_eq, Fit.bind_eq, Fit.pure_eq]
    exact ReadSpec.bind (k := fun x => Outcome.ok (GoVal.struct x.1, x.2)) (ih.readFields m _ _ _ _ _ _ _ fs hcs hf) (fun g _ => ReadSpec.ok _ _)
  | @union cs ss hcs =>
    obtain ⟨bl, idx, v', b, p', e, rfl, rfl, hb, he', hi, rfl⟩ := encode_union_inv he
    obtain ⟨c', hc', hf⟩ := hcs.get hb
    have hlen : idx < cs.length := (List.getElem?_eq_some_iff.mp hc').1
    simp only [read, ofAvro, Outcome.bind_eq, hc']
    rw [List.append_assoc, rdVarint_write _ (inRange_of_nat_lt hi)]
    simp only [Outcome.bind_ok']
    have hr : ¬ ((idx : Int) < 0 ∨ (idx : Int) ≥ (cs.length : Nat)) := by omega
    rw [if_neg hr]
    simp only [Int.toNat_natCast, hc']
    exact hread m _ _ _ _ _ _ _ hf he'
  | unionOne0 hc' =>
    obtain ⟨bl, idx, v', b, p', e, rfl, rfl, hb, he', hi, rfl⟩ := encode_union_inv he
    simp only [read, ofAvro, Outcome.bind_eq, Outcome.pure_eq]
    match idx, hb with
    | 0, hb =>
      simp at hb; subst hb
      rw [sel0]; simp
      exact hread m _ _ _ _ _ _ _ hc' he'
    | 1, hb =>
      simp at hb; subst hb
      obtain ⟨_, rfl⟩ := encode_null_inv he'
      rw [sel1]; simp
      exact ReadSpec.ok _ _
    | k + 2, hb => simp at hb
  | unionOne1 hc' =>
    obtain ⟨bl, idx, v', b, p', e, rfl, rfl, hb, he', hi, rfl⟩ := encode_union_inv he
    simp only [read, ofAvro, Outcome.bind_eq, Outcome.pure_eq]
    match idx, hb with
    | 0, hb =>
      simp at hb; subst hb
      obtain ⟨_, rfl⟩ := encode_null_inv he'
      rw [sel0]; simp
      exact ReadSpec.ok _ _
    | 1, hb =>
      simp at hb; subst hb
      rw [sel1]; simp
      exact hread m _ _ _ _ _ _ _ hc' he'
    | k + 2, hb => simp at hb
  | unionNullString0 =>
    obtain ⟨bl, idx, v', b, p', e, rfl, rfl, hb, he', hi, rfl⟩ := encode_union_inv he
    simp only [read, ofAvro, Outcome.bind_eq, Outcome.pure_eq]
    match idx, hb with
    | 0, hb =>
      simp at hb; subst hb
      rw [sel0]; simp
      have := hread (m + 1) (.string false) .string p' v' e rest dst CodecFor.string he'
      obtain ⟨sb, rfl, _, rfl⟩ := encode_string_inv he'
      simpa [ofAvro] using this
    | 1, hb =>
      simp at hb; subst hb
      obtain ⟨_, rfl⟩ := encode_null_inv he'
      rw [sel1]; simp
      exact ReadSpec.ok _ _
    | k + 2, hb => simp at hb
  | unionNullString1 =>
    obtain ⟨bl, idx, v', b, p', e, rfl, rfl, hb, he', hi, rfl⟩ := encode_union_inv he
    simp only [read, ofAvro, Outcome.bind_eq, Outcome.pure_eq]
    match idx, hb with
    | 0, hb =>
      simp at hb; subst hb
      obtain ⟨_, rfl⟩ := encode_null_inv he'
      rw [sel0]; simp
      exact ReadSpec.ok _ _
    | 1, hb =>
      simp at hb; subst hb
      rw [sel1]; simp
      have := hread (m + 1) (.string false) .string p' v' e rest dst CodecFor.string he'
      obtain ⟨sb, rfl, _, rfl⟩ := encode_string_inv he'
      simpa [ofAvro] using this
    | k + 2, hb => simp at hb
  | timeString =>
    obtain ⟨b, rfl, hl, rfl⟩ := encode_string_inv he
    simp only [read, ofAvro, Outcome.bind_eq, Outcome.pure_eq, encBytes, List.append_assoc,
      rdVarint_write _ (inRange_of_nat_lt hl), Outcome.bind_ok']
    cases b with
    | nil => simp; exact ReadSpec.ok _ _
    | cons x xs =>
      have h0 : ¬ (((x :: xs).length : Nat) : Int) = 0 := by simp; omega
      rw [if_neg h0, next_append]
      simp only [Outcome.bind_ok', List.isEmpty_cons]
      cases env.parseTime (x :: xs) with
      | some t => exact ReadSpec.ok _ _
      | none => exact ReadSpec.err _
  | timeLong =>
    obtain ⟨i, rfl, hr, rfl⟩ := encode_long_inv he
    simp only [read, ofAvro, Outcome.bind_eq, Outcome.pure_eq, rdInt_write _ _ hr, if_pos hr, Outcome.bind_ok']
    exact ReadSpec.ok _ _
  | date =>
    obtain ⟨i, rfl, hr, rfl⟩ := encode_int_inv he
    simp only [read, ofAvro, Outcome.bind_eq, Outcome.pure_eq, rdInt_write _ _ (inRange_32_64 hr), if_pos hr, Outcome.bind_ok']
    exact ReadSpec.ok _ _
  | nullInt =>
    obtain ⟨i, rfl, hr, rfl⟩ := encode_long_inv he
    have h1 := hread 1 (.int 64 false) .long p (.int i) _ rest (match dst with | .nullw _ x => x | x => x) CodecFor.intL he
    simp only [ofAvro, if_pos hr] at h1
    simp only [read, ofAvro, nullInner, Outcome.bind_eq, Outcome.pure_eq]
    exact ReadSpec.bind (k' := fun g => Fit.ok (GoVal.nullw true g)) h1 (fun g hg => by cases hg; exact ReadSpec.ok _ _)
  | nullIntI =>
    obtain ⟨i, rfl, hr, rfl⟩ := encode_int_inv he
    have h1 := hread 1 (.int 64 false) .int p (.int i) _ rest (match dst with | .nullw _ x => x | x => x) CodecFor.intI he
    simp only [ofAvro, if_pos (inRange_32_64 hr)] at h1
    simp only [read, ofAvro, nullInner, Outcome.bind_eq, Outcome.pure_eq]
    exact ReadSpec.bind (k' := fun g => Fit.ok (GoVal.nullw true g)) h1 (fun g hg => by cases hg; exact ReadSpec.ok _ _)
  | nullBool =>
    obtain ⟨b, rfl, rfl⟩ := encode_boolean_inv he
    have h1 := hread 1 (.bool false) .boolean p (.bool b) _ rest (match dst with | .nullw _ x => x | x => x) CodecFor.bool he
    simp only [ofAvro] at h1
    simp only [read, ofAvro, nullInner, Outcome.bind_eq, Outcome.pure_eq]
    exact ReadSpec.bind (k' := fun g => Fit.ok (GoVal.nullw true g)) h1 (fun g hg => by cases hg; exact ReadSpec.ok _ _)
  | nullDouble =>
    obtain ⟨b, rfl, hb, rfl⟩ := encode_double_inv he
    have h1 := hread 1 (.double false) .double p (.double b) _ rest (match dst with | .nullw _ x => x | x => x) CodecFor.double he
    simp only [ofAvro] at h1
    simp only [read, ofAvro, nullInner, Outcome.bind_eq, Outcome.pure_eq]
    exact ReadSpec.bind (k' := fun g => Fit.ok (GoVal.nullw true g)) h1 (fun g hg => by cases hg; exact ReadSpec.ok _ _)
  | nullFloat =>
    obtain ⟨b, rfl, hb, rfl⟩ := encode_float_inv he
    have h1 : ∀ d, ReadSpec (read env n (.float false) (putLE 4 b ++ rest) d) (Fit.ok (GoVal.f32 b)) rest := by
      intro d
      have := hread 1 (.float false) .float p (.float b) _ rest d CodecFor.float he
      simpa only [ofAvro] using this
    simp only [read, ofAvro, nullInner, Outcome.bind_eq, Outcome.pure_eq]
    cases dst <;> (
      rcases h1 _ with h | h
      · rw [h]; simp only [Outcome.bind_ok']; exact ReadSpec.ok _ _
      · rw [h]; exact ReadSpec.fuel _ _)
  | nullString =>
    obtain ⟨b, rfl, hl, rfl⟩ := encode_string_inv he
    have h1 := hread 1 (.string false) .string p (.bytes b) _ rest (match dst with | .nullw _ x => x | x => x) CodecFor.string he
    simp only [ofAvro] at h1
    simp only [read, ofAvro, nullInner, Outcome.bind_eq, Outcome.pure_eq]
    exact ReadSpec.bind (k' := fun g => Fit.ok (GoVal.nullw true g)) h1 (fun g hg => by cases hg; exact ReadSpec.ok _ _)
  | nullTime =>
    obtain ⟨b, rfl, hl, rfl⟩ := encode_string_inv he
    have h1 := hread 1 .timeString .string p (.bytes b) _ rest (match dst with | .nullw _ x => x | x => x) CodecFor.timeString he
    simp only [ofAvro] at h1
    simp only [read, ofAvro, nullInner, Outcome.bind_eq, Outcome.pure_eq]
    have h2 := ReadSpec.bind (k := fun x => Outcome.ok (GoVal.nullw true x.1, x.2)) (k' := fun g => Fit.ok (GoVal.nullw true g)) (rest := rest) h1
      (fun g _ => ReadSpec.ok _ _)
    cases hb : b.isEmpty with
    | true => simp only [hb, if_true, Fit.bind_ok'] at h2 ⊢; exact h2
    | false =>
      simp only [hb, Bool.false_eq_true, if_false] at h2 ⊢
      cases hp : env.parseTime b with
      | some t => simp only [hp, Fit.bind_ok'] at h2 ⊢; exact h2
      | none => simp only [hp, Fit.bind_misfit'] at h2 ⊢; exact h2

end Avro
