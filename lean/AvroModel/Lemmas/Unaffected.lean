import AvroModel.Lemmas.SchemaGen
/-! Lemmas for C20 `unaffected`: a registration only matters for types that mention the registered type. -/
namespace Avro

mutual
/-- does the registered type `custom id` occur in the type tree -/
def GoType.mentions (id : Nat) : GoType → Bool
  | .custom i u => i == id || u.mentions id
  | .slice e | .array _ e | .ptr e => e.mentions id
  | .map k v => k.mentions id || v.mentions id
  | .struct _ _ fs => GoField.mentionsList id fs
  | _ => false
def GoField.mentionsList (id : Nat) : List GoField → Bool
  | [] => false
  | .mk _ _ _ _ t :: fs => t.mentions id || GoField.mentionsList id fs
end

theorem mentionsList_mem {id : Nat} {fs : List GoField} (h : GoField.mentionsList id fs = false) {f : GoField}
    (hf : f ∈ fs) : f.type.mentions id = false := by
  induction fs with
  | nil => cases hf
  | cons g gs ih =>
    obtain ⟨n, e, j, b, t⟩ := g
    simp only [GoField.mentionsList, Bool.or_eq_false_iff] at h
    cases hf with
    | head => exact h.1
    | tail _ h' => exact ih h.2 h'

theorem strip_mentions {id : Nat} {t : GoType} (h : t.mentions id = false) : t.strip.mentions id = false := by
  cases t <;> simp_all [GoType.strip, GoType.mentions]

theorem sregLookup_register_ne (sreg : SReg) (id : Nat) (s : Schema) (t : GoType) (h : t.mentions id = false) :
    sregLookup (sreg.register id s) t = sregLookup sreg t := by
  cases t <;> simp only [sregLookup]
  rename_i i u
  simp only [GoType.mentions, Bool.or_eq_false_iff, beq_eq_false_iff_ne, ne_eq] at h
  have : (id == i) = false := by simpa using fun hh => h.1 hh.symm
  simp [SReg.register, assocLookup, this]

theorem genFields_congr (rec rec' : GoType → Gen Schema) (fs : List GoField)
    (h : ∀ f ∈ fs, rec f.type = rec' f.type) : genFields rec fs = genFields rec' fs := by
  induction fs with
  | nil => rfl
  | cons f fs ih =>
    simp only [genFields]
    rw [h f List.mem_cons_self, ih (fun g hg => h g (List.mem_cons_of_mem _ hg))]

theorem genKind_congr (env : TEnv) (id : Nat) (rec rec' : GoType → Gen Schema) (k : GoType)
    (h : ∀ e, e.mentions id = false → rec e = rec' e) (hk : k.mentions id = false) :
    genKind env rec k = genKind env rec' k := by
  cases k <;> simp only [genKind] <;> simp only [GoType.mentions, Bool.or_eq_false_iff] at hk
  case slice e => rw [h e hk]
  case array n e => rw [h e hk]
  case map k v => rw [h v hk.2]
  case ptr e => rw [h e hk]
  case struct name pkg fs =>
    rw [genFields_congr rec rec' fs (fun f hf => h _ (mentionsList_mem hk hf))]

/-- registering a schema for `custom id` does not change the schema generated for a type tree in which
`custom id` does not occur -/
theorem unaffected_schema_aux (sreg : SReg) (env : TEnv) (id : Nat) (s : Schema)
    (henv : ∀ n t, env n = some t → t.mentions id = false) :
    ∀ fuel ps T, T.mentions id = false →
      schemaForType (sreg.register id s) env fuel ps T = schemaForType sreg env fuel ps T := by
  intro fuel
  induction fuel with
  | zero => intro ps T _; rfl
  | succ m ih =>
    intro ps T hT
    rw [schemaForType_succ, schemaForType_succ]
    by_cases hr : ∃ n, T = .ref n
    · obtain ⟨n, rfl⟩ := hr
      simp only [genStep]
      cases he : env n with
      | none => rfl
      | some t' => exact ih ps t' (henv n t' he)
    · have hr' : ∀ n, T ≠ .ref n := fun n hn => hr ⟨n, hn⟩
      rw [genStep_nonref _ _ _ _ _ hr', genStep_nonref _ _ _ _ _ hr']
      unfold genResolved
      rw [sregLookup_register_ne sreg id s T hT]
      cases sregLookup sreg T with
      | some s' => rfl
      | none =>
        simp only
        rw [genKind_congr env id _ _ T.strip (fun e he => ih (ps ++ [T]) e he) (strip_mentions hT),
          genKind_congr env id (schemaForType (sreg.register id s) env m ps) (schemaForType sreg env m ps) T.strip
            (fun e he => ih ps e he) (strip_mentions hT)]

/-! ### codec construction -/

def typOk (id : Nat) : Option GoType → Prop
  | none => True
  | some t => t.mentions id = false

def fieldsOk (id : Nat) : Option (List GoField) → Prop
  | none => True
  | some fs => GoField.mentionsList id fs = false

theorem regLookup_register_ne (reg : Reg) (id : Nat) (acc : Schema → Bool) (t : GoType) (h : t.mentions id = false) :
    regLookup (reg.register id acc) t = regLookup reg t := by
  cases t <;> try rfl
  rename_i i u
  simp only [GoType.mentions, Bool.or_eq_false_iff, beq_eq_false_iff_ne, ne_eq] at h
  simp [regLookup, Reg.register, h.1]

structure UnaffAt (reg : Reg) (id : Nat) (acc : Schema → Bool) (n : Nat) : Prop where
  build : ∀ s typ oe, typOk id typ → buildCodec (reg.register id acc) n s typ oe = buildCodec reg n s typ oe
  kind : ∀ s typ oe, typOk id typ → buildKind (reg.register id acc) n s typ oe = buildKind reg n s typ oe
  union : ∀ bs typ oe, typOk id typ → buildUnion (reg.register id acc) n bs typ oe = buildUnion reg n bs typ oe
  branches : ∀ bs typ oe, typOk id typ → buildBranches (reg.register id acc) n bs typ oe = buildBranches reg n bs typ oe
  fields : ∀ sfs gfs, fieldsOk id gfs → buildFields (reg.register id acc) n sfs gfs = buildFields reg n sfs gfs

theorem unaff_zero (reg : Reg) (id : Nat) (acc : Schema → Bool) : UnaffAt reg id acc 0 :=
  ⟨fun _ _ _ _ => rfl, fun _ _ _ _ => rfl, fun _ _ _ _ => rfl, fun _ _ _ _ => rfl, fun _ _ _ => rfl⟩

theorem unaff_build (reg : Reg) (id : Nat) (acc : Schema → Bool) (n : Nat) (ih : UnaffAt reg id acc n) :
    ∀ s typ oe, typOk id typ → buildCodec (reg.register id acc) (n + 1) s typ oe = buildCodec reg (n + 1) s typ oe := by
  intro s typ oe hok
  simp only [buildCodec]
  split
  · cases typ with
    | none => exact ih.kind s none oe hok
    | some t =>
      by_cases hp : ∃ e, t = .ptr e
      · obtain ⟨e, rfl⟩ := hp
        simp only
        rw [ih.build s (some e) false hok]
      · have hl := regLookup_register_ne reg id acc t hok
        cases t <;> first | exact absurd ⟨_, rfl⟩ hp | (simp only [hl]; rw [ih.kind _ _ _ hok])
  · exact ih.kind s typ oe hok

theorem unaff_union (reg : Reg) (id : Nat) (acc : Schema → Bool) (n : Nat) (ih : UnaffAt reg id acc n) :
    ∀ bs typ oe, typOk id typ → buildUnion (reg.register id acc) (n + 1) bs typ oe = buildUnion reg (n + 1) bs typ oe := by
  intro bs typ oe hok
  simp only [buildUnion]
  split
  · rw [ih.build _ _ _ hok]
  · rw [ih.branches _ _ _ hok]

theorem unaff_branches (reg : Reg) (id : Nat) (acc : Schema → Bool) (n : Nat) (ih : UnaffAt reg id acc n) :
    ∀ bs typ oe, typOk id typ →
      buildBranches (reg.register id acc) (n + 1) bs typ oe = buildBranches reg (n + 1) bs typ oe := by
  intro bs typ oe hok
  cases bs with
  | nil => rfl
  | cons b bs => simp only [buildBranches]; rw [ih.build _ _ _ hok, ih.branches _ _ _ hok]

theorem lookupField_mem (name : String) (fs : List GoField) (i : Nat) (acc : Option (Nat × GoField))
    (r : Nat × GoField) (h : lookupField name fs i acc = some r) : r.2 ∈ fs ∨ acc = some r := by
  induction fs generalizing i acc with
  | nil => right; exact h
  | cons g gs ih =>
    simp only [lookupField] at h
    split at h
    · rcases ih _ _ h with h' | h'
      · left; exact List.mem_cons_of_mem _ h'
      · left; cases h'; exact List.mem_cons_self
    · rcases ih _ _ h with h' | h'
      · left; exact List.mem_cons_of_mem _ h'
      · right; exact h'

theorem unaff_fields (reg : Reg) (id : Nat) (acc : Schema → Bool) (n : Nat) (ih : UnaffAt reg id acc n) :
    ∀ sfs gfs, fieldsOk id gfs → buildFields (reg.register id acc) (n + 1) sfs gfs = buildFields reg (n + 1) sfs gfs := by
  intro sfs gfs hok
  cases sfs with
  | nil => rfl
  | cons sf sfs =>
    simp only [buildFields]
    rw [ih.fields _ _ hok]
    cases gfs with
    | none => simp only; rw [ih.build _ none false trivial]
    | some fs =>
      simp only
      cases hlf : lookupField sf.name fs 0 none with
      | none => simp only; rw [ih.build _ none false trivial]
      | some r =>
        obtain ⟨i, gf⟩ := r
        have hm : gf.type.mentions id = false := by
          rcases lookupField_mem _ _ _ _ _ hlf with h' | h'
          · exact mentionsList_mem hok h'
          · cases h'
        simp only; rw [ih.build _ (some gf.type) _ hm]

theorem typOk_strip {id : Nat} {typ : Option GoType} (h : typOk id typ) : typOk id (typ.map GoType.strip) := by
  cases typ with
  | none => trivial
  | some t => exact strip_mentions h

theorem unaff_kind (reg : Reg) (id : Nat) (acc : Schema → Bool) (n : Nat) (ih : UnaffAt reg id acc n) :
    ∀ s typ oe, typOk id typ → buildKind (reg.register id acc) (n + 1) s typ oe = buildKind reg (n + 1) s typ oe := by
  intro s typ oe hok
  have hk := typOk_strip hok
  simp only [buildKind]
  generalize typ.map GoType.strip = k at hk
  by_cases h1 : s.type = "record"
  · simp [h1]
    cases s.object with
    | none => rfl
    | some o =>
      simp only
      cases k with
      | none => simp only; rw [ih.fields _ none trivial]
      | some t =>
        cases t <;> simp only <;> try rfl
        · rename_i name pkg gfs
          rw [ih.fields _ (some gfs) (by simpa [typOk, GoType.mentions, fieldsOk] using hk)]
        · rw [ih.fields _ (some []) rfl]
        · rw [ih.fields _ (some []) rfl]
  · by_cases h2 : s.type = "array"
    · simp [h2]
      cases s.object with
      | none => rfl
      | some o =>
        simp only
        cases k with
        | none => simp only; rw [ih.build _ none false trivial]
        | some t =>
          cases t <;> simp only <;> try rfl
          rename_i e
          rw [ih.build _ (some e) false (by simpa [typOk, GoType.mentions] using hk)]
    · by_cases h3 : s.type = "map"
      · simp [h3]
        cases s.object with
        | none => rfl
        | some o =>
          simp only
          cases k with
          | none => simp only; rw [ih.build _ none false trivial]
          | some t =>
            cases t <;> simp only <;> try rfl
            rename_i key v
            have hv : typOk id (some v) := by
              simp only [typOk, GoType.mentions, Bool.or_eq_false_iff] at hk; exact hk.2
            rw [ih.build _ (some v) false hv]
      · by_cases h4 : s.type = "union"
        · simp [h4]
          exact ih.union _ _ _ hok
        · simp [h1, h2, h3, h4]

theorem unaff_all (reg : Reg) (id : Nat) (acc : Schema → Bool) : ∀ n, UnaffAt reg id acc n := by
  intro n
  induction n with
  | zero => exact unaff_zero reg id acc
  | succ m ih =>
    exact ⟨unaff_build reg id acc m ih, unaff_kind reg id acc m ih, unaff_union reg id acc m ih,
      unaff_branches reg id acc m ih, unaff_fields reg id acc m ih⟩


end Avro
