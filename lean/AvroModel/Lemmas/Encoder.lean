import AvroModel.Encoder
/-! Helper lemmas about the writer / encoder model. -/
namespace Avro

/-- fault-free writer -/
def WState.Free (w : WState) : Prop := w.failAt = 0

theorem write_free {w : WState} (h : w.Free) (d : Bytes) :
    w.write d = ({ w with calls := w.calls + 1, accepted := w.accepted ++ d, log := w.log ++ [d] }, true) := by
  unfold WState.write
  have : ¬ (w.calls + 1 = w.failAt) := by unfold WState.Free at h; omega
  simp [this]

theorem write_free_free {w : WState} (h : w.Free) (d : Bytes) : (w.write d).1.Free := by
  rw [write_free h]; exact h

theorem writeAll_free {w : WState} (h : w.Free) (ds : List Bytes) :
    ∃ w', w.writeAll ds = (w', true) ∧ w'.Free ∧ w'.accepted = w.accepted ++ ds.flatten ∧
      w'.log = w.log ++ ds ∧ w'.calls = w.calls + ds.length := by
  induction ds generalizing w with
  | nil => exact ⟨w, rfl, h, by simp, by simp, by simp⟩
  | cons d ds ih =>
    have hf := write_free_free h d
    obtain ⟨w', hw, hfree, hacc, hlog, hcalls⟩ := ih hf
    refine ⟨w', ?_, hfree, ?_, ?_, ?_⟩
    · simp only [WState.writeAll]
      rw [write_free h] at hw ⊢
      exact hw
    · rw [hacc, write_free h]; simp
    · rw [hlog, write_free h]; simp
    · rw [hcalls, write_free h]; simp; omega

end Avro
