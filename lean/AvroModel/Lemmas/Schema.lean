import AvroModel.Schema
/-! Helper lemmas about the schema JSON model (used by Props/C14). -/
set_option linter.unusedSimpArgs false
namespace Avro

theorem Schema.marshalsEmpty_iff (s : Schema) : s.marshalsEmpty = true ↔ s = Schema.zero := by
  match s with
  | .mk t none [] => simp [Schema.marshalsEmpty, Schema.zero]
  | .mk t none (u :: us) => simp [Schema.marshalsEmpty, Schema.zero]
  | .mk t (some o) u => simp [Schema.marshalsEmpty, Schema.zero]

theorem decStrings_map_str (a : String) (ys : List String) :
    decStrings a (.arr (ys.map Json.str)) = .ok ys := by
  simp only [decStrings]
  induction ys with
  | nil => rfl
  | cons y ys ih => simp [List.mapM_cons, decString, ih, bind, Except.bind, pure, Except.pure]

/-- parsing the member list written by `MarshalJSONTo` for an object-form schema restores the object -/
theorem pOM_marshal (t l n ns : String) (f : List SchemaField) (i v : Schema) (sz : Int) (y : List String)
    (hf : t = "record" ∨ f = []) (hi : t = "array" ∨ i = Schema.zero) (hv : t = "map" ∨ v = Schema.zero)
    (hsz : t = "fixed" ∨ sz = 0) (hy : t = "enum" ∨ y = [])
    (hrange : minInt64 ≤ sz ∧ sz ≤ maxInt64)
    (ihf : parseFieldList (marshalFields f) = .ok f)
    (ihi : parseSchema (marshalSchema i) = .ok i) (ihv : parseSchema (marshalSchema v) = .ok v) :
    parseObjMembers [] SchemaObject.zero
      ([("type", Json.str t)] ++ optMember "logicalType" l ++ optMember "name" n ++ optMember "namespace" ns
        ++ marshalAttr t (.mk "" l n ns f i v sz y)) = .ok (.mk t l n ns f i v sz y) := by
  by_cases hl : l = "" <;> by_cases hn : n = "" <;> by_cases hns : ns = "" <;>
  by_cases h1 : t = "record" <;> by_cases h2 : t = "enum" <;> by_cases h3 : t = "array" <;>
  by_cases h4 : t = "map" <;> by_cases h5 : t = "fixed" <;>
  simp_all [optMember, marshalAttr, parseObjMembers, decodeAttr, decString, decInt, applyAttr, parseFields,
    SchemaObject.zero, Schema.zero, bind, Except.bind, decStrings_map_str]

/-- the same for one record field (library `omitempty` encoding) -/
theorem pFM_marshal (n : String) (t : Schema) (iht : parseSchema (marshalSchema t) = .ok t) :
    parseField (marshalField (.mk n t)) = .ok (.mk n t) := by
  by_cases hn : n = "" <;> by_cases ht : t.marshalsEmpty = true
  all_goals
    first
    | (have ht' := (Schema.marshalsEmpty_iff t).1 ht
       simp_all [marshalField, parseField, optMember, parseFieldMembers, decodeFAttr, decString, applyFAttr,
         SchemaField.zero, Schema.zero, bind, Except.bind, SchemaField.name, SchemaField.type])
    | simp_all [marshalField, parseField, optMember, parseFieldMembers, decodeFAttr, decString, applyFAttr,
         SchemaField.zero, Schema.zero, bind, Except.bind, SchemaField.name, SchemaField.type]

/-- result of a parse with the error class forgotten (the implementation is compared on
ok-versus-error only) -/
def PResult.opt {α} : PResult α → Option α
  | .ok x => some x
  | .error _ => none

@[simp] theorem PResult.opt_ok {α} (x : α) : PResult.opt (.ok x : PResult α) = some x := rfl
@[simp] theorem PResult.opt_error {α} (e : PErr) : PResult.opt (.error e : PResult α) = none := rfl

theorem PResult.opt_bind_congr {α β} {r r' : PResult α} {f f' : α → PResult β}
    (h : PResult.opt r = PResult.opt r') (hf : ∀ x, PResult.opt (f x) = PResult.opt (f' x)) :
    PResult.opt (r >>= f) = PResult.opt (r' >>= f') := by
  cases r <;> cases r' <;> simp_all [PResult.opt, bind, Except.bind]

/-- generic form of the library's struct decoding loop (`parseObjMembers`, `parseFieldMembers`) -/
def foldMembers {α σ} (dec : String → Json → PResult (Option α)) (app : Option α → σ → σ)
    (seen : List String) (st : σ) : List (String × Json) → PResult σ
  | [] => .ok st
  | (k, v) :: ms =>
    if seen.contains k then .error (.duplicate k) else do
      let a ← dec k v
      foldMembers dec app (k :: seen) (app a st) ms

def decObj (k : String) (v : Json) : PResult (Option Attr) :=
  decodeAttr k v (fun _ => parseSchema v) (fun _ => parseFields v)
def decFld (k : String) (v : Json) : PResult (Option FAttr) :=
  decodeFAttr k v (fun _ => parseSchema v)

theorem pOM_eq_fold (seen : List String) (o : SchemaObject) (ms : List (String × Json)) :
    parseObjMembers seen o ms = foldMembers decObj applyAttr seen o ms := by
  induction ms generalizing seen o with
  | nil => simp [parseObjMembers, foldMembers]
  | cons m ms ih =>
    obtain ⟨k, v⟩ := m
    simp only [parseObjMembers, foldMembers, decObj, ih]

theorem pFM_eq_fold (seen : List String) (f : SchemaField) (ms : List (String × Json)) :
    parseFieldMembers seen f ms = foldMembers decFld applyFAttr seen f ms := by
  induction ms generalizing seen f with
  | nil => simp [parseFieldMembers, foldMembers]
  | cons m ms ih =>
    obtain ⟨k, v⟩ := m
    simp only [parseFieldMembers, foldMembers, decFld, ih]

section fold
variable {α σ : Type} (dec : String → Json → PResult (Option α)) (app : Option α → σ → σ)

/-- the outcome depends on `seen` only as a set -/
theorem fold_seen_congr (ms : List (String × Json)) (seen seen' : List String) (st : σ)
    (h : ∀ k, k ∈ seen ↔ k ∈ seen') :
    foldMembers dec app seen st ms = foldMembers dec app seen' st ms := by
  induction ms generalizing seen seen' st with
  | nil => rfl
  | cons m ms ih =>
    obtain ⟨k, v⟩ := m
    have hc : seen.contains k = seen'.contains k := by
      rw [Bool.eq_iff_iff]; simp [h k]
    simp only [foldMembers, hc]
    split
    · rfl
    · congr 1; funext a; apply ih; intro k'; simp [h k']

/-- decoding two members with different names in either order gives the same struct -/
def Commutes : Prop :=
  ∀ k1 v1 k2 v2 a1 a2 (st : σ), k1 ≠ k2 → dec k1 v1 = .ok a1 → dec k2 v2 = .ok a2 →
    app a1 (app a2 st) = app a2 (app a1 st)

theorem fold_perm (hc : Commutes dec app) {ms ms' : List (String × Json)} (hp : List.Perm ms ms')
    (seen : List String) (st : σ) :
    PResult.opt (foldMembers dec app seen st ms) = PResult.opt (foldMembers dec app seen st ms') := by
  induction hp generalizing seen st with
  | nil => rfl
  | cons m _ ih =>
    obtain ⟨k, v⟩ := m
    simp only [foldMembers]
    split
    · rfl
    · exact PResult.opt_bind_congr rfl (fun a => ih _ _)
  | swap m1 m2 l =>
    obtain ⟨k1, v1⟩ := m1
    obtain ⟨k2, v2⟩ := m2
    by_cases h12 : k1 = k2
    · subst h12
      by_cases hs : k1 ∈ seen
      · simp [foldMembers, hs]
      · cases h1 : dec k1 v1 <;> cases h2 : dec k1 v2 <;> simp [foldMembers, hs, h1, h2, bind, Except.bind, PResult.opt]
    · have h21 : ¬ k2 = k1 := fun h => h12 h.symm
      by_cases hs1 : k1 ∈ seen <;> by_cases hs2 : k2 ∈ seen
      · simp [foldMembers, hs1, hs2]
      · cases h2 : dec k2 v2 <;> simp [foldMembers, hs1, hs2, h2, bind, Except.bind, PResult.opt]
      · cases h1 : dec k1 v1 <;> simp [foldMembers, hs1, hs2, h1, bind, Except.bind, PResult.opt]
      · cases h1 : dec k1 v1 <;> cases h2 : dec k2 v2 <;>
          simp [foldMembers, hs1, hs2, h12, h21, h1, h2, bind, Except.bind, PResult.opt]
        rename_i a1 a2
        rw [hc k1 v1 k2 v2 a1 a2 st h12 h1 h2]
        rw [fold_seen_congr dec app l (k1 :: k2 :: seen) (k2 :: k1 :: seen)]
        intro k; simp only [List.mem_cons]
        constructor <;> (intro h; rcases h with h | h | h <;> simp [h])
  | trans _ _ ih1 ih2 => exact (ih1 seen st).trans (ih2 seen st)


theorem fold_extras (hnone : ∀ st, app none st = st) (ex : List (String × Json))
    (hex : ∀ e ∈ ex, dec e.1 e.2 = .ok none) (hnd : (ex.map (·.1)).Nodup)
    (seen : List String) (hseen : ∀ e ∈ ex, e.1 ∉ seen) (st : σ) :
    foldMembers dec app seen st ex = .ok st := by
  induction ex generalizing seen with
  | nil => rfl
  | cons e ex ih =>
    obtain ⟨k, v⟩ := e
    have hk : k ∉ seen := hseen (k, v) (by simp)
    have hd : dec k v = .ok none := hex (k, v) (by simp)
    simp only [List.map_cons, List.nodup_cons] at hnd
    simp only [foldMembers, List.contains_eq_mem, hk, decide_false, hd, bind, Except.bind, hnone]
    apply ih (fun e he => hex e (by simp [he])) hnd.2
    intro e he
    simp only [List.mem_cons, not_or]
    refine ⟨?_, hseen e (by simp [he])⟩
    intro h; apply hnd.1; rw [← h]; exact List.mem_map_of_mem he

theorem fold_append_extras (hnone : ∀ st, app none st = st) (ms ex : List (String × Json))
    (hex : ∀ e ∈ ex, dec e.1 e.2 = .ok none) (hnd : (ex.map (·.1)).Nodup)
    (hdisj : ∀ e ∈ ex, e.1 ∉ ms.map (·.1))
    (seen : List String) (hseen : ∀ e ∈ ex, e.1 ∉ seen) (st : σ) :
    foldMembers dec app seen st (ms ++ ex) = foldMembers dec app seen st ms := by
  induction ms generalizing seen st with
  | nil =>
    simp only [List.nil_append, foldMembers]
    exact fold_extras dec app hnone ex hex hnd seen hseen st
  | cons m ms ih =>
    obtain ⟨k, v⟩ := m
    simp only [List.cons_append, foldMembers]
    split
    · rfl
    · congr 1; funext a
      apply ih
      · intro e he h; exact hdisj e he (by simp [h])
      · intro e he
        simp only [List.mem_cons, not_or]
        refine ⟨?_, hseen e he⟩
        intro h; exact hdisj e he (by simp [h])

/-- a successful decoding loop has seen no name twice -/
theorem fold_ok_nodup (ms : List (String × Json)) (seen : List String) (st st' : σ)
    (h : foldMembers dec app seen st ms = .ok st') :
    (ms.map (·.1)).Nodup ∧ ∀ k ∈ ms.map (·.1), k ∉ seen := by
  induction ms generalizing seen st with
  | nil => simp
  | cons m ms ih =>
    obtain ⟨k, v⟩ := m
    simp only [foldMembers, List.contains_eq_mem] at h
    by_cases hk : k ∈ seen
    · simp [hk] at h
    · cases hd : dec k v with
      | error e => simp [hk, hd, bind, Except.bind] at h
      | ok a =>
        simp only [hk, decide_false, hd, bind, Except.bind] at h
        have := ih _ _ h
        simp only [List.map_cons, List.nodup_cons, List.mem_cons, forall_eq_or_imp]
        refine ⟨⟨?_, this.1⟩, hk, ?_⟩
        · intro hm; exact this.2 k hm (by simp)
        · intro k' hk' hs; exact this.2 k' hk' (by simp [hs])

/-- a member whose value cannot be decoded makes the whole object fail, wherever it stands -/
theorem fold_member_error (ms : List (String × Json)) (k : String) (v : Json) (hm : (k, v) ∈ ms)
    (hd : PResult.opt (dec k v) = none) (seen : List String) (st : σ) :
    PResult.opt (foldMembers dec app seen st ms) = none := by
  induction ms generalizing seen st with
  | nil => simp at hm
  | cons m ms ih =>
    obtain ⟨k', v'⟩ := m
    simp only [foldMembers]
    split
    · rfl
    · cases hd' : dec k' v' with
      | error e => simp [bind, Except.bind]
      | ok a =>
        simp only [bind, Except.bind]
        rcases List.mem_cons.1 hm with h | h
        · injection h with h1 h2; subst h1 h2; simp [hd'] at hd
        · exact ih h _ _

end fold

/-! ### Instances of the generic lemmas for `SchemaObject` and `SchemaRecordField` -/

theorem decodeAttr_key {k : String} {v : Json} {f g} {a : Attr} (h : decodeAttr k v f g = .ok (some a)) :
    a.key = k := by
  unfold decodeAttr at h
  repeat' split at h
  all_goals
    first
    | (simp only [bind, Except.bind] at h
       split at h <;> simp at h
       subst h; simp_all [Attr.key])
    | simp at h

theorem decodeFAttr_key {k : String} {v : Json} {f} {a : FAttr} (h : decodeFAttr k v f = .ok (some a)) :
    a.key = k := by
  unfold decodeFAttr at h
  repeat' split at h
  all_goals
    first
    | (simp only [bind, Except.bind] at h
       split at h <;> simp at h
       subst h; simp_all [FAttr.key])
    | simp at h

theorem applyAttr_comm (a b : Attr) (h : a.key ≠ b.key) (o : SchemaObject) :
    applyAttr (some a) (applyAttr (some b) o) = applyAttr (some b) (applyAttr (some a) o) := by
  cases o; cases a <;> cases b <;> first | rfl | (exfalso; simp [Attr.key] at h)

theorem applyFAttr_comm (a b : FAttr) (h : a.key ≠ b.key) (o : SchemaField) :
    applyFAttr (some a) (applyFAttr (some b) o) = applyFAttr (some b) (applyFAttr (some a) o) := by
  cases o; cases a <;> cases b <;> first | rfl | (exfalso; simp [FAttr.key] at h)

theorem commutes_obj : Commutes decObj applyAttr := by
  intro k1 v1 k2 v2 a1 a2 st h12 h1 h2
  cases a1 with
  | none => rfl
  | some a1 =>
    cases a2 with
    | none => rfl
    | some a2 =>
      apply applyAttr_comm
      rw [decodeAttr_key h1, decodeAttr_key h2]; exact h12

theorem commutes_fld : Commutes decFld applyFAttr := by
  intro k1 v1 k2 v2 a1 a2 st h12 h1 h2
  cases a1 with
  | none => rfl
  | some a1 =>
    cases a2 with
    | none => rfl
    | some a2 =>
      apply applyFAttr_comm
      rw [decodeFAttr_key h1, decodeFAttr_key h2]; exact h12

end Avro
