import AvroModel.Lemmas.SkipExact
import AvroModel.Sem
/-! Supporting lemmas for the read-correctness theorem (C03). -/
namespace Avro

@[simp] theorem Fit.bind_ok' {α β : Type} (a : α) (k : α → Fit β) : Fit.bind (.ok a) k = k a := rfl
@[simp] theorem Fit.bind_misfit' {α β : Type} (k : α → Fit β) : Fit.bind (.misfit : Fit α) k = .misfit := rfl
@[simp] theorem Fit.bind_illtyped' {α β : Type} (k : α → Fit β) : Fit.bind (.illtyped : Fit α) k = .illtyped := rfl
@[simp] theorem Fit.bind_eq {α β : Type} (f : Fit α) (k : α → Fit β) : (f >>= k) = Fit.bind f k := rfl
@[simp] theorem Fit.pure_eq {α : Type} (a : α) : (pure a : Fit α) = .ok a := rfl

theorem Fit.bind_assoc {α β γ : Type} (f : Fit α) (k : α → Fit β) (k' : β → Fit γ) :
    (f.bind k).bind k' = f.bind (fun a => (k a).bind k') := by
  cases f <;> rfl

/-- what `read` must return when the datum's delivery is `f`: the value and the exact remainder
(or out of budget); an error when the datum does not fit; nothing is claimed for ill-typed
combinations, which typing excludes. -/
def ReadSpec {α : Type} (o : Outcome (α × Bytes)) (f : Fit α) (rest : Bytes) : Prop :=
  match f with
  | .ok g => OkOrFuel o (g, rest)
  | .misfit => o = .err ∨ o = .fuel
  | .illtyped => True

theorem ReadSpec.fuel {α : Type} (f : Fit α) (rest : Bytes) : ReadSpec (.fuel : Outcome (α × Bytes)) f rest := by
  cases f <;> simp [ReadSpec, OkOrFuel]

theorem ReadSpec.ok {α : Type} (g : α) (rest : Bytes) : ReadSpec (.ok (g, rest)) (.ok g) rest := Or.inl rfl

theorem ReadSpec.err {α : Type} (rest : Bytes) : ReadSpec (.err : Outcome (α × Bytes)) (.misfit) rest := Or.inl rfl

theorem ReadSpec.illtyped {α : Type} (o : Outcome (α × Bytes)) (rest : Bytes) : ReadSpec o (.illtyped) rest := trivial

theorem ReadSpec.bind {α β : Type} {o : Outcome (α × Bytes)} {f : Fit α} {mid rest : Bytes}
    {k : α × Bytes → Outcome (β × Bytes)} {k' : α → Fit β}
    (h1 : ReadSpec o f mid) (h2 : ∀ g, f = .ok g → ReadSpec (k (g, mid)) (k' g) rest) :
    ReadSpec (o.bind k) (f.bind k') rest := by
  cases f with
  | ok g =>
    rcases h1 with h | h
    · rw [h]; exact h2 g rfl
    · rw [h]; exact ReadSpec.fuel _ _
  | misfit =>
    rcases h1 with h | h
    · rw [h]; exact Or.inl rfl
    · rw [h]; exact Or.inr rfl
  | illtyped => trivial

/-- sequencing after a skip (fields that are not in the target struct) -/
theorem ReadSpec.after_skip {β : Type} {o : Outcome Bytes} {mid rest : Bytes}
    {k : Bytes → Outcome (β × Bytes)} {f : Fit β}
    (h1 : OkOrFuel o mid) (h2 : ReadSpec (k mid) f rest) : ReadSpec (o.bind k) f rest := by
  rcases h1 with h | h
  · rw [h]; exact h2
  · rw [h]; exact ReadSpec.fuel _ _

/-! list lemmas -/

theorem All2.length_eq {α β : Type} {R : α → β → Prop} {as : List α} {bs : List β} (h : All2 R as bs) : as.length = bs.length := by
  induction h with
  | nil => rfl
  | cons _ _ ih => simp [ih]

theorem All2.take {α β : Type} {R : α → β → Prop} {as : List α} {bs : List β} (h : All2 R as bs) (n : Nat) :
    All2 R (as.take n) (bs.take n) := by
  induction h generalizing n with
  | nil => simp; exact .nil
  | cons hr _ ih =>
    cases n with
    | zero => simp; exact .nil
    | succ n => simp; exact .cons hr (ih n)

theorem All2.drop {α β : Type} {R : α → β → Prop} {as : List α} {bs : List β} (h : All2 R as bs) (n : Nat) :
    All2 R (as.drop n) (bs.drop n) := by
  induction h generalizing n with
  | nil => simp; exact .nil
  | cons hr ht ih =>
    cases n with
    | zero => simp; exact .cons hr ht
    | succ n => simp; exact ih n

theorem mapFit_append (f : Value → Fit GoVal) (a b : List Value) :
    mapFit f (a ++ b) = (mapFit f a).bind fun ga => (mapFit f b).bind fun gb => .ok (ga ++ gb) := by
  induction a with
  | nil => simp [mapFit]; cases mapFit f b <;> rfl
  | cons v a ih =>
    simp only [List.cons_append, mapFit, Fit.bind_eq, Fit.pure_eq, ih]
    cases f v with
    | ok g =>
      simp only [Fit.bind_ok']
      cases mapFit f a with
      | ok ga =>
        simp only [Fit.bind_ok']
        cases mapFit f b <;> simp
      | misfit => rfl
      | illtyped => rfl
    | misfit => rfl
    | illtyped => rfl

theorem mapFit_length (f : Value → Fit GoVal) : ∀ (vs : List Value) (gs : List GoVal), mapFit f vs = .ok gs → gs.length = vs.length := by
  intro vs
  induction vs with
  | nil => intro gs h; simp [mapFit] at h; cases h; rfl
  | cons v vs ih =>
    intro gs h
    simp only [mapFit, Fit.bind_eq, Fit.pure_eq] at h
    cases hv : f v with
    | ok g =>
      rw [hv] at h; simp only [Fit.bind_ok'] at h
      cases hm : mapFit f vs with
      | ok gs' => rw [hm] at h; simp only [Fit.bind_ok'] at h; cases h; simp [ih gs' hm]
      | misfit => rw [hm] at h; cases h
      | illtyped => rw [hm] at h; cases h
    | misfit => rw [hv] at h; cases h
    | illtyped => rw [hv] at h; cases h

theorem assignAll_append : ∀ (k1 : List Bytes) (g1 : List GoVal) (k2 : List Bytes) (g2 : List GoVal) (ks0 : List Bytes) (vs0 : List GoVal),
    k1.length = g1.length →
    assignAll (k1 ++ k2) (g1 ++ g2) ks0 vs0 =
      assignAll k2 g2 (assignAll k1 g1 ks0 vs0).1 (assignAll k1 g1 ks0 vs0).2 := by
  intro k1
  induction k1 with
  | nil => intro g1 k2 g2 ks0 vs0 h; cases g1 with
    | nil => cases k2 <;> cases g2 <;> simp [assignAll]
    | cons _ _ => simp at h
  | cons k k1 ih =>
    intro g1 k2 g2 ks0 vs0 h
    cases g1 with
    | nil => simp at h
    | cons g g1 =>
      simp only [List.cons_append, assignAll]
      exact ih g1 k2 g2 _ _ (by simpa using h)

/-! primitives on what the specification writes (read side) -/

theorem rdInt_write (w : Nat) (i : Int) (hi : inRange 64 i) (rest : Bytes) :
    rdInt w (writeVarint i ++ rest) = if inRange w i then .ok (i, rest) else .err := by
  unfold rdInt readInt
  rw [readVarint_writeVarint i hi]
  by_cases h : inRange w i <;> simp [h]

theorem getLE_putLE' (k n : Nat) : getLE (putLE k n) = n % 256 ^ k := by
  induction k generalizing n with
  | zero => simp [putLE, getLE, Nat.mod_one]
  | succ k ih =>
    simp only [putLE, getLE, ih]
    rw [toUInt8_toNat (Nat.mod_lt _ (by omega))]
    rw [Nat.pow_succ, Nat.mul_comm (256 ^ k) 256, Nat.mod_mul]

theorem next_putLE (k n : Nat) (rest : Bytes) : next (k : Int) (putLE k n ++ rest) = .ok (putLE k n, rest) := by
  have := next_append (putLE k n) rest
  rwa [putLE_length'] at this

end Avro
