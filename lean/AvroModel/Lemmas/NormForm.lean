import AvroModel.Lemmas.RoundTrip
/-!
# `normCodec` is a normal form

* `normCodec_idem`: idempotent (under the side conditions `RTOk` of the round trip and `EnvLaws`);
* `normCodec_plain`: the identity on `Plain` values (no nil map, no nil pointer to a slice or map, no
  omitted-but-non-zero union member, no invalid wrapper, no time below the codec's resolution, no
  float that the float32 conversions change).
-/
set_option linter.unusedSimpArgs false
namespace Avro

section
variable (env : Env)

theorem normCodec_custom (n : Nat) (id : Nat) (g : GoVal) : normCodec env n (.custom id) g = g := by
  cases n <;> simp [normCodec]

theorem timeZero_isZero : TimeVal.zero.isZero = true := by decide

/-- a value is omitted only by a codec that omits its zero value (custom codecs aside) -/
theorem omits_zero (c : Codec) (g : GoVal) (h : omits env c g = true) (hc : ∀ id, c ≠ .custom id) :
    omits env c (Codec.zero env c) = true := by
  cases c
  case custom id => exact absurd rfl (hc id)
  case pointer c' => simp [omits, Codec.zero]
  all_goals (cases g <;> simp [omits, Codec.zero, isZeroF32, isZeroF64, timeZero_isZero] at h ⊢ <;> try exact h)
  all_goals (try exact h.1)

theorem nilForm_fixed : ∀ (n : Nat) (c : Codec),
    ((∃ i o, Codec.stripPtr c = .array i o) ∨ (∃ v o, Codec.stripPtr c = .map v o)) →
    normCodec env n c (nilForm c) = nilForm c := by
  intro n
  induction n with
  | zero => intro c _; simp [normCodec]
  | succ n ih =>
    intro c hs
    cases c <;> simp only [Codec.stripPtr] at hs <;> try (simp at hs; done)
    case array i o => simp [nilForm, normCodec]
    case map v o => simp [nilForm, normCodec]
    case pointer c' => simp [nilForm, normCodec, ih c' hs]

/-- the normal form of a pointer is omitted only if the pointer is -/
theorem omits_norm_pointer : ∀ (n : Nat) (c : Codec) (x : GoVal),
    omits env (.pointer c) (normCodec env n (.pointer c) x) = true → omits env (.pointer c) x = true := by
  intro n
  induction n with
  | zero => intro c x h; simpa [normCodec] using h
  | succ n ih =>
    intro c x h
    cases x <;> try (simpa [normCodec] using h)
    rename_i tgt
    cases tgt with
    | none => simp [omits]
    | some y =>
      simp only [normCodec] at h
      cases c <;> try (simp [omits] at h; done)
      rename_i c3
      simp only [omits] at h ⊢
      exact ih c3 y h

theorem wrap64_id {x : Int} (h : inRange 64 x) : wrap64 x = x := by
  unfold inRange at h; unfold wrap64
  simp at h ⊢
  omega

theorem fdiv_mul_cancel (i k : Int) (hk : 0 < k) : Int.fdiv (i * k) k = i := by
  rw [Int.fdiv_eq_ediv_of_nonneg _ (by omega)]
  exact Int.mul_ediv_cancel i (by omega)

/-- nanoseconds of `ofNanos N` -/
theorem ofNanos_nanos (h : EnvLaws env) (N : Int) :
    (env.ofNanos N).unix * 1000000000 + ((env.ofNanos N).nsec : Int) = N := by
  rw [h.ofNanos_eq]
  simp only
  omega

/-- the long a time decoded from `N = i * mult` is written as is `i` again -/
theorem longOf_ofNanos (h : EnvLaws env) (mult : Int) (hm : mult = 1 ∨ mult = 1000 ∨ mult = 1000000)
    (i : Int) (hr : inRange 64 (i * mult)) : longOf mult (env.ofNanos (wrap64 (i * mult))) = i := by
  rw [wrap64_id hr]
  unfold longOf
  rw [ofNanos_nanos env h]
  rcases hm with rfl | rfl | rfl
  · simp only [if_true]; rw [wrap64_id hr]; omega
  · simp only [show ¬ ((1000 : Int) = 1) by decide, show ¬ ((1000 : Int) = 1000000) by decide, if_false]
    exact fdiv_mul_cancel i 1000 (by decide)
  · simp only [show ¬ ((1000000 : Int) = 1) by decide, if_false, if_true]
    exact fdiv_mul_cancel i 1000000 (by decide)

theorem ofNanos_not_zero (h : EnvLaws env) (N : Int) (hr : inRange 64 N) : (env.ofNanos N).isZero = false := by
  rw [h.ofNanos_eq]
  unfold inRange at hr
  simp at hr
  simp only [TimeVal.isZero, Bool.and_eq_false_imp, beq_iff_eq]
  intro h1
  omega

theorem normTime_of_rt {t : TimeVal} (h : TimeRT env t) :
    ∃ t', normTime env t = t' ∧ t'.isZero = t.isZero ∧ normTime env t' = t' := by
  obtain ⟨hne, t', hp, hz, hne', hp'⟩ := h
  have he : (env.fmtTime t).isEmpty = false := by simpa [List.isEmpty_iff] using hne
  have he' : (env.fmtTime t').isEmpty = false := by simpa [List.isEmpty_iff] using hne'
  exact ⟨t', by simp [normTime, he, hp], hz, by simp [normTime, he', hp']⟩

/-- if the normal form is omitted then the value was, or the normal form is the zero value (a date
whose day is day one of year 1) -/
theorem omits_norm (h : EnvLaws env) (n : Nat) (c : Codec) (g : GoVal) (hok : RTOk env n c g)
    (ho : omits env c (normCodec env n c g) = true) :
    omits env c g = true ∨ normCodec env n c g = Codec.zero env c := by
  cases n with
  | zero => simp [RTOk] at hok
  | succ n =>
  cases c
  case pointer c' => exact Or.inl (omits_norm_pointer env (n + 1) c' g ho)
  case null => left; simp [omits]
  case union => simp [RTOk] at hok
  case custom => simp [RTOk] at hok
  case unionOne => simp [omits] at ho
  case record => simp [omits] at ho
  case unionNullString => simp [omits] at ho
  case fixed => simp [omits] at ho
  case nullw k =>
    cases g <;> try (left; simpa [normCodec] using ho)
    simp [normCodec, omits] at ho
  case f32double o =>
    cases g <;> try (left; simpa [normCodec] using ho)
    left
    simp only [normCodec, omits, h.narrow_widen_zero] at ho
    simpa [omits] using ho
  case array item o =>
    cases g <;> try (left; simpa [normCodec] using ho)
    left
    simpa [normCodec, omits] using ho
  case map val o =>
    cases g <;> try (left; simpa [normCodec] using ho)
    left
    simpa [normCodec, omits] using ho
  case timeString =>
    cases g <;> try (left; simpa [normCodec] using ho)
    left
    simp only [RTOk] at hok
    obtain ⟨t', h1, h2, -⟩ := normTime_of_rt env hok
    simp only [normCodec, omits, h1, h2] at ho
    simpa [omits] using ho
  case timeLong mult =>
    cases g <;> try (left; simpa [normCodec] using ho)
    simp only [RTOk] at hok
    simp only [normCodec, omits, wrap64_id hok.2, ofNanos_not_zero env h _ hok.2] at ho
    contradiction
  case date =>
    cases g <;> try (left; simpa [normCodec] using ho)
    right
    simp only [normCodec, omits, h.ofDays_eq, TimeVal.isZero, Bool.and_eq_true, beq_iff_eq] at ho
    simp only [normCodec, h.ofDays_eq, Codec.zero, TimeVal.zero, ho.1]
  all_goals (cases g <;> left <;> simpa [normCodec] using ho)

/-! ### records -/

theorem normFieldsWith_get_notin (f : Codec → GoVal → GoVal) (fs : List GoVal) (j : Nat) :
    ∀ (cs : List Codec) (ts : List (Option Nat)) (acc : List GoVal), some j ∉ ts →
      (normFieldsWith f cs ts fs acc)[j]? = acc[j]?
  | [], _, _, _ => by simp [normFieldsWith]
  | _ :: _, [], _, _ => by simp [normFieldsWith]
  | _ :: _, none :: _, _, _ => by simp [normFieldsWith]
  | c :: cs, some i :: ts, acc, hj => by
    have hij : i ≠ j := fun e => hj (by simp [e])
    simp only [normFieldsWith]
    split
    next g hg =>
      rw [normFieldsWith_get_notin f fs j cs ts _ (fun e => hj (by simp [e])), listSet_getElem?_ne _ _ _ _ hij]
    next => rfl

theorem normFieldsWith_idem (f : Codec → GoVal → GoVal) (P : Codec → GoVal → Prop) (zero : Codec → GoVal)
    (fs : List GoVal) (hf : ∀ c g, P c g → f c (f c g) = f c g) :
    ∀ (cs : List Codec) (ts : List (Option Nat)) (acc : List GoVal), FieldsOk P zero cs ts fs acc →
      normFieldsWith f cs ts (normFieldsWith f cs ts fs acc) acc = normFieldsWith f cs ts fs acc
  | [], _, _, _ => by simp [normFieldsWith]
  | _ :: _, [], _, h => by simp [FieldsOk] at h
  | _ :: _, none :: _, _, h => by simp [FieldsOk] at h
  | c :: cs, some i :: ts, acc, h => by
    obtain ⟨hni, hz, ⟨g, hg, hP⟩, hrest⟩ := h
    have hR : (normFieldsWith f cs ts fs (listSet acc i (f c g)))[i]? = some (f c g) := by
      rw [normFieldsWith_get_notin f fs i cs ts _ hni]
      exact listSet_getElem?_eq acc i _ _ hz
    simp only [normFieldsWith, hg, hR, hf c g hP]
    exact normFieldsWith_idem f P zero fs hf cs ts _ (FieldsOk.listSet i _ cs ts acc hni hrest)

/-! ### idempotence -/

theorem norm_ptr_nil_coll (n : Nat) (c' : Codec)
    (hs : (∃ i o, Codec.stripPtr c' = .array i o) ∨ (∃ v o, Codec.stripPtr c' = .map v o)) :
    normCodec env (n + 1) (.pointer c') (.ptr none) = .ptr (some (nilForm c')) := by
  rcases hs with ⟨i, o, hs⟩ | ⟨v, o, hs⟩ <;> simp [normCodec, hs]

theorem norm_ptr_nil_other (n : Nat) (c' : Codec)
    (hs : ¬ ((∃ i o, Codec.stripPtr c' = .array i o) ∨ (∃ v o, Codec.stripPtr c' = .map v o))) :
    normCodec env (n + 1) (.pointer c') (.ptr none) = .ptr none := by
  simp only [normCodec]
  split
  next i o h => exact absurd (Or.inl ⟨i, o, h⟩) hs
  next v o h => exact absurd (Or.inr ⟨v, o, h⟩) hs
  next => rfl

def IdemAt (n : Nat) : Prop :=
  ∀ c g, RTOk env n c g → normCodec env n c (normCodec env n c g) = normCodec env n c g

theorem idem_step (h : EnvLaws env) (n : Nat) (ih : IdemAt env n) : IdemAt env (n + 1) := by
  intro c g hok
  cases c
  case null => simp [normCodec]
  case union => simp [RTOk] at hok
  case custom => simp [RTOk] at hok
  case f32double o =>
    cases g <;> try (simp [normCodec]; done)
    simp [normCodec, h.narrow_widen_narrow]
  case array item o =>
    cases g <;> try (simp [normCodec]; done)
    rename_i items
    simp only [RTOk] at hok
    simp only [normCodec, List.map_map, GoVal.slice.injEq]
    exact List.map_congr_left fun x hx => ih item x (hok.2 x hx)
  case map val o =>
    cases g <;> try (simp [normCodec]; done)
    rename_i nl ks vs
    simp only [RTOk] at hok
    simp only [normCodec, List.map_map, GoVal.map.injEq, true_and]
    exact List.map_congr_left fun x hx => ih val x (hok.2.2 x hx)
  case pointer c' =>
    cases g <;> try (simp [normCodec]; done)
    rename_i tgt
    cases tgt with
    | none =>
      by_cases hs : (∃ i o, Codec.stripPtr c' = .array i o) ∨ (∃ v o, Codec.stripPtr c' = .map v o)
      · rw [norm_ptr_nil_coll env n c' hs]
        simp [normCodec, nilForm_fixed env n c' hs]
      · rw [norm_ptr_nil_other env n c' hs, norm_ptr_nil_other env n c' hs]
    | some x =>
      simp only [RTOk] at hok
      simp [normCodec, ih c' x hok]
  case record z cs ts =>
    cases g <;> try (simp [normCodec]; done)
    rename_i fs
    simp only [RTOk] at hok
    simp only [normCodec, GoVal.struct.injEq]
    exact normFieldsWith_idem _ (RTOk env n) (Codec.zero env) fs (fun c g hP => ih c g hP) cs ts z hok
  case unionOne c' k =>
    simp only [RTOk] at hok
    obtain ⟨-, hok⟩ := hok
    by_cases hom : omits env c' g = true
    · simp only [normCodec, hom, if_true]
      by_cases hcu : ∃ id, c' = .custom id
      · obtain ⟨id, rfl⟩ := hcu
        simp [normCodec_custom]
      · have := omits_zero env c' g hom (fun id e => hcu ⟨id, e⟩)
        simp [this]
    · have hok' := hok (by simpa using hom)
      simp only [normCodec, hom, if_false, Bool.false_eq_true]
      by_cases hom2 : omits env c' (normCodec env n c' g) = true
      · rcases omits_norm env h n c' g hok' hom2 with h1 | h1
        · exact absurd h1 hom
        · rw [h1] at hom2 ⊢
          simp [hom2]
      · simp only [hom2, if_false, Bool.false_eq_true]
        exact ih c' g hok'
  case timeString =>
    cases g <;> try (simp [normCodec]; done)
    simp only [RTOk] at hok
    obtain ⟨t', h1, -, h3⟩ := normTime_of_rt env hok
    simp [normCodec, h1, h3]
  case timeLong mult =>
    cases g <;> try (simp [normCodec]; done)
    simp only [RTOk] at hok
    simp only [normCodec, longOf_ofNanos env h mult hok.1 _ hok.2]
  case date =>
    cases g <;> try (simp [normCodec]; done)
    simp only [normCodec, h.ofDays_eq, fdiv_mul_cancel _ 86400 (by decide)]
  case nullw k =>
    cases g <;> try (simp [normCodec]; done)
    rename_i valid inner
    cases k <;> cases inner <;> try (simp [normCodec]; done)
    · simp [normCodec, h.narrow_widen_narrow]
    · simp only [RTOk] at hok
      obtain ⟨t', h1, -, h3⟩ := normTime_of_rt env hok
      simp [normCodec, h1, h3]
  all_goals (cases g <;> simp [normCodec])

/-- **Idempotence**: normalising a normal form changes nothing. Side conditions: those of the round
trip (`RTOk`) and the laws of the external functions. -/
theorem normCodec_idem (h : EnvLaws env) : ∀ (n : Nat) (c : Codec) (g : GoVal), RTOk env n c g →
    normCodec env n c (normCodec env n c g) = normCodec env n c g
  | 0 => fun _ _ hok => by simp [RTOk] at hok
  | n + 1 => idem_step env h n (normCodec_idem h n)

end

end Avro
