import AvroModel.Lemmas.RoundTrip
/-!
# `normCodec` is a normal form

* `normCodec_idem`: idempotent (under the side conditions `RTOk` of the round trip and `EnvLaws`);
* `normCodec_plain`: the identity on `Plain` values (no nil map, no nil pointer to a slice or map, no
  omitted-but-non-zero union member, no invalid wrapper, no time below the codec's resolution, no
  float that the float32 conversions change).
-/
set_option linter.unusedSimpArgs false
namespace Avro

section
variable (env : Env)

theorem normCodec_custom (n : Nat) (id : Nat) (g : GoVal) : normCodec env n (.custom id) g = g := by
  cases n <;> simp [normCodec]

theorem timeZero_isZero : TimeVal.zero.isZero = true := by decide

/-- a value is omitted only by a codec that omits its zero value (custom codecs aside) -/
theorem omits_zero (c : Codec) (g : GoVal) (h : omits env c g = true) (hc : ∀ id, c ≠ .custom id) :
    omits env c (Codec.zero env c) = true := by
  cases c
  case custom id => exact absurd rfl (hc id)
  case pointer c' => simp [omits, Codec.zero]
  all_goals (cases g <;> simp [omits, Codec.zero, isZeroF32, isZeroF64, timeZero_isZero] at h ⊢ <;> try exact h)
  all_goals (try exact h.1)

theorem nilForm_fixed : ∀ (n : Nat) (c : Codec),
    ((∃ i o, Codec.stripPtr c = .array i o) ∨ (∃ v o, Codec.stripPtr c = .map v o)) →
    normCodec env n c (nilForm c) = nilForm c := by
  intro n
  induction n with
  | zero => intro c _; simp [normCodec]
  | succ n ih =>
    intro c hs
    cases c <;> simp only [Codec.stripPtr] at hs <;> try (simp at hs; done)
    case array i o => simp [nilForm, normCodec]
    case map v o => simp [nilForm, normCodec]
    case pointer c' => simp [nilForm, normCodec, ih c' hs]

/-- the normal form of a pointer is omitted only if the pointer is -/
theorem omits_norm_pointer : ∀ (n : Nat) (c : Codec) (x : GoVal),
    omits env (.pointer c) (normCodec env n (.pointer c) x) = true → omits env (.pointer c) x = true := by
  intro n
  induction n with
  | zero => intro c x h; simpa [normCodec] using h
  | succ n ih =>
    intro c x h
    cases x <;> try (simpa [normCodec] using h)
    rename_i tgt
    cases tgt with
    | none => simp [omits]
    | some y =>
      simp only [normCodec] at h
      cases c <;> try (simp [omits] at h; done)
      rename_i c3
      simp only [omits] at h ⊢
      exact ih c3 y h

theorem wrap64_id {x : Int} (h : inRange 64 x) : wrap64 x = x := by
  unfold inRange at h; unfold wrap64
  simp at h ⊢
  omega

theorem fdiv_mul_cancel (i k : Int) (hk : 0 < k) : Int.fdiv (i * k) k = i := by
  rw [Int.fdiv_eq_ediv_of_nonneg _ (by omega)]
  exact Int.mul_ediv_cancel i (by omega)

/-- nanoseconds of `ofNanos N` -/
theorem ofNanos_nanos (h : EnvLaws env) (N : Int) :
    (env.ofNanos N).unix * 1000000000 + ((env.ofNanos N).nsec : Int) = N := by
  rw [h.ofNanos_eq]
  simp only
  omega

/-- the long a time decoded from `N = i * mult` is written as is `i` again -/
theorem longOf_ofNanos (h : EnvLaws env) (mult : Int) (hm : mult = 1 ∨ mult = 1000 ∨ mult = 1000000)
    (i : Int) (hr : inRange 64 (i * mult)) : longOf mult (env.ofNanos (wrap64 (i * mult))) = i := by
  rw [wrap64_id hr]
  unfold longOf
  rw [ofNanos_nanos env h]
  rcases hm with rfl | rfl | rfl
  · simp only [if_true]; rw [wrap64_id hr]; omega
  · simp only [show ¬ ((1000 : Int) = 1) by decide, show ¬ ((1000 : Int) = 1000000) by decide, if_false]
    exact fdiv_mul_cancel i 1000 (by decide)
  · simp only [show ¬ ((1000000 : Int) = 1) by decide, if_false, if_true]
    exact fdiv_mul_cancel i 1000000 (by decide)

theorem ofNanos_not_zero (h : EnvLaws env) (N : Int) (hr : inRange 64 N) : (env.ofNanos N).isZero = false := by
  rw [h.ofNanos_eq]
  unfold inRange at hr
  simp at hr
  simp only [TimeVal.isZero, Bool.and_eq_false_imp, beq_iff_eq]
  intro h1
  omega

theorem normTime_of_rt {t : TimeVal} (h : TimeRT env t) :
    ∃ t', normTime env t = t' ∧ t'.isZero = t.isZero ∧ normTime env t' = t' := by
  obtain ⟨hne, t', hp, hz, hne', hp'⟩ := h
  have he : (env.fmtTime t).isEmpty = false := by simpa [List.isEmpty_iff] using hne
  have he' : (env.fmtTime t').isEmpty = false := by simpa [List.isEmpty_iff] using hne'
  exact ⟨t', by simp [normTime, he, hp], hz, by simp [normTime, he', hp']⟩

/-- if the normal form is omitted then the value was, or the normal form is the zero value (a date
whose day is day one of year 1) -/
theorem omits_norm (h : EnvLaws env) (n : Nat) (c : Codec) (g : GoVal) (hok : RTOk env n c g)
    (ho : omits env c (normCodec env n c g) = true) :
    omits env c g = true ∨ normCodec env n c g = Codec.zero env c := by
  cases n with
  | zero => simp [RTOk] at hok
  | succ n =>
  cases c
  case pointer c' => exact Or.inl (omits_norm_pointer env (n + 1) c' g ho)
  case null => left; simp [omits]
  case union => simp [RTOk] at hok
  case custom => simp [RTOk] at hok
  case unionOne => simp [omits] at ho
  case record => simp [omits] at ho
  case unionNullString => simp [omits] at ho
  case fixed => simp [omits] at ho
  case nullw k =>
    cases g <;> try (left; simpa [normCodec] using ho)
    simp [normCodec, omits] at ho
  case f32double o =>
    cases g <;> try (left; simpa [normCodec] using ho)
    left
    simp only [normCodec, omits, h.narrow_widen_zero] at ho
    simpa [omits] using ho
  case array item o =>
    cases g <;> try (left; simpa [normCodec] using ho)
    left
    simpa [normCodec, omits] using ho
  case map val o =>
    cases g <;> try (left; simpa [normCodec] using ho)
    left
    simpa [normCodec, omits] using ho
  case timeString =>
    cases g <;> try (left; simpa [normCodec] using ho)
    left
    simp only [RTOk] at hok
    obtain ⟨t', h1, h2, -⟩ := normTime_of_rt env hok
    simp only [normCodec, omits, h1, h2] at ho
    simpa [omits] using ho
  case timeLong mult =>
    cases g <;> try (left; simpa [normCodec] using ho)
    simp only [RTOk] at hok
    simp only [normCodec, omits, wrap64_id hok.2, ofNanos_not_zero env h _ hok.2] at ho
    contradiction
  case date =>
    cases g <;> try (left; simpa [normCodec] using ho)
    right
    simp only [normCodec, omits, h.ofDays_eq, TimeVal.isZero, Bool.and_eq_true, beq_iff_eq] at ho
    simp only [normCodec, h.ofDays_eq, Codec.zero, TimeVal.zero, ho.1]
  all_goals (cases g <;> left <;> simpa [normCodec] using ho)

/-! ### records -/

theorem normFieldsWith_get_notin (f : Codec → GoVal → GoVal) (fs : List GoVal) (j : Nat) :
    ∀ (cs : List Codec) (ts : List (Option Nat)) (acc : List GoVal), some j ∉ ts →
      (normFieldsWith f cs ts fs acc)[j]? = acc[j]?
  | [], _, _, _ => by simp [normFieldsWith]
  | _ :: _, [], _, _ => by simp [normFieldsWith]
  | _ :: _, none :: _, _, _ => by simp [normFieldsWith]
  | c :: cs, some i :: ts, acc, hj => by
    have hij : i ≠ j := fun e => hj (by simp [e])
    simp only [normFieldsWith]
    split
    next g hg =>
      rw [normFieldsWith_get_notin f fs j cs ts _ (fun e => hj (by simp [e])), listSet_getElem?_ne _ _ _ _ hij]
    next => rfl

theorem normFieldsWith_idem (f : Codec → GoVal → GoVal) (P : Codec → GoVal → Prop) (zero : Codec → GoVal)
    (fs : List GoVal) (hf : ∀ c g, P c g → f c (f c g) = f c g) :
    ∀ (cs : List Codec) (ts : List (Option Nat)) (acc : List GoVal), FieldsOk P zero cs ts fs acc →
      normFieldsWith f cs ts (normFieldsWith f cs ts fs acc) acc = normFieldsWith f cs ts fs acc
  | [], _, _, _ => by simp [normFieldsWith]
  | _ :: _, [], _, h => by simp [FieldsOk] at h
  | _ :: _, none :: _, _, h => by simp [FieldsOk] at h
  | c :: cs, some i :: ts, acc, h => by
    obtain ⟨hni, hz, ⟨g, hg, hP⟩, hrest⟩ := h
    have hR : (normFieldsWith f cs ts fs (listSet acc i (f c g)))[i]? = some (f c g) := by
      rw [normFieldsWith_get_notin f fs i cs ts _ hni]
      exact listSet_getElem?_eq acc i _ _ hz
    simp only [normFieldsWith, hg, hR, hf c g hP]
    exact normFieldsWith_idem f P zero fs hf cs ts _ (FieldsOk.listSet i _ cs ts acc hni hrest)

/-! ### idempotence -/

theorem norm_ptr_nil_coll (n : Nat) (c' : Codec)
    (hs : (∃ i o, Codec.stripPtr c' = .array i o) ∨ (∃ v o, Codec.stripPtr c' = .map v o)) :
    normCodec env (n + 1) (.pointer c') (.ptr none) = .ptr (some (nilForm c')) := by
  rcases hs with ⟨i, o, hs⟩ | ⟨v, o, hs⟩ <;> simp [normCodec, hs]

theorem norm_ptr_nil_other (n : Nat) (c' : Codec)
    (hs : ¬ ((∃ i o, Codec.stripPtr c' = .array i o) ∨ (∃ v o, Codec.stripPtr c' = .map v o))) :
    normCodec env (n + 1) (.pointer c') (.ptr none) = .ptr none := by
  simp only [normCodec]
  split
  next i o h => exact absurd (Or.inl ⟨i, o, h⟩) hs
  next v o h => exact absurd (Or.inr ⟨v, o, h⟩) hs
  next => rfl

def IdemAt (n : Nat) : Prop :=
  ∀ c g, RTOk env n c g → normCodec env n c (normCodec env n c g) = normCodec env n c g

theorem idem_step (h : EnvLaws env) (n : Nat) (ih : IdemAt env n) : IdemAt env (n + 1) := by
  intro c g hok
  cases c
  case null => simp [normCodec]
  case union => simp [RTOk] at hok
  case custom => simp [RTOk] at hok
  case f32double o =>
    cases g <;> try (simp [normCodec]; done)
    simp [normCodec, h.narrow_widen_narrow]
  case array item o =>
    cases g <;> try (simp [normCodec]; done)
    rename_i items
    simp only [RTOk] at hok
    simp only [normCodec, List.map_map, GoVal.slice.injEq]
    exact List.map_congr_left fun x hx => ih item x (hok.2 x hx)
  case map val o =>
    cases g <;> try (simp [normCodec]; done)
    rename_i nl ks vs
    simp only [RTOk] at hok
    simp only [normCodec, List.map_map, GoVal.map.injEq, true_and]
    exact List.map_congr_left fun x hx => ih val x (hok.2.2 x hx)
  case pointer c' =>
    cases g <;> try (simp [normCodec]; done)
    rename_i tgt
    cases tgt with
    | none =>
      by_cases hs : (∃ i o, Codec.stripPtr c' = .array i o) ∨ (∃ v o, Codec.stripPtr c' = .map v o)
      · rw [norm_ptr_nil_coll env n c' hs]
        simp [normCodec, nilForm_fixed env n c' hs]
      · rw [norm_ptr_nil_other env n c' hs, norm_ptr_nil_other env n c' hs]
    | some x =>
      simp only [RTOk] at hok
      simp [normCodec, ih c' x hok]
  case record z cs ts =>
    cases g <;> try (simp [normCodec]; done)
    rename_i fs
    simp only [RTOk] at hok
    simp only [normCodec, GoVal.struct.injEq]
    exact normFieldsWith_idem _ (RTOk env n) (Codec.zero env) fs (fun c g hP => ih c g hP) cs ts z hok
  case unionOne c' k =>
    simp only [RTOk] at hok
    obtain ⟨-, hok⟩ := hok
    by_cases hom : omits env c' g = true
    · simp only [normCodec, hom, if_true]
      by_cases hcu : ∃ id, c' = .custom id
      · obtain ⟨id, rfl⟩ := hcu
        simp [normCodec_custom]
      · have := omits_zero env c' g hom (fun id e => hcu ⟨id, e⟩)
        simp [this]
    · have hok' := hok (by simpa using hom)
      simp only [normCodec, hom, if_false, Bool.false_eq_true]
      by_cases hom2 : omits env c' (normCodec env n c' g) = true
      · rcases omits_norm env h n c' g hok' hom2 with h1 | h1
        · exact absurd h1 hom
        · rw [h1] at hom2 ⊢
          simp [hom2]
      · simp only [hom2, if_false, Bool.false_eq_true]
        exact ih c' g hok'
  case timeString =>
    cases g <;> try (simp [normCodec]; done)
    simp only [RTOk] at hok
    obtain ⟨t', h1, -, h3⟩ := normTime_of_rt env hok
    simp [normCodec, h1, h3]
  case timeLong mult =>
    cases g <;> try (simp [normCodec]; done)
    simp only [RTOk] at hok
    simp only [normCodec, longOf_ofNanos env h mult hok.1 _ hok.2]
  case date =>
    cases g <;> try (simp [normCodec]; done)
    simp only [normCodec, h.ofDays_eq, fdiv_mul_cancel _ 86400 (by decide)]
  case nullw k =>
    cases g <;> try (simp [normCodec]; done)
    rename_i valid inner
    cases k <;> cases inner <;> try (simp [normCodec]; done)
    · simp [normCodec, h.narrow_widen_narrow]
    · simp only [RTOk] at hok
      obtain ⟨t', h1, -, h3⟩ := normTime_of_rt env hok
      simp [normCodec, h1, h3]
  all_goals (cases g <;> simp [normCodec])

/-- **Idempotence**: normalising a normal form changes nothing. Side conditions: those of the round
trip (`RTOk`) and the laws of the external functions. -/
theorem normCodec_idem (h : EnvLaws env) : ∀ (n : Nat) (c : Codec) (g : GoVal), RTOk env n c g →
    normCodec env n c (normCodec env n c g) = normCodec env n c g
  | 0 => fun _ _ hok => by simp [RTOk] at hok
  | n + 1 => idem_step env h n (normCodec_idem h n)

/-! ### the identity on plain values -/

/-- every schema field of the record has a target holding a `P`-value -/
def PlainFields (P : Codec → GoVal → Prop) : List Codec → List (Option Nat) → List GoVal → Prop
  | [], [], _ => True
  | c :: cs, some i :: ts, fs => (∃ g, fs[i]? = some g ∧ P c g) ∧ PlainFields P cs ts fs
  | _, _, _ => False

/-- **Plain values**: those on which none of the documented normalisations (and none of the codecs'
truncations) can act:
* no nil map (`nil` and empty maps are identified; the reader delivers a non-nil map);
* no nil pointer to a slice or map (it is written as the empty collection);
* a union member that is omitted (nil pointer, omitempty zero, invalid wrapper, zero time) is the zero
  value itself (so: no `-0.0` in an omitempty field, no payload in an invalid wrapper);
* a `null.*` wrapper outside a union is valid (an invalid one is written as its payload);
* times: printable under the string codec; UTC, a multiple of the resolution and an int64 number of
  nanoseconds under the long codecs; UTC midnight under the date codec;
* floats crossing a float32/float64 conversion are not changed by it;
* a struct has the fields of its codec's zero struct, and those the schema does not mention are zero
  (they are never written). -/
def Plain (env : Env) : Nat → Codec → GoVal → Prop
  | 0, _, _ => True
  | n + 1, c, g =>
    match c, g with
    | .null, g => g = .unit
    | .f32double _, .f32 b => ¬ SNaN32 b
    | .array item _, .slice items => ∀ x ∈ items, Plain env n item x
    | .map val _, .map nl _ vs => nl = false ∧ ∀ x ∈ vs, Plain env n val x
    | .pointer c', .ptr none =>
      ¬ ((∃ i o, Codec.stripPtr c' = .array i o) ∨ (∃ v o, Codec.stripPtr c' = .map v o))
    | .pointer c', .ptr (some x) => Plain env n c' x
    | .record z cs ts, .struct fs =>
      PlainFields (Plain env n) cs ts fs ∧ fs.length = z.length ∧ ∀ j, some j ∉ ts → fs[j]? = z[j]?
    | .unionOne c' _, g => if omits env c' g = true then g = Codec.zero env c' else Plain env n c' g
    | .timeString, .time t => t.Printable
    | .timeLong mult, .time t =>
      (mult = 1 ∨ mult = 1000 ∨ mult = 1000000) ∧ t.off = 0 ∧ t.nsec < 1000000000 ∧
      (t.unix * 1000000000 + t.nsec) % mult = 0 ∧ inRange 64 (t.unix * 1000000000 + t.nsec)
    | .date, .time t => t.off = 0 ∧ t.nsec = 0 ∧ t.unix % 86400 = 0
    | .nullw k, .nullw valid inner =>
      valid = true ∧
      match k, inner with
      | .float, .f64 d => ∃ b, ¬ SNaN32 b ∧ d = env.widen b
      | .time, .time t => t.Printable
      | _, _ => True
    | _, _ => True

theorem map_eq_self {α : Type} {f : α → α} : ∀ {l : List α}, (∀ x ∈ l, f x = x) → l.map f = l
  | [], _ => rfl
  | a :: l, h => by
    simp only [List.map_cons, h a (by simp), map_eq_self (l := l) fun x hx => h x (by simp [hx])]

theorem listSet_length {α : Type} : ∀ (xs : List α) (i : Nat) (a : α), (listSet xs i a).length = xs.length
  | [], _, _ => rfl
  | _ :: _, 0, _ => rfl
  | _ :: xs, i + 1, a => by simp [listSet, listSet_length xs i a]

theorem normFieldsWith_plain (f : Codec → GoVal → GoVal) (P : Codec → GoVal → Prop) (fs : List GoVal)
    (hf : ∀ c g, P c g → f c g = g) :
    ∀ (cs : List Codec) (ts : List (Option Nat)) (acc : List GoVal), PlainFields P cs ts fs →
      acc.length = fs.length → (∀ j, some j ∉ ts → acc[j]? = fs[j]?) →
      normFieldsWith f cs ts fs acc = fs
  | [], [], acc, _, _, hj => by
    simp only [normFieldsWith]
    exact List.ext_getElem? fun j => hj j (by simp)
  | [], _ :: _, _, h, _, _ => by simp [PlainFields] at h
  | _ :: _, [], _, h, _, _ => by simp [PlainFields] at h
  | _ :: _, none :: _, _, h, _, _ => by simp [PlainFields] at h
  | c :: cs, some i :: ts, acc, h, hl, hj => by
    obtain ⟨⟨g, hg, hP⟩, hrest⟩ := h
    simp only [normFieldsWith, hg, hf c g hP]
    have hi : i < acc.length := by
      rw [hl]
      exact (List.getElem?_eq_some_iff.mp hg).1
    apply normFieldsWith_plain f P fs hf cs ts _ hrest (by rw [listSet_length, hl])
    intro j hjn
    by_cases hij : i = j
    · subst hij
      rw [listSet_getElem?_eq acc i g acc[i] (by simp [hi]), hg]
    · rw [listSet_getElem?_ne _ _ _ _ hij]
      exact hj j (by simp [hjn, Ne.symm hij])

theorem normTime_printable (h : EnvLaws env) (t : TimeVal) (ht : t.Printable) : normTime env t = t := by
  have he : (env.fmtTime t).isEmpty = false := by simpa [List.isEmpty_iff] using h.fmt_ne t
  simp [normTime, he, h.parse_fmt t ht]

/-- a printable time satisfies the string codecs' side condition -/
theorem timeRT_of_printable (h : EnvLaws env) (t : TimeVal) (ht : t.Printable) : TimeRT env t :=
  ⟨h.fmt_ne t, t, h.parse_fmt t ht, rfl, h.fmt_ne t, h.parse_fmt t ht⟩

theorem timeLong_plain (h : EnvLaws env) (mult : Int) (t : TimeVal)
    (hm : mult = 1 ∨ mult = 1000 ∨ mult = 1000000) (hoff : t.off = 0) (hns : t.nsec < 1000000000)
    (hmod : (t.unix * 1000000000 + t.nsec) % mult = 0) (hr : inRange 64 (t.unix * 1000000000 + t.nsec)) :
    env.ofNanos (wrap64 (longOf mult t * mult)) = t := by
  have hl : longOf mult t * mult = t.unix * 1000000000 + t.nsec := by
    unfold longOf
    rcases hm with rfl | rfl | rfl
    · simp only [if_true]; rw [wrap64_id hr]; omega
    · simp only [show ¬ ((1000 : Int) = 1) by decide, show ¬ ((1000 : Int) = 1000000) by decide, if_false]
      rw [Int.fdiv_eq_ediv_of_nonneg _ (by decide)]; omega
    · simp only [show ¬ ((1000000 : Int) = 1) by decide, if_false, if_true]
      rw [Int.fdiv_eq_ediv_of_nonneg _ (by decide)]; omega
  rw [hl, wrap64_id hr, h.ofNanos_eq]
  cases t with
  | mk u ns off =>
    simp only at hoff hns ⊢
    subst hoff
    simp only [TimeVal.mk.injEq, and_true]
    constructor <;> omega

def PlainAt (n : Nat) : Prop := ∀ c g, Plain env n c g → normCodec env n c g = g

theorem plain_step (h : EnvLaws env) (n : Nat) (ih : PlainAt env n) : PlainAt env (n + 1) := by
  intro c g hp
  cases c
  case null => simp only [Plain] at hp; simp [normCodec, hp]
  case f32double o =>
    cases g <;> try (simp [normCodec]; done)
    simp only [Plain] at hp
    simp [normCodec, h.narrow_widen _ hp]
  case array item o =>
    cases g <;> try (simp [normCodec]; done)
    simp only [Plain] at hp
    simp only [normCodec, GoVal.slice.injEq]
    exact map_eq_self fun x hx => ih item x (hp x hx)
  case map val o =>
    cases g <;> try (simp [normCodec]; done)
    simp only [Plain] at hp
    simp only [normCodec, GoVal.map.injEq, true_and, hp.1]
    exact map_eq_self fun x hx => ih val x (hp.2 x hx)
  case pointer c' =>
    cases g <;> try (simp [normCodec]; done)
    rename_i tgt
    cases tgt with
    | none =>
      simp only [Plain] at hp
      exact norm_ptr_nil_other env n c' hp
    | some x =>
      simp only [Plain] at hp
      simp [normCodec, ih c' x hp]
  case record z cs ts =>
    cases g <;> try (simp [normCodec]; done)
    rename_i fs
    simp only [Plain] at hp
    obtain ⟨h1, h2, h3⟩ := hp
    simp only [normCodec, GoVal.struct.injEq]
    exact normFieldsWith_plain _ (Plain env n) fs (fun c g hP => ih c g hP) cs ts z h1 h2.symm
      (fun j hj => (h3 j hj).symm)
  case unionOne c' k =>
    simp only [Plain] at hp
    by_cases hom : omits env c' g = true
    · simp only [hom, if_true] at hp
      simp [normCodec, hom, hp.symm]
    · simp only [hom, if_false, Bool.false_eq_true] at hp
      simp [normCodec, hom, ih c' g hp]
  case timeString =>
    cases g <;> try (simp [normCodec]; done)
    simp only [Plain] at hp
    simp [normCodec, normTime_printable env h _ hp]
  case timeLong mult =>
    cases g <;> try (simp [normCodec]; done)
    simp only [Plain] at hp
    obtain ⟨h1, h2, h3, h4, h5⟩ := hp
    simp [normCodec, timeLong_plain env h mult _ h1 h2 h3 h4 h5]
  case date =>
    cases g <;> try (simp [normCodec]; done)
    rename_i t
    simp only [Plain] at hp
    obtain ⟨h1, h2, h3⟩ := hp
    simp only [normCodec, h.ofDays_eq, GoVal.time.injEq, Int.fdiv_eq_ediv_of_nonneg _ (show (0 : Int) ≤ 86400 by decide)]
    cases t with
    | mk u ns off =>
      simp only at h1 h2 h3 ⊢
      subst h1 h2
      simp only [TimeVal.mk.injEq, and_true]
      omega
  case nullw k =>
    cases g <;> try (simp [normCodec]; done)
    rename_i valid inner
    simp only [Plain] at hp
    obtain ⟨hv, hp⟩ := hp
    subst hv
    cases k <;> cases inner <;> try (simp [normCodec]; done)
    · obtain ⟨b, hb, rfl⟩ := hp
      simp [normCodec, h.narrow_widen b hb]
    · simp only at hp
      simp [normCodec, normTime_printable env h _ hp]
  all_goals (cases g <;> simp [normCodec])

/-- **Identity on plain values**: a value without nil maps, nil slice/map pointers, omitted non-zero
union members, invalid wrappers, sub-resolution or unprintable times is its own normal form — so by
`roundTrip` it is read back exactly as written. -/
theorem normCodec_plain (h : EnvLaws env) : ∀ (n : Nat) (c : Codec) (g : GoVal), Plain env n c g →
    normCodec env n c g = g
  | 0 => fun _ _ _ => by simp [normCodec]
  | n + 1 => plain_step env h n (normCodec_plain h n)

end

end Avro
