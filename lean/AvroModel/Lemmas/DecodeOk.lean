import AvroModel.Lemmas.WireInv
import AvroModel.Lemmas.Bytes
/-!
The reference decoder inverts the specification encoder for every plan: Avro binary encodings are
self-delimiting and a conformant reader recovers exactly the datum, with the exact remainder.
(The decoder is the oracle that judges the library's output in C02/C13; this theorem ties it to
the encoder the codec theorems are stated against.)
-/
namespace Avro

/-- the expected result, or the step budget ran out -/
def DecIs {α : Type} (d : Dec α) (x : α) : Prop := d = .ok x ∨ d = .fuel

@[simp] theorem Dec.bind_ok' {α β : Type} (a : α) (f : α → Dec β) : Dec.bind (.ok a) f = f a := rfl
@[simp] theorem Dec.bind_bad' {α β : Type} (f : α → Dec β) : Dec.bind (.bad : Dec α) f = .bad := rfl
@[simp] theorem Dec.bind_fuel' {α β : Type} (f : α → Dec β) : Dec.bind (.fuel : Dec α) f = .fuel := rfl
@[simp] theorem Dec.bind_eq {α β : Type} (d : Dec α) (f : α → Dec β) : (d >>= f) = Dec.bind d f := rfl
@[simp] theorem Dec.pure_eq {α : Type} (a : α) : (pure a : Dec α) = .ok a := rfl

theorem DecIs.ok {α : Type} (x : α) : DecIs (.ok x) x := Or.inl rfl
theorem DecIs.fuel {α : Type} (x : α) : DecIs (.fuel) x := Or.inr rfl

theorem DecIs.bind {α β : Type} {d : Dec α} {a : α} {f : α → Dec β} {b : β}
    (h1 : DecIs d a) (h2 : DecIs (f a) b) : DecIs (d.bind f) b := by
  rcases h1 with h | h
  · rw [h]; exact h2
  · rw [h]; exact Or.inr rfl

theorem decVarint_write (v : Int) (hv : inRange 64 v) (rest : Bytes) :
    decVarint (writeVarint v ++ rest) = .ok (v, rest) := by
  unfold decVarint; rw [readVarint_writeVarint v hv]

theorem decTake_append (a rest : Bytes) : decTake a.length (a ++ rest) = .ok (a, rest) := by
  unfold decTake; rw [takeN_append']

theorem decLenBytes_enc (b : Bytes) (h : b.length < 2 ^ 63) (rest : Bytes) :
    decLenBytes (encBytes b ++ rest) = .ok (b, rest) := by
  unfold decLenBytes encBytes
  rw [List.append_assoc]
  simp only [Dec.bind_eq, decVarint_write _ (inRange_of_nat_lt h), Dec.bind_ok']
  have : ¬ ((b.length : Int) < 0) := by omega
  rw [if_neg this]
  simp only [Int.toNat_natCast]
  exact decTake_append b rest

theorem putLE_len (k n : Nat) : (putLE k n).length = k := by
  induction k generalizing n with
  | zero => rfl
  | succ k ih => simp [putLE, ih]

theorem getLE_putLE'' (k n : Nat) : getLE (putLE k n) = n % 256 ^ k := by
  induction k generalizing n with
  | zero => simp [putLE, getLE, Nat.mod_one]
  | succ k ih =>
    simp only [putLE, getLE, ih]
    rw [toUInt8_toNat (Nat.mod_lt _ (by omega))]
    rw [Nat.pow_succ, Nat.mul_comm (256 ^ k) 256, Nat.mod_mul]

/-- entry of a block: datum `kv.2` of schema `s`, preceded by its key for maps -/
def EntryD (keyed : Bool) (s : ASchema) (kv : Bytes × Value) (e : Bytes) : Prop :=
  ∃ p d, encode p s kv.2 = some d ∧
    ((keyed = false ∧ kv.1 = [] ∧ e = d) ∨ (keyed = true ∧ kv.1.length < 2 ^ 63 ∧ e = encBytes kv.1 ++ d))

structure DecOkAt (n : Nat) : Prop where
  decode : ∀ s p v bs rest, encode p s v = some bs → DecIs (decode n s (bs ++ rest)) (v, rest)
  fields : ∀ ss ps vs bs rest, encodeFields ps ss vs = some bs → DecIs (decodeFields n ss (bs ++ rest)) (vs, rest)
  items : ∀ keyed s kvs es rest, All2 (EntryD keyed s) kvs es →
    DecIs (decodeItems n keyed s es.length (es.flatten ++ rest)) (kvs, rest)
  blocks : ∀ keyed s bl kvs es bs rest, All2 (EntryD keyed s) kvs es → encBlocks bl es = some bs →
    DecIs (decodeBlocks n keyed s (bs ++ rest)) (kvs, rest)

theorem all2_take {α β : Type} {R : α → β → Prop} {as : List α} {bs : List β} (h : All2 R as bs) (n : Nat) :
    All2 R (as.take n) (bs.take n) := by
  induction h generalizing n with
  | nil => simp; exact .nil
  | cons hr _ ih => cases n with
    | zero => simp; exact .nil
    | succ n => simp; exact .cons hr (ih n)

theorem all2_drop {α β : Type} {R : α → β → Prop} {as : List α} {bs : List β} (h : All2 R as bs) (n : Nat) :
    All2 R (as.drop n) (bs.drop n) := by
  induction h generalizing n with
  | nil => simp; exact .nil
  | cons hr ht ih => cases n with
    | zero => simp; exact .cons hr ht
    | succ n => simp; exact ih n

theorem all2_length {α β : Type} {R : α → β → Prop} {as : List α} {bs : List β} (h : All2 R as bs) : as.length = bs.length := by
  induction h with
  | nil => rfl
  | cons _ _ ih => simp [ih]

theorem entries_of_items {s : ASchema} {vs : List Value} {encs : List Bytes}
    (h : All2 (fun v e => ∃ p, encode p s v = some e) vs encs) :
    All2 (EntryD false s) (vs.map fun v => (([] : Bytes), v)) encs := by
  induction h with
  | nil => exact .nil
  | cons hr _ ih =>
    obtain ⟨p, hp⟩ := hr
    exact .cons ⟨p, _, hp, Or.inl ⟨rfl, rfl, rfl⟩⟩ ih

theorem entries_of_map {s : ASchema} {vs : List Value} {encs : List Bytes}
    (h : All2 (fun v e => ∃ p, encode p s v = some e) vs encs) : ∀ (ks : List Bytes), ks.length = vs.length →
    (∀ k ∈ ks, k.length < 2 ^ 63) →
    All2 (EntryD true s) (ks.zip vs) (List.zipWith (fun k e => encBytes k ++ e) ks encs) := by
  induction h with
  | nil => intro ks hl _; cases ks <;> simp at hl ⊢; exact .nil
  | cons hr _ ih =>
    intro ks hl hks
    cases ks with
    | nil => simp at hl
    | cons k ks =>
      simp only [List.zip_cons_cons, List.zipWith_cons_cons]
      obtain ⟨p, hp⟩ := hr
      exact .cons ⟨p, _, hp, Or.inr ⟨rfl, hks k (by simp), rfl⟩⟩
        (ih ks (by simpa using hl) (fun k' hk' => hks k' (by simp [hk'])))

theorem map_fst_unkeyed (vs : List Value) : (vs.map fun v => (([] : Bytes), v)).map (·.2) = vs := by
  induction vs with
  | nil => rfl
  | cons v vs ih => simp [ih]

theorem zip_fst {α β : Type} : ∀ (as : List α) (bs : List β), as.length = bs.length → (as.zip bs).map (·.1) = as := by
  intro as
  induction as with
  | nil => intro bs _; simp
  | cons a as ih => intro bs h; cases bs with
    | nil => simp at h
    | cons b bs => simp [ih bs (by simpa using h)]

theorem zip_snd {α β : Type} : ∀ (as : List α) (bs : List β), as.length = bs.length → (as.zip bs).map (·.2) = bs := by
  intro as
  induction as with
  | nil => intro bs h; cases bs <;> simp at h ⊢
  | cons a as ih => intro bs h; cases bs with
    | nil => simp at h
    | cons b bs => simp [ih bs (by simpa using h)]

theorem decOk_decode (n : Nat) (ih : DecOkAt n) :
    ∀ s p v bs rest, encode p s v = some bs → DecIs (decode (n + 1) s (bs ++ rest)) (v, rest) := by
  intro s p v bs rest he
  cases s with
  | null => obtain ⟨rfl, rfl⟩ := encode_null_inv he; simp only [decode, List.nil_append]; exact .ok _
  | boolean =>
    obtain ⟨b, rfl, rfl⟩ := encode_boolean_inv he
    cases b <;> simp [decode, writeBool] <;> exact .ok _
  | int =>
    obtain ⟨i, rfl, hr, rfl⟩ := encode_int_inv he
    have h64 : inRange 64 i := by unfold inRange at *; omega
    simp only [decode, Dec.bind_eq, Dec.pure_eq, decVarint_write _ h64, Dec.bind_ok', if_pos hr]; exact .ok _
  | long =>
    obtain ⟨i, rfl, hr, rfl⟩ := encode_long_inv he
    simp only [decode, Dec.bind_eq, Dec.pure_eq, decVarint_write _ hr, Dec.bind_ok']; exact .ok _
  | float =>
    obtain ⟨b, rfl, hb, rfl⟩ := encode_float_inv he
    have := decTake_append (putLE 4 b) rest
    rw [putLE_len] at this
    simp only [decode, Dec.bind_eq, Dec.pure_eq, this, Dec.bind_ok', getLE_putLE'']
    have : b % 256 ^ 4 = b := Nat.mod_eq_of_lt (by omega)
    rw [this]; exact .ok _
  | double =>
    obtain ⟨b, rfl, hb, rfl⟩ := encode_double_inv he
    have := decTake_append (putLE 8 b) rest
    rw [putLE_len] at this
    simp only [decode, Dec.bind_eq, Dec.pure_eq, this, Dec.bind_ok', getLE_putLE'']
    have : b % 256 ^ 8 = b := Nat.mod_eq_of_lt (by omega)
    rw [this]; exact .ok _
  | bytes =>
    obtain ⟨b, rfl, hl, rfl⟩ := encode_bytes_inv he
    simp only [decode, Dec.bind_eq, Dec.pure_eq, decLenBytes_enc _ hl, Dec.bind_ok']; exact .ok _
  | string =>
    obtain ⟨b, rfl, hl, rfl⟩ := encode_string_inv he
    simp only [decode, Dec.bind_eq, Dec.pure_eq, decLenBytes_enc _ hl, Dec.bind_ok']; exact .ok _
  | fixed k =>
    obtain ⟨rfl, hl⟩ := encode_fixed_inv he
    subst hl
    simp only [decode, Dec.bind_eq, Dec.pure_eq, decTake_append, Dec.bind_ok']; exact .ok _
  | enum k =>
    cases v <;> simp [encode] at he
    rename_i i
    obtain ⟨⟨h0, h1, h64⟩, rfl⟩ := he
    simp only [decode, Dec.bind_eq, Dec.pure_eq, decVarint_write _ h64, Dec.bind_ok']
    have : 0 ≤ i ∧ i < (k : Int) := ⟨h0, h1⟩
    rw [if_pos this]; exact .ok _
  | record ns fs =>
    obtain ⟨bl, subs, vs, rfl, rfl, hf⟩ := encode_record_inv he
    simp only [decode, Dec.bind_eq, Dec.pure_eq]
    exact DecIs.bind (ih.fields _ _ _ _ _ hf) (.ok _)
  | array items =>
    obtain ⟨bl, subs, vs, encs, rfl, rfl, hi, hb⟩ := encode_array_inv he
    simp only [decode, Dec.bind_eq, Dec.pure_eq]
    have := ih.blocks false items bl _ encs bs rest (entries_of_items (encodeItems_inv hi)) hb
    refine DecIs.bind this ?_
    simp only [map_fst_unkeyed]; exact .ok _
  | map values =>
    obtain ⟨bl, subs, ks, vs, encs, rfl, rfl, hlen, hks, hi, hb⟩ := encode_map_inv he
    simp only [decode, Dec.bind_eq, Dec.pure_eq]
    have := ih.blocks true values bl _ _ bs rest (entries_of_map (encodeItems_inv hi) ks hlen hks) hb
    refine DecIs.bind this ?_
    simp only [zip_fst ks vs hlen, zip_snd ks vs hlen]; exact .ok _
  | union branches =>
    obtain ⟨bl, idx, v', b, p', e, rfl, rfl, hb, he', hi, rfl⟩ := encode_union_inv he
    simp only [decode, Dec.bind_eq, Dec.pure_eq, List.append_assoc, decVarint_write _ (inRange_of_nat_lt hi), Dec.bind_ok']
    have : ¬ ((idx : Int) < 0) := by omega
    rw [if_neg this]
    simp only [Int.toNat_natCast, hb]
    exact DecIs.bind (ih.decode _ _ _ _ _ he') (.ok _)

theorem decOk_fields (n : Nat) (ih : DecOkAt n) :
    ∀ ss ps vs bs rest, encodeFields ps ss vs = some bs → DecIs (decodeFields (n + 1) ss (bs ++ rest)) (vs, rest) := by
  intro ss ps vs bs rest he
  cases ss with
  | nil =>
    obtain ⟨rfl, rfl, rfl⟩ := encodeFields_nil_inv he
    simp only [decodeFields, List.nil_append]; exact .ok _
  | cons s ss =>
    obtain ⟨p, ps', v, vs', a, b, rfl, rfl, ha, hb, rfl⟩ := encodeFields_cons_inv he
    simp only [decodeFields, Dec.bind_eq, Dec.pure_eq, List.append_assoc]
    refine DecIs.bind (ih.decode _ _ _ _ _ ha) ?_
    exact DecIs.bind (ih.fields _ _ _ _ _ hb) (.ok _)

theorem decOk_items (n : Nat) (ih : DecOkAt n) :
    ∀ keyed s kvs es rest, All2 (EntryD keyed s) kvs es →
    DecIs (decodeItems (n + 1) keyed s es.length (es.flatten ++ rest)) (kvs, rest) := by
  intro keyed s kvs es rest h
  cases h with
  | nil => simp only [List.length_nil, decodeItems, List.flatten_nil, List.nil_append]; exact .ok _
  | @cons kv e kvs' es' hr ht =>
    obtain ⟨p, d, hd, hk⟩ := hr
    obtain ⟨k, v⟩ := kv
    simp only [List.length_cons, decodeItems, Dec.bind_eq, Dec.pure_eq, List.flatten_cons, List.append_assoc]
    rcases hk with ⟨hkf, hk0, rfl⟩ | ⟨hkt, hkl, rfl⟩
    · subst hkf; simp only at hk0; subst hk0
      simp only [Bool.false_eq_true, if_false, Dec.bind_ok']
      refine DecIs.bind (ih.decode _ _ _ _ _ hd) ?_
      exact DecIs.bind (ih.items _ _ _ _ _ ht) (.ok _)
    · subst hkt
      simp only [if_true, List.append_assoc]
      rw [decLenBytes_enc k hkl]
      simp only [Dec.bind_ok']
      refine DecIs.bind (ih.decode _ _ _ _ _ hd) ?_
      exact DecIs.bind (ih.items _ _ _ _ _ ht) (.ok _)

theorem decOk_blocks (n : Nat) (ih : DecOkAt n) :
    ∀ keyed s bl kvs es bs rest, All2 (EntryD keyed s) kvs es → encBlocks bl es = some bs →
    DecIs (decodeBlocks (n + 1) keyed s (bs ++ rest)) (kvs, rest) := by
  intro keyed s bl kvs es bs rest henc hb
  cases bl with
  | nil =>
    obtain ⟨rfl, rfl⟩ := encBlocks_nil_inv hb
    cases henc
    simp only [decodeBlocks, Dec.bind_eq, Dec.pure_eq]
    rw [decVarint_write 0 (by unfold inRange; omega)]
    simp only [Dec.bind_ok', if_true]
    exact .ok _
  | cons blk bl =>
    obtain ⟨k, sized⟩ := blk
    obtain ⟨rest', hk0, hkl, hk63, hbody63, hrest, rfl⟩ := encBlocks_cons_inv hb
    have hlenv : kvs.length = es.length := all2_length henc
    have hsplit : kvs = kvs.take k ++ kvs.drop k := (List.take_append_drop k kvs).symm
    have htake := all2_take henc k
    have hdrop := all2_drop henc k
    have hlen : (es.take k).length = k := by simp; omega
    simp only [decodeBlocks, Dec.bind_eq, Dec.pure_eq]
    have hcount : decVarint ((if sized then writeVarint (-(k : Int)) ++ writeVarint ((es.take k).flatten.length : Nat) else writeVarint (k : Int)) ++
        (es.take k).flatten ++ rest' ++ rest) =
        .ok ((if sized then -(k : Int) else (k : Int)),
          (if sized then writeVarint ((es.take k).flatten.length : Nat) else []) ++ ((es.take k).flatten ++ (rest' ++ rest))) := by
      cases sized with
      | true =>
        simp only [if_true, List.append_assoc]
        exact decVarint_write _ (by unfold inRange; omega) _
      | false =>
        simp only [Bool.false_eq_true, if_false, List.append_assoc, List.nil_append]
        exact decVarint_write _ (inRange_of_nat_lt hk63) _
    rw [hcount]
    simp only [Dec.bind_ok']
    have hne : ¬ ((if sized then -(k : Int) else (k : Int)) = 0) := by cases sized <;> simp <;> omega
    rw [if_neg hne]
    have hdr : decBlockHeader (if sized then -(k : Int) else (k : Int))
        ((if sized then writeVarint ((es.take k).flatten.length : Nat) else []) ++ ((es.take k).flatten ++ (rest' ++ rest))) =
        .ok (k, (es.take k).flatten ++ (rest' ++ rest)) := by
      unfold decBlockHeader
      cases sized with
      | true =>
        have h2 : (-(k : Int) < 0) := by omega
        simp only [if_true, h2, Dec.bind_eq, Dec.pure_eq]
        rw [decVarint_write _ (inRange_of_nat_lt hbody63)]
        simp
      | false =>
        have h2 : ¬ ((k : Int) < 0) := by omega
        simp [h2]
    rw [hdr]
    simp only [Dec.bind_ok']
    have h1 := ih.items keyed s _ _ (rest' ++ rest) htake
    rw [hlen] at h1
    refine DecIs.bind h1 ?_
    have h2 := ih.blocks keyed s bl _ _ rest' rest hdrop hrest
    refine DecIs.bind h2 ?_
    simp only []
    rw [← hsplit]; exact .ok _

/-- **The reference decoder inverts the specification encoder**, for every schema, datum, plan,
trailing input and step budget. -/
theorem decOkAt : ∀ n, DecOkAt n := by
  intro n
  induction n with
  | zero =>
    constructor <;> intros <;> exact Or.inr (by simp [decode, decodeFields, decodeItems, decodeBlocks])
  | succ n ih => exact ⟨decOk_decode n ih, decOk_fields n ih, decOk_items n ih, decOk_blocks n ih⟩

/-- headline form -/
theorem decode_encode (n : Nat) (s : ASchema) (p : Plan) (v : Value) (bs rest : Bytes) (he : encode p s v = some bs) :
    decode n s (bs ++ rest) = .ok (v, rest) ∨ decode n s (bs ++ rest) = .fuel :=
  (decOkAt n).decode s p v bs rest he

end Avro
