import AvroModel.Props.C09
import AvroModel.Props.C07
/-!
# Composition of the encoder model with the container reader model

`C09.refines` says what an `Encoder` call history writes: the header followed by the frames of the
reference partition of the records. `C07.delivers` says what `ReadFile` does with a header followed
by frames of good blocks. This file shows that the first kind of byte string *is* of the second kind,
so that the two theorems compose into a statement about write-then-read with no intermediate
hypothesis about the file's bytes.
-/
namespace Avro.EndToEnd
open Avro Avro.File

variable {α ε : Type}

/-- the block (in the reader's vocabulary) made of the record encodings `blk`, decoded by `dec` -/
def blkOf (cfg : EncCfg) (dec : Bytes → α) (blk : List Bytes) : Blk α :=
  { recs := blk.map (fun r => (dec r, r)), junk := [], payload := cfg.compress blk.flatten }

theorem blkOf_data (cfg : EncCfg) (dec : Bytes → α) (blk : List Bytes) : (blkOf cfg dec blk).data = blk.flatten := by
  simp [blkOf, Blk.data, List.map_map, Function.comp_def]

theorem blkOf_vals (cfg : EncCfg) (dec : Bytes → α) (blk : List Bytes) : (blkOf cfg dec blk).vals = blk.map dec := by
  simp [blkOf, Blk.vals, List.map_map, Function.comp_def]

/-- the writer's frame of a block is the reader's frame of `blkOf` -/
theorem frame_eq (cfg : EncCfg) (dec : Bytes → α) (blk : List Bytes) :
    Avro.frame cfg blk = File.frame cfg.sync (blkOf cfg dec blk) := by
  simp [Avro.frame, blockChunks, File.frame, frameHead, blkOf]

theorem frames_eq (cfg : EncCfg) (dec : Bytes → α) (part : List (List Bytes)) :
    (part.map (Avro.frame cfg)).flatten = body cfg.sync (part.map (blkOf cfg dec)) := by
  simp only [body, List.map_map]
  congr 1
  apply List.map_congr_left
  intro blk _
  exact frame_eq cfg dec blk

theorem allVals_blkOf (cfg : EncCfg) (dec : Bytes → α) (part : List (List Bytes)) :
    allVals (part.map (blkOf cfg dec)) = part.flatten.map dec := by
  induction part with
  | nil => simp [allVals]
  | cons b bs ih =>
    simp only [allVals, List.map_cons, List.flatMap_cons, List.flatten_cons, List.map_append] at ih ⊢
    rw [ih, blkOf_vals]

end Avro.EndToEnd

namespace Avro.EndToEnd
open Avro Avro.File

variable {α ε : Type}

theorem encodings_append_flush (ops : List EncOp) : encodings (ops ++ [.flush]) = encodings ops := by
  induction ops with
  | nil => simp [encodings]
  | cons op ops ih => cases op <;> simp [encodings, ih]

theorem length_le_flatten {β : Type} : ∀ (part : List (List β)), (∀ b ∈ part, b ≠ []) → part.length ≤ part.flatten.length
  | [], _ => by simp
  | b :: bs, h => by
    have hb : b ≠ [] := h b (by simp)
    have := length_le_flatten bs (fun x hx => h x (by simp [hx]))
    have : 0 < b.length := List.length_pos_iff.mpr hb
    simp only [List.length_cons, List.flatten_cons, List.length_append]
    omega

theorem length_le_flatten_of_mem {β : Type} : ∀ (part : List (List β)) (b : List β), b ∈ part → b.length ≤ part.flatten.length
  | [], _, h => by simp at h
  | c :: cs, b, h => by
    simp only [List.flatten_cons, List.length_append]
    rcases List.mem_cons.mp h with rfl | h
    · omega
    · have := length_le_flatten_of_mem cs b h; omega

/-- the blocks of the reference partition hold records of the history, in order: they are a prefix
of the encodings (what is missing is what is still pending) -/
theorem part_flatten_prefix (bs : Nat) (ops : List EncOp) :
    (specPart bs ops []).1.flatten <+: encodings ops := by
  have := C09.spec_preserves bs ops []
  simp only [List.nil_append] at this
  exact ⟨_, this⟩

/-- **What the writer wrote is a valid file** (in the reader's vocabulary), for *every* history
`ops`, ended by a `Flush` or not: the header followed by the frames of the blocks of the reference
partition `(specPart cfg.blockSize ops []).1` — records still pending at the end of `ops` are simply
not in the file. This is the construction both `write_then_read` and the truncation / crash
theorems (`C08.written_file_truncation`, `C16.crash_consistent`) rest on. -/
theorem written_valid (cfg : EncCfg) (ops : List EncOp)
    {X : Ext α} {fuel : Nat} {H : Header} {sel : CodecSel} {rc : RecCodec α}
    (hh : ValidHeader X fuel cfg.header H sel rc)
    (hcomp : ∀ x, decompress X sel (cfg.compress x) = .ok x)
    (hsmall : ∀ blk ∈ (specPart cfg.blockSize ops []).1, (cfg.compress blk.flatten).length ≤ maxLen)
    (dec : Bytes → α) (hdec : ∀ r ∈ encodings ops, ∀ rest, rc.decode (r ++ rest) = .ok (dec r, rest))
    (hn : (encodings ops).length < fuel) (hn63 : (encodings ops).length < 2 ^ 63) :
    ValidFile X fuel cfg.header H sel rc ((specPart cfg.blockSize ops []).1.map (blkOf cfg dec)) := by
  generalize hpart : (specPart cfg.blockSize ops []).1 = part at hsmall
  have hpre : part.flatten <+: encodings ops := by
    rw [← hpart]; exact part_flatten_prefix _ _
  have hfl : part.flatten.length ≤ (encodings ops).length := hpre.length_le
  have hne : ∀ b ∈ part, b ≠ [] := by
    rw [← hpart]; exact C09.spec_nonempty _ _ _
  have hlen : part.length ≤ (encodings ops).length :=
    Nat.le_trans (length_le_flatten part hne) hfl
  have hmem : ∀ b ∈ part, ∀ r ∈ b, r ∈ encodings ops := by
    intro b hb r hr
    exact hpre.subset (List.mem_flatten.mpr ⟨b, hb, hr⟩)
  have hblen : ∀ b ∈ part, b.length ≤ (encodings ops).length := by
    intro b hb
    exact Nat.le_trans (length_le_flatten_of_mem part b hb) hfl
  exact
    { toValidHeader := hh
      blocks := by
        intro b hb
        obtain ⟨blk, hblk, rfl⟩ := List.mem_map.mp hb
        refine ⟨?_, ?_, ?_, ?_⟩
        · rw [blkOf_data]; exact hcomp _
        · intro ve hve rest
          simp only [blkOf, List.mem_map] at hve
          obtain ⟨r, hr, rfl⟩ := hve
          exact hdec r (hmem blk hblk r hr) rest
        · exact hsmall blk hblk
        · have := hblen blk hblk
          simp only [blkOf, List.length_map]; omega
      fuel := by simp only [List.length_map]; omega }

/-- **write then read, whole files**: for every history of `Encode`/`Flush` calls ended by a `Flush`,
every block size, every compressor the reader's decompressor undoes, the bytes the writer accepted
are read back as exactly the written records, in order, and reading succeeds. `dec r` is the value
the record decoder yields for the encoding `r` (which it must decode exactly, whatever follows). -/
theorem write_then_read (cfg : EncCfg) (ops : List EncOp)
    {X : Ext α} {fuel : Nat} {H : Header} {sel : CodecSel} {rc : RecCodec α}
    (hh : ValidHeader X fuel cfg.header H sel rc) (hs : H.sync = cfg.sync)
    (hcomp : ∀ x, decompress X sel (cfg.compress x) = .ok x)
    (hsmall : ∀ blk ∈ (specPart cfg.blockSize (ops ++ [.flush]) []).1, (cfg.compress blk.flatten).length ≤ maxLen)
    (dec : Bytes → α) (hdec : ∀ r ∈ encodings ops, ∀ rest, rc.decode (r ++ rest) = .ok (dec r, rest))
    (hn : (encodings ops).length < fuel) (hn63 : (encodings ops).length < 2 ^ 63)
    (cb : Nat → Option ε) (hcb : ∀ i, cb i = none) :
    ∃ s' w', encRun cfg {} (ops ++ [.flush]) = (s', w', none) ∧ s'.count = 0 ∧ s'.wb = [] ∧
      readFile X fuel cb w'.accepted = ⟨(encodings ops).map dec, .ok⟩ := by
  obtain ⟨s', w', hrun, hacc, hcnt, hwb⟩ := C09.refines cfg (ops ++ [.flush])
  have hpend : (specPart cfg.blockSize (ops ++ [.flush]) []).2 = [] := C09.spec_flush_drains _ _ _
  rw [hpend] at hcnt hwb
  refine ⟨s', w', hrun, by simpa using hcnt, by simpa using hwb, ?_⟩
  have hv := written_valid cfg (ops ++ [.flush]) hh hcomp hsmall dec
    (by rw [encodings_append_flush]; exact hdec) (by rw [encodings_append_flush]; exact hn)
    (by rw [encodings_append_flush]; exact hn63)
  have hflat : (specPart cfg.blockSize (ops ++ [.flush]) []).1.flatten = encodings ops := by
    have := C09.spec_preserves cfg.blockSize (ops ++ [.flush]) []
    rw [hpend, encodings_append_flush] at this
    simpa using this
  have := C07.delivers hv cb hcb
  rw [hs, ← frames_eq, allVals_blkOf, hflat] at this
  rw [hacc]; exact this

end Avro.EndToEnd
