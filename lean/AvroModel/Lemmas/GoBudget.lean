import AvroModel.Lemmas.ReadBudget
/-!
A read budget in terms of the WRITTEN Go value: the datum `toAvro … c g` a Go value denotes is no
larger than `(Codec.sz c + 1) * (GoVal.sz g + 1)` (a record codec may deliver the same Go field into
several schema fields, hence a product), so `goBudget c g` steps suffice to read back what was
written for `g`.
-/
namespace Avro

theorem Codec.length_le_szList : ∀ (cs : List Codec), cs.length ≤ Codec.szList cs
  | [] => by simp
  | c :: cs => by
    simp only [List.length_cons, Codec.szList]
    have := Codec.length_le_szList cs
    omega

theorem GoVal.length_le_szList : ∀ (gs : List GoVal), gs.length ≤ GoVal.szList gs
  | [] => by simp
  | g :: gs => by
    simp only [List.length_cons, GoVal.szList]
    have := GoVal.length_le_szList gs
    omega

variable (env : Env)

structure TSzAt (nullp : Codec → GoVal → Bool) (n : Nat) : Prop where
  toAvro : ∀ c g v, toAvro env nullp n c g = some v → v.sz ≤ (c.sz + 1) * (g.sz + 1)
  toAvroItems : ∀ c gs vs, toAvroItems env nullp n c gs = some vs →
    Value.szList vs ≤ (c.sz + 1) * GoVal.szList gs + gs.length
  toAvroFields : ∀ cs ts fs vs, toAvroFields env nullp n cs ts fs = some vs →
    Value.szList vs ≤ Codec.szList cs * (GoVal.szList fs + 1) + cs.length

theorem tSzAt (nullp : Codec → GoVal → Bool) : ∀ n, TSzAt env nullp n := by
  intro n
  induction n with
  | zero => constructor <;> intros <;> simp_all [toAvro, toAvroItems, toAvroFields]
  | succ n ih =>
    constructor
    · intro c g v h
      cases c
      case unionOne c' nn =>
        simp only [toAvro] at h
        split at h
        · cases h
          simp only [Value.sz, Codec.sz]
          simp only [Nat.add_mul, Nat.mul_add, Nat.one_mul, Nat.mul_one]; omega
        · simp only [Option.map_eq_some_iff] at h
          obtain ⟨v', hv', rfl⟩ := h
          have := ih.toAvro c' g v' hv'
          simp only [Value.sz, Codec.sz]
          simp only [Nat.add_mul, Nat.mul_add, Nat.one_mul, Nat.mul_one] at this ⊢; omega
      case pointer c' =>
        cases g <;> simp [toAvro] at h
        case ptr t =>
          cases t with
          | none =>
            simp only at h
            split at h <;> simp at h <;> subst h <;>
              simp only [Value.sz, Value.szList, Codec.sz, GoVal.sz] <;>
              simp only [Nat.add_mul, Nat.mul_add, Nat.one_mul, Nat.mul_one] <;> omega
          | some x =>
            simp only at h
            have := ih.toAvro c' x v h
            simp only [Codec.sz, GoVal.sz]
            simp only [Nat.add_mul, Nat.mul_add, Nat.one_mul, Nat.mul_one] at this ⊢; omega
      case array item oe =>
        cases g <;> simp [toAvro] at h
        case slice items =>
          obtain ⟨vs, hvs, rfl⟩ := h
          have := ih.toAvroItems item items vs hvs
          have hl := GoVal.length_le_szList items
          simp only [Value.sz, Codec.sz, GoVal.sz]
          simp only [Nat.add_mul, Nat.mul_add, Nat.one_mul, Nat.mul_one] at this ⊢; omega
      case map val oe =>
        cases g <;> simp [toAvro] at h
        case map nl ks vs0 =>
          obtain ⟨vs, hvs, rfl⟩ := h
          have := ih.toAvroItems val vs0 vs hvs
          have hl := GoVal.length_le_szList vs0
          simp only [Value.sz, Codec.sz, GoVal.sz]
          simp only [Nat.add_mul, Nat.mul_add, Nat.one_mul, Nat.mul_one] at this ⊢; omega
      case record z cs ts =>
        cases g <;> simp [toAvro] at h
        case struct fs =>
          obtain ⟨vs, hvs, rfl⟩ := h
          have := ih.toAvroFields cs ts fs vs hvs
          have hl := Codec.length_le_szList cs
          simp only [Value.sz, Codec.sz, GoVal.sz]
          simp only [Nat.add_mul, Nat.mul_add, Nat.one_mul, Nat.mul_one] at this ⊢; omega
      case nullw k =>
        cases g <;> simp [toAvro] at h
        case nullw valid inner =>
          cases k <;> cases inner <;> simp at h <;> subst h <;> simp [Value.sz]
      case unionNullString o nn =>
        cases g <;> simp [toAvro] at h
        case str bs =>
          split at h <;> cases h <;> simp [Value.sz, Codec.sz, GoVal.sz]
      all_goals (cases g <;> simp [toAvro] at h <;> subst h <;> simp [Value.sz])
    · intro c gs vs h
      cases gs with
      | nil => simp [toAvroItems] at h; subst h; simp [Value.szList]
      | cons g gs =>
        simp only [toAvroItems] at h
        split at h
        · rename_i v vs' hv hvs
          cases h
          have h1 := ih.toAvro c g v hv
          have h2 := ih.toAvroItems c gs vs' hvs
          simp only [Value.szList, GoVal.szList, List.length_cons]
          simp only [Nat.add_mul, Nat.mul_add, Nat.one_mul, Nat.mul_one] at h1 h2 ⊢; omega
        · cases h
    · intro cs ts fs vs h
      rcases cs with _ | ⟨c, cs⟩
      · simp [toAvroFields] at h; subst h; simp [Value.szList]
      · rcases ts with _ | ⟨t, ts⟩
        · simp [toAvroFields] at h
        · cases t <;> simp only [toAvroFields] at h
          · cases h
          · split at h
            · cases h
            · rename_i g hg
              split at h
              · rename_i v vs' hv hvs
                cases h
                have h1 := ih.toAvro c g v hv
                have h2 := ih.toAvroFields cs ts fs vs' hvs
                have h3 := GoVal.sz_le_of_getElem? _ _ _ hg
                have h4 : (c.sz + 1) * (g.sz + 1) ≤ (c.sz + 1) * (GoVal.szList fs + 1) :=
                  Nat.mul_le_mul_left _ (by omega)
                simp only [Value.szList, Codec.szList, List.length_cons]
                simp only [Nat.add_mul, Nat.mul_add, Nat.one_mul, Nat.mul_one] at h1 h2 h4 ⊢; omega
              · cases h

/-- the datum a Go value denotes is bounded by the sizes of the codec and the value -/
theorem toAvro_sz (nullp : Codec → GoVal → Bool) {m : Nat} {c : Codec} {g : GoVal} {v : Value}
    (h : toAvro env nullp m c g = some v) : v.sz ≤ (c.sz + 1) * (g.sz + 1) :=
  (tSzAt env nullp m).toAvro c g v h

/-- a step budget, in terms of the written Go value, that suffices to read back what `write c g` wrote -/
def goBudget (c : Codec) (g : GoVal) : Nat := c.sz + 2 * ((c.sz + 1) * (g.sz + 1)) + 2

theorem readBudget_le_goBudget (nullp : Codec → GoVal → Bool) {m : Nat} {c : Codec} {g : GoVal} {v : Value}
    (h : toAvro env nullp m c g = some v) : readBudget c v ≤ goBudget c g := by
  have := toAvro_sz env nullp h
  unfold readBudget goBudget; omega

end Avro
