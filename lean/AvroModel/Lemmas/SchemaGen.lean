import AvroModel.SchemaGen
/-!
Lemmas about the schema generation model (`SchemaGen.lean`): reflexivity of type identity, the fuel
measure used by the totality theorem, type contexts with a hole (shared by C15 and C20).
-/
namespace Avro

/-! ### type identity is reflexive -/

mutual
theorem GoType.beq_refl : ∀ t : GoType, GoType.beq t t = true
  | .bool | .float32 | .float64 | .complex | .string | .time | .iface | .chan | .func | .unsafeptr => by
    simp [GoType.beq]
  | .int _ | .uint _ | .ref _ => by simp [GoType.beq]
  | .nullT k => by cases k <;> simp [GoType.beq]
  | .slice e | .ptr e => by simp [GoType.beq, GoType.beq_refl e]
  | .array _ e => by simp [GoType.beq, GoType.beq_refl e]
  | .custom _ e => by simp [GoType.beq, GoType.beq_refl e]
  | .map k v => by simp [GoType.beq, GoType.beq_refl k, GoType.beq_refl v]
  | .struct _ _ fs => by simp [GoType.beq, GoField.beqList_refl fs]
theorem GoField.beqList_refl : ∀ fs : List GoField, GoField.beqList fs fs = true
  | [] => by simp [GoField.beqList]
  | .mk _ _ _ _ t :: fs => by simp [GoField.beqList, GoType.beq_refl t, GoField.beqList_refl fs]
end

/-! ### the fuel measure -/

mutual
/-- nesting depth of a type tree; a back-reference counts 1 (one step to resolve it) -/
def GoType.depth : GoType → Nat
  | .slice e | .array _ e | .ptr e => e.depth + 1
  | .custom _ e => e.depth
  | .map _ v => v.depth + 1
  | .struct _ _ fs => GoField.depthList fs + 1
  | .ref _ => 1
  | _ => 0
def GoField.depthList : List GoField → Nat
  | [] => 0
  | .mk _ _ _ _ t :: fs => max t.depth (GoField.depthList fs)
end

theorem GoField.depth_le_depthList {f : GoField} {fs : List GoField} (h : f ∈ fs) :
    f.type.depth ≤ GoField.depthList fs := by
  induction fs with
  | nil => cases h
  | cons g gs ih =>
    obtain ⟨n, e, j, b, t⟩ := g
    simp only [GoField.depthList]
    cases h with
    | head => simp [GoField.type]; omega
    | tail _ h' => have := ih h'; omega

/-- the named types of `names` whose definition is not yet among the parents -/
def pending (env : TEnv) (names : List String) (ps : List GoType) : Nat :=
  (names.filter fun n => match env n with
    | some t => !(ps.any (GoType.beq t))
    | none => false).length

theorem pending_append_le (env : TEnv) (names : List String) (ps : List GoType) (x : GoType) :
    pending env names (ps ++ [x]) ≤ pending env names ps := by
  unfold pending
  induction names with
  | nil => simp
  | cons n ns ih =>
    simp only [List.filter_cons]
    cases hn : env n with
    | none => simpa using ih
    | some t =>
      simp only
      by_cases h : ps.any (GoType.beq t) = true
      · have h2 : (ps ++ [x]).any (GoType.beq t) = true := by simp [List.any_append, h]
        simpa [h, h2] using ih
      · by_cases h2 : (ps ++ [x]).any (GoType.beq t) = true
        · simp only [h, h2, Bool.not_true, Bool.not_false]
          simp only [Bool.false_eq_true, if_false, if_true, List.length_cons]
          omega
        · simp only [h, h2, Bool.not_false, if_true, List.length_cons]
          omega

theorem pending_push_lt (env : TEnv) (names : List String) (ps : List GoType) (n : String) (t : GoType)
    (hn : n ∈ names) (he : env n = some t) (hp : ps.any (GoType.beq t) = false) :
    pending env names (ps ++ [t]) < pending env names ps := by
  induction names with
  | nil => cases hn
  | cons m ms ih =>
    have hle := pending_append_le env ms ps t
    unfold pending at hle ih ⊢
    simp only [List.filter_cons]
    by_cases hm : m = n
    · subst hm
      have h2 : (ps ++ [t]).any (GoType.beq t) = true := by simp [List.any_append, GoType.beq_refl]
      simp only [he, hp, h2, Bool.not_false, Bool.not_true, if_true, List.length_cons]
      simp only [Bool.false_eq_true, if_false]
      omega
    · have hn' : n ∈ ms := by
        cases hn with
        | head => exact absurd rfl hm
        | tail _ h => exact h
      have := ih hn'
      cases hmm : env m with
      | none => simpa using this
      | some u =>
        simp only
        by_cases h : ps.any (GoType.beq u) = true
        · have h2 : (ps ++ [t]).any (GoType.beq u) = true := by simp [List.any_append, h]
          simpa [h, h2] using this
        · by_cases h2 : (ps ++ [t]).any (GoType.beq u) = true
          · simp only [h, h2, Bool.not_true, Bool.not_false]
            simp only [Bool.false_eq_true, if_false, if_true, List.length_cons]
            omega
          · simp only [h, h2, Bool.not_false, if_true, List.length_cons]
            omega

theorem pending_le_length (env : TEnv) (names : List String) (ps : List GoType) :
    pending env names ps ≤ names.length := by
  unfold pending; exact List.length_filter_le _ _

theorem schemaForType_succ (sreg : SReg) (env : TEnv) (fuel : Nat) (ps : List GoType) (t : GoType) :
    schemaForType sreg env (fuel + 1) ps t = genStep sreg env (schemaForType sreg env fuel) ps t := rfl

theorem genFields_no_overflow (rec : GoType → Gen Schema) (fs : List GoField)
    (h : ∀ f ∈ fs, rec f.type ≠ .overflow) : genFields rec fs ≠ .overflow := by
  induction fs with
  | nil => simp [genFields]
  | cons f fs ih =>
    have ih' := ih (fun g hg => h g (List.mem_cons_of_mem _ hg))
    have hf := h f List.mem_cons_self
    simp only [genFields]
    split
    · exact ih'
    · cases h1 : rec f.type with
      | ok s =>
        simp only
        cases h2 : genFields rec fs with
        | ok r => simp
        | err => simp
        | overflow => exact absurd h2 ih'
      | err => simp
      | overflow => exact absurd h1 hf

/-- the kind switch does not overflow when the recursive calls on the components do not -/
theorem genKind_no_overflow (env : TEnv) (rec : GoType → Gen Schema) (k : GoType)
    (h : ∀ e, e.depth + 1 ≤ k.depth → rec e ≠ .overflow) : genKind env rec k ≠ .overflow := by
  cases k <;> simp only [genKind] <;> try (intro hh; cases hh; done)
  case slice e =>
    have := h e (by simp [GoType.depth])
    split
    · simp
    · cases h1 : rec e <;> simp_all
  case array n e =>
    have := h e (by simp [GoType.depth])
    split
    · simp
    · cases h1 : rec e <;> simp_all
  case map k v =>
    have := h v (by simp [GoType.depth])
    split
    · cases h1 : rec v <;> simp_all
    · simp
  case ptr e =>
    have := h e (by simp [GoType.depth])
    cases h1 : rec e <;> simp_all
  case struct name pkg fs =>
    have := genFields_no_overflow rec fs (fun f hf => h f.type (by
      have := GoField.depth_le_depthList hf
      simp only [GoType.depth]; omega))
    cases h1 : genFields rec fs <;> simp_all

theorem strip_depth (t : GoType) : t.strip.depth ≤ t.depth := by
  cases t <;> simp [GoType.strip, GoType.depth]

theorem genStep_nonref (sreg : SReg) (env : TEnv) (rec : List GoType → GoType → Gen Schema)
    (ps : List GoType) (t : GoType) (h : ∀ n, t ≠ .ref n) :
    genStep sreg env rec ps t = genResolved sreg env rec ps t := by
  cases t <;> first | rfl | exact absurd rfl (h _)

theorem genKind_leaf (env : TEnv) (rec : GoType → Gen Schema) (k : GoType) (h : k.composite = false) :
    genKind env rec k ≠ .overflow := by
  cases k <;> simp [GoType.composite] at h <;> simp [genKind]

/-- hypotheses on the type environment under which generation is total: finitely many named types,
each defined as an actual type (Go has no type whose definition is just another name), of bounded
depth -/
structure EnvBound (env : TEnv) (names : List String) (W : Nat) : Prop where
  fin : ∀ n t, env n = some t → n ∈ names
  notRef : ∀ n t, env n = some t → ∀ m, t ≠ .ref m
  depth : ∀ n t, env n = some t → t.depth ≤ W

theorem genResolved_no_overflow (sreg : SReg) (env : TEnv) (rec : List GoType → GoType → Gen Schema)
    (ps : List GoType) (t : GoType)
    (h2 : ps.any (GoType.beq t) = false → ∀ e, e.depth + 1 ≤ t.depth → rec (ps ++ [t]) e ≠ .overflow) :
    genResolved sreg env rec ps t ≠ .overflow := by
  unfold genResolved
  cases sregLookup sreg t with
  | some s => simp
  | none =>
    simp only
    have hd := strip_depth t
    by_cases hc : t.strip.composite = true
    · simp only [hc, if_true]
      by_cases hp : ps.any (GoType.beq t) = true
      · simp [hp]
      · simp only [hp, Bool.false_eq_true, if_false]
        exact genKind_no_overflow env _ _ (fun e he => h2 (by simpa using hp) e (by omega))
    · simp only [hc, Bool.false_eq_true, if_false]
      exact genKind_leaf env _ _ (by simpa using hc)

theorem total_aux (sreg : SReg) (env : TEnv) (names : List String) (W : Nat) (hb : EnvBound env names W) :
    ∀ fuel ps t, pending env names ps * W + t.depth + 1 ≤ fuel → schemaForType sreg env fuel ps t ≠ .overflow := by
  intro fuel
  induction fuel using Nat.strongRecOn with
  | _ fuel ih =>
    intro ps t hf
    cases fuel with
    | zero => omega
    | succ m =>
      rw [schemaForType_succ]
      by_cases hr : ∃ n, t = .ref n
      · obtain ⟨n, rfl⟩ := hr
        simp only [genStep]
        cases he : env n with
        | none => simp
        | some t' =>
          simp only
          simp only [GoType.depth] at hf
          cases m with
          | zero => omega
          | succ m' =>
            rw [schemaForType_succ, genStep_nonref _ _ _ _ _ (hb.notRef n t' he)]
            have hW := hb.depth n t' he
            apply genResolved_no_overflow
            intro hp e hed
            ·
              apply ih m' (by omega)
              have hlt := pending_push_lt env names ps n t' (hb.fin n t' he) he hp
              have : (pending env names (ps ++ [t']) + 1) * W ≤ pending env names ps * W :=
                Nat.mul_le_mul_right W hlt
              rw [Nat.add_mul] at this
              omega
      · have hr' : ∀ n, t ≠ .ref n := fun n hn => hr ⟨n, hn⟩
        rw [genStep_nonref _ _ _ _ _ hr']
        apply genResolved_no_overflow
        · intro _ e hed
          apply ih m (by omega)
          have := pending_append_le env names ps t
          have : pending env names (ps ++ [t]) * W ≤ pending env names ps * W := Nat.mul_le_mul_right W this
          omega

/-! ### type contexts with a hole -/

/-- a position inside a type tree: the path from the root to the hole through pointers, slices, arrays,
map values and struct fields (with arbitrary sibling fields before and after) -/
inductive Ctx where
  | hole
  | ptr (c : Ctx)
  | slice (c : Ctx)
  | array (n : Nat) (c : Ctx)
  | map (k : GoType) (c : Ctx)
  | field (name pkg : String) (pre : List GoField) (fname jsonTag bqTag : String) (c : Ctx) (post : List GoField)

def Ctx.fill : Ctx → GoType → GoType
  | .hole, x => x
  | .ptr c, x => .ptr (c.fill x)
  | .slice c, x => .slice (c.fill x)
  | .array n c, x => .array n (c.fill x)
  | .map k c, x => .map k (c.fill x)
  | .field name pkg pre fname j b c post, x =>
    .struct name pkg (pre ++ GoField.mk fname true j b (c.fill x) :: post)

/-- every field on the path to the hole is part of the schema (exported, not excluded by a tag) -/
def Ctx.Included : Ctx → Prop
  | .hole => True
  | .ptr c | .slice c | .array _ c | .map _ c => c.Included
  | .field _ _ _ fname j b c _ => nameForField (.mk fname true j b .bool) ≠ "-" ∧ c.Included

theorem nameForField_type_irrel (n : String) (e : Bool) (j b : String) (t t' : GoType) :
    nameForField (.mk n e j b t) = nameForField (.mk n e j b t') := rfl

theorem genResolved_composite (sreg : SReg) (env : TEnv) (rec : List GoType → GoType → Gen Schema)
    (ps : List GoType) (t : GoType) (h1 : sregLookup sreg t = none) (h2 : t.strip.composite = true) :
    genResolved sreg env rec ps t =
      if ps.any (GoType.beq t) then .err else genKind env (rec (ps ++ [t])) t.strip := by
  simp [genResolved, h1, h2]

theorem isByteKind_fill (env : TEnv) (c : Ctx) (x : GoType) (hx : isByteKind env x = false) :
    isByteKind env (c.fill x) = false := by
  cases c <;> simp [Ctx.fill, isByteKind, resolve, GoType.strip] <;> exact hx

theorem genFields_ok_mem (rec : GoType → Gen Schema) (fs : List GoField) (r : List SchemaField)
    (h : genFields rec fs = .ok r) (f : GoField) (hf : f ∈ fs) (hn : nameForField f ≠ "-") :
    ∃ s, rec f.type = .ok s := by
  induction fs generalizing r with
  | nil => cases hf
  | cons g gs ih =>
    simp only [genFields] at h
    by_cases hg : nameForField g = "-"
    · simp only [hg, beq_self_eq_true, if_true] at h
      cases hf with
      | head => exact absurd hg hn
      | tail _ h' => exact ih r h h'
    · have hg' : (nameForField g == "-") = false := by simpa using hg
      simp only [hg', Bool.false_eq_true, if_false] at h
      cases h1 : rec g.type with
      | ok s =>
        simp only [h1] at h
        cases h2 : genFields rec gs with
        | ok r' =>
          cases hf with
          | head => exact ⟨s, h1⟩
          | tail _ h' => exact ih r' h2 h'
        | err => simp [h2] at h
        | overflow => simp [h2] at h
      | err => simp [h1] at h
      | overflow => simp [h1] at h

/-- if the type at the hole never yields a schema — evaluated with the root of the context among the
parents — neither does the type around it -/
theorem notOk_descend (sreg : SReg) (env : TEnv) (x : GoType) (hxb : isByteKind env x = false) :
    ∀ (c : Ctx), c.Included → ∀ fuel ps,
      (∀ fuel' ps', (∀ p ∈ ps, p ∈ ps') → (c ≠ .hole → c.fill x ∈ ps') →
        ∀ s, schemaForType sreg env fuel' ps' x ≠ .ok s) →
      ∀ s, schemaForType sreg env fuel ps (c.fill x) ≠ .ok s := by
  intro c
  induction c with
  | hole => intro _ fuel ps h s; exact h fuel ps (fun _ hp => hp) (fun hne => absurd rfl hne) s
  | ptr c ih =>
    intro hi fuel ps h s
    cases fuel with
    | zero => simp [schemaForType]
    | succ m =>
      have ih' := ih hi m (ps ++ [(Ctx.ptr c).fill x]) (fun f' ps' hsub _ => h f' ps' (fun p hp => hsub p (by simp [hp])) (fun _ => hsub _ (by simp)))
      rw [schemaForType_succ, genStep_nonref _ _ _ _ _ (by intro n hn; cases hn),
        genResolved_composite _ _ _ _ _ rfl rfl]
      split
      · simp
      · simp only [Ctx.fill, GoType.strip, genKind] at ih' ⊢
        cases h1 : schemaForType sreg env m (ps ++ [(c.fill x).ptr]) (c.fill x) with
        | ok u => exact absurd h1 (ih' u)
        | err => simp
        | overflow => simp
  | slice c ih =>
    intro hi fuel ps h s
    cases fuel with
    | zero => simp [schemaForType]
    | succ m =>
      have ih' := ih hi m (ps ++ [(Ctx.slice c).fill x]) (fun f' ps' hsub _ => h f' ps' (fun p hp => hsub p (by simp [hp])) (fun _ => hsub _ (by simp)))
      rw [schemaForType_succ, genStep_nonref _ _ _ _ _ (by intro n hn; cases hn),
        genResolved_composite _ _ _ _ _ rfl rfl]
      split
      · simp
      · simp only [Ctx.fill, GoType.strip, genKind, isByteKind_fill env c x hxb] at ih' ⊢
        cases h1 : schemaForType sreg env m (ps ++ [(c.fill x).slice]) (c.fill x) with
        | ok u => exact absurd h1 (ih' u)
        | err => simp
        | overflow => simp
  | array n c ih =>
    intro hi fuel ps h s
    cases fuel with
    | zero => simp [schemaForType]
    | succ m =>
      have ih' := ih hi m (ps ++ [(Ctx.array n c).fill x]) (fun f' ps' hsub _ => h f' ps' (fun p hp => hsub p (by simp [hp])) (fun _ => hsub _ (by simp)))
      rw [schemaForType_succ, genStep_nonref _ _ _ _ _ (by intro n hn; cases hn),
        genResolved_composite _ _ _ _ _ rfl rfl]
      split
      · simp
      · simp only [Ctx.fill, GoType.strip, genKind, isByteKind_fill env c x hxb] at ih' ⊢
        cases h1 : schemaForType sreg env m (ps ++ [(c.fill x).array n]) (c.fill x) with
        | ok u => exact absurd h1 (ih' u)
        | err => simp
        | overflow => simp
  | map k c ih =>
    intro hi fuel ps h s
    cases fuel with
    | zero => simp [schemaForType]
    | succ m =>
      have ih' := ih hi m (ps ++ [(Ctx.map k c).fill x]) (fun f' ps' hsub _ => h f' ps' (fun p hp => hsub p (by simp [hp])) (fun _ => hsub _ (by simp)))
      rw [schemaForType_succ, genStep_nonref _ _ _ _ _ (by intro n hn; cases hn),
        genResolved_composite _ _ _ _ _ rfl rfl]
      split
      · simp
      · simp only [Ctx.fill, GoType.strip, genKind] at ih' ⊢
        split
        · cases h1 : schemaForType sreg env m (ps ++ [GoType.map k (c.fill x)]) (c.fill x) with
          | ok u => exact absurd h1 (ih' u)
          | err => simp
          | overflow => simp
        · simp
  | field name pkg pre fname j b c post ih =>
    intro hi fuel ps h s
    cases fuel with
    | zero => simp [schemaForType]
    | succ m =>
      have ih' := ih hi.2 m (ps ++ [(Ctx.field name pkg pre fname j b c post).fill x])
        (fun f' ps' hsub _ => h f' ps' (fun p hp => hsub p (by simp [hp])) (fun _ => hsub _ (by simp)))
      rw [schemaForType_succ, genStep_nonref _ _ _ _ _ (by intro n hn; cases hn),
        genResolved_composite _ _ _ _ _ rfl rfl]
      split
      · simp
      · simp only [Ctx.fill, GoType.strip, genKind] at ih' ⊢
        cases h1 : genFields (schemaForType sreg env m
            (ps ++ [GoType.struct name pkg (pre ++ GoField.mk fname true j b (c.fill x) :: post)]))
            (pre ++ GoField.mk fname true j b (c.fill x) :: post) with
        | ok r =>
          obtain ⟨u, hu⟩ := genFields_ok_mem _ _ _ h1 (GoField.mk fname true j b (c.fill x)) (by simp) hi.1
          exact absurd hu (ih' u)
        | err => simp
        | overflow => simp

/-! ### the graph of the field loop -/

/-- successful runs of the field loop of `schemaForStruct`: fields named "-" are skipped, the others
appear in declaration order under their JSON name, `omitempty` wraps non-union types -/
inductive FieldsOf (rec : GoType → Gen Schema) : List GoField → List SchemaField → Prop
  | nil : FieldsOf rec [] []
  | skip {f fs r} : nameForField f = "-" → FieldsOf rec fs r → FieldsOf rec (f :: fs) r
  | keep {f fs r s} : nameForField f ≠ "-" → rec f.type = .ok s → FieldsOf rec fs r →
      FieldsOf rec (f :: fs) (.mk (nameForField f) (omitWrap (omitEmptyTag f.jsonTag) s) :: r)

theorem genFields_ok_iff (rec : GoType → Gen Schema) (fs : List GoField) (r : List SchemaField) :
    genFields rec fs = .ok r ↔ FieldsOf rec fs r := by
  constructor
  · intro h
    induction fs generalizing r with
    | nil => simp [genFields] at h; subst h; exact .nil
    | cons g gs ih =>
      simp only [genFields] at h
      by_cases hg : nameForField g = "-"
      · simp only [hg, beq_self_eq_true, if_true] at h
        exact .skip hg (ih r h)
      · have hg' : (nameForField g == "-") = false := by simpa using hg
        simp only [hg', Bool.false_eq_true, if_false] at h
        cases h1 : rec g.type with
        | ok s =>
          simp only [h1] at h
          cases h2 : genFields rec gs with
          | ok r' =>
            simp only [h2] at h
            cases h
            exact .keep hg h1 (ih r' h2)
          | err => simp [h2] at h
          | overflow => simp [h2] at h
        | err => simp [h1] at h
        | overflow => simp [h1] at h
  · intro h
    induction h with
    | nil => simp [genFields]
    | skip hn _ ih => simp [genFields, hn, ih]
    | @keep f _ _ _ hn hr _ ih =>
      have hg' : (nameForField f == "-") = false := by simpa using hn
      simp [genFields, hg', hr, ih]

/-- mapping over the result of a generation step -/
def Gen.map {α β : Type} (f : α → β) : Gen α → Gen β
  | .ok a => .ok (f a)
  | .err => .err
  | .overflow => .overflow

theorem genKind_struct (env : TEnv) (rec : GoType → Gen Schema) (name pkg : String) (fs : List GoField) :
    genKind env rec (.struct name pkg fs) = (genFields rec fs).map (recordSchema name pkg) := by
  simp only [genKind, Gen.map]; cases genFields rec fs <;> rfl

theorem genKind_slice (env : TEnv) (rec : GoType → Gen Schema) (e : GoType) :
    genKind env rec (.slice e) = if isByteKind env e then .ok (.prim "bytes") else (rec e).map arraySchema := by
  simp only [genKind, Gen.map]; split
  · rfl
  · cases rec e <;> rfl

theorem genKind_array (env : TEnv) (rec : GoType → Gen Schema) (n : Nat) (e : GoType) :
    genKind env rec (.array n e) = if isByteKind env e then .ok (.prim "bytes") else (rec e).map arraySchema := by
  simp only [genKind, Gen.map]; split
  · rfl
  · cases rec e <;> rfl

theorem genKind_map (env : TEnv) (rec : GoType → Gen Schema) (k v : GoType) :
    genKind env rec (.map k v) = if isStringKind env k then (rec v).map mapSchema else .err := by
  simp only [genKind, Gen.map]; split
  · cases rec v <;> rfl
  · rfl

theorem genKind_ptr (env : TEnv) (rec : GoType → Gen Schema) (e : GoType) :
    genKind env rec (.ptr e) = (rec e).map ptrWrap := by
  simp only [genKind, Gen.map]; cases rec e <;> rfl

theorem ptrWrap_plain' (u : Schema) (h1 : u.type ≠ "union") (h2 : u.type ≠ "array") (h3 : u.type ≠ "map") :
    ptrWrap u = nullableSchema u := by
  simp [ptrWrap, h1, h2, h3]

theorem ptrWrap_stays' (u : Schema) (h : u.type = "union" ∨ u.type = "array" ∨ u.type = "map") : ptrWrap u = u := by
  rcases h with h | h | h <;> simp [ptrWrap, h]

end Avro
