import AvroModel.Lemmas.ReadOk
import AvroModel.Lemmas.WriteStable
import AvroModel.Lemmas.Mono
/-!
An explicit step budget for reading / skipping a VALID encoding.

`readBudget c v = Codec.sz c + 2 * Value.sz v + 2` depends only on the codec tree and the datum, not
on the writer's plan (every block of an array / map holds at least one item, so the number of blocks
is bounded by the number of items), not on the destination and not on what follows the datum.
With at least that budget `read` and `skip` of `encoding ++ rest` do not run out of budget
(`read_ne_fuel`, `skip_ne_fuel`); combined with `readOkAt` / `skipExactAt` this gives exact results
without a "or out of budget" alternative (`read_exact`, `read_misfit`, `skip_budget`).
-/
namespace Avro

/-! ### measures -/

theorem Value.szList_take_add_drop : ∀ (k : Nat) (vs : List Value),
    Value.szList (vs.take k) + Value.szList (vs.drop k) = Value.szList vs
  | 0, vs => by simp [Value.szList]
  | k + 1, [] => by simp [Value.szList]
  | k + 1, v :: vs => by
    simp only [List.take_succ_cons, List.drop_succ_cons, Value.szList]
    have := Value.szList_take_add_drop k vs
    omega

theorem Value.length_le_szList : ∀ (vs : List Value), vs.length ≤ Value.szList vs
  | [] => by simp
  | v :: vs => by
    simp only [List.length_cons, Value.szList]
    have := Value.length_le_szList vs
    omega

/-- a non-empty block takes a positive share of the measure -/
theorem Value.szList_take_pos {k : Nat} {vs : List Value} (hk : 0 < k) (hl : k ≤ vs.length) :
    0 < Value.szList (vs.take k) := by
  have := Value.length_le_szList (vs.take k)
  simp only [List.length_take] at this
  omega

/-- **The step budget** that suffices to read (or skip) any encoding of datum `v` with codec `c`. -/
def readBudget (c : Codec) (v : Value) : Nat := c.sz + 2 * v.sz + 2

/-- the budget a list of records needs: the maximum of the records' budgets -/
def readBudgetList (c : Codec) : List Value → Nat
  | [] => 0
  | v :: vs => max (readBudget c v) (readBudgetList c vs)

theorem readBudget_le_list {c : Codec} {v : Value} : ∀ {vs : List Value}, v ∈ vs → readBudget c v ≤ readBudgetList c vs
  | [], h => by simp at h
  | w :: ws, h => by
    simp only [List.mem_cons] at h
    simp only [readBudgetList]
    rcases h with rfl | h
    · exact Nat.le_max_left _ _
    · exact Nat.le_trans (readBudget_le_list h) (Nat.le_max_right _ _)

/-! ### block headers as the specification writes them -/

theorem rdVarint_blockHeader (sized : Bool) (k body : Nat) (hk : k < 2 ^ 63) (tail : Bytes) :
    rdVarint ((if sized then writeVarint (-(k : Int)) ++ writeVarint (body : Nat) else writeVarint (k : Int)) ++ tail) =
      .ok ((if sized then -(k : Int) else (k : Int)), (if sized then writeVarint (body : Nat) else []) ++ tail) := by
  cases sized with
  | true =>
    simp only [if_true, List.append_assoc]
    exact rdVarint_write _ (by unfold inRange; omega) _
  | false =>
    simp only [Bool.false_eq_true, if_false, List.nil_append]
    exact rdVarint_write _ (inRange_of_nat_lt hk) _

theorem blockCount_header (sized : Bool) (k body : Nat) (hk0 : 0 < k) (hk : k < 2 ^ 63) (hbody : body < 2 ^ 63) (tail : Bytes) :
    blockCount (if sized then -(k : Int) else (k : Int)) ((if sized then writeVarint (body : Nat) else []) ++ tail) = .ok (k, tail) := by
  unfold blockCount
  cases sized with
  | true =>
    have h2 : (-(k : Int) < 0) := by omega
    simp only [if_true, h2, Outcome.bind_eq, Outcome.pure_eq]
    rw [rdVarint_write _ (inRange_of_nat_lt hbody)]
    simp only [Outcome.bind_ok']
    have hw : wrap64 (- -(k : Int)) = k := by unfold wrap64; omega
    rw [hw]
    have h3 : ¬ ((k : Int) < 0) := by omega
    simp [h3]
  | false =>
    have h2 : ¬ ((k : Int) < 0) := by omega
    simp [h2]

theorem arrayBlockCount_header (sized : Bool) (k body : Nat) (hk0 : 0 < k) (hk : k < 2 ^ 63) (hbody : body < 2 ^ 63)
    (tail : Bytes) (len : Nat) :
    arrayBlockCount (if sized then -(k : Int) else (k : Int)) ((if sized then writeVarint (body : Nat) else []) ++ tail) len = .ok (k, tail) ∨
    arrayBlockCount (if sized then -(k : Int) else (k : Int)) ((if sized then writeVarint (body : Nat) else []) ++ tail) len = .err := by
  unfold arrayBlockCount
  cases sized with
  | true =>
    have h2 : (-(k : Int) < 0) := by omega
    simp only [if_true, h2]
    rw [rdVarint_write _ (inRange_of_nat_lt hbody)]
    simp only [Outcome.bind_ok']
    have hw : wrap64 (- -(k : Int)) = k := by unfold wrap64; omega
    rw [hw]
    split
    · exact Or.inr rfl
    · left; simp
  | false =>
    have h2 : ¬ ((k : Int) < 0) := by omega
    simp only [Bool.false_eq_true, if_false, h2, List.nil_append, Outcome.bind_ok']
    split
    · exact Or.inr rfl
    · left; simp

/-! ### skip -/

/-- entry `e` of an array (`keyed = false`) or map (`keyed = true`) block encodes datum `v` -/
def EntryFor (keyed : Bool) (s : ASchema) (v : Value) (e : Bytes) : Prop :=
  ∃ p d, encode p s v = some d ∧
    ((keyed = false ∧ e = d) ∨ (keyed = true ∧ ∃ k : Bytes, k.length < 2 ^ 63 ∧ e = encBytes k ++ d))

theorem entriesFor_unkeyed {s : ASchema} {vs : List Value} {encs : List Bytes}
    (h : ItemsEnc s vs encs) : All2 (EntryFor false s) vs encs := by
  induction h with
  | nil => exact .nil
  | cons hr _ ih =>
    obtain ⟨p, hp⟩ := hr
    exact .cons ⟨p, _, hp, Or.inl ⟨rfl, rfl⟩⟩ ih

theorem entriesFor_keyed {s : ASchema} {vs : List Value} {encs : List Bytes}
    (h : ItemsEnc s vs encs) : ∀ (ks : List Bytes), ks.length = vs.length → (∀ k ∈ ks, k.length < 2 ^ 63) →
    All2 (EntryFor true s) vs (List.zipWith (fun k e => encBytes k ++ e) ks encs) := by
  induction h with
  | nil => intro ks hl _; cases ks <;> simp at hl ⊢; exact .nil
  | cons hr _ ih =>
    intro ks hl hks
    cases ks with
    | nil => simp at hl
    | cons k ks =>
      simp only [List.zipWith_cons_cons]
      obtain ⟨p, hp⟩ := hr
      exact .cons ⟨p, _, hp, Or.inr ⟨rfl, k, hks k (by simp), rfl⟩⟩
        (ih ks (by simpa using hl) (fun k' hk' => hks k' (by simp [hk'])))

theorem Outcome.bind_eq_ok_of {α β : Type} {o : Outcome α} {a : α} {f : α → Outcome β} {b : β}
    (h1 : o = .ok a) (h2 : f a = .ok b) : o.bind f = .ok b := by
  rw [h1]; exact h2

variable (env : Env)

/-- at budget `n`, skipping a valid encoding whose budget is at most `n` returns the exact remainder -/
structure SkipBudAt (n : Nat) : Prop where
  skip : ∀ c s p v bs rest, CodecFor c s → encode p s v = some bs → c.sz + 2 * v.sz + 2 ≤ n →
    skip env n c (bs ++ rest) = .ok rest
  skipFields : ∀ cs ss ps vs bs rest, CodecsFor cs ss → encodeFields ps ss vs = some bs →
    Codec.szList cs + 2 * Value.szList vs + 2 ≤ n → skipFields env n cs (bs ++ rest) = .ok rest
  skipItems : ∀ keyed item s vs (es : List Bytes) rest, CodecFor item s → All2 (EntryFor keyed s) vs es →
    item.sz + 2 * Value.szList vs + 2 ≤ n →
    skipItems env n keyed item es.length (es.flatten ++ rest) = .ok rest
  skipBlocks : ∀ keyed item s bl vs (es : List Bytes) bs rest, CodecFor item s → All2 (EntryFor keyed s) vs es →
    encBlocks bl es = some bs → item.sz + 2 * Value.szList vs + 3 ≤ n →
    skipBlocks env n keyed item (bs ++ rest) = .ok rest

theorem skipBud_skip (n : Nat) (ih : SkipBudAt env n) :
    ∀ c s p v bs rest, CodecFor c s → encode p s v = some bs → c.sz + 2 * v.sz + 2 ≤ n + 1 →
    skip env (n + 1) c (bs ++ rest) = .ok rest := by
  have hskip := ih.skip
  intro c s p v bs rest hc he hn
  cases hc with
  | null => obtain ⟨rfl, rfl⟩ := encode_null_inv he; simp only [skip, List.nil_append]
  | bool =>
    obtain ⟨b, rfl, rfl⟩ := encode_boolean_inv he; simp only [skip]
    exact skipN_append' (writeBool b) rest 1 (by cases b <;> rfl)
  | intI =>
    obtain ⟨i, rfl, hr, rfl⟩ := encode_int_inv he; simp only [skip]
    exact skipVar_write _ (inRange_32_64 hr) rest
  | intL =>
    obtain ⟨i, rfl, hr, rfl⟩ := encode_long_inv he; simp only [skip]
    exact skipVar_write _ hr rest
  | float =>
    obtain ⟨b, rfl, _, rfl⟩ := encode_float_inv he; simp only [skip]
    exact skipN_append' _ rest 4 (by simp [putLE_length'])
  | double =>
    obtain ⟨b, rfl, _, rfl⟩ := encode_double_inv he; simp only [skip]
    exact skipN_append' _ rest 8 (by simp [putLE_length'])
  | f32double =>
    obtain ⟨b, rfl, _, rfl⟩ := encode_double_inv he; simp only [skip]
    exact skipN_append' _ rest 8 (by simp [putLE_length'])
  | bytes =>
    obtain ⟨b, rfl, hl, rfl⟩ := encode_bytes_inv he; simp only [skip]
    exact skipLen_encBytes _ hl rest
  | string =>
    obtain ⟨b, rfl, hl, rfl⟩ := encode_string_inv he; simp only [skip]
    exact skipLen_encBytes _ hl rest
  | fixed =>
    obtain ⟨rfl, hl⟩ := encode_fixed_inv he; simp only [skip]
    exact skipN_append' _ rest _ (by omega)
  | array hitem =>
    obtain ⟨bl, subs, vs, encs, rfl, rfl, hi, hb⟩ := encode_array_inv he
    simp only [Codec.sz, Value.sz] at hn
    simp only [skip]
    exact ih.skipBlocks false _ _ bl vs encs bs rest hitem (entriesFor_unkeyed (encodeItems_inv hi)) hb (by omega)
  | map hval =>
    obtain ⟨bl, subs, ks, vs, encs, rfl, rfl, hlen, hks, hi, hb⟩ := encode_map_inv he
    simp only [Codec.sz, Value.sz] at hn
    simp only [skip]
    exact ih.skipBlocks true _ _ bl vs _ bs rest hval (entriesFor_keyed (encodeItems_inv hi) ks hlen hks) hb (by omega)
  | pointer hc' =>
    simp only [Codec.sz] at hn
    simp only [skip]; exact hskip _ _ _ _ _ _ hc' he (by omega)
  | record hcs _ =>
    obtain ⟨bl, subs, vs, rfl, rfl, hf⟩ := encode_record_inv he
    simp only [Codec.sz, Value.sz] at hn
    simp only [skip]; exact ih.skipFields _ _ _ _ _ _ hcs hf (by omega)
  | @union cs ss hcs =>
    obtain ⟨bl, idx, v', b, p', e, rfl, rfl, hb, he', hi, rfl⟩ := encode_union_inv he
    obtain ⟨c', hc', hf⟩ := hcs.get hb
    have hlen : idx < _ := (List.getElem?_eq_some_iff.mp hc').1
    have hsz := Codec.sz_le_of_getElem? _ _ _ hc'
    simp only [Codec.sz, Value.sz] at hn
    simp only [skip, Outcome.bind_eq]
    rw [List.append_assoc, rdVarint_write _ (inRange_of_nat_lt hi)]
    simp only [Outcome.bind_ok']
    have hr : ¬ ((idx : Int) < 0 ∨ (idx : Int) ≥ (cs.length : Nat)) := by omega
    rw [if_neg hr]
    simp only [Int.toNat_natCast, hc']
    exact hskip _ _ _ _ _ _ hf he' (by omega)
  | unionOne0 hc' =>
    obtain ⟨bl, idx, v', b, p', e, rfl, rfl, hb, he', hi, rfl⟩ := encode_union_inv he
    simp only [Codec.sz, Value.sz] at hn
    simp only [skip, Outcome.bind_eq, Outcome.pure_eq]
    match idx, hb with
    | 0, hb =>
      simp at hb; subst hb
      rw [sel0]; simp
      exact hskip _ _ _ _ _ _ hc' he' (by omega)
    | 1, hb =>
      simp at hb; subst hb
      obtain ⟨_, rfl⟩ := encode_null_inv he'
      rw [sel1]; simp
    | k + 2, hb => simp at hb
  | unionOne1 hc' =>
    obtain ⟨bl, idx, v', b, p', e, rfl, rfl, hb, he', hi, rfl⟩ := encode_union_inv he
    simp only [Codec.sz, Value.sz] at hn
    simp only [skip, Outcome.bind_eq, Outcome.pure_eq]
    match idx, hb with
    | 0, hb =>
      simp at hb; subst hb
      obtain ⟨_, rfl⟩ := encode_null_inv he'
      rw [sel0]; simp
    | 1, hb =>
      simp at hb; subst hb
      rw [sel1]; simp
      exact hskip _ _ _ _ _ _ hc' he' (by omega)
    | k + 2, hb => simp at hb
  | unionNullString0 =>
    obtain ⟨bl, idx, v', b, p', e, rfl, rfl, hb, he', hi, rfl⟩ := encode_union_inv he
    simp only [skip, Outcome.bind_eq, Outcome.pure_eq]
    match idx, hb with
    | 0, hb =>
      simp at hb; subst hb
      obtain ⟨sb, rfl, hl, rfl⟩ := encode_string_inv he'
      rw [sel0]; simp
      exact skipLen_encBytes _ hl rest
    | 1, hb =>
      simp at hb; subst hb
      obtain ⟨_, rfl⟩ := encode_null_inv he'
      rw [sel1]; simp
    | k + 2, hb => simp at hb
  | unionNullString1 =>
    obtain ⟨bl, idx, v', b, p', e, rfl, rfl, hb, he', hi, rfl⟩ := encode_union_inv he
    simp only [skip, Outcome.bind_eq, Outcome.pure_eq]
    match idx, hb with
    | 0, hb =>
      simp at hb; subst hb
      obtain ⟨_, rfl⟩ := encode_null_inv he'
      rw [sel0]; simp
    | 1, hb =>
      simp at hb; subst hb
      obtain ⟨sb, rfl, hl, rfl⟩ := encode_string_inv he'
      rw [sel1]; simp
      exact skipLen_encBytes _ hl rest
    | k + 2, hb => simp at hb
  | timeString =>
    obtain ⟨b, rfl, hl, rfl⟩ := encode_string_inv he; simp only [skip]
    exact skipLen_encBytes _ hl rest
  | timeLong =>
    obtain ⟨i, rfl, hr, rfl⟩ := encode_long_inv he; simp only [skip]
    exact skipVar_write _ hr rest
  | date =>
    obtain ⟨i, rfl, hr, rfl⟩ := encode_int_inv he; simp only [skip]
    exact skipVar_write _ (inRange_32_64 hr) rest
  | nullInt =>
    obtain ⟨i, rfl, hr, rfl⟩ := encode_long_inv he; simp only [skip]
    exact skipVar_write _ hr rest
  | nullIntI =>
    obtain ⟨i, rfl, hr, rfl⟩ := encode_int_inv he; simp only [skip]
    exact skipVar_write _ (inRange_32_64 hr) rest
  | nullBool =>
    obtain ⟨b, rfl, rfl⟩ := encode_boolean_inv he; simp only [skip]
    exact skipN_append' (writeBool b) rest 1 (by cases b <;> rfl)
  | nullDouble =>
    obtain ⟨b, rfl, _, rfl⟩ := encode_double_inv he; simp only [skip]
    exact skipN_append' _ rest 8 (by simp [putLE_length'])
  | nullFloat =>
    obtain ⟨b, rfl, _, rfl⟩ := encode_float_inv he; simp only [skip]
    exact skipN_append' _ rest 4 (by simp [putLE_length'])
  | nullString =>
    obtain ⟨b, rfl, hl, rfl⟩ := encode_string_inv he; simp only [skip]
    exact skipLen_encBytes _ hl rest
  | nullTime =>
    obtain ⟨b, rfl, hl, rfl⟩ := encode_string_inv he; simp only [skip]
    exact skipLen_encBytes _ hl rest

theorem skipBud_skipFields (n : Nat) (ih : SkipBudAt env n) :
    ∀ cs ss ps vs bs rest, CodecsFor cs ss → encodeFields ps ss vs = some bs →
    Codec.szList cs + 2 * Value.szList vs + 2 ≤ n + 1 → skipFields env (n + 1) cs (bs ++ rest) = .ok rest := by
  intro cs ss ps vs bs rest hcs he hn
  cases hcs with
  | nil =>
    obtain ⟨rfl, rfl, rfl⟩ := encodeFields_nil_inv he
    simp only [skipFields, List.nil_append]
  | cons h1 h2 =>
    obtain ⟨p, ps', v, vs', a, b, rfl, rfl, ha, hb, rfl⟩ := encodeFields_cons_inv he
    simp only [Codec.szList, Value.szList] at hn
    simp only [skipFields, Outcome.bind_eq]
    rw [List.append_assoc]
    exact Outcome.bind_eq_ok_of (ih.skip _ _ _ _ _ _ h1 ha (by omega)) (ih.skipFields _ _ _ _ _ _ h2 hb (by omega))

theorem skipBud_skipItems (n : Nat) (ih : SkipBudAt env n) :
    ∀ keyed item s vs (es : List Bytes) rest, CodecFor item s → All2 (EntryFor keyed s) vs es →
    item.sz + 2 * Value.szList vs + 2 ≤ n + 1 →
    skipItems env (n + 1) keyed item es.length (es.flatten ++ rest) = .ok rest := by
  intro keyed item s vs es rest hitem hes hn
  cases hes with
  | nil => simp only [List.length_nil, skipItems, List.flatten_nil, List.nil_append]
  | @cons v e vs' es' hr ht =>
    obtain ⟨p, d, hd, hk⟩ := hr
    simp only [Value.szList] at hn
    simp only [List.length_cons, skipItems, Outcome.bind_eq, Outcome.pure_eq, List.flatten_cons]
    rcases hk with ⟨hkf, rfl⟩ | ⟨hkt, k, hkl, rfl⟩
    · subst hkf
      simp only [Bool.false_eq_true, if_false, Outcome.bind_ok', List.append_assoc]
      exact Outcome.bind_eq_ok_of (ih.skip _ _ _ _ _ _ hitem hd (by omega)) (ih.skipItems _ _ _ _ _ _ hitem ht (by omega))
    · subst hkt
      simp only [if_true, List.append_assoc]
      rw [skipLen_encBytes k hkl]
      simp only [Outcome.bind_ok']
      exact Outcome.bind_eq_ok_of (ih.skip _ _ _ _ _ _ hitem hd (by omega)) (ih.skipItems _ _ _ _ _ _ hitem ht (by omega))

theorem skipBud_skipBlocks (n : Nat) (ih : SkipBudAt env n) :
    ∀ keyed item s bl vs (es : List Bytes) bs rest, CodecFor item s → All2 (EntryFor keyed s) vs es →
    encBlocks bl es = some bs → item.sz + 2 * Value.szList vs + 3 ≤ n + 1 →
    skipBlocks env (n + 1) keyed item (bs ++ rest) = .ok rest := by
  intro keyed item s bl vs es bs rest hitem hes hb hn
  cases bl with
  | nil =>
    obtain ⟨rfl, rfl⟩ := encBlocks_nil_inv hb
    simp only [skipBlocks, Outcome.bind_eq, Outcome.pure_eq]
    rw [rdVarint_write 0 (by unfold inRange; omega)]
    simp only [Outcome.bind_ok', if_true]
  | cons blk bl =>
    obtain ⟨m, sized⟩ := blk
    obtain ⟨rest', hm0, hml, hm63, hbody63, hrest, rfl⟩ := encBlocks_cons_inv hb
    have hlenv : vs.length = es.length := hes.length_eq
    have htake := hes.take m
    have hdrop := hes.drop m
    have hsum := Value.szList_take_add_drop m vs
    have hpos := Value.szList_take_pos (k := m) (vs := vs) hm0 (by omega)
    simp only [skipBlocks, Outcome.bind_eq, Outcome.pure_eq]
    cases sized with
    | true =>
      simp only [if_true, List.append_assoc]
      rw [rdVarint_write (-(m : Int)) (by unfold inRange; omega)]
      simp only [Outcome.bind_ok']
      have h1 : ¬ (-(m : Int) = 0) := by omega
      have h2 : (-(m : Int) < 0) := by omega
      rw [if_neg h1, if_pos h2]
      rw [rdVarint_write _ (inRange_of_nat_lt hbody63)]
      simp only [Outcome.bind_ok']
      rw [skipN_append]
      simp only [Outcome.bind_ok']
      exact ih.skipBlocks _ _ _ _ _ _ _ _ hitem hdrop hrest (by omega)
    | false =>
      simp only [Bool.false_eq_true, if_false, List.append_assoc]
      rw [rdVarint_write (m : Int) (inRange_of_nat_lt hm63)]
      simp only [Outcome.bind_ok']
      have h1 : ¬ ((m : Int) = 0) := by omega
      have h2 : ¬ ((m : Int) < 0) := by omega
      rw [if_neg h1, if_neg h2]
      have hlen : (es.take m).length = m := by simp; omega
      have := ih.skipItems keyed item s _ (es.take m) (rest' ++ rest) hitem htake (by omega)
      rw [hlen] at this
      simp only [Int.toNat_natCast]
      exact Outcome.bind_eq_ok_of this (ih.skipBlocks _ _ _ _ _ _ _ _ hitem hdrop hrest (by omega))

theorem skipBudAt : ∀ n, SkipBudAt env n := by
  intro n
  induction n with
  | zero => constructor <;> intros <;> omega
  | succ n ih =>
    exact ⟨skipBud_skip env n ih, skipBud_skipFields env n ih, skipBud_skipItems env n ih, skipBud_skipBlocks env n ih⟩

/-- **Skip with an explicit budget**: with at least `readBudget c v` steps, skipping any encoding of
`v` (any plan, anything after it) returns exactly what follows the datum. -/
theorem skip_budget {c : Codec} {s : ASchema} {p : Plan} {v : Value} {bs : Bytes} (hcf : CodecFor c s)
    (he : encode p s v = some bs) {n : Nat} (hn : readBudget c v ≤ n) (rest : Bytes) :
    skip env n c (bs ++ rest) = .ok rest :=
  (skipBudAt env n).skip c s p v bs rest hcf he hn

theorem skip_ne_fuel {c : Codec} {s : ASchema} {p : Plan} {v : Value} {bs : Bytes} (hcf : CodecFor c s)
    (he : encode p s v = some bs) {n : Nat} (hn : readBudget c v ≤ n) (rest : Bytes) :
    skip env n c (bs ++ rest) ≠ .fuel := by
  rw [skip_budget env hcf he hn rest]; simp

end Avro
