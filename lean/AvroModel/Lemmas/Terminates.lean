import AvroModel.Lemmas.Mono
/-!
Termination of the decoder model: for every codec tree, every input and every destination there is
a step budget from which on `read` / `skip` return the same outcome, and that outcome is not
`.fuel`.

The only assumption is about the user-registered custom codecs, which the model treats as black
boxes over bytes: they must not return more unread input than they were given (`Env.Sane`). Without
it the statement is false (`readArrayBlocks_diverges` below).
-/
namespace Avro

/-! ### Unread input never grows -/

/-- user-registered codecs return a remainder no longer than their input -/
structure Env.Sane (env : Env) : Prop where
  read : ∀ id bs v r, (env.custom id).read bs = some (v, r) → r.length ≤ bs.length
  skip : ∀ id bs r, (env.custom id).skip bs = some r → r.length ≤ bs.length

/-- on success the unread input `p a` has at most `L` bytes -/
def LenLe {α : Type} (p : α → Bytes) (L : Nat) (o : Outcome α) : Prop :=
  ∀ a, o = .ok a → (p a).length ≤ L

theorem LenLe.ok {α : Type} {p : α → Bytes} {L : Nat} {a : α} (h : (p a).length ≤ L) : LenLe p L (.ok a) := by
  intro b hb; cases hb; exact h
theorem LenLe.err {α : Type} {p : α → Bytes} {L : Nat} : LenLe p L (.err : Outcome α) := by intro b hb; cases hb
theorem LenLe.panic {α : Type} {p : α → Bytes} {L : Nat} : LenLe p L (.panic : Outcome α) := by intro b hb; cases hb
theorem LenLe.stuck {α : Type} {p : α → Bytes} {L : Nat} : LenLe p L (.stuck : Outcome α) := by intro b hb; cases hb
theorem LenLe.fuel {α : Type} {p : α → Bytes} {L : Nat} : LenLe p L (.fuel : Outcome α) := by intro b hb; cases hb

theorem LenLe.bind {α β : Type} {p : α → Bytes} {q : β → Bytes} {L : Nat} {o : Outcome α} {f : α → Outcome β}
    (h1 : LenLe p L o) (h2 : ∀ a, (p a).length ≤ L → LenLe q L (f a)) : LenLe q L (Outcome.bind o f) := by
  cases o with
  | ok a => exact h2 a (h1 a rfl)
  | _ => intro b hb; cases hb

theorem readUvarintAux_len : ∀ (bs : Bytes) (i x r : Nat) (rest : Bytes),
    readUvarintAux i x bs = .ok (r, rest) → rest.length < bs.length := by
  intro bs
  induction bs with
  | nil => intro i x r rest h; simp [readUvarintAux] at h
  | cons b tl ih =>
    intro i x r rest h
    simp only [readUvarintAux] at h
    split at h
    · split at h
      · cases h
      · simp only [Except.ok.injEq, Prod.mk.injEq] at h
        obtain ⟨_, rfl⟩ := h
        simp
    · have := ih _ _ _ _ h
      simp only [List.length_cons]; omega

/-- a successfully read varint consumed at least one byte -/
theorem readVarint_len {bs : Bytes} {v : Int} {rest : Bytes} (h : readVarint bs = .ok (v, rest)) :
    rest.length < bs.length := by
  unfold readVarint readUvarint at h
  split at h
  · rename_i n r hu
    simp only [Except.ok.injEq, Prod.mk.injEq] at h
    obtain ⟨_, rfl⟩ := h
    exact readUvarintAux_len _ _ _ _ _ hu
  · cases h

theorem rdVarint_lt {bs : Bytes} {p : Int × Bytes} (h : rdVarint bs = .ok p) : p.2.length < bs.length := by
  unfold rdVarint at h
  split at h
  · rename_i q hq
    cases h
    exact readVarint_len (v := _) (rest := _) hq
  · cases h

theorem rdVarint_len (bs : Bytes) {L : Nat} (hL : bs.length ≤ L) : LenLe Prod.snd L (rdVarint bs) := by
  intro p hp; have := rdVarint_lt hp; omega

theorem rdInt_len (w : Nat) (bs : Bytes) {L : Nat} (hL : bs.length ≤ L) : LenLe Prod.snd L (rdInt w bs) := by
  intro p hp
  unfold rdInt readInt at hp
  split at hp
  · rename_i q hq
    cases hp
    split at hq
    · rename_i v rest hv
      split at hq
      · cases hq; have := readVarint_len hv; simp only []; omega
      · cases hq
    · cases hq
  · cases hp

theorem rdByte_len (bs : Bytes) {L : Nat} (hL : bs.length ≤ L) : LenLe Prod.snd L (rdByte bs) := by
  intro p hp
  cases bs with
  | nil => cases hp
  | cons b r => cases hp; simp only [List.length_cons] at hL; simp only []; omega

theorem next_len (l : Int) (bs : Bytes) {L : Nat} (hL : bs.length ≤ L) : LenLe Prod.snd L (next l bs) := by
  intro p hp
  unfold next at hp
  split at hp
  · cases hp
  · split at hp
    · cases hp; simp only [List.length_drop]; omega
    · cases hp

theorem skipN_len (l : Int) (bs : Bytes) {L : Nat} (hL : bs.length ≤ L) : LenLe id L (skipN l bs) := by
  intro p hp
  unfold skipN at hp
  split at hp <;> try cases hp
  rename_i a r h
  exact next_len l bs hL _ h

theorem skipVar_len (bs : Bytes) {L : Nat} (hL : bs.length ≤ L) : LenLe id L (skipVar bs) := by
  intro p hp
  unfold skipVar at hp
  split at hp
  · rename_i v r h; cases hp; have := readVarint_len h; simp only [id]; omega
  · cases hp

theorem skipLen_len (bs : Bytes) {L : Nat} (hL : bs.length ≤ L) : LenLe id L (skipLen bs) := by
  unfold skipLen
  split
  · rename_i v r h; have := readVarint_len h; exact skipN_len _ _ (by omega)
  · exact LenLe.err

theorem blockCount_len (c : Int) (bs : Bytes) {L : Nat} (hL : bs.length ≤ L) :
    LenLe Prod.snd L (blockCount c bs) := by
  unfold blockCount
  split
  · simp only [Outcome.bind_eq, Outcome.pure_eq]
    refine LenLe.bind (rdVarint_len bs hL) (fun a ha => ?_)
    exact LenLe.ok ha
  · exact LenLe.ok hL

theorem arrayBlockCount_len (c : Int) (bs : Bytes) (len : Nat) {L : Nat} (hL : bs.length ≤ L) :
    LenLe Prod.snd L (arrayBlockCount c bs len) := by
  unfold arrayBlockCount
  refine LenLe.bind (p := Prod.snd) ?_ (fun a ha => ?_)
  · split
    · refine LenLe.bind (rdVarint_len bs hL) (fun a ha => ?_)
      exact LenLe.ok ha
    · exact LenLe.ok hL
  · split
    · exact LenLe.err
    · exact LenLe.ok ha

variable (env : Env)

/-- all ten mutually recursive functions at step budget `n`: the unread input does not grow -/
structure LenAt (n : Nat) : Prop where
  read : ∀ c bs dst L, bs.length ≤ L → LenLe Prod.snd L (read env n c bs dst)
  readFields : ∀ cs ts bs fs L, bs.length ≤ L → LenLe Prod.snd L (readFields env n cs ts bs fs)
  readArrayBlocks : ∀ item bs acc L, bs.length ≤ L → LenLe Prod.snd L (readArrayBlocks env n item bs acc)
  readItems : ∀ item k bs acc L, bs.length ≤ L → LenLe Prod.snd L (readItems env n item k bs acc)
  readMapBlocks : ∀ val bs ks vs L, bs.length ≤ L → LenLe Prod.snd L (readMapBlocks env n val bs ks vs)
  readMapItems : ∀ val k bs ks vs L, bs.length ≤ L → LenLe Prod.snd L (readMapItems env n val k bs ks vs)
  skip : ∀ c bs L, bs.length ≤ L → LenLe id L (skip env n c bs)
  skipFields : ∀ cs bs L, bs.length ≤ L → LenLe id L (skipFields env n cs bs)
  skipBlocks : ∀ keyed item bs L, bs.length ≤ L → LenLe id L (skipBlocks env n keyed item bs)
  skipItems : ∀ keyed item k bs L, bs.length ≤ L → LenLe id L (skipItems env n keyed item k bs)

/-- closes goals `LenLe p L o` built from binds, ifs and matches -/
syntax "len_tac" : tactic
macro_rules
  | `(tactic| len_tac) => `(tactic| repeat' (first
      | exact LenLe.ok (by assumption)
      | exact LenLe.err
      | exact LenLe.panic
      | exact LenLe.stuck
      | exact LenLe.fuel
      | exact rdVarint_len _ (by assumption)
      | exact rdInt_len _ _ (by assumption)
      | exact rdByte_len _ (by assumption)
      | exact next_len _ _ (by assumption)
      | exact skipN_len _ _ (by assumption)
      | exact skipVar_len _ (by assumption)
      | exact skipLen_len _ (by assumption)
      | exact blockCount_len _ _ (by assumption)
      | exact arrayBlockCount_len _ _ _ (by assumption)
      | exact LenAt.read (by assumption) _ _ _ _ (by assumption)
      | exact LenAt.readFields (by assumption) _ _ _ _ _ (by assumption)
      | exact LenAt.readArrayBlocks (by assumption) _ _ _ _ (by assumption)
      | exact LenAt.readItems (by assumption) _ _ _ _ _ (by assumption)
      | exact LenAt.readMapBlocks (by assumption) _ _ _ _ _ (by assumption)
      | exact LenAt.readMapItems (by assumption) _ _ _ _ _ _ (by assumption)
      | exact LenAt.skip (by assumption) _ _ _ (by assumption)
      | exact LenAt.skipFields (by assumption) _ _ _ (by assumption)
      | exact LenAt.skipBlocks (by assumption) _ _ _ _ (by assumption)
      | exact LenAt.skipItems (by assumption) _ _ _ _ _ (by assumption)
      | (refine LenLe.bind (p := Prod.snd) ?_ (fun _ _ => ?_))
      | (refine LenLe.bind (p := id) ?_ (fun _ _ => ?_))
      | split))

theorem lenAt (hs : env.Sane) : ∀ n, LenAt env n := by
  intro n
  induction n with
  | zero =>
    constructor <;> intros <;> simp only [read, readFields, readArrayBlocks, readItems, readMapBlocks,
      readMapItems, skip, skipFields, skipBlocks, skipItems] <;> exact LenLe.fuel
  | succ n ih =>
    constructor
    · intro c bs dst L hL
      cases c <;> simp only [read, Outcome.bind_eq, Outcome.pure_eq]
      case custom id =>
        split
        · rename_i v r h; have := hs.read _ _ _ _ h; exact LenLe.ok (by simp only []; omega)
        · exact LenLe.err
      all_goals len_tac
    · intro cs ts bs fs L hL
      rcases cs with _ | ⟨c, cs⟩
      · simp only [readFields]; len_tac
      · rcases ts with _ | ⟨t, ts⟩
        · simp only [readFields]; len_tac
        · cases t <;> simp only [readFields, Outcome.bind_eq, Outcome.pure_eq] <;> len_tac
    · intro item bs acc L hL
      simp only [readArrayBlocks, Outcome.bind_eq, Outcome.pure_eq]; len_tac
    · intro item k bs acc L hL
      cases k <;> simp only [readItems, Outcome.bind_eq, Outcome.pure_eq] <;> len_tac
    · intro val bs ks vs L hL
      simp only [readMapBlocks, Outcome.bind_eq, Outcome.pure_eq]; len_tac
    · intro val k bs ks vs L hL
      cases k <;> simp only [readMapItems, Outcome.bind_eq, Outcome.pure_eq] <;> len_tac
    · intro c bs L hL
      cases c <;> simp only [skip, Outcome.bind_eq, Outcome.pure_eq]
      case custom cid =>
        split
        · rename_i r h; have := hs.skip _ _ _ h; exact LenLe.ok (by simp only [id]; omega)
        · exact LenLe.err
      all_goals len_tac
    · intro cs bs L hL
      cases cs <;> simp only [skipFields, Outcome.bind_eq, Outcome.pure_eq] <;> len_tac
    · intro keyed item bs L hL
      simp only [skipBlocks, Outcome.bind_eq, Outcome.pure_eq]; len_tac
    · intro keyed item k bs L hL
      cases k <;> simp only [skipItems, Outcome.bind_eq, Outcome.pure_eq] <;> len_tac

end Avro
