import AvroModel.Lemmas.Mono
/-!
Termination of the decoder model: for every codec tree, every input and every destination there is
a step budget from which on `read` / `skip` return the same outcome, and that outcome is not
`.fuel`.

The only assumption is about the user-registered custom codecs, which the model treats as black
boxes over bytes: they must not return more unread input than they were given (`Env.Sane`). Without
it the statement is false (`readArrayBlocks_diverges` below).
-/
namespace Avro

/-! ### Unread input never grows -/

/-- user-registered codecs return a remainder no longer than their input -/
structure Env.Sane (env : Env) : Prop where
  read : ∀ id bs v r, (env.custom id).read bs = some (v, r) → r.length ≤ bs.length
  skip : ∀ id bs r, (env.custom id).skip bs = some r → r.length ≤ bs.length

/-- on success the unread input `p a` has at most `L` bytes -/
def LenLe {α : Type} (p : α → Bytes) (L : Nat) (o : Outcome α) : Prop :=
  ∀ a, o = .ok a → (p a).length ≤ L

theorem LenLe.ok {α : Type} {p : α → Bytes} {L : Nat} {a : α} (h : (p a).length ≤ L) : LenLe p L (.ok a) := by
  intro b hb; cases hb; exact h
theorem LenLe.err {α : Type} {p : α → Bytes} {L : Nat} : LenLe p L (.err : Outcome α) := by intro b hb; cases hb
theorem LenLe.panic {α : Type} {p : α → Bytes} {L : Nat} : LenLe p L (.panic : Outcome α) := by intro b hb; cases hb
theorem LenLe.stuck {α : Type} {p : α → Bytes} {L : Nat} : LenLe p L (.stuck : Outcome α) := by intro b hb; cases hb
theorem LenLe.fuel {α : Type} {p : α → Bytes} {L : Nat} : LenLe p L (.fuel : Outcome α) := by intro b hb; cases hb

theorem LenLe.bind {α β : Type} {p : α → Bytes} {q : β → Bytes} {L : Nat} {o : Outcome α} {f : α → Outcome β}
    (h1 : LenLe p L o) (h2 : ∀ a, (p a).length ≤ L → LenLe q L (f a)) : LenLe q L (Outcome.bind o f) := by
  cases o with
  | ok a => exact h2 a (h1 a rfl)
  | _ => intro b hb; cases hb

theorem readUvarintAux_len : ∀ (bs : Bytes) (i x r : Nat) (rest : Bytes),
    readUvarintAux i x bs = .ok (r, rest) → rest.length < bs.length := by
  intro bs
  induction bs with
  | nil => intro i x r rest h; simp [readUvarintAux] at h
  | cons b tl ih =>
    intro i x r rest h
    simp only [readUvarintAux] at h
    split at h
    · split at h
      · cases h
      · simp only [Except.ok.injEq, Prod.mk.injEq] at h
        obtain ⟨_, rfl⟩ := h
        simp
    · have := ih _ _ _ _ h
      simp only [List.length_cons]; omega

/-- a successfully read varint consumed at least one byte -/
theorem readVarint_len {bs : Bytes} {v : Int} {rest : Bytes} (h : readVarint bs = .ok (v, rest)) :
    rest.length < bs.length := by
  unfold readVarint readUvarint at h
  split at h
  · rename_i n r hu
    simp only [Except.ok.injEq, Prod.mk.injEq] at h
    obtain ⟨_, rfl⟩ := h
    exact readUvarintAux_len _ _ _ _ _ hu
  · cases h

theorem rdVarint_lt {bs : Bytes} {p : Int × Bytes} (h : rdVarint bs = .ok p) : p.2.length < bs.length := by
  unfold rdVarint at h
  split at h
  · rename_i q hq
    cases h
    exact readVarint_len (v := _) (rest := _) hq
  · cases h

theorem rdVarint_len (bs : Bytes) {L : Nat} (hL : bs.length ≤ L) : LenLe Prod.snd L (rdVarint bs) := by
  intro p hp; have := rdVarint_lt hp; omega

theorem rdInt_len (w : Nat) (bs : Bytes) {L : Nat} (hL : bs.length ≤ L) : LenLe Prod.snd L (rdInt w bs) := by
  intro p hp
  unfold rdInt readInt at hp
  split at hp
  · rename_i q hq
    cases hp
    split at hq
    · rename_i v rest hv
      split at hq
      · cases hq; have := readVarint_len hv; simp only []; omega
      · cases hq
    · cases hq
  · cases hp

theorem rdByte_len (bs : Bytes) {L : Nat} (hL : bs.length ≤ L) : LenLe Prod.snd L (rdByte bs) := by
  intro p hp
  cases bs with
  | nil => cases hp
  | cons b r => cases hp; simp only [List.length_cons] at hL; simp only []; omega

theorem next_len (l : Int) (bs : Bytes) {L : Nat} (hL : bs.length ≤ L) : LenLe Prod.snd L (next l bs) := by
  intro p hp
  unfold next at hp
  split at hp
  · cases hp
  · split at hp
    · cases hp; simp only [List.length_drop]; omega
    · cases hp

theorem skipN_len (l : Int) (bs : Bytes) {L : Nat} (hL : bs.length ≤ L) : LenLe id L (skipN l bs) := by
  intro p hp
  unfold skipN at hp
  split at hp <;> try cases hp
  rename_i a r h
  exact next_len l bs hL _ h

theorem skipVar_len (bs : Bytes) {L : Nat} (hL : bs.length ≤ L) : LenLe id L (skipVar bs) := by
  intro p hp
  unfold skipVar at hp
  split at hp
  · rename_i v r h; cases hp; have := readVarint_len h; simp only [id]; omega
  · cases hp

theorem skipLen_len (bs : Bytes) {L : Nat} (hL : bs.length ≤ L) : LenLe id L (skipLen bs) := by
  unfold skipLen
  split
  · rename_i v r h; have := readVarint_len h; exact skipN_len _ _ (by omega)
  · exact LenLe.err

theorem blockCount_len (c : Int) (bs : Bytes) {L : Nat} (hL : bs.length ≤ L) :
    LenLe Prod.snd L (blockCount c bs) := by
  unfold blockCount
  split
  · simp only [Outcome.bind_eq, Outcome.pure_eq]
    refine LenLe.bind (rdVarint_len bs hL) (fun a ha => ?_)
    exact LenLe.ok ha
  · exact LenLe.ok hL

theorem arrayBlockCount_len (c : Int) (bs : Bytes) (len : Nat) {L : Nat} (hL : bs.length ≤ L) :
    LenLe Prod.snd L (arrayBlockCount c bs len) := by
  unfold arrayBlockCount
  refine LenLe.bind (p := Prod.snd) ?_ (fun a ha => ?_)
  · split
    · refine LenLe.bind (rdVarint_len bs hL) (fun a ha => ?_)
      exact LenLe.ok ha
    · exact LenLe.ok hL
  · split
    · exact LenLe.err
    · exact LenLe.ok ha

variable (env : Env)

/-- all ten mutually recursive functions at step budget `n`: the unread input does not grow -/
structure LenAt (n : Nat) : Prop where
  read : ∀ c bs dst L, bs.length ≤ L → LenLe Prod.snd L (read env n c bs dst)
  readFields : ∀ cs ts bs fs L, bs.length ≤ L → LenLe Prod.snd L (readFields env n cs ts bs fs)
  readArrayBlocks : ∀ item bs acc L, bs.length ≤ L → LenLe Prod.snd L (readArrayBlocks env n item bs acc)
  readItems : ∀ item k bs acc L, bs.length ≤ L → LenLe Prod.snd L (readItems env n item k bs acc)
  readMapBlocks : ∀ val bs ks vs L, bs.length ≤ L → LenLe Prod.snd L (readMapBlocks env n val bs ks vs)
  readMapItems : ∀ val k bs ks vs L, bs.length ≤ L → LenLe Prod.snd L (readMapItems env n val k bs ks vs)
  skip : ∀ c bs L, bs.length ≤ L → LenLe id L (skip env n c bs)
  skipFields : ∀ cs bs L, bs.length ≤ L → LenLe id L (skipFields env n cs bs)
  skipBlocks : ∀ keyed item bs L, bs.length ≤ L → LenLe id L (skipBlocks env n keyed item bs)
  skipItems : ∀ keyed item k bs L, bs.length ≤ L → LenLe id L (skipItems env n keyed item k bs)

/-- closes goals `LenLe p L o` built from binds, ifs and matches -/
syntax "len_tac" : tactic
macro_rules
  | `(tactic| len_tac) => `(tactic| repeat' (first
      | exact LenLe.ok (by assumption)
      | exact LenLe.err
      | exact LenLe.panic
      | exact LenLe.stuck
      | exact LenLe.fuel
      | exact rdVarint_len _ (by assumption)
      | exact rdInt_len _ _ (by assumption)
      | exact rdByte_len _ (by assumption)
      | exact next_len _ _ (by assumption)
      | exact skipN_len _ _ (by assumption)
      | exact skipVar_len _ (by assumption)
      | exact skipLen_len _ (by assumption)
      | exact blockCount_len _ _ (by assumption)
      | exact arrayBlockCount_len _ _ _ (by assumption)
      | exact LenAt.read (by assumption) _ _ _ _ (by assumption)
      | exact LenAt.readFields (by assumption) _ _ _ _ _ (by assumption)
      | exact LenAt.readArrayBlocks (by assumption) _ _ _ _ (by assumption)
      | exact LenAt.readItems (by assumption) _ _ _ _ _ (by assumption)
      | exact LenAt.readMapBlocks (by assumption) _ _ _ _ _ (by assumption)
      | exact LenAt.readMapItems (by assumption) _ _ _ _ _ _ (by assumption)
      | exact LenAt.skip (by assumption) _ _ _ (by assumption)
      | exact LenAt.skipFields (by assumption) _ _ _ (by assumption)
      | exact LenAt.skipBlocks (by assumption) _ _ _ _ (by assumption)
      | exact LenAt.skipItems (by assumption) _ _ _ _ _ (by assumption)
      | (refine LenLe.bind (p := Prod.snd) ?_ (fun _ _ => ?_))
      | (refine LenLe.bind (p := id) ?_ (fun _ _ => ?_))
      | split))

theorem lenAt (hs : env.Sane) : ∀ n, LenAt env n := by
  intro n
  induction n with
  | zero =>
    constructor <;> intros <;> simp only [read, readFields, readArrayBlocks, readItems, readMapBlocks,
      readMapItems, skip, skipFields, skipBlocks, skipItems] <;> exact LenLe.fuel
  | succ n ih =>
    constructor
    · intro c bs dst L hL
      cases c <;> simp only [read, Outcome.bind_eq, Outcome.pure_eq]
      case custom id =>
        split
        · rename_i v r h; have := hs.read _ _ _ _ h; exact LenLe.ok (by simp only []; omega)
        · exact LenLe.err
      all_goals len_tac
    · intro cs ts bs fs L hL
      rcases cs with _ | ⟨c, cs⟩
      · simp only [readFields]; len_tac
      · rcases ts with _ | ⟨t, ts⟩
        · simp only [readFields]; len_tac
        · cases t <;> simp only [readFields, Outcome.bind_eq] <;> len_tac
    · intro item bs acc L hL
      simp only [readArrayBlocks, Outcome.bind_eq, Outcome.pure_eq]; len_tac
    · intro item k bs acc L hL
      cases k <;> simp only [readItems, Outcome.bind_eq] <;> len_tac
    · intro val bs ks vs L hL
      simp only [readMapBlocks, Outcome.bind_eq, Outcome.pure_eq]; len_tac
    · intro val k bs ks vs L hL
      cases k <;> simp only [readMapItems, Outcome.bind_eq] <;> len_tac
    · intro c bs L hL
      cases c <;> simp only [skip, Outcome.bind_eq, Outcome.pure_eq]
      case custom cid =>
        split
        · rename_i r h; have := hs.skip _ _ _ h; exact LenLe.ok (by simp only [id]; omega)
        · exact LenLe.err
      all_goals len_tac
    · intro cs bs L hL
      cases cs <;> simp only [skipFields, Outcome.bind_eq] <;> len_tac
    · intro keyed item bs L hL
      simp only [skipBlocks, Outcome.bind_eq, Outcome.pure_eq]; len_tac
    · intro keyed item k bs L hL
      cases k <;> simp only [skipItems, Outcome.bind_eq, Outcome.pure_eq] <;> len_tac

/-! ### Eventually stable, non-`fuel` outcomes -/

/-- from some budget on `f` returns one and the same outcome, and that outcome is not `.fuel` -/
def Ev {α : Type} (f : Nat → Outcome α) : Prop := ∃ n r, r ≠ .fuel ∧ ∀ m, n ≤ m → f m = r

theorem Ev.const {α : Type} {o : Outcome α} (h : o ≠ .fuel) : Ev (fun _ => o) := ⟨0, o, h, fun _ _ => rfl⟩

theorem Ev.stable {α : Type} {f : Nat → Outcome α} (h : Ev f) :
    ∃ n, ∀ m, n ≤ m → f m = f n ∧ f n ≠ .fuel := by
  obtain ⟨n, r, hr, hst⟩ := h
  refine ⟨n, fun m hm => ?_⟩
  rw [hst m hm, hst n (Nat.le_refl _)]
  exact ⟨rfl, hr⟩

theorem Ev.succ {α : Type} {F : Nat → Outcome α} (h : Ev (fun n => F (n + 1))) : Ev F := by
  obtain ⟨n, r, hr, hst⟩ := h
  refine ⟨n + 1, r, hr, fun m hm => ?_⟩
  obtain ⟨k, rfl⟩ : ∃ k, m = k + 1 := ⟨m - 1, by omega⟩
  exact hst k (by omega)

theorem Ev.bind {α β : Type} {g : Nat → Outcome α} {h : Nat → α → Outcome β} (hg : Ev g)
    (hh : ∀ a, (∃ n, g n = .ok a) → Ev (fun m => h m a)) : Ev (fun n => Outcome.bind (g n) (h n)) := by
  obtain ⟨n0, r, hr, hst⟩ := hg
  cases r with
  | ok a =>
    obtain ⟨n1, r1, hr1, hst1⟩ := hh a ⟨n0, hst n0 (Nat.le_refl _)⟩
    refine ⟨max n0 n1, r1, hr1, fun m hm => ?_⟩
    have h0 : n0 ≤ m := by omega
    have h1 : n1 ≤ m := by omega
    simp only [hst m h0, Outcome.bind_ok']
    exact hst1 m h1
  | fuel => exact absurd rfl hr
  | err => exact ⟨n0, .err, by simp, fun m hm => by simp only [hst m hm, Outcome.bind_err']⟩
  | panic => exact ⟨n0, .panic, by simp, fun m hm => by simp only [hst m hm, Outcome.bind_panic']⟩
  | stuck => exact ⟨n0, .stuck, by simp, fun m hm => by simp only [hst m hm, Outcome.bind_stuck']⟩

theorem next_ne_fuel (l : Int) (bs : Bytes) : next l bs ≠ .fuel := by
  unfold next; split
  · simp
  · split <;> simp

theorem rdVarint_ne_fuel (bs : Bytes) : rdVarint bs ≠ .fuel := by
  unfold rdVarint; split <;> simp

theorem rdInt_ne_fuel (w : Nat) (bs : Bytes) : rdInt w bs ≠ .fuel := by
  unfold rdInt; split <;> simp

theorem rdByte_ne_fuel (bs : Bytes) : rdByte bs ≠ .fuel := by
  cases bs <;> simp [rdByte]

theorem skipN_ne_fuel (l : Int) (bs : Bytes) : skipN l bs ≠ .fuel := by
  unfold skipN
  have := next_ne_fuel l bs
  split <;> simp_all

theorem skipVar_ne_fuel (bs : Bytes) : skipVar bs ≠ .fuel := by
  unfold skipVar; split <;> simp

theorem skipLen_ne_fuel (bs : Bytes) : skipLen bs ≠ .fuel := by
  unfold skipLen; split
  · exact skipN_ne_fuel _ _
  · simp

theorem Outcome.bind_ne_fuel {α β : Type} {o : Outcome α} {f : α → Outcome β}
    (h1 : o ≠ .fuel) (h2 : ∀ a, o = .ok a → f a ≠ .fuel) : Outcome.bind o f ≠ .fuel := by
  cases o with
  | ok a => exact h2 a rfl
  | fuel => exact absurd rfl h1
  | _ => simp [Outcome.bind]

theorem blockCount_ne_fuel (c : Int) (r : Bytes) : blockCount c r ≠ .fuel := by
  unfold blockCount
  split
  · simp only [Outcome.bind_eq]
    apply Outcome.bind_ne_fuel (rdVarint_ne_fuel r)
    intro a _; simp
  · simp

theorem arrayBlockCount_ne_fuel (c : Int) (r : Bytes) (len : Nat) : arrayBlockCount c r len ≠ .fuel := by
  unfold arrayBlockCount
  apply Outcome.bind_ne_fuel
  · split
    · apply Outcome.bind_ne_fuel (rdVarint_ne_fuel r)
      intro a _; simp
    · simp
  · intro a _; split <;> simp

/-- `read` and `skip` of codec `c` terminate on every input -/
structure Halts (c : Codec) : Prop where
  read : ∀ bs dst, Ev (fun n => read env n c bs dst)
  skip : ∀ bs, Ev (fun n => skip env n c bs)

/-- closes goals `Ev (fun n => …)` built from binds, ifs and matches over primitives and recursive
calls whose termination is in the context -/
syntax "ev_tac" : tactic
macro_rules
  | `(tactic| ev_tac) => `(tactic| repeat' (first
      | exact Ev.const (by intro h; cases h)
      | exact Ev.const (next_ne_fuel _ _)
      | exact Ev.const (rdVarint_ne_fuel _)
      | exact Ev.const (rdInt_ne_fuel _ _)
      | exact Ev.const (rdByte_ne_fuel _)
      | exact Ev.const (skipN_ne_fuel _ _)
      | exact Ev.const (skipVar_ne_fuel _)
      | exact Ev.const (skipLen_ne_fuel _)
      | exact Ev.const (blockCount_ne_fuel _ _)
      | exact Ev.const (arrayBlockCount_ne_fuel _ _ _)
      | exact Halts.read (by assumption) _ _
      | exact Halts.skip (by assumption) _
      | (refine Ev.bind ?_ (fun _ _ => ?_))
      | split))

/-- `Halts` for a codec whose `read` / `skip` only call primitives and codecs known to halt -/
syntax "halts_tac" : tactic
macro_rules
  | `(tactic| halts_tac) => `(tactic| (
      constructor
      · intro bs dst; apply Ev.succ; simp only [read, Outcome.bind_eq, Outcome.pure_eq]; ev_tac
      · intro bs; apply Ev.succ; simp only [skip, Outcome.bind_eq, Outcome.pure_eq]; ev_tac))

theorem halts_null : Halts env .null := by halts_tac
theorem halts_bool (oe : Bool) : Halts env (.bool oe) := by halts_tac
theorem halts_int (w : Nat) (oe : Bool) : Halts env (.int w oe) := by halts_tac
theorem halts_float (oe : Bool) : Halts env (.float oe) := by halts_tac
theorem halts_double (oe : Bool) : Halts env (.double oe) := by halts_tac
theorem halts_f32double (oe : Bool) : Halts env (.f32double oe) := by halts_tac
theorem halts_bytes (oe : Bool) : Halts env (.bytes oe) := by halts_tac
theorem halts_string (oe : Bool) : Halts env (.string oe) := by halts_tac
theorem halts_fixed (k : Int) : Halts env (.fixed k) := by halts_tac
theorem halts_timeString : Halts env .timeString := by halts_tac
theorem halts_timeLong (mult : Int) : Halts env (.timeLong mult) := by halts_tac
theorem halts_date : Halts env .date := by halts_tac
theorem halts_custom (cid : Nat) : Halts env (.custom cid) := by halts_tac

theorem halts_unionNullString (oe : Bool) (nn : Nat) : Halts env (.unionNullString oe nn) := by
  have := halts_string env false
  halts_tac

theorem halts_nullInner (k : NullKind) : Halts env (nullInner k) := by
  cases k <;> simp only [nullInner]
  · exact halts_int env _ _
  · exact halts_bool env _
  · exact halts_double env _
  · exact halts_float env _
  · exact halts_string env _
  · exact halts_timeString env

theorem halts_nullw (k : NullKind) : Halts env (.nullw k) := by
  have := halts_nullInner env k
  halts_tac

/-! ### Loops -/

/-- the item loop runs `k` times -/
theorem ev_readItems {item : Codec} (hT : Halts env item) :
    ∀ k bs acc, Ev (fun n => readItems env n item k bs acc)
  | 0, bs, acc => by apply Ev.succ; simp only [readItems]; ev_tac
  | k + 1, bs, acc => by
    apply Ev.succ; simp only [readItems, Outcome.bind_eq]
    refine Ev.bind (hT.read _ _) (fun _ _ => ?_)
    exact ev_readItems hT k _ _

theorem ev_readMapItems {val : Codec} (hT : Halts env val) :
    ∀ k bs ks vs, Ev (fun n => readMapItems env n val k bs ks vs)
  | 0, bs, ks, vs => by apply Ev.succ; simp only [readMapItems]; ev_tac
  | k + 1, bs, ks, vs => by
    apply Ev.succ; simp only [readMapItems, Outcome.bind_eq]
    refine Ev.bind (Ev.const (rdVarint_ne_fuel _)) (fun _ _ => ?_)
    split
    · ev_tac
    · refine Ev.bind (Ev.const (next_ne_fuel _ _)) (fun _ _ => ?_)
      refine Ev.bind (hT.read _ _) (fun _ _ => ?_)
      exact ev_readMapItems hT k _ _ _

theorem ev_skipItems {item : Codec} (hT : Halts env item) (keyed : Bool) :
    ∀ k bs, Ev (fun n => skipItems env n keyed item k bs)
  | 0, bs => by apply Ev.succ; simp only [skipItems]; ev_tac
  | k + 1, bs => by
    apply Ev.succ; simp only [skipItems, Outcome.bind_eq, Outcome.pure_eq]
    split
    · refine Ev.bind (Ev.const (skipLen_ne_fuel _)) (fun _ _ => ?_)
      refine Ev.bind (hT.skip _) (fun _ _ => ?_)
      exact ev_skipItems hT keyed k _
    · simp only [Outcome.bind_ok']
      refine Ev.bind (hT.skip _) (fun _ _ => ?_)
      exact ev_skipItems hT keyed k _

/-- every block header consumes at least one byte, and the items of the block give none back:
the block loop runs at most `bs.length` times -/
theorem ev_readArrayBlocks (hs : env.Sane) {item : Codec} (hT : Halts env item) :
    ∀ L bs acc, bs.length < L → Ev (fun n => readArrayBlocks env n item bs acc) := by
  intro L
  induction L with
  | zero => intro bs acc h; omega
  | succ L ih =>
    intro bs acc hL
    apply Ev.succ; simp only [readArrayBlocks, Outcome.bind_eq, Outcome.pure_eq]
    refine Ev.bind (Ev.const (rdVarint_ne_fuel _)) (fun p hp => ?_)
    obtain ⟨_, hp⟩ := hp
    have h1 := rdVarint_lt hp
    split
    · ev_tac
    · refine Ev.bind (Ev.const (arrayBlockCount_ne_fuel _ _ _)) (fun q hq => ?_)
      obtain ⟨_, hq⟩ := hq
      have h2 := arrayBlockCount_len _ _ _ (Nat.le_refl _) q hq
      refine Ev.bind (ev_readItems env hT _ _ _) (fun x hx => ?_)
      obtain ⟨n, hx⟩ := hx
      have h3 := (lenAt env hs n).readItems _ _ _ _ _ (Nat.le_refl _) x hx
      exact ih _ _ (by omega)

theorem ev_readMapBlocks (hs : env.Sane) {val : Codec} (hT : Halts env val) :
    ∀ L bs ks vs, bs.length < L → Ev (fun n => readMapBlocks env n val bs ks vs) := by
  intro L
  induction L with
  | zero => intro bs ks vs h; omega
  | succ L ih =>
    intro bs ks vs hL
    apply Ev.succ; simp only [readMapBlocks, Outcome.bind_eq, Outcome.pure_eq]
    refine Ev.bind (Ev.const (rdVarint_ne_fuel _)) (fun p hp => ?_)
    obtain ⟨_, hp⟩ := hp
    have h1 := rdVarint_lt hp
    split
    · ev_tac
    · refine Ev.bind (Ev.const (blockCount_ne_fuel _ _)) (fun q hq => ?_)
      obtain ⟨_, hq⟩ := hq
      have h2 := blockCount_len _ _ (Nat.le_refl _) q hq
      refine Ev.bind (ev_readMapItems env hT _ _ _ _) (fun x hx => ?_)
      obtain ⟨n, hx⟩ := hx
      have h3 := (lenAt env hs n).readMapItems _ _ _ _ _ _ (Nat.le_refl _) x hx
      exact ih _ _ _ (by omega)

theorem ev_skipBlocks (hs : env.Sane) {item : Codec} (hT : Halts env item) (keyed : Bool) :
    ∀ L bs, bs.length < L → Ev (fun n => skipBlocks env n keyed item bs) := by
  intro L
  induction L with
  | zero => intro bs h; omega
  | succ L ih =>
    intro bs hL
    apply Ev.succ; simp only [skipBlocks, Outcome.bind_eq, Outcome.pure_eq]
    refine Ev.bind (Ev.const (rdVarint_ne_fuel _)) (fun p hp => ?_)
    obtain ⟨_, hp⟩ := hp
    have h1 := rdVarint_lt hp
    split
    · ev_tac
    · split
      · refine Ev.bind (Ev.const (rdVarint_ne_fuel _)) (fun q hq => ?_)
        obtain ⟨_, hq⟩ := hq
        have h2 := rdVarint_lt hq
        refine Ev.bind (Ev.const (skipN_ne_fuel _ _)) (fun x hx => ?_)
        obtain ⟨_, hx⟩ := hx
        have h3 := skipN_len _ _ (Nat.le_refl _) x hx
        simp only [id] at h3
        exact ih _ (by omega)
      · refine Ev.bind (ev_skipItems env hT keyed _ _) (fun x hx => ?_)
        obtain ⟨n, hx⟩ := hx
        have h3 := (lenAt env hs n).skipItems _ _ _ _ _ (Nat.le_refl _) x hx
        simp only [id] at h3
        exact ih _ (by omega)

/-- the field loops run once per field -/
theorem ev_skipFields : ∀ (cs : List Codec), (∀ c ∈ cs, Halts env c) → ∀ bs, Ev (fun n => skipFields env n cs bs)
  | [], _, bs => by apply Ev.succ; simp only [skipFields]; ev_tac
  | c :: cs, h, bs => by
    apply Ev.succ; simp only [skipFields, Outcome.bind_eq]
    refine Ev.bind ((h c (by simp)).skip _) (fun _ _ => ?_)
    exact ev_skipFields cs (fun c' hc' => h c' (by simp [hc'])) _

theorem ev_readFields : ∀ (cs : List Codec), (∀ c ∈ cs, Halts env c) →
    ∀ ts bs fs, Ev (fun n => readFields env n cs ts bs fs)
  | [], _, ts, bs, fs => by apply Ev.succ; simp only [readFields]; ev_tac
  | c :: cs, h, [], bs, fs => by apply Ev.succ; simp only [readFields]; ev_tac
  | c :: cs, h, none :: ts, bs, fs => by
    apply Ev.succ; simp only [readFields, Outcome.bind_eq]
    refine Ev.bind ((h c (by simp)).skip _) (fun _ _ => ?_)
    exact ev_readFields cs (fun c' hc' => h c' (by simp [hc'])) _ _ _
  | c :: cs, h, some i :: ts, bs, fs => by
    apply Ev.succ; simp only [readFields, Outcome.bind_eq]
    split
    · ev_tac
    · refine Ev.bind ((h c (by simp)).read _ _) (fun _ _ => ?_)
      exact ev_readFields cs (fun c' hc' => h c' (by simp [hc'])) _ _ _

/-! ### Every codec tree -/

theorem halts_array (hs : env.Sane) {item : Codec} (hT : Halts env item) (oe : Bool) :
    Halts env (.array item oe) := by
  have h1 := fun bs acc => ev_readArrayBlocks env hs hT (bs.length + 1) bs acc (Nat.lt_succ_self _)
  have h2 := fun keyed bs => ev_skipBlocks env hs hT keyed (bs.length + 1) bs (Nat.lt_succ_self _)
  constructor
  · intro bs dst; apply Ev.succ; simp only [read, Outcome.bind_eq, Outcome.pure_eq]
    split
    · refine Ev.bind (h1 _ _) (fun _ _ => ?_); ev_tac
    · ev_tac
  · intro bs; apply Ev.succ; simp only [skip]; exact h2 _ _

theorem halts_map (hs : env.Sane) {val : Codec} (hT : Halts env val) (oe : Bool) :
    Halts env (.map val oe) := by
  have h1 := fun bs ks vs => ev_readMapBlocks env hs hT (bs.length + 1) bs ks vs (Nat.lt_succ_self _)
  have h2 := fun keyed bs => ev_skipBlocks env hs hT keyed (bs.length + 1) bs (Nat.lt_succ_self _)
  constructor
  · intro bs dst; apply Ev.succ; simp only [read, Outcome.bind_eq, Outcome.pure_eq]
    split
    · refine Ev.bind (h1 _ _ _) (fun _ _ => ?_); ev_tac
    · ev_tac
  · intro bs; apply Ev.succ; simp only [skip]; exact h2 _ _

theorem halts_pointer {c : Codec} (hT : Halts env c) : Halts env (.pointer c) := by halts_tac

theorem halts_unionOne {c : Codec} (hT : Halts env c) (nn : Nat) : Halts env (.unionOne c nn) := by halts_tac

theorem halts_record (z : List GoVal) {cs : List Codec} (h : ∀ c ∈ cs, Halts env c) (ts : List (Option Nat)) :
    Halts env (.record z cs ts) := by
  constructor
  · intro bs dst; apply Ev.succ; simp only [read, Outcome.bind_eq, Outcome.pure_eq]
    split
    · refine Ev.bind (ev_readFields env cs h _ _ _) (fun _ _ => ?_); ev_tac
    · ev_tac
  · intro bs; apply Ev.succ; simp only [skip]; exact ev_skipFields env cs h _

theorem halts_union {cs : List Codec} (h : ∀ c ∈ cs, Halts env c) : Halts env (.union cs) := by
  constructor
  · intro bs dst; apply Ev.succ; simp only [read, Outcome.bind_eq]
    refine Ev.bind (Ev.const (rdVarint_ne_fuel _)) (fun _ _ => ?_)
    split
    · ev_tac
    · split
      · rename_i c' hc'
        exact (h c' (List.mem_of_getElem? hc')).read _ _
      · ev_tac
  · intro bs; apply Ev.succ; simp only [skip, Outcome.bind_eq]
    refine Ev.bind (Ev.const (rdVarint_ne_fuel _)) (fun _ _ => ?_)
    split
    · ev_tac
    · split
      · rename_i c' hc'
        exact (h c' (List.mem_of_getElem? hc')).skip _
      · ev_tac

/-- **Termination.** With custom codecs that do not lengthen their input, `read` and `skip` of
every codec tree reach, on every input and destination, a budget from which on the outcome is one
and the same and is not `.fuel`. -/
theorem halts (hs : env.Sane) : ∀ c, Halts env c
  | .null => halts_null env
  | .bool _ => halts_bool env _
  | .int _ _ => halts_int env _ _
  | .float _ => halts_float env _
  | .double _ => halts_double env _
  | .f32double _ => halts_f32double env _
  | .bytes _ => halts_bytes env _
  | .string _ => halts_string env _
  | .fixed _ => halts_fixed env _
  | .array item _ => halts_array env hs (halts hs item) _
  | .map val _ => halts_map env hs (halts hs val) _
  | .pointer c => halts_pointer env (halts hs c)
  | .record _ cs _ => halts_record env _ (fun c _ => halts hs c) _
  | .union cs => halts_union env (fun c _ => halts hs c)
  | .unionOne c _ => halts_unionOne env (halts hs c) _
  | .unionNullString _ _ => halts_unionNullString env _ _
  | .timeString => halts_timeString env
  | .timeLong _ => halts_timeLong env _
  | .date => halts_date env
  | .nullw _ => halts_nullw env _
  | .custom _ => halts_custom env _

/-! ### Why `Env.Sane` is needed -/

/-- an environment whose custom codec 0 "un-reads": it returns two bytes `[2, 0]` of unread input
whatever it is given -/
def envGrow : Env where
  widen := id
  narrow := id
  fmtTime := fun _ => []
  parseTime := fun _ => none
  ofNanos := fun _ => TimeVal.zero
  ofDays := fun _ => TimeVal.zero
  custom := fun _ =>
    { read := fun _ => some (.unit, [2, 0]), skip := fun _ => some [2, 0], write := fun _ => [],
      omits := fun _ => false, zero := .unit }

theorem envGrow_not_sane : ¬ envGrow.Sane := by
  intro h
  have := h.skip 0 [] [2, 0] rfl
  simp at this

theorem skipItems_envGrow (n : Nat) :
    skipItems envGrow n false (.custom 0) 1 [0] = .fuel ∨ skipItems envGrow n false (.custom 0) 1 [0] = .ok [2, 0] := by
  rcases n with _ | _ | _ | n
  · left; rfl
  · left; rfl
  · right; rfl
  · right; rfl

/-- without `Env.Sane` the model does not terminate: the array block `[2, 0]` (one item, then the
end marker) skipped with an item codec that hands `[2, 0]` back is skipped again and again -/
theorem skipBlocks_diverges : ∀ n, skipBlocks envGrow n false (.custom 0) [2, 0] = .fuel
  | 0 => rfl
  | n + 1 => by
    have h1 : rdVarint [2, 0] = .ok (1, [0]) := by rfl
    simp only [skipBlocks, Outcome.bind_eq, Outcome.pure_eq, h1, Outcome.bind_ok']
    have h2 : ¬ ((1 : Int) = 0) := by decide
    have h3 : ¬ ((1 : Int) < 0) := by decide
    simp only [h2, h3, if_false]
    have h4 : (1 : Int).toNat = 1 := rfl
    rw [h4]
    rcases skipItems_envGrow n with h | h <;> rw [h]
    · rfl
    · simp only [Outcome.bind_ok']; exact skipBlocks_diverges n

theorem skip_diverges (n : Nat) : skip envGrow n (.array (.custom 0) false) [2, 0] = .fuel := by
  cases n with
  | zero => rfl
  | succ n => simp only [skip]; exact skipBlocks_diverges n

theorem readMapItems_envGrow (n : Nat) (ks : List Bytes) (vs : List GoVal) :
    readMapItems envGrow n (.custom 0) 1 [0] ks vs = .fuel ∨
    ∃ ks' vs', readMapItems envGrow n (.custom 0) 1 [0] ks vs = .ok ((ks', vs'), [2, 0]) := by
  rcases n with _ | _ | _ | n
  · left; rfl
  · left; rfl
  · right; exact ⟨_, _, rfl⟩
  · right; exact ⟨_, _, rfl⟩

theorem readMapBlocks_diverges : ∀ n ks vs, readMapBlocks envGrow n (.custom 0) [2, 0] ks vs = .fuel
  | 0, _, _ => rfl
  | n + 1, ks, vs => by
    have h1 : rdVarint [2, 0] = .ok (1, [0]) := by rfl
    simp only [readMapBlocks, Outcome.bind_eq, Outcome.pure_eq, h1, Outcome.bind_ok']
    have h2 : ¬ ((1 : Int) = 0) := by decide
    have h3 : blockCount 1 [0] = .ok (1, [0]) := by rfl
    simp only [h2, h3, if_false, Outcome.bind_ok']
    rcases readMapItems_envGrow n ks vs with h | ⟨ks', vs', h⟩ <;> rw [h]
    · rfl
    · simp only [Outcome.bind_ok']; exact readMapBlocks_diverges n _ _

/-- the same for `read`: no budget suffices -/
theorem read_diverges (n : Nat) :
    read envGrow n (.map (.custom 0) false) [2, 0] (.map true [] []) = .fuel := by
  cases n with
  | zero => rfl
  | succ n => simp only [read, Outcome.bind_eq, readMapBlocks_diverges n, Outcome.bind_fuel']

/-! ### A sane environment (non-vacuity of `Env.Sane`) -/

/-- an environment whose custom codecs read one varint (a user-defined integer type) -/
def envVarint : Env where
  widen := id
  narrow := id
  fmtTime := fun _ => []
  parseTime := fun _ => none
  ofNanos := fun _ => TimeVal.zero
  ofDays := fun _ => TimeVal.zero
  custom := fun cid =>
    { read := fun bs => match readVarint bs with
        | .ok (v, r) => some (.opaque cid (writeVarint v), r)
        | .error _ => none
      skip := fun bs => match readVarint bs with
        | .ok (_, r) => some r
        | .error _ => none
      write := fun g => match g with | .opaque _ b => b | _ => []
      omits := fun _ => false
      zero := .opaque cid [0] }

theorem envVarint_sane : envVarint.Sane := by
  constructor
  · intro cid bs v r h
    simp only [envVarint] at h
    split at h
    · rename_i hv; cases h; exact Nat.le_of_lt (readVarint_len hv)
    · cases h
  · intro cid bs r h
    simp only [envVarint] at h
    split at h
    · rename_i hv; cases h; exact Nat.le_of_lt (readVarint_len hv)
    · cases h

/-! ### `skip` has no destination: it is never `stuck` -/

theorem skipN_ne_stuck_t (l : Int) (bs : Bytes) : skipN l bs ≠ .stuck := by
  unfold skipN next
  split <;> rename_i h <;> split at h <;> (try split at h) <;> simp_all

theorem skipVar_ne_stuck_t (bs : Bytes) : skipVar bs ≠ .stuck := by
  unfold skipVar; split <;> simp

theorem skipLen_ne_stuck_t (bs : Bytes) : skipLen bs ≠ .stuck := by
  unfold skipLen; split
  · exact skipN_ne_stuck_t _ _
  · simp

theorem rdVarint_ne_stuck (bs : Bytes) : rdVarint bs ≠ .stuck := by
  unfold rdVarint; split <;> simp

theorem rdByte_ne_stuck (bs : Bytes) : rdByte bs ≠ .stuck := by
  cases bs <;> simp [rdByte]

theorem Outcome.bind_ne_stuck_t {α β : Type} {o : Outcome α} {f : α → Outcome β}
    (h1 : o ≠ .stuck) (h2 : ∀ a, f a ≠ .stuck) : Outcome.bind o f ≠ .stuck := by
  cases o with
  | ok a => exact h2 a
  | stuck => exact absurd rfl h1
  | _ => simp [Outcome.bind]

structure SkipNeverStuckAt (n : Nat) : Prop where
  skip : ∀ c bs, skip env n c bs ≠ .stuck
  skipFields : ∀ cs bs, skipFields env n cs bs ≠ .stuck
  skipBlocks : ∀ keyed item bs, skipBlocks env n keyed item bs ≠ .stuck
  skipItems : ∀ keyed item k bs, skipItems env n keyed item k bs ≠ .stuck

syntax "ns_tac" : tactic
macro_rules
  | `(tactic| ns_tac) => `(tactic| repeat' (first
      | exact skipN_ne_stuck_t _ _
      | exact skipVar_ne_stuck_t _
      | exact skipLen_ne_stuck_t _
      | exact rdVarint_ne_stuck _
      | exact rdByte_ne_stuck _
      | exact SkipNeverStuckAt.skip (by assumption) _ _
      | exact SkipNeverStuckAt.skipFields (by assumption) _ _
      | exact SkipNeverStuckAt.skipBlocks (by assumption) _ _ _
      | exact SkipNeverStuckAt.skipItems (by assumption) _ _ _ _
      | (refine Outcome.bind_ne_stuck_t ?_ (fun _ => ?_))
      | (intro h; cases h)
      | split))

theorem skipNeverStuckAt : ∀ n, SkipNeverStuckAt env n := by
  intro n
  induction n with
  | zero => constructor <;> intros <;> simp [skip, skipFields, skipBlocks, skipItems]
  | succ n ih =>
    constructor
    · intro c bs
      cases c <;> simp only [skip, Outcome.bind_eq, Outcome.pure_eq]
      all_goals ns_tac
    · intro cs bs
      cases cs <;> simp only [skipFields, Outcome.bind_eq] <;> ns_tac
    · intro keyed item bs
      simp only [skipBlocks, Outcome.bind_eq, Outcome.pure_eq]; ns_tac
    · intro keyed item k bs
      cases k <;> simp only [skipItems, Outcome.bind_eq, Outcome.pure_eq] <;> ns_tac

end Avro
