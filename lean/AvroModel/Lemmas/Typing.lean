import AvroModel.Typing
import AvroModel.Lemmas.Outcome
/-!
Lemmas behind `Props/C05.lean`: zero values are well-typed, codec construction yields `wt` codecs
(induction on the recursion budget in the style of `Lemmas/BuildOk.lean`), `wt` codecs never get
stuck and preserve the type of the destination (induction on the step budget over the six mutually
recursive read functions, in the style of `Lemmas/NoPanic.lean`).
-/
namespace Avro


theorem zeroVal_slice (e : GoType) : zeroVal (.slice e) = if isU8 e then .bytes [] else .slice [] := by
  unfold zeroVal
  split <;> simp_all [isU8]

theorem zeroVal_array (n : Nat) (e : GoType) :
    zeroVal (.array n e) = if isU8 e then .fixed (List.replicate n 0) else .unit := by
  unfold zeroVal
  split <;> simp_all [isU8]

theorem inRange_zero {w : Nat} : inRange w 0 := by
  unfold inRange
  have : (0 : Int) < 2 ^ (w - 1) := Int.pow_pos (by decide)
  omega

mutual
theorem zeroVal_hasTy : (t : GoType) → hasTy t (zeroVal t) = true
  | .bool => by simp [zeroVal, hasTy]
  | .int w => by simp [zeroVal, hasTy, inRange_zero]
  | .uint w => by
    have : (0 : Int) < 2 ^ w := Int.pow_pos (by decide)
    simp [zeroVal, hasTy, this]
  | .float32 => by simp [zeroVal, hasTy]
  | .float64 => by simp [zeroVal, hasTy]
  | .complex => by simp [zeroVal, hasTy]
  | .string => by simp [zeroVal, hasTy]
  | .slice e => by
    rw [zeroVal_slice]
    cases h : isU8 e <;> simp [hasTy, h]
  | .array n e => by
    rw [zeroVal_array]
    cases h : isU8 e <;> simp [hasTy, h]
  | .map k v => by simp [zeroVal, hasTy]
  | .ptr e => by simp [zeroVal, hasTy]
  | .struct _ _ fs => by simp [zeroVal, hasTy, zeroFields_hasTy fs]
  | .time => by simp [zeroVal, hasTy]
  | .nullT k => by cases k <;> simp [zeroVal, hasTy, nullInnerOK, inRange_zero]
  | .custom _ u => by simp [zeroVal, hasTy, zeroVal_hasTy u]
  | .iface => by simp [zeroVal, hasTy]
  | .chan => by simp [zeroVal, hasTy]
  | .func => by simp [zeroVal, hasTy]
  | .unsafeptr => by simp [zeroVal, hasTy]
  | .ref _ => by simp [zeroVal, hasTy]
theorem zeroFields_hasTy : (fs : List GoField) → hasTyFields fs (zeroFields fs) = true
  | [] => by simp [zeroFields, hasTyFields]
  | .mk _ _ _ _ t :: fs => by simp [zeroFields, hasTyFields, zeroVal_hasTy t, zeroFields_hasTy fs]
end



theorem strip_ne_custom {T : GoType} (h : T.wf = true) (id : Nat) (u : GoType) : T.strip ≠ .custom id u := by
  cases T <;> simp [GoType.strip]
  rename_i id' u'
  simp only [GoType.wf, Bool.and_eq_true] at h
  intro hu; subst hu; simp at h

theorem strip_wf {T : GoType} (h : T.wf = true) : T.strip.wf = true := by
  cases T <;> simp_all [GoType.strip, GoType.wf]


structure BuildWtAt (reg : Reg) (n : Nat) : Prop where
  build : ∀ s T oe c, buildCodec reg n s (some T) oe = .ok c → T.wf = true → allocOK c = true → wt c T = true
  kind : ∀ s T oe c, buildKind reg n s (some T) oe = .ok c → T.wf = true →
    (s.type = "union" ∨ s.type = "null" ∨ libType T = false) → allocOK c = true → wt c T = true
  union : ∀ bs T oe c, buildUnion reg n bs (some T) oe = .ok c → T.wf = true → allocOK c = true → wt c T = true
  branches : ∀ bs T oe cs, buildBranches reg n bs (some T) oe = .ok cs → T.wf = true → allocOKAll cs = true → wtAll cs T = true
  fields : ∀ sfs gfs cs ts, buildFields reg n sfs (some gfs) = .ok (cs, ts) → wfFields gfs = true →
    allocOKFields cs ts = true → wtFields cs ts gfs = true

theorem buildLong_wt {T : GoType} {oe : Bool} {c : Codec} (h : buildLong (some T.strip) oe = .ok c) (hwf : T.wf = true) :
    wt c T = true := by
  unfold buildLong at h
  split at h <;> first | (cases h; done) | skip
  all_goals (rename_i heq; cases h; simp at heq <;> first | (exact absurd heq (strip_ne_custom hwf _ _)) | simp [wt, heq])


/-! ### a Go type of unsigned kind only ever gets codecs that do not allocate (null, unions of nulls) -/

structure NoAllocAt (reg : Reg) (n : Nat) : Prop where
  build : ∀ s T oe c w, buildCodec reg n s (some T) oe = .ok c → T.strip = .uint w → allocs c = false
  kind : ∀ s T oe c w, buildKind reg n s (some T) oe = .ok c → T.strip = .uint w → allocs c = false
  union : ∀ bs T oe c w, buildUnion reg n bs (some T) oe = .ok c → T.strip = .uint w → allocs c = false
  branches : ∀ bs T oe cs w, buildBranches reg n bs (some T) oe = .ok cs → T.strip = .uint w → allocsU cs = false

theorem noAlloc_kind (reg : Reg) (n : Nat) (ih : NoAllocAt reg n) :
    ∀ s T oe c w, buildKind reg (n + 1) s (some T) oe = .ok c → T.strip = .uint w → allocs c = false := by
  intro s T oe c w hb hk
  simp only [buildKind, Option.map, hk] at hb
  by_cases h1 : s.type = "null"
  · simp [h1] at hb; subst hb; rfl
  by_cases h2 : s.type = "boolean"
  · simp [h2] at hb
  by_cases h3 : s.type = "int"
  · simp [h3, buildLong] at hb
  by_cases h4 : s.type = "long"
  · simp [h4, buildLong] at hb
  by_cases h5 : s.type = "float"
  · simp [h5] at hb
  by_cases h6 : s.type = "double"
  · simp [h6] at hb
  by_cases h7 : s.type = "bytes"
  · simp [h7] at hb
  by_cases h8 : s.type = "string"
  · simp [h8] at hb
  by_cases h9 : s.type = "record"
  · simp [h9] at hb
    cases ho : s.object <;> simp [ho] at hb
  by_cases h10 : s.type = "enum"
  · simp [h10] at hb
  by_cases h11 : s.type = "array"
  · simp [h11] at hb
    cases ho : s.object <;> simp [ho] at hb
  by_cases h12 : s.type = "map"
  · simp [h12] at hb
    cases ho : s.object <;> simp [ho] at hb
  by_cases h13 : s.type = "union"
  · simp [h13] at hb
    exact ih.union _ _ _ _ _ hb hk
  by_cases h14 : s.type = "fixed"
  · simp [h14] at hb
    cases ho : s.object <;> simp [ho] at hb
  simp [h1, h2, h3, h4, h5, h6, h7, h8, h9, h10, h11, h12, h13, h14] at hb


theorem regLookup_some {reg : Reg} (hreg : ∀ id, reg.custom id = none) {T : GoType} {b : Schema → Except String Codec}
    (h : regLookup reg T = some b) : (T = .time ∧ b = buildTime) ∨ ∃ k, T = .nullT k ∧ b = buildNull k := by
  cases T <;> simp only [regLookup] at h <;> try (cases h; done)
  · split at h
    · cases h; exact .inl ⟨rfl, rfl⟩
    · cases h
  · split at h
    · cases h; exact .inr ⟨_, rfl, rfl⟩
    · cases h
  · rename_i id u
    rw [hreg id] at h; cases h

theorem allocsU_cons_false {c : Codec} {cs : List Codec} (h1 : allocs c = false) (h2 : allocsU cs = false) :
    allocsU (c :: cs) = false := by
  cases c <;> simp_all [allocsU]

theorem noAlloc_build (reg : Reg) (hreg : ∀ id, reg.custom id = none) (n : Nat) (ih : NoAllocAt reg n) :
    ∀ s T oe c w, buildCodec reg (n + 1) s (some T) oe = .ok c → T.strip = .uint w → allocs c = false := by
  intro s T oe c w hb hk
  simp only [buildCodec] at hb
  split at hb
  · split at hb
    · rename_i e heq; cases heq; simp [GoType.strip] at hk
    · rename_i t hnp heq; cases heq
      split at hb
      · rename_i builder hl
        rcases regLookup_some hreg hl with ⟨rfl, _⟩ | ⟨k, rfl, _⟩ <;> simp [GoType.strip] at hk
      · exact ih.kind _ _ _ _ _ hb hk
    · rename_i heq; cases heq
  · exact ih.kind _ _ _ _ _ hb hk

theorem noAlloc_union (reg : Reg) (n : Nat) (ih : NoAllocAt reg n) :
    ∀ bs T oe c w, buildUnion reg (n + 1) bs (some T) oe = .ok c → T.strip = .uint w → allocs c = false := by
  intro bs T oe c w hb hk
  simp only [buildUnion] at hb
  split at hb
  · split at hb
    · rename_i o hbs
      have := ih.build _ _ _ _ _ hbs hk
      simp [allocs] at this
    · rename_i c' hnots hbs; cases hb
      simp only [allocs]; exact ih.build _ _ _ _ _ hbs hk
    · cases hb
  · split at hb
    · rename_i cs hbs; cases hb
      simp only [allocs]; exact ih.branches _ _ _ _ _ hbs hk
    · cases hb

theorem noAlloc_branches (reg : Reg) (n : Nat) (ih : NoAllocAt reg n) :
    ∀ bs T oe cs w, buildBranches reg (n + 1) bs (some T) oe = .ok cs → T.strip = .uint w → allocsU cs = false := by
  intro bs T oe cs w hb hk
  cases bs with
  | nil => simp [buildBranches] at hb; subst hb; rfl
  | cons b bs =>
    simp only [buildBranches] at hb
    split at hb <;> try (cases hb; done)
    rename_i c' cs' hb1 hb2; cases hb
    exact allocsU_cons_false (ih.build _ _ _ _ _ hb1 hk) (ih.branches _ _ _ _ _ hb2 hk)

theorem noAllocAt (reg : Reg) (hreg : ∀ id, reg.custom id = none) : ∀ n, NoAllocAt reg n := by
  intro n
  induction n with
  | zero =>
    constructor
    · intro s T oe c w h; simp [buildCodec] at h
    · intro s T oe c w h; simp [buildKind] at h
    · intro bs T oe c w h; simp [buildUnion] at h
    · intro bs T oe cs w h; simp [buildBranches] at h
  | succ n ih =>
    exact ⟨noAlloc_build reg hreg n ih, noAlloc_kind reg n ih, noAlloc_union reg n ih, noAlloc_branches reg n ih⟩


theorem isU8_iff {e : GoType} : isU8 e = true ↔ e = .uint 8 := by
  constructor
  · intro h; unfold isU8 at h; split at h <;> simp_all
  · intro h; subst h; rfl

theorem buildWt_kind (reg : Reg) (hreg : ∀ id, reg.custom id = none) (n : Nat) (ih : BuildWtAt reg n) :
    ∀ s T oe c, buildKind reg (n + 1) s (some T) oe = .ok c → T.wf = true →
    (s.type = "union" ∨ s.type = "null" ∨ libType T = false) → allocOK c = true → wt c T = true := by
  intro s T oe c hb hwf hlt hal
  have hswf := strip_wf hwf
  simp only [buildKind, Option.map] at hb
  by_cases h1 : s.type = "null"
  · simp [h1] at hb; subst hb; rfl
  by_cases h2 : s.type = "boolean"
  · simp [h2] at hb
    split at hb <;> first | (cases hb; done) | skip
    · rename_i heq; cases heq
    · rename_i heq; cases hb; simp at heq; simp [wt, heq]
  by_cases h3 : s.type = "int"
  · simp [h3] at hb; exact buildLong_wt hb hwf
  by_cases h4 : s.type = "long"
  · simp [h4] at hb; exact buildLong_wt hb hwf
  by_cases h5 : s.type = "float"
  · simp [h5] at hb
    split at hb <;> first | (cases hb; done) | skip
    · rename_i heq; cases heq
    · rename_i heq; cases hb; simp at heq; simp [wt, heq]
  by_cases h6 : s.type = "double"
  · simp [h6] at hb
    split at hb <;> first | (cases hb; done) | skip
    · rename_i heq; cases heq
    · rename_i heq; cases hb; simp at heq; simp [wt, heq]
    · rename_i heq; cases hb; simp at heq; simp [wt, heq]
  by_cases h7 : s.type = "bytes"
  · simp [h7] at hb
    split at hb <;> first | (cases hb; done) | skip
    · rename_i heq; cases heq
    · rename_i heq; cases hb; simp at heq; simp [wt, heq, isU8]
  by_cases h8 : s.type = "string"
  · simp [h8] at hb
    split at hb <;> first | (cases hb; done) | skip
    · rename_i heq; cases heq
    · rename_i heq; cases hb; simp at heq; simp [wt, heq]
  by_cases h9 : s.type = "record"
  · simp [h9] at hb
    cases ho : s.object with
    | none => simp [ho] at hb
    | some o =>
      simp only [ho] at hb
      have hlt' : libType T = false := by
        rcases hlt with h | h | h
        · simp [h9] at h
        · simp [h9] at h
        · exact h
      split at hb
      · rename_i heq; cases heq
      · rename_i nm pk gfs heq
        simp at heq
        split at hb
        · rename_i cs ts hbf; cases hb
          simp only [allocOK] at hal
          simp only [heq, GoType.wf] at hswf
          simp [wt, heq, zeroFields_hasTy, ih.fields _ _ _ _ hbf hswf hal]
        · cases hb
      · rename_i heq; simp at heq
        simp [libType, heq] at hlt'
      · rename_i heq; simp at heq
        simp [libType, heq] at hlt'
      · cases hb
  by_cases h10 : s.type = "enum"
  · simp [h10] at hb
  by_cases h11 : s.type = "array"
  · simp [h11] at hb
    cases ho : s.object with
    | none => simp [ho] at hb
    | some o =>
      simp only [ho] at hb
      split at hb
      · rename_i heq; cases heq
      · rename_i e heq
        simp at heq
        split at hb
        · rename_i ci hbi; cases hb
          simp only [allocOK, Bool.and_eq_true] at hal
          simp only [heq, GoType.wf] at hswf
          have hne : isU8 e = false := by
            cases hu : isU8 e
            · rfl
            · have := (noAllocAt reg hreg n).build _ _ _ _ 8 hbi (by rw [isU8_iff.mp hu]; rfl)
              rw [this] at hal; exact absurd hal.1 (by decide)
          simp [wt, heq, hne, ih.build _ _ _ _ hbi hswf hal.2]
        · cases hb
      · cases hb
  by_cases h12 : s.type = "map"
  · simp [h12] at hb
    cases ho : s.object with
    | none => simp [ho] at hb
    | some o =>
      simp only [ho] at hb
      split at hb
      · rename_i heq; cases heq
      · rename_i key v heq
        simp at heq
        split at hb
        · rename_i hkey
          simp only [if_true] at hb
          split at hb
          · rename_i ci hbi; cases hb
            simp only [allocOK, Bool.and_eq_true] at hal
            simp only [heq, GoType.wf, Bool.and_eq_true] at hswf
            have hks : isStringKey key = true := by
              simp [isStringKey, hkey]
            simp [wt, heq, hks, ih.build _ _ _ _ hbi hswf.2 hal.2]
          · cases hb
        · simp at hb
      · cases hb
  by_cases h13 : s.type = "union"
  · simp [h13] at hb
    exact ih.union _ _ _ _ hb hwf hal
  by_cases h14 : s.type = "fixed"
  · simp [h14] at hb
    cases ho : s.object with
    | none => simp [ho] at hb
    | some o =>
      simp only [ho] at hb
      split at hb
      · rename_i heq; cases heq
      · rename_i m heq
        simp at heq
        split at hb
        · rename_i hsz; cases hb; simp [wt, heq, isU8, hsz]
        · cases hb
      · cases hb
  simp [h1, h2, h3, h4, h5, h6, h7, h8, h9, h10, h11, h12, h13, h14] at hb



theorem buildTime_wt {s : Schema} {c : Codec} (h : buildTime s = .ok c) : wt c .time = true := by
  unfold buildTime at h
  by_cases h1 : s.type = "string"
  · simp [h1] at h; subst h; rfl
  · by_cases h2 : s.type = "long"
    · simp [h2] at h; subst h; rfl
    · by_cases h3 : s.type = "int"
      · simp [h3] at h
        split at h
        · split at h
          · cases h; rfl
          · cases h
        · cases h
      · simp [h1, h2, h3] at h

theorem buildNull_wt {k : NullKind} {s : Schema} {c : Codec} (h : buildNull k s = .ok c) : wt c (.nullT k) = true := by
  unfold buildNull at h
  cases k <;> simp only at h
  · by_cases h1 : s.type = "long"
    · simp [h1] at h; subst h; rfl
    · by_cases h2 : s.type = "int"
      · simp [h2] at h; subst h; rfl
      · simp [h1, h2] at h
  · by_cases h1 : s.type = "boolean"
    · simp [h1] at h; subst h; rfl
    · simp [h1] at h
  · by_cases h1 : s.type = "double"
    · simp [h1] at h; subst h; rfl
    · by_cases h2 : s.type = "float"
      · simp [h2] at h; subst h; rfl
      · simp [h1, h2] at h
  · by_cases h1 : s.type = "double"
    · simp [h1] at h; subst h; rfl
    · by_cases h2 : s.type = "float"
      · simp [h2] at h; subst h; rfl
      · simp [h1, h2] at h
  · by_cases h1 : s.type = "string"
    · simp [h1] at h; subst h; rfl
    · simp [h1] at h
  · by_cases h1 : s.type = "string"
    · simp [h1] at h; subst h; rfl
    · simp [h1] at h

theorem libType_false {reg : Reg} (hlib : reg.lib = true) {T : GoType} (hwf : T.wf = true)
    (hl : regLookup reg T = none) : libType T = false := by
  cases T <;> simp_all [libType, GoType.strip, regLookup]
  rename_i id u
  simp only [GoType.wf, Bool.and_eq_true] at hwf
  cases u <;> simp_all

theorem buildWt_build (reg : Reg) (hreg : ∀ id, reg.custom id = none) (hlib : reg.lib = true) (n : Nat)
    (ih : BuildWtAt reg n) :
    ∀ s T oe c, buildCodec reg (n + 1) s (some T) oe = .ok c → T.wf = true → allocOK c = true → wt c T = true := by
  intro s T oe c hb hwf hal
  simp only [buildCodec] at hb
  split at hb
  · split at hb
    · rename_i e heq; cases heq
      split at hb
      · rename_i c' hb'; cases hb
        simp only [allocOK, Bool.and_eq_true] at hal
        simp only [GoType.wf] at hwf
        simp [wt, GoType.strip, ih.build _ _ _ _ hb' hwf hal.2]
      · cases hb
    · rename_i t hnp heq; cases heq
      split at hb
      · rename_i builder hl
        rcases regLookup_some hreg hl with ⟨rfl, rfl⟩ | ⟨k, rfl, rfl⟩
        · exact buildTime_wt hb
        · exact buildNull_wt hb
      · rename_i hl
        exact ih.kind _ _ _ _ hb hwf (.inr (.inr (libType_false hlib hwf hl))) hal
    · rename_i heq; cases heq
  · rename_i hs
    refine ih.kind _ _ _ _ hb hwf ?_ hal
    by_cases hu : s.type = "union"
    · exact .inl hu
    · by_cases hn : s.type = "null"
      · exact .inr (.inl hn)
      · simp [hu, hn] at hs


theorem buildWt_union (reg : Reg) (n : Nat) (ih : BuildWtAt reg n) :
    ∀ bs T oe c, buildUnion reg (n + 1) bs (some T) oe = .ok c → T.wf = true → allocOK c = true → wt c T = true := by
  intro bs T oe c hb hwf hal
  simp only [buildUnion] at hb
  split at hb
  · split at hb
    · rename_i o hbs; cases hb
      have := ih.build _ _ _ _ hbs hwf rfl
      simpa [wt] using this
    · rename_i c' hnots hbs; cases hb
      simp only [allocOK] at hal
      simpa [wt] using ih.build _ _ _ _ hbs hwf hal
    · cases hb
  · split at hb
    · rename_i cs hbs; cases hb
      simp only [allocOK] at hal
      simpa [wt] using ih.branches _ _ _ _ hbs hwf hal
    · cases hb

theorem buildWt_branches (reg : Reg) (n : Nat) (ih : BuildWtAt reg n) :
    ∀ bs T oe cs, buildBranches reg (n + 1) bs (some T) oe = .ok cs → T.wf = true → allocOKAll cs = true →
    wtAll cs T = true := by
  intro bs T oe cs hb hwf hal
  cases bs with
  | nil => simp [buildBranches] at hb; subst hb; rfl
  | cons b bs =>
    simp only [buildBranches] at hb
    split at hb <;> try (cases hb; done)
    rename_i c' cs' hb1 hb2; cases hb
    simp only [allocOKAll, Bool.and_eq_true] at hal
    simp [wtAll, ih.build _ _ _ _ hb1 hwf hal.1, ih.branches _ _ _ _ hb2 hwf hal.2]

/-- `ntf[name]`: the index found is the index of the field found -/
theorem lookupField_spec (name : String) : ∀ (fs : List GoField) (i : Nat) (acc : Option (Nat × GoField)) (j : Nat) (gf : GoField),
    lookupField name fs i acc = some (j, gf) → acc = some (j, gf) ∨ (i ≤ j ∧ fs[j - i]? = some gf) := by
  intro fs
  induction fs with
  | nil => intro i acc j gf h; simp [lookupField] at h; exact .inl h
  | cons f fs ih =>
    intro i acc j gf h
    simp only [lookupField] at h
    split at h
    · rcases ih _ _ _ _ h with h' | ⟨h1, h2⟩
      · simp at h'; obtain ⟨rfl, rfl⟩ := h'; exact .inr ⟨Nat.le_refl _, by simp⟩
      · refine .inr ⟨by omega, ?_⟩
        have : j - i = (j - (i + 1)) + 1 := by omega
        rw [this]; simpa using h2
    · rcases ih _ _ _ _ h with h' | ⟨h1, h2⟩
      · exact .inl h'
      · refine .inr ⟨by omega, ?_⟩
        have : j - i = (j - (i + 1)) + 1 := by omega
        rw [this]; simpa using h2

theorem wfFields_get {fs : List GoField} (h : wfFields fs = true) {j : Nat} {gf : GoField} (hj : fs[j]? = some gf) :
    gf.type.wf = true := by
  induction fs generalizing j with
  | nil => simp at hj
  | cons f fs ih =>
    obtain ⟨a, b, c, d, t⟩ := f
    simp only [wfFields, Bool.and_eq_true] at h
    cases j with
    | zero => simp at hj; subst hj; exact h.1
    | succ j => simp at hj; exact ih h.2 hj

theorem buildWt_fields (reg : Reg) (n : Nat) (ih : BuildWtAt reg n) :
    ∀ sfs gfs cs ts, buildFields reg (n + 1) sfs (some gfs) = .ok (cs, ts) → wfFields gfs = true →
    allocOKFields cs ts = true → wtFields cs ts gfs = true := by
  intro sfs gfs cs ts hb hwf hal
  cases sfs with
  | nil => simp [buildFields] at hb; obtain ⟨rfl, rfl⟩ := hb; rfl
  | cons sf sfs =>
    simp only [buildFields] at hb
    split at hb <;> try (cases hb; done)
    rename_i c' cs' ts' hb1 hb2
    simp only [Except.ok.injEq, Prod.mk.injEq] at hb
    obtain ⟨rfl, rfl⟩ := hb
    cases hf : lookupField sf.name gfs 0 none with
    | none =>
      simp only [hf, Option.map, allocOKFields] at hal ⊢
      simp only [wtFields]
      exact ih.fields _ _ _ _ hb2 hwf hal
    | some p =>
      obtain ⟨j, gf⟩ := p
      simp only [hf, Option.map, allocOKFields, Bool.and_eq_true] at hal hb1 ⊢
      have hj : gfs[j]? = some gf := by
        rcases lookupField_spec _ _ _ _ _ _ hf with h | ⟨_, h⟩
        · cases h
        · simpa using h
      simp only [wtFields, hj, Bool.and_eq_true]
      exact ⟨ih.build _ _ _ _ hb1 (wfFields_get hwf hj) hal.1, ih.fields _ _ _ _ hb2 hwf hal.2⟩

/-- **Construction yields a well-typed codec**, at every recursion budget. -/
theorem buildWtAt (reg : Reg) (hreg : ∀ id, reg.custom id = none) (hlib : reg.lib = true) : ∀ n, BuildWtAt reg n := by
  intro n
  induction n with
  | zero =>
    constructor
    · intro s T oe c h; simp [buildCodec] at h
    · intro s T oe c h; simp [buildKind] at h
    · intro bs T oe c h; simp [buildUnion] at h
    · intro bs T oe cs h; simp [buildBranches] at h
    · intro sfs gfs cs ts h; simp [buildFields] at h
  | succ n ih =>
    exact ⟨buildWt_build reg hreg hlib n ih, buildWt_kind reg hreg n ih, buildWt_union reg n ih,
      buildWt_branches reg n ih, buildWt_fields reg n ih⟩


/-! ## `wt` codecs never get stuck and preserve the destination's type -/

/-- `o` is not `stuck`, and a successful result satisfies `P` -/
def Safe {α : Type} (o : Outcome α) (P : α → Prop) : Prop := o ≠ .stuck ∧ ∀ a, o = .ok a → P a

theorem Safe.ok {α : Type} {a : α} {P : α → Prop} (h : P a) : Safe (.ok a) P :=
  ⟨by simp, fun b hb => by cases hb; exact h⟩
theorem Safe.err {α : Type} {P : α → Prop} : Safe (.err : Outcome α) P := ⟨by simp, fun _ h => by cases h⟩
theorem Safe.panic {α : Type} {P : α → Prop} : Safe (.panic : Outcome α) P := ⟨by simp, fun _ h => by cases h⟩
theorem Safe.fuel {α : Type} {P : α → Prop} : Safe (.fuel : Outcome α) P := ⟨by simp, fun _ h => by cases h⟩

theorem Safe.bind {α β : Type} {o : Outcome α} {f : α → Outcome β} {Q : α → Prop} {P : β → Prop}
    (h1 : Safe o Q) (h2 : ∀ a, Q a → Safe (f a) P) : Safe (Outcome.bind o f) P := by
  cases o with
  | ok a => exact h2 a (h1.2 a rfl)
  | stuck => exact absurd rfl h1.1
  | err => exact Safe.err
  | panic => exact Safe.panic
  | fuel => exact Safe.fuel

theorem Safe.mono {α : Type} {o : Outcome α} {P Q : α → Prop} (h : Safe o P) (hpq : ∀ a, P a → Q a) : Safe o Q :=
  ⟨h.1, fun a ha => hpq a (h.2 a ha)⟩

theorem next_safe (l : Int) (bs : Bytes) : Safe (next l bs) (fun p => (p.1.length : Int) = l) := by
  unfold next
  split
  · exact Safe.err
  · split
    · rename_i h1 h2
      refine Safe.ok ?_
      simp only [List.length_take]
      omega
    · exact Safe.panic

theorem rdVarint_safe (bs : Bytes) : Safe (rdVarint bs) (fun _ => True) := by
  unfold rdVarint; split
  · exact Safe.ok trivial
  · exact Safe.err

theorem rdByte_safe (bs : Bytes) : Safe (rdByte bs) (fun _ => True) := by
  cases bs
  · exact Safe.err
  · exact Safe.ok trivial

theorem rdInt_safe (w : Nat) (bs : Bytes) : Safe (rdInt w bs) (fun p => inRange w p.1) := by
  unfold rdInt readInt
  split
  · rename_i p heq
    split at heq
    · split at heq
      · rename_i hr; cases heq; exact Safe.ok hr
      · cases heq
    · cases heq
  · exact Safe.err

theorem skipN_ne_stuck (l : Int) (bs : Bytes) : skipN l bs ≠ .stuck := by
  unfold skipN
  have := (next_safe l bs).1
  split <;> simp_all

theorem skipVar_ne_stuck (bs : Bytes) : skipVar bs ≠ .stuck := by
  unfold skipVar; split <;> simp

theorem skipLen_ne_stuck (bs : Bytes) : skipLen bs ≠ .stuck := by
  unfold skipLen; split
  · exact skipN_ne_stuck _ _
  · simp

theorem Outcome.bind_ne_stuck {α β : Type} {o : Outcome α} {f : α → Outcome β}
    (h1 : o ≠ .stuck) (h2 : ∀ a, o = .ok a → f a ≠ .stuck) : Outcome.bind o f ≠ .stuck := by
  cases o with
  | ok a => exact h2 a rfl
  | stuck => exact absurd rfl h1
  | _ => simp [Outcome.bind]

theorem blockCount_safe (c : Int) (r : Bytes) : Safe (blockCount c r) (fun _ => True) := by
  unfold blockCount
  split
  · simp only [Outcome.bind_eq, Outcome.pure_eq]
    exact Safe.bind (rdVarint_safe r) (fun a _ => Safe.ok trivial)
  · exact Safe.ok trivial

theorem arrayBlockCount_safe (c : Int) (r : Bytes) (len : Nat) : Safe (arrayBlockCount c r len) (fun _ => True) := by
  unfold arrayBlockCount
  refine Safe.bind (Q := fun _ => True) ?_ ?_
  · split
    · exact Safe.bind (rdVarint_safe r) (fun a _ => Safe.ok trivial)
    · exact Safe.ok trivial
  · intro a _; split
    · exact Safe.err
    · exact Safe.ok trivial


/-- `Skip` never stores through a pointer -/
structure SkipNoStuckAt (env : Env) (n : Nat) : Prop where
  skip : ∀ c bs, skip env n c bs ≠ .stuck
  skipFields : ∀ cs bs, skipFields env n cs bs ≠ .stuck
  skipBlocks : ∀ keyed item bs, skipBlocks env n keyed item bs ≠ .stuck
  skipItems : ∀ keyed item k bs, skipItems env n keyed item k bs ≠ .stuck

theorem skipNoStuckAt (env : Env) : ∀ n, SkipNoStuckAt env n := by
  intro n
  induction n with
  | zero => constructor <;> intros <;> simp [skip, skipFields, skipBlocks, skipItems]
  | succ n ih =>
    have hskip := ih.skip
    have hv := fun bs => (rdVarint_safe bs).1
    have hb := fun bs => (rdByte_safe bs).1
    constructor
    · intro c bs
      cases c <;> simp only [Avro.skip, Outcome.bind_eq, Outcome.pure_eq]
      case union cs =>
        apply Outcome.bind_ne_stuck (hv bs); intro a _
        split
        · simp
        · split
          · exact hskip _ _
          · simp
      case array item _ => exact ih.skipBlocks _ _ _
      case map val _ => exact ih.skipBlocks _ _ _
      case pointer c' => exact hskip _ _
      case record z cs ts => exact ih.skipFields _ _
      case unionOne c' nn =>
        apply Outcome.bind_ne_stuck (hb bs); intro a _
        split
        · simp
        · split
          · exact hskip _ _
          · simp
      case unionNullString o nn =>
        apply Outcome.bind_ne_stuck (hb bs); intro a _
        split
        · simp
        · split
          · exact skipLen_ne_stuck _
          · simp
      case nullw k => cases k <;> first | exact skipVar_ne_stuck _ | exact skipN_ne_stuck _ _ | exact skipLen_ne_stuck _
      case custom id => split <;> simp
      all_goals first | exact skipVar_ne_stuck _ | exact skipN_ne_stuck _ _ | exact skipLen_ne_stuck _ | simp
    · intro cs bs
      cases cs with
      | nil => simp [Avro.skipFields]
      | cons c cs =>
        simp only [Avro.skipFields, Outcome.bind_eq]
        apply Outcome.bind_ne_stuck (hskip _ _); intro _ _; exact ih.skipFields _ _
    · intro keyed item bs
      simp only [Avro.skipBlocks, Outcome.bind_eq, Outcome.pure_eq]
      apply Outcome.bind_ne_stuck (hv bs); intro a _
      split
      · simp
      · split
        · apply Outcome.bind_ne_stuck (hv _); intro b _
          apply Outcome.bind_ne_stuck (skipN_ne_stuck _ _); intro _ _; exact ih.skipBlocks _ _ _
        · apply Outcome.bind_ne_stuck (ih.skipItems _ _ _ _); intro _ _; exact ih.skipBlocks _ _ _
    · intro keyed item k bs
      cases k with
      | zero => simp [Avro.skipItems]
      | succ k =>
        simp only [Avro.skipItems, Outcome.bind_eq, Outcome.pure_eq]
        split
        · apply Outcome.bind_ne_stuck (skipLen_ne_stuck _); intro _ _
          apply Outcome.bind_ne_stuck (hskip _ _); intro _ _; exact ih.skipItems _ _ _ _
        · simp only [Outcome.bind_ok']
          apply Outcome.bind_ne_stuck (hskip _ _); intro _ _; exact ih.skipItems _ _ _ _

theorem hasTy_strip (T : GoType) (v : GoVal) : hasTy T v = hasTy T.strip v := by
  cases T <;> simp [GoType.strip, hasTy]

theorem hasTyFields_get {fs : List GoField} {vals : List GoVal} (h : hasTyFields fs vals = true) {i : Nat} {f : GoField}
    (hf : fs[i]? = some f) : ∃ cur, vals[i]? = some cur ∧ hasTy f.type cur = true := by
  induction fs generalizing vals i with
  | nil => simp at hf
  | cons g fs ih =>
    obtain ⟨a, b, c, d, t⟩ := g
    cases vals with
    | nil => simp [hasTyFields] at h
    | cons v vals =>
      simp only [hasTyFields, Bool.and_eq_true] at h
      cases i with
      | zero => simp at hf; subst hf; exact ⟨v, by simp, h.1⟩
      | succ i => simp at hf; simpa using ih h.2 hf

theorem hasTyFields_set {fs : List GoField} {vals : List GoVal} (h : hasTyFields fs vals = true) {i : Nat} {f : GoField}
    (hf : fs[i]? = some f) {v : GoVal} (hv : hasTy f.type v = true) : hasTyFields fs (listSet vals i v) = true := by
  induction fs generalizing vals i with
  | nil => simp at hf
  | cons g fs ih =>
    obtain ⟨a, b, c, d, t⟩ := g
    cases vals with
    | nil => simp [hasTyFields] at h
    | cons w vals =>
      simp only [hasTyFields, Bool.and_eq_true] at h
      cases i with
      | zero => simp at hf; subst hf; simp [listSet, hasTyFields, h.2]; exact hv
      | succ i => simp at hf; simp [listSet, hasTyFields, h.1, ih h.2 hf]

theorem mapAssign_spec (p : GoVal → Bool) (k : Bytes) (v : GoVal) (hv : p v = true) :
    ∀ (ks : List Bytes) (vs : List GoVal), ks.length = vs.length → vs.all p = true →
    (mapAssign k v ks vs).1.length = (mapAssign k v ks vs).2.length ∧ (mapAssign k v ks vs).2.all p = true := by
  intro ks
  induction ks with
  | nil => intro vs hl ha; simp [mapAssign, hv]
  | cons k' ks ih =>
    intro vs hl ha
    cases vs with
    | nil => simp at hl
    | cons v' vs =>
      simp only [List.length_cons, Nat.add_right_cancel_iff] at hl
      simp only [List.all_cons, Bool.and_eq_true] at ha
      simp only [mapAssign]
      split
      · simp [hl, hv, ha.2]
      · have := ih vs hl ha.2
        simp [this.1, this.2, ha.1]

theorem wtAll_get {cs : List Codec} {T : GoType} (h : wtAll cs T = true) {i : Nat} {c : Codec} (hc : cs[i]? = some c) :
    wt c T = true := by
  induction cs generalizing i with
  | nil => simp at hc
  | cons d cs ih =>
    simp only [wtAll, Bool.and_eq_true] at h
    cases i with
    | zero => simp at hc; subst hc; exact h.1
    | succ i => simp at hc; exact ih h.2 hc

theorem allocOKAll_get {cs : List Codec} (h : allocOKAll cs = true) {i : Nat} {c : Codec} (hc : cs[i]? = some c) :
    allocOK c = true := by
  induction cs generalizing i with
  | nil => simp at hc
  | cons d cs ih =>
    simp only [allocOKAll, Bool.and_eq_true] at h
    cases i with
    | zero => simp at hc; subst hc; exact h.1
    | succ i => simp at hc; exact ih h.2 hc



/-- extracts `T.strip = …` facts from a `wt` hypothesis -/
syntax "wt_inv" ident : tactic
macro_rules
  | `(tactic| wt_inv $h) => `(tactic| (simp only [wt] at $h:ident; split at $h:ident <;> first | (cases $h:ident; done) | skip))

mutual
theorem wt_zero (env : Env) : (c : Codec) → (T : GoType) → wt c T = true → allocs c = true →
    hasTy T (Codec.zero env c) = true
  | .null, _, _, ha => by simp [allocs] at ha
  | .bool _, T, hw, _ => by wt_inv hw; rename_i h; rw [hasTy_strip, h]; simp [Codec.zero, hasTy]
  | .int w _, T, hw, _ => by wt_inv hw; rename_i h; rw [hasTy_strip, h]; simp [Codec.zero, hasTy, inRange_zero]
  | .float _, T, hw, _ => by wt_inv hw; rename_i h; rw [hasTy_strip, h]; simp [Codec.zero, hasTy]
  | .double _, T, hw, _ => by wt_inv hw; rename_i h; rw [hasTy_strip, h]; simp [Codec.zero, hasTy]
  | .f32double _, T, hw, _ => by wt_inv hw; rename_i h; rw [hasTy_strip, h]; simp [Codec.zero, hasTy]
  | .bytes _, T, hw, _ => by wt_inv hw; rename_i h; rw [hasTy_strip, h]; simp [Codec.zero, hasTy, hw]
  | .string _, T, hw, _ => by wt_inv hw; rename_i h; rw [hasTy_strip, h]; simp [Codec.zero, hasTy]
  | .fixed n, T, hw, _ => by
    wt_inv hw; rename_i m e h; rw [hasTy_strip, h]
    simp only [Bool.and_eq_true, beq_iff_eq] at hw
    simp [Codec.zero, hasTy, hw.1, ← hw.2]
  | .array _ _, T, hw, _ => by
    wt_inv hw; rename_i h; rw [hasTy_strip, h]
    simp only [Bool.and_eq_true, Bool.not_eq_true'] at hw
    simp [Codec.zero, hasTy, hw.1]
  | .map _ _, T, hw, _ => by wt_inv hw; rename_i h; rw [hasTy_strip, h]; simp [Codec.zero, hasTy]
  | .pointer _, T, hw, _ => by wt_inv hw; rename_i h; rw [hasTy_strip, h]; simp [Codec.zero, hasTy]
  | .record z _ _, T, hw, _ => by
    wt_inv hw; rename_i h; rw [hasTy_strip, h]
    simp only [Bool.and_eq_true] at hw
    simp [Codec.zero, hasTy, hw.1]
  | .union cs, T, hw, ha => by
    simp only [wt] at hw; simp only [allocs] at ha
    simp only [Codec.zero]; exact wtAll_zeroU env cs T hw ha
  | .unionOne c _, T, hw, ha => by
    simp only [wt] at hw; simp only [allocs] at ha
    simp only [Codec.zero]; exact wt_zero env c T hw ha
  | .unionNullString _ _, T, hw, _ => by wt_inv hw; rename_i h; rw [hasTy_strip, h]; simp [Codec.zero, hasTy]
  | .timeString, T, hw, _ => by wt_inv hw; rename_i h; rw [hasTy_strip, h]; simp [Codec.zero, hasTy]
  | .timeLong _, T, hw, _ => by wt_inv hw; rename_i h; rw [hasTy_strip, h]; simp [Codec.zero, hasTy]
  | .date, T, hw, _ => by wt_inv hw; rename_i h; rw [hasTy_strip, h]; simp [Codec.zero, hasTy]
  | .nullw k, T, hw, _ => by
    wt_inv hw; rename_i k' h; rw [hasTy_strip, h]
    cases k <;> cases k' <;> simp at hw <;> simp [Codec.zero, hasTy, nullInnerOK, inRange_zero]
  | .custom _, _, hw, _ => by simp [wt] at hw
theorem wtAll_zeroU (env : Env) : (cs : List Codec) → (T : GoType) → wtAll cs T = true → allocsU cs = true →
    hasTy T (zeroUnion env cs) = true
  | [], _, _, ha => by simp [allocsU] at ha
  | c :: cs, T, hw, ha => by
    simp only [wtAll, Bool.and_eq_true] at hw
    cases c
    case null => simp only [allocsU] at ha; simp only [zeroUnion]; exact wtAll_zeroU env cs T hw.2 ha
    all_goals (simp only [allocsU] at ha; simp only [zeroUnion]; exact wt_zero env _ T hw.1 ha)
end


/-- the conversion `null.Float`'s codec applies after reading a float32 -/
def nullPost (env : Env) (k : NullKind) (v : GoVal) : GoVal :=
  match k, v with
  | .float, .f32 b => .f64 (env.widen b)
  | _, x => x

theorem nullInner_safe (env : Env) (k k' : NullKind) (hk : (k == k' || (k == .float && k' == .double) || (k == .double && k' == .float)) = true)
    (n : Nat) (bs : Bytes) (inner : GoVal) (hi : nullInnerOK k' inner = true) :
    Safe (read env n (nullInner k) bs inner) (fun p => nullInnerOK k' (nullPost env k p.1) = true) := by
  cases n with
  | zero => simp only [read]; exact Safe.fuel
  | succ n =>
    cases k <;> cases k' <;> simp at hk <;> simp only [nullInner, read, Outcome.bind_eq, Outcome.pure_eq]
    · exact Safe.bind (rdInt_safe 64 bs) (fun a ha => Safe.ok (by simpa [nullPost, nullInnerOK] using ha))
    · exact Safe.bind (rdByte_safe bs) (fun a _ => Safe.ok (by simp [nullPost, nullInnerOK]))
    · exact Safe.bind (next_safe 8 bs) (fun a _ => Safe.ok (by simp [nullPost, nullInnerOK]))
    · exact Safe.bind (next_safe 8 bs) (fun a _ => Safe.ok (by simp [nullPost, nullInnerOK]))
    · exact Safe.bind (next_safe 4 bs) (fun a _ => Safe.ok (by simp [nullPost, nullInnerOK]))
    · exact Safe.bind (next_safe 4 bs) (fun a _ => Safe.ok (by simp [nullPost, nullInnerOK]))
    · refine Safe.bind (rdVarint_safe bs) (fun a _ => ?_)
      split
      · exact Safe.err
      · exact Safe.bind (next_safe _ _) (fun b _ => Safe.ok (by simp [nullPost, nullInnerOK]))
    · refine Safe.bind (rdVarint_safe bs) (fun a _ => ?_)
      split
      · exact Safe.ok (by simpa [nullPost] using hi)
      · refine Safe.bind (next_safe _ _) (fun b _ => ?_)
        split
        · exact Safe.ok (by simp [nullPost, nullInnerOK])
        · exact Safe.err



/-- all six mutually recursive read functions at step budget `n` -/
structure SoundAt (env : Env) (n : Nat) : Prop where
  read : ∀ c T bs dst, wt c T = true → allocOK c = true → hasTy T dst = true →
    Safe (read env n c bs dst) (fun p => hasTy T p.1 = true)
  readFields : ∀ cs ts fs bs vals, wtFields cs ts fs = true → allocOKFields cs ts = true → hasTyFields fs vals = true →
    Safe (readFields env n cs ts bs vals) (fun p => hasTyFields fs p.1 = true)
  readArrayBlocks : ∀ item e bs acc, wt item e = true → allocs item = true → allocOK item = true →
    acc.all (hasTy e) = true → Safe (readArrayBlocks env n item bs acc) (fun p => p.1.all (hasTy e) = true)
  readItems : ∀ item e k bs acc, wt item e = true → allocs item = true → allocOK item = true →
    acc.all (hasTy e) = true → Safe (readItems env n item k bs acc) (fun p => p.1.all (hasTy e) = true)
  readMapBlocks : ∀ val e bs ks vs, wt val e = true → allocs val = true → allocOK val = true →
    ks.length = vs.length → vs.all (hasTy e) = true →
    Safe (readMapBlocks env n val bs ks vs) (fun p => p.1.1.length = p.1.2.length ∧ p.1.2.all (hasTy e) = true)
  readMapItems : ∀ val e k bs ks vs, wt val e = true → allocs val = true → allocOK val = true →
    ks.length = vs.length → vs.all (hasTy e) = true →
    Safe (readMapItems env n val k bs ks vs) (fun p => p.1.1.length = p.1.2.length ∧ p.1.2.all (hasTy e) = true)

theorem sound_read (env : Env) (n : Nat) (ih : SoundAt env n) :
    ∀ c T bs dst, wt c T = true → allocOK c = true → hasTy T dst = true →
    Safe (Avro.read env (n + 1) c bs dst) (fun p => hasTy T p.1 = true) := by
  intro c T bs dst hw hal hd
  cases c <;> simp only [Avro.read, Outcome.bind_eq, Outcome.pure_eq]
  case null => exact Safe.ok hd
  case bool o =>
    wt_inv hw; rename_i h
    exact Safe.bind (rdByte_safe bs) (fun a _ => Safe.ok (by rw [hasTy_strip, h]; simp [hasTy]))
  case int w o =>
    wt_inv hw; rename_i w' h
    simp only [beq_iff_eq] at hw; subst hw
    exact Safe.bind (rdInt_safe w bs) (fun a ha => Safe.ok (by rw [hasTy_strip, h]; simpa [hasTy] using ha))
  case float o =>
    wt_inv hw; rename_i h
    exact Safe.bind (next_safe 4 bs) (fun a _ => Safe.ok (by rw [hasTy_strip, h]; simp [hasTy]))
  case double o =>
    wt_inv hw; rename_i h
    exact Safe.bind (next_safe 8 bs) (fun a _ => Safe.ok (by rw [hasTy_strip, h]; simp [hasTy]))
  case f32double o =>
    wt_inv hw; rename_i h
    exact Safe.bind (next_safe 8 bs) (fun a _ => Safe.ok (by rw [hasTy_strip, h]; simp [hasTy]))
  case bytes o =>
    wt_inv hw; rename_i e h
    refine Safe.bind (rdVarint_safe bs) (fun a _ => ?_)
    split
    · exact Safe.ok hd
    · exact Safe.bind (next_safe _ _) (fun b _ => Safe.ok (by rw [hasTy_strip, h]; simp [hasTy, hw]))
  case string o =>
    wt_inv hw; rename_i h
    refine Safe.bind (rdVarint_safe bs) (fun a _ => ?_)
    split
    · exact Safe.err
    · exact Safe.bind (next_safe _ _) (fun b _ => Safe.ok (by rw [hasTy_strip, h]; simp [hasTy]))
  case fixed k =>
    wt_inv hw; rename_i m e h
    simp only [Bool.and_eq_true, beq_iff_eq] at hw
    refine Safe.bind (next_safe k bs) (fun b hb => Safe.ok ?_)
    rw [hasTy_strip, h]
    have : b.1.length = m := by have := hw.2; omega
    simp [hasTy, hw.1, this]
  case array item o =>
    wt_inv hw; rename_i e h
    simp only [Bool.and_eq_true, Bool.not_eq_true'] at hw
    simp only [allocOK, Bool.and_eq_true] at hal
    rw [hasTy_strip, h] at hd
    cases dst <;> simp only [hasTy, hw.1] at hd <;> try (cases hd; done)
    rename_i items
    simp only [Bool.not_false, Bool.true_and] at hd
    refine Safe.bind (ih.readArrayBlocks item e bs items hw.2 hal.1 hal.2 hd) (fun a ha => Safe.ok ?_)
    rw [hasTy_strip, h]; simp only [hasTy, hw.1]; simpa using ha
  case map val o =>
    wt_inv hw; rename_i k e h
    simp only [Bool.and_eq_true] at hw
    simp only [allocOK, Bool.and_eq_true] at hal
    rw [hasTy_strip, h] at hd
    cases dst <;> simp only [hasTy] at hd <;> try (cases hd; done)
    rename_i nl ks vs
    simp only [Bool.and_eq_true, beq_iff_eq] at hd
    refine Safe.bind (ih.readMapBlocks val e bs ks vs hw.2 hal.1 hal.2 hd.1.2 hd.2) (fun a ha => Safe.ok ?_)
    rw [hasTy_strip, h]; simp only [hasTy, hw.1, Bool.true_or, Bool.true_and, Bool.and_eq_true, beq_iff_eq]
    exact ha
  case pointer c' =>
    wt_inv hw; rename_i e h
    simp only [allocOK, Bool.and_eq_true] at hal
    rw [hasTy_strip, h] at hd
    cases dst <;> simp only [hasTy] at hd <;> try (cases hd; done)
    rename_i tgt
    cases tgt with
    | none =>
      refine Safe.bind (ih.read c' e bs _ hw hal.2 (wt_zero env c' e hw hal.1)) (fun a ha => Safe.ok ?_)
      rw [hasTy_strip, h]; simpa [hasTy] using ha
    | some x =>
      refine Safe.bind (ih.read c' e bs x hw hal.2 hd) (fun a ha => Safe.ok ?_)
      rw [hasTy_strip, h]; simpa [hasTy] using ha
  case record z cs ts =>
    wt_inv hw; rename_i nm pk fs h
    simp only [Bool.and_eq_true] at hw
    simp only [allocOK] at hal
    rw [hasTy_strip, h] at hd
    cases dst <;> simp only [hasTy] at hd <;> try (cases hd; done)
    rename_i vals
    refine Safe.bind (ih.readFields cs ts fs bs vals hw.2 hal hd) (fun a ha => Safe.ok ?_)
    rw [hasTy_strip, h]; simpa [hasTy] using ha
  case union cs =>
    simp only [wt] at hw; simp only [allocOK] at hal
    refine Safe.bind (rdVarint_safe bs) (fun a _ => ?_)
    split
    · exact Safe.err
    · split
      · rename_i c' hc'
        exact ih.read c' T _ dst (wtAll_get hw hc') (allocOKAll_get hal hc') hd
      · exact Safe.panic
  case unionOne c' nn =>
    simp only [wt] at hw; simp only [allocOK] at hal
    refine Safe.bind (rdByte_safe bs) (fun a _ => ?_)
    split
    · exact Safe.err
    · split
      · exact ih.read c' T _ dst hw hal hd
      · exact Safe.ok hd
  case unionNullString o nn =>
    refine Safe.bind (rdByte_safe bs) (fun a _ => ?_)
    split
    · exact Safe.err
    · split
      · exact ih.read (.string false) T _ dst (by simpa [wt] using hw) rfl hd
      · exact Safe.ok hd
  case timeString =>
    wt_inv hw; rename_i h
    refine Safe.bind (rdVarint_safe bs) (fun a _ => ?_)
    split
    · exact Safe.ok hd
    · refine Safe.bind (next_safe _ _) (fun b _ => ?_)
      split
      · exact Safe.ok (by rw [hasTy_strip, h]; simp [hasTy])
      · exact Safe.err
  case timeLong mult =>
    wt_inv hw; rename_i h
    exact Safe.bind (rdInt_safe 64 bs) (fun a _ => Safe.ok (by rw [hasTy_strip, h]; simp [hasTy]))
  case date =>
    wt_inv hw; rename_i h
    exact Safe.bind (rdInt_safe 32 bs) (fun a _ => Safe.ok (by rw [hasTy_strip, h]; simp [hasTy]))
  case nullw k =>
    wt_inv hw; rename_i k' h
    rw [hasTy_strip, h] at hd
    cases dst <;> simp only [hasTy] at hd <;> try (cases hd; done)
    rename_i valid inner
    refine Safe.bind (nullInner_safe env k k' hw n bs inner hd) (fun a ha => Safe.ok ?_)
    rw [hasTy_strip, h]; simp only [hasTy]
    obtain ⟨v, r⟩ := a
    simp only [nullPost] at ha
    cases k <;> cases v <;> exact ha
  case custom id => simp [wt] at hw


theorem sound_readFields (env : Env) (n : Nat) (ih : SoundAt env n) :
    ∀ cs ts fs bs vals, wtFields cs ts fs = true → allocOKFields cs ts = true → hasTyFields fs vals = true →
    Safe (Avro.readFields env (n + 1) cs ts bs vals) (fun p => hasTyFields fs p.1 = true) := by
  intro cs ts fs bs vals hw hal hd
  cases cs with
  | nil => simp only [Avro.readFields]; exact Safe.ok hd
  | cons c cs =>
    cases ts with
    | nil => simp [wtFields] at hw
    | cons t ts =>
      cases t with
      | none =>
        simp only [wtFields] at hw; simp only [allocOKFields] at hal
        simp only [Avro.readFields, Outcome.bind_eq]
        refine Safe.bind (Q := fun _ => True) ⟨(skipNoStuckAt env n).skip c bs, fun _ _ => trivial⟩ (fun r _ => ?_)
        exact ih.readFields cs ts fs r vals hw hal hd
      | some i =>
        simp only [wtFields, Bool.and_eq_true] at hw; simp only [allocOKFields, Bool.and_eq_true] at hal
        obtain ⟨hw1, hw2⟩ := hw
        split at hw1
        · rename_i f hf
          obtain ⟨cur, hcur, hct⟩ := hasTyFields_get hd hf
          simp only [Avro.readFields, hcur, Outcome.bind_eq]
          refine Safe.bind (ih.read c f.type bs cur hw1 hal.1 hct) (fun a ha => ?_)
          exact ih.readFields cs ts fs _ _ hw2 hal.2 (hasTyFields_set hd hf ha)
        · cases hw1

theorem sound_readItems (env : Env) (n : Nat) (ih : SoundAt env n) :
    ∀ item e k bs acc, wt item e = true → allocs item = true → allocOK item = true →
    acc.all (hasTy e) = true → Safe (Avro.readItems env (n + 1) item k bs acc) (fun p => p.1.all (hasTy e) = true) := by
  intro item e k bs acc hw ha hal hd
  cases k with
  | zero => simp only [Avro.readItems]; exact Safe.ok hd
  | succ k =>
    simp only [Avro.readItems, Outcome.bind_eq]
    refine Safe.bind (ih.read item e bs _ hw hal (wt_zero env item e hw ha)) (fun a hv => ?_)
    exact ih.readItems item e k _ _ hw ha hal (by simp [List.all_append, hd, hv])

theorem sound_readArrayBlocks (env : Env) (n : Nat) (ih : SoundAt env n) :
    ∀ item e bs acc, wt item e = true → allocs item = true → allocOK item = true →
    acc.all (hasTy e) = true → Safe (Avro.readArrayBlocks env (n + 1) item bs acc) (fun p => p.1.all (hasTy e) = true) := by
  intro item e bs acc hw ha hal hd
  simp only [Avro.readArrayBlocks, Outcome.bind_eq, Outcome.pure_eq]
  refine Safe.bind (rdVarint_safe bs) (fun a _ => ?_)
  split
  · exact Safe.ok hd
  · refine Safe.bind (arrayBlockCount_safe _ _ _) (fun b _ => ?_)
    refine Safe.bind (ih.readItems item e _ _ acc hw ha hal hd) (fun c hc => ?_)
    exact ih.readArrayBlocks item e _ _ hw ha hal hc

theorem sound_readMapItems (env : Env) (n : Nat) (ih : SoundAt env n) :
    ∀ val e k bs ks vs, wt val e = true → allocs val = true → allocOK val = true →
    ks.length = vs.length → vs.all (hasTy e) = true →
    Safe (Avro.readMapItems env (n + 1) val k bs ks vs) (fun p => p.1.1.length = p.1.2.length ∧ p.1.2.all (hasTy e) = true) := by
  intro val e k bs ks vs hw ha hal hl hd
  cases k with
  | zero => simp only [Avro.readMapItems]; exact Safe.ok ⟨hl, hd⟩
  | succ k =>
    simp only [Avro.readMapItems, Outcome.bind_eq]
    refine Safe.bind (rdVarint_safe bs) (fun a _ => ?_)
    split
    · exact Safe.err
    · refine Safe.bind (next_safe _ _) (fun b _ => ?_)
      refine Safe.bind (ih.read val e _ _ hw hal (wt_zero env val e hw ha)) (fun c hv => ?_)
      have := mapAssign_spec (hasTy e) b.1 c.1 hv ks vs hl hd
      exact ih.readMapItems val e k _ _ _ hw ha hal this.1 this.2

theorem sound_readMapBlocks (env : Env) (n : Nat) (ih : SoundAt env n) :
    ∀ val e bs ks vs, wt val e = true → allocs val = true → allocOK val = true →
    ks.length = vs.length → vs.all (hasTy e) = true →
    Safe (Avro.readMapBlocks env (n + 1) val bs ks vs) (fun p => p.1.1.length = p.1.2.length ∧ p.1.2.all (hasTy e) = true) := by
  intro val e bs ks vs hw ha hal hl hd
  simp only [Avro.readMapBlocks, Outcome.bind_eq, Outcome.pure_eq]
  refine Safe.bind (rdVarint_safe bs) (fun a _ => ?_)
  split
  · exact Safe.ok ⟨hl, hd⟩
  · refine Safe.bind (blockCount_safe _ _) (fun b _ => ?_)
    refine Safe.bind (ih.readMapItems val e _ _ ks vs hw ha hal hl hd) (fun c hc => ?_)
    exact ih.readMapBlocks val e _ _ _ hw ha hal hc.1 hc.2

/-- **Well-typed codecs are safe**, at every step budget. -/
theorem soundAt (env : Env) : ∀ n, SoundAt env n := by
  intro n
  induction n with
  | zero =>
    constructor <;> intros <;>
      simp only [Avro.read, Avro.readFields, Avro.readArrayBlocks, Avro.readItems, Avro.readMapBlocks, Avro.readMapItems] <;>
      exact Safe.fuel
  | succ n ih =>
    exact ⟨sound_read env n ih, sound_readFields env n ih, sound_readArrayBlocks env n ih, sound_readItems env n ih,
      sound_readMapBlocks env n ih, sound_readMapItems env n ih⟩


end Avro
