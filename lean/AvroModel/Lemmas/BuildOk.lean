import AvroModel.Sem
import AvroModel.CodecFor
/-!
Successful codec construction yields a codec of the right shape for the schema:
`buildCodec reg n s typ oe = ok c → classify s = some a → CodecFor c a`
(for the library's own registrations; user-registered builders are abstract and handled in C20).
This ties the codec theorems (C03, C04, C02/C13), stated under `CodecFor`, to the model of build.go.
-/
namespace Avro

structure BuildOkAt (reg : Reg) (n : Nat) : Prop where
  build : ∀ s typ oe c, buildCodec reg n s typ oe = .ok c → ∀ fa a, classify fa s = some a → CodecFor c a
  kind : ∀ s typ oe c, buildKind reg n s typ oe = .ok c → ∀ fa a, classify fa s = some a → CodecFor c a
  union : ∀ bs typ oe c, buildUnion reg n bs typ oe = .ok c → ∀ fa as, classifyBranches fa bs = some as →
    CodecFor c (.union as)
  branches : ∀ bs typ oe cs, buildBranches reg n bs typ oe = .ok cs → ∀ fa as, classifyBranches fa bs = some as →
    CodecsFor cs as
  fields : ∀ sfs gfs cs ts, buildFields reg n sfs gfs = .ok (cs, ts) → ∀ fa ns as, classifyFields fa sfs = some (ns, as) →
    CodecsFor cs as ∧ ts.length = cs.length

theorem classify_succ_of (fa : Nat) (s : Schema) (a : ASchema) (h : classify fa s = some a) :
    ∃ fa', fa = fa' + 1 := by
  cases fa with
  | zero => simp [classify] at h
  | succ fa' => exact ⟨fa', rfl⟩

theorem buildTime_ok {s : Schema} {c : Codec} (h : buildTime s = .ok c) {fa : Nat} {a : ASchema}
    (hc : classify fa s = some a) : CodecFor c a := by
  obtain ⟨fa', rfl⟩ := classify_succ_of _ _ _ hc
  unfold buildTime at h
  by_cases h1 : s.type = "string"
  · simp [h1] at h; subst h
    simp [classify, h1] at hc; subst hc; exact CodecFor.timeString
  · by_cases h2 : s.type = "long"
    · simp [h2] at h; subst h
      simp [classify, h2] at hc; subst hc; exact CodecFor.timeLong
    · by_cases h3 : s.type = "int"
      · simp [h3] at h
        simp [classify, h3] at hc; subst hc
        split at h
        · split at h
          · cases h; exact CodecFor.date
          · cases h
        · cases h
      · simp [h1, h2, h3] at h

theorem buildNull_ok {k : NullKind} {s : Schema} {c : Codec} (h : buildNull k s = .ok c) {fa : Nat} {a : ASchema}
    (hc : classify fa s = some a) : CodecFor c a := by
  obtain ⟨fa', rfl⟩ := classify_succ_of _ _ _ hc
  unfold buildNull at h
  cases k <;> simp only at h
  · -- int
    by_cases h1 : s.type = "long"
    · simp [h1] at h; subst h; simp [classify, h1] at hc; subst hc; exact CodecFor.nullInt
    · by_cases h2 : s.type = "int"
      · simp [h2] at h; subst h; simp [classify, h2] at hc; subst hc; exact CodecFor.nullIntI
      · simp [h1, h2] at h
  · by_cases h1 : s.type = "boolean"
    · simp [h1] at h; subst h; simp [classify, h1] at hc; subst hc; exact CodecFor.nullBool
    · simp [h1] at h
  · by_cases h1 : s.type = "double"
    · simp [h1] at h; subst h; simp [classify, h1] at hc; subst hc; exact CodecFor.nullDouble
    · by_cases h2 : s.type = "float"
      · simp [h2] at h; subst h; simp [classify, h2] at hc; subst hc; exact CodecFor.nullFloat
      · simp [h1, h2] at h
  · by_cases h1 : s.type = "double"
    · simp [h1] at h; subst h; simp [classify, h1] at hc; subst hc; exact CodecFor.nullDouble
    · by_cases h2 : s.type = "float"
      · simp [h2] at h; subst h; simp [classify, h2] at hc; subst hc; exact CodecFor.nullFloat
      · simp [h1, h2] at h
  · by_cases h1 : s.type = "string"
    · simp [h1] at h; subst h; simp [classify, h1] at hc; subst hc; exact CodecFor.nullString
    · simp [h1] at h
  · by_cases h1 : s.type = "string"
    · simp [h1] at h; subst h; simp [classify, h1] at hc; subst hc; exact CodecFor.nullTime
    · simp [h1] at h

theorem regLookup_ok {reg : Reg} (hreg : ∀ id, reg.custom id = none) {t : GoType} {b : Schema → Except String Codec}
    (h : regLookup reg t = some b) {s : Schema} {c : Codec} (hb : b s = .ok c) {fa : Nat} {a : ASchema}
    (hc : classify fa s = some a) : CodecFor c a := by
  cases t <;> simp only [regLookup] at h <;> try (cases h; done)
  · split at h
    · cases h; exact buildTime_ok hb hc
    · cases h
  · split at h
    · cases h; exact buildNull_ok hb hc
    · cases h
  · rename_i id u
    rw [hreg id] at h; cases h

theorem buildLong_ok {k : Option GoType} {oe : Bool} {c : Codec} (h : buildLong k oe = .ok c) : ∃ w, c = .int w oe := by
  unfold buildLong at h
  split at h <;> first | (cases h; exact ⟨_, rfl⟩) | cases h

theorem buildOk_kind (reg : Reg) (n : Nat) (ih : BuildOkAt reg n) :
    ∀ s typ oe c, buildKind reg (n + 1) s typ oe = .ok c → ∀ fa a, classify fa s = some a → CodecFor c a := by
  intro s typ oe c hb fa a hc
  obtain ⟨fa', rfl⟩ := classify_succ_of _ _ _ hc
  simp only [buildKind] at hb
  simp only [classify] at hc
  by_cases h1 : s.type = "null"
  · simp [h1] at hb hc; subst hb; subst hc; exact CodecFor.null
  by_cases h2 : s.type = "boolean"
  · simp [h2] at hb hc; subst hc
    split at hb <;> first | (cases hb; exact CodecFor.bool) | cases hb
  by_cases h3 : s.type = "int"
  · simp [h3] at hb hc; subst hc
    obtain ⟨w, rfl⟩ := buildLong_ok hb; exact CodecFor.intI
  by_cases h4 : s.type = "long"
  · simp [h4] at hb hc; subst hc
    obtain ⟨w, rfl⟩ := buildLong_ok hb; exact CodecFor.intL
  by_cases h5 : s.type = "float"
  · simp [h5] at hb hc; subst hc
    split at hb <;> first | (cases hb; exact CodecFor.float) | cases hb
  by_cases h6 : s.type = "double"
  · simp [h6] at hb hc; subst hc
    split at hb <;> first | (cases hb; exact CodecFor.double) | (cases hb; exact CodecFor.f32double) | cases hb
  by_cases h7 : s.type = "bytes"
  · simp [h7] at hb hc; subst hc
    split at hb <;> first | (cases hb; exact CodecFor.bytes) | cases hb
  by_cases h8 : s.type = "string"
  · simp [h8] at hb hc; subst hc
    split at hb <;> first | (cases hb; exact CodecFor.string) | cases hb
  by_cases h9 : s.type = "record"
  · simp [h9] at hb hc
    cases ho : s.object with
    | none => simp [ho] at hb
    | some o =>
      simp only [ho] at hb hc
      cases hcf : classifyFields fa' o.fields with
      | none => simp [hcf] at hc
      | some nas =>
        obtain ⟨ns, as⟩ := nas
        simp [hcf] at hc; subst hc
        split at hb
        all_goals (
          first
          | (split at hb
             · rename_i cs ts hbf; cases hb
               obtain ⟨h1', h2'⟩ := ih.fields _ _ _ _ hbf _ _ _ hcf
               exact CodecFor.record h1' h2'
             · cases hb)
          | cases hb)
  by_cases h10 : s.type = "enum"
  · simp [h10] at hb
  by_cases h11 : s.type = "array"
  · simp [h11] at hb hc
    cases ho : s.object with
    | none => simp [ho] at hb
    | some o =>
      simp only [ho] at hb hc
      cases hci : classify fa' o.items with
      | none => simp [hci] at hc
      | some ai =>
        simp [hci] at hc; subst hc
        split at hb
        all_goals (
          first
          | (split at hb
             · rename_i ci hbi; cases hb
               exact CodecFor.array (ih.build _ _ _ _ hbi _ _ hci)
             · cases hb)
          | cases hb)
  by_cases h12 : s.type = "map"
  · simp [h12] at hb hc
    cases ho : s.object with
    | none => simp [ho] at hb
    | some o =>
      simp only [ho] at hb hc
      cases hci : classify fa' o.values with
      | none => simp [hci] at hc
      | some ai =>
        simp [hci] at hc; subst hc
        split at hb
        · split at hb
          · rename_i ci hbi; cases hb
            exact CodecFor.map (ih.build _ _ _ _ hbi _ _ hci)
          · cases hb
        · split at hb
          · simp only [if_true] at hb
            split at hb
            · rename_i ci hbi; cases hb
              exact CodecFor.map (ih.build _ _ _ _ hbi _ _ hci)
            · cases hb
          · simp at hb
        · cases hb
  by_cases h13 : s.type = "union"
  · simp [h13] at hb hc
    cases hcb : classifyBranches fa' s.union with
    | none => simp [hcb] at hc
    | some as =>
      simp [hcb] at hc; subst hc
      exact ih.union _ _ _ _ hb _ _ hcb
  by_cases h14 : s.type = "fixed"
  · simp [h14] at hb hc
    cases ho : s.object with
    | none => simp [ho] at hb
    | some o =>
      simp only [ho] at hb hc
      split at hc
      · cases hc
      · rename_i hsz
        cases hc
        have hcast : o.size = ((o.size.toNat : Nat) : Int) := by omega
        split at hb
        · cases hb; rw [hcast]; exact CodecFor.fixed
        · split at hb
          · cases hb; rw [hcast]; exact CodecFor.fixed
          · cases hb
        · cases hb
  simp [h1, h2, h3, h4, h5, h6, h7, h8, h9, h10, h11, h12, h13, h14] at hb

theorem buildOk_build (reg : Reg) (hreg : ∀ id, reg.custom id = none) (n : Nat) (ih : BuildOkAt reg n) :
    ∀ s typ oe c, buildCodec reg (n + 1) s typ oe = .ok c → ∀ fa a, classify fa s = some a → CodecFor c a := by
  intro s typ oe c hb fa a hc
  simp only [buildCodec] at hb
  split at hb
  · split at hb
    · -- pointer
      split at hb
      · rename_i c' hb'; cases hb
        exact CodecFor.pointer (ih.build _ _ _ _ hb' _ _ hc)
      · cases hb
    · split at hb
      · rename_i builder hl
        exact regLookup_ok hreg hl hb hc
      · exact ih.kind _ _ _ _ hb _ _ hc
    · exact ih.kind _ _ _ _ hb _ _ hc
  · exact ih.kind _ _ _ _ hb _ _ hc

theorem classifyBranches_succ_of (fa : Nat) (bs : List Schema) (as : List ASchema) (h : classifyBranches fa bs = some as) :
    ∃ fa', fa = fa' + 1 := by
  cases fa with
  | zero => simp [classifyBranches] at h
  | succ fa' => exact ⟨fa', rfl⟩

theorem classifyFields_succ_of (fa : Nat) (fs : List SchemaField) (r : List String × List ASchema) (h : classifyFields fa fs = some r) :
    ∃ fa', fa = fa' + 1 := by
  cases fa with
  | zero => simp [classifyFields] at h
  | succ fa' => exact ⟨fa', rfl⟩

theorem classify_null_of {fa : Nat} {s : Schema} {a : ASchema} (h : classify fa s = some a) (hn : s.type = "null") : a = .null := by
  obtain ⟨fa', rfl⟩ := classify_succ_of _ _ _ h
  simp [classify, hn] at h; exact h.symm

theorem classify_string_of {fa : Nat} {s : Schema} {a : ASchema} (h : classify fa s = some a) (hn : s.type = "string") : a = .string := by
  obtain ⟨fa', rfl⟩ := classify_succ_of _ _ _ h
  simp [classify, hn] at h; exact h.symm

theorem buildOk_branches (reg : Reg) (n : Nat) (ih : BuildOkAt reg n) :
    ∀ bs typ oe cs, buildBranches reg (n + 1) bs typ oe = .ok cs → ∀ fa as, classifyBranches fa bs = some as →
    CodecsFor cs as := by
  intro bs typ oe cs hb fa as hc
  obtain ⟨fa', rfl⟩ := classifyBranches_succ_of _ _ _ hc
  cases bs with
  | nil => simp [buildBranches] at hb; simp [classifyBranches] at hc; subst hb; subst hc; exact .nil
  | cons b bs =>
    simp only [buildBranches] at hb
    simp only [classifyBranches] at hc
    split at hb <;> try (cases hb; done)
    rename_i c' cs' hb1 hb2; cases hb
    split at hc <;> try (cases hc; done)
    rename_i a' as' hc1 hc2; cases hc
    exact .cons (ih.build _ _ _ _ hb1 _ _ hc1) (ih.branches _ _ _ _ hb2 _ _ hc2)

theorem buildOk_fields (reg : Reg) (n : Nat) (ih : BuildOkAt reg n) :
    ∀ sfs gfs cs ts, buildFields reg (n + 1) sfs gfs = .ok (cs, ts) → ∀ fa ns as, classifyFields fa sfs = some (ns, as) →
    CodecsFor cs as ∧ ts.length = cs.length := by
  intro sfs gfs cs ts hb fa ns as hc
  obtain ⟨fa', rfl⟩ := classifyFields_succ_of _ _ _ hc
  cases sfs with
  | nil =>
    simp [buildFields] at hb; simp [classifyFields] at hc
    obtain ⟨rfl, rfl⟩ := hb; obtain ⟨rfl, rfl⟩ := hc; exact ⟨.nil, rfl⟩
  | cons sf sfs =>
    simp only [buildFields] at hb
    simp only [classifyFields] at hc
    split at hb <;> try (cases hb; done)
    rename_i c' cs' ts' hb1 hb2
    simp only [Except.ok.injEq, Prod.mk.injEq] at hb
    obtain ⟨rfl, rfl⟩ := hb
    split at hc <;> try (cases hc; done)
    rename_i a' ns' as' hc1 hc2
    simp only [Option.some.injEq, Prod.mk.injEq] at hc
    obtain ⟨rfl, rfl⟩ := hc
    obtain ⟨h1, h2⟩ := ih.fields _ _ _ _ hb2 _ _ _ hc2
    refine ⟨.cons ?_ h1, by simp [h2]⟩
    split at hb1
    · exact ih.build _ _ _ _ hb1 _ _ hc1
    · exact ih.build _ _ _ _ hb1 _ _ hc1

theorem buildOk_union (reg : Reg) (n : Nat) (ih : BuildOkAt reg n) :
    ∀ bs typ oe c, buildUnion reg (n + 1) bs typ oe = .ok c → ∀ fa as, classifyBranches fa bs = some as →
    CodecFor c (.union as) := by
  intro bs typ oe c hb fa as hc
  simp only [buildUnion] at hb
  split at hb
  · -- nullable union
    rename_i nonNull u hnull
    -- bs = [a, b]
    split at hnull
    · rename_i a b
      obtain ⟨fa', rfl⟩ := classifyBranches_succ_of _ _ _ hc
      simp only [classifyBranches] at hc
      split at hc <;> try (cases hc; done)
      rename_i aa as1 hca hcr; cases hc
      cases fa' with
      | zero => simp [classifyBranches] at hcr
      | succ fa'' =>
        simp only [classifyBranches] at hcr
        split at hcr <;> try (cases hcr; done)
        rename_i ab as2 hcb hcr2; cases hcr
        cases fa'' with
        | zero => simp [classifyBranches] at hcr2
        | succ fa3 =>
          simp only [classifyBranches] at hcr2; cases hcr2
          split at hnull
          · rename_i hanull
            cases hnull
            have hanull' : a.type = "null" := by simpa using hanull
            have : aa = .null := classify_null_of hca hanull'
            subst this
            split at hb
            · rename_i o hbs; cases hb
              have hcf := ih.build _ _ _ _ hbs _ _ hcb
              cases hcf; exact CodecFor.unionNullString1
            · rename_i c' hnots hbs; cases hb
              exact CodecFor.unionOne1 (ih.build _ _ _ _ hbs _ _ hcb)
            · cases hb
          · split at hnull
            · rename_i hbnull
              cases hnull
              have hbnull' : b.type = "null" := by simpa using hbnull
              have : ab = .null := classify_null_of hcb hbnull'
              subst this
              split at hb
              · rename_i o hbs; cases hb
                have hcf := ih.build _ _ _ _ hbs _ _ hca
                cases hcf; exact CodecFor.unionNullString0
              · rename_i c' hnots hbs; cases hb
                exact CodecFor.unionOne0 (ih.build _ _ _ _ hbs _ _ hca)
              · cases hb
            · cases hnull
    · cases hnull
  · -- general union
    split at hb
    · rename_i cs hbs; cases hb
      exact CodecFor.union (ih.branches _ _ _ _ hbs _ _ hc)
    · cases hb

/-- **Construction yields a well-shaped codec**, at every recursion budget. -/
theorem buildOkAt (reg : Reg) (hreg : ∀ id, reg.custom id = none) : ∀ n, BuildOkAt reg n := by
  intro n
  induction n with
  | zero =>
    constructor
    · intro s typ oe c h; simp [buildCodec] at h
    · intro s typ oe c h; simp [buildKind] at h
    · intro bs typ oe c h; simp [buildUnion] at h
    · intro bs typ oe cs h; simp [buildBranches] at h
    · intro sfs gfs cs ts h; simp [buildFields] at h
  | succ n ih =>
    exact ⟨buildOk_build reg hreg n ih, buildOk_kind reg n ih, buildOk_union reg n ih, buildOk_branches reg n ih, buildOk_fields reg n ih⟩

end Avro
