import AvroModel.Container
import AvroModel.Lemmas.File
/-!
# The header a writer produces, as seen by the specification-side container reader

`File.mkHeader` (Lemmas/File.lean) is the writer model of the container header: magic, the metadata
map as blocks, a terminating zero count, the sync marker. `readFileHeader_accepts` shows that the model
of the *library's* reader accepts it. Here: the independent reader written from the specification
(`Avro.Spec.readHeader`, Container.lean — it shares no definition with File.lean) reads a header with a
single metadata block back as exactly those entries and that sync marker, leaving exactly what follows.
-/
namespace Avro.SpecHeader
open Avro Avro.File

theorem readLenBytes_lenPrefixed (b rest : Bytes) (hb : b.length ≤ maxLen) :
    Spec.readLenBytes (lenPrefixed b ++ rest) = some (b, rest) := by
  unfold Spec.readLenBytes lenPrefixed
  rw [List.append_assoc, readVarint_writeVarint _ (inRange_of_le_maxLen hb)]
  have hneg : ¬ ((b.length : Int) < 0) := by omega
  simp only [hneg, if_false, Int.toNat_natCast, takeN_append']

theorem entriesBytes_cons (kv : Bytes × Bytes) (es : List (Bytes × Bytes)) (rest : Bytes) :
    entriesBytes (kv :: es) ++ rest = lenPrefixed kv.1 ++ (lenPrefixed kv.2 ++ (entriesBytes es ++ rest)) := by
  simp [entriesBytes, entryBytes]

theorem readMetaEntries_entriesBytes : ∀ (es : List (Bytes × Bytes)) (rest : Bytes), (∀ kv ∈ es, SmallEntry kv) →
    Spec.readMetaEntries es.length (entriesBytes es ++ rest) = some (es, rest)
  | [], rest, _ => by simp [Spec.readMetaEntries, entriesBytes]
  | kv :: es, rest, h => by
    have hkv := h kv (by simp)
    have ih := readMetaEntries_entriesBytes es rest (fun x hx => h x (by simp [hx]))
    rw [entriesBytes_cons, List.length_cons, Spec.readMetaEntries,
      readLenBytes_lenPrefixed _ _ hkv.1]
    simp only []
    rw [readLenBytes_lenPrefixed _ _ hkv.2]
    simp only []
    rw [ih]

theorem lenPrefixed_length_pos (b : Bytes) : 0 < (lenPrefixed b).length := by
  have := writeVarint_length_pos (b.length : Int)
  simp only [lenPrefixed, List.length_append]; omega

/-- every entry takes at least one byte: the guard `n > remaining` of the reference reader passes -/
theorem length_le_entriesBytes : ∀ (es : List (Bytes × Bytes)), es.length ≤ (entriesBytes es).length
  | [] => by simp
  | kv :: es => by
    have ih := length_le_entriesBytes es
    have h1 := lenPrefixed_length_pos kv.1
    have e : entriesBytes (kv :: es) = lenPrefixed kv.1 ++ (lenPrefixed kv.2 ++ entriesBytes es) := by
      simp [entriesBytes, entryBytes]
    rw [e]
    simp only [List.length_cons, List.length_append]; omega

/-- one metadata block followed by the terminating zero count -/
theorem readMeta_metaBlock (es : List (Bytes × Bytes)) (hne : es ≠ []) (hlen : es.length ≤ maxLen)
    (hsm : ∀ kv ∈ es, SmallEntry kv) (rest : Bytes) (fuel : Nat) :
    Spec.readMeta (fuel + 2) (metaBlock es ++ (writeVarint 0 ++ rest)) = some (es, rest) := by
  have hpos : 0 < es.length := List.length_pos_iff.mpr hne
  have hr := inRange_of_le_maxLen hlen
  have h0 : inRange 64 (0 : Int) := by decide
  have hc0 : ¬ ((es.length : Int) = 0) := by omega
  have hcn : ¬ ((es.length : Int) < 0) := by omega
  have hguard : ¬ es.length > (entriesBytes es ++ (writeVarint 0 ++ rest)).length := by
    have := length_le_entriesBytes es
    simp only [List.length_append]; omega
  have hshape : metaBlock es ++ (writeVarint 0 ++ rest) =
      writeVarint (es.length : Int) ++ (entriesBytes es ++ (writeVarint 0 ++ rest)) := by
    simp [metaBlock]
  have hlast : Spec.readMeta (fuel + 1) (writeVarint 0 ++ rest) = some ([], rest) := by
    rw [Spec.readMeta, readVarint_writeVarint 0 h0]
    simp
  rw [hshape, Spec.readMeta, readVarint_writeVarint _ hr]
  simp only [hc0, hcn, if_false, Int.toNat_natCast, hguard, readMetaEntries_entriesBytes es _ hsm, hlast,
    List.append_nil]

/-- **The specification-side reader reads the writer's header.** For a single metadata block `es` of at
least one entry (the library writes one block with the two entries `avro.schema`, `avro.codec`), keys
and values of representable length and a 16-byte sync marker: `Spec.readHeader` applied to
`mkHeader [es] sync` followed by anything returns exactly the entries `es`, in order, and that sync
marker, and leaves exactly what followed. -/
theorem readHeader_mkHeader (es : List (Bytes × Bytes)) (sync rest : Bytes) (hne : es ≠ []) (hlen : es.length ≤ maxLen)
    (hsm : ∀ kv ∈ es, SmallEntry kv) (hs : sync.length = 16) :
    Spec.readHeader (mkHeader [es] sync ++ rest) = some ({ metadata := es, sync := sync }, rest) := by
  have hshape : mkHeader [es] sync ++ rest = File.magic ++ (metaBlock es ++ (writeVarint 0 ++ (sync ++ rest))) := by
    simp [mkHeader]
  have hmagic : File.magic.length = 4 := rfl
  have h4 : takeN 4 (File.magic ++ (metaBlock es ++ (writeVarint 0 ++ (sync ++ rest)))) =
      some (File.magic, metaBlock es ++ (writeVarint 0 ++ (sync ++ rest))) := by
    rw [← hmagic]; exact takeN_append' _ _
  have hm : File.magic = Spec.magic := rfl
  have hfuel : (metaBlock es ++ (writeVarint 0 ++ (sync ++ rest))).length + 1 =
      ((metaBlock es ++ (writeVarint 0 ++ (sync ++ rest))).length - 1) + 2 := by
    have := writeVarint_length_pos (0 : Int)
    simp only [List.length_append]; omega
  have h16 : takeN 16 (sync ++ rest) = some (sync, rest) := by
    rw [← hs]; exact takeN_append' _ _
  rw [hshape]
  unfold Spec.readHeader
  rw [h4]
  simp only [hm, ne_eq, not_true_eq_false, if_false]
  rw [hfuel, readMeta_metaBlock es hne hlen hsm]
  simp only [h16]

end Avro.SpecHeader
