import AvroModel.Lemmas.Outcome
/-!
`read` and `skip` never panic: for every codec tree, every byte string, every destination value
and every step budget. (Used by C06; `stuck` — a destination of the wrong shape — is excluded
separately by the typing judgement of C05.)
-/
namespace Avro

/-- closes goals `o ≠ .panic` built from binds, ifs and matches over panic-free pieces -/
syntax "np" : tactic
macro_rules
  | `(tactic| np) => `(tactic| repeat' (first
      | exact next_ne_panic _ _
      | exact rdVarint_ne_panic _
      | exact rdInt_ne_panic _ _
      | exact rdByte_ne_panic _
      | exact skipN_ne_panic _ _
      | exact skipVar_ne_panic _
      | exact skipLen_ne_panic _
      | exact blockCount_ne_panic _ _
      | assumption
      | (apply Outcome.bind_ne_panic)
      | (intro _ _)
      | split
      | (intro h; cases h)))

variable (env : Env)

/-- all ten mutually recursive functions at step budget `n` -/
structure NoPanicAt (n : Nat) : Prop where
  read : ∀ c bs dst, read env n c bs dst ≠ .panic
  readFields : ∀ cs ts bs fs, readFields env n cs ts bs fs ≠ .panic
  readArrayBlocks : ∀ item bs acc, readArrayBlocks env n item bs acc ≠ .panic
  readItems : ∀ item k bs acc, readItems env n item k bs acc ≠ .panic
  readMapBlocks : ∀ val bs ks vs, readMapBlocks env n val bs ks vs ≠ .panic
  readMapItems : ∀ val k bs ks vs, readMapItems env n val k bs ks vs ≠ .panic
  skip : ∀ c bs, skip env n c bs ≠ .panic
  skipFields : ∀ cs bs, skipFields env n cs bs ≠ .panic
  skipBlocks : ∀ keyed item bs, skipBlocks env n keyed item bs ≠ .panic
  skipItems : ∀ keyed item k bs, skipItems env n keyed item k bs ≠ .panic

theorem getElem?_of_inRange {α} (cs : List α) (idx : Int) (h : ¬ (idx < 0 ∨ idx ≥ cs.length)) :
    ∃ c, cs[idx.toNat]? = some c := by
  have : idx.toNat < cs.length := by omega
  exact ⟨cs[idx.toNat], by simp [this]⟩

theorem noPanicAt : ∀ n, NoPanicAt env n := by
  intro n
  induction n with
  | zero =>
    constructor <;> intros <;> simp [read, readFields, readArrayBlocks, readItems, readMapBlocks, readMapItems,
      skip, skipFields, skipBlocks, skipItems]
  | succ n ih =>
    have hread := ih.read
    have hskip := ih.skip
    constructor
    · -- read
      intro c bs dst
      cases c <;> simp only [read, Outcome.bind_eq, Outcome.pure_eq]
      case union cs =>
        apply Outcome.bind_ne_panic (rdVarint_ne_panic bs)
        intro a _
        split
        · intro h; cases h
        · rename_i hr
          obtain ⟨c', hc'⟩ := getElem?_of_inRange cs a.1 hr
          rw [hc']; exact hread _ _ _
      case array item _ =>
        have := ih.readArrayBlocks
        split
        · apply Outcome.bind_ne_panic (this _ _ _); intro _ _; intro h; cases h
        · intro h; cases h
      case map val _ =>
        have := ih.readMapBlocks
        split
        · apply Outcome.bind_ne_panic (this _ _ _ _); intro _ _; intro h; cases h
        · intro h; cases h
      case pointer c' =>
        split
        · apply Outcome.bind_ne_panic (hread _ _ _); intro _ _; intro h; cases h
        · apply Outcome.bind_ne_panic (hread _ _ _); intro _ _; intro h; cases h
        · intro h; cases h
      case record z cs ts =>
        have := ih.readFields
        split
        · apply Outcome.bind_ne_panic (this _ _ _ _); intro _ _; intro h; cases h
        · intro h; cases h
      case unionOne c' nn =>
        apply Outcome.bind_ne_panic (rdByte_ne_panic bs)
        intro a _
        split
        · intro h; cases h
        · split
          · exact hread _ _ _
          · intro h; cases h
      case unionNullString o nn =>
        apply Outcome.bind_ne_panic (rdByte_ne_panic bs)
        intro a _
        split
        · intro h; cases h
        · split
          · exact hread _ _ _
          · intro h; cases h
      case nullw k =>
        apply Outcome.bind_ne_panic (hread _ _ _); intro _ _; intro h; cases h
      all_goals np
    · -- readFields
      intro cs ts bs fs
      cases cs with
      | nil => simp [Avro.readFields]
      | cons c cs =>
        cases ts with
        | nil => simp [Avro.readFields]
        | cons t ts =>
          have := ih.readFields
          cases t with
          | none =>
            simp only [Avro.readFields, Outcome.bind_eq]
            apply Outcome.bind_ne_panic (hskip _ _); intro _ _; exact this _ _ _ _
          | some i =>
            simp only [Avro.readFields, Outcome.bind_eq]
            split
            · intro h; cases h
            · apply Outcome.bind_ne_panic (hread _ _ _); intro _ _; exact this _ _ _ _
    · -- readArrayBlocks
      intro item bs acc
      have h1 := ih.readItems
      have h2 := ih.readArrayBlocks
      simp only [Avro.readArrayBlocks, Outcome.bind_eq, Outcome.pure_eq]
      apply Outcome.bind_ne_panic (rdVarint_ne_panic bs); intro a _
      split
      · intro h; cases h
      · apply Outcome.bind_ne_panic (arrayBlockCount_ne_panic _ _ _); intro b _
        apply Outcome.bind_ne_panic (h1 _ _ _ _); intro _ _; exact h2 _ _ _
    · -- readItems
      intro item k bs acc
      have h1 := ih.readItems
      cases k with
      | zero => simp [Avro.readItems]
      | succ k =>
        simp only [Avro.readItems, Outcome.bind_eq]
        apply Outcome.bind_ne_panic (hread _ _ _); intro _ _; exact h1 _ _ _ _
    · -- readMapBlocks
      intro val bs ks vs
      have h1 := ih.readMapItems
      have h2 := ih.readMapBlocks
      simp only [Avro.readMapBlocks, Outcome.bind_eq, Outcome.pure_eq]
      apply Outcome.bind_ne_panic (rdVarint_ne_panic bs); intro a _
      split
      · intro h; cases h
      · apply Outcome.bind_ne_panic (blockCount_ne_panic _ _); intro b _
        apply Outcome.bind_ne_panic (h1 _ _ _ _ _); intro _ _; exact h2 _ _ _ _
    · -- readMapItems
      intro val k bs ks vs
      have h1 := ih.readMapItems
      cases k with
      | zero => simp [Avro.readMapItems]
      | succ k =>
        simp only [Avro.readMapItems, Outcome.bind_eq]
        apply Outcome.bind_ne_panic (rdVarint_ne_panic bs); intro a _
        split
        · intro h; cases h
        · apply Outcome.bind_ne_panic (next_ne_panic _ _); intro b _
          apply Outcome.bind_ne_panic (hread _ _ _); intro _ _; exact h1 _ _ _ _ _
    · -- skip
      intro c bs
      cases c <;> simp only [Avro.skip, Outcome.bind_eq, Outcome.pure_eq]
      case union cs =>
        apply Outcome.bind_ne_panic (rdVarint_ne_panic bs)
        intro a _
        split
        · intro h; cases h
        · rename_i hr
          obtain ⟨c', hc'⟩ := getElem?_of_inRange cs a.1 hr
          rw [hc']; exact hskip _ _
      case array item _ => exact ih.skipBlocks _ _ _
      case map val _ => exact ih.skipBlocks _ _ _
      case pointer c' => exact hskip _ _
      case record z cs ts => exact ih.skipFields _ _
      case unionOne c' nn =>
        apply Outcome.bind_ne_panic (rdByte_ne_panic bs)
        intro a _
        split
        · intro h; cases h
        · split
          · exact hskip _ _
          · intro h; cases h
      all_goals np
    · -- skipFields
      intro cs bs
      cases cs with
      | nil => simp [Avro.skipFields]
      | cons c cs =>
        simp only [Avro.skipFields, Outcome.bind_eq]
        apply Outcome.bind_ne_panic (hskip _ _); intro _ _; exact ih.skipFields _ _
    · -- skipBlocks
      intro keyed item bs
      have h1 := ih.skipItems
      have h2 := ih.skipBlocks
      simp only [Avro.skipBlocks, Outcome.bind_eq, Outcome.pure_eq]
      apply Outcome.bind_ne_panic (rdVarint_ne_panic bs); intro a _
      split
      · intro h; cases h
      · split
        · apply Outcome.bind_ne_panic (rdVarint_ne_panic _); intro b _
          apply Outcome.bind_ne_panic (skipN_ne_panic _ _); intro _ _; exact h2 _ _ _
        · apply Outcome.bind_ne_panic (h1 _ _ _ _); intro _ _; exact h2 _ _ _
    · -- skipItems
      intro keyed item k bs
      have h1 := ih.skipItems
      cases k with
      | zero => simp [Avro.skipItems]
      | succ k =>
        simp only [Avro.skipItems, Outcome.bind_eq, Outcome.pure_eq]
        split
        · apply Outcome.bind_ne_panic (skipLen_ne_panic _); intro _ _
          apply Outcome.bind_ne_panic (hskip _ _); intro _ _; exact h1 _ _ _ _
        · simp only [Outcome.bind_ok']
          apply Outcome.bind_ne_panic (hskip _ _); intro _ _; exact h1 _ _ _ _

end Avro
