/-!
# The size bound behind the repair of D34

`snappyCodec.decompress` (file.go) rejects a block whose declared decoded length exceeds 22 times the block's size,
before `snappy.Decode` allocates that length. The container reader must still accept every valid block (C03, C07), so
the bound has to hold for every valid snappy block. This file states the element sizes of the snappy block format
(format_description.txt of the snappy project, section 2) and proves the bound for every sequence of elements.

A snappy block is a uvarint (the decoded length, at least one byte) followed by elements:

* literal: a tag byte, 0 to 4 further length bytes, then `n ≥ 1` bytes that are copied to the output — `n` output bytes
  for at least `n + 1` input bytes;
* copy with 1-byte offset: 2 input bytes, 4 to 11 output bytes;
* copy with 2-byte offset: 3 input bytes, 1 to 64 output bytes;
* copy with 4-byte offset: 5 input bytes, 1 to 64 output bytes.

Trusted, not verified here: that this is the snappy format (it is modelled from the format description, not derived
from the `github.com/golang/snappy` sources). The correspondence streams exercise the bound from the other side: the
data snappy compresses best (identical records, ratio above 21 : 1) is written and read back by the real library.
-/
namespace Avro.Snappy

inductive Elem where
  | literal (extraLenBytes n : Nat)   -- n data bytes, 0..4 extra length bytes
  | copy1 (len : Nat)                 -- 4 ≤ len ≤ 11
  | copy2 (len : Nat)                 -- 1 ≤ len ≤ 64
  | copy4 (len : Nat)                 -- 1 ≤ len ≤ 64
  deriving Repr

/-- an element as the format allows it -/
def Elem.Valid : Elem → Prop
  | .literal e n => e ≤ 4 ∧ 1 ≤ n
  | .copy1 l => 4 ≤ l ∧ l ≤ 11
  | .copy2 l => 1 ≤ l ∧ l ≤ 64
  | .copy4 l => 1 ≤ l ∧ l ≤ 64

/-- bytes the element occupies in the block -/
def Elem.encoded : Elem → Nat
  | .literal e n => 1 + e + n
  | .copy1 _ => 2
  | .copy2 _ => 3
  | .copy4 _ => 5

/-- bytes the element appends to the output -/
def Elem.produced : Elem → Nat
  | .literal _ n => n
  | .copy1 l => l
  | .copy2 l => l
  | .copy4 l => l

def encodedLen (es : List Elem) : Nat := (es.map Elem.encoded).sum
def producedLen (es : List Elem) : Nat := (es.map Elem.produced).sum

theorem elem_bound (e : Elem) (h : e.Valid) : 3 * e.produced ≤ 64 * e.encoded := by
  cases e <;> simp only [Elem.Valid, Elem.produced, Elem.encoded] at * <;> omega

/-- no sequence of valid elements produces more than 64 output bytes per 3 input bytes -/
theorem elems_bound : ∀ (es : List Elem), (∀ e ∈ es, e.Valid) → 3 * producedLen es ≤ 64 * encodedLen es
  | [], _ => by simp [producedLen, encodedLen]
  | e :: es, h => by
    have h1 := elem_bound e (h e (by simp))
    have h2 := elems_bound es (fun x hx => h x (by simp [hx]))
    simp only [producedLen, encodedLen, List.map_cons, List.sum_cons] at *
    omega

/-- **The guard of the D34 repair never rejects a valid block**: a block of `hdr ≥ 1` length-prefix bytes followed by
valid elements decodes to at most 22 times its own size — in fact to less than 21.34 times. -/
theorem valid_block_within_guard (hdr : Nat) (es : List Elem) (hv : ∀ e ∈ es, e.Valid) :
    producedLen es ≤ 22 * (hdr + encodedLen es) := by
  have := elems_bound es hv
  omega

/-- … and the factor cannot be lowered to 21: copies with a 2-byte offset reach 64 : 3 (the stored seeded changes that
tighten the guard to 20 or 21 reject such blocks). -/
theorem replicate_copy2 (n : Nat) :
    producedLen (List.replicate n (Elem.copy2 64)) = 64 * n ∧ encodedLen (List.replicate n (Elem.copy2 64)) = 3 * n := by
  induction n with
  | zero => simp [producedLen, encodedLen]
  | succ n ih =>
    simp only [producedLen, encodedLen, List.replicate_succ, List.map_cons, List.sum_cons, Elem.produced, Elem.encoded] at *
    omega

example : (∀ e ∈ List.replicate 3000 (Elem.copy2 64), e.Valid) ∧
    ¬ producedLen (List.replicate 3000 (Elem.copy2 64)) ≤ 21 * (1 + encodedLen (List.replicate 3000 (Elem.copy2 64))) := by
  refine ⟨fun e he => ?_, ?_⟩
  · rw [List.eq_of_mem_replicate he]; exact ⟨by decide, by decide⟩
  · rw [(replicate_copy2 3000).1, (replicate_copy2 3000).2]; omega

end Avro.Snappy
