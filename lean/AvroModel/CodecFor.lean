import AvroModel.Wire
import AvroModel.Codec
/-!
`CodecFor c s`: codec tree `c` is one the library may build for Avro schema `s` (typed against some
Go type, or untyped for skipping). It is the hypothesis under which the codec theorems (C03, C04,
C02/C13) are stated; `Props/Build.lean` shows that successful construction yields it.
-/
namespace Avro

mutual
inductive CodecFor : Codec → ASchema → Prop where
  | null : CodecFor .null .null
  | bool {o} : CodecFor (.bool o) .boolean
  | intI {w o} : CodecFor (.int w o) .int
  | intL {w o} : CodecFor (.int w o) .long
  | float {o} : CodecFor (.float o) .float
  | double {o} : CodecFor (.double o) .double
  | f32double {o} : CodecFor (.f32double o) .double
  | bytes {o} : CodecFor (.bytes o) .bytes
  | string {o} : CodecFor (.string o) .string
  | fixed {n : Nat} : CodecFor (.fixed n) (.fixed n)
  | array {item s o} : CodecFor item s → CodecFor (.array item o) (.array s)
  | map {val s o} : CodecFor val s → CodecFor (.map val o) (.map s)
  | pointer {c s} : CodecFor c s → CodecFor (.pointer c) s
  | record {z cs ts ns ss} : CodecsFor cs ss → ts.length = cs.length → CodecFor (.record z cs ts) (.record ns ss)
  | union {cs ss} : CodecsFor cs ss → CodecFor (.union cs) (.union ss)
  | unionOne0 {c s} : CodecFor c s → CodecFor (.unionOne c 0) (.union [s, .null])
  | unionOne1 {c s} : CodecFor c s → CodecFor (.unionOne c 1) (.union [.null, s])
  | unionNullString0 {o} : CodecFor (.unionNullString o 0) (.union [.string, .null])
  | unionNullString1 {o} : CodecFor (.unionNullString o 1) (.union [.null, .string])
  | timeString : CodecFor .timeString .string
  | timeLong {m} : CodecFor (.timeLong m) .long
  | date : CodecFor .date .int
  | nullInt : CodecFor (.nullw .int) .long
  | nullIntI : CodecFor (.nullw .int) .int
  | nullBool : CodecFor (.nullw .bool) .boolean
  | nullDouble : CodecFor (.nullw .double) .double
  | nullFloat : CodecFor (.nullw .float) .float
  | nullString : CodecFor (.nullw .string) .string
  | nullTime : CodecFor (.nullw .time) .string
inductive CodecsFor : List Codec → List ASchema → Prop where
  | nil : CodecsFor [] []
  | cons {c s cs ss} : CodecFor c s → CodecsFor cs ss → CodecsFor (c :: cs) (s :: ss)
end

end Avro
