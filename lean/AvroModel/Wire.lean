import AvroModel.Bytes
/-!
Avro binary encoding, written from the Avro 1.8 specification ("Binary Encoding").
This module is the *reference*: it shares no definitions with the model of the library's
codecs (`Codec.lean`). `encode` is indexed by a `Plan` that records every choice a conformant
writer is free to make (how arrays and maps are split into blocks, and whether a block carries
its byte size), so "every legal encoding of `v`" is `∃ plan, encode plan s v = some bs`.
-/
namespace Avro

/-- Avro schemas (names of records/fixed/enums play no role in the binary encoding; field names
are kept because the library's reader resolves fields by name). -/
inductive ASchema where
  | null | boolean | int | long | float | double | bytes | string
  | fixed (n : Nat)
  | enum (nsyms : Nat)
  | record (names : List String) (fields : List ASchema)
  | array (items : ASchema)
  | map (values : ASchema)
  | union (branches : List ASchema)
  deriving Repr, Inhabited

/-- Avro data. `int` serves int and long, `bytes` serves bytes, string and fixed;
floats are IEEE bit patterns. A map is a list of keys and a list of values of equal length. -/
inductive Value where
  | null
  | bool (b : Bool)
  | int (i : Int)
  | float (bits : Nat)
  | double (bits : Nat)
  | bytes (bs : Bytes)
  | record (fields : List Value)
  | array (items : List Value)
  | map (keys : List Bytes) (vals : List Value)
  | union (idx : Nat) (v : Value)
  deriving Repr, Inhabited

/-- A writer's free choices: `blocks` lists, for an array or map, the item count of each block and
whether the block is written with a byte-size prefix; `subs` are the plans of the children
(record fields, array items, map values, the union's branch value). -/
inductive Plan where
  | node (blocks : List (Nat × Bool)) (subs : List Plan)
  deriving Repr, Inhabited

def Plan.leaf : Plan := .node [] []
def Plan.blocks : Plan → List (Nat × Bool) | .node b _ => b
def Plan.subs : Plan → List Plan | .node _ s => s

/-- length-prefixed bytes (`bytes` and `string`) -/
def encBytes (bs : Bytes) : Bytes := writeVarint bs.length ++ bs

/-- Blocks of an array/map: `encs` are the encodings of the items in order. Every block has a
positive count; a sized block is written as negative count followed by the byte size.
The sequence ends with a zero count. Fails unless the block counts add up to the item count. -/
def encBlocks : List (Nat × Bool) → List Bytes → Option Bytes
  | [], [] => some (writeVarint 0)
  | [], _ :: _ => none
  | (n, sized) :: bl, encs =>
    let body := (encs.take n).flatten
    -- counts and byte sizes are Avro longs
    if n = 0 ∨ encs.length < n ∨ ¬ n < 2 ^ 63 ∨ ¬ body.length < 2 ^ 63 then none else
    match encBlocks bl (encs.drop n) with
    | none => none
    | some rest =>
      some ((if sized then writeVarint (-(n : Int)) ++ writeVarint body.length else writeVarint n) ++ body ++ rest)

mutual
/-- the binary encoding of datum `v` of schema `s` under plan `p` -/
def encode : Plan → ASchema → Value → Option Bytes
  | _, .null, .null => some []
  | _, .boolean, .bool b => some (writeBool b)
  | _, .int, .int i => if inRange 32 i then some (writeVarint i) else none
  | _, .long, .int i => if inRange 64 i then some (writeVarint i) else none
  | _, .float, .float b => if b < 2 ^ 32 then some (putLE 4 b) else none
  | _, .double, .double b => if b < 2 ^ 64 then some (putLE 8 b) else none
  | _, .bytes, .bytes bs => if bs.length < 2 ^ 63 then some (encBytes bs) else none
  | _, .string, .bytes bs => if bs.length < 2 ^ 63 then some (encBytes bs) else none
  | _, .fixed n, .bytes bs => if bs.length = n then some bs else none
  | _, .enum n, .int i => if 0 ≤ i ∧ i < n ∧ inRange 64 i then some (writeVarint i) else none
  | .node _ subs, .record _ fs, .record vs => encodeFields subs fs vs
  | .node blocks subs, .array items, .array vs =>
    match encodeItems subs items vs with
    | none => none
    | some encs => encBlocks blocks encs
  | .node blocks subs, .map values, .map ks vs =>
    if ks.length ≠ vs.length ∨ ¬ ks.all (fun k => k.length < 2 ^ 63) then none else
    match encodeItems subs values vs with
    | none => none
    | some encs => encBlocks blocks (List.zipWith (fun k e => encBytes k ++ e) ks encs)
  | .node _ subs, .union branches, .union idx v =>
    match branches[idx]?, subs with
    | some b, [p] =>
      match encode p b v with
      | none => none
      | some e => if idx < 2 ^ 63 then some (writeVarint idx ++ e) else none
    | _, _ => none
  | _, _, _ => none

/-- record fields: concatenation of the field encodings in schema order -/
def encodeFields : List Plan → List ASchema → List Value → Option Bytes
  | [], [], [] => some []
  | p :: ps, s :: ss, v :: vs =>
    match encode p s v, encodeFields ps ss vs with
    | some a, some b => some (a ++ b)
    | _, _ => none
  | _, _, _ => none

/-- items of an array / values of a map: one encoding per item -/
def encodeItems : List Plan → ASchema → List Value → Option (List Bytes)
  | [], _, [] => some []
  | p :: ps, s, v :: vs =>
    match encode p s v, encodeItems ps s vs with
    | some a, some b => some (a :: b)
    | _, _ => none
  | _, _, _ => none
end

/-! ### Reference decoder (for the oracle): decodes one datum of schema `s`, returns the rest -/

/-- result of the reference decoder: a datum and the remaining bytes, "not a valid encoding", or
step budget exhausted -/
inductive Dec (α : Type) where
  | ok (a : α)
  | bad
  | fuel
  deriving Repr

@[inline] def Dec.bind {α β : Type} (d : Dec α) (f : α → Dec β) : Dec β :=
  match d with
  | .ok a => f a
  | .bad => .bad
  | .fuel => .fuel

instance : Monad Dec where
  pure := .ok
  bind := Dec.bind

def Dec.toOption {α : Type} : Dec α → Option α
  | .ok a => some a
  | _ => none

def decVarint (bs : Bytes) : Dec (Int × Bytes) :=
  match readVarint bs with
  | .ok p => .ok p
  | .error _ => .bad

def decTake (n : Nat) (bs : Bytes) : Dec (Bytes × Bytes) :=
  match takeN n bs with
  | some p => .ok p
  | none => .bad

/-- `bytes` / `string` datum, map key: non-negative long length, then the bytes -/
def decLenBytes (bs : Bytes) : Dec (Bytes × Bytes) := do
  let (n, r) ← decVarint bs
  if n < 0 then .bad else decTake n.toNat r

/-- block header of an array / map: the item count of the block (a negative count is followed by
the block's byte size) -/
def decBlockHeader (c : Int) (r : Bytes) : Dec (Nat × Bytes) :=
  if c < 0 then do
    let (_, r1) ← decVarint r
    pure ((-c).toNat, r1)
  else .ok (c.toNat, r)

mutual
def decode : Nat → ASchema → Bytes → Dec (Value × Bytes)
  | 0, _, _ => .fuel
  | fuel + 1, s, bs =>
    match s with
    | .null => .ok (.null, bs)
    | .boolean =>
      match bs with
      | [] => .bad
      | b :: r => if b = 0 then .ok (.bool false, r) else if b = 1 then .ok (.bool true, r) else .bad
    | .int => do
      let (i, r) ← decVarint bs
      if inRange 32 i then pure (.int i, r) else .bad
    | .long => do
      let (i, r) ← decVarint bs
      pure (.int i, r)
    | .float => do
      let (b, r) ← decTake 4 bs
      pure (.float (getLE b), r)
    | .double => do
      let (b, r) ← decTake 8 bs
      pure (.double (getLE b), r)
    | .bytes | .string => do
      let (b, r) ← decLenBytes bs
      pure (.bytes b, r)
    | .fixed n => do
      let (b, r) ← decTake n bs
      pure (.bytes b, r)
    | .enum n => do
      let (i, r) ← decVarint bs
      if 0 ≤ i ∧ i < n then pure (.int i, r) else .bad
    | .record _ fs => do
      let (vs, r) ← decodeFields fuel fs bs
      pure (.record vs, r)
    | .array items => do
      let (kvs, r) ← decodeBlocks fuel false items bs
      pure (.array (kvs.map (·.2)), r)
    | .map values => do
      let (kvs, r) ← decodeBlocks fuel true values bs
      pure (.map (kvs.map (·.1)) (kvs.map (·.2)), r)
    | .union branches => do
      let (i, r) ← decVarint bs
      if i < 0 then .bad else
        match branches[i.toNat]? with
        | none => .bad
        | some b => do
          let (v, r1) ← decode fuel b r
          pure (.union i.toNat v, r1)

def decodeFields : Nat → List ASchema → Bytes → Dec (List Value × Bytes)
  | 0, _, _ => .fuel
  | _ + 1, [], bs => .ok ([], bs)
  | fuel + 1, s :: ss, bs => do
    let (v, r) ← decode fuel s bs
    let (vs, r1) ← decodeFields fuel ss r
    pure (v :: vs, r1)

/-- blocks of an array (`keyed = false`) or map (`keyed = true`) -/
def decodeBlocks : Nat → Bool → ASchema → Bytes → Dec (List (Bytes × Value) × Bytes)
  | 0, _, _, _ => .fuel
  | fuel + 1, keyed, s, bs => do
    let (c, r) ← decVarint bs
    if c = 0 then pure ([], r) else do
      let (n, r1) ← decBlockHeader c r
      let (items, r2) ← decodeItems fuel keyed s n r1
      let (more, r3) ← decodeBlocks fuel keyed s r2
      pure (items ++ more, r3)

def decodeItems : Nat → Bool → ASchema → Nat → Bytes → Dec (List (Bytes × Value) × Bytes)
  | 0, _, _, _, _ => .fuel
  | _ + 1, _, _, 0, bs => .ok ([], bs)
  | fuel + 1, keyed, s, n + 1, bs => do
    let (k, r) ← if keyed then decLenBytes bs else pure ([], bs)
    let (v, r1) ← decode fuel s r
    let (items, r2) ← decodeItems fuel keyed s n r1
    pure ((k, v) :: items, r2)
end

end Avro
