import AvroModel.Bytes
/-!
Avro binary encoding, written from the Avro 1.8 specification ("Binary Encoding").
This module is the *reference*: it shares no definitions with the model of the library's
codecs (`Codec.lean`). `encode` is indexed by a `Plan` that records every choice a conformant
writer is free to make (how arrays and maps are split into blocks, and whether a block carries
its byte size), so "every legal encoding of `v`" is `∃ plan, encode plan s v = some bs`.
-/
namespace Avro

/-- Avro schemas (names of records/fixed/enums play no role in the binary encoding; field names
are kept because the library's reader resolves fields by name). -/
inductive ASchema where
  | null | boolean | int | long | float | double | bytes | string
  | fixed (n : Nat)
  | enum (nsyms : Nat)
  | record (names : List String) (fields : List ASchema)
  | array (items : ASchema)
  | map (values : ASchema)
  | union (branches : List ASchema)
  deriving Repr, Inhabited

/-- Avro data. `int` serves int and long, `bytes` serves bytes, string and fixed;
floats are IEEE bit patterns. A map is a list of keys and a list of values of equal length. -/
inductive Value where
  | null
  | bool (b : Bool)
  | int (i : Int)
  | float (bits : Nat)
  | double (bits : Nat)
  | bytes (bs : Bytes)
  | record (fields : List Value)
  | array (items : List Value)
  | map (keys : List Bytes) (vals : List Value)
  | union (idx : Nat) (v : Value)
  deriving Repr, Inhabited

/-- A writer's free choices: `blocks` lists, for an array or map, the item count of each block and
whether the block is written with a byte-size prefix; `subs` are the plans of the children
(record fields, array items, map values, the union's branch value). -/
inductive Plan where
  | node (blocks : List (Nat × Bool)) (subs : List Plan)
  deriving Repr, Inhabited

def Plan.leaf : Plan := .node [] []
def Plan.blocks : Plan → List (Nat × Bool) | .node b _ => b
def Plan.subs : Plan → List Plan | .node _ s => s

/-- length-prefixed bytes (`bytes` and `string`) -/
def encBytes (bs : Bytes) : Bytes := writeVarint bs.length ++ bs

/-- Blocks of an array/map: `encs` are the encodings of the items in order. Every block has a
positive count; a sized block is written as negative count followed by the byte size.
The sequence ends with a zero count. Fails unless the block counts add up to the item count. -/
def encBlocks : List (Nat × Bool) → List Bytes → Option Bytes
  | [], [] => some (writeVarint 0)
  | [], _ :: _ => none
  | (n, sized) :: bl, encs =>
    let body := (encs.take n).flatten
    -- counts and byte sizes are Avro longs
    if n = 0 ∨ encs.length < n ∨ ¬ n < 2 ^ 63 ∨ ¬ body.length < 2 ^ 63 then none else
    match encBlocks bl (encs.drop n) with
    | none => none
    | some rest =>
      some ((if sized then writeVarint (-(n : Int)) ++ writeVarint body.length else writeVarint n) ++ body ++ rest)

mutual
/-- the binary encoding of datum `v` of schema `s` under plan `p` -/
def encode : Plan → ASchema → Value → Option Bytes
  | _, .null, .null => some []
  | _, .boolean, .bool b => some (writeBool b)
  | _, .int, .int i => if inRange 32 i then some (writeVarint i) else none
  | _, .long, .int i => if inRange 64 i then some (writeVarint i) else none
  | _, .float, .float b => if b < 2 ^ 32 then some (putLE 4 b) else none
  | _, .double, .double b => if b < 2 ^ 64 then some (putLE 8 b) else none
  | _, .bytes, .bytes bs => if bs.length < 2 ^ 63 then some (encBytes bs) else none
  | _, .string, .bytes bs => if bs.length < 2 ^ 63 then some (encBytes bs) else none
  | _, .fixed n, .bytes bs => if bs.length = n then some bs else none
  | _, .enum n, .int i => if 0 ≤ i ∧ i < n then some (writeVarint i) else none
  | .node _ subs, .record _ fs, .record vs => encodeFields subs fs vs
  | .node blocks subs, .array items, .array vs =>
    match encodeItems subs items vs with
    | none => none
    | some encs => encBlocks blocks encs
  | .node blocks subs, .map values, .map ks vs =>
    if ks.length ≠ vs.length ∨ ¬ ks.all (fun k => k.length < 2 ^ 63) then none else
    match encodeItems subs values vs with
    | none => none
    | some encs => encBlocks blocks (List.zipWith (fun k e => encBytes k ++ e) ks encs)
  | .node _ subs, .union branches, .union idx v =>
    match branches[idx]?, subs with
    | some b, [p] =>
      match encode p b v with
      | none => none
      | some e => if idx < 2 ^ 63 then some (writeVarint idx ++ e) else none
    | _, _ => none
  | _, _, _ => none

/-- record fields: concatenation of the field encodings in schema order -/
def encodeFields : List Plan → List ASchema → List Value → Option Bytes
  | [], [], [] => some []
  | p :: ps, s :: ss, v :: vs =>
    match encode p s v, encodeFields ps ss vs with
    | some a, some b => some (a ++ b)
    | _, _ => none
  | _, _, _ => none

/-- items of an array / values of a map: one encoding per item -/
def encodeItems : List Plan → ASchema → List Value → Option (List Bytes)
  | [], _, [] => some []
  | p :: ps, s, v :: vs =>
    match encode p s v, encodeItems ps s vs with
    | some a, some b => some (a :: b)
    | _, _ => none
  | _, _, _ => none
end

/-! ### Reference decoder (for the oracle): decodes one datum of schema `s`, returns the rest -/

mutual
def decode : Nat → ASchema → Bytes → Option (Value × Bytes)
  | 0, _, _ => none
  | fuel + 1, s, bs =>
    match s with
    | .null => some (.null, bs)
    | .boolean =>
      match bs with
      | [] => none
      | b :: r => if b = 0 then some (.bool false, r) else if b = 1 then some (.bool true, r) else none
    | .int =>
      match readVarint bs with
      | .ok (i, r) => if inRange 32 i then some (.int i, r) else none
      | .error _ => none
    | .long =>
      match readVarint bs with
      | .ok (i, r) => some (.int i, r)
      | .error _ => none
    | .float => (readFixedBits 4 bs).map fun (b, r) => (.float b, r)
    | .double => (readFixedBits 8 bs).map fun (b, r) => (.double b, r)
    | .bytes | .string =>
      match readVarint bs with
      | .ok (n, r) => if n < 0 then none else (takeN n.toNat r).map fun (b, r') => (.bytes b, r')
      | .error _ => none
    | .fixed n => (takeN n bs).map fun (b, r) => (.bytes b, r)
    | .enum n =>
      match readVarint bs with
      | .ok (i, r) => if 0 ≤ i ∧ i < n then some (.int i, r) else none
      | .error _ => none
    | .record _ fs => (decodeFields fuel fs bs).map fun (vs, r) => (.record vs, r)
    | .array items => (decodeBlocks fuel false items bs).map fun (kvs, r) => (.array (kvs.map (·.2)), r)
    | .map values => (decodeBlocks fuel true values bs).map fun (kvs, r) => (.map (kvs.map (·.1)) (kvs.map (·.2)), r)
    | .union branches =>
      match readVarint bs with
      | .ok (i, r) =>
        if i < 0 then none else
        match branches[i.toNat]? with
        | none => none
        | some b => (decode fuel b r).map fun (v, r') => (.union i.toNat v, r')
      | .error _ => none

def decodeFields : Nat → List ASchema → Bytes → Option (List Value × Bytes)
  | 0, _, _ => none
  | _ + 1, [], bs => some ([], bs)
  | fuel + 1, s :: ss, bs =>
    match decode fuel s bs with
    | none => none
    | some (v, r) =>
      match decodeFields fuel ss r with
      | none => none
      | some (vs, r') => some (v :: vs, r')

/-- blocks of an array (`keyed = false`) or map (`keyed = true`) -/
def decodeBlocks : Nat → Bool → ASchema → Bytes → Option (List (Bytes × Value) × Bytes)
  | 0, _, _, _ => none
  | fuel + 1, keyed, s, bs =>
    match readVarint bs with
    | .error _ => none
    | .ok (c, r) =>
      if c = 0 then some ([], r) else
      let hdr : Option (Nat × Bytes) :=
        if c < 0 then
          match readVarint r with
          | .ok (_, r') => some ((-c).toNat, r')
          | .error _ => none
        else some (c.toNat, r)
      match hdr with
      | none => none
      | some (n, r') =>
        match decodeItems fuel keyed s n r' with
        | none => none
        | some (items, r'') =>
          match decodeBlocks fuel keyed s r'' with
          | none => none
          | some (more, r''') => some (items ++ more, r''')

def decodeItems : Nat → Bool → ASchema → Nat → Bytes → Option (List (Bytes × Value) × Bytes)
  | 0, _, _, _, _ => none
  | _ + 1, _, _, 0, bs => some ([], bs)
  | fuel + 1, keyed, s, n + 1, bs =>
    let key : Option (Bytes × Bytes) :=
      if keyed then
        match readVarint bs with
        | .ok (l, r) => if l < 0 then none else takeN l.toNat r
        | .error _ => none
      else some ([], bs)
    match key with
    | none => none
    | some (k, r) =>
      match decode fuel s r with
      | none => none
      | some (v, r') =>
        match decodeItems fuel keyed s n r' with
        | none => none
        | some (items, r'') => some ((k, v) :: items, r'')
end

end Avro
