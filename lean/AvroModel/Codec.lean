import AvroModel.Bytes
/-!
Model of the library's codec tree and of every codec's Read / Skip / Write / Omit / New
(int.go, float.go, bool.go, bytes.go, string.go, fixed.go, null.go, array.go, map.go, pointer.go,
record.go, union.go, time/time.go, null/null.go), over abstract Go values instead of raw memory.
The memory-level side (store widths, pointee shapes, GC typing) is `Typing.lean`.

External code is a parameter (`Env`): hardware float conversion, the timestamp formatter/parser
(modelled and verified separately in `Time.lean`), user-registered custom codecs.
-/
namespace Avro

/-- Outcome of a modelled entry point. `panic` is a Go run-time panic (slice bounds, nil
dereference, explicit panic); `stuck` is a store through a pointer of the wrong shape (memory
corruption in the real code); `fuel` means the step budget was exhausted. -/
inductive Outcome (α : Type) where
  | ok (a : α)
  | err
  | panic
  | stuck
  | fuel
  deriving Repr

structure TimeVal where
  unix : Int      -- seconds since 1970-01-01T00:00:00Z
  nsec : Nat
  off : Int       -- zone offset in seconds east of UTC
  deriving Repr, DecidableEq, Inhabited

/-- `time.Time{}.IsZero()`: year 1, January 1, 00:00:00 UTC -/
def TimeVal.isZero (t : TimeVal) : Bool := t.unix == -62135596800 && t.nsec == 0
def TimeVal.zero : TimeVal := { unix := -62135596800, nsec := 0, off := 0 }

/-- Abstract Go values. Maps carry their entries in iteration order plus a nil flag. -/
inductive GoVal where
  | unit                                   -- no Go value (target of a `null` schema)
  | bool (b : Bool)
  | int (v : Int)
  | f32 (bits : Nat)
  | f64 (bits : Nat)
  | str (bs : Bytes)
  | bytes (bs : Bytes)
  | fixed (bs : Bytes)
  | slice (items : List GoVal)
  | map (isNil : Bool) (keys : List Bytes) (vals : List GoVal)
  | ptr (target : Option GoVal)
  | struct (fields : List GoVal)
  | time (t : TimeVal)
  | nullw (valid : Bool) (inner : GoVal)   -- null.Int / Bool / Float / String / Time
  | opaque (id : Nat) (repr : Bytes)       -- value of a user-registered custom type
  deriving Repr, Inhabited

inductive NullKind where
  | int | bool | double | float | string | time
  deriving Repr, DecidableEq

/-- One constructor per Go codec type. `omit` flags are the `omitEmpty` fields. -/
inductive Codec where
  | null
  | bool (oe : Bool)
  | int (w : Nat) (oe : Bool)
  | float (oe : Bool)
  | double (oe : Bool)
  | f32double (oe : Bool)
  | bytes (oe : Bool)
  | string (oe : Bool)
  | fixed (n : Int)
  | array (item : Codec) (oe : Bool)
  | map (val : Codec) (oe : Bool)
  | pointer (c : Codec)
  /-- `zero`: the zero value of the Go struct; each field: codec and the index of the Go field it
  decodes into (`none` = not in the struct: skipped on read). -/
  | record (zero : List GoVal) (codecs : List Codec) (targets : List (Option Nat))
  | union (cs : List Codec)
  | unionOne (c : Codec) (nonNull : Nat)
  | unionNullString (oe : Bool) (nonNull : Nat)
  | timeString
  | timeLong (mult : Int)
  | date
  | nullw (k : NullKind)
  | custom (id : Nat)
  deriving Repr, Inhabited

/-- A user-registered codec, as a black box over bytes. -/
structure CustomCodec where
  read : Bytes → Option (GoVal × Bytes)
  skip : Bytes → Option Bytes
  write : GoVal → Bytes
  omits : GoVal → Bool
  zero : GoVal

structure Env where
  widen : Nat → Nat                      -- float32 bits ↦ float64 bits (`float64(f)`)
  narrow : Nat → Nat                     -- float64 bits ↦ float32 bits (`float32(d)`)
  fmtTime : TimeVal → Bytes              -- `t.Format(time.RFC3339Nano)`
  parseTime : Bytes → Option TimeVal     -- `parseTime` composed with `time.Date`
  ofNanos : Int → TimeVal                -- `time.Unix(0, n).UTC()`
  ofDays : Int → TimeVal                 -- `time.Date(1970, 1, 1+d, 0, 0, 0, 0, time.UTC)`
  custom : Nat → CustomCodec

def wrap64 (i : Int) : Int := (i + 2 ^ 63) % 2 ^ 64 - 2 ^ 63

/-- `ReadBuf.Next` (buffer.go:77) on the unread part of the buffer. The guard comes first; the
slice expression `d.buf[d.i-l : d.i]` panics when its bounds are not ordered and in range. -/
def next (l : Int) (bs : Bytes) : Outcome (Bytes × Bytes) :=
  if l < 0 ∨ l > bs.length then .err
  else if 0 ≤ l ∧ l.toNat ≤ bs.length then .ok (bs.take l.toNat, bs.drop l.toNat)
  else .panic

def isZeroF32 (b : Nat) : Bool := b == 0 || b == 2 ^ 31
def isZeroF64 (b : Nat) : Bool := b == 0 || b == 2 ^ 63

mutual
/-- what `New` allocates (zeroed), i.e. the zero value of the codec's Go type -/
def Codec.zero (env : Env) : Codec → GoVal
  | .null => .unit
  | .bool _ => .bool false
  | .int _ _ => .int 0
  | .float _ => .f32 0
  | .double _ => .f64 0
  | .f32double _ => .f32 0
  | .bytes _ => .bytes []
  | .string _ => .str []
  | .fixed n => .fixed (List.replicate n.toNat 0)
  | .array _ _ => .slice []
  | .map _ _ => .map true [] []
  | .pointer _ => .ptr none
  | .record z _ _ => .struct z
  | .union cs => zeroUnion env cs
  | .unionOne c _ => Codec.zero env c
  | .unionNullString _ _ => .str []
  | .timeString | .timeLong _ | .date => .time TimeVal.zero
  | .nullw k =>
    .nullw false (match k with
      | .int => .int 0 | .bool => .bool false | .double => .f64 0 | .float => .f64 0
      | .string => .str [] | .time => .time TimeVal.zero)
  | .custom id => (env.custom id).zero

/-- all branches of a general union decode into the same Go type: the first non-null branch's zero -/
def zeroUnion (env : Env) : List Codec → GoVal
  | [] => .unit
  | .null :: cs => zeroUnion env cs
  | c :: _ => Codec.zero env c
end

/-- `mapassign`: a later entry for the same key replaces the earlier one -/
def mapAssign (k : Bytes) (v : GoVal) : List Bytes → List GoVal → List Bytes × List GoVal
  | [], _ => ([k], [v])
  | k' :: ks, v' :: vs =>
    if k' = k then (k' :: ks, v :: vs)
    else let (ks', vs') := mapAssign k v ks vs; (k' :: ks', v' :: vs')
  | k' :: ks, [] => (k' :: ks, [])   -- unreachable for well-formed maps

def listSet {α} : List α → Nat → α → List α
  | [], _, _ => []
  | _ :: xs, 0, a => a :: xs
  | x :: xs, n + 1, a => x :: listSet xs n a

/-- `skip(r, l)` (discard.go) -/
def skipN (l : Int) (bs : Bytes) : Outcome Bytes :=
  match next l bs with
  | .ok (_, r) => .ok r
  | .err => .err | .panic => .panic | .stuck => .stuck | .fuel => .fuel

/-- skip over a varint -/
def skipVar (bs : Bytes) : Outcome Bytes :=
  match readVarint bs with
  | .ok (_, r) => .ok r
  | .error _ => .err

/-- skip over a length-prefixed byte string (`StringCodec.Skip` / `BytesCodec.Skip`) -/
def skipLen (bs : Bytes) : Outcome Bytes :=
  match readVarint bs with
  | .ok (l, r) => skipN l r
  | .error _ => .err

@[inline] def Outcome.bind {α β : Type} (o : Outcome α) (f : α → Outcome β) : Outcome β :=
  match o with
  | .ok a => f a
  | .err => .err
  | .panic => .panic
  | .stuck => .stuck
  | .fuel => .fuel

instance : Monad Outcome where
  pure := .ok
  bind := Outcome.bind

/-- varint as the codecs use it: any error of `ReadBuf.Varint` is an error of the codec -/
def rdVarint (bs : Bytes) : Outcome (Int × Bytes) :=
  match readVarint bs with
  | .ok p => .ok p
  | .error _ => .err

/-- `IntCodec[T].Read` -/
def rdInt (w : Nat) (bs : Bytes) : Outcome (Int × Bytes) :=
  match readInt w bs with
  | .ok p => .ok p
  | .error _ => .err

/-- `ReadBuf.ReadByte` -/
def rdByte : Bytes → Outcome (UInt8 × Bytes)
  | [] => .err
  | b :: r => .ok (b, r)

/-- the block header shared by array.go / map.go Read: returns the item count of the block.
`count = -count` wraps for MinInt64, leaving it negative: no iterations. -/
def blockCount (count : Int) (r : Bytes) : Outcome (Nat × Bytes) :=
  if count < 0 then do
    let (_, r') ← rdVarint r
    let c := wrap64 (-count)
    pure ((if c < 0 then 0 else c.toNat), r')
  else .ok (count.toNat, r)

/-- the codec embedded in a `null.*` wrapper codec -/
def nullInner : NullKind → Codec
  | .int => .int 64 false | .bool => .bool false | .double => .double false
  | .float => .float false | .string => .string false | .time => .timeString

section
variable (env : Env)

mutual
/-- `Codec.Read(r, p)`: `bs` is the unread input, `dst` the value currently behind `p`. -/
def read : Nat → Codec → Bytes → GoVal → Outcome (GoVal × Bytes)
  | 0, _, _, _ => .fuel
  | fuel + 1, c, bs, dst =>
    match c with
    | .null => .ok (dst, bs)
    | .bool _ => do
      let (b, r) ← rdByte bs
      pure (.bool (b != 0), r)
    | .int w _ => do
      let (v, r) ← rdInt w bs
      pure (.int v, r)
    | .float _ => do
      let (b, r) ← next 4 bs
      pure (.f32 (getLE b), r)
    | .double _ => do
      let (b, r) ← next 8 bs
      pure (.f64 (getLE b), r)
    | .f32double _ => do
      let (b, r) ← next 8 bs
      pure (.f32 (env.narrow (getLE b)), r)
    | .bytes _ => do
      let (l, r) ← rdVarint bs
      if l = 0 then pure (dst, r) else do
        let (b, r') ← next l r
        pure (.bytes b, r')
    | .string _ => do
      let (l, r) ← rdVarint bs
      if l < 0 then .err else do
        let (b, r') ← next l r
        pure (.str b, r')
    | .fixed n => do
      let (b, r) ← next n bs
      pure (.fixed b, r)
    | .array item _ =>
      match dst with
      | .slice items => do
        let (items', r) ← readArrayBlocks fuel item bs items
        pure (.slice items', r)
      | _ => .stuck
    | .map val _ =>
      match dst with
      | .map _ ks vs => do
        let ((ks', vs'), r) ← readMapBlocks fuel val bs ks vs
        pure (.map false ks' vs', r)
      | _ => .stuck
    | .pointer c' =>
      match dst with
      | .ptr none => do
        let (v, r) ← read fuel c' bs (Codec.zero env c')
        pure (.ptr (some v), r)
      | .ptr (some x) => do
        let (v, r) ← read fuel c' bs x
        pure (.ptr (some v), r)
      | _ => .stuck
    | .record _ codecs targets =>
      match dst with
      | .struct fs => do
        let (fs', r) ← readFields fuel codecs targets bs fs
        pure (.struct fs', r)
      | _ => .stuck
    | .union cs => do
      let (idx, r) ← rdVarint bs
      if idx < 0 ∨ idx ≥ cs.length then .err else
        match cs[idx.toNat]? with
        | some c' => read fuel c' r dst
        | none => .panic
    | .unionOne c' nonNull => do
      let (b, r) ← rdByte bs
      if b.toNat / 2 ≥ 2 then .err
      else if b.toNat / 2 = nonNull then read fuel c' r dst
      else pure (dst, r)
    | .unionNullString _ nonNull => do
      let (b, r) ← rdByte bs
      if b.toNat / 2 ≥ 2 then .err
      else if b.toNat / 2 = nonNull then read fuel (.string false) r dst
      else pure (dst, r)
    | .timeString => do
      let (l, r) ← rdVarint bs
      if l = 0 then pure (dst, r) else do
        let (b, r') ← next l r
        match env.parseTime b with
        | some t => pure (.time t, r')
        | none => .err
    | .timeLong mult => do
      let (v, r) ← rdInt 64 bs
      pure (.time (env.ofNanos (wrap64 (v * mult))), r)
    | .date => do
      let (v, r) ← rdInt 32 bs
      pure (.time (env.ofDays v), r)
    | .nullw k => do
      -- `Valid = true` is stored, then the embedded codec reads the payload field
      let dstInner : GoVal := match dst with | .nullw _ x => x | x => x
      let (v, r) ← read fuel (nullInner k) bs dstInner
      let v' := match k, v with
        | .float, .f32 b => .f64 (env.widen b)
        | _, x => x
      pure (.nullw true v', r)
    | .custom id =>
      match (env.custom id).read bs with
      | some (v, r) => .ok (v, r)
      | none => .err

/-- `recordCodec.Read`: fields in schema order; a field with no target is skipped -/
def readFields : Nat → List Codec → List (Option Nat) → Bytes → List GoVal → Outcome (List GoVal × Bytes)
  | 0, _, _, _, _ => .fuel
  | _ + 1, [], _, bs, fs => .ok (fs, bs)
  | _ + 1, _ :: _, [], _, _ => .stuck
  | fuel + 1, c :: cs, none :: ts, bs, fs => do
    let r ← skip fuel c bs
    readFields fuel cs ts r fs
  | fuel + 1, c :: cs, some i :: ts, bs, fs =>
    match fs[i]? with
    | none => .stuck
    | some cur => do
      let (v, r) ← read fuel c bs cur
      readFields fuel cs ts r (listSet fs i v)

/-- the block loop of `arrayCodec.Read` (array.go:19); `acc` is the destination slice so far -/
def readArrayBlocks : Nat → Codec → Bytes → List GoVal → Outcome (List GoVal × Bytes)
  | 0, _, _, _ => .fuel
  | fuel + 1, item, bs, acc => do
    let (count, r) ← rdVarint bs
    if count = 0 then pure (acc, r) else do
      let (n, r') ← blockCount count r
      let (acc', r'') ← readItems fuel item n r' acc
      readArrayBlocks fuel item r'' acc'

def readItems : Nat → Codec → Nat → Bytes → List GoVal → Outcome (List GoVal × Bytes)
  | 0, _, _, _, _ => .fuel
  | _ + 1, _, 0, bs, acc => .ok (acc, bs)
  | fuel + 1, item, n + 1, bs, acc => do
    let (v, r) ← read fuel item bs (Codec.zero env item)
    readItems fuel item n r (acc ++ [v])

/-- the block loop of `MapCodec.Read` (map.go:24) -/
def readMapBlocks : Nat → Codec → Bytes → List Bytes → List GoVal → Outcome ((List Bytes × List GoVal) × Bytes)
  | 0, _, _, _, _ => .fuel
  | fuel + 1, val, bs, ks, vs => do
    let (count, r) ← rdVarint bs
    if count = 0 then pure ((ks, vs), r) else do
      let (n, r') ← blockCount count r
      let ((ks', vs'), r'') ← readMapItems fuel val n r' ks vs
      readMapBlocks fuel val r'' ks' vs'

def readMapItems : Nat → Codec → Nat → Bytes → List Bytes → List GoVal → Outcome ((List Bytes × List GoVal) × Bytes)
  | 0, _, _, _, _, _ => .fuel
  | _ + 1, _, 0, bs, ks, vs => .ok ((ks, vs), bs)
  | fuel + 1, val, n + 1, bs, ks, vs => do
    -- key: StringCodec.Read
    let (l, r) ← rdVarint bs
    if l < 0 then .err else do
      let (k, r') ← next l r
      let (v, r'') ← read fuel val r' (Codec.zero env val)
      readMapItems fuel val n r'' (mapAssign k v ks vs).1 (mapAssign k v ks vs).2

/-- `Codec.Skip(r)` -/
def skip : Nat → Codec → Bytes → Outcome Bytes
  | 0, _, _ => .fuel
  | fuel + 1, c, bs =>
    match c with
    | .null => .ok bs
    | .bool _ => skipN 1 bs
    | .int _ _ => skipVar bs
    | .float _ => skipN 4 bs
    | .double _ | .f32double _ => skipN 8 bs
    | .bytes _ | .string _ => skipLen bs
    | .fixed n => skipN n bs
    | .array item _ => skipBlocks fuel false item bs
    | .map val _ => skipBlocks fuel true val bs
    | .pointer c' => skip fuel c' bs
    | .record _ codecs _ => skipFields fuel codecs bs
    | .union cs => do
      let (idx, r) ← rdVarint bs
      if idx < 0 ∨ idx ≥ cs.length then .err else
        match cs[idx.toNat]? with
        | some c' => skip fuel c' r
        | none => .panic
    | .unionOne c' nonNull => do
      let (b, r) ← rdByte bs
      if b.toNat / 2 ≥ 2 then .err
      else if b.toNat / 2 = nonNull then skip fuel c' r
      else pure r
    | .unionNullString _ nonNull => do
      let (b, r) ← rdByte bs
      if b.toNat / 2 ≥ 2 then .err
      else if b.toNat / 2 = nonNull then skipLen r
      else pure r
    | .timeString => skipLen bs
    | .timeLong _ | .date => skipVar bs
    | .nullw k =>
      match k with
      | .int => skipVar bs
      | .bool => skipN 1 bs
      | .double => skipN 8 bs
      | .float => skipN 4 bs
      | .string | .time => skipLen bs
    | .custom id =>
      match (env.custom id).skip bs with
      | some r => .ok r
      | none => .err

def skipFields : Nat → List Codec → Bytes → Outcome Bytes
  | 0, _, _ => .fuel
  | _ + 1, [], bs => .ok bs
  | fuel + 1, c :: cs, bs => do
    let r ← skip fuel c bs
    skipFields fuel cs r

/-- block loop of `arrayCodec.Skip` / `MapCodec.Skip`: a negative count is followed by the block's
byte size, which is skipped in one step -/
def skipBlocks : Nat → Bool → Codec → Bytes → Outcome Bytes
  | 0, _, _, _ => .fuel
  | fuel + 1, keyed, item, bs => do
    let (count, r) ← rdVarint bs
    if count = 0 then pure r
    else if count < 0 then do
      let (size, r') ← rdVarint r
      let r'' ← skipN size r'
      skipBlocks fuel keyed item r''
    else do
      let r' ← skipItems fuel keyed item count.toNat r
      skipBlocks fuel keyed item r'

def skipItems : Nat → Bool → Codec → Nat → Bytes → Outcome Bytes
  | 0, _, _, _, _ => .fuel
  | _ + 1, _, _, 0, bs => .ok bs
  | fuel + 1, keyed, item, n + 1, bs => do
    let r ← if keyed then skipLen bs else pure bs
    let r' ← skip fuel item r
    skipItems fuel keyed item n r'
end

/-! ### Omit / Write (structural in the codec) -/

/-- `Codec.Omit(p)` (`omit` is a Lean keyword, hence `omits`) -/
def omits : Codec → GoVal → Bool
  | .null, _ => true
  | .bool o, .bool b => o && !b
  | .int _ o, .int v => o && v == 0
  | .float o, .f32 b => o && isZeroF32 b
  | .double o, .f64 b => o && isZeroF64 b
  | .f32double o, .f32 b => o && isZeroF32 b
  | .bytes o, .bytes bs => o && bs.isEmpty
  | .string o, .str bs => o && bs.isEmpty
  | .array _ o, .slice items => o && items.isEmpty
  | .map _ o, .map _ ks _ => o && ks.isEmpty
  | .pointer _, .ptr none => true
  | .pointer (.pointer c), .ptr (some x) => omits (.pointer c) x
  | .timeString, .time t => t.isZero
  | .timeLong _, .time t => t.isZero
  | .date, .time t => t.isZero
  | .nullw _, .nullw valid _ => !valid
  | .custom id, v => (env.custom id).omits v
  | _, _ => false

def encLen (bs : Bytes) : Bytes := writeVarint bs.length ++ bs

/-- the codec behind any number of pointer indirections (`PointerCodec.Write` looks through them
when the outer pointer is nil) -/
def Codec.stripPtr : Codec → Codec
  | .pointer c => Codec.stripPtr c
  | c => c

mutual
/-- `Codec.Write(w, p)`; `none` = the Go code panics or reads through a pointer of the wrong shape
(or the step budget ran out). -/
def write : Nat → Codec → GoVal → Option Bytes
  | 0, _, _ => none
  | fuel + 1, c, g =>
    match c, g with
    | .null, _ => some []
    | .bool _, .bool b => some (writeBool b)
    | .int _ _, .int v => some (writeVarint v)
    | .float _, .f32 b => some (putLE 4 b)
    | .double _, .f64 b => some (putLE 8 b)
    | .f32double _, .f32 b => some (putLE 8 (env.widen b))
    | .bytes _, .bytes bs => some (encLen bs)
    | .string _, .str bs => some (encLen bs)
    | .fixed _, .fixed bs => some bs
    | .array item _, .slice items =>
      if items.isEmpty then some (writeVarint 0) else
      match writeItems fuel item items with
      | some body => some (writeVarint items.length ++ body ++ writeVarint 0)
      | none => none
    | .map val _, .map _ ks vs =>
      if ks.isEmpty then some (writeVarint 0) else
      match writeEntries fuel val ks vs with
      | some body => some (writeVarint ks.length ++ body ++ writeVarint 0)
      | none => none
    | .pointer c', .ptr none =>
      -- nil outside a union: slices and maps are written as empty, anything else writes nothing
      match Codec.stripPtr c' with
      | .array _ _ | .map _ _ => some (writeVarint 0)
      | _ => some []
    | .pointer c', .ptr (some x) => write fuel c' x
    | .record _ codecs targets, .struct fs => writeFields fuel codecs targets fs
    | .union _, _ => none      -- `unionCodec.Write` panics by design
    | .unionOne c' nonNull, v =>
      if omits env c' v then some (writeVarint (1 - (nonNull : Int)))
      else match write fuel c' v with
        | some b => some (writeVarint nonNull ++ b)
        | none => none
    | .unionNullString o nonNull, .str bs =>
      if o && bs.isEmpty then some (writeVarint (1 - (nonNull : Int)))
      else some (writeVarint nonNull ++ encLen bs)
    | .timeString, .time t => some (encLen (env.fmtTime t))
    | .timeLong mult, .time t =>
      let nanos : Int := t.unix * 1000000000 + t.nsec
      let l : Int := if mult = 1 then wrap64 nanos
        else if mult = 1000000 then Int.fdiv nanos 1000000
        else Int.fdiv nanos 1000
      some (writeVarint l)
    | .date, .time t => some (writeVarint (Int.fdiv t.unix 86400))
    | .nullw k, .nullw _ inner =>
      match k, inner with
      | .int, .int v => some (writeVarint v)
      | .bool, .bool b => some (writeBool b)
      | .double, .f64 b => some (putLE 8 b)
      | .float, .f64 b => some (putLE 4 (env.narrow b))
      | .string, .str bs => some (encLen bs)
      | .time, .time t => some (encLen (env.fmtTime t))
      | _, _ => none
    | .custom id, v => some ((env.custom id).write v)
    | _, _ => none

def writeItems : Nat → Codec → List GoVal → Option Bytes
  | 0, _, _ => none
  | _ + 1, _, [] => some []
  | fuel + 1, c, v :: vs =>
    match write fuel c v, writeItems fuel c vs with
    | some a, some b => some (a ++ b)
    | _, _ => none

def writeEntries : Nat → Codec → List Bytes → List GoVal → Option Bytes
  | 0, _, _, _ => none
  | _ + 1, _, [], [] => some []
  | fuel + 1, c, k :: ks, v :: vs =>
    match write fuel c v, writeEntries fuel c ks vs with
    | some a, some b => some (encLen k ++ a ++ b)
    | _, _ => none
  | _ + 1, _, _, _ => none

/-- `recordCodec.Write`: a field without a target would be read from `p + MaxUint64` -/
def writeFields : Nat → List Codec → List (Option Nat) → List GoVal → Option Bytes
  | 0, _, _, _ => none
  | _ + 1, [], _, _ => some []
  | fuel + 1, c :: cs, some i :: ts, fs =>
    match fs[i]? with
    | none => none
    | some v =>
      match write fuel c v, writeFields fuel cs ts fs with
      | some a, some b => some (a ++ b)
      | _, _ => none
  | _ + 1, _ :: _, _, _ => none
end

end

end Avro
