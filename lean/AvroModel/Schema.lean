import AvroModel.SchemaTypes
/-! Model of `/repo/schema.go`: the `Schema` value, its hand-written JSON unmarshaller
(`Schema.UnmarshalJSONFrom`, schema.go:70) and marshaller (`Schema.MarshalJSONTo`, schema.go:100),
together with the default struct decoding / encoding rules of `github.com/go-json-experiment/json`
that the hand-written code relies on. JSON *text* (whitespace, escapes, syntax errors, UTF-8
validity) is outside the model: a document is a `Json` tree with ordered members, duplicates
preserved. Core Lean only.

Library rules, determined by experiment against the pinned library version (small Go programs run
against the real `avro.SchemaFromString` / `Schema.Marshal`; every row is also in the fixed corpus of
harness/schema.go and so re-checked on every run):

| document | observed |
|---|---|
| unknown member (`doc`, `default`, …, also `""`) | ignored, value only syntax-checked |
| member names | case-sensitive: `{"Type":"int"}` leaves Type empty; `{"TYPE":…,"type":…}` is no duplicate |
| duplicate member name, known or unknown, any depth (also inside ignored values; `\u0074ype` = `type`) | error |
| `"size":"4"`, `"size":true`, `"fields":{}`, `"name":1`, `"symbols":"a"`, `"symbols":["a",1]`, `"fields":[1]` | error |
| `"type":{…}` / `"type":[…]` / `"type":1` inside an object (`SchemaObject.Type` is a Go string) | error |
| `null` for a string / int / slice attribute; `null` as a record field; `null` as a symbol | zero value ("" / 0 / nil / empty field / "") |
| `null` where a `Schema` is expected (`items`, `values`, field `type`, union branch, top level) | error (UnmarshalJSONFrom is called and rejects the token) |
| `"size":4.0`, `4e0`, `1E2`, `1e400` | error (only integer syntax); `-0` → 0; `-3` accepted |
| `"size":9223372036854775808`, `-9223372036854775809` | error (out of range of Go int) |
| top-level number / `true` / `false` / `null` | error |
| `[]` | accepted: `{Type:"union", Union:[]}`; marshals as the string `"union"` |
| `{}`, `{"name":"a"}`, `{"type":"array"}` | accepted with zero attributes |
| `{"type":"record","size":4,"items":"int"}` | accepted, attributes stored; NOT written by Marshal |
| Marshal: nil `Fields` / `Symbols` | `[]`; field with empty name / zero type: member omitted (`omitempty`); zero `Items` → `""` |
| Marshal of a string that is not valid UTF-8 | error (outside the model: Lean strings are Unicode) |
-/
namespace Avro

/-- A JSON document as a tree. Object members are ORDERED and may contain duplicate names (the
library rejects duplicates, so they must be representable). A number whose text has integer syntax
(`-?(0|[1-9][0-9]*)`) is `num n`; any other number (fraction / exponent) keeps its text in `numRaw`. -/
inductive Json where
  | null
  | bool (b : Bool)
  | num (n : Int)
  | numRaw (s : String)
  | str (s : String)
  | arr (xs : List Json)
  | obj (ms : List (String × Json))
  deriving Inhabited, Repr

namespace SchemaField
def zero : SchemaField := .mk "" Schema.zero
end SchemaField

/-! ### Boolean structural equality (the driver needs it; `deriving DecidableEq` is not available
for nested mutual inductives). -/
mutual
def Schema.beq : Schema → Schema → Bool
  | .mk t o u, .mk t' o' u' => t == t' && Schema.beqOpt o o' && Schema.beqList u u'
def Schema.beqOpt : Option SchemaObject → Option SchemaObject → Bool
  | none, none => true
  | some a, some b => SchemaObject.beq a b
  | _, _ => false
def Schema.beqList : List Schema → List Schema → Bool
  | [], [] => true
  | a :: as, b :: bs => Schema.beq a b && Schema.beqList as bs
  | _, _ => false
def SchemaObject.beq : SchemaObject → SchemaObject → Bool
  | .mk t l n ns f i v s y, .mk t' l' n' ns' f' i' v' s' y' =>
    t == t' && l == l' && n == n' && ns == ns' && SchemaField.beqList f f' && Schema.beq i i'
      && Schema.beq v v' && s == s' && y == y'
def SchemaField.beqList : List SchemaField → List SchemaField → Bool
  | [], [] => true
  | a :: as, b :: bs => SchemaField.beq a b && SchemaField.beqList as bs
  | _, _ => false
def SchemaField.beq : SchemaField → SchemaField → Bool
  | .mk n t, .mk n' t' => n == n' && Schema.beq t t'
end

/-! ### Parsing -/

/-- Error classes of `SchemaFromString` on a syntactically valid JSON text. Only ok-versus-error is
compared with the implementation. -/
inductive PErr where
  | unexpectedToken        -- schema.go:95: value is not a string, array or object (null / bool / number)
  | wrongKind (attr : String)  -- library: JSON kind does not fit the Go type of a known attribute
  | duplicate (name : String)  -- jsontext: duplicate object member name (any object, any depth)
  | sizeSyntax             -- library: number with fraction/exponent into Go int
  | sizeRange              -- library: integer outside int64 into Go int
  deriving Repr, DecidableEq

abbrev PResult := Except PErr

/-- first duplicated member name of a member list, if any (jsontext reports the second occurrence) -/
def firstDup : List String → List String → Option String
  | _, [] => none
  | seen, k :: ks => if seen.contains k then some k else firstDup (k :: seen) ks

mutual
/-- What the tokenizer enforces while a value is *skipped* (unknown attribute): no object at any
depth has two members with the same name (experiment: `{"type":"int","doc":{"a":1,"a":2}}` is an
error, also at `/doc/0/b`). Everything else about a skipped value is irrelevant. -/
def Json.dupFree : Json → Bool
  | .arr xs => Json.dupFreeList xs
  | .obj ms => (firstDup [] (Json.keys ms)).isNone && Json.dupFreeMembers ms
  | _ => true
def Json.dupFreeList : List Json → Bool
  | [] => true
  | x :: xs => Json.dupFree x && Json.dupFreeList xs
def Json.dupFreeMembers : List (String × Json) → Bool
  | [] => true
  | (_, v) :: ms => Json.dupFree v && Json.dupFreeMembers ms
def Json.keys : List (String × Json) → List String
  | [] => []
  | (k, _) :: ms => k :: Json.keys ms
end

/-- Library rule for a Go `string` destination: JSON string ⇒ its value; `null` ⇒ "" (zero value);
every other kind ⇒ error (experiment: `{"type":1}`, `{"type":{…}}`, `{"type":[…]}` are errors,
`{"type":null}` yields ""). -/
def decString (attr : String) : Json → PResult String
  | .str s => .ok s
  | .null => .ok ""
  | _ => .error (.wrongKind attr)

def minInt64 : Int := -9223372036854775808
def maxInt64 : Int := 9223372036854775807

/-- Library rule for a Go `int` destination (64-bit): integer-syntax number in range ⇒ value;
`null` ⇒ 0; number with fraction or exponent ⇒ error (even `4.0`, `4e0`); out of range ⇒ error;
other kinds ⇒ error. -/
def decInt (attr : String) : Json → PResult Int
  | .num n => if minInt64 ≤ n ∧ n ≤ maxInt64 then .ok n else .error .sizeRange
  | .numRaw _ => .error .sizeSyntax
  | .null => .ok 0
  | _ => .error (.wrongKind attr)

/-- Library rule for `[]string` : array of (string | null) ⇒ list; `null` ⇒ nil. -/
def decStrings (attr : String) : Json → PResult (List String)
  | .arr xs => xs.mapM (decString attr)
  | .null => .ok []
  | _ => .error (.wrongKind attr)

/-- The nine known member names of `SchemaObject` (json tags, schema.go:48-61); matching is
case-sensitive (experiment: `{"Type":"int"}` leaves Type empty). -/
def objectKeys : List String :=
  ["type", "logicalType", "name", "namespace", "fields", "items", "values", "size", "symbols"]
/-- The two known member names of `SchemaRecordField` (schema.go:66-67). -/
def fieldKeys : List String := ["name", "type"]

/-- all attribute names known anywhere -/
def knownKeys : List String := objectKeys

/-- One decoded member of a `SchemaObject` document: which struct field it goes to, with the
decoded Go value. -/
inductive Attr where
  | type (s : String) | logicalType (s : String) | name (s : String) | nspace (s : String)
  | fields (fs : List SchemaField) | items (s : Schema) | values (s : Schema)
  | size (n : Int) | symbols (ys : List String)

/-- json tag of the struct field an `Attr` is stored in -/
def Attr.key : Attr → String
  | .type _ => "type" | .logicalType _ => "logicalType" | .name _ => "name" | .nspace _ => "namespace"
  | .fields _ => "fields" | .items _ => "items" | .values _ => "values" | .size _ => "size"
  | .symbols _ => "symbols"

/-- store a decoded member into its struct field; `none` = unknown member, nothing stored -/
def applyAttr : Option Attr → SchemaObject → SchemaObject
  | none, o => o
  | some (.type x), .mk _ l n ns f i v s y => .mk x l n ns f i v s y
  | some (.logicalType x), .mk t _ n ns f i v s y => .mk t x n ns f i v s y
  | some (.name x), .mk t l _ ns f i v s y => .mk t l x ns f i v s y
  | some (.nspace x), .mk t l n _ f i v s y => .mk t l n x f i v s y
  | some (.fields x), .mk t l n ns _ i v s y => .mk t l n ns x i v s y
  | some (.items x), .mk t l n ns f _ v s y => .mk t l n ns f x v s y
  | some (.values x), .mk t l n ns f i _ s y => .mk t l n ns f i x s y
  | some (.size x), .mk t l n ns f i v _ y => .mk t l n ns f i v x y
  | some (.symbols x), .mk t l n ns f i v s _ => .mk t l n ns f i v s x

/-- One decoded member of a `SchemaRecordField` document. -/
inductive FAttr where
  | name (s : String) | type (s : Schema)

def FAttr.key : FAttr → String
  | .name _ => "name" | .type _ => "type"

def applyFAttr : Option FAttr → SchemaField → SchemaField
  | none, f => f
  | some (.name x), .mk _ t => .mk x t
  | some (.type x), .mk n _ => .mk n x

/-- `s.Type = s.Object.Type; s.Object.Type = ""` (schema.go:91-92) -/
def hoist : SchemaObject → Schema
  | .mk t l n ns f i v s y => .mk t (some (.mk "" l n ns f i v s y)) []

/-- library: select the struct field by exact (case-sensitive) name and decode the value according to
the field's Go type; an unknown name's value is skipped (only checked for duplicate names inside).
`asSchema` / `asFields` are the value decoded as a `Schema` / as `[]SchemaRecordField` (passed in by
the caller, unevaluated, so that the recursion of `parseSchema` stays structural); they are forced
only for the members of that Go type. -/
def decodeAttr (k : String) (v : Json) (asSchema : Unit → PResult Schema) (asFields : Unit → PResult (List SchemaField)) :
    PResult (Option Attr) :=
  if k = "type" then do let x ← decString k v; .ok (some (.type x))
  else if k = "logicalType" then do let x ← decString k v; .ok (some (.logicalType x))
  else if k = "name" then do let x ← decString k v; .ok (some (.name x))
  else if k = "namespace" then do let x ← decString k v; .ok (some (.nspace x))
  else if k = "fields" then do let x ← asFields (); .ok (some (.fields x))
  else if k = "items" then do let x ← asSchema (); .ok (some (.items x))
  else if k = "values" then do let x ← asSchema (); .ok (some (.values x))
  else if k = "size" then do let x ← decInt k v; .ok (some (.size x))
  else if k = "symbols" then do let x ← decStrings k v; .ok (some (.symbols x))
  else if v.dupFree then .ok none
  else .error (.duplicate "")

/-- the same for the two members of `SchemaRecordField` -/
def decodeFAttr (k : String) (v : Json) (asSchema : Unit → PResult Schema) : PResult (Option FAttr) :=
  if k = "name" then do let x ← decString k v; .ok (some (.name x))
  else if k = "type" then do let x ← asSchema (); .ok (some (.type x))
  else if v.dupFree then .ok none
  else .error (.duplicate "")

mutual
/-- `Schema.UnmarshalJSONFrom` (schema.go:70): dispatch on the kind of the next token.
string ⇒ `Type`; array ⇒ `Type = "union"`, elements decoded as schemas; object ⇒ default struct
decoding into a fresh `SchemaObject`, then `Type` is hoisted (schema.go:91-92); anything else
(null, true, false, number) ⇒ error (schema.go:95). The library calls the method for `null` too
(experiment: `{"type":"array","items":null}` and `[null]` are errors). -/
def parseSchema : Json → PResult Schema
  | .str s => .ok (.mk s none [])
  | .arr xs => do
    let u ← parseSchemas xs
    .ok (.mk "union" none u)
  | .obj ms => do
    let o ← parseObjMembers [] SchemaObject.zero ms
    .ok (hoist o)
  | _ => .error .unexpectedToken
/-- library: `[]Schema` from a JSON array, element by element, in order -/
def parseSchemas : List Json → PResult (List Schema)
  | [] => .ok []
  | x :: xs => do
    let s ← parseSchema x
    let ss ← parseSchemas xs
    .ok (s :: ss)
/-- library default struct decoding of `SchemaObject`: members in document order; a repeated name is
an error (also for unknown names); then the member's value is decoded (`decodeAttr`) and stored in
the struct field selected by the name. -/
def parseObjMembers (seen : List String) (o : SchemaObject) : List (String × Json) → PResult SchemaObject
  | [] => .ok o
  | (k, v) :: ms =>
    if seen.contains k then .error (.duplicate k) else do
      let a ← decodeAttr k v (fun _ => parseSchema v) (fun _ => parseFields v)
      parseObjMembers (k :: seen) (applyAttr a o) ms
/-- library: `[]SchemaRecordField` : array ⇒ elements; `null` ⇒ nil; other kinds ⇒ error
(experiment: `"fields":{}` is an error, `"fields":null` is accepted). -/
def parseFields : Json → PResult (List SchemaField)
  | .arr xs => parseFieldList xs
  | .null => .ok []
  | _ => .error (.wrongKind "fields")
def parseFieldList : List Json → PResult (List SchemaField)
  | [] => .ok []
  | x :: xs => do
    let f ← parseField x
    let fs ← parseFieldList xs
    .ok (f :: fs)
/-- library: one `SchemaRecordField` : object ⇒ default struct decoding; `null` ⇒ zero value
(experiment: `"fields":[null]` gives one empty field); other kinds ⇒ error. -/
def parseField : Json → PResult SchemaField
  | .obj ms => parseFieldMembers [] SchemaField.zero ms
  | .null => .ok SchemaField.zero
  | _ => .error (.wrongKind "fields")
def parseFieldMembers (seen : List String) (f : SchemaField) : List (String × Json) → PResult SchemaField
  | [] => .ok f
  | (k, v) :: ms =>
    if seen.contains k then .error (.duplicate k) else do
      let a ← decodeFAttr k v (fun _ => parseSchema v)
      parseFieldMembers (k :: seen) (applyFAttr a f) ms
end

/-! ### Marshalling -/

/-- `jsontext.String` members written only when non-empty (schema.go:112-135) -/
def optMember (k v : String) : List (String × Json) := if v = "" then [] else [(k, .str v)]

/-- the JSON text produced for a schema is "empty" in the sense of the library's `omitempty`
(null, "", {}, []) exactly when it is the bare empty string: `Object == nil`, no union, `Type == ""`.
(An object always has a "type" member; a union array is written only when non-empty.) -/
def Schema.marshalsEmpty : Schema → Bool
  | .mk t none [] => t == ""
  | _ => false

mutual
/-- `Schema.MarshalJSONTo` (schema.go:100), token by token. -/
def marshalSchema : Schema → Json
  | .mk t (some o) _ =>
    .obj ([("type", Json.str t)] ++ optMember "logicalType" o.logicalType ++ optMember "name" o.name
      ++ optMember "namespace" o.nspace ++ marshalAttr t o)
  | .mk t none [] => .str t
  | .mk _ none (u :: us) => .arr (marshalSchemas (u :: us))
/-- the `switch s.Type` of schema.go:136: the one attribute selected by the type -/
def marshalAttr (t : String) : SchemaObject → List (String × Json)
  | .mk _ _ _ _ f i v s y =>
    if t = "record" then [("fields", .arr (marshalFields f))]
    else if t = "enum" then [("symbols", .arr (y.map Json.str))]
    else if t = "array" then [("items", marshalSchema i)]
    else if t = "map" then [("values", marshalSchema v)]
    else if t = "fixed" then [("size", .num s)]
    else []
def marshalSchemas : List Schema → List Json
  | [] => []
  | s :: ss => marshalSchema s :: marshalSchemas ss
def marshalFields : List SchemaField → List Json
  | [] => []
  | f :: fs => marshalField f :: marshalFields fs
/-- library default struct encoding of `SchemaRecordField` with its `omitempty` tags: `name`
omitted when "", `type` omitted when its encoding is an empty JSON value, i.e. the bare "" string
(experiment: `fields:[{"name":"a"}]` re-marshals without a "type" member; `[{}]` stays `[{}]`). -/
def marshalField : SchemaField → Json
  | .mk n t =>
    .obj (optMember "name" n ++ (if t.marshalsEmpty then [] else [("type", marshalSchema t)]))
end

/-! ### Well-formedness (DESIGN.md section 9, C14) -/

def SchemaObject.attrsFit (t : String) (o : SchemaObject) : Bool :=
  o.type == "" &&
  (t == "record" || o.fields.isEmpty) &&
  (t == "array" || o.items.marshalsEmpty) &&
  (t == "map" || o.values.marshalsEmpty) &&
  (t == "fixed" || o.size == 0) &&
  (t == "enum" || o.symbols.isEmpty) &&
  decide (minInt64 ≤ o.size ∧ o.size ≤ maxInt64)

mutual
/-- `wf s`: a union (`Object == nil`, `Union` non-empty) has `Type == "union"`; a schema whose
`Type` is "union" without object has a non-empty branch list; an object never carries a union;
`Object.Type == ""` (hoisted); the object's attributes are those relevant to the type
(fields↔record, items↔array, values↔map, size↔fixed, symbols↔enum; name, namespace and
logicalType anywhere), `Size` is a Go `int`; recursively for fields, items, values, branches. -/
def Schema.wf : Schema → Bool
  | .mk t none [] => t != "union"
  | .mk t none (u :: us) => t == "union" && Schema.wfList (u :: us)
  | .mk t (some o) u => u.isEmpty && o.attrsFit t && SchemaObject.wfKids o
def Schema.wfList : List Schema → Bool
  | [] => true
  | s :: ss => Schema.wf s && Schema.wfList ss
def SchemaObject.wfKids : SchemaObject → Bool
  | .mk _ _ _ _ f i v _ _ => SchemaField.wfList f && Schema.wf i && Schema.wf v
def SchemaField.wfList : List SchemaField → Bool
  | [] => true
  | .mk _ t :: fs => Schema.wf t && SchemaField.wfList fs
end

/-- The well-formedness predicate of C14 (decidable by evaluation of `Schema.wf`). -/
def WF (s : Schema) : Prop := s.wf = true
instance (s : Schema) : Decidable (WF s) := inferInstanceAs (Decidable (s.wf = true))


/-! ### The document grammar of the property ("Avro schema documents over the supported attributes")

A document is in the grammar when: a bare string is a type name (not the word "union", which the
implementation reserves for `Schema.Type` of unions); an array is a non-empty list of documents;
an object carries string-valued `type` / `logicalType` / `name` / `namespace`, and the
type-specific attributes only where they belong (fields↔record, items↔array, values↔map,
size↔fixed, symbols↔enum) with the right JSON kinds; any other member is an unknown attribute with
an arbitrary value. Duplicate member names are not excluded here (`Json.dupFree` does that). -/

def Json.isStr : Json → Bool | .str _ => true | _ => false
def Json.isStrs : List Json → Bool
  | [] => true
  | x :: xs => x.isStr && Json.isStrs xs

/-- value of the first member called "type" if it is a string, else "" -/
def typeOfMembers (ms : List (String × Json)) : String :=
  match ms.lookup "type" with
  | some (.str t) => t
  | _ => ""

/-- is the member `(k, v)` acceptable in an object-form schema of type `t`? (`isDoc` / `isFields`:
"`v` is a schema document" / "`v` is a fields array", passed unevaluated by the recursive caller) -/
def attrFit (t k : String) (v : Json) (isDoc isFields : Unit → Bool) : Bool :=
  if k = "type" then (match v with | .str s => s == t | _ => false)
  else if k = "logicalType" then v.isStr
  else if k = "name" then v.isStr
  else if k = "namespace" then v.isStr
  else if k = "fields" then t == "record" && isFields ()
  else if k = "items" then t == "array" && isDoc ()
  else if k = "values" then t == "map" && isDoc ()
  else if k = "size" then t == "fixed" && (match v with | .num _ => true | _ => false)
  else if k = "symbols" then t == "enum" && (match v with | .arr ys => Json.isStrs ys | _ => false)
  else true

/-- the same for a member of a record-field object -/
def fieldAttrFit (k : String) (v : Json) (isDoc : Unit → Bool) : Bool :=
  if k = "name" then v.isStr else if k = "type" then isDoc () else true

mutual
def Json.isSchemaDoc : Json → Bool
  | .str t => t != "union"
  | .arr [] => false
  | .arr (x :: xs) => Json.isSchemaDoc x && Json.isSchemaDocs xs
  | .obj ms => Json.membersFit (typeOfMembers ms) ms
  | _ => false
def Json.isSchemaDocs : List Json → Bool
  | [] => true
  | x :: xs => Json.isSchemaDoc x && Json.isSchemaDocs xs
def Json.membersFit (t : String) : List (String × Json) → Bool
  | [] => true
  | (k, v) :: ms =>
    attrFit t k v (fun _ => Json.isSchemaDoc v) (fun _ => Json.isFieldsDoc v) && Json.membersFit t ms
def Json.isFieldsDoc : Json → Bool
  | .arr xs => Json.isFieldDocs xs
  | _ => false
def Json.isFieldDocs : List Json → Bool
  | [] => true
  | x :: xs => Json.isFieldDoc x && Json.isFieldDocs xs
def Json.isFieldDoc : Json → Bool
  | .obj ms => Json.fieldMembersFit ms
  | _ => false
def Json.fieldMembersFit : List (String × Json) → Bool
  | [] => true
  | (k, v) :: ms => fieldAttrFit k v (fun _ => Json.isSchemaDoc v) && Json.fieldMembersFit ms
end

end Avro
