import AvroModel.Codec
/-!
Model of the container reader of philpearl/avro: `file.go` — `ReadFile` (l.107), `readFileHeader`
(l.212), `readBytes` (l.258), `readN` (l.273), `FileHeader.schema` (l.296), `nullCompression` /
`deflate` / `snappyCodec` `decompress` (l.316, l.331, l.366) — as the code is *now* (after the repairs: a
header without `avro.codec` is read as uncompressed, inflate errors are returned, snappy blocks
shorter than four bytes and negative lengths are rejected, nothing is allocated from a declared length).

The byte source is the list of unread bytes behind the `Reader` (`io.Reader` + `io.ByteReader`,
in practice a `bufio.Reader`). `encoding/binary.ReadVarint` and `io.ReadFull` are modelled from
their sources (they differ from the library's own `ReadBuf.uvarint`: see `ioUvarintAux`).

External code is a parameter (`Ext`): compress/flate's inflater, `snappy.Decode`, `crc32.ChecksumIEEE`,
and JSON schema parsing + `Schema.Codec` (`build`, which yields the record decoder). The record
decoder stands for `typedmemclr(rtyp, p); codec.Read(br, p)` (file.go:191-192): it decodes one
record into a zeroed destination and returns the unread rest of the block buffer. The caller's
callback is a function of the global record index: `cb i = some e` means the callback returns the
error `e` when it is handed record number `i` (0-based over the whole file).
-/
namespace Avro.File
open Avro

/-! ### The byte source -/

/-- The errors `binary.ReadVarint` / `io.ReadFull` can return on an in-memory source. -/
inductive IoErr where
  | eof             -- io.EOF: nothing at all could be read
  | unexpectedEOF   -- io.ErrUnexpectedEOF: the source ended in the middle
  | overflow        -- "binary: varint overflows a 64-bit integer"
  deriving DecidableEq, Repr

/-- `binary.ReadUvarint` (encoding/binary/varint.go:128): `i` is the loop index, `x` the accumulator
(the shift is `7*i`). The loop runs for `i < MaxVarintLen64 = 10`; when it ends without a
terminating byte the result is `errOverflow` *without reading an eleventh byte*. `ReadByte`'s
`io.EOF` is passed on unchanged only for `i = 0`, otherwise it becomes `io.ErrUnexpectedEOF`. -/
def ioUvarintAux : Nat → Nat → Bytes → Except IoErr (Nat × Bytes)
  | i, _, [] => if i ≥ 10 then .error .overflow else if i = 0 then .error .eof else .error .unexpectedEOF
  | i, x, b :: rest =>
    if i ≥ 10 then .error .overflow
    else if b.toNat < 128 then
      if i = 9 ∧ b.toNat > 1 then .error .overflow
      else .ok (x + b.toNat * 2 ^ (7 * i), rest)
    else ioUvarintAux (i + 1) (x + (b.toNat % 128) * 2 ^ (7 * i)) rest

/-- `binary.ReadVarint` (varint.go:157): zig-zag decoding of `ReadUvarint`; the error is passed on. -/
def ioVarint (bs : Bytes) : Except IoErr (Int × Bytes) :=
  match ioUvarintAux 0 0 bs with
  | .ok (n, rest) => .ok (unzig n, rest)
  | .error e => .error e

/-- `io.ReadFull(r, buf)` with `len(buf) = n` (io.go:329 `ReadAtLeast`): success without reading for
`n = 0`; `io.EOF` if no byte was read; `io.ErrUnexpectedEOF` after a partial read. -/
def readFull (n : Nat) (bs : Bytes) : Except IoErr (Bytes × Bytes) :=
  if n = 0 then .ok ([], bs)
  else if bs.length = 0 then .error .eof
  else if bs.length < n then .error .unexpectedEOF
  else .ok (bs.take n, bs.drop n)

/-! ### Outcomes -/

/-- Which `return …err…` statement of file.go produced the error. -/
inductive ErrKind where
  | magicRead       -- l.216 "failed to read file magic"
  | magic           -- l.219 "file header Magic is not correct"
  | metaCount       -- l.227 "failed to read count of map block"
  | metaNegCount    -- l.233 "negative block size not supported in file header"
  | metaKey         -- l.239 "failed to read key for map" (incl. l.264 negative length)
  | metaVal         -- l.244 "failed to read value for map"
  | headerSync      -- l.252 "failed to read file sync"
  | unknownCodec    -- l.124 "compression codec %s not supported"
  | noSchema        -- l.299 "no schema found in file header"
  | badSchema       -- l.303 schema JSON does not parse / l.135 "failed to build codec"
  | count           -- l.168 "reading item count"
  | length          -- l.172 "reading data block length"
  | negLength       -- l.175 "negative data block length"
  | payload         -- l.179 "reading %d bytes of compressed data"
  | inflate         -- l.340 "inflating block" (under l.183 "decompress failed")
  | snappyShort     -- l.368 "snappy block too short to hold a checksum"
  | snappyDecode    -- l.373 "snappy decode failed"
  | crc             -- l.378 "snappy checksum mismatch"
  | record          -- l.193 "failed to read item %d in file"
  | syncRead        -- l.204 "failed reading block signature"
  | syncMismatch    -- l.207 "sync block does not match"
  deriving DecidableEq, Repr

/-- Go run-time panics that the statements of file.go could raise. -/
inductive PanicKind where
  | sliceBounds     -- compressed[:len(compressed)-4] with len < 4
  | codecPanic      -- the record codec panicked
  | codecStuck      -- the record codec stored through a pointer of the wrong shape
  | codecFuel       -- the record codec did not finish
  deriving DecidableEq, Repr

/-- Result of a step that reads from the source. -/
inductive Step (β : Type) where
  | ok (b : β)
  | err (k : ErrKind)
  | panic (k : PanicKind)
  | fuel
  deriving Repr

@[inline] def Step.bind {β γ : Type} (s : Step β) (f : β → Step γ) : Step γ :=
  match s with
  | .ok b => f b
  | .err k => .err k
  | .panic k => .panic k
  | .fuel => .fuel

instance : Monad Step where
  pure := .ok
  bind := Step.bind

/-- What `ReadFile` returned: `nil`, an error built by file.go, the callback's own error value
(returned as it is, file.go:197), a panic, or out of fuel (the model's loop bound was too small;
`fuel_enough` shows `length + 1` always suffices). -/
inductive Res (ε : Type) where
  | ok
  | err (k : ErrKind)
  | cb (e : ε)
  | panic (k : PanicKind)
  | fuel
  deriving Repr, DecidableEq

/-- Observable behaviour of `ReadFile`: the records handed to the callback, in order, and the result. -/
structure Out (α ε : Type) where
  delivered : List α
  res : Res ε
  deriving Repr, DecidableEq

/-! ### Header -/

/-- chunk size of `readN` (file.go:274) -/
def chunk : Nat := 2 ^ 20

/-- `readN(r, buf, n)` (file.go:273) for `n ≥ 0`: the bytes are read in chunks of at most 1 MiB with
`io.ReadFull`, into a buffer that grows with what has arrived (no allocation from the declared
length: each `make` is for at most `chunk` bytes, the re-slicing is guarded by the capacity test, so
no statement of the loop can panic). The first chunk that cannot be filled ends the loop with that
`ReadFull`'s error: `io.EOF` when the input ended exactly at a chunk boundary, `io.ErrUnexpectedEOF`
otherwise — both are errors for every caller. The partial buffer returned with an error is only
used for the error text. -/
def readN (n : Nat) (bs : Bytes) : Except IoErr (Bytes × Bytes) :=
  if n = 0 then .ok ([], bs)
  else
    match readFull (min n chunk) bs with
    | .error e => .error e
    | .ok (a, r) =>
      match readN (n - min n chunk) r with
      | .error e => .error e
      | .ok (b, r') => .ok (a ++ b, r')
termination_by n
decreasing_by
  have : 0 < chunk := by decide
  omega

/-- `readBytes` (file.go:258); `ek` is how the caller wraps the error. -/
def readBytes (ek : ErrKind) (bs : Bytes) : Step (Bytes × Bytes) :=
  match ioVarint bs with
  | .error _ => .err ek
  | .ok (l, r) =>
    if l < 0 then .err ek
    else
      match readN l.toNat r with
      | .ok (v, r') => .ok (v, r')
      | .error _ => .err ek

/-- `fh.Meta`: the Go map as an association list, newest entry first (so a later key wins). -/
abbrev Meta := List (Bytes × Bytes)

def metaGet : Meta → Bytes → Option Bytes
  | [], _ => none
  | (k', v) :: m, k => if k' = k then some v else metaGet m k

/-- the `for ; count > 0; count--` loop of `readFileHeader` (file.go:236) -/
def readEntries : Nat → Bytes → Meta → Step (Meta × Bytes)
  | 0, bs, m => .ok (m, bs)
  | n + 1, bs, m => do
    let (k, r1) ← readBytes .metaKey bs
    let (v, r2) ← readBytes .metaVal r1
    readEntries n r2 ((k, v) :: m)

/-- the outer `for` loop over map blocks of `readFileHeader` (file.go:224) -/
def readMeta : Nat → Bytes → Meta → Step (Meta × Bytes)
  | 0, _, _ => .fuel
  | fuel + 1, bs, m =>
    match ioVarint bs with
    | .error _ => .err .metaCount
    | .ok (c, r) =>
      if c = 0 then .ok (m, r)
      else if c < 0 then .err .metaNegCount
      else do
        let (m', r') ← readEntries c.toNat r m
        readMeta fuel r' m'

structure Header where
  «meta» : Meta
  sync : Bytes
  deriving Repr

/-- `FileMagic` -/
def magic : Bytes := [0x4F, 0x62, 0x6A, 0x01]

/-- `readFileHeader` (file.go:212) -/
def readFileHeader (fuel : Nat) (bs : Bytes) : Step (Header × Bytes) :=
  match readFull 4 bs with
  | .error _ => .err .magicRead
  | .ok (m, r) =>
    if m ≠ magic then .err .magic
    else do
      let (mt, r') ← readMeta fuel r []
      match readFull 16 r' with
      | .error _ => .err .headerSync
      | .ok (s, r'') => pure ({ «meta» := mt, sync := s }, r'')

/-- "avro.codec" -/
def kCodec : Bytes := [0x61, 0x76, 0x72, 0x6F, 0x2E, 0x63, 0x6F, 0x64, 0x65, 0x63]
/-- "avro.schema" -/
def kSchema : Bytes := [0x61, 0x76, 0x72, 0x6F, 0x2E, 0x73, 0x63, 0x68, 0x65, 0x6D, 0x61]
/-- "null" -/
def vNull : Bytes := [0x6E, 0x75, 0x6C, 0x6C]
/-- "deflate" -/
def vDeflate : Bytes := [0x64, 0x65, 0x66, 0x6C, 0x61, 0x74, 0x65]
/-- "snappy" -/
def vSnappy : Bytes := [0x73, 0x6E, 0x61, 0x70, 0x70, 0x79]

inductive CodecSel where
  | null | deflate | snappy
  deriving DecidableEq, Repr

/-- codec selection of `ReadFile` (file.go:114-126): no entry means uncompressed -/
def selectCodec (m : Meta) : Option CodecSel :=
  match metaGet m kCodec with
  | none => some .null
  | some v =>
    if v = vNull then some .null
    else if v = vDeflate then some .deflate
    else if v = vSnappy then some .snappy
    else none

/-! ### Decompression -/

/-- The record decoder obtained from the header's schema and the caller's type. -/
structure RecCodec (α : Type) where
  decode : Bytes → Outcome (α × Bytes)

/-- External code. -/
structure Ext (α : Type) where
  /-- `flate.NewReader` + `ReadFrom`: `none` when the inflater reports an error -/
  inflate : Bytes → Option Bytes
  /-- `snappy.Decode` -/
  unsnappy : Bytes → Option Bytes
  /-- `crc32.ChecksumIEEE` -/
  crc : Bytes → Nat
  /-- `json.Unmarshal` of the schema followed by `Schema.Codec(out)` -/
  build : Bytes → Option (RecCodec α)

/-- `binary.BigEndian.Uint32` -/
def beU32 (bs : Bytes) : Nat := bs.foldl (fun acc b => acc * 256 + b.toNat) 0

/-- `decompress` of the three `compressionCodec`s (file.go:316, 331, 366). The slice expressions
`compressed[:len(compressed)-4]` / `compressed[len(compressed)-4:]` panic for `len < 4`; the guard
before them makes that unreachable (`decompress_no_panic`). -/
def decompress {α : Type} (X : Ext α) : CodecSel → Bytes → Step Bytes
  | .null, c => .ok c
  | .deflate, c =>
    match X.inflate c with
    | some d => .ok d
    | none => .err .inflate
  | .snappy, c =>
    if c.length < 4 then .err .snappyShort
    else if 4 ≤ c.length then
      match X.unsnappy (c.take (c.length - 4)) with
      | none => .err .snappyDecode
      | some d => if X.crc d ≠ beU32 (c.drop (c.length - 4)) then .err .crc else .ok d
    else .panic .sliceBounds

/-! ### The block loop -/

section
variable {α ε : Type}

/-- The record loop `for i := int64(0); i < count; i++` (file.go:188-199). `idx` is the number of
callbacks made before. Returns the records handed to the callback and, if the loop was left by a
`return`, the result. A record is handed to the callback *before* its error is looked at, so the
record on which the callback fails counts as delivered. -/
def deliver (decode : Bytes → Outcome (α × Bytes)) (cb : Nat → Option ε) :
    Nat → Bytes → Nat → List α × Option (Res ε)
  | 0, _, _ => ([], none)
  | n + 1, buf, idx =>
    match decode buf with
    | .ok (v, rest) =>
      match cb idx with
      | some e => ([v], some (.cb e))
      | none => (v :: (deliver decode cb n rest (idx + 1)).1, (deliver decode cb n rest (idx + 1)).2)
    | .err => ([], some (.err .record))
    | .panic => ([], some (.panic .codecPanic))
    | .stuck => ([], some (.panic .codecStuck))
    | .fuel => ([], some (.panic .codecFuel))

/-- What the block loop needs to know once the header has been digested. -/
structure Cfg (α ε : Type) where
  decomp : Bytes → Step Bytes
  decode : Bytes → Outcome (α × Bytes)
  sync : Bytes
  cb : Nat → Option ε

/-- First half of one iteration of the block loop (file.go:163-180): the record count, the payload
length, its guard, the payload (`readN`). `ok none` is the clean end of the file (`io.EOF` from the
count varint: `ReadFile` returns nil); `ok (some (count, compressed, rest))` otherwise. -/
def blockHead (bs : Bytes) : Step (Option (Int × Bytes × Bytes)) :=
  match ioVarint bs with
  | .error .eof => .ok none
  | .error _ => .err .count
  | .ok (count, r1) =>
    match ioVarint r1 with
    | .error _ => .err .length
    | .ok (len, r2) =>
      if len < 0 then .err .negLength
      else
        match readN len.toNat r2 with
        | .error _ => .err .payload
        | .ok (comp, r3) => .ok (some (count, comp, r3))

/-- Second half of one iteration (file.go:181-208): decompress, hand `count` records to the
callback, then read and compare the sync marker; `next` is the rest of the loop. A negative `count`
runs the record loop zero times (`count.toNat = 0`); what is left of the block buffer after `count`
records is dropped by the next `br.Reset`; the sync marker is compared only after the block's
records were delivered. -/
def blockTail (cfg : Cfg α ε) (next : Bytes → Nat → Out α ε) (count : Int) (comp r3 : Bytes) (idx : Nat) : Out α ε :=
  match cfg.decomp comp with
  | .err k => ⟨[], .err k⟩
  | .panic k => ⟨[], .panic k⟩
  | .fuel => ⟨[], .fuel⟩
  | .ok data =>
    match deliver cfg.decode cfg.cb count.toNat data idx with
    | (ds, some res) => ⟨ds, res⟩
    | (ds, none) =>
      match readFull 16 r3 with
      | .error _ => ⟨ds, .err .syncRead⟩
      | .ok (sig, r4) =>
        if sig ≠ cfg.sync then ⟨ds, .err .syncMismatch⟩
        else ⟨ds ++ (next r4 (idx + ds.length)).delivered, (next r4 (idx + ds.length)).res⟩

/-- The block loop of `ReadFile` (file.go:162-209); `idx` is the number of callbacks made so far. -/
def readBlocks (cfg : Cfg α ε) : Nat → Bytes → Nat → Out α ε
  | 0, _, _ => ⟨[], .fuel⟩
  | fuel + 1, bs, idx =>
    match blockHead bs with
    | .err k => ⟨[], .err k⟩
    | .panic k => ⟨[], .panic k⟩
    | .fuel => ⟨[], .fuel⟩
    | .ok none => ⟨[], .ok⟩
    | .ok (some (count, comp, r3)) => blockTail cfg (readBlocks cfg fuel) count comp r3 idx

/-- `ReadFile` (file.go:107): header, codec selection, schema lookup, codec construction, block loop. -/
def readFile (X : Ext α) (fuel : Nat) (cb : Nat → Option ε) (bs : Bytes) : Out α ε :=
  match readFileHeader fuel bs with
  | .err k => ⟨[], .err k⟩
  | .panic k => ⟨[], .panic k⟩
  | .fuel => ⟨[], .fuel⟩
  | .ok (h, rest) =>
    match selectCodec h.meta with
    | none => ⟨[], .err .unknownCodec⟩
    | some sel =>
      match metaGet h.meta kSchema with
      | none => ⟨[], .err .noSchema⟩
      | some js =>
        match X.build js with
        | none => ⟨[], .err .badSchema⟩
        | some rc =>
          readBlocks { decomp := decompress X sel, decode := rc.decode, sync := h.sync, cb := cb } fuel rest 0

end

end Avro.File
