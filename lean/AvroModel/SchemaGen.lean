import AvroModel.Build
/-!
Model of schema generation (`buildschema.go`: SchemaForType, schemaForType, schemaForStruct,
schemaForArray, schemaForMap, nullableSchema, RegisterSchema) and of the schema registrations made by
`time.RegisterCodecs` (time/time.go:14) and `null.RegisterCodecs` (null/null.go:17).

Self-referential Go types are not finite trees: a named type that is being defined is referred to by
`GoType.ref name`, resolved through a type environment `TEnv`. Go's call stack is the `fuel`
argument: running out of it is the outcome `overflow` (a fatal stack overflow of the real program),
never hidden behind a default.
-/
namespace Avro

/-- outcome of a generation step: a result, an `error` return, or unbounded recursion -/
inductive Gen (α : Type) where
  | ok (a : α)
  | err
  | overflow
  deriving Repr

/-- named types that are referred to by `GoType.ref` -/
abbrev TEnv := String → Option GoType

def TEnv.empty : TEnv := fun _ => none

/-! ### type identity (`parent == typ` on `reflect.Type`) -/

mutual
/-- `reflect.Type` identity: two struct types are the same type when name, package path and fields
agree (for anonymous structs this is Go's structural identity, for named ones the name decides and
the fields agree anyway). -/
def GoType.beq : GoType → GoType → Bool
  | .bool, .bool => true
  | .int a, .int b => a == b
  | .uint a, .uint b => a == b
  | .float32, .float32 => true
  | .float64, .float64 => true
  | .complex, .complex => true
  | .string, .string => true
  | .slice a, .slice b => GoType.beq a b
  | .array n a, .array m b => n == m && GoType.beq a b
  | .map k v, .map k' v' => GoType.beq k k' && GoType.beq v v'
  | .ptr a, .ptr b => GoType.beq a b
  | .struct n p fs, .struct n' p' fs' => n == n' && p == p' && GoField.beqList fs fs'
  | .time, .time => true
  | .nullT k, .nullT k' => k == k'
  | .custom i u, .custom j u' => i == j && GoType.beq u u'
  | .iface, .iface => true
  | .chan, .chan => true
  | .func, .func => true
  | .unsafeptr, .unsafeptr => true
  | .ref n, .ref m => n == m
  | _, _ => false
def GoField.beqList : List GoField → List GoField → Bool
  | [], [] => true
  | .mk n e j b t :: fs, .mk n' e' j' b' t' :: fs' =>
    n == n' && e == e' && j == j' && b == b' && GoType.beq t t' && GoField.beqList fs fs'
  | _, _ => false
end

/-! ### the schema registry -/

/-- `nullableSchema` (buildschema.go:95, null/null.go:34) -/
def nullableSchema (s : Schema) : Schema := .mk "union" none [.prim "null", s]

/-- The schema registry (`schemaRegistry`, buildschema.go:12). The library's own registrations
(`time.RegisterCodecs`, `null.RegisterCodecs`) are always present — the harness, like every documented
use, calls both at start-up; user registrations `RegisterSchema(custom id, s)` form an association
list whose head is the most recent call. -/
structure SReg where
  custom : List (Nat × Schema)

def SReg.empty : SReg := ⟨[]⟩

/-- `RegisterSchema(typ, s)` (buildschema.go:18): `schemaRegistry[typ] = s` -/
def SReg.register (r : SReg) (id : Nat) (s : Schema) : SReg := ⟨(id, s) :: r.custom⟩

/-- the schema `null.RegisterCodecs` registers for each `null.*` type -/
def nullTSchema : NullKind → Schema
  | .int => nullableSchema (.prim "long")
  | .bool => nullableSchema (.prim "boolean")
  | .double | .float => nullableSchema (.prim "double")
  | .string => nullableSchema (.prim "string")
  | .time => nullableSchema (.prim "string")

def assocLookup (id : Nat) : List (Nat × Schema) → Option Schema
  | [] => none
  | (k, s) :: r => if k == id then some s else assocLookup id r

/-- `isInSchemaRegistry` (buildschema.go:37) -/
def sregLookup (r : SReg) : GoType → Option Schema
  | .time => some (nullableSchema (.prim "string"))
  | .nullT k => some (nullTSchema k)
  | .custom id _ => assocLookup id r.custom
  | _ => none

/-! ### schemaForType -/

/-- pointer case of schemaForType (buildschema.go:81): unions, arrays and maps stay as they are -/
def ptrWrap (u : Schema) : Schema :=
  if u.type == "union" || u.type == "array" || u.type == "map" then u else nullableSchema u

/-- `if omitEmpty(field) && s.Type != "union" { s = nullableSchema(s) }` (buildschema.go:117) -/
def omitWrap (oe : Bool) (s : Schema) : Schema :=
  if oe && s.type != "union" then nullableSchema s else s

/-- `namespaceReplacer.Replace(typ.PkgPath())` (buildschema.go:138) -/
def namespaceOf (pkg : String) : String :=
  String.ofList (pkg.toList.map fun c => if c == '/' then '.' else if c == '-' then '_' else c)

def recordSchema (name pkg : String) (fs : List SchemaField) : Schema :=
  .mk "record" (some (.mk "" "" name (namespaceOf pkg) fs Schema.zero Schema.zero 0 [])) []

def arraySchema (items : Schema) : Schema :=
  .mk "array" (some (.mk "" "" "" "" [] items Schema.zero 0 [])) []

def mapSchema (values : Schema) : Schema :=
  .mk "map" (some (.mk "" "" "" "" [] Schema.zero values 0 [])) []

/-- the kinds that are checked against and pushed on `parents` (buildschema.go:52) -/
def GoType.composite : GoType → Bool
  | .struct _ _ _ | .array _ _ | .slice _ | .map _ _ | .ptr _ => true
  | _ => false

/-- what `reflect` shows for a type expression: a back-reference is the named type itself -/
def resolve (env : TEnv) : GoType → GoType
  | .ref n => (env n).getD (.ref n)
  | t => t

/-- `elem.Kind() == reflect.Uint8` (buildschema.go:144) -/
def isByteKind (env : TEnv) (e : GoType) : Bool :=
  match (resolve env e).strip with
  | .uint 8 => true
  | _ => false

/-- `typ.Key().Kind() == reflect.String` (buildschema.go:164): named string types count -/
def isStringKind (env : TEnv) (k : GoType) : Bool :=
  match (resolve env k).strip with
  | .string => true
  | _ => false

/-- the field loop of `schemaForStruct` (buildschema.go:105), over the function that generates the
schema of a field type: fields named "-" are skipped, the first error ends the loop. -/
def genFields (rec : GoType → Gen Schema) : List GoField → Gen (List SchemaField)
  | [] => .ok []
  | f :: fs =>
    if nameForField f == "-" then genFields rec fs
    else
      match rec f.type with
      | .ok s =>
        match genFields rec fs with
        | .ok r => .ok (.mk (nameForField f) (omitWrap (omitEmptyTag f.jsonTag) s) :: r)
        | .err => .err
        | .overflow => .overflow
      | .err => .err
      | .overflow => .overflow

/-- the kind switch of schemaForType (buildschema.go:64) with `schemaForStruct` (:104),
`schemaForArray` (:142) and `schemaForMap` (:163) inlined; `rec` generates the schema of a component
type (with `parents` already extended), `k` is the kind view of the type (`GoType.strip`). -/
def genKind (env : TEnv) (rec : GoType → Gen Schema) : GoType → Gen Schema
  | .bool => .ok (.prim "boolean")
  | .int _ => .ok (.prim "long")
  | .float32 | .float64 => .ok (.prim "double")
  | .string => .ok (.prim "string")
  | .struct name pkg fs =>
    match genFields rec fs with
    | .ok sfs => .ok (recordSchema name pkg sfs)
    | .err => .err
    | .overflow => .overflow
  | .array _ e | .slice e =>
    if isByteKind env e then .ok (.prim "bytes")
    else
      match rec e with
      | .ok s => .ok (arraySchema s)
      | .err => .err
      | .overflow => .overflow
  | .map k v =>
    -- `typ.Key().Kind() != reflect.String` (buildschema.go:164)
    if isStringKind env k then
      match rec v with
      | .ok s => .ok (mapSchema s)
      | .err => .err
      | .overflow => .overflow
    else .err
  | .ptr e =>
    match rec e with
    | .ok u => .ok (ptrWrap u)
    | .err => .err
    | .overflow => .overflow
  | _ => .err

/-- one call of `schemaForType(typ, parents...)` (buildschema.go:47) on an actual type: the schema
registry first, then the self-reference check and push for the composite kinds (:52), then the kind
switch. `rec` is the recursive call. -/
def genResolved (sreg : SReg) (env : TEnv) (rec : List GoType → GoType → Gen Schema)
    (ps : List GoType) (t : GoType) : Gen Schema :=
  match sregLookup sreg t with
  | some s => .ok s
  | none =>
    if t.strip.composite then
      if ps.any (GoType.beq t) then .err
      else genKind env (rec (ps ++ [t])) t.strip
    else genKind env (rec ps) t.strip

/-- a back-reference is not a Go step: it *is* the named type it refers to -/
def genStep (sreg : SReg) (env : TEnv) (rec : List GoType → GoType → Gen Schema)
    (ps : List GoType) (t : GoType) : Gen Schema :=
  match t with
  | .ref n =>
    match env n with
    | some t' => rec ps t'
    | none => .err
  | _ => genResolved sreg env rec ps t

/-- `schemaForType`: every Go call costs one unit of `fuel` (the stack) -/
def schemaForType (sreg : SReg) (env : TEnv) : Nat → List GoType → GoType → Gen Schema
  | 0, _, _ => .overflow
  | fuel + 1, ps, t => genStep sreg env (schemaForType sreg env fuel) ps t

/-- `SchemaForType(item)` (buildschema.go:26): `item` must be a struct or a pointer to a struct -/
def schemaForItem (sreg : SReg) (env : TEnv) (fuel : Nat) (t : GoType) : Gen Schema :=
  let t := match resolve env t with
    | .ptr e => resolve env e
    | t => t
  match t.strip with
  | .struct _ _ _ => schemaForType sreg env fuel [] t
  | .time | .nullT _ => schemaForType sreg env fuel [] t
  | _ => .err

/-! ### the codec registry side of a registration -/

/-- `Register(custom id, builder)` (build.go:23) for a builder that accepts the schemas `acc` -/
def Reg.register (r : Reg) (id : Nat) (acc : Schema → Bool) : Reg :=
  { r with custom := fun i => if i == id then some acc else r.custom i }

end Avro
