/-!
# Bank — state-machine model of `ResourceBank`, `resourceBankPool` and the handles they issue

Mirrors `/repo/buffer.go`:

* `Arena`            = `resourceType` (buffer.go:150): per-type arena with `array`, `cap`, `len`
* `SData`            = `ResourceBank.sData` (buffer.go:172): the string arena, a Go byte slice
* `BankSt`           = `ResourceBank` (buffer.go:168) + two ghost fields (`epoch`, `pooled`)
* `findArena`/`updArena` = `findTyp` (buffer.go:208): linear search, append when absent
* `allocStep`        = `ResourceBank.Alloc` (buffer.go:181) reached through `ReadBuf.Alloc` (buffer.go:97)
* `toStringStep`     = `ResourceBank.ToString` (buffer.go:242) reached through `ReadBuf.NextAsString` (buffer.go:88)
* `closeStep`        = `ResourceBank.Close` (buffer.go:226)
* `getStep`          = `newResourceBank` (buffer.go:175) = `resourceBankPool.Get()`, used by `NewReadBuf`,
                       `Reset` (when `rb == nil`) and `ExtractResourceBank` (buffer.go:68)
* `storeStep`        = a write of the user (or of a codec) through a pointer obtained from `Alloc`

`ReadBuf.ExtractResourceBank` (buffer.go:68-72) hands the current bank to the caller and does a `get` for
the buffer; `ReadFile` (file.go:186-195) does, per record, a number of `alloc` / `toString` / `store` on
the buffer's bank followed by that hand-over — so every history of `ReadFile` with any callback that
respects the contract is one of the operation sequences quantified over here.

Memory is a heap `array id ↦ index ↦ cell value`; a fresh allocation (`unsafe_NewArray`, `append`
growing) gets an array id never used before — Go's allocator returns memory disjoint from every
reachable object, and every array a handle points into stays reachable through that handle. Typed
arrays and byte arrays live in two id spaces (`mem`, `smem`): they are different Go allocations.
One cell of a typed array stands for one whole element (`size` bytes); value `0` = all bytes zero.

Ghost state (not in the Go code, used to *state* the property): `epoch` counts the `Close` calls
a bank has seen, `pooled` says that the bank currently sits in `resourceBankPool`, `issued` /
`sissued` remember every handle ever handed out, each tagged with (bank, epoch at issue). A handle
is *live* while its bank has not been closed since the handle was issued.

Where the Go code would dereference nil or write outside its array (only possible if the arena
bookkeeping were inconsistent) the model yields `Out.fault`; `Props/C10.lean` proves that this never
happens.
-/
namespace Avro.Bank

/-- `resourceType` (buffer.go:150-161). `arr = none` is the nil `array` of a just-appended entry. -/
structure Arena where
  typ : Nat
  arr : Option Nat
  cap : Nat
  len : Nat
  deriving Repr, DecidableEq

/-- the entry `findTyp` appends (buffer.go:218): only `ptyp` and `size` set -/
def Arena.new (τ : Nat) : Arena := ⟨τ, none, 0, 0⟩

/-- `ResourceBank.sData`: a Go `[]byte` (nil slice = `arr none`, len 0, cap 0) -/
structure SData where
  arr : Option Nat
  len : Nat
  cap : Nat
  deriving Repr, DecidableEq

/-- `ResourceBank` plus ghost `epoch` (number of `Close` calls so far) and `pooled` (is in the pool) -/
structure BankSt where
  arenas : List Arena
  sdata : SData
  epoch : Nat
  pooled : Bool
  deriving Repr

/-- `&ResourceBank{}` made by `resourceBankPool.New` (buffer.go:145) -/
def BankSt.fresh : BankSt := ⟨[], ⟨none, 0, 0⟩, 0, false⟩

/-- a pointer returned by `Alloc`: cell `idx` of typed array `arr`, issued by `bank` in `epoch` -/
structure Handle where
  bank : Nat
  epoch : Nat
  arr : Nat
  idx : Nat
  deriving Repr, DecidableEq

/-- a string returned by `ToString`: bytes `[start, start+len)` of byte array `arr`
(`none`: the nil data pointer of an empty string cut from a nil `sData`) -/
structure SHandle where
  bank : Nat
  epoch : Nat
  arr : Option Nat
  start : Nat
  len : Nat
  deriving Repr, DecidableEq

structure World where
  banks : Nat → BankSt
  nbanks : Nat
  /-- next unused typed-array id / byte-array id (the allocator) -/
  nextArr : Nat
  nextSArr : Nat
  mem : Nat → Nat → Nat
  smem : Nat → Nat → Nat
  /-- ghost: all handles handed out so far, newest first -/
  issued : List Handle
  sissued : List SHandle

def init : World :=
  { banks := fun _ => BankSt.fresh, nbanks := 0, nextArr := 0, nextSArr := 0,
    mem := fun _ _ => 0, smem := fun _ _ => 0, issued := [], sissued := [] }

def upd {α : Type} (f : Nat → α) (i : Nat) (v : α) : Nat → α := fun j => if j = i then v else f j

def upd2 (m : Nat → Nat → Nat) (a i v : Nat) : Nat → Nat → Nat :=
  fun a' i' => if a' = a ∧ i' = i then v else m a' i'

/-- write `bs` at offsets `off, off+1, …` of byte array `a` -/
def writeAt (m : Nat → Nat → Nat) (a off : Nat) (bs : List Nat) : Nat → Nat → Nat :=
  fun a' i => if a' = a ∧ off ≤ i ∧ i < off + bs.length then bs.getD (i - off) 0 else m a' i

/-- a fresh byte array `a` whose first `n` bytes are copied from `src` (nothing to copy from nil) -/
def copyInto (m : Nat → Nat → Nat) (a : Nat) (src : Option Nat) (n : Nat) : Nat → Nat → Nat :=
  fun a' i => if a' = a then (match src with | some o => if i < n then m o i else 0 | none => 0) else m a' i

/-- `findTyp` (buffer.go:208), the lookup half: first arena of type `τ`; when there is none the Go code
appends `Arena.new τ` and returns a pointer to it. -/
def findArena (τ : Nat) : List Arena → Arena
  | [] => Arena.new τ
  | a :: as => if a.typ = τ then a else findArena τ as

/-- `findTyp` + mutation through the returned pointer: apply `f` to the first arena of type `τ`,
appending a new entry first when there is none. -/
def updArena (τ : Nat) (f : Arena → Arena) : List Arena → List Arena
  | [] => [f (Arena.new τ)]
  | a :: as => if a.typ = τ then f a :: as else a :: updArena τ f as

/-- buffer.go:185-188: `newCap := rt.cap * 2; if newCap < 16 { newCap = 16 }` — the growth policy of the code. -/
def goNewCap (cap : Nat) : Nat := if cap * 2 < 16 then 16 else cap * 2

theorem goNewCap_gt (cap : Nat) : cap < goNewCap cap := by unfold goNewCap; split <;> omega

/-- buffer.go:184-196: `if rt.len == rt.cap { …; rt.array = unsafe_NewArray(rt.ptyp, newCap); rt.cap = newCap }`.
The old array is not copied and not freed; `len` is left alone. `fresh` = id of the new array, `nc` = `newCap`.
The growth policy is a parameter of the operation (`Op.alloc _ _ newCap`): the code uses `goNewCap cap`, the
theorems hold for every `newCap` above the old capacity (`Allowed`), so they do not depend on the policy. -/
def Arena.grow (a : Arena) (fresh nc : Nat) : Arena :=
  if a.len = a.cap then { a with arr := some fresh, cap := nc } else a

/-- buffer.go:198-199: `i := rt.len; rt.len++` after the possible growth -/
def Arena.take (a : Arena) (fresh nc : Nat) : Arena :=
  { a.grow fresh nc with len := (a.grow fresh nc).len + 1 }

inductive Op where
  /-- `newResourceBank()`: `none` = the pool makes a brand-new bank, `some b` = it returns pooled bank `b` -/
  | get (choice : Option Nat)
  /-- `newCap` = capacity of the array `Alloc` makes if the arena is full (only looked at in that case) -/
  | alloc (b τ : Nat) (newCap : Nat)
  /-- `grow` = capacity Go's `append` picks if it has to reallocate (only looked at in that case) -/
  | toString (b : Nat) (bytes : List Nat) (grow : Nat)
  | store (h : Handle) (v : Nat)
  | close (b : Nat)
  deriving Repr, DecidableEq

inductive Ret where
  | unit
  | bank (b : Nat)
  | ptr (h : Handle)
  | str (s : SHandle)
  deriving Repr, DecidableEq

inductive Out where
  | ok (w : World) (r : Ret)
  | fault (why : String)

/-- `resourceBankPool.Get()` -/
def getStep (w : World) : Option Nat → Out
  | none => .ok { w with banks := upd w.banks w.nbanks BankSt.fresh, nbanks := w.nbanks + 1 } (.bank w.nbanks)
  | some b => .ok { w with banks := upd w.banks b { w.banks b with pooled := false } } (.bank b)

/-- `ResourceBank.Alloc` (buffer.go:181-206) -/
def allocStep (w : World) (b τ nc : Nat) : Out :=
  let bk := w.banks b
  let a0 := findArena τ bk.arenas
  let a1 := a0.grow w.nextArr nc
  match a1.arr with
  | none => .fault "Alloc: nil array with spare capacity"
  | some x =>
    if a1.len < a1.cap then
      let h : Handle := ⟨b, bk.epoch, x, a1.len⟩
      .ok { w with
            banks := upd w.banks b { bk with arenas := updArena τ (fun a => a.take w.nextArr nc) bk.arenas }
            nextArr := if a0.len = a0.cap then w.nextArr + 1 else w.nextArr
            -- typedmemclr(rt.ptyp, ptr), buffer.go:204
            mem := upd2 w.mem x a1.len 0
            issued := h :: w.issued } (.ptr h)
    else .fault "Alloc: cell outside the array"

/-- `ResourceBank.ToString` (buffer.go:242-249): `start := len(sData); sData = append(sData, in...); out := sData[start:]` -/
def toStringStep (w : World) (b : Nat) (bytes : List Nat) (g : Nat) : Out :=
  let bk := w.banks b
  let s := bk.sdata
  let n := bytes.length
  if s.len + n ≤ s.cap then
    -- append in place
    match s.arr with
    | none =>
      if n = 0 then
        let h : SHandle := ⟨b, bk.epoch, none, s.len, 0⟩
        .ok { w with sissued := h :: w.sissued } (.str h)
      else .fault "ToString: nil sData with capacity"
    | some x =>
      let h : SHandle := ⟨b, bk.epoch, some x, s.len, n⟩
      .ok { w with
            banks := upd w.banks b { bk with sdata := { s with len := s.len + n } }
            smem := writeAt w.smem x s.len bytes
            sissued := h :: w.sissued } (.str h)
  else
    -- append reallocates: fresh array of capacity g, old contents copied, old array untouched
    let x := w.nextSArr
    let h : SHandle := ⟨b, bk.epoch, some x, s.len, n⟩
    .ok { w with
          banks := upd w.banks b { bk with sdata := ⟨some x, s.len + n, g⟩ }
          nextSArr := x + 1
          smem := writeAt (copyInto w.smem x s.arr s.len) x s.len bytes
          sissued := h :: w.sissued } (.str h)

/-- `ResourceBank.Close` (buffer.go:226-238): every `len` := 0, `sData = sData[:0]` (same arrays), `Put` -/
def closeStep (w : World) (b : Nat) : Out :=
  let bk := w.banks b
  let bk' : BankSt :=
    { arenas := bk.arenas.map (fun a => { a with len := 0 })
      sdata := { bk.sdata with len := 0 }
      epoch := bk.epoch + 1
      pooled := true }
  .ok { w with banks := upd w.banks b bk' } .unit

def storeStep (w : World) (h : Handle) (v : Nat) : Out :=
  .ok { w with mem := upd2 w.mem h.arr h.idx v } .unit

def step (w : World) : Op → Out
  | .get c => getStep w c
  | .alloc b τ nc => allocStep w b τ nc
  | .toString b bs g => toStringStep w b bs g
  | .store h v => storeStep w h v
  | .close b => closeStep w b

/-- the bank of the handle has not been closed since the handle was issued -/
def World.Live (w : World) (h : Handle) : Prop := (w.banks h.bank).epoch = h.epoch
def World.SLive (w : World) (s : SHandle) : Prop := (w.banks s.bank).epoch = s.epoch

instance (w : World) (h : Handle) : Decidable (w.Live h) := by unfold World.Live; infer_instance
instance (w : World) (s : SHandle) : Decidable (w.SLive s) := by unfold World.SLive; infer_instance

def World.read (w : World) (h : Handle) : Nat := w.mem h.arr h.idx

/-- the bytes a string handle denotes -/
def World.sread (w : World) (s : SHandle) : List Nat :=
  match s.arr with
  | none => []
  | some x => (List.range s.len).map fun i => w.smem x (s.start + i)

/-- The documented ownership discipline (buffer.go:85-87, 178-180, 240-241; readme "ResourceBank") plus the
contracts of the two runtime services the bank relies on:
* a bank is used (`alloc`, `toString`) and closed only while the caller holds it, i.e. after the pool
  handed it out and before its `Close` — so it is closed at most once per acquisition;
* writes go through handles that are still live;
* `sync.Pool.Get` returns a new object or one that was `Put` and not yet handed out again;
* `append` reallocates to a capacity that holds the result; `Alloc` grows to a capacity above the old one. -/
def Allowed (w : World) : Op → Prop
  | .get none => True
  | .get (some b) => b < w.nbanks ∧ (w.banks b).pooled = true
  | .alloc b τ nc => b < w.nbanks ∧ (w.banks b).pooled = false ∧
      ((findArena τ (w.banks b).arenas).len = (findArena τ (w.banks b).arenas).cap → (findArena τ (w.banks b).arenas).cap < nc)
  | .toString b bytes g => b < w.nbanks ∧ (w.banks b).pooled = false ∧ (w.banks b).sdata.len + bytes.length ≤ g
  | .store h _ => h ∈ w.issued ∧ w.Live h
  | .close b => b < w.nbanks ∧ (w.banks b).pooled = false

instance (w : World) (op : Op) : Decidable (Allowed w op) := by
  cases op with
  | get c => cases c <;> (unfold Allowed; infer_instance)
  | alloc b τ nc => unfold Allowed; infer_instance
  | toString b bs g => unfold Allowed; infer_instance
  | store h v => unfold Allowed; infer_instance
  | close b => unfold Allowed; infer_instance

/-- run a sequence; `none` if some step faults -/
def run : World → List Op → Option World
  | w, [] => some w
  | w, op :: ops =>
    match step w op with
    | .ok w' _ => run w' ops
    | .fault _ => none

/-- every operation of the sequence is allowed in the state it is applied to -/
def Disciplined : World → List Op → Prop
  | _, [] => True
  | w, op :: ops =>
    Allowed w op ∧
    match step w op with
    | .ok w' _ => Disciplined w' ops
    | .fault _ => True

/-- executable version used by the driver and by the closed examples: runs the sequence checking `Allowed`
before every step; returns the final world and the results, or the index of the first operation that is
not allowed / faults. -/
def runChecked : World → List Op → Except Nat (World × List Ret)
  | w, [] => .ok (w, [])
  | w, op :: ops =>
    if Allowed w op then
      match step w op with
      | .ok w' r =>
        match runChecked w' ops with
        | .ok (w'', rs) => .ok (w'', r :: rs)
        | .error i => .error (i + 1)
      | .fault _ => .error 0
    else .error 0

/-! ## Provenance of decoded data

Where the memory reachable from a decoded record comes from, codec by codec, as written in the `Read`
and `New` methods of `/repo` (the record struct itself is `p` in `ReadFile`, file.go:157/188, cleared and
reused per record — the callback contract is to copy it). The decoders *look at* the block buffer through
`ReadBuf.Next` (bytes.go:19, fixed.go:25, time/time.go:110) but every one of them copies or parses before
returning. -/

inductive Prov where
  /-- a `ResourceBank` arena: a cell from `Alloc` or bytes from `ToString` -/
  | bank
  /-- a fresh Go heap object owned by the record alone (`make`, `unsafe_NewArray`, `reflect.MakeMap`) -/
  | freshHeap
  /-- the `compressed` / `uncompressed` block buffers of `ReadFile` (file.go:160-186), reused for every block -/
  | blockBuffer
  /-- memory of the caller's reader / input bytes -/
  | input
  deriving Repr, DecidableEq

/-- a codec tree, as far as memory is concerned -/
inductive PCodec where
  /-- bool, int, long, float, double, date, timestamps, null: written in place, nothing retained
  (`time.Time` is parsed from a transient view, time/time.go:115) -/
  | prim
  /-- fixed.go:18-28: `copy` into the destination array in place -/
  | fixed
  /-- string.go:21: `r.NextAsString` → `ResourceBank.ToString` -/
  | string
  /-- bytes.go:24-26: `make([]byte, l)`; `copy` -/
  | bytes
  /-- array.go:101: backing array from `unsafe_NewArray` (old contents copied on resize) -/
  | array (item : PCodec)
  /-- map.go:19 `reflect.MakeMap`; keys via `StringCodec.Read` (map.go:44); value cell `valueCodec.New`
  (map.go:49) then copied into the map by `mapassign` -/
  | map (value : PCodec)
  /-- pointer.go:14: target from `c.Codec.New(r)` -/
  | pointer (elem : PCodec)
  /-- record.go: fields decoded in place one after the other; union.go: one branch decoded in place -/
  | seq (a b : PCodec)
  deriving Repr

/-- what `Codec.New` returns for a codec (the `New` methods: all `r.Alloc(..)` except fixed.go:35) -/
def PCodec.newProv : PCodec → Prov
  | .fixed => .freshHeap
  | _ => .bank

/-- provenance of every piece of memory reachable from a value decoded by the codec -/
def PCodec.reach : PCodec → List Prov
  | .prim => []
  | .fixed => []
  | .string => [.bank]
  | .bytes => [.freshHeap]
  | .array c => .freshHeap :: c.reach
  | .map c => .freshHeap :: .bank :: c.newProv :: c.reach
  | .pointer c => c.newProv :: c.reach
  | .seq a b => a.reach ++ b.reach

end Avro.Bank
