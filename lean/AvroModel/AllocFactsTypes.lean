/-!
Row types of the regenerated table `AvroModel/Generated/AllocFacts.lean` (property C11): what every
codec's `New` method returns, as extracted from the source by go/ast, and the source layout of the
two structs the library overlays on runtime data (`sliceHeader`, `mapiter`).
-/
namespace Avro.Alloc

structure AllocFact where
  pkg : String
  typ : String      -- receiver type
  method : String   -- "New" | "resizeSlice"
  guard : String    -- innermost enclosing `case` expression of the return statement
  form : String     -- alloc-var | alloc-field | newarray | nil | delegate | other
  arg : String      -- variable / receiver field / element type expression / delegate target
  init : String     -- initialiser of the package-level `reflect.Type` variable (alloc-var)

structure LayoutField where
  name : String
  typ : String
  offset : Nat
  size : Nat
  pointer : Bool

structure StructLayout where
  name : String
  found : Bool
  known : Bool      -- every field type has a known gc/amd64 size
  size : Nat
  fields : List LayoutField

end Avro.Alloc
