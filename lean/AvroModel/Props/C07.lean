import AvroModel.Lemmas.File
/-!
# C07 — The container reader delivers exactly the declared records and rejects damage

Model: `AvroModel/File.lean` (`readFile` mirrors `ReadFile`, file.go:107-210). Vocabulary
(`Blk`, `frame`, `body`, `GoodBlk`, `ValidHeader`, `ValidFile`, `handOver`) is in `Lemmas/File.lean`.

A *valid file* is `hdr ++ body H.sync bl`: a header the reader accepts as `H` (for instance any
`mkHeader`, see `valid_mkHeader`), selecting one of the three codecs and carrying a schema from which
the record decoder `rc` is built, followed by the frames of blocks each of which decompresses to the
concatenation of its records' encodings (`decompress (compress x) = ok x` is all that is asked of
the compressor: `GoodBlk.of_compress`) and each of whose records `rc` decodes exactly. All theorems
hold for every such file (any record type, codec, block partition — empty blocks and bytes left
over inside a block included), every external decompressor / CRC function, every step budget
above the number of blocks.

Reading of the property for a sync mismatch (DESIGN.md section 9): the records of the block whose
marker is wrong have been handed to the callback before the marker is compared; what is required
is the error, and that nothing *after* that block is delivered.
-/
namespace Avro.C07
open Avro Avro.File

variable {α ε : Type}

/-! ### Intact files -/

/-- **C07 (delivers)**: a valid file read with a callback that never fails: every declared record,
in file order, nothing else, and the result is success. -/
theorem delivers {X : Ext α} {fuel : Nat} {hdr : Bytes} {H : Header} {sel : CodecSel} {rc : RecCodec α} {bl : List (Blk α)}
    (hv : ValidFile X fuel hdr H sel rc bl) (cb : Nat → Option ε) (hcb : ∀ i, cb i = none) :
    readFile X fuel cb (hdr ++ body H.sync bl) = ⟨allVals bl, .ok⟩ := by
  rw [readFile_header hv.toValidHeader cb]
  obtain ⟨f, hf⟩ : ∃ f, fuel = (f + 1) + bl.length := ⟨fuel - bl.length - 1, by have := hv.fuel; omega⟩
  have h := readBlocks_body_clear (cfgOf X sel rc H cb) hv.sync16 bl (f + 1) 0 [] hv.blocks (fun j _ _ => hcb j)
  simp only [List.append_nil, cfgOf] at h
  rw [hf]
  simp only [cfgOf]
  rw [h, readBlocks_nil]
  simp

/-- **C07 (callback error)**: the callback fails for the first time at global record index `i` with
error `e`: exactly the records `0 .. i` were handed over (`i + 1` callbacks), reading stopped there,
and the result is that very error value. -/
theorem callback_error {X : Ext α} {fuel : Nat} {hdr : Bytes} {H : Header} {sel : CodecSel} {rc : RecCodec α} {bl : List (Blk α)}
    (hv : ValidFile X fuel hdr H sel rc bl) (cb : Nat → Option ε) (i : Nat) (e : ε)
    (hi : cb i = some e) (hbefore : ∀ j, j < i → cb j = none) (hlt : i < (allVals bl).length) :
    readFile X fuel cb (hdr ++ body H.sync bl) = ⟨(allVals bl).take (i + 1), .cb e⟩ := by
  rw [readFile_header hv.toValidHeader cb]
  obtain ⟨f, hf⟩ : ∃ f, fuel = f + bl.length := ⟨fuel - bl.length, by have := hv.fuel; omega⟩
  have h := readBlocks_body_fail (cfgOf X sel rc H cb) hv.sync16 i e hi bl f 0 [] hv.blocks (by omega) (by simpa using hlt)
    (fun j _ hj => hbefore j hj)
  simp only [List.append_nil, Nat.sub_zero, cfgOf] at h
  rw [hf]; simp only [cfgOf]; exact h

/-- exactly `i + 1` callbacks were made -/
theorem callback_error_count {X : Ext α} {fuel : Nat} {hdr : Bytes} {H : Header} {sel : CodecSel} {rc : RecCodec α} {bl : List (Blk α)}
    (hv : ValidFile X fuel hdr H sel rc bl) (cb : Nat → Option ε) (i : Nat) (e : ε)
    (hi : cb i = some e) (hbefore : ∀ j, j < i → cb j = none) (hlt : i < (allVals bl).length) :
    (readFile X fuel cb (hdr ++ body H.sync bl)).delivered.length = i + 1 := by
  rw [callback_error hv cb i e hi hbefore hlt]
  simp; omega

/-! ### Damaged blocks

`pre` are intact blocks, then comes the damaged one, then `tail` — whatever follows (further blocks,
garbage, nothing). -/

/-- A block (record count `c`, stored payload `p`) whose payload the decompressor rejects with error
`k`: the result is that error and nothing of this block or of anything after it is delivered. -/
theorem damaged_block {X : Ext α} {fuel : Nat} {hdr : Bytes} {H : Header} {sel : CodecSel} {rc : RecCodec α}
    (hv : ValidHeader X fuel hdr H sel rc) (pre : List (Blk α)) (hpre : ∀ b ∈ pre, GoodBlk (decompress X sel) rc.decode b)
    (hfuel : pre.length < fuel) (cb : Nat → Option ε) (hcb : ∀ i, cb i = none)
    (c : Int) (p tail : Bytes) (hc : inRange 64 c) (hp : p.length ≤ maxLen) (k : ErrKind)
    (hbad : decompress X sel p = .err k) :
    readFile X fuel cb (hdr ++ (body H.sync pre ++ (writeVarint c ++ (writeVarint p.length ++ p) ++ tail))) =
      ⟨allVals pre, .err k⟩ := by
  rw [readFile_header hv cb]
  obtain ⟨f, hf⟩ : ∃ f, fuel = (f + 1) + pre.length := ⟨fuel - pre.length - 1, by omega⟩
  have h := readBlocks_body_clear (cfgOf X sel rc H cb) hv.sync16 pre (f + 1) 0
    (writeVarint c ++ (writeVarint p.length ++ p) ++ tail) hpre (fun j _ _ => hcb j)
  simp only [cfgOf] at h
  rw [hf]; simp only [cfgOf]
  rw [h, readBlocks_raw _ _ _ _ _ _ hc hp]
  simp [blockTail, hbad]

/-- **C07 (inflate)**: a deflate block the inflater rejects ⇒ error, nothing of that block delivered. -/
theorem inflate {X : Ext α} {fuel : Nat} {hdr : Bytes} {H : Header} {rc : RecCodec α}
    (hv : ValidHeader X fuel hdr H .deflate rc) (pre : List (Blk α)) (hpre : ∀ b ∈ pre, GoodBlk (decompress X .deflate) rc.decode b)
    (hfuel : pre.length < fuel) (cb : Nat → Option ε) (hcb : ∀ i, cb i = none)
    (c : Int) (p tail : Bytes) (hc : inRange 64 c) (hp : p.length ≤ maxLen)
    (hbad : X.inflate p = none) :
    readFile X fuel cb (hdr ++ (body H.sync pre ++ (writeVarint c ++ (writeVarint p.length ++ p) ++ tail))) =
      ⟨allVals pre, .err .inflate⟩ :=
  damaged_block hv pre hpre hfuel cb hcb c p tail hc hp .inflate (by simp [decompress, hbad])

/-- **C07 (crc)**: a snappy block whose stored big-endian CRC (last four bytes of the payload) differs
from the CRC of what the rest decodes to ⇒ error, nothing of that block delivered. -/
theorem crc {X : Ext α} {fuel : Nat} {hdr : Bytes} {H : Header} {rc : RecCodec α}
    (hv : ValidHeader X fuel hdr H .snappy rc) (pre : List (Blk α)) (hpre : ∀ b ∈ pre, GoodBlk (decompress X .snappy) rc.decode b)
    (hfuel : pre.length < fuel) (cb : Nat → Option ε) (hcb : ∀ i, cb i = none)
    (c : Int) (p tail d : Bytes) (hc : inRange 64 c) (hp : p.length ≤ maxLen) (h4 : 4 ≤ p.length)
    (hdec : X.unsnappy (p.take (p.length - 4)) = some d) (hcrc : X.crc d ≠ beU32 (p.drop (p.length - 4))) :
    readFile X fuel cb (hdr ++ (body H.sync pre ++ (writeVarint c ++ (writeVarint p.length ++ p) ++ tail))) =
      ⟨allVals pre, .err .crc⟩ := by
  apply damaged_block hv pre hpre hfuel cb hcb c p tail hc hp .crc
  have : ¬ p.length < 4 := by omega
  simp [decompress, this, h4, hdec, hcrc]

/-- a snappy block whose compressed part `snappy.Decode` rejects -/
theorem snappy_garbled {X : Ext α} {fuel : Nat} {hdr : Bytes} {H : Header} {rc : RecCodec α}
    (hv : ValidHeader X fuel hdr H .snappy rc) (pre : List (Blk α)) (hpre : ∀ b ∈ pre, GoodBlk (decompress X .snappy) rc.decode b)
    (hfuel : pre.length < fuel) (cb : Nat → Option ε) (hcb : ∀ i, cb i = none)
    (c : Int) (p tail : Bytes) (hc : inRange 64 c) (hp : p.length ≤ maxLen) (h4 : 4 ≤ p.length)
    (hdec : X.unsnappy (p.take (p.length - 4)) = none) :
    readFile X fuel cb (hdr ++ (body H.sync pre ++ (writeVarint c ++ (writeVarint p.length ++ p) ++ tail))) =
      ⟨allVals pre, .err .snappyDecode⟩ := by
  apply damaged_block hv pre hpre hfuel cb hcb c p tail hc hp .snappyDecode
  have : ¬ p.length < 4 := by omega
  simp [decompress, this, h4, hdec]

/-- a snappy block too short to hold its checksum (an error, not a slice-bounds panic) -/
theorem snappy_short {X : Ext α} {fuel : Nat} {hdr : Bytes} {H : Header} {rc : RecCodec α}
    (hv : ValidHeader X fuel hdr H .snappy rc) (pre : List (Blk α)) (hpre : ∀ b ∈ pre, GoodBlk (decompress X .snappy) rc.decode b)
    (hfuel : pre.length < fuel) (cb : Nat → Option ε) (hcb : ∀ i, cb i = none)
    (c : Int) (p tail : Bytes) (hc : inRange 64 c) (h4 : p.length < 4) :
    readFile X fuel cb (hdr ++ (body H.sync pre ++ (writeVarint c ++ (writeVarint p.length ++ p) ++ tail))) =
      ⟨allVals pre, .err .snappyShort⟩ := by
  apply damaged_block hv pre hpre hfuel cb hcb c p tail hc (by unfold maxLen; omega) .snappyShort
  simp [decompress, h4]

/-- **C07 (sync)**: a good block followed by sixteen bytes that differ from the header's sync marker
(equivalently: the header's marker was damaged): the result is an error and no record of any later
block is delivered — the delivered records are exactly those of the blocks up to and including this one. -/
theorem sync {X : Ext α} {fuel : Nat} {hdr : Bytes} {H : Header} {sel : CodecSel} {rc : RecCodec α}
    (hv : ValidHeader X fuel hdr H sel rc) (pre : List (Blk α)) (hpre : ∀ b ∈ pre, GoodBlk (decompress X sel) rc.decode b)
    (hfuel : pre.length < fuel) (cb : Nat → Option ε) (hcb : ∀ i, cb i = none)
    (b : Blk α) (hb : GoodBlk (decompress X sel) rc.decode b) (sig tail : Bytes) (hlen : sig.length = 16) (hsig : sig ≠ H.sync) :
    readFile X fuel cb (hdr ++ (body H.sync pre ++ (frameHead b ++ sig ++ tail))) =
      ⟨allVals pre ++ b.vals, .err .syncMismatch⟩ := by
  rw [readFile_header hv cb]
  obtain ⟨f, hf⟩ : ∃ f, fuel = (f + 1) + pre.length := ⟨fuel - pre.length - 1, by omega⟩
  have h := readBlocks_body_clear (cfgOf X sel rc H cb) hv.sync16 pre (f + 1) 0 (frameHead b ++ sig ++ tail) hpre (fun j _ _ => hcb j)
  simp only [cfgOf] at h
  rw [hf]; simp only [cfgOf]
  rw [h]
  have hc : inRange 64 (b.recs.length : Int) := inRange_of_nat_lt hb.count
  have e1 : frameHead b ++ sig ++ tail =
      writeVarint (b.recs.length : Int) ++ (writeVarint (b.payload.length : Int) ++ b.payload) ++ (sig ++ tail) := by
    simp [frameHead]
  rw [e1, readBlocks_raw _ _ _ _ _ _ hc hb.small]
  unfold blockTail
  simp only [hb.decomp, Int.toNat_natCast, Blk.data]
  rw [deliver_good rc.decode cb b.recs b.junk _ hb.exact, handOver_none cb hcb]
  simp only [Option.map_none]
  rw [← hlen, readFull_append]
  simp [hsig, Blk.vals]

/-! ### Damaged headers -/

/-- **C07 (magic)**: the first four bytes are not `Obj\x01` (or are not there): an error, nothing delivered. -/
theorem magic (X : Ext α) (fuel : Nat) (cb : Nat → Option ε) (bs : Bytes) (h : bs.take 4 ≠ File.magic) :
    ∃ e, readFile X fuel cb bs = ⟨[], .err e⟩ := by
  unfold readFile readFileHeader
  cases hr : readFull 4 bs with
  | error e => exact ⟨_, rfl⟩
  | ok x =>
    obtain ⟨m, r⟩ := x
    obtain ⟨hl, hbs⟩ := readFull_ok_length hr
    have : bs.take 4 = m := by rw [hbs, ← hl]; simp
    rw [this] at h
    simp only [ne_eq, h, not_false_eq_true, if_true]
    exact ⟨_, rfl⟩

/-- **C07 (unknown codec)**: `avro.codec` names anything but null, deflate, snappy: an error, nothing delivered. -/
theorem unknown_codec (X : Ext α) (fuel : Nat) (cb : Nat → Option ε) (bs rest : Bytes) (H : Header) (v : Bytes)
    (hh : readFileHeader fuel bs = .ok (H, rest)) (hc : metaGet H.meta kCodec = some v)
    (h1 : v ≠ vNull) (h2 : v ≠ vDeflate) (h3 : v ≠ vSnappy) :
    readFile X fuel cb bs = ⟨[], .err .unknownCodec⟩ := by
  unfold readFile
  simp [hh, selectCodec, hc, h1, h2, h3]

/-- **C07 (no schema)**: no `avro.schema` entry in the header: an error, nothing delivered. -/
theorem no_schema (X : Ext α) (fuel : Nat) (cb : Nat → Option ε) (bs rest : Bytes) (H : Header)
    (hh : readFileHeader fuel bs = .ok (H, rest)) (hs : metaGet H.meta kSchema = none) :
    ∃ e, readFile X fuel cb bs = ⟨[], .err e⟩ := by
  unfold readFile
  simp only [hh]
  split
  · exact ⟨_, rfl⟩
  · simp only [hs]; exact ⟨_, rfl⟩

/-- a schema that does not parse, or from which no decoder for the caller's type can be built -/
theorem bad_schema (X : Ext α) (fuel : Nat) (cb : Nat → Option ε) (bs rest : Bytes) (H : Header) (js : Bytes)
    (hh : readFileHeader fuel bs = .ok (H, rest)) (hs : metaGet H.meta kSchema = some js) (hb : X.build js = none) :
    ∃ e, readFile X fuel cb bs = ⟨[], .err e⟩ := by
  unfold readFile
  simp only [hh]
  split
  · exact ⟨_, rfl⟩
  · simp only [hs, hb]; exact ⟨_, rfl⟩

theorem selectCodec_absent (m : Meta) (h : metaGet m kCodec = none) : selectCodec m = some .null := by
  simp [selectCodec, h]

/-- **C07 (no codec entry means uncompressed)**: a file whose header has no `avro.codec` entry is read
exactly like the file whose header has the additional entry `avro.codec = "null"`. -/
theorem no_codec_means_null (X : Ext α) (fuel : Nat) (cb : Nat → Option ε) (a b rest : Bytes) (H H' : Header)
    (ha : readFileHeader fuel a = .ok (H, rest)) (hb : readFileHeader fuel b = .ok (H', rest))
    (habsent : metaGet H.meta kCodec = none) (hmeta : H'.meta = (kCodec, vNull) :: H.meta) (hsync : H'.sync = H.sync) :
    readFile X fuel cb a = readFile X fuel cb b := by
  unfold readFile
  rw [ha, hb]
  have hk : ¬ kCodec = kSchema := by decide
  simp only [hmeta, hsync, selectCodec, habsent, metaGet, hk, if_true, if_false]

/-! ### Panics -/

/-- **C07 (no panic)**: whatever the bytes, `ReadFile` does not panic: negative lengths, snappy blocks
shorter than their checksum and a missing codec entry are errors, and no buffer is allocated from a
declared length (`readN` reads in chunks of at most 1 MiB). (`Tame`: the record decoder itself
returns a value or an error — the subject of C06.) -/
theorem no_panic (X : Ext α) (htame : ∀ js rc, X.build js = some rc → Tame rc.decode)
    (fuel : Nat) (cb : Nat → Option ε) (bs : Bytes) (k : PanicKind) :
    (readFile X fuel cb bs).res ≠ .panic k := by
  unfold readFile
  split
  · simp
  · rename_i k' hk'; exact absurd hk' (readFileHeader_no_panic _ _ _)
  · simp
  · split
    · simp
    · split
      · simp
      · split
        · simp
        · rename_i rc hrc
          exact readBlocks_no_panic _ (fun c k => decompress_no_panic X _ c k) (htame _ _ hrc) _ _ _ _

/-- a length that nothing backs is an error, however large: magic, one metadata entry whose key
declares 2^62 bytes -/
example (X : Ext Unit) (cb : Nat → Option Unit) :
    readFile X 2 cb [0x4F, 0x62, 0x6A, 0x01, 0x02, 0x80, 0x80, 0x80, 0x80, 0x80, 0x80, 0x80, 0x80, 0x80, 0x01] = ⟨[], .err .metaKey⟩ := by
  have h : readN 4611686018427387904 ([] : Bytes) = .error .eof := by
    rw [readN]; simp [readFull, chunk]
  simp [readFile, readFileHeader, readFull, File.magic, readMeta, ioVarint, ioUvarintAux, readEntries, readBytes, unzig, h]

/-- The model's step budget: with `fuel > length` the model never stops for lack of steps (the
driver runs it with `length + 1`), so `Res.fuel` never stands for a behaviour of the code. -/
theorem fuel_enough (X : Ext α) (fuel : Nat) (cb : Nat → Option ε) (bs : Bytes) (hf : bs.length < fuel) :
    (readFile X fuel cb bs).res ≠ .fuel := File.fuel_enough X fuel cb bs hf

/-! ### Valid files exist: the headers and blocks a writer produces -/

/-- Any header built like `mkHeader` (well-formed metadata blocks, 16-byte sync) whose map selects a
codec and holds a usable schema is a valid header. -/
theorem valid_mkHeader (X : Ext α) (blocks : List (List (Bytes × Bytes))) (sync : Bytes) (fuel : Nat)
    (hg : GoodMetaBlocks blocks) (hf : blocks.length < fuel) (hs : sync.length = 16)
    (sel : CodecSel) (rc : RecCodec α) (hc : selectCodec (metaOf blocks) = some sel)
    (hsch : ∃ js, metaGet (metaOf blocks) kSchema = some js ∧ X.build js = some rc) :
    ValidHeader X fuel (mkHeader blocks sync) { «meta» := metaOf blocks, sync := sync } sel rc :=
  { header := readFileHeader_accepts blocks sync fuel hg hf hs, sync16 := hs, codec := hc, schema := hsch }

/-- A block stored as `compress data` is good as soon as `decompress (compress x) = ok x`. -/
theorem GoodBlk.of_compress (decomp : Bytes → Step Bytes) (decode : Bytes → Outcome (α × Bytes)) (compress : Bytes → Bytes)
    (hlaw : ∀ x, decomp (compress x) = .ok x) (recs : List (α × Bytes)) (junk : Bytes)
    (hexact : ∀ ve ∈ recs, ∀ rest, decode (ve.2 ++ rest) = .ok (ve.1, rest))
    (hsmall : (compress ((recs.map (·.2)).flatten ++ junk)).length ≤ maxLen) (hcount : recs.length < 2 ^ 63) :
    GoodBlk decomp decode { recs := recs, junk := junk, payload := compress ((recs.map (·.2)).flatten ++ junk) } :=
  { decomp := hlaw _, exact := hexact, small := hsmall, count := hcount }

/-! ### Non-vacuity: a concrete file, read by the model

Records are single bytes; the schema is the one-byte string `"`; sync marker 16 × 0xAA; two blocks
`[1, 2]` and `[3]` (the second with one left-over byte), codec null. -/

def exX : Ext UInt8 :=
  { inflate := fun c => some c, unsnappy := fun c => some c, crc := fun _ => 0,
    build := fun _ => some { decode := fun bs => match bs with | [] => .err | b :: r => .ok (b, r) } }

def exSync : Bytes := List.replicate 16 0xAA
def exHdr : Bytes := mkHeader [[(kSchema, [0x22]), (kCodec, vNull)]] exSync
def exB1 : Blk UInt8 := { recs := [(1, [1]), (2, [2])], junk := [], payload := [1, 2] }
def exB2 : Blk UInt8 := { recs := [(3, [3])], junk := [9], payload := [3, 9] }
def exFile : Bytes := exHdr ++ body exSync [exB1, exB2]

example : readFile exX 5 (fun _ => (none : Option Unit)) exFile = ⟨[1, 2, 3], .ok⟩ := by decide +kernel

/-- the callback fails at index 1 with error token 7 -/
example : readFile exX 5 (fun i => if i = 1 then some 7 else none) exFile = ⟨[1, 2], .cb 7⟩ := by decide +kernel

/-- the first block's trailing marker differs in one bit: its records are delivered, block two is not -/
example : readFile exX 5 (fun _ => (none : Option Unit))
    (exHdr ++ (frameHead exB1 ++ (0xAB :: List.replicate 15 0xAA) ++ frame exSync exB2)) = ⟨[1, 2], .err .syncMismatch⟩ := by decide +kernel

/-- a negative record count delivers nothing and reading goes on with the next block -/
example : readFile exX 5 (fun _ => (none : Option Unit))
    (exHdr ++ (writeVarint (-2) ++ (writeVarint 2 ++ [1, 2]) ++ exSync ++ frame exSync exB2)) = ⟨[3], .ok⟩ := by decide +kernel

/-- the hypotheses of the theorems are satisfiable: `exFile` is a `ValidFile` -/
example : ValidFile exX 5 exHdr { «meta» := metaOf [[(kSchema, [0x22]), (kCodec, vNull)]], sync := exSync } .null
    { decode := fun bs => match bs with | [] => .err | b :: r => .ok (b, r) } [exB1, exB2] := by
  refine { toValidHeader := valid_mkHeader exX _ exSync 5 ?_ (by decide) (by decide) .null _ (by decide) ⟨[0x22], by decide, rfl⟩,
           blocks := ?_, fuel := by decide }
  · intro es hes
    simp only [List.mem_singleton] at hes
    subst hes
    refine ⟨by simp, by decide, ?_⟩
    intro kv hkv
    simp only [List.mem_cons, List.not_mem_nil, or_false] at hkv
    rcases hkv with rfl | rfl <;> exact ⟨by decide, by decide⟩
  · intro b hb
    simp only [List.mem_cons, List.not_mem_nil, or_false] at hb
    rcases hb with rfl | rfl
    · exact { decomp := rfl, exact := by intro ve hve rest; simp [exB1] at hve; rcases hve with rfl | rfl <;> rfl,
              small := by decide, count := by decide }
    · exact { decomp := rfl, exact := by intro ve hve rest; simp [exB2] at hve; subst hve; rfl,
              small := by decide, count := by decide }

end Avro.C07
