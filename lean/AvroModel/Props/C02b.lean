import AvroModel.Props.C02
import AvroModel.Props.C16b
/-!
# C02 (container clause) for the file writer driven directly

`C02.container_valid` is about Encode / Flush histories. A program may call `FileWriter.WriteHeader` and
`WriteBlock(w, rows, data)` itself — with any row count and any payload, in particular `rows = 0` with an empty payload,
which the Encoder never writes and the Avro container format allows. For every such history the bytes after the header are
read by the specification's block reader (`Avro.Spec.readBlocks`, written from the specification, sharing nothing with the
library's reader model) as exactly those blocks: declared counts, exact sizes, matching markers, nothing left over.
-/
namespace Avro.C02
open Avro

/-- what `WriteBlock` puts on the wire for one call -/
def directFrame (cfg : EncCfg) (b : Nat × Bytes) : Bytes := (blockChunks cfg b.1 b.2).flatten

theorem spec_reader_reads_direct (cfg : EncCfg) (hs : cfg.sync.length = 16) :
    ∀ (bl : List (Nat × Bytes)),
      (∀ b ∈ bl, inRange 64 (b.1 : Int) ∧ inRange 64 ((cfg.compress b.2).length : Int)) →
      Spec.readBlocks cfg.sync (bl.length + 1) ((bl.map (directFrame cfg)).flatten) =
        some (bl.map fun b => { count := (b.1 : Int), payload := cfg.compress b.2 })
  | [], _ => by simp [Spec.readBlocks]
  | b :: rest, h => by
    have hb := h b (by simp)
    have ih := spec_reader_reads_direct cfg hs rest (fun x hx => h x (by simp [hx]))
    have hne : (List.map (directFrame cfg) (b :: rest)).flatten ≠ [] := by
      simp only [List.map_cons, List.flatten_cons, directFrame, blockChunks]
      intro hnil
      have : writeVarint (b.1 : Int) = [] := by
        have := congrArg List.length hnil
        simp only [List.flatten_cons, List.length_append, List.length_nil] at this
        exact List.eq_nil_of_length_eq_zero (by omega)
      exact writeVarint_ne_nil _ this
    have hshape : (List.map (directFrame cfg) (b :: rest)).flatten =
        writeVarint (b.1 : Int) ++ (writeVarint ((cfg.compress b.2).length : Int) ++
          (cfg.compress b.2 ++ (cfg.sync ++ (List.map (directFrame cfg) rest).flatten))) := by
      simp [directFrame, blockChunks, List.append_assoc]
    rw [List.length_cons, Spec.readBlocks]
    rw [if_neg hne, hshape, readVarint_writeVarint _ hb.1]
    simp only []
    rw [readVarint_writeVarint _ hb.2]
    simp only []
    have hnn : ¬ (((cfg.compress b.2).length : Int) < 0 ∨ ((b.1 : Nat) : Int) < 0) := by omega
    rw [if_neg hnn, Int.toNat_natCast, takeN_append']
    simp only []
    rw [← hs, takeN_append']
    simp only [ne_eq, not_true_eq_false, if_false]
    rw [ih]
    simp

/-- the fault-free run of `WriteBlock` calls appends exactly their frames -/
theorem direct_blocks_output (cfg : EncCfg) : ∀ (bl : List (Nat × Bytes)) (i : Nat) (w : WState), w.Free →
    (fwRunFrom cfg (bl.map fun b => FwOp.block b.1 b.2) i w).2 = none ∧
    (fwRunFrom cfg (bl.map fun b => FwOp.block b.1 b.2) i w).1.accepted = w.accepted ++ (bl.map (directFrame cfg)).flatten
  | [], _, w, _ => by simp [fwRunFrom]
  | b :: rest, i, w, h => by
    obtain ⟨w', hw, hf, hacc, _, _⟩ := writeAll_free h (blockChunks cfg b.1 b.2)
    have ih := direct_blocks_output cfg rest (i + 1) w' hf
    simp only [List.map_cons, fwRunFrom, fwStep, hw]
    refine ⟨ih.1, ?_⟩
    rw [ih.2, hacc]
    simp [directFrame, List.append_assoc]

/-- **C02, container clause, direct use.** `WriteHeader` followed by any `WriteBlock` calls — any row counts, empty blocks
included — leaves `header ++ body` where the specification's block reader reads `body` as exactly the blocks written. -/
theorem direct_container_valid (cfg : EncCfg) (hs : cfg.sync.length = 16) (bl : List (Nat × Bytes))
    (hsz : ∀ b ∈ bl, inRange 64 (b.1 : Int) ∧ inRange 64 ((cfg.compress b.2).length : Int)) :
    ∃ w' body, fwRunFrom cfg (FwOp.header :: bl.map fun b => FwOp.block b.1 b.2) 0 {} = (w', none) ∧
      w'.accepted = cfg.header ++ body ∧
      Spec.readBlocks cfg.sync (bl.length + 1) body = some (bl.map fun b => { count := (b.1 : Int), payload := cfg.compress b.2 }) := by
  have hfree : ({} : WState).Free := rfl
  obtain ⟨w1, hw1, hf1, hacc1, _, _⟩ := writeAll_free hfree [cfg.header]
  have hb := direct_blocks_output cfg bl 1 w1 hf1
  refine ⟨(fwRunFrom cfg (bl.map fun b => FwOp.block b.1 b.2) 1 w1).1, (bl.map (directFrame cfg)).flatten, ?_, ?_, ?_⟩
  · simp only [fwRunFrom, fwStep, hw1]
    exact Prod.ext rfl hb.1
  · rw [hb.2, hacc1]; simp
  · exact spec_reader_reads_direct cfg hs bl hsz

/-! non-vacuity: header, an empty block, a block of two records, another empty block -/
example :
    let cfg : EncCfg := { blockSize := 0, compress := id, sync := List.replicate 16 0xAA, header := [0x4F] }
    (Spec.readBlocks cfg.sync 4 ((fwRunFrom cfg [.header, .block 0 [], .block 2 [2, 5, 2, 6], .block 0 []] 0 {}).1.accepted.drop 1)).map
      (fun bl => bl.map fun b => (b.count, b.payload)) = some [(0, []), (2, [2, 5, 2, 6]), (0, [])] := by decide +kernel

end Avro.C02
