import AvroModel.Props.C16
/-!
# C16 for the file writer used directly

`C16.accepted_prefix` / `error_surfaces` are about histories of `Encode` / `Flush` calls. The property also names
"file-writer calls": a program may drive `FileWriter.WriteHeader` / `WriteBlock` itself, with any row count —
including `0` and an empty block, which the Encoder never writes. The same two clauses hold for every such history.
(That no call panics is not a statement about the model, whose functions are total; the correspondence stream
`fwd` executes the real `WriteBlock` at every failing write index and reports a panic as a failing input.)
-/
namespace Avro.C16
open Avro

theorem fwStep_sim (cfg : EncCfg) (op : FwOp) {w w0 : WState} (h : Sim w w0) :
    (∃ w', fwStep cfg w op = (w', true) ∧ Sim w' (fwStep cfg w0 op).1) ∨
    (∃ w', fwStep cfg w op = (w', false) ∧ w'.accepted <+: (fwStep cfg w0 op).1.accepted) := by
  cases op with
  | header => exact writeAll_sim h _
  | block n d => exact writeAll_sim h _

theorem fwStep_free (cfg : EncCfg) (op : FwOp) {w0 : WState} (h : w0.Free) :
    (fwStep cfg w0 op).2 = true ∧ (fwStep cfg w0 op).1.Free ∧ w0.accepted <+: (fwStep cfg w0 op).1.accepted := by
  have key : ∀ ds : List Bytes, (w0.writeAll ds).2 = true ∧ (w0.writeAll ds).1.Free ∧
      w0.accepted <+: (w0.writeAll ds).1.accepted := by
    intro ds
    obtain ⟨w', hw, hf, hacc, _⟩ := writeAll_free h ds
    rw [hw]; exact ⟨rfl, hf, by rw [hacc]; exact List.prefix_append _ _⟩
  cases op with
  | header => exact key _
  | block n d => exact key _

theorem fwRunFrom_free (cfg : EncCfg) (ops : List FwOp) : ∀ (i : Nat) (w0 : WState), w0.Free →
    (fwRunFrom cfg ops i w0).2 = none ∧ w0.accepted <+: (fwRunFrom cfg ops i w0).1.accepted := by
  induction ops with
  | nil => intro i w0 _; exact ⟨rfl, List.prefix_refl _⟩
  | cons op ops ih =>
    intro i w0 h
    obtain ⟨hok, hf, hpre⟩ := fwStep_free cfg op h
    simp only [fwRunFrom]
    cases hst : fwStep cfg w0 op with
    | mk w' ok =>
      rw [hst] at hok hf hpre; simp only at hok hf hpre; subst hok
      obtain ⟨hn, hp⟩ := ih (i + 1) w' hf
      exact ⟨hn, List.IsPrefix.trans hpre hp⟩

theorem fwRunFrom_sim (cfg : EncCfg) (ops : List FwOp) : ∀ (i : Nat) (w w0 : WState), Sim w w0 →
    (fwRunFrom cfg ops i w).1.accepted <+: (fwRunFrom cfg ops i w0).1.accepted := by
  induction ops with
  | nil => intro i w w0 h; simp only [fwRunFrom]; rw [h.1]; exact List.prefix_refl _
  | cons op ops ih =>
    intro i w w0 h
    obtain ⟨hok0, hf0, _⟩ := fwStep_free cfg op h.2
    simp only [fwRunFrom]
    cases hst0 : fwStep cfg w0 op with
    | mk w0' ok0 =>
      rw [hst0] at hok0 hf0; simp only at hok0 hf0; subst hok0
      rcases fwStep_sim cfg op h with ⟨w', hw, hsim⟩ | ⟨w', hw, hpre⟩
      · rw [hw]; rw [hst0] at hsim; exact ih (i + 1) w' w0' hsim
      · rw [hw]; rw [hst0] at hpre
        exact List.IsPrefix.trans hpre (fwRunFrom_free cfg ops (i + 1) w0' hf0).2

/-- **C16 (clean prefix), direct use**: for every history of `WriteHeader` / `WriteBlock` calls — any row counts,
empty blocks included —, every failing write index `k` and every number `acc` of bytes that write accepted, what the
destination accepted is a byte-for-byte prefix of what the fault-free run writes. -/
theorem direct_accepted_prefix (cfg : EncCfg) (k acc : Nat) (ops : List FwOp) :
    (fwRunFrom cfg ops 0 { failAt := k, accept := acc }).1.accepted <+: (fwRunFrom cfg ops 0 {}).1.accepted :=
  fwRunFrom_sim cfg ops 0 _ _ ⟨rfl, rfl⟩

/-- the fault-free run of any such history reports no error -/
theorem direct_fault_free (cfg : EncCfg) (ops : List FwOp) : (fwRunFrom cfg ops 0 {}).2 = none :=
  (fwRunFrom_free cfg ops 0 {} rfl).1

theorem fwStep_before (cfg : EncCfg) {k : Nat} (op : FwOp) {w : WState} (h : Before k w) :
    ((fwStep cfg w op).2 = true ∧ Before k (fwStep cfg w op).1) ∨
    ((fwStep cfg w op).2 = false ∧ (fwStep cfg w op).1.calls = k) := by
  cases op with
  | header => exact writeAll_before _ h
  | block n d => exact writeAll_before _ h

theorem fwRunFrom_surfaces (cfg : EncCfg) {k : Nat} (ops : List FwOp) : ∀ (i : Nat) (w : WState), Before k w →
    match (fwRunFrom cfg ops i w).2 with
    | some _ => (fwRunFrom cfg ops i w).1.calls = k
    | none => Before k (fwRunFrom cfg ops i w).1 := by
  induction ops with
  | nil => intro i w h; simpa [fwRunFrom] using h
  | cons op ops ih =>
    intro i w h
    simp only [fwRunFrom]
    rcases fwStep_before cfg op h with ⟨hok, hb⟩ | ⟨hf, hc⟩
    · cases hst : fwStep cfg w op with
      | mk w' ok => rw [hst] at hok hb; simp only at hok hb; subst hok; exact ih (i + 1) w' hb
    · cases hst : fwStep cfg w op with
      | mk w' ok => rw [hst] at hf hc; simp only at hf hc; subst hf; exact hc

/-- **C16 (the error surfaces), direct use**: the call reported as failed is the one that issued write `k`
(exactly `k` writes had been issued when it returned, every earlier call returned success); if no call is reported
as failed, fewer than `k` writes were issued at all. -/
theorem direct_error_surfaces (cfg : EncCfg) (k acc : Nat) (hk : 0 < k) (ops : List FwOp) :
    match (fwRunFrom cfg ops 0 { failAt := k, accept := acc }).2 with
    | some _ => (fwRunFrom cfg ops 0 { failAt := k, accept := acc }).1.calls = k
    | none => (fwRunFrom cfg ops 0 { failAt := k, accept := acc }).1.calls < k := by
  have := fwRunFrom_surfaces cfg ops 0 ({ failAt := k, accept := acc } : WState) ⟨rfl, hk⟩
  cases hr : (fwRunFrom cfg ops 0 { failAt := k, accept := acc }).2 with
  | some i => rw [hr] at this; simpa [hr] using this
  | none => rw [hr] at this; simpa [hr] using this.2

/-! Non-vacuity: header, an EMPTY block (row count 0), a block of one record; the data write of the empty block
(write 4) fails. The failing call is call 1 and the destination holds header, count 0 and length 0. -/
example :
    let cfg : EncCfg := { blockSize := 0, compress := id, sync := [9, 9], header := [7] }
    let ops : List FwOp := [.header, .block 0 [], .block 1 [2, 5]]
    (fwRunFrom cfg ops 0 { failAt := 4, accept := 0 }).2 = some 1 ∧
    (fwRunFrom cfg ops 0 { failAt := 4, accept := 0 }).1.accepted = [7, 0, 0] ∧
    (fwRunFrom cfg ops 0 {}).1.accepted = [7, 0, 0, 9, 9, 2, 4, 2, 5, 9, 9] := by
  simp [fwRunFrom, fwStep, blockChunks, WState.writeAll, WState.write, writeVarint, zigzag, putUvarint]

end Avro.C16
