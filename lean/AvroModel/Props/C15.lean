import AvroModel.Lemmas.SchemaValid
import AvroModel.Lemmas.CodecBuilds
/-!
# C15 — Schema generation is total, deterministic and follows the documented mapping

Model: `AvroModel/SchemaGen.lean` (`schemaForType`, mirroring buildschema.go after the repairs
3cecdd8 / f1a4f87: every composite kind is checked against and pushed on `parents`). Go's call stack
is the fuel; self-referential Go types are written with `GoType.ref` and a type environment.

* totality: `total`, `total_closed`, `cyclic_not_ok`, `cyclic_is_error`
* determinism: `deterministic`
* the documented mapping: `mapping_*`, `ptrWrap_*`, `omitWrap_*`, `fields_spec`, `excluded_*`, `name_*`
* structural validity: `no_nested_union`, `no_dup_branch` (under `RegSchemasFlat`);
  `named_once_partial` / `field_names_unique_partial` with the full statements refuted on concrete
  types (`named_once_witness`, `field_names_unique_witness`: known findings D22, D24)
* a codec is built for the generated schema: `codec_builds` (fragment `Supported`)
-/
namespace Avro.C15
open Avro

/-! ## Totality -/

/-- **Total** (no stack overflow). For every schema registry, every type environment with finitely
many named types `names`, each defined as an actual type of depth at most `W`, every list of parents
and every type tree `T`: with fuel `(|names|) · W + depth T + 1` the result is a schema or an error,
never `overflow`. No restriction on the kinds involved: self-referential slices, maps and pointers
(`type S []S`) are covered as well as structs. -/
theorem total (sreg : SReg) (env : TEnv) (names : List String) (W : Nat) (hb : EnvBound env names W)
    (ps : List GoType) (T : GoType) (fuel : Nat) (hf : names.length * W + T.depth + 1 ≤ fuel) :
    schemaForType sreg env fuel ps T ≠ .overflow := by
  apply total_aux sreg env names W hb
  have := Nat.mul_le_mul_right W (pending_le_length env names ps)
  omega

/-- Totality for finite type trees (no back-references needed): fuel `depth T + 1`. -/
theorem total_closed (sreg : SReg) (ps : List GoType) (T : GoType) (fuel : Nat) (hf : T.depth + 1 ≤ fuel) :
    schemaForType sreg TEnv.empty fuel ps T ≠ .overflow := by
  have hb : EnvBound TEnv.empty [] 0 :=
    EnvBound.mk (fun _ _ h => (by cases h)) (fun _ _ h => (by cases h)) (fun _ _ h => (by cases h))
  apply total sreg TEnv.empty [] 0 hb
  simpa using hf

/-- A type that contains itself never yields a schema: `T = c[ref n]` with `n ↦ T` in the
environment, for every non-empty path `c` through pointers, slices, arrays, map values and included
struct fields, whatever the siblings, the registry and the fuel. -/
theorem cyclic_not_ok (sreg : SReg) (env : TEnv) (c : Ctx) (hc : c ≠ .hole) (hi : c.Included) (n : String)
    (henv : env n = some (c.fill (.ref n))) (fuel : Nat) (ps : List GoType) (s : Schema) :
    schemaForType sreg env fuel ps (c.fill (.ref n)) ≠ .ok s := by
  have hroot : sregLookup sreg (c.fill (.ref n)) = none ∧ (c.fill (.ref n)).strip.composite = true ∧
      ∀ m, c.fill (.ref n) ≠ .ref m := by
    cases c <;> first | exact absurd rfl hc | exact ⟨rfl, rfl, fun m h => by cases h⟩
  have hbyte : isByteKind env (.ref n) = false := by
    simp only [isByteKind, resolve, henv, Option.getD]
    cases c <;> first | exact absurd rfl hc | rfl
  apply notOk_descend sreg env (.ref n) hbyte c hi fuel ps
  intro fuel' ps' _ hroot' s'
  have hmem := hroot' hc
  cases fuel' with
  | zero => simp [schemaForType]
  | succ m =>
    rw [schemaForType_succ]
    simp only [genStep, henv]
    cases m with
    | zero => simp [schemaForType]
    | succ m' =>
      rw [schemaForType_succ, genStep_nonref _ _ _ _ _ hroot.2.2,
        genResolved_composite _ _ _ _ _ hroot.1 hroot.2.1]
      have : ps'.any (GoType.beq (c.fill (.ref n))) = true :=
        List.any_eq_true.mpr ⟨_, hmem, GoType.beq_refl _⟩
      simp [this]

/-- **Self-referential types are errors**: with the fuel of `total` the outcome is exactly `err`. -/
theorem cyclic_is_error (sreg : SReg) (env : TEnv) (names : List String) (W : Nat) (hb : EnvBound env names W)
    (c : Ctx) (hc : c ≠ .hole) (hi : c.Included) (n : String) (henv : env n = some (c.fill (.ref n)))
    (ps : List GoType) (fuel : Nat) (hf : names.length * W + (c.fill (.ref n)).depth + 1 ≤ fuel) :
    schemaForType sreg env fuel ps (c.fill (.ref n)) = .err := by
  have h1 := total sreg env names W hb ps (c.fill (.ref n)) fuel hf
  have h2 := cyclic_not_ok sreg env c hc hi n henv fuel ps
  cases h : schemaForType sreg env fuel ps (c.fill (.ref n)) with
  | ok s => exact absurd h (h2 s)
  | err => rfl
  | overflow => exact absurd h h1

/-- `type Rec struct { V int64; Next *Rec `json:"next,omitempty"` }` -/
def recT : GoType :=
  .struct "Rec" "example.com/p" [.mk "V" true "" "" (.int 64), .mk "Next" true "next,omitempty" "" (.ptr (.ref "Rec"))]
def recEnv : TEnv := fun n => if n = "Rec" then some recT else none

/-- non-vacuity of `cyclic_is_error`: the hypotheses hold for `Rec` … -/
example : EnvBound recEnv ["Rec"] 3 := by
  refine ⟨?_, ?_, ?_⟩ <;> intro n t h <;> simp only [recEnv] at h <;> split at h <;> cases h
  · simp [*]
  · intro m hm; cases hm
  · decide
/-- … and the model reports the error. -/
example : schemaForType SReg.empty recEnv 7 [] recT = .err := by rfl

/-- `type S []S` as a struct field (the case the first repair missed): an error as well. -/
example : schemaForType SReg.empty (fun n => if n = "S" then some (.custom 1 (.slice (.ref "S"))) else none) 5 []
    (.struct "T" "p" [.mk "F" true "" "" (.custom 1 (.slice (.ref "S")))]) = .err := by rfl

/-! ## Determinism -/

/-- **Deterministic**: the result is a function of the type, the environment and the *contents* of
the schema registry: two registries that answer every lookup alike give the same result. -/
theorem deterministic (sreg sreg' : SReg) (env : TEnv) (h : ∀ t, sregLookup sreg t = sregLookup sreg' t)
    (fuel : Nat) (ps : List GoType) (T : GoType) :
    schemaForType sreg env fuel ps T = schemaForType sreg' env fuel ps T := by
  induction fuel generalizing ps T with
  | zero => rfl
  | succ m ih =>
    have : schemaForType sreg env m = schemaForType sreg' env m := by funext ps T; exact ih ps T
    simp only [schemaForType_succ, genStep, genResolved, this, h]

/-! ## The documented mapping -/

section mapping
variable (sreg : SReg) (env : TEnv) (fuel : Nat) (ps : List GoType)

/-- bool ↦ boolean -/
theorem mapping_bool : schemaForType sreg env (fuel + 1) ps .bool = .ok (.prim "boolean") := rfl
/-- integers (int, int8 … int64) ↦ long -/
theorem mapping_int (w : Nat) : schemaForType sreg env (fuel + 1) ps (.int w) = .ok (.prim "long") := rfl
/-- floats ↦ double -/
theorem mapping_float32 : schemaForType sreg env (fuel + 1) ps .float32 = .ok (.prim "double") := rfl
theorem mapping_float64 : schemaForType sreg env (fuel + 1) ps .float64 = .ok (.prim "double") := rfl
/-- string ↦ string -/
theorem mapping_string : schemaForType sreg env (fuel + 1) ps .string = .ok (.prim "string") := rfl

/-- a named type without a registration is mapped by its kind (`type Count int64` ↦ long, …) -/
theorem mapping_named_scalar (id : Nat) (u : GoType) (hreg : sregLookup sreg (.custom id u) = none)
    (hu : u = .bool ∨ (∃ w, u = .int w) ∨ u = .float32 ∨ u = .float64 ∨ u = .string) :
    schemaForType sreg env (fuel + 1) ps (.custom id u) = schemaForType sreg env (fuel + 1) ps u := by
  have hreg' : assocLookup id sreg.custom = none := hreg
  rcases hu with rfl | ⟨w, rfl⟩ | rfl | rfl | rfl <;>
    simp [schemaForType_succ, genStep, genResolved, hreg', sregLookup, GoType.strip, GoType.composite]

/-- registered types ↦ their registered schema, before anything else is looked at -/
theorem mapping_registered (t : GoType) (s : Schema) (h : sregLookup sreg t = some s) :
    schemaForType sreg env (fuel + 1) ps t = .ok s := by
  have hr : ∀ n, t ≠ .ref n := by intro n hn; subst hn; simp [sregLookup] at h
  rw [schemaForType_succ, genStep_nonref _ _ _ _ _ hr]; simp [genResolved, h]

/-- the library's own registrations -/
theorem mapping_time : schemaForType sreg env (fuel + 1) ps .time = .ok (nullableSchema (.prim "string")) := rfl
theorem mapping_null (k : NullKind) : schemaForType sreg env (fuel + 1) ps (.nullT k) = .ok (nullTSchema k) := rfl

/-- one call on a composite type that is not registered: the self-reference check, then the kind -/
theorem composite_step (t : GoType) (h1 : sregLookup sreg t = none) (h2 : t.strip.composite = true)
    (hr : ∀ n, t ≠ .ref n) :
    schemaForType sreg env (fuel + 1) ps t =
      if ps.any (GoType.beq t) then .err
      else genKind env (schemaForType sreg env fuel (ps ++ [t])) t.strip := by
  rw [schemaForType_succ, genStep_nonref _ _ _ _ _ hr, genResolved_composite _ _ _ _ _ h1 h2]

/-- []byte ↦ bytes (also `[n]byte` and slices of named byte types) -/
theorem mapping_bytes (e : GoType) (he : isByteKind env e = true) (hps : ps.any (GoType.beq (.slice e)) = false) :
    schemaForType sreg env (fuel + 1) ps (.slice e) = .ok (.prim "bytes") := by
  rw [composite_step _ _ _ _ _ rfl rfl (by intro n h; cases h)]; simp [hps, GoType.strip, genKind_slice, he]

/-- slices ↦ array of the element's schema -/
theorem mapping_slice (e : GoType) (he : isByteKind env e = false) (hps : ps.any (GoType.beq (.slice e)) = false) :
    schemaForType sreg env (fuel + 1) ps (.slice e) =
      (schemaForType sreg env fuel (ps ++ [.slice e]) e).map arraySchema := by
  rw [composite_step _ _ _ _ _ rfl rfl (by intro n h; cases h)]; simp [hps, GoType.strip, genKind_slice, he]

/-- Go arrays are treated like slices -/
theorem mapping_array (n : Nat) (e : GoType) (he : isByteKind env e = false)
    (hps : ps.any (GoType.beq (.array n e)) = false) :
    schemaForType sreg env (fuel + 1) ps (.array n e) =
      (schemaForType sreg env fuel (ps ++ [.array n e]) e).map arraySchema := by
  rw [composite_step _ _ _ _ _ rfl rfl (by intro n h; cases h)]; simp [hps, GoType.strip, genKind_array, he]

/-- string-keyed maps (also keys of a named string type) ↦ map of the value's schema -/
theorem mapping_map (k v : GoType) (hk : isStringKind env k = true) (hps : ps.any (GoType.beq (.map k v)) = false) :
    schemaForType sreg env (fuel + 1) ps (.map k v) =
      (schemaForType sreg env fuel (ps ++ [.map k v]) v).map mapSchema := by
  rw [composite_step _ _ _ _ _ rfl rfl (by intro n h; cases h)]; simp [hps, GoType.strip, genKind_map, hk]

/-- maps with any other key kind cannot be expressed ⇒ error -/
theorem mapping_map_key (k v : GoType) (hk : isStringKind env k = false) :
    schemaForType sreg env (fuel + 1) ps (.map k v) = .err := by
  rw [composite_step _ _ _ _ _ rfl rfl (by intro n h; cases h)]; simp [GoType.strip, genKind_map, hk]

/-- pointers ↦ the element's schema wrapped by `ptrWrap` (`ptrWrap_plain`, `ptrWrap_stays`) -/
theorem mapping_ptr (e : GoType) (hps : ps.any (GoType.beq (.ptr e)) = false) :
    schemaForType sreg env (fuel + 1) ps (.ptr e) =
      (schemaForType sreg env fuel (ps ++ [.ptr e]) e).map ptrWrap := by
  rw [composite_step _ _ _ _ _ rfl rfl (by intro n h; cases h)]; simp [hps, GoType.strip, genKind_ptr]

/-- structs ↦ record named after the type, namespace from the package path, fields from the loop -/
theorem mapping_struct (name pkg : String) (fs : List GoField)
    (hps : ps.any (GoType.beq (.struct name pkg fs)) = false) :
    schemaForType sreg env (fuel + 1) ps (.struct name pkg fs) =
      (genFields (schemaForType sreg env fuel (ps ++ [.struct name pkg fs])) fs).map (recordSchema name pkg) := by
  rw [composite_step _ _ _ _ _ rfl rfl (by intro n h; cases h)]; simp [hps, GoType.strip, genKind_struct]

/-- unsupported kinds (unsigned integers, complex, chan, func, interface, unsafe.Pointer) ⇒ error -/
theorem mapping_unsupported (t : GoType)
    (ht : (∃ w, t = .uint w) ∨ t = .complex ∨ t = .chan ∨ t = .func ∨ t = .iface ∨ t = .unsafeptr) :
    schemaForType sreg env (fuel + 1) ps t = .err := by
  rcases ht with ⟨w, rfl⟩ | rfl | rfl | rfl | rfl | rfl <;> rfl

/-- … also under a name (`type Flags uint32`) -/
theorem mapping_unsupported_named (id : Nat) (t : GoType) (hreg : sregLookup sreg (.custom id t) = none)
    (ht : (∃ w, t = .uint w) ∨ t = .complex ∨ t = .chan ∨ t = .func ∨ t = .iface ∨ t = .unsafeptr) :
    schemaForType sreg env (fuel + 1) ps (.custom id t) = .err := by
  have hreg' : assocLookup id sreg.custom = none := hreg
  rcases ht with ⟨w, rfl⟩ | rfl | rfl | rfl | rfl | rfl <;>
    simp [schemaForType_succ, genStep, genResolved, hreg', sregLookup, GoType.strip, GoType.composite, genKind]

end mapping

/-- pointer to a type whose schema is neither union nor array nor map: `[null, T]`, null first -/
theorem ptrWrap_plain (u : Schema) (h1 : u.type ≠ "union") (h2 : u.type ≠ "array") (h3 : u.type ≠ "map") :
    ptrWrap u = .mk "union" none [.prim "null", u] := by
  simp [ptrWrap, h1, h2, h3, nullableSchema]

/-- pointers to slices and maps stay plain arrays and maps; a union is never wrapped again -/
theorem ptrWrap_stays (u : Schema) (h : u.type = "union" ∨ u.type = "array" ∨ u.type = "map") : ptrWrap u = u := by
  rcases h with h | h | h <;> simp [ptrWrap, h]

/-- `omitempty` ⇒ `[null, T]` with null first … -/
theorem omitWrap_plain (s : Schema) (h : s.type ≠ "union") :
    omitWrap true s = .mk "union" none [.prim "null", s] := by
  simp [omitWrap, h, nullableSchema]
/-- … unless the type's schema already is a union -/
theorem omitWrap_union (s : Schema) (h : s.type = "union") : omitWrap true s = s := by simp [omitWrap, h]
theorem omitWrap_off (s : Schema) : omitWrap false s = s := by simp [omitWrap]

/-- **Fields**: a successful field loop yields exactly the included fields, in declaration order,
under their JSON names, each typed by the schema of its Go type (nullable when `omitempty`). -/
theorem fields_spec (rec : GoType → Gen Schema) (fs : List GoField) (r : List SchemaField) :
    genFields rec fs = .ok r ↔ FieldsOf rec fs r := genFields_ok_iff rec fs r

/-- the names of the generated fields are the JSON names of the included Go fields, in order -/
theorem fields_names (rec : GoType → Gen Schema) (fs : List GoField) (r : List SchemaField)
    (h : genFields rec fs = .ok r) :
    r.map SchemaField.name = (fs.map nameForField).filter (· != "-") := by
  rw [genFields_ok_iff] at h
  induction h with
  | nil => rfl
  | skip hn _ ih => simp [hn, ih]
  | keep hn _ _ ih => simp [hn, ih, SchemaField.name]

/-- unexported fields are excluded -/
theorem excluded_unexported (n j b : String) (t : GoType) : nameForField (.mk n false j b t) = "-" := by
  simp [nameForField, GoField.exported]
/-- `bq:"-"` excludes a field -/
theorem excluded_bq (n j : String) (e : Bool) (t : GoType) : nameForField (.mk n e j "-" t) = "-" := by
  cases e <;> simp [nameForField, GoField.exported, GoField.bqTag]
/-- `json:"-"` excludes a field, with or without further options -/
theorem excluded_json_dash (n b : String) (e : Bool) (t : GoType) : nameForField (.mk n e "-" b t) = "-" := by
  have h : String.ofList ((splitCommas "-".toList).headD []) = "-" := by decide
  simp only [nameForField, GoField.exported, GoField.bqTag, GoField.jsonTag, h]
  split
  · rfl
  · split
    · rfl
    · rfl
theorem excluded_json_dash_comma (n b : String) (e : Bool) (t : GoType) : nameForField (.mk n e "-," b t) = "-" := by
  have h : String.ofList ((splitCommas "-,".toList).headD []) = "-" := by decide
  simp only [nameForField, GoField.exported, GoField.bqTag, GoField.jsonTag, h]
  split
  · rfl
  · split
    · rfl
    · rfl
/-- without a JSON name the Go field name is used -/
theorem name_default (n b : String) (t : GoType) (hb : b ≠ "-") : nameForField (.mk n true "" b t) = n := by
  have h : String.ofList ((splitCommas "".toList).headD []) = "" := by decide
  have hb' : (b == "-") = false := by simpa using hb
  simp only [nameForField, GoField.exported, GoField.bqTag, GoField.jsonTag, GoField.name, h, hb']
  rfl
/-- concrete tag combinations of the statement -/
example : nameForField (.mk "F" true "n,omitempty,string" "" .bool) = "n" ∧ omitEmptyTag "n,omitempty,string" = true := by decide
example : nameForField (.mk "F" true ",omitempty" "" .bool) = "F" ∧ omitEmptyTag ",omitempty" = true := by decide
example : nameForField (.mk "F" true "omitempty" "" .bool) = "omitempty" ∧ omitEmptyTag "omitempty" = false := by decide
example : omitEmptyTag "n,omitemptyX" = false ∧ omitEmptyTag "n,string,omitempty" = true := by decide

/-- the namespace is the package path with `/` ↦ `.` and `-` ↦ `_` -/
example : namespaceOf "github.com/some-org/pkg" = "github.com.some_org.pkg" := by decide

/-- `map[int]string` is an error, `map[Key]string` with `type Key string` is a map -/
example : schemaForType SReg.empty TEnv.empty 3 [] (.struct "T" "p" [.mk "M" true "" "" (.map (.int 64) .string)]) = .err := by rfl
example : schemaForType SReg.empty TEnv.empty 3 [] (.map (.custom 7 .string) .string) = .ok (mapSchema (.prim "string")) := by rfl

/-- `*[]T` and `*map[string]T` stay plain, `*T` and `**T` become `[null, T]` (one union, null first) -/
example : schemaForType SReg.empty TEnv.empty 5 [] (.ptr (.slice .string)) = .ok (arraySchema (.prim "string")) := by rfl
example : schemaForType SReg.empty TEnv.empty 5 [] (.ptr (.map .string .bool)) = .ok (mapSchema (.prim "boolean")) := by rfl
example : schemaForType SReg.empty TEnv.empty 5 [] (.ptr (.ptr (.int 32))) = .ok (nullableSchema (.prim "long")) := by rfl
example : schemaForType SReg.empty TEnv.empty 5 [] (.ptr .time) = .ok (nullableSchema (.prim "string")) := by rfl

/-! ## Structural validity -/

/-- **Unions never nest directly**: in every schema generated for any type, under any registry whose
registered schemas are themselves flat, every union `u` that occurs anywhere has no union among its
branches. -/
theorem no_nested_union (sreg : SReg) (env : TEnv) (hreg : RegSchemasFlat sreg) (fuel : Nat) (ps : List GoType)
    (T : GoType) (S : Schema) (h : schemaForType sreg env fuel ps T = .ok S)
    (u : Schema) (hu : Sub u S) (hut : u.type = "union") : ∀ b ∈ u.union, b.type ≠ "union" := by
  have hok := unionsOk_sub (gen_unionsOk sreg env hreg fuel ps T S h).1 hu
  obtain ⟨t, o, br⟩ := u
  obtain ⟨x, hx, h1, _⟩ := unionsOk_top hok hut
  intro b hb
  simp only [Schema.union, hx, List.mem_cons, List.mem_nil_iff, or_false] at hb
  rcases hb with rfl | rfl
  · decide
  · exact h1

/-- **Unions never repeat a branch**: every union that occurs is exactly `[null, X]`, null first, with
`X` not null (and not a union): two branches of different kinds. -/
theorem no_dup_branch (sreg : SReg) (env : TEnv) (hreg : RegSchemasFlat sreg) (fuel : Nat) (ps : List GoType)
    (T : GoType) (S : Schema) (h : schemaForType sreg env fuel ps T = .ok S)
    (u : Schema) (hu : Sub u S) (hut : u.type = "union") :
    ∃ x, u.union = [.prim "null", x] ∧ x.type ≠ "null" ∧ x.type ≠ "union" := by
  have hok := unionsOk_sub (gen_unionsOk sreg env hreg fuel ps T S h).1 hu
  obtain ⟨t, o, br⟩ := u
  obtain ⟨x, hx, h1, h2⟩ := unionsOk_top hok hut
  exact ⟨x, hx, h2, h1⟩

/-- the library's own registrations satisfy the hypothesis -/
example : RegSchemasFlat SReg.empty := by intro id s h; simp [SReg.empty, assocLookup] at h

/-- non-vacuity: `struct{ P **time.Time `json:",omitempty"` }` has a union, and it is flat -/
example : schemaForType SReg.empty TEnv.empty 6 []
    (.struct "T" "p" [.mk "P" true ",omitempty" "" (.ptr (.ptr .time))]) =
    .ok (recordSchema "T" "p" [.mk "P" (nullableSchema (.prim "string"))]) := by rfl

/-- A generated schema is never the bare `null` schema (so wrapping it gives no `[null, null]`). -/
theorem never_null (sreg : SReg) (env : TEnv) (hreg : RegSchemasFlat sreg) (fuel : Nat) (ps : List GoType)
    (T : GoType) (S : Schema) (h : schemaForType sreg env fuel ps T = .ok S) : S.type ≠ "null" :=
  (gen_unionsOk sreg env hreg fuel ps T S h).2

/-! ### Every named type is defined once (known finding D22) -/

/-- full statement: the named records of a generated schema are pairwise distinct -/
def named_once_full : Prop :=
  ∀ (sreg : SReg) (fuel : Nat) (T : GoType) (S : Schema),
    RegSchemasNameless sreg → schemaForType sreg TEnv.empty fuel [] T = .ok S → S.recordNames.Nodup

/-- `type Inner struct{A int64; B string}; type Twice struct{X Inner; Y Inner}` -/
def innerT : GoType := .struct "Inner" "main" [.mk "A" true "" "" (.int 64), .mk "B" true "" "" .string]
def twiceT : GoType := .struct "Twice" "main" [.mk "X" true "" "" innerT, .mk "Y" true "" "" innerT]

/-- **Counter-witness (D22)**: the struct type used in two positions is defined twice. -/
theorem named_once_witness : ¬ named_once_full := by
  intro h
  have hgen : schemaForType SReg.empty TEnv.empty 4 [] twiceT =
      .ok (recordSchema "Twice" "main" [.mk "X" (recordSchema "Inner" "main" [.mk "A" (.prim "long"), .mk "B" (.prim "string")]),
        .mk "Y" (recordSchema "Inner" "main" [.mk "A" (.prim "long"), .mk "B" (.prim "string")])]) := by rfl
  have := h SReg.empty 4 twiceT _ (by intro id s h; simp [SReg.empty, assocLookup] at h) hgen
  revert this
  simp [recordNames_record, SchemaField.recordNamesList, recordNames_prim]

/-- **Partial**: when no named struct type occurs twice in the type tree (and the registered schemas
define no named records), every named record of the generated schema is defined once. -/
theorem named_once_partial (sreg : SReg) (hreg : RegSchemasNameless sreg) (fuel : Nat) (ps : List GoType)
    (T : GoType) (S : Schema) (hT : T.structNames.Nodup)
    (h : schemaForType sreg TEnv.empty fuel ps T = .ok S) : S.recordNames.Nodup :=
  List.Nodup.sublist (gen_recordNames sreg hreg fuel ps T S h) hT

/-- non-vacuity of `named_once_partial` -/
example : (GoType.struct "Once" "main" [.mk "X" true "" "" innerT, .mk "N" true "" "" (.int 32)]).structNames.Nodup := by
  simp [GoType.structNames, GoField.structNamesList, innerT]

/-! ### Record field names are unique (known finding D24) -/

/-- full statement: every record of a generated schema has pairwise distinct field names -/
def field_names_unique_full : Prop :=
  ∀ (sreg : SReg) (fuel : Nat) (T : GoType) (S : Schema),
    RegSchemasFieldsUnique sreg → schemaForType sreg TEnv.empty fuel [] T = .ok S → S.FieldsUnique

/-- `struct{ A int64 `json:"x"`; B int64 `json:"x"` }` -/
def dupJsonT : GoType := .struct "Dup" "main" [.mk "A" true "x" "" (.int 64), .mk "B" true "x" "" (.int 64)]

/-- **Counter-witness (D24)**: two fields with the same JSON name give a record with two fields `x`. -/
theorem field_names_unique_witness : ¬ field_names_unique_full := by
  intro h
  have hgen : schemaForType SReg.empty TEnv.empty 3 [] dupJsonT =
      .ok (recordSchema "Dup" "main" [.mk "x" (.prim "long"), .mk "x" (.prim "long")]) := by rfl
  have := h SReg.empty 3 dupJsonT _ (by intro id s h; simp [SReg.empty, assocLookup] at h) hgen
  revert this
  simp [recordSchema, Schema.FieldsUnique, SchemaObject.fields, SchemaField.name]

/-- **Partial**: when the JSON names of the included fields are distinct in every struct of the type
tree (and the registered schemas have unique field names), so are the field names of every record. -/
theorem field_names_unique_partial (sreg : SReg) (hreg : RegSchemasFieldsUnique sreg) (fuel : Nat) (ps : List GoType)
    (T : GoType) (S : Schema) (hT : T.JsonNamesDistinct)
    (h : schemaForType sreg TEnv.empty fuel ps T = .ok S) : S.FieldsUnique :=
  gen_fieldsUnique sreg hreg fuel ps T S hT h

/-- non-vacuity of `field_names_unique_partial` -/
example : innerT.JsonNamesDistinct := by
  simp only [innerT, GoType.JsonNamesDistinct, GoField.JsonNamesDistinctList, and_true]
  decide

/-! ## A codec is built for the generated schema -/

/-- **The generated schema is accepted by codec construction** for the same Go type, for the fragment
`GoType.Supported` (bool, int16/32/64, floats, string, []byte, slices, string-keyed maps, pointers,
structs with distinct JSON names — excluded fields may have any type), under every codec registry:
from some fuel on `buildCodec` succeeds, for either value of the `omit` flag.
Outside the fragment a codec may be refused with an error (int8, Go arrays, named string keys are
examples the correspondence run exhibits); that is the "or refused with an error" of the property. -/
theorem codec_builds (reg : Reg) (sreg : SReg) (env : TEnv) (hflat : RegSchemasFlat sreg) (T : GoType)
    (hT : T.Supported) (m : Nat) (ps : List GoType) (S : Schema) (h : schemaForType sreg env m ps T = .ok S) :
    ∃ N, ∀ fuel, N ≤ fuel → ∀ oe, ∃ c, buildCodec reg fuel S (some T) oe = .ok c := by
  obtain ⟨⟨N, hN⟩, _⟩ := codec_builds_aux reg sreg env hflat (T.depth + 1) T (Nat.lt_succ_self _) m ps S hT h
  exact ⟨N, fun fuel hf oe => hN oe fuel hf⟩

/-- `struct{ A int32; B *[]string `json:"b,omitempty"`; C map[string]*float32; d chan int }` -/
def supportedT : GoType :=
  .struct "S" "p" [.mk "A" true "" "" (.int 32), .mk "B" true "b,omitempty" "" (.ptr (.slice .string)),
    .mk "C" true "" "" (.map .string (.ptr .float32)), .mk "d" false "" "" .chan]

/-- non-vacuity of `codec_builds`: the type is in the fragment, a schema is generated … -/
example : supportedT.Supported := by
  simp only [supportedT, GoType.Supported, GoField.SupportedList]
  refine ⟨by decide, Or.inr (Or.inr (Or.inl trivial)), Or.inr (Or.inr trivial), Or.inr ⟨trivial, trivial⟩,
    Or.inl (by decide), trivial⟩
example : ∃ S, schemaForType SReg.empty TEnv.empty 6 [] supportedT = .ok S := ⟨_, rfl⟩

/-- `codec_total`: in the model `buildCodec` has no other outcome than a codec or an error (the Go
function has no `panic` path of its own: every nil check precedes the dereference it guards — that
is what the correspondence run exercises on every generated schema). -/
theorem codec_total (reg : Reg) (fuel : Nat) (S : Schema) (T : GoType) (oe : Bool) :
    (∃ c, buildCodec reg fuel S (some T) oe = .ok c) ∨ (∃ e, buildCodec reg fuel S (some T) oe = .error e) := by
  cases buildCodec reg fuel S (some T) oe with
  | ok c => exact Or.inl ⟨c, rfl⟩
  | error e => exact Or.inr ⟨e, rfl⟩

end Avro.C15
