import AvroModel.Lemmas.Encoder
/-!
# C09 — Encoder output is an exact, gap-free sequence of blocks for any call history

Model: `AvroModel/Encoder.lean`. `specPart` is the reference partition written from the property
statement; `encRun` mirrors `NewEncoderFor`/`Encode`/`Flush`/`WriteBlock`.
All theorems are for every finite call history, every block size, any compression function.
-/
namespace Avro.C09
open Avro

/-! ### Facts about the reference partition -/

/-- Nothing lost, duplicated or reordered: the blocks followed by the pending records are exactly
the records encoded, in order. -/
theorem spec_preserves (bs : Nat) (ops : List EncOp) (pend : List Bytes) :
    (specPart bs ops pend).1.flatten ++ (specPart bs ops pend).2 = pend ++ encodings ops := by
  induction ops generalizing pend with
  | nil => simp [specPart, encodings]
  | cons op ops ih =>
    cases op with
    | flush =>
      simp only [specPart, encodings]
      split
      · rename_i h; subst h; simpa using ih []
      · have := ih []; simp only [List.flatten_cons, List.append_assoc]; rw [this]; simp
    | encode r =>
      simp only [specPart, encodings]
      split
      · have := ih []; simp only [List.flatten_cons, List.append_assoc]; rw [this]; simp
      · have := ih (pend ++ [r]); rw [this]; simp

/-- No empty block is ever written. -/
theorem spec_nonempty (bs : Nat) (ops : List EncOp) (pend : List Bytes) :
    ∀ b ∈ (specPart bs ops pend).1, b ≠ [] := by
  induction ops generalizing pend with
  | nil => simp [specPart]
  | cons op ops ih =>
    cases op with
    | flush =>
      simp only [specPart]
      split
      · exact ih []
      · rename_i h
        intro b hb
        simp only [List.mem_cons] at hb
        rcases hb with rfl | hb
        · exact h
        · exact ih [] b hb
    | encode r =>
      simp only [specPart]
      split
      · intro b hb
        simp only [List.mem_cons] at hb
        rcases hb with rfl | hb
        · simp
        · exact ih [] b hb
      · exact ih (pend ++ [r])

/-- After flush nothing remains buffered. -/
theorem spec_flush_drains (bs : Nat) (ops : List EncOp) (pend : List Bytes) :
    (specPart bs (ops ++ [.flush]) pend).2 = [] := by
  induction ops generalizing pend with
  | nil => simp only [List.nil_append, specPart]; split <;> simp [specPart]
  | cons op ops ih =>
    cases op with
    | flush => simp only [List.cons_append, specPart]; split <;> simp [ih]
    | encode r => simp only [List.cons_append, specPart]; split <;> simp [ih]

/-- Blocks are emitted as soon as the threshold is reached: what stays pending is below the
threshold, and no block could have been closed one record earlier. -/
def Below (bs : Nat) (pend : List Bytes) : Prop := pend = [] ∨ pend.flatten.length < bs

theorem spec_pending_below (bs : Nat) (ops : List EncOp) (pend : List Bytes) (h : Below bs pend) :
    Below bs (specPart bs ops pend).2 := by
  induction ops generalizing pend with
  | nil => simpa [specPart] using h
  | cons op ops ih =>
    cases op with
    | flush => simp only [specPart]; split <;> exact ih [] (Or.inl rfl)
    | encode r =>
      simp only [specPart]
      split
      · exact ih [] (Or.inl rfl)
      · rename_i hlt; exact ih _ (Or.inr (by omega))

theorem spec_blocks_minimal (bs : Nat) (ops : List EncOp) (pend : List Bytes) (h : Below bs pend) :
    ∀ b ∈ (specPart bs ops pend).1, ∀ init r, b = init ++ [r] → Below bs init := by
  induction ops generalizing pend with
  | nil => simp [specPart]
  | cons op ops ih =>
    cases op with
    | flush =>
      simp only [specPart]
      split
      · exact ih [] (Or.inl rfl)
      · intro b hb init r hbr
        simp only [List.mem_cons] at hb
        rcases hb with rfl | hb
        · -- the block closed by flush is `pend`, whose proper prefixes are below the threshold
          rcases h with h | h
          · subst h; simp at hbr
          · by_cases hi : init = []
            · exact Or.inl hi
            · right
              have : (init ++ [r]).flatten.length < bs := by rw [← hbr]; exact h
              rw [List.flatten_append, List.length_append] at this; omega
        · exact ih [] (Or.inl rfl) b hb init r hbr
    | encode r0 =>
      simp only [specPart]
      split
      · intro b hb init r hbr
        simp only [List.mem_cons] at hb
        rcases hb with rfl | hb
        · have := List.append_inj' hbr (by simp)
          rw [← this.1]; exact h
        · exact ih [] (Or.inl rfl) b hb init r hbr
      · rename_i hlt; exact ih _ (Or.inr (by omega))

/-! ### The implementation model refines the reference partition -/

theorem specPart_encode_pos {bs : Nat} {ops : List EncOp} {pend : List Bytes} {r : Bytes}
    (h : bs ≤ (pend ++ [r]).flatten.length) :
    specPart bs (.encode r :: ops) pend = ((pend ++ [r]) :: (specPart bs ops []).1, (specPart bs ops []).2) := by
  simp only [specPart, if_pos h]

theorem specPart_encode_neg {bs : Nat} {ops : List EncOp} {pend : List Bytes} {r : Bytes}
    (h : ¬ bs ≤ (pend ++ [r]).flatten.length) :
    specPart bs (.encode r :: ops) pend = specPart bs ops (pend ++ [r]) := by
  simp only [specPart, if_neg h]

theorem flush_free (cfg : EncCfg) (pend : List Bytes) (s : EncState) (w : WState) (hw : w.Free)
    (hc : s.count = pend.length) (hb : s.wb = pend.flatten) (hne : pend ≠ []) :
    ∃ w', encFlush cfg s w = ({ count := 0, wb := [] }, w', true) ∧ w'.Free ∧
      w'.accepted = w.accepted ++ frame cfg pend ∧ w'.calls = w.calls + 4 := by
  have hpos : s.count > 0 := by
    rw [hc]; cases pend with
    | nil => exact absurd rfl hne
    | cons _ _ => simp
  obtain ⟨w', hwa, hfree, hacc, _, hcalls⟩ := writeAll_free hw (blockChunks cfg s.count s.wb)
  refine ⟨w', ?_, hfree, ?_, ?_⟩
  · simp only [encFlush, hpos, if_true, hwa]
  · rw [hacc, frame, hc, hb]
  · rw [hcalls]; simp [blockChunks]

/-- Main refinement: from a state that represents `pend`, a fault-free run of `ops` emits exactly
the frames of `specPart`'s blocks and ends in the state that represents `specPart`'s pending list. -/
theorem run_refines (cfg : EncCfg) (ops : List EncOp) : ∀ (pend : List Bytes) (i : Nat) (s : EncState) (w : WState),
    w.Free → s.count = pend.length → s.wb = pend.flatten →
    ∃ s' w', encRunFrom cfg ops i s w = (s', w', none) ∧ w'.Free ∧
      w'.accepted = w.accepted ++ (((specPart cfg.blockSize ops pend).1).map (frame cfg)).flatten ∧
      s'.count = (specPart cfg.blockSize ops pend).2.length ∧
      s'.wb = (specPart cfg.blockSize ops pend).2.flatten := by
  induction ops with
  | nil => intro pend i s w hw hc hb; exact ⟨s, w, rfl, hw, by simp [specPart], by simpa [specPart] using hc, by simpa [specPart] using hb⟩
  | cons op ops ih =>
    intro pend i s w hw hc hb
    cases op with
    | flush =>
      by_cases hp : pend = []
      · subst hp
        have h0 : ¬ s.count > 0 := by simp [hc]
        obtain ⟨s', w', hrun, hfree, hacc, hcnt, hwb⟩ := ih [] (i + 1) s w hw hc hb
        refine ⟨s', w', ?_, hfree, ?_, ?_, ?_⟩
        · simp only [encRunFrom, encStep, encFlush, h0, if_false]; exact hrun
        · simpa [specPart] using hacc
        · simpa [specPart] using hcnt
        · simpa [specPart] using hwb
      · obtain ⟨w1, hfl, hfree1, hacc1, _⟩ := flush_free cfg pend s w hw hc hb hp
        obtain ⟨s', w', hrun, hfree, hacc, hcnt, hwb⟩ := ih [] (i + 1) { count := 0, wb := [] } w1 hfree1 rfl rfl
        refine ⟨s', w', ?_, hfree, ?_, ?_, ?_⟩
        · simp only [encRunFrom, encStep, hfl]; exact hrun
        · rw [hacc, hacc1]; simp [specPart, hp]
        · simpa [specPart, hp] using hcnt
        · simpa [specPart, hp] using hwb
    | encode r =>
      have hc' : (s.count + 1) = (pend ++ [r]).length := by simp [hc]
      have hb' : s.wb ++ r = (pend ++ [r]).flatten := by simp [hb]
      by_cases hth : cfg.blockSize ≤ (pend ++ [r]).flatten.length
      · obtain ⟨w1, hfl, hfree1, hacc1, _⟩ := flush_free cfg (pend ++ [r]) { count := s.count + 1, wb := s.wb ++ r } w hw hc' hb' (by simp)
        obtain ⟨s', w', hrun, hfree, hacc, hcnt, hwb⟩ := ih [] (i + 1) { count := 0, wb := [] } w1 hfree1 rfl rfl
        refine ⟨s', w', ?_, hfree, ?_, ?_, ?_⟩
        · have hth' : cfg.blockSize ≤ (s.wb ++ r).length := by rw [hb']; exact hth
          simp only [encRunFrom, encStep, encEncode, hth', if_true, hfl]; exact hrun
        · rw [hacc, hacc1, specPart_encode_pos hth]; simp
        · rw [specPart_encode_pos hth]; exact hcnt
        · rw [specPart_encode_pos hth]; exact hwb
      · obtain ⟨s', w', hrun, hfree, hacc, hcnt, hwb⟩ := ih (pend ++ [r]) (i + 1) { count := s.count + 1, wb := s.wb ++ r } w hw hc' hb'
        refine ⟨s', w', ?_, hfree, ?_, ?_, ?_⟩
        · have hth' : ¬ cfg.blockSize ≤ (s.wb ++ r).length := by rw [hb']; exact hth
          simp only [encRunFrom, encStep, encEncode, hth', if_false]; exact hrun
        · rw [specPart_encode_neg hth]; exact hacc
        · rw [specPart_encode_neg hth]; exact hcnt
        · rw [specPart_encode_neg hth]; exact hwb

/-- **C09**: for every call history the bytes written are the header followed by the frames of the
reference partition's blocks (each: exact record count, exact byte length, payload, sync marker),
no call fails, and the encoder's buffer holds exactly the pending records. -/
theorem refines (cfg : EncCfg) (ops : List EncOp) :
    ∃ s' w', encRun cfg {} ops = (s', w', none) ∧
      w'.accepted = cfg.header ++ (((specPart cfg.blockSize ops []).1).map (frame cfg)).flatten ∧
      s'.count = (specPart cfg.blockSize ops []).2.length ∧
      s'.wb = (specPart cfg.blockSize ops []).2.flatten := by
  have hfree : ({} : WState).Free := rfl
  obtain ⟨s', w', hrun, _, hacc, hcnt, hwb⟩ :=
    run_refines cfg ops [] 1 {} (({} : WState).write cfg.header).1 (write_free_free hfree _) rfl rfl
  refine ⟨s', w', ?_, ?_, hcnt, hwb⟩
  · simp only [encRun]; rw [write_free hfree] at hrun ⊢; exact hrun
  · rw [hacc, write_free hfree]; simp

/-- After `Flush` returns nothing remains buffered. -/
theorem flush_drains (cfg : EncCfg) (ops : List EncOp) :
    ∃ w', encRun cfg {} (ops ++ [.flush]) = ({ count := 0, wb := [] }, w', none) := by
  obtain ⟨s', w', hrun, _, hcnt, hwb⟩ := refines cfg (ops ++ [.flush])
  rw [spec_flush_drains] at hcnt hwb
  refine ⟨w', ?_⟩
  rw [hrun]
  cases s'; simp at hcnt hwb; simp [hcnt, hwb]

/-- The frame of a block: count varint, size varint, payload, sync — exact count and byte length. -/
theorem frame_shape (cfg : EncCfg) (blk : List Bytes) :
    frame cfg blk = writeVarint blk.length ++ writeVarint (cfg.compress blk.flatten).length ++
      cfg.compress blk.flatten ++ cfg.sync := by
  simp [frame, blockChunks]

/-! Non-vacuity: a concrete history with a threshold crossing, an empty flush and a pending record. -/
example : specPart 3 [.encode [1, 2], .encode [3], .flush, .flush, .encode [4]] [] =
    ([[[1, 2], [3]]], [[4]]) := by decide

end Avro.C09
