import AvroModel.Props.C01
/-!
# C13 — "… and decoding those bytes returns the original value", for caller-supplied schemas

`C13.write_then_read` (Props/C13.lean) says that decoding what was written yields the value the written
datum denotes (`ofAvro ∘ toAvro`), or runs out of budget. With the explicit read budget
(`Lemmas/ReadBudget.lean`) and the value-level round trip (`Lemmas/RoundTrip.lean`) the statement
becomes the one the property makes, for every schema the caller may supply and every codec the library
builds from it — whichever position null occupies in a union, whatever numeric width or logical
type: the bytes decode to the NORMAL FORM of the value written, and to the value itself when it is
plain (no nil/empty-map distinction, no omitted zero, no invalid wrapper payload, no sub-resolution
time).
-/
namespace Avro.C13
open Avro

variable (env : Env)

/-- **C13, "decoding those bytes returns the original value"**, for a codec built from a caller schema:
`sch` is any schema, `T` any Go type for which `buildCodec` succeeds. No hypothesis mentions budgets
running out: `goBudget c g` is computed from the codec and the value written. -/
theorem built_roundtrip (reg : Reg) (hreg : ∀ id, reg.custom id = none) (nb fa n n' m m' : Nat)
    (sch : Schema) (T : Option GoType) (oe : Bool) (c : Codec) (s : ASchema) (g : GoVal) (bs bs' rest : Bytes) (v : Value)
    (hb : buildCodec reg nb sch T oe = .ok c) (hc : classify fa sch = some s)
    (hw : write env n c g = some bs) (ht : toAvro env (omits env) m c g = some v)
    (he : encode (canonPlan v) s v = some bs') (hok : RTOk env m' c g) (hn : goBudget c g ≤ n') :
    read env n' c (bs ++ rest) (Codec.zero env c) = .ok (normCodec env m' c g, rest) :=
  C01.value_roundtrip_go env c s ((buildOkAt reg hreg nb).build sch T oe c hb fa s hc) n n' m m' g bs bs' rest v hw ht he hok hn

/-- … and exactly the value written when it is plain -/
theorem built_roundtrip_exact (h : EnvLaws env) (reg : Reg) (hreg : ∀ id, reg.custom id = none) (nb fa n n' m m' : Nat)
    (sch : Schema) (T : Option GoType) (oe : Bool) (c : Codec) (s : ASchema) (g : GoVal) (bs bs' rest : Bytes) (v : Value)
    (hb : buildCodec reg nb sch T oe = .ok c) (hc : classify fa sch = some s)
    (hw : write env n c g = some bs) (ht : toAvro env (omits env) m c g = some v)
    (he : encode (canonPlan v) s v = some bs') (hok : RTOk env m' c g) (hp : Plain env m' c g)
    (hn : goBudget c g ≤ n') :
    read env n' c (bs ++ rest) (Codec.zero env c) = .ok (g, rest) := by
  have := built_roundtrip env reg hreg nb fa n n' m m' sch T oe c s g bs bs' rest v hb hc hw ht he hok hn
  rwa [normCodec_plain env h m' c g hp] at this

end Avro.C13

namespace Avro.C13
open Avro

/-! non-vacuity: a caller schema with null SECOND, `["long","null"]`, for a `*int64` field -/

def exSch : Schema := .mk "union" none [.prim "long", .prim "null"]
def exT : GoType := .ptr (.int 64)

example : ∃ c s, buildCodec libReg 20 exSch (some exT) false = .ok c ∧ classify 5 exSch = some s ∧
    -- a non-nil pointer: selector 0 (the long branch is first), then the value
    write toyEnv 5 c (.ptr (some (.int 5))) = some [0, 10] ∧
    read toyEnv (goBudget c (.ptr (some (.int 5)))) c ([0, 10] ++ [7]) (Codec.zero toyEnv c) = .ok (.ptr (some (.int 5)), [7]) ∧
    -- a nil pointer: selector 1
    write toyEnv 5 c (.ptr none) = some [2] ∧
    read toyEnv (goBudget c (.ptr none)) c ([2] ++ [7]) (Codec.zero toyEnv c) = .ok (.ptr none, [7]) := by
  refine ⟨.unionOne (.pointer (.int 64 false)) 0, .union [.long, .null], by rfl, by rfl, ?_, ?_, ?_, ?_⟩
  · decide +kernel
  · have hcf : CodecFor (.unionOne (.pointer (.int 64 false)) 0) (.union [.long, .null]) :=
      (buildOkAt libReg (fun _ => rfl) 20).build exSch (some exT) false _ (by rfl) 5 _ (by rfl)
    exact C01.value_roundtrip_go toyEnv _ _ hcf 5 _ 5 5 (.ptr (some (.int 5))) [0, 10] [0, 10] [7]
      (.union 0 (.int 5)) (by decide +kernel) (by rfl) (by decide +kernel)
      (by simp [RTOk, inRange, Codec.zero, Codec.ptrDepth]) (Nat.le_refl _)
  · decide +kernel
  · have hcf : CodecFor (.unionOne (.pointer (.int 64 false)) 0) (.union [.long, .null]) :=
      (buildOkAt libReg (fun _ => rfl) 20).build exSch (some exT) false _ (by rfl) 5 _ (by rfl)
    exact C01.value_roundtrip_go toyEnv _ _ hcf 5 _ 5 5 (.ptr none) [2] [2] [7]
      (.union 1 .null) (by decide +kernel) (by rfl) (by decide +kernel)
      (by simp [RTOk, inRange, Codec.zero, Codec.ptrDepth]) (Nat.le_refl _)

end Avro.C13
