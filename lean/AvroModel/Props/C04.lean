import AvroModel.Lemmas.ReadOk
import AvroModel.Lemmas.BuildOk
import AvroModel.Lemmas.ReadBudget
/-!
# C04 — Projection: fields the target struct lacks are skipped without side effects

`skip` consumes exactly the bytes of a datum (every codec, every datum, every plan including
multi-block and size-prefixed collections, every budget); `read` of a record drops the fields that
have no target and leaves untargeted Go fields untouched; the value delivered into a remaining
field depends only on that field's codec, datum and initial value.
-/
namespace Avro.C04
open Avro

variable (env : Env)

/-- **Skip exactness**: skipping a datum leaves exactly what follows it. -/
theorem skip_exact (c : Codec) (a : ASchema) (hcf : CodecFor c a) (n : Nat) (p : Plan) (v : Value) (bs rest : Bytes)
    (he : encode p a v = some bs) :
    skip env n c (bs ++ rest) = .ok rest ∨ skip env n c (bs ++ rest) = .fuel :=
  (skipExactAt env n).skip c a p v bs rest hcf he

/-- **Skip exactness with an explicit budget**: with at least `readBudget c v = Codec.sz c + 2 * Value.sz v + 2`
steps (a function of the codec tree and the datum only: not of the writer's plan, not of what follows),
skipping any legal encoding of `v` returns exactly what follows the datum — no "or out of budget"
alternative. -/
theorem skip_exact_budget (c : Codec) (a : ASchema) (hcf : CodecFor c a) (n : Nat) (p : Plan) (v : Value) (bs rest : Bytes)
    (he : encode p a v = some bs) (hn : readBudget c v ≤ n) :
    skip env n c (bs ++ rest) = .ok rest :=
  skip_budget env hcf he hn rest

/-- the same for codecs obtained from construction -/
theorem skip_exact_built_budget (reg : Reg) (hreg : ∀ id, reg.custom id = none) (nb fa n : Nat)
    (s : Schema) (T : Option GoType) (oe : Bool) (c : Codec) (a : ASchema) (p : Plan) (v : Value) (bs rest : Bytes)
    (hb : buildCodec reg nb s T oe = .ok c) (hc : classify fa s = some a) (he : encode p a v = some bs)
    (hn : readBudget c v ≤ n) :
    skip env n c (bs ++ rest) = .ok rest :=
  skip_exact_budget env c a ((buildOkAt reg hreg nb).build s T oe c hb fa a hc) n p v bs rest he hn

/-- non-vacuity: a map with a size-prefixed block and a plain block, skipped with budget
`readBudget = 0 + 1 + 2 * 3 + 2 = 9`, whatever follows -/
example (rest : Bytes) :
    skip env 9 (.map (.int 64 false) false) ([1, 6, 2, 97, 2, 2, 2, 98, 4, 0] ++ rest) = .ok rest :=
  skip_exact_budget env (.map (.int 64 false) false) (.map .long) (.map .intL) 9
    (.node [(1, true), (1, false)] [.leaf, .leaf]) (.map [[97], [98]] [.int 1, .int 2]) _ rest
    (by decide +kernel) (by decide +kernel)

/-- the same for codecs obtained from construction (typed or untyped: `T = none` is the skip codec
built for a field the target struct lacks) -/
theorem skip_exact_built (reg : Reg) (hreg : ∀ id, reg.custom id = none) (nb fa n : Nat)
    (s : Schema) (T : Option GoType) (oe : Bool) (c : Codec) (a : ASchema) (p : Plan) (v : Value) (bs rest : Bytes)
    (hb : buildCodec reg nb s T oe = .ok c) (hc : classify fa s = some a) (he : encode p a v = some bs) :
    skip env n c (bs ++ rest) = .ok rest ∨ skip env n c (bs ++ rest) = .fuel :=
  skip_exact env c a ((buildOkAt reg hreg nb).build s T oe c hb fa a hc) n p v bs rest he

/-- **Skipping consumes exactly the bytes decoding would**: whenever both finish, they leave the same remainder. -/
theorem skip_eq_read (c : Codec) (a : ASchema) (hcf : CodecFor c a) (n n' m : Nat) (p : Plan) (v : Value) (bs rest : Bytes)
    (dst g : GoVal) (r r' : Bytes) (he : encode p a v = some bs) (hfit : ofAvro env m c v dst = .ok g)
    (hr : read env n c (bs ++ rest) dst = .ok (g, r)) (hs : skip env n' c (bs ++ rest) = .ok r') : r = r' := by
  have h1 := (readOkAt env n).read m c a p v bs rest dst hcf he
  rw [hfit] at h1
  rcases h1 with h | h
  · rw [hr] at h; cases h
    rcases skip_exact env c a hcf n' p v bs rest he with h2 | h2
    · rw [hs] at h2; cases h2; rfl
    · rw [hs] at h2; cases h2
  · rw [hr] at h; cases h

/-! ### Records: projection -/

theorem listSet_length {α} (l : List α) (i : Nat) (a : α) : (listSet l i a).length = l.length := by
  induction l generalizing i with
  | nil => rfl
  | cons x xs ih => cases i <;> simp [listSet, ih]

theorem listSet_get_ne {α} (l : List α) (i j : Nat) (a : α) (h : i ≠ j) : (listSet l i a)[j]? = l[j]? := by
  induction l generalizing i j with
  | nil => rfl
  | cons x xs ih =>
    cases i with
    | zero => cases j with
      | zero => exact absurd rfl h
      | succ j => simp [listSet]
    | succ i => cases j with
      | zero => simp [listSet]
      | succ j => simp [listSet]; exact ih i j (by omega)

theorem listSet_get_eq {α} (l : List α) (i : Nat) (a : α) (h : i < l.length) : (listSet l i a)[i]? = some a := by
  induction l generalizing i with
  | nil => simp at h
  | cons x xs ih =>
    cases i with
    | zero => simp [listSet]
    | succ i => simp [listSet]; exact ih i (by simpa using h)

/-- **Fields the schema does not deliver into are left as they were** (zero, for a fresh struct):
a Go field that is no schema field's target keeps its value. -/
theorem untargeted_field_untouched (f : Codec → Value → GoVal → Fit GoVal) :
    ∀ (cs : List Codec) (ts : List (Option Nat)) (vs : List Value) (fs fs' : List GoVal) (j : Nat),
    (∀ t ∈ ts, t ≠ some j) → fieldsFit f cs ts vs fs = .ok fs' → fs'[j]? = fs[j]? := by
  intro cs
  induction cs with
  | nil =>
    intro ts vs fs fs' j _ h
    cases vs <;> simp [fieldsFit] at h
    subst h; rfl
  | cons c cs ih =>
    intro ts vs fs fs' j hj h
    cases ts with
    | nil => simp [fieldsFit] at h
    | cons t ts =>
      cases vs with
      | nil => cases t <;> simp [fieldsFit] at h
      | cons v vs =>
        have hj' : ∀ t' ∈ ts, t' ≠ some j := fun t' ht' => hj t' (by simp [ht'])
        cases t with
        | none => simp only [fieldsFit] at h; exact ih ts vs fs fs' j hj' h
        | some i =>
          simp only [fieldsFit] at h
          cases hfi : fs[i]? with
          | none => simp [hfi] at h
          | some cur =>
            simp only [hfi, Fit.bind_eq] at h
            cases hg : f c v cur with
            | ok g =>
              simp only [hg, Fit.bind_ok'] at h
              have := ih ts vs _ fs' j hj' h
              rw [this]
              have hne : i ≠ j := fun e => hj (some i) (by simp) (by rw [e])
              exact listSet_get_ne fs i j g hne
            | misfit => simp [hg] at h
            | illtyped => simp [hg] at h

/-- **A struct with no matching field still consumes the record completely** and stays zero:
every field is skipped, the struct is returned unchanged. -/
theorem no_matching_fields (f : Codec → Value → GoVal → Fit GoVal) :
    ∀ (cs : List Codec) (ts : List (Option Nat)) (vs : List Value) (fs : List GoVal),
    (∀ t ∈ ts, t = none) → cs.length = ts.length → cs.length = vs.length → fieldsFit f cs ts vs fs = .ok fs := by
  intro cs
  induction cs with
  | nil => intro ts vs fs _ h1 h2; cases vs <;> simp at h2; simp [fieldsFit]
  | cons c cs ih =>
    intro ts vs fs hn h1 h2
    cases ts with
    | nil => simp at h1
    | cons t ts =>
      cases vs with
      | nil => simp at h2
      | cons v vs =>
        have : t = none := hn t (by simp)
        subst this
        simp only [fieldsFit]
        exact ih ts vs fs (fun t' ht' => hn t' (by simp [ht'])) (by simpa using h1) (by simpa using h2)

/-- **The value delivered into a remaining field does not depend on the other fields**: if schema
field `i` is the only one targeting Go field `j`, the final value of `j` is what field `i`'s codec
delivers for field `i`'s datum into the original content of `j` — whatever other fields the target
struct has, lacks, or in which order. -/
theorem remaining_field_value (f : Codec → Value → GoVal → Fit GoVal) :
    ∀ (cs : List Codec) (ts : List (Option Nat)) (vs : List Value) (fs fs' : List GoVal) (i j : Nat) (c : Codec) (v cur : GoVal) (dv : Value),
    fieldsFit f cs ts vs fs = .ok fs' → cs[i]? = some c → vs[i]? = some dv → ts[i]? = some (some j) →
    (∀ i', i' ≠ i → ts[i']? ≠ some (some j)) → fs[j]? = some cur →
    ∃ g, f c dv cur = .ok g ∧ fs'[j]? = some g := by
  intro cs
  induction cs with
  | nil => intro ts vs fs fs' i j c v cur dv _ hc; simp at hc
  | cons c0 cs ih =>
    intro ts vs fs fs' i j c v cur dv h hc hv ht huniq hcur
    cases ts with
    | nil => simp at ht
    | cons t ts =>
      cases vs with
      | nil => simp at hv
      | cons v0 vs =>
        cases i with
        | zero =>
          simp at hc hv ht; subst hc; subst hv; subst ht
          simp only [fieldsFit, hcur, Fit.bind_eq] at h
          cases hg : f c0 v0 cur with
          | ok g =>
            simp only [hg, Fit.bind_ok'] at h
            refine ⟨g, rfl, ?_⟩
            have hrest : ∀ t' ∈ ts, t' ≠ some j := by
              intro t' ht' e
              obtain ⟨k, hk⟩ := List.getElem?_of_mem ht'
              exact huniq (k + 1) (by omega) (by simp [hk, e])
            have := untargeted_field_untouched f cs ts vs _ fs' j hrest h
            rw [this]
            have hlt : j < fs.length := by
              have := List.getElem?_eq_some_iff.mp hcur; exact this.1
            exact listSet_get_eq fs j g hlt
          | misfit => simp [hg] at h
          | illtyped => simp [hg] at h
        | succ i =>
          simp at hc hv ht
          have huniq' : ∀ i', i' ≠ i → ts[i']? ≠ some (some j) := by
            intro i' hi' e
            exact huniq (i' + 1) (by omega) (by simpa using e)
          have ht0 : t ≠ some j := by
            intro e; exact huniq 0 (by omega) (by simp [e])
          cases t with
          | none => simp only [fieldsFit] at h; exact ih ts vs fs fs' i j c v cur dv h hc hv ht huniq' hcur
          | some i0 =>
            simp only [fieldsFit] at h
            cases hfi : fs[i0]? with
            | none => simp [hfi] at h
            | some cur0 =>
              simp only [hfi, Fit.bind_eq] at h
              cases hg : f c0 v0 cur0 with
              | ok g0 =>
                simp only [hg, Fit.bind_ok'] at h
                have hne : i0 ≠ j := fun e => ht0 (by rw [e])
                have hcur' : (listSet fs i0 g0)[j]? = some cur := by rw [listSet_get_ne fs i0 j g0 hne]; exact hcur
                exact ih ts vs _ fs' i j c v cur dv h hc hv ht huniq' hcur'
              | misfit => simp [hg] at h
              | illtyped => simp [hg] at h

end Avro.C04
