import AvroModel.Lemmas.Typing
import AvroModel.Alloc
import AvroModel.Generated.AllocFacts
/-!
# C11 — Decoded values are fully visible to the garbage collector   (PARTIAL BY NATURE)

The collector itself is not modelled.  Its contract is taken as: *an object survives iff it is reachable
through words that the type it was allocated with marks as pointers*.  Under that contract GC-visibility of
decoded data is a static property of codec trees, and that is what is proved here, over a small typed-allocation
model:

* `AllocShape` — how an allocation looks to the collector (n scalar bytes without pointers, one pointer word,
  string / slice header with the pointer in the first word, a struct allocated with its own `reflect.Type`, …);
* `newShape c` — what `c.New` allocates (int.go:36, float.go:25, bool.go:26, bytes.go:40, string.go:39, fixed.go:34,
  array.go:94, map.go:98, pointer.go:22, record.go:50, union.go:38/111/162, time/time.go:72…, null/null.go:63…);
* `expectShape c` — what `c.Read` assumes `p` points at (the casts in each Read method);
* `shapeOf T` — how a value of Go type `T` looks to the collector.

Theorems: `new_matches_read` (every codec allocates what its own Read assumes), `new_matches_type` (a well-typed
allocating codec allocates the shape of the Go type it was built for), `alloc_typed` (for every codec tree
`buildCodec` produces: at every pointer target, map value and array item position the allocation that ends up
referenced from the parent has the shape of the parent's static element type — so every pointer the decoder stores
is stored into a pointer-typed word of a correctly typed object), and the tie to the source: `alloc_facts_ok`
(what each `New` method really returns, re-extracted by go/ast on every run, agrees with `newShape`),
`slice_header_layout_ok`, `mapiter_layout_ok`.

Not modelled (searched by the GC-stress harness `harness/gc.go`): the collector, the compiler's escape analysis and
stack maps, `reflect.MakeMap`/`mapassign`/`typedslicecopy` internals, the runtime's map iterator beyond the size and
pointer prefix of the struct the library overlays on it, concurrency of marking with decoding.
-/
namespace Avro.C11
open Avro Avro.Alloc

theorem shapeOf_strip (T : GoType) : shapeOf T = shapeOf T.strip := by
  cases T <;> simp [GoType.strip, shapeOf]

/-! ## Every codec allocates what its own Read assumes -/

mutual
/-- **`New` and `Read` agree.** For every codec tree, what `New` allocates is what `Read` casts its argument to
(on the pinned tree `MapCodec.New` returned the runtime map header while `Read` assumed a pointer to a map
variable: see `pinned_map_counterfactual`). -/
theorem new_matches_read : (c : Codec) → newShape c = expectShape c
  | .null | .bool _ | .int _ _ | .float _ | .double _ | .f32double _ | .bytes _ | .string _ | .fixed _
  | .array _ _ | .map _ _ | .pointer _ | .record _ _ _ | .unionNullString _ _ | .timeString | .timeLong _ | .date
  | .nullw _ | .custom _ => by simp [newShape, expectShape]
  | .union cs => by simp only [newShape, expectShape]; exact new_matches_readU cs
  | .unionOne c _ => by simp only [newShape, expectShape]; exact new_matches_read c
theorem new_matches_readU : (cs : List Codec) → newShapeU cs = expectShapeU cs
  | [] => rfl
  | c :: cs => by
    cases c
    case null => simp only [newShapeU, expectShapeU]; exact new_matches_readU cs
    all_goals (simp only [newShapeU, expectShapeU]; exact new_matches_read _)
end

/-! ## A well-typed allocating codec allocates the shape of its Go type -/

mutual
/-- **Allocations are typed like the Go type.** If `c` is well-typed against `T` and allocates, `c.New` allocates
an object with the collector-visible shape of `T` — in particular with pointers exactly in `T`'s pointer words. -/
theorem new_matches_type : (c : Codec) → (T : GoType) → wt c T = true → allocs c = true → newShape c = shapeOf T
  | .null, _, _, ha => by simp [allocs] at ha
  | .bool _, T, hw, _ => by wt_inv hw; rename_i h; rw [shapeOf_strip, h]; simp [newShape, shapeOf]
  | .int w _, T, hw, _ => by
    wt_inv hw; rename_i w' h; rw [shapeOf_strip, h]; simp only [beq_iff_eq] at hw; simp [newShape, shapeOf, hw]
  | .float _, T, hw, _ => by wt_inv hw; rename_i h; rw [shapeOf_strip, h]; simp [newShape, shapeOf]
  | .double _, T, hw, _ => by wt_inv hw; rename_i h; rw [shapeOf_strip, h]; simp [newShape, shapeOf]
  | .f32double _, T, hw, _ => by wt_inv hw; rename_i h; rw [shapeOf_strip, h]; simp [newShape, shapeOf]
  | .bytes _, T, hw, _ => by wt_inv hw; rename_i h; rw [shapeOf_strip, h]; simp [newShape, shapeOf]
  | .string _, T, hw, _ => by wt_inv hw; rename_i h; rw [shapeOf_strip, h]; simp [newShape, shapeOf]
  | .fixed n, T, hw, _ => by
    wt_inv hw; rename_i m e h; rw [shapeOf_strip, h]
    simp only [Bool.and_eq_true, beq_iff_eq] at hw
    simp [newShape, shapeOf, hw.1, ← hw.2]
  | .array _ _, T, hw, _ => by wt_inv hw; rename_i h; rw [shapeOf_strip, h]; simp [newShape, shapeOf]
  | .map _ _, T, hw, _ => by wt_inv hw; rename_i h; rw [shapeOf_strip, h]; simp [newShape, shapeOf]
  | .pointer _, T, hw, _ => by wt_inv hw; rename_i h; rw [shapeOf_strip, h]; simp [newShape, shapeOf]
  | .record _ _ _, T, hw, _ => by wt_inv hw; rename_i h; rw [shapeOf_strip, h]; simp [newShape, shapeOf]
  | .union cs, T, hw, ha => by
    simp only [wt] at hw; simp only [allocs] at ha
    simp only [newShape]; exact new_matches_typeU cs T hw ha
  | .unionOne c _, T, hw, ha => by
    simp only [wt] at hw; simp only [allocs] at ha
    simp only [newShape]; exact new_matches_type c T hw ha
  | .unionNullString _ _, T, hw, _ => by wt_inv hw; rename_i h; rw [shapeOf_strip, h]; simp [newShape, shapeOf]
  | .timeString, T, hw, _ => by wt_inv hw; rename_i h; rw [shapeOf_strip, h]; simp [newShape, shapeOf]
  | .timeLong _, T, hw, _ => by wt_inv hw; rename_i h; rw [shapeOf_strip, h]; simp [newShape, shapeOf]
  | .date, T, hw, _ => by wt_inv hw; rename_i h; rw [shapeOf_strip, h]; simp [newShape, shapeOf]
  | .nullw k, T, hw, _ => by
    wt_inv hw; rename_i k' h; rw [shapeOf_strip, h]
    cases k <;> cases k' <;> simp at hw <;> simp [newShape, shapeOf, normNull]
  | .custom _, _, hw, _ => by simp [wt] at hw
theorem new_matches_typeU : (cs : List Codec) → (T : GoType) → wtAll cs T = true → allocsU cs = true →
    newShapeU cs = shapeOf T
  | [], _, _, ha => by simp [allocsU] at ha
  | c :: cs, T, hw, ha => by
    simp only [wtAll, Bool.and_eq_true] at hw
    cases c
    case null => simp only [allocsU] at ha; simp only [newShapeU]; exact new_matches_typeU cs T hw.2 ha
    all_goals (simp only [allocsU] at ha; simp only [newShapeU]; exact new_matches_type _ T hw.1 ha)
end

/-! ## Every pointer the decoder stores lands in a pointer-typed word of a correctly typed object -/

mutual
theorem wt_allocTyped : (c : Codec) → (T : GoType) → wt c T = true → allocOK c = true → allocTyped c T = true
  | .pointer c, T, hw, hal => by
    wt_inv hw; rename_i e h
    simp only [allocOK, Bool.and_eq_true] at hal
    simp only [allocTyped, h, Bool.and_eq_true, beq_iff_eq]
    exact ⟨⟨new_matches_type c e hw hal.1, new_matches_read c⟩, wt_allocTyped c e hw hal.2⟩
  | .map val _, T, hw, hal => by
    wt_inv hw; rename_i k e h
    simp only [Bool.and_eq_true] at hw
    simp only [allocOK, Bool.and_eq_true] at hal
    simp only [allocTyped, h, Bool.and_eq_true, beq_iff_eq]
    exact ⟨⟨new_matches_type val e hw.2 hal.1, new_matches_read val⟩, wt_allocTyped val e hw.2 hal.2⟩
  | .array item _, T, hw, hal => by
    wt_inv hw; rename_i e h
    simp only [Bool.and_eq_true] at hw
    simp only [allocOK, Bool.and_eq_true] at hal
    simp only [allocTyped, h, Bool.and_eq_true, beq_iff_eq]
    exact ⟨by rw [← new_matches_read]; exact new_matches_type item e hw.2 hal.1, wt_allocTyped item e hw.2 hal.2⟩
  | .record _ cs ts, T, hw, hal => by
    wt_inv hw; rename_i nm pk fs h
    simp only [Bool.and_eq_true] at hw
    simp only [allocOK] at hal
    simp only [allocTyped, h]
    exact wt_allocTypedFields cs ts fs hw.2 hal
  | .union cs, T, hw, hal => by
    simp only [wt] at hw; simp only [allocOK] at hal
    simp only [allocTyped]; exact wt_allocTypedAll cs T hw hal
  | .unionOne c _, T, hw, hal => by
    simp only [wt] at hw; simp only [allocOK] at hal
    simp only [allocTyped]; exact wt_allocTyped c T hw hal
  | .null, _, _, _ | .bool _, _, _, _ | .int _ _, _, _, _ | .float _, _, _, _ | .double _, _, _, _
  | .f32double _, _, _, _ | .bytes _, _, _, _ | .string _, _, _, _ | .fixed _, _, _, _
  | .unionNullString _ _, _, _, _ | .timeString, _, _, _ | .timeLong _, _, _, _ | .date, _, _, _
  | .nullw _, _, _, _ | .custom _, _, _, _ => by simp [allocTyped]
theorem wt_allocTypedFields : (cs : List Codec) → (ts : List (Option Nat)) → (fs : List GoField) →
    wtFields cs ts fs = true → allocOKFields cs ts = true → allocTypedFields cs ts fs = true
  | [], _, _, _, _ => by simp [allocTypedFields]
  | _ :: _, [], _, _, _ => by simp [allocTypedFields]
  | _ :: cs, none :: ts, fs, hw, hal => by
    simp only [wtFields] at hw; simp only [allocOKFields] at hal
    simp only [allocTypedFields]; exact wt_allocTypedFields cs ts fs hw hal
  | c :: cs, some i :: ts, fs, hw, hal => by
    simp only [wtFields, Bool.and_eq_true] at hw; simp only [allocOKFields, Bool.and_eq_true] at hal
    simp only [allocTypedFields, Bool.and_eq_true]
    refine ⟨?_, wt_allocTypedFields cs ts fs hw.2 hal.2⟩
    have h1 := hw.1
    split at h1
    · rename_i f hf; simp only [hf]; exact wt_allocTyped c _ h1 hal.1
    · cases h1
theorem wt_allocTypedAll : (cs : List Codec) → (T : GoType) → wtAll cs T = true → allocOKAll cs = true →
    allocTypedAll cs T = true
  | [], _, _, _ => by simp [allocTypedAll]
  | c :: cs, T, hw, hal => by
    simp only [wtAll, Bool.and_eq_true] at hw; simp only [allocOKAll, Bool.and_eq_true] at hal
    simp only [allocTypedAll, Bool.and_eq_true]
    exact ⟨wt_allocTyped c T hw.1 hal.1, wt_allocTypedAll cs T hw.2 hal.2⟩
end

/-- **C11, static core.** For every codec tree that `buildCodec` produces for a typed target (library
registrations; every schema, Go type, recursion budget): at every pointer-target, map-value and array-item position
the child's allocation has the shape of the static element type and equals what the child's `Read` assumes. Under
the collector's contract every object the decoder allocates is therefore reachable from the destination through
pointer-typed words only, and is scanned with the bitmap of the type it is used as. -/
theorem alloc_typed (reg : Reg) (hlib : reg.lib = true) (hreg : ∀ id, reg.custom id = none) (n : Nat) (s : Schema)
    (T : GoType) (oe : Bool) (c : Codec) (hwf : T.wf = true) (hb : buildCodec reg n s (some T) oe = .ok c)
    (hal : allocOK c = true) : allocTyped c T = true :=
  wt_allocTyped c T ((buildWtAt reg hreg hlib n).build s T oe c hb hwf hal) hal

/-- pointer-carrying allocations have their pointer in the first word, as the collector is told -/
theorem pointer_words (sh : AllocShape) (bm : List Bool) (h : sh.bitmap = some bm) (hp : bm.any id = true) :
    bm.head? = some true := by
  cases sh <;> simp [AllocShape.bitmap] at h <;> subst h <;> simp_all

/-- Non-vacuity: `*map[string][]*int64` under `map<array<long>>`: the pointer target is a map variable (one
pointer word), map values are slice headers, array items pointer slots, their targets 8 scalar bytes. -/
example : allocTyped (.pointer (.map (.array (.pointer (.int 64 false)) false) false))
    (.ptr (.map .string (.slice (.ptr (.int 64))))) = true := by decide +kernel

/-- The pinned-tree defect as a counter-factual: had `MapCodec.New` returned the runtime map header
(`reflect.MakeMap(t).Pointer()`), a `*map` field would reference an object of the wrong shape — the pointer to
the new map would sit in a word the collector was never told about. -/
theorem pinned_map_counterfactual : AllocShape.mapHeader ≠ shapeOf (.map .string (.int 64)) ∧
    AllocShape.mapHeader ≠ expectShape (.map (.int 64 false) false) := by
  constructor <;> decide

/-- `MapCodec.Write`/`Omit` read the map through `*(*unsafe.Pointer)(p)` only: the written bytes do not depend on the
nil flag of the map variable (nor on anything else the collector may change). -/
theorem write_nil_flag_free (env : Env) (n : Nat) (val : Codec) (oe : Bool) (ks : List Bytes) (vs : List GoVal) :
    write env n (.map val oe) (.map true ks vs) = write env n (.map val oe) (.map false ks vs) := by
  cases n <;> simp [write]

/-! ## The tie to the source: regenerated allocation facts -/

/-- **The tie to the source.** Every `return` of every `New` method of avro, avro/time, avro/null — re-extracted
from the Go sources on this run — has an allowed form and, for the codec types of the model, allocates exactly
`newShape`; `arrayCodec.resizeSlice` allocates the backing array with the slice's own element type. (Reverting the
map-slot repair makes `MapCodec.New` an `other` row; allocating the pointer slot as `uintptr`, or the backing array
with the byte type, changes a row: this theorem then stops checking.) -/
theorem alloc_facts_ok : Generated.allocFacts.all factOK = true := by decide +kernel

theorem alloc_facts_ok_rows : ∀ f ∈ Generated.allocFacts, factOK f = true :=
  fun f hf => (List.all_eq_true.mp alloc_facts_ok) f hf

/-- … and the table covers every codec type of the three packages plus `resizeSlice`. -/
theorem alloc_facts_complete : factsComplete Generated.allocFacts = true := by decide +kernel

/-- `factOK` is not trivially true: the pinned tree's `MapCodec.New`, a pointer slot allocated as `uintptr`, and a
slice backing array allocated as bytes are all rejected. -/
example : factOK pinnedMapNew = false ∧ factOK uintptrSlot = false ∧ factOK byteBacking = false := by decide +kernel

theorem slice_header_layout_ok : sliceHeaderOK Generated.layout_sliceHeader = true := by decide +kernel

theorem mapiter_layout_ok : mapiterOK Generated.layout_mapiter Generated.reflectMapIterSize = true := by decide +kernel

end Avro.C11
