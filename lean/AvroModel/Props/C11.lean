import AvroModel.Lemmas.Typing
import AvroModel.Generated.AllocFacts
/-!
# C11 — Decoded values are fully visible to the garbage collector   (PARTIAL BY NATURE)

The collector itself is not modelled.  Its contract is taken as: *an object survives iff it is reachable
through words that the type it was allocated with marks as pointers*.  Under that contract GC-visibility of
decoded data is a static property of codec trees, and that is what is proved here, over a small typed-allocation
model:

* `AllocShape` — how an allocation looks to the collector (n scalar bytes without pointers, one pointer word,
  string / slice header with the pointer in the first word, a struct allocated with its own `reflect.Type`, …);
* `newShape c` — what `c.New` allocates (int.go:36, float.go:25, bool.go:26, bytes.go:40, string.go:39, fixed.go:34,
  array.go:94, map.go:98, pointer.go:22, record.go:50, union.go:38/111/162, time/time.go:72…, null/null.go:63…);
* `expectShape c` — what `c.Read` assumes `p` points at (the casts in each Read method);
* `shapeOf T` — how a value of Go type `T` looks to the collector.

Theorems: `new_matches_read` (every codec allocates what its own Read assumes), `new_matches_type` (a well-typed
allocating codec allocates the shape of the Go type it was built for), `alloc_typed` (for every codec tree
`buildCodec` produces: at every pointer target, map value and array item position the allocation that ends up
referenced from the parent has the shape of the parent's static element type — so every pointer the decoder stores
is stored into a pointer-typed word of a correctly typed object), and the tie to the source: `alloc_facts_ok`
(what each `New` method really returns, re-extracted by go/ast on every run, agrees with `newShape`),
`slice_header_layout_ok`, `mapiter_layout_ok`.

Not modelled (searched by the GC-stress harness `harness/gc.go`): the collector, the compiler's escape analysis and
stack maps, `reflect.MakeMap`/`mapassign`/`typedslicecopy` internals, the runtime's map iterator beyond the size and
pointer prefix of the struct the library overlays on it, concurrency of marking with decoding.
-/
namespace Avro.C11
open Avro.Alloc

/-- normalised kind of a `null.*` struct: `null.Float` serves the float and the double codec -/
def normNull : NullKind → NullKind
  | .float => .double
  | k => k

/-- how an allocation looks to the collector -/
inductive AllocShape where
  | nothing                      -- no allocation (`New` returns nil)
  | scalar (n : Nat)             -- n bytes, no pointers (noscan)
  | ptrSlot                      -- one pointer word: a pointer variable or a map variable
  | strHdr                       -- string header: data pointer, length
  | sliceHdr                     -- slice header: data pointer (first word), length, capacity
  | ownStruct                    -- a struct allocated with its own reflect.Type (pointers exactly where the type has them)
  | timeStruct                   -- time.Time allocated as time.Time
  | nullStruct (k : NullKind)    -- null.Int / Bool / Float / String / Time allocated as such
  | mapHeader                    -- the runtime's map header (what `reflect.MakeMap(t).Pointer()` points at)
  | opaque                       -- user-registered codec / type the library cannot decode into
  deriving DecidableEq, Repr

/-- pointer bitmap (one flag per word) of the shapes whose layout is fixed; `none` = the type's own bitmap -/
def AllocShape.bitmap : AllocShape → Option (List Bool)
  | .nothing => some []
  | .scalar n => some (List.replicate ((n + 7) / 8) false)
  | .ptrSlot => some [true]
  | .strHdr => some [true, false]
  | .sliceHdr => some [true, false, false]
  | _ => none

mutual
/-- what `c.New(r)` allocates -/
def newShape : Codec → AllocShape
  | .null => .nothing
  | .bool _ => .scalar 1
  | .int w _ => .scalar (w / 8)
  | .float _ => .scalar 4
  | .double _ => .scalar 8
  | .f32double _ => .scalar 4
  | .bytes _ => .sliceHdr
  | .string _ => .strHdr
  | .fixed n => .scalar n.toNat
  | .array _ _ => .sliceHdr
  | .map _ _ => .ptrSlot
  | .pointer _ => .ptrSlot
  | .record _ _ _ => .ownStruct
  | .union cs => newShapeU cs
  | .unionOne c _ => newShape c
  | .unionNullString _ _ => .strHdr
  | .timeString => .timeStruct
  | .timeLong _ => .timeStruct
  | .date => .timeStruct
  | .nullw k => .nullStruct (normNull k)
  | .custom _ => .opaque
/-- `unionCodec.New`: the first branch that allocates -/
def newShapeU : List Codec → AllocShape
  | [] => .nothing
  | .null :: cs => newShapeU cs
  | c :: _ => newShape c
end

mutual
/-- what `c.Read(r, p)` assumes `p` points at -/
def expectShape : Codec → AllocShape
  | .null => .nothing                     -- never dereferenced
  | .bool _ => .scalar 1                  -- *(*bool)(p)
  | .int w _ => .scalar (w / 8)           -- *(*T)(p) = T(i)
  | .float _ => .scalar 4                 -- fixedCodec{4}.Read
  | .double _ => .scalar 8
  | .f32double _ => .scalar 4             -- *(*float32)(p)
  | .bytes _ => .sliceHdr                 -- *(*[]byte)(p)
  | .string _ => .strHdr                  -- *(*string)(ptr)
  | .fixed n => .scalar n.toNat           -- copy into n bytes at p
  | .array _ _ => .sliceHdr               -- (*sliceHeader)(p)
  | .map _ _ => .ptrSlot                  -- *(*unsafe.Pointer)(p): pointer to a map variable
  | .pointer _ => .ptrSlot                -- (*unsafe.Pointer)(p)
  | .record _ _ _ => .ownStruct           -- unsafe.Add(p, field offset)
  | .union cs => expectShapeU cs
  | .unionOne c _ => expectShape c
  | .unionNullString _ _ => .strHdr
  | .timeString => .timeStruct            -- *(*time.Time)(p)
  | .timeLong _ => .timeStruct
  | .date => .timeStruct
  | .nullw k => .nullStruct (normNull k)  -- (*null.X)(p)
  | .custom _ => .opaque
def expectShapeU : List Codec → AllocShape
  | [] => .nothing
  | .null :: cs => expectShapeU cs
  | c :: _ => expectShape c
end

/-- how a value of Go type `T` looks to the collector -/
def shapeOf : GoType → AllocShape
  | .bool => .scalar 1
  | .int w => .scalar (w / 8)
  | .uint w => .scalar (w / 8)
  | .float32 => .scalar 4
  | .float64 => .scalar 8
  | .complex => .scalar 16
  | .string => .strHdr
  | .slice _ => .sliceHdr
  | .array n e => if isU8 e then .scalar n else .opaque
  | .map _ _ => .ptrSlot
  | .ptr _ => .ptrSlot
  | .struct _ _ _ => .ownStruct
  | .time => .timeStruct
  | .nullT k => .nullStruct (normNull k)
  | .custom _ u => shapeOf u
  | _ => .opaque

theorem shapeOf_strip (T : GoType) : shapeOf T = shapeOf T.strip := by
  cases T <;> simp [GoType.strip, shapeOf]

/-! ## Every codec allocates what its own Read assumes -/

mutual
/-- **`New` and `Read` agree.** For every codec tree, what `New` allocates is what `Read` casts its argument to
(on the pinned tree `MapCodec.New` returned the runtime map header while `Read` assumed a pointer to a map
variable: see `pinned_map_counterfactual`). -/
theorem new_matches_read : (c : Codec) → newShape c = expectShape c
  | .null | .bool _ | .int _ _ | .float _ | .double _ | .f32double _ | .bytes _ | .string _ | .fixed _
  | .array _ _ | .map _ _ | .pointer _ | .record _ _ _ | .unionNullString _ _ | .timeString | .timeLong _ | .date
  | .nullw _ | .custom _ => by simp [newShape, expectShape]
  | .union cs => by simp only [newShape, expectShape]; exact new_matches_readU cs
  | .unionOne c _ => by simp only [newShape, expectShape]; exact new_matches_read c
theorem new_matches_readU : (cs : List Codec) → newShapeU cs = expectShapeU cs
  | [] => rfl
  | c :: cs => by
    cases c
    case null => simp only [newShapeU, expectShapeU]; exact new_matches_readU cs
    all_goals (simp only [newShapeU, expectShapeU]; exact new_matches_read _)
end

/-! ## A well-typed allocating codec allocates the shape of its Go type -/

mutual
/-- **Allocations are typed like the Go type.** If `c` is well-typed against `T` and allocates, `c.New` allocates
an object with the collector-visible shape of `T` — in particular with pointers exactly in `T`'s pointer words. -/
theorem new_matches_type : (c : Codec) → (T : GoType) → wt c T = true → allocs c = true → newShape c = shapeOf T
  | .null, _, _, ha => by simp [allocs] at ha
  | .bool _, T, hw, _ => by wt_inv hw; rename_i h; rw [shapeOf_strip, h]; simp [newShape, shapeOf]
  | .int w _, T, hw, _ => by
    wt_inv hw; rename_i w' h; rw [shapeOf_strip, h]; simp only [beq_iff_eq] at hw; simp [newShape, shapeOf, hw]
  | .float _, T, hw, _ => by wt_inv hw; rename_i h; rw [shapeOf_strip, h]; simp [newShape, shapeOf]
  | .double _, T, hw, _ => by wt_inv hw; rename_i h; rw [shapeOf_strip, h]; simp [newShape, shapeOf]
  | .f32double _, T, hw, _ => by wt_inv hw; rename_i h; rw [shapeOf_strip, h]; simp [newShape, shapeOf]
  | .bytes _, T, hw, _ => by wt_inv hw; rename_i h; rw [shapeOf_strip, h]; simp [newShape, shapeOf]
  | .string _, T, hw, _ => by wt_inv hw; rename_i h; rw [shapeOf_strip, h]; simp [newShape, shapeOf]
  | .fixed n, T, hw, _ => by
    wt_inv hw; rename_i m e h; rw [shapeOf_strip, h]
    simp only [Bool.and_eq_true, beq_iff_eq] at hw
    simp [newShape, shapeOf, hw.1, ← hw.2]
  | .array _ _, T, hw, _ => by wt_inv hw; rename_i h; rw [shapeOf_strip, h]; simp [newShape, shapeOf]
  | .map _ _, T, hw, _ => by wt_inv hw; rename_i h; rw [shapeOf_strip, h]; simp [newShape, shapeOf]
  | .pointer _, T, hw, _ => by wt_inv hw; rename_i h; rw [shapeOf_strip, h]; simp [newShape, shapeOf]
  | .record _ _ _, T, hw, _ => by wt_inv hw; rename_i h; rw [shapeOf_strip, h]; simp [newShape, shapeOf]
  | .union cs, T, hw, ha => by
    simp only [wt] at hw; simp only [allocs] at ha
    simp only [newShape]; exact new_matches_typeU cs T hw ha
  | .unionOne c _, T, hw, ha => by
    simp only [wt] at hw; simp only [allocs] at ha
    simp only [newShape]; exact new_matches_type c T hw ha
  | .unionNullString _ _, T, hw, _ => by wt_inv hw; rename_i h; rw [shapeOf_strip, h]; simp [newShape, shapeOf]
  | .timeString, T, hw, _ => by wt_inv hw; rename_i h; rw [shapeOf_strip, h]; simp [newShape, shapeOf]
  | .timeLong _, T, hw, _ => by wt_inv hw; rename_i h; rw [shapeOf_strip, h]; simp [newShape, shapeOf]
  | .date, T, hw, _ => by wt_inv hw; rename_i h; rw [shapeOf_strip, h]; simp [newShape, shapeOf]
  | .nullw k, T, hw, _ => by
    wt_inv hw; rename_i k' h; rw [shapeOf_strip, h]
    cases k <;> cases k' <;> simp at hw <;> simp [newShape, shapeOf, normNull]
  | .custom _, _, hw, _ => by simp [wt] at hw
theorem new_matches_typeU : (cs : List Codec) → (T : GoType) → wtAll cs T = true → allocsU cs = true →
    newShapeU cs = shapeOf T
  | [], _, _, ha => by simp [allocsU] at ha
  | c :: cs, T, hw, ha => by
    simp only [wtAll, Bool.and_eq_true] at hw
    cases c
    case null => simp only [allocsU] at ha; simp only [newShapeU]; exact new_matches_typeU cs T hw.2 ha
    all_goals (simp only [allocsU] at ha; simp only [newShapeU]; exact new_matches_type _ T hw.1 ha)
end

/-! ## Every pointer the decoder stores lands in a pointer-typed word of a correctly typed object -/

mutual
/-- `allocTyped c T`: in codec tree `c` (built for Go type `T`), at every position where the decoder allocates
and stores a reference —

* pointer target (`PointerCodec.Read`: `*pp = c.Codec.New(r)`, stored into a `*E` field),
* map value (`MapCodec.Read`: `val := valueCodec.New(r)` … `mapassign(t, m, &key, val)` copies an `E` from it),
* array item (`arrayCodec.resizeSlice`: `unsafe_NewArray(itemType, cap)`; the item codec reads at `Data + i*size`) —

the child's allocation has the collector-visible shape of the static element type `E`, and it is the shape the
child's `Read` assumes. -/
def allocTyped : Codec → GoType → Bool
  | .pointer c, t =>
    match t.strip with
    | .ptr e => newShape c == shapeOf e && newShape c == expectShape c && allocTyped c e
    | _ => false
  | .map val _, t =>
    match t.strip with
    | .map _ e => newShape val == shapeOf e && newShape val == expectShape val && allocTyped val e
    | _ => false
  | .array item _, t =>
    match t.strip with
    | .slice e => expectShape item == shapeOf e && allocTyped item e
    | _ => false
  | .record _ cs ts, t =>
    match t.strip with
    | .struct _ _ fs => allocTypedFields cs ts fs
    | _ => false
  | .union cs, t => allocTypedAll cs t
  | .unionOne c _, t => allocTyped c t
  | _, _ => true
def allocTypedFields : List Codec → List (Option Nat) → List GoField → Bool
  | [], _, _ => true
  | _ :: _, [], _ => true
  | _ :: cs, none :: ts, fs => allocTypedFields cs ts fs
  | c :: cs, some i :: ts, fs =>
    (match fs[i]? with
     | some f => allocTyped c f.type
     | none => false) && allocTypedFields cs ts fs
def allocTypedAll : List Codec → GoType → Bool
  | [], _ => true
  | c :: cs, t => allocTyped c t && allocTypedAll cs t
end

mutual
theorem wt_allocTyped : (c : Codec) → (T : GoType) → wt c T = true → allocOK c = true → allocTyped c T = true
  | .pointer c, T, hw, hal => by
    wt_inv hw; rename_i e h
    simp only [allocOK, Bool.and_eq_true] at hal
    simp only [allocTyped, h, Bool.and_eq_true, beq_iff_eq]
    exact ⟨⟨new_matches_type c e hw hal.1, new_matches_read c⟩, wt_allocTyped c e hw hal.2⟩
  | .map val _, T, hw, hal => by
    wt_inv hw; rename_i k e h
    simp only [Bool.and_eq_true] at hw
    simp only [allocOK, Bool.and_eq_true] at hal
    simp only [allocTyped, h, Bool.and_eq_true, beq_iff_eq]
    exact ⟨⟨new_matches_type val e hw.2 hal.1, new_matches_read val⟩, wt_allocTyped val e hw.2 hal.2⟩
  | .array item _, T, hw, hal => by
    wt_inv hw; rename_i e h
    simp only [Bool.and_eq_true] at hw
    simp only [allocOK, Bool.and_eq_true] at hal
    simp only [allocTyped, h, Bool.and_eq_true, beq_iff_eq]
    exact ⟨by rw [← new_matches_read]; exact new_matches_type item e hw.2 hal.1, wt_allocTyped item e hw.2 hal.2⟩
  | .record _ cs ts, T, hw, hal => by
    wt_inv hw; rename_i nm pk fs h
    simp only [Bool.and_eq_true] at hw
    simp only [allocOK] at hal
    simp only [allocTyped, h]
    exact wt_allocTypedFields cs ts fs hw.2 hal
  | .union cs, T, hw, hal => by
    simp only [wt] at hw; simp only [allocOK] at hal
    simp only [allocTyped]; exact wt_allocTypedAll cs T hw hal
  | .unionOne c _, T, hw, hal => by
    simp only [wt] at hw; simp only [allocOK] at hal
    simp only [allocTyped]; exact wt_allocTyped c T hw hal
  | .null, _, _, _ | .bool _, _, _, _ | .int _ _, _, _, _ | .float _, _, _, _ | .double _, _, _, _
  | .f32double _, _, _, _ | .bytes _, _, _, _ | .string _, _, _, _ | .fixed _, _, _, _
  | .unionNullString _ _, _, _, _ | .timeString, _, _, _ | .timeLong _, _, _, _ | .date, _, _, _
  | .nullw _, _, _, _ | .custom _, _, _, _ => by simp [allocTyped]
theorem wt_allocTypedFields : (cs : List Codec) → (ts : List (Option Nat)) → (fs : List GoField) →
    wtFields cs ts fs = true → allocOKFields cs ts = true → allocTypedFields cs ts fs = true
  | [], _, _, _, _ => by simp [allocTypedFields]
  | _ :: _, [], _, _, _ => by simp [allocTypedFields]
  | _ :: cs, none :: ts, fs, hw, hal => by
    simp only [wtFields] at hw; simp only [allocOKFields] at hal
    simp only [allocTypedFields]; exact wt_allocTypedFields cs ts fs hw hal
  | c :: cs, some i :: ts, fs, hw, hal => by
    simp only [wtFields, Bool.and_eq_true] at hw; simp only [allocOKFields, Bool.and_eq_true] at hal
    simp only [allocTypedFields, Bool.and_eq_true]
    refine ⟨?_, wt_allocTypedFields cs ts fs hw.2 hal.2⟩
    have h1 := hw.1
    split at h1
    · rename_i f hf; simp only [hf]; exact wt_allocTyped c _ h1 hal.1
    · cases h1
theorem wt_allocTypedAll : (cs : List Codec) → (T : GoType) → wtAll cs T = true → allocOKAll cs = true →
    allocTypedAll cs T = true
  | [], _, _, _ => by simp [allocTypedAll]
  | c :: cs, T, hw, hal => by
    simp only [wtAll, Bool.and_eq_true] at hw; simp only [allocOKAll, Bool.and_eq_true] at hal
    simp only [allocTypedAll, Bool.and_eq_true]
    exact ⟨wt_allocTyped c T hw.1 hal.1, wt_allocTypedAll cs T hw.2 hal.2⟩
end

/-- **C11, static core.** For every codec tree that `buildCodec` produces for a typed target (library
registrations; every schema, Go type, recursion budget): at every pointer-target, map-value and array-item position
the child's allocation has the shape of the static element type and equals what the child's `Read` assumes. Under
the collector's contract every object the decoder allocates is therefore reachable from the destination through
pointer-typed words only, and is scanned with the bitmap of the type it is used as. -/
theorem alloc_typed (reg : Reg) (hlib : reg.lib = true) (hreg : ∀ id, reg.custom id = none) (n : Nat) (s : Schema)
    (T : GoType) (oe : Bool) (c : Codec) (hwf : T.wf = true) (hb : buildCodec reg n s (some T) oe = .ok c)
    (hal : allocOK c = true) : allocTyped c T = true :=
  wt_allocTyped c T ((buildWtAt reg hreg hlib n).build s T oe c hb hwf hal) hal

/-- pointer-carrying allocations have their pointer in the first word, as the collector is told -/
theorem pointer_words (sh : AllocShape) (bm : List Bool) (h : sh.bitmap = some bm) (hp : bm.any id = true) :
    bm.head? = some true := by
  cases sh <;> simp [AllocShape.bitmap] at h <;> subst h <;> simp_all

/-- Non-vacuity: `*map[string][]*int64` under `map<array<long>>`: the pointer target is a map variable (one
pointer word), map values are slice headers, array items pointer slots, their targets 8 scalar bytes. -/
example : allocTyped (.pointer (.map (.array (.pointer (.int 64 false)) false) false))
    (.ptr (.map .string (.slice (.ptr (.int 64))))) = true := by decide +kernel

/-- The pinned-tree defect as a counter-factual: had `MapCodec.New` returned the runtime map header
(`reflect.MakeMap(t).Pointer()`), a `*map` field would reference an object of the wrong shape — the pointer to
the new map would sit in a word the collector was never told about. -/
theorem pinned_map_counterfactual : AllocShape.mapHeader ≠ shapeOf (.map .string (.int 64)) ∧
    AllocShape.mapHeader ≠ expectShape (.map (.int 64 false) false) := by
  constructor <;> decide

/-- `MapCodec.Write`/`Omit` read the map through `*(*unsafe.Pointer)(p)` only: the written bytes do not depend on the
nil flag of the map variable (nor on anything else the collector may change). -/
theorem write_nil_flag_free (env : Env) (n : Nat) (val : Codec) (oe : Bool) (ks : List Bytes) (vs : List GoVal) :
    write env n (.map val oe) (.map true ks vs) = write env n (.map val oe) (.map false ks vs) := by
  cases n <;> simp [write]

/-! ## The tie to the source: regenerated allocation facts -/

/-- shape of `reflect.TypeOf(<expr>)` for the initialisers the library uses -/
def shapeOfInit (init : String) : Option AllocShape :=
  if init == "reflect.TypeOf(false)" then some (.scalar 1)
  else if init == "reflect.TypeOf(int64(0))" then some (.scalar 8)
  else if init == "reflect.TypeOf(int32(0))" then some (.scalar 4)
  else if init == "reflect.TypeOf(int16(0))" then some (.scalar 2)
  else if init == "reflect.TypeOf(int8(0))" then some (.scalar 1)
  else if init == "reflect.TypeOf(float32(0))" then some (.scalar 4)
  else if init == "reflect.TypeOf(float64(0))" then some (.scalar 8)
  else if init == "reflect.TypeOf(\"\")" then some .strHdr
  else if init == "reflect.TypeOf([]byte{})" then some .sliceHdr
  else if init == "reflect.TypeOf(sliceHeader{})" then some .sliceHdr      -- see `slice_header_layout_ok`
  else if init == "reflect.TypeOf(unsafe.Pointer(nil))" then some .ptrSlot
  else if init == "reflect.TypeOf(time.Time{})" then some .timeStruct
  else if init == "reflect.TypeOf(null.Int{})" then some (.nullStruct .int)
  else if init == "reflect.TypeOf(null.Bool{})" then some (.nullStruct .bool)
  else if init == "reflect.TypeOf(null.Float{})" then some (.nullStruct .double)
  else if init == "reflect.TypeOf(null.String{})" then some (.nullStruct .string)
  else if init == "reflect.TypeOf(null.Time{})" then some (.nullStruct .time)
  else none

/-- a codec of the model standing for Go codec type `pkg.typ` (under `case guard:` for the generic ones) -/
def repCodec (pkg typ guard : String) : Option Codec :=
  if pkg == "avro" then
    if typ == "BoolCodec" then some (.bool false)
    else if typ == "BytesCodec" then some (.bytes false)
    else if typ == "StringCodec" then some (.string false)
    else if typ == "Float32DoubleCodec" then some (.f32double false)
    else if typ == "IntCodec" then
      (if guard == "1" then some (.int 8 false) else if guard == "2" then some (.int 16 false)
       else if guard == "4" then some (.int 32 false) else if guard == "8" then some (.int 64 false) else none)
    else if typ == "floatCodec" then
      (if guard == "4" then some (.float false) else if guard == "8" then some (.double false) else none)
    else if typ == "MapCodec" then some (.map .null false)
    else if typ == "PointerCodec" then some (.pointer .null)
    else if typ == "arrayCodec" then some (.array .null false)
    else if typ == "recordCodec" then some (.record [] [] [])
    else if typ == "nullCodec" then some .null
    else none
  else if pkg == "avro/time" then
    if typ == "DateCodec" then some .date
    else if typ == "LongCodec" then some (.timeLong 1)
    else if typ == "StringCodec" then some .timeString
    else none
  else if pkg == "avro/null" then
    if typ == "nullIntCodec" then some (.nullw .int)
    else if typ == "nullBoolCodec" then some (.nullw .bool)
    else if typ == "nullDoubleCodec" then some (.nullw .double)
    else if typ == "nullFloatCodec" then some (.nullw .float)
    else if typ == "nullStringCodec" then some (.nullw .string)
    else if typ == "nullTimeCodec" then some (.nullw .time)
    else none
  else none

/-- the allowed forms of one `return` of a `New` method (and of the allocation in `resizeSlice`), and agreement
with `newShape` for the codec types the model knows.  A codec type the model does not know passes when it
allocates through `r.Alloc(<reflect.Type>)` (typed by construction), delegates, or returns nil; `other`
(anything else: e.g. `reflect.MakeMap(..).Pointer()`, `unsafe_NewArray` of a byte type for a non-fixed codec) never
passes. -/
def factOK (f : AllocFact) : Bool :=
  if f.method == "resizeSlice" then
    -- the backing array of a slice is allocated with the element type of the Go slice (scanned as such)
    f.form == "newarray" && f.arg == "recv.itemType"
  else if f.form == "alloc-var" then
    match shapeOfInit f.init, repCodec f.pkg f.typ f.guard with
    | some sh, some c => newShape c == sh
    | some _, none => true
    | none, some _ => false
    | none, none => f.init != ""
  else if f.form == "alloc-field" then
    (match repCodec f.pkg f.typ f.guard with
     | some c => newShape c == .ownStruct && f.arg == "recv.rtype"
     | none => true)
  else if f.form == "newarray" then
    -- only `fixedCodec`: n bytes without pointers
    f.pkg == "avro" && f.typ == "fixedCodec" && f.arg == "reflect.TypeOf(byte(0))"
  else if f.form == "nil" then
    (match repCodec f.pkg f.typ f.guard with
     | some c => newShape c == .nothing
     | none => f.pkg == "avro" && f.typ == "unionCodec")
  else if f.form == "delegate" then
    (match repCodec f.pkg f.typ f.guard with
     | some _ => false
     | none => true)
  else false

/-- the codec types whose `New` must appear in the table (so that an extraction that finds nothing cannot pass) -/
def requiredNews : List (String × String) :=
  [("avro", "BoolCodec"), ("avro", "BytesCodec"), ("avro", "StringCodec"), ("avro", "Float32DoubleCodec"),
   ("avro", "IntCodec"), ("avro", "floatCodec"), ("avro", "MapCodec"), ("avro", "PointerCodec"), ("avro", "arrayCodec"),
   ("avro", "recordCodec"), ("avro", "nullCodec"), ("avro", "fixedCodec"), ("avro", "unionCodec"),
   ("avro", "unionOneAndNullCodec"), ("avro", "unionNullString"), ("avro/time", "DateCodec"), ("avro/time", "LongCodec"),
   ("avro/time", "StringCodec"), ("avro/null", "nullIntCodec"), ("avro/null", "nullBoolCodec"),
   ("avro/null", "nullDoubleCodec"), ("avro/null", "nullFloatCodec"), ("avro/null", "nullStringCodec"),
   ("avro/null", "nullTimeCodec")]

def factsComplete (fs : List AllocFact) : Bool :=
  requiredNews.all (fun p => fs.any fun f => f.pkg == p.1 && f.typ == p.2 && f.method == "New") &&
  fs.any (fun f => f.pkg == "avro" && f.typ == "arrayCodec" && f.method == "resizeSlice")

/-- **The tie to the source.** Every `return` of every `New` method of avro, avro/time, avro/null — re-extracted
from the Go sources on this run — has an allowed form and, for the codec types of the model, allocates exactly
`newShape`; `arrayCodec.resizeSlice` allocates the backing array with the slice's own element type. (Reverting the
map-slot repair makes `MapCodec.New` an `other` row; allocating the pointer slot as `uintptr`, or the backing array
with the byte type, changes a row: this theorem then stops checking.) -/
theorem alloc_facts_ok : Generated.allocFacts.all factOK = true := by decide +kernel

theorem alloc_facts_ok_rows : ∀ f ∈ Generated.allocFacts, factOK f = true :=
  fun f hf => (List.all_eq_true.mp alloc_facts_ok) f hf

/-- … and the table covers every codec type of the three packages plus `resizeSlice`. -/
theorem alloc_facts_complete : factsComplete Generated.allocFacts = true := by decide +kernel

/-- `factOK` is not trivially true: the pinned tree's `MapCodec.New`, a pointer slot allocated as `uintptr`, and a
slice backing array allocated as bytes are all rejected. -/
def pinnedMapNew : AllocFact :=
  { pkg := "avro", typ := "MapCodec", method := "New", guard := "", form := "other", arg := "unsafe.Pointer(reflect.MakeMap(recv.rtype).Pointer())", init := "" }
def uintptrSlot : AllocFact :=
  { pkg := "avro", typ := "PointerCodec", method := "New", guard := "", form := "alloc-var", arg := "pointerType", init := "reflect.TypeOf(uintptr(0))" }
def byteBacking : AllocFact :=
  { pkg := "avro", typ := "arrayCodec", method := "resizeSlice", guard := "", form := "newarray", arg := "reflect.TypeOf(byte(0))", init := "" }
example : factOK pinnedMapNew = false ∧ factOK uintptrSlot = false ∧ factOK byteBacking = false := by decide +kernel

/-- `sliceHeader` (fixed.go:12), which `arrayCodec` overlays on Go slices and allocates for `*[]T`, has the layout
of a slice header: data pointer in the first word, then two scalar words. -/
def sliceHeaderOK (l : StructLayout) : Bool :=
  l.found && l.known && l.size == 24 &&
  (l.fields.map fun f => (f.offset, f.size, f.pointer)) == [(0, 8, true), (8, 8, false), (16, 8, false)]

theorem slice_header_layout_ok : sliceHeaderOK Generated.layout_sliceHeader = true := by decide +kernel

/-- `mapiter` (unsafetricks.go:40), the stack buffer handed to `runtime.mapiterinit`: its first four words — the
ones both the pre-1.24 `hiter` and the 1.24 linkname iterator (`key`, `elem`, `typ`, `it`) use for pointers — are
pointer-typed, every pointer-typed field is a whole aligned word, and it is at least as large as reflect's own
iterator state for the toolchain in use. -/
def mapiterOK (l : StructLayout) (reflIter : Nat) : Bool :=
  l.found && l.known &&
  [0, 8, 16, 24].all (fun off => l.fields.any fun f => f.offset == off && f.size == 8 && f.pointer) &&
  l.fields.all (fun f => !f.pointer || (f.size == 8 && f.offset % 8 == 0)) &&
  decide (32 ≤ l.size) && decide (reflIter ≤ l.size)

theorem mapiter_layout_ok : mapiterOK Generated.layout_mapiter Generated.reflectMapIterSize = true := by decide +kernel

end Avro.C11
