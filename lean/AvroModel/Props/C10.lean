import AvroModel.Lemmas.Bank
/-!
# C10 — Delivered values stay intact until their resource bank is closed

Model: `AvroModel/Bank.lean` (state machine of `ResourceBank`, `resourceBankPool`, handles, heap).
All theorems quantify over arbitrary operation sequences, any number of banks, every choice the pool
can make (`Op.get choice`) and every capacity `append` may pick when it grows (`Op.toString _ _ grow`),
under the documented ownership discipline `Allowed` / `Disciplined`.

The tie to `/repo/buffer.go` is the differential replay of real operation sequences through `step`
(`Drv/Bank.lean`, `harness/bank.go`), and for `no_block_alias` the file-retention runs of the harness.
-/
namespace Avro.C10
open Avro.Bank Avro.BankL

/-! ## shape of every allowed step -/

/-- the world after an `Alloc` that hands out cell `i` of array `x` -/
def allocWorld (w : World) (b τ nc x i : Nat) : World :=
  { w with
    banks := upd w.banks b { w.banks b with arenas := updArena τ (fun a => a.take w.nextArr nc) (w.banks b).arenas }
    nextArr := if (findArena τ (w.banks b).arenas).len = (findArena τ (w.banks b).arenas).cap then w.nextArr + 1 else w.nextArr
    mem := upd2 w.mem x i 0
    issued := ⟨b, (w.banks b).epoch, x, i⟩ :: w.issued }

theorem step_alloc {w : World} (hinv : Inv w) (b τ nc : Nat) (hal : Allowed w (.alloc b τ nc)) :
    ∃ x i, AllocFacts w b τ nc x i ∧
      step w (.alloc b τ nc) = .ok (allocWorld w b τ nc x i) (.ptr ⟨b, (w.banks b).epoch, x, i⟩) := by
  obtain ⟨x, i, hf⟩ := alloc_facts hinv.t b τ nc hal.2.2
  refine ⟨x, i, hf, ?_⟩
  simp only [step, allocStep, hf.arr, hf.idx, hf.spare, if_true, allocWorld]

/-- the world after a `ToString` that leaves `sData` of bank `b` as `sd'` (array `x`) -/
def tsWorld (w : World) (b n x nx : Nat) (sd' : SData) (m : Nat → Nat → Nat) : World :=
  { w with
    banks := upd w.banks b { w.banks b with sdata := sd' }
    nextSArr := nx
    smem := m
    sissued := ⟨b, (w.banks b).epoch, some x, (w.banks b).sdata.len, n⟩ :: w.sissued }

/-- the three ways `ToString` can go -/
inductive TSCase (w : World) (b : Nat) (bytes : List Nat) (g : Nat) (w' : World) (s : SHandle) : Prop
  /-- empty string from a nil `sData` -/
  | nil (harr : (w.banks b).sdata.arr = none) (hb : bytes = [])
      (hw : w' = { w with sissued := ⟨b, (w.banks b).epoch, none, (w.banks b).sdata.len, 0⟩ :: w.sissued })
      (hs : s = ⟨b, (w.banks b).epoch, none, (w.banks b).sdata.len, 0⟩)
  /-- appended in place -/
  | fit (x : Nat) (harr : (w.banks b).sdata.arr = some x) (hfit : (w.banks b).sdata.len + bytes.length ≤ (w.banks b).sdata.cap)
      (hw : w' = tsWorld w b bytes.length x w.nextSArr { (w.banks b).sdata with len := (w.banks b).sdata.len + bytes.length }
                  (writeAt w.smem x (w.banks b).sdata.len bytes))
      (hs : s = ⟨b, (w.banks b).epoch, some x, (w.banks b).sdata.len, bytes.length⟩)
  /-- reallocated: fresh array `w.nextSArr` -/
  | grow (hnofit : ¬ (w.banks b).sdata.len + bytes.length ≤ (w.banks b).sdata.cap)
      (hw : w' = tsWorld w b bytes.length w.nextSArr (w.nextSArr + 1) ⟨some w.nextSArr, (w.banks b).sdata.len + bytes.length, g⟩
                  (writeAt (copyInto w.smem w.nextSArr (w.banks b).sdata.arr (w.banks b).sdata.len) w.nextSArr (w.banks b).sdata.len bytes))
      (hs : s = ⟨b, (w.banks b).epoch, some w.nextSArr, (w.banks b).sdata.len, bytes.length⟩)

theorem step_toString {w : World} (hinv : Inv w) (b : Nat) (bytes : List Nat) (g : Nat) :
    ∃ w' s, step w (.toString b bytes g) = .ok w' (.str s) ∧ TSCase w b bytes g w' s := by
  have h8 := hinv.s.s8 b
  by_cases hfit : (w.banks b).sdata.len + bytes.length ≤ (w.banks b).sdata.cap
  · cases harr : (w.banks b).sdata.arr with
    | none =>
      have hcap := h8.2 harr
      have hn : bytes.length = 0 := by omega
      have hb : bytes = [] := List.eq_nil_of_length_eq_zero hn
      refine ⟨_, _, ?_, TSCase.nil harr hb rfl rfl⟩
      simp only [step, toStringStep, hn, Nat.add_zero, h8.1, if_true, harr]
    | some x =>
      refine ⟨_, _, ?_, TSCase.fit x harr hfit rfl rfl⟩
      simp only [step, toStringStep, hfit, if_true, harr, tsWorld]
  · refine ⟨_, _, ?_, TSCase.grow hfit rfl rfl⟩
    simp only [step, toStringStep, hfit, if_false, tsWorld]

theorem tsWorld_inv {w : World} (hinv : Inv w) {b : Nat} {bytes : List Nat} {g : Nat} {w' : World} {s : SHandle}
    (hal : Allowed w (.toString b bytes g)) (hc : TSCase w b bytes g w' s) : Inv w' := by
  obtain ⟨hb, _, hg⟩ := hal
  cases hc with
  | nil harr hbs hw hs => rw [hw]; exact inv_toString_nil hinv b _ hb
  | fit x harr hfit hw hs =>
    rw [hw]
    refine inv_toString_some hinv b _ x _ _ _ hb harr rfl hfit (Nat.le_refl _) (hinv.s.s4 b x harr) ?_ ?_
    · intro b' hb'; exact hinv.s.s3 b' b x hb' harr
    · intro s0 hs0 hl hx; exact hinv.s.s1 s0 hs0 hl x hx b harr
  | grow hnofit hw hs =>
    rw [hw]
    refine inv_toString_some hinv b _ _ _ _ _ hb rfl rfl hg (Nat.le_succ _) (Nat.lt_succ_self _) ?_ ?_
    · intro b' hb'; exact absurd (hinv.s.s4 b' _ hb') (Nat.lt_irrefl _)
    · intro s0 hs0 _ hx; exact absurd (hinv.s.s2 s0 hs0 _ hx) (Nat.lt_irrefl _)

/-! ## the invariant holds along every disciplined history -/

/-- An allowed step never faults (no nil dereference, no cell outside its array) and keeps the invariant. -/
theorem step_inv {w : World} (hinv : Inv w) {op : Op} (hal : Allowed w op) :
    ∃ w' r, step w op = .ok w' r ∧ Inv w' := by
  cases op with
  | get c =>
    cases c with
    | none => exact ⟨_, _, rfl, inv_getNone hinv⟩
    | some b => exact ⟨_, _, rfl, inv_getSome hinv b⟩
  | alloc b τ nc =>
    obtain ⟨x, i, hf, hs⟩ := step_alloc hinv b τ nc hal
    exact ⟨_, _, hs, inv_alloc hinv b τ nc x i hal.1 hf⟩
  | toString b bytes g =>
    obtain ⟨w', s, hs, hc⟩ := step_toString hinv b bytes g
    exact ⟨w', _, hs, tsWorld_inv hinv hal hc⟩
  | store h v => exact ⟨_, _, rfl, inv_store hinv _⟩
  | close b => exact ⟨_, _, rfl, inv_close hinv b⟩

theorem run_inv {w : World} (hinv : Inv w) (ops : List Op) (hd : Disciplined w ops) :
    ∃ w', run w ops = some w' ∧ Inv w' := by
  induction ops generalizing w with
  | nil => exact ⟨w, rfl, hinv⟩
  | cons op ops ih =>
    obtain ⟨hal, hrest⟩ := hd
    obtain ⟨w1, r, hs, hinv1⟩ := step_inv hinv hal
    rw [hs] at hrest
    obtain ⟨w', hr, hinv'⟩ := ih hinv1 hrest
    exact ⟨w', by simp only [run, hs]; exact hr, hinv'⟩

/-- The invariant in the words of the property: at a state satisfying it
* every live pointer lies in a bank that exists, two different live pointers are different cells,
* live strings occupy pairwise disjoint byte ranges,
and (`alloc_disjoint`, `toString_disjoint`, `delivered_stable`, `string_stable`) later allocations stay away
from them and their contents change only through a store to that very handle. -/
structure Separated (w : World) : Prop where
  cells : ∀ h1 ∈ w.issued, ∀ h2 ∈ w.issued, w.Live h1 → w.Live h2 → h1 ≠ h2 → ¬ (h1.arr = h2.arr ∧ h1.idx = h2.idx)
  ranges : w.sissued.Pairwise fun s1 s2 => w.SLive s1 → w.SLive s2 →
    ∀ x, s1.arr = some x → s2.arr = some x → s1.start + s1.len ≤ s2.start ∨ s2.start + s2.len ≤ s1.start
  /-- no live pointer was handed out twice -/
  once : w.issued.Pairwise fun h1 h2 => w.Live h1 → w.Live h2 → ¬ (h1.arr = h2.arr ∧ h1.idx = h2.idx)

theorem pairwise_mem_ne {α : Type} {R : α → α → Prop} (hsym : ∀ a b, R a b → R b a) {l : List α}
    (hp : l.Pairwise R) {a b : α} (ha : a ∈ l) (hb : b ∈ l) (hne : a ≠ b) : R a b := by
  induction l with
  | nil => cases ha
  | cons c cs ih =>
    obtain ⟨h1, h2⟩ := List.pairwise_cons.mp hp
    rcases List.mem_cons.mp ha with rfl | ha'
    · rcases List.mem_cons.mp hb with rfl | hb'
      · exact absurd rfl hne
      · exact h1 b hb'
    · rcases List.mem_cons.mp hb with rfl | hb'
      · exact hsym _ _ (h1 a ha')
      · exact ih h2 ha' hb'

theorem separated_of_inv {w : World} (hinv : Inv w) : Separated w := by
  refine ⟨?_, hinv.s.s6, hinv.t.t6⟩
  intro h1 hh1 h2 hh2 l1 l2 hne
  have := pairwise_mem_ne (R := fun h1 h2 => w.Live h1 → w.Live h2 → CellNe h1 h2)
    (fun a b hR lb la hc => hR la lb ⟨hc.1.symm, hc.2.symm⟩) hinv.t.t6 hh1 hh2 hne
  exact this l1 l2

/-- **C10, clause "disjoint from every other live allocation"** (`C10_bank_inv` of the design): after any history
obeying the ownership discipline — any number of banks, any interleaving of acquire / allocate / intern /
store / close, any choice of the pool, any growth of `append` — no step has faulted, the invariant holds, and
live handles are pairwise disjoint. -/
theorem bank_inv (ops : List Op) (hd : Disciplined init ops) :
    ∃ w, run init ops = some w ∧ Inv w ∧ Separated w := by
  obtain ⟨w, hr, hinv⟩ := run_inv inv_init ops hd
  exact ⟨w, hr, hinv, separated_of_inv hinv⟩

/-! ## allocation: zeroed and away from everything live -/

/-- **C10, clause "memory obtained from a bank is zeroed"**: the cell `Alloc` returns reads zero — whatever was
stored there in an earlier life of the bank, also right after growth. -/
theorem alloc_zeroed {w w' : World} {b τ nc : Nat} {h : Handle} (hinv : Inv w) (hal : Allowed w (.alloc b τ nc))
    (hs : step w (.alloc b τ nc) = .ok w' (.ptr h)) : w'.read h = 0 := by
  obtain ⟨x, i, _, hs'⟩ := step_alloc hinv b τ nc hal
  rw [hs'] at hs; cases hs
  simp [World.read, allocWorld, upd2]

/-- the growth policy of the code (`max(16, 2*cap)`, buffer.go:185-188) meets the requirement `Allowed` puts on
`newCap`, so the theorems apply to it (and to any other policy that grows) -/
theorem alloc_go_allowed {w : World} {b τ : Nat} (hb : b < w.nbanks) (hp : (w.banks b).pooled = false) :
    Allowed w (.alloc b τ (goNewCap (findArena τ (w.banks b).arenas).cap)) :=
  ⟨hb, hp, fun _ => goNewCap_gt _⟩

/-- an allowed `alloc` always succeeds with a pointer -/
theorem alloc_ok {w : World} {b τ nc : Nat} (hinv : Inv w) (hal : Allowed w (.alloc b τ nc)) :
    ∃ w' h, step w (.alloc b τ nc) = .ok w' (.ptr h) ∧ h.bank = b ∧ w'.Live h ∧ w'.issued = h :: w.issued := by
  obtain ⟨x, i, _, hs'⟩ := step_alloc hinv b τ nc hal
  refine ⟨_, _, hs', rfl, ?_, rfl⟩
  simp [World.Live, allocWorld, upd]

/-- **C10, clause "disjoint from every later allocation"**: the cell `Alloc` returns is different from the cell of
every pointer that is live at that moment (of any bank). -/
theorem alloc_disjoint {w w' : World} {b τ nc : Nat} {h : Handle} (hinv : Inv w) (hal : Allowed w (.alloc b τ nc))
    (hs : step w (.alloc b τ nc) = .ok w' (.ptr h)) :
    ∀ h0 ∈ w.issued, w.Live h0 → ¬ (h0.arr = h.arr ∧ h0.idx = h.idx) := by
  obtain ⟨x, i, hf, hs'⟩ := step_alloc hinv b τ nc hal
  rw [hs'] at hs; cases hs
  intro h0 hh0 hl0 hc
  have := hf.below h0 hh0 hl0 hc.1
  have h2 : h0.idx = i := hc.2
  omega

/-! ## frame: what a step can change -/

/-- **C10, clause "their cells change only through a store to that same handle"** (one step): any allowed
operation other than a store through `h` itself leaves the cell of a live pointer `h` unchanged — this covers
allocation (with `typedmemclr`) in the same or another bank, growth, `ToString`, `Close` of any bank and the
pool handing a closed bank out again. -/
theorem step_frame {w w' : World} {r : Ret} {op : Op} (hinv : Inv w) (hal : Allowed w op)
    (hs : step w op = .ok w' r) {h : Handle} (hh : h ∈ w.issued) (hl : w.Live h)
    (hns : ∀ v, op ≠ .store h v) : w'.read h = w.read h := by
  cases op with
  | get c => cases c <;> (simp only [step, getStep] at hs; cases hs; rfl)
  | alloc b τ nc =>
    obtain ⟨x, i, hf, hs'⟩ := step_alloc hinv b τ nc hal
    rw [hs'] at hs; cases hs
    have hne : ¬ (h.arr = x ∧ h.idx = i) := by
      intro hc; have := hf.below h hh hl hc.1; omega
    simp [World.read, allocWorld, upd2, hne]
  | toString b bytes g =>
    obtain ⟨w1, s, hs', hc⟩ := step_toString hinv b bytes g
    rw [hs'] at hs; cases hs
    cases hc with
    | nil _ _ hw _ => rw [hw]; rfl
    | fit x _ _ hw _ => rw [hw]; rfl
    | grow _ hw _ => rw [hw]; rfl
  | store h' v =>
    simp only [step, storeStep] at hs; cases hs
    have hne : h ≠ h' := fun e => hns v (by rw [e])
    have := (separated_of_inv hinv).cells h hh h' hal.1 hl hal.2 hne
    simp [World.read, upd2, this]
  | close b => simp only [step, closeStep] at hs; cases hs; rfl

/-- a store through `h` is seen through `h` -/
theorem store_read {w w' : World} {r : Ret} {h : Handle} {v : Nat} (hs : step w (.store h v) = .ok w' r) :
    w'.read h = v := by
  simp only [step, storeStep] at hs; cases hs
  simp [World.read, upd2]

theorem sread_congr {w w' : World} {s : SHandle}
    (h : ∀ x, s.arr = some x → ∀ i, i < s.len → w'.smem x (s.start + i) = w.smem x (s.start + i)) :
    w'.sread s = w.sread s := by
  unfold World.sread
  cases harr : s.arr with
  | none => rfl
  | some x =>
    simp only
    apply List.map_congr_left
    intro i hi
    exact h x harr i (List.mem_range.mp hi)

/-- **C10, `string_stable`** (one step): no operation changes the bytes of a live string. `ToString` on the
same bank appends strictly above every live string of the arena (append-only below `len`); when `append`
reallocates it writes only into the fresh array, the old array — which older strings still point into — is
left untouched. Strings are immutable for the user, so there is no exception for stores. -/
theorem string_stable {w w' : World} {r : Ret} {op : Op} (hinv : Inv w) (hal : Allowed w op)
    (hs : step w op = .ok w' r) {s : SHandle} (hin : s ∈ w.sissued) (hl : w.SLive s) : w'.sread s = w.sread s := by
  cases op with
  | get c => cases c <;> (simp only [step, getStep] at hs; cases hs; rfl)
  | alloc b τ nc =>
    obtain ⟨x, i, hf, hs'⟩ := step_alloc hinv b τ nc hal
    rw [hs'] at hs; cases hs; rfl
  | toString b bytes g =>
    obtain ⟨w1, s1, hs', hc⟩ := step_toString hinv b bytes g
    rw [hs'] at hs; cases hs
    cases hc with
    | nil _ _ hw _ => rw [hw]; rfl
    | fit x harr _ hw _ =>
      rw [hw]; apply sread_congr
      intro y hy i hi
      simp only [tsWorld, writeAt]
      by_cases hxy : y = x
      · have := (hinv.s.s1 s hin hl y hy b (by rw [hxy]; exact harr)).2
        have hlt : ¬ ((w.banks b).sdata.len ≤ s.start + i) := by omega
        simp [hlt]
      · simp [hxy]
    | grow _ hw _ =>
      rw [hw]; apply sread_congr
      intro y hy i hi
      have := hinv.s.s2 s hin y hy
      have hne : y ≠ w.nextSArr := Nat.ne_of_lt this
      simp [tsWorld, writeAt, copyInto, hne]
  | store h' v => simp only [step, storeStep] at hs; cases hs; rfl
  | close b => simp only [step, closeStep] at hs; cases hs; rfl

theorem range_getD (l : List Nat) : ((List.range l.length).map fun i => l.getD i 0) = l := by
  apply List.ext_getElem
  · simp
  · intro i h1 h2
    simp at h1
    simp [h1]

/-- the string `ToString` returns denotes exactly the bytes passed in, and is live -/
theorem toString_content {w w' : World} {b g : Nat} {bytes : List Nat} {s : SHandle} (hinv : Inv w)
    (hs : step w (.toString b bytes g) = .ok w' (.str s)) :
    w'.sread s = bytes ∧ s.len = bytes.length ∧ s.bank = b ∧ w'.SLive s ∧ w'.sissued = s :: w.sissued := by
  obtain ⟨w1, s1, hs', hc⟩ := step_toString hinv b bytes g
  rw [hs'] at hs; cases hs
  cases hc with
  | nil _ hb hw hs0 => subst hw hs0 hb; simp [World.sread, World.SLive]
  | fit x _ _ hw hs0 =>
    subst hw hs0
    refine ⟨?_, rfl, rfl, by simp [World.SLive, tsWorld, upd], rfl⟩
    simp only [World.sread, tsWorld, writeAt]
    conv => rhs; rw [← range_getD bytes]
    apply List.map_congr_left
    intro i hi
    have := List.mem_range.mp hi
    simp [this]
  | grow _ hw hs0 =>
    subst hw hs0
    refine ⟨?_, rfl, rfl, by simp [World.SLive, tsWorld, upd], rfl⟩
    simp only [World.sread, tsWorld, writeAt]
    conv => rhs; rw [← range_getD bytes]
    apply List.map_congr_left
    intro i hi
    have := List.mem_range.mp hi
    simp [this]

/-- **C10, `string_stable`, disjointness half**: the string `ToString` returns does not overlap any string that is
live at that moment. -/
theorem toString_disjoint {w w' : World} {b g : Nat} {bytes : List Nat} {s : SHandle} (hinv : Inv w)
    (hal : Allowed w (.toString b bytes g)) (hs : step w (.toString b bytes g) = .ok w' (.str s)) :
    ∀ s0 ∈ w.sissued, w.SLive s0 → ∀ x, s.arr = some x → s0.arr = some x →
      s.start + s.len ≤ s0.start ∨ s0.start + s0.len ≤ s.start := by
  obtain ⟨w1, s1, hs', hc⟩ := step_toString hinv b bytes g
  have hinv' := tsWorld_inv hinv hal hc
  rw [hs'] at hs; cases hs
  have hcont := toString_content hinv hs'
  have hp := hinv'.s.s6
  rw [hcont.2.2.2.2] at hp
  obtain ⟨h1, _⟩ := List.pairwise_cons.mp hp
  intro s0 hs0 hl0 x hx hx0
  have hl0' : w'.SLive s0 := by
    cases hc with
    | nil _ _ hw _ => rw [hw]; exact hl0
    | fit x _ _ hw _ =>
      rw [hw]; simp only [World.SLive, tsWorld]
      by_cases hb : s0.bank = b
      · rw [hb]; simp only [upd, if_true]; rw [← hb]; exact hl0
      · simp only [upd, hb, if_false]; exact hl0
    | grow _ hw _ =>
      rw [hw]; simp only [World.SLive, tsWorld]
      by_cases hb : s0.bank = b
      · rw [hb]; simp only [upd, if_true]; rw [← hb]; exact hl0
      · simp only [upd, hb, if_false]; exact hl0
  exact h1 s0 hs0 hcont.2.2.2.1 hl0' x hx hx0

/-! ## liveness is only ended by closing the handle's own bank -/

/-- the bank an operation works on (`get none` creates a bank that did not exist) -/
def opBank : Op → Option Nat
  | .get c => c
  | .alloc b _ _ => some b
  | .toString b _ _ => some b
  | .store h _ => some h.bank
  | .close b => some b

theorem step_mono {w w' : World} {r : Ret} {op : Op} (hinv : Inv w) (hal : Allowed w op) (hs : step w op = .ok w' r) :
    w.nbanks ≤ w'.nbanks ∧
    (∀ b, b < w.nbanks → (w.banks b).epoch ≤ (w'.banks b).epoch) ∧
    (∀ b, b < w.nbanks → op ≠ .close b → (w'.banks b).epoch = (w.banks b).epoch) ∧
    (∀ h ∈ w.issued, h ∈ w'.issued) ∧ (∀ s ∈ w.sissued, s ∈ w'.sissued) := by
  cases op with
  | get c =>
    cases c with
    | none =>
      simp only [step, getStep] at hs; cases hs
      refine ⟨Nat.le_succ _, ?_, ?_, fun _ h => h, fun _ h => h⟩
      · intro b hb; simp [upd, Nat.ne_of_lt hb]
      · intro b hb _; simp [upd, Nat.ne_of_lt hb]
    | some b0 =>
      simp only [step, getStep] at hs; cases hs
      have : ∀ b, (upd w.banks b0 { w.banks b0 with pooled := false } b).epoch = (w.banks b).epoch := by
        intro b; by_cases h : b = b0
        · subst h; simp [upd]
        · simp [upd, h]
      exact ⟨Nat.le_refl _, fun b _ => by simp [this], fun b _ _ => this b, fun _ h => h, fun _ h => h⟩
  | alloc b0 τ nc =>
    obtain ⟨x, i, hf, hs'⟩ := step_alloc hinv b0 τ nc hal
    rw [hs'] at hs; cases hs
    have : ∀ b, ((allocWorld w b0 τ nc x i).banks b).epoch = (w.banks b).epoch := by
      intro b; by_cases h : b = b0
      · subst h; simp [allocWorld, upd]
      · simp [allocWorld, upd, h]
    exact ⟨Nat.le_refl _, fun b _ => by simp [this], fun b _ _ => this b,
      fun _ h => List.mem_cons_of_mem _ h, fun _ h => h⟩
  | toString b0 bytes g =>
    obtain ⟨w1, s1, hs', hc⟩ := step_toString hinv b0 bytes g
    rw [hs'] at hs; cases hs
    have hts : ∀ n x nx sd' m b, ((tsWorld w b0 n x nx sd' m).banks b).epoch = (w.banks b).epoch := by
      intro n x nx sd' m b; by_cases h : b = b0
      · subst h; simp [tsWorld, upd]
      · simp [tsWorld, upd, h]
    cases hc with
    | nil _ _ hw _ =>
      subst hw
      exact ⟨Nat.le_refl _, fun b _ => Nat.le_refl _, fun b _ _ => rfl, fun _ h => h, fun _ h => List.mem_cons_of_mem _ h⟩
    | fit x _ _ hw _ =>
      subst hw
      exact ⟨Nat.le_refl _, fun b _ => by simp [hts], fun b _ _ => hts _ _ _ _ _ b, fun _ h => h,
        fun _ h => List.mem_cons_of_mem _ h⟩
    | grow _ hw _ =>
      subst hw
      exact ⟨Nat.le_refl _, fun b _ => by simp [hts], fun b _ _ => hts _ _ _ _ _ b, fun _ h => h,
        fun _ h => List.mem_cons_of_mem _ h⟩
  | store h v =>
    simp only [step, storeStep] at hs; cases hs
    exact ⟨Nat.le_refl _, fun b _ => Nat.le_refl _, fun b _ _ => rfl, fun _ h => h, fun _ h => h⟩
  | close b0 =>
    simp only [step, closeStep] at hs; cases hs
    refine ⟨Nat.le_refl _, ?_, ?_, fun _ h => h, fun _ h => h⟩
    · intro b _; by_cases h : b = b0
      · subst h; simp [upd]
      · simp [upd, h]
    · intro b _ hne
      have h : b ≠ b0 := fun e => hne (by rw [e])
      simp [upd, h]

/-- **C10, `close_other_bank`**: an operation on another bank — allocating in it, interning into it, storing
through its pointers, closing it, the pool handing it out again — and the creation of new banks leave every
live pointer of bank `h.bank` live and its cell unchanged. -/
theorem close_other_bank {w w' : World} {r : Ret} {op : Op} (hinv : Inv w) (hal : Allowed w op)
    (hs : step w op = .ok w' r) {h : Handle} (hh : h ∈ w.issued) (hl : w.Live h)
    (hb : opBank op ≠ some h.bank) : w'.Live h ∧ w'.read h = w.read h := by
  have hm := step_mono hinv hal hs
  refine ⟨?_, step_frame hinv hal hs hh hl ?_⟩
  · have := hm.2.2.1 h.bank (hinv.t.t0 h hh) (fun e => hb (by rw [e]; rfl))
    unfold World.Live at hl ⊢; rw [this]; exact hl
  · intro v e; apply hb; rw [e]; rfl

/-- the same for strings -/
theorem close_other_bank_str {w w' : World} {r : Ret} {op : Op} (hinv : Inv w) (hal : Allowed w op)
    (hs : step w op = .ok w' r) {s : SHandle} (hin : s ∈ w.sissued) (hl : w.SLive s)
    (hb : opBank op ≠ some s.bank) : w'.SLive s ∧ w'.sread s = w.sread s := by
  have hm := step_mono hinv hal hs
  refine ⟨?_, string_stable hinv hal hs hin hl⟩
  have := hm.2.2.1 s.bank (hinv.s.s0 s hin) (fun e => hb (by rw [e]; rfl))
  unfold World.SLive at hl ⊢; rw [this]; exact hl

/-! ## whole histories -/

/-- **C10, main clause** ("a record … stays unchanged for as long as its resource bank has not been closed —
regardless of how many further records or blocks are decoded, how internal buffers are reused, or which other
banks are closed and recycled"): take any reachable state `w`, any pointer `h` issued so far, and any
disciplined continuation `ops` of whatever length. If `h` is still live at the end (its bank was not closed)
and nobody stored through `h` itself, the cell of `h` holds at the end what it held in `w`. -/
theorem delivered_stable {w w' : World} (hinv : Inv w) (ops : List Op) (hd : Disciplined w ops)
    (hr : run w ops = some w') {h : Handle} (hh : h ∈ w.issued) (hl' : w'.Live h)
    (hns : ∀ v, Op.store h v ∉ ops) : w.Live h ∧ w'.read h = w.read h := by
  induction ops generalizing w with
  | nil => simp only [run] at hr; cases hr; exact ⟨hl', rfl⟩
  | cons op ops ih =>
    obtain ⟨hal, hrest⟩ := hd
    obtain ⟨w1, r, hs, hinv1⟩ := step_inv hinv hal
    rw [hs] at hrest
    simp only [run, hs] at hr
    have hm := step_mono hinv hal hs
    have hh1 := hm.2.2.2.1 h hh
    obtain ⟨hl1, hread⟩ := ih hinv1 hrest hr hh1 (fun v hv => hns v (List.mem_cons_of_mem _ hv))
    have hlw : w.Live h := by
      have h5 := hinv.t.t5 h hh
      have hmono := hm.2.1 h.bank (hinv.t.t0 h hh)
      unfold World.Live at hl1 ⊢; omega
    refine ⟨hlw, ?_⟩
    rw [hread]
    exact step_frame hinv hal hs hh hlw (fun v e => hns v (by rw [e]; exact List.mem_cons_self))

/-- **C10, main clause for strings**: a string that is still live at the end of any disciplined continuation
denotes the same bytes as when it was delivered. -/
theorem delivered_string_stable {w w' : World} (hinv : Inv w) (ops : List Op) (hd : Disciplined w ops)
    (hr : run w ops = some w') {s : SHandle} (hin : s ∈ w.sissued) (hl' : w'.SLive s) :
    w.SLive s ∧ w'.sread s = w.sread s := by
  induction ops generalizing w with
  | nil => simp only [run] at hr; cases hr; exact ⟨hl', rfl⟩
  | cons op ops ih =>
    obtain ⟨hal, hrest⟩ := hd
    obtain ⟨w1, r, hs, hinv1⟩ := step_inv hinv hal
    rw [hs] at hrest
    simp only [run, hs] at hr
    have hm := step_mono hinv hal hs
    have hin1 := hm.2.2.2.2 s hin
    obtain ⟨hl1, hread⟩ := ih hinv1 hrest hr hin1
    have hlw : w.SLive s := by
      have h5 := hinv.s.s5 s hin
      have hmono := hm.2.1 s.bank (hinv.s.s0 s hin)
      unfold World.SLive at hl1 ⊢; omega
    refine ⟨hlw, ?_⟩
    rw [hread]
    exact string_stable hinv hal hs hin hlw

/-- the executable checker used by the driver is sound for `Disciplined` and agrees with `run` -/
theorem runChecked_sound {w w' : World} {ops : List Op} {rs : List Ret}
    (h : runChecked w ops = .ok (w', rs)) : Disciplined w ops ∧ run w ops = some w' := by
  induction ops generalizing w rs with
  | nil => simp only [runChecked] at h; cases h; exact ⟨trivial, rfl⟩
  | cons op ops ih =>
    simp only [runChecked] at h
    split at h
    · rename_i hal
      split at h
      · rename_i w1 r hs
        split at h
        · rename_i w2 rs2 hrc
          cases h
          obtain ⟨hd, hr⟩ := ih hrc
          exact ⟨⟨hal, by rw [hs]; exact hd⟩, by simp only [run, hs]; exact hr⟩
        · cases h
      · cases h
    · cases h

/-! ## non-vacuity: a concrete disciplined history with growth, close, reuse from the pool, two banks -/

def exOps : List Op :=
  [ .get none, .get none,                       -- banks 0 and 1
    .alloc 0 7 (goNewCap 0),                    -- cell 0 of typed array 0 (bank 0), capacity 16
    .store ⟨0, 0, 0, 0⟩ 99,
    .alloc 1 7 (goNewCap 0),                    -- bank 1 gets its own array
    .store ⟨1, 0, 1, 0⟩ 55,
    .toString 0 [1, 2, 3] 8,
    .toString 1 [9] 8,
    .toString 0 [4, 5, 6, 7, 8, 9] 32,          -- does not fit: fresh byte array, old one kept for "\x01\x02\x03"
    .close 0,
    .get (some 0),                              -- the pool hands bank 0 out again
    .alloc 0 7 (goNewCap 16) ]                  -- the very cell that held 99; it reads zero
  ++ List.replicate 16 (.alloc 0 7 (goNewCap 16)) -- cells 1..15 of the old array, then growth to 32: cell 16 of a new array
  ++ [ .toString 0 [42, 43, 44, 45] 32 ]        -- overwrites bytes 0..3 of the recycled string arena

/-- what the example looks at: the last three results, and at the end of the history the recycled cell, the
cell of bank 1 (never closed), the old string of bank 0 (dead: its bytes were overwritten) and the string of bank 1. -/
def exSummary : Except Nat (World × List Ret) → Option (List Ret × Nat × Nat × List Nat × List Nat)
  | .ok (w, rs) => some (rs.drop 26, w.read ⟨0, 1, 0, 0⟩, w.read ⟨1, 0, 1, 0⟩,
                         w.sread ⟨0, 0, some 2, 3, 6⟩, w.sread ⟨1, 0, some 1, 0, 1⟩)
  | .error _ => none

example : exSummary (runChecked init exOps) =
    some ([.ptr ⟨0, 1, 0, 15⟩, .ptr ⟨0, 1, 2, 16⟩, .str ⟨0, 1, some 2, 0, 4⟩], 0, 55, [45, 5, 6, 7, 8, 9], [9]) := by
  decide

/-- the hypotheses of the theorems are satisfiable by that history -/
example : ∃ w, Disciplined init exOps ∧ run init exOps = some w ∧ Inv w ∧
    w.Live ⟨1, 0, 1, 0⟩ ∧ ¬ w.Live ⟨0, 0, 0, 0⟩ ∧ w.Live ⟨0, 1, 0, 0⟩ := by
  have h : ∃ w rs, runChecked init exOps = .ok (w, rs) ∧ w.Live ⟨1, 0, 1, 0⟩ ∧ ¬ w.Live ⟨0, 0, 0, 0⟩ ∧ w.Live ⟨0, 1, 0, 0⟩ := by
    have hb : (match runChecked init exOps with
            | .ok (w, _) => decide (w.Live ⟨1, 0, 1, 0⟩ ∧ ¬ w.Live ⟨0, 0, 0, 0⟩ ∧ w.Live ⟨0, 1, 0, 0⟩)
            | .error _ => false) = true := by decide
    cases hrc : runChecked init exOps with
    | error i => rw [hrc] at hb; cases hb
    | ok p =>
      rw [hrc] at hb
      exact ⟨p.1, p.2, rfl, of_decide_eq_true hb⟩
  obtain ⟨w, rs, hrc, hl⟩ := h
  obtain ⟨hd, hr⟩ := runChecked_sound hrc
  obtain ⟨w', hr', hinv⟩ := run_inv inv_init _ hd
  rw [hr] at hr'; cases hr'
  exact ⟨w, hd, hr, hinv, hl⟩

/-- the discipline is not vacuous the other way either: using a bank after closing it is rejected -/
example : ¬ Disciplined init [.get none, .close 0, .alloc 0 7 16] := by
  intro h
  obtain ⟨_, h⟩ := h
  simp only [step, getStep] at h
  obtain ⟨_, h⟩ := h
  simp only [step, closeStep] at h
  obtain ⟨⟨_, h⟩, _⟩ := h
  simp [upd] at h

/-! ## provenance of decoded data -/

/-- **C10, `no_block_alias`**: whatever the codec tree, every piece of memory reachable from a decoded value is
either bank memory (covered by the theorems above) or a fresh heap object owned by the value alone; none is
the reused `compressed`/`uncompressed` block buffer of `ReadFile`, none is the caller's input. (The table
`PCodec.reach` is tied to the code by the file-retention runs of the harness: the input is overwritten and
the block buffers are reused by later blocks before the retained records are compared.) -/
theorem no_block_alias (c : PCodec) : ∀ p ∈ c.reach, p = .bank ∨ p = .freshHeap := by
  have hnew : ∀ c : PCodec, c.newProv = .bank ∨ c.newProv = .freshHeap := by
    intro c; cases c <;> simp [PCodec.newProv]
  induction c with
  | prim => simp [PCodec.reach]
  | fixed => simp [PCodec.reach]
  | string => simp [PCodec.reach]
  | bytes => simp [PCodec.reach]
  | array c ih =>
    intro p hp; simp only [PCodec.reach, List.mem_cons] at hp
    rcases hp with rfl | hp
    · right; rfl
    · exact ih p hp
  | map c ih =>
    intro p hp; simp only [PCodec.reach, List.mem_cons] at hp
    rcases hp with rfl | rfl | rfl | hp
    · right; rfl
    · left; rfl
    · exact hnew c
    · exact ih p hp
  | pointer c ih =>
    intro p hp; simp only [PCodec.reach, List.mem_cons] at hp
    rcases hp with rfl | hp
    · exact hnew c
    · exact ih p hp
  | seq a b iha ihb =>
    intro p hp; simp only [PCodec.reach, List.mem_append] at hp
    rcases hp with hp | hp
    · exact iha p hp
    · exact ihb p hp

theorem no_block_alias' (c : PCodec) : Prov.blockBuffer ∉ c.reach ∧ Prov.input ∉ c.reach := by
  constructor <;> intro h <;> rcases no_block_alias c _ h with h | h <;> cases h

/-- non-vacuity: a record with every kind of field reaches both kinds of memory -/
example : (PCodec.seq .string (.seq .bytes (.seq (.array (.array .string)) (.seq (.map .bytes) (.pointer .prim))))).reach =
    [.bank, .freshHeap, .freshHeap, .freshHeap, .bank, .freshHeap, .bank, .bank, .freshHeap, .bank] := by decide

end Avro.C10
