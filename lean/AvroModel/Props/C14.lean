import AvroModel.Schema
namespace Avro.C14
theorem stub : (1 : Nat) = 1 := rfl
end Avro.C14
