import AvroModel.Schema
import AvroModel.Lemmas.Schema
/-! # C14 — Schema JSON parsing and serialisation are faithful inverses

Model: `AvroModel/Schema.lean` (`parseSchema` mirrors `Schema.UnmarshalJSONFrom` + the JSON library's
default struct decoding, `marshalSchema` mirrors `Schema.MarshalJSONTo`; documents are `Json` trees
with ordered members). JSON *text* (whitespace, escapes, syntax errors) is handled by the tokenizer of
`go-json-experiment/json`, which is in the trusted base and exercised by the correspondence run. -/
set_option linter.unusedSimpArgs false
namespace Avro.C14
open Avro

/-! ## Serialising then parsing is the identity on well-formed schemas -/

mutual
private theorem mp_schema : (s : Schema) → s.wf = true → parseSchema (marshalSchema s) = .ok s
  | .mk t none [], _ => by simp [marshalSchema, parseSchema]
  | .mk t none (u :: us), h => by
    simp only [Schema.wf, Bool.and_eq_true, beq_iff_eq] at h
    have ih := mp_list (u :: us) h.2
    simp only [marshalSchema, parseSchema, ih, h.1]
    rfl
  | .mk t (some (.mk ot l n ns f i v sz y)) u, h => by
    simp only [Schema.wf, Bool.and_eq_true, SchemaObject.attrsFit, SchemaObject.wfKids, List.isEmpty_iff,
      beq_iff_eq, Bool.or_eq_true, SchemaObject.type, SchemaObject.fields, SchemaObject.items,
      SchemaObject.values, SchemaObject.size, SchemaObject.symbols, Schema.marshalsEmpty_iff,
      decide_eq_true_eq] at h
    obtain ⟨⟨hu, ⟨⟨⟨⟨⟨hot, hf⟩, hi⟩, hv⟩, hsz⟩, hy⟩, hrange⟩, ⟨hkf, hki⟩, hkv⟩ := h
    subst hu hot
    have ihf := mp_fields f hkf
    have ihi := mp_schema i hki
    have ihv := mp_schema v hkv
    have := pOM_marshal t l n ns f i v sz y hf hi hv hsz hy (of_decide_eq_true hrange) ihf ihi ihv
    simp only [marshalSchema, parseSchema, SchemaObject.logicalType, SchemaObject.name, SchemaObject.nspace, this]
    rfl
private theorem mp_list : (ss : List Schema) → Schema.wfList ss = true → parseSchemas (marshalSchemas ss) = .ok ss
  | [], _ => by simp [marshalSchemas, parseSchemas]
  | s :: ss, h => by
    simp only [Schema.wfList, Bool.and_eq_true] at h
    simp only [marshalSchemas, parseSchemas, mp_schema s h.1, mp_list ss h.2]
    rfl
private theorem mp_fields : (fs : List SchemaField) → SchemaField.wfList fs = true →
    parseFieldList (marshalFields fs) = .ok fs
  | [], _ => by simp [marshalFields, parseFieldList]
  | .mk n t :: fs, h => by
    simp only [SchemaField.wfList, Bool.and_eq_true] at h
    simp only [marshalFields, parseFieldList, pFM_marshal n t (mp_schema t h.1), mp_fields fs h.2]
    rfl
end

/-- C14 "serialising a schema yields valid JSON that parses back to an identical schema": for every
well-formed schema value (DESIGN.md §9), at any nesting depth. -/
theorem marshal_parse (s : Schema) (h : WF s) : parseSchema (marshalSchema s) = .ok s := mp_schema s h

/-! ## Independence of key order, layout and unknown attributes

Whitespace and escapes do not exist at the level of `Json` trees (they are the tokenizer's
business). What remains of "layout" is the order of object members and the presence of unknown
attributes, at any depth. Results are compared with the error class forgotten (`PResult.opt`):
when a document is rejected, which of several defects is reported first may depend on the order. -/

/-- `ex` are extra members that may be added to an object whose other member names are `ks`: their
names are not known attribute names, are new and pairwise distinct, and their values are JSON
values without duplicate member names (anything else the tokenizer accepts). -/
def Extras (ks : List String) (ex : List (String × Json)) : Prop :=
  (∀ e ∈ ex, e.1 ∉ knownKeys ∧ e.1 ∉ ks ∧ e.2.dupFree = true) ∧ (ex.map (·.1)).Nodup

mutual
/-- `Lay x j j'`: `j'` is the document `j` laid out differently — at every depth the members of each
object are permuted and, when `x = true`, unknown attributes are added. -/
def Lay (x : Bool) : Json → Json → Prop
  | .arr xs, j' => ∃ ys, j' = .arr ys ∧ LayL x xs ys
  | .obj ms, j' => ∃ ms1 ex ms', j' = .obj ms' ∧ LayM x ms ms1 ∧ List.Perm (ms1 ++ ex) ms' ∧
      Extras (ms1.map (·.1)) ex ∧ (x = false → ex = [])
  | .null, j' => j' = .null
  | .bool b, j' => j' = .bool b
  | .num n, j' => j' = .num n
  | .numRaw s, j' => j' = .numRaw s
  | .str s, j' => j' = .str s
def LayL (x : Bool) : List Json → List Json → Prop
  | [], ys => ys = []
  | a :: as, ys => ∃ b bs, ys = b :: bs ∧ Lay x a b ∧ LayL x as bs
def LayM (x : Bool) : List (String × Json) → List (String × Json) → Prop
  | [], ms' => ms' = []
  | (k, v) :: ms, ms' => ∃ v' r, ms' = (k, v') :: r ∧ Lay x v v' ∧ LayM x ms r
end

theorem LayM_keys {x} : (ms ms1 : List (String × Json)) → LayM x ms ms1 → ms1.map (·.1) = ms.map (·.1)
  | [], ms1, h => by simp [LayM] at h; simp [h]
  | (k, v) :: ms, ms1, h => by
    simp only [LayM] at h
    obtain ⟨v', r, rfl, _, hr⟩ := h
    simp [LayM_keys ms r hr]


theorem keys_eq_map : (ms : List (String × Json)) → Json.keys ms = ms.map (·.1)
  | [] => rfl
  | (k, v) :: ms => by simp [Json.keys, keys_eq_map ms]

theorem dupFreeMembers_eq_all : (ms : List (String × Json)) → Json.dupFreeMembers ms = ms.all (fun m => m.2.dupFree)
  | [] => rfl
  | (k, v) :: ms => by simp [Json.dupFreeMembers, dupFreeMembers_eq_all ms]

theorem firstDup_isNone_iff (ks : List String) (seen : List String) :
    (firstDup seen ks).isNone = true ↔ ks.Nodup ∧ ∀ k ∈ ks, k ∉ seen := by
  induction ks generalizing seen with
  | nil => simp [firstDup]
  | cons k ks ih =>
    simp only [firstDup, List.contains_eq_mem]
    by_cases hk : k ∈ seen
    · simp [hk]
    · rw [if_neg (by simpa using hk), ih]
      simp only [List.nodup_cons, List.mem_cons, forall_eq_or_imp, not_or]
      constructor
      · rintro ⟨h1, h2⟩
        exact ⟨⟨fun hm => (h2 k hm).1 rfl, h1⟩, hk, fun a ha => (h2 a ha).2⟩
      · rintro ⟨⟨h1, h2⟩, _, h4⟩
        exact ⟨h2, fun a ha => ⟨fun h => h1 (h ▸ ha), h4 a ha⟩⟩

/-- `dupFree` of an object, in terms of library list predicates -/
theorem dupFree_obj (ms : List (String × Json)) :
    (Json.obj ms).dupFree = (decide (ms.map (·.1)).Nodup && ms.all (fun m => m.2.dupFree)) := by
  simp only [Json.dupFree, keys_eq_map, dupFreeMembers_eq_all]
  congr 1
  rw [Bool.eq_iff_iff, firstDup_isNone_iff]
  simp

mutual
theorem lay_dupFree {x} : (j : Json) → ∀ j', Lay x j j' → j'.dupFree = j.dupFree
  | .null, j', h | .bool _, j', h | .num _, j', h | .numRaw _, j', h | .str _, j', h => by
    simp only [Lay] at h; subst h; rfl
  | .arr xs, j', h => by
    simp only [Lay] at h
    obtain ⟨ys, rfl, hl⟩ := h
    simp only [Json.dupFree, lay_dupFreeL xs ys hl]
  | .obj ms, j', h => by
    simp only [Lay] at h
    obtain ⟨ms1, ex, ms', rfl, hm, hp, ⟨hex, hnd⟩, _⟩ := h
    have hk := LayM_keys ms ms1 hm
    have ih := lay_dupFreeM ms ms1 hm
    rw [dupFreeMembers_eq_all, dupFreeMembers_eq_all] at ih
    rw [dupFree_obj, dupFree_obj, ← hp.all_eq, List.all_append, ih]
    have hexall : ex.all (fun m => m.2.dupFree) = true := by
      rw [List.all_eq_true]; intro e he; exact (hex e he).2.2
    rw [hexall, Bool.and_true]
    congr 1
    rw [Bool.eq_iff_iff]
    simp only [decide_eq_true_eq]
    rw [← (hp.map (·.1)).nodup_iff, List.map_append, List.nodup_append, hk]
    constructor
    · exact fun h => h.1
    · intro h
      refine ⟨h, hnd, ?_⟩
      intro a ha b hb hab
      obtain ⟨e, he, rfl⟩ := List.mem_map.1 hb
      exact (hex e he).2.1 (hk ▸ hab ▸ ha)
theorem lay_dupFreeL {x} : (xs : List Json) → ∀ ys, LayL x xs ys → Json.dupFreeList ys = Json.dupFreeList xs
  | [], ys, h => by simp only [LayL] at h; subst h; rfl
  | a :: as, ys, h => by
    simp only [LayL] at h
    obtain ⟨b, bs, rfl, hab, hr⟩ := h
    simp only [Json.dupFreeList, lay_dupFree a b hab, lay_dupFreeL as bs hr]
theorem lay_dupFreeM {x} : (ms : List (String × Json)) → ∀ ms1, LayM x ms ms1 →
    Json.dupFreeMembers ms1 = Json.dupFreeMembers ms
  | [], ms1, h => by simp only [LayM] at h; subst h; rfl
  | (k, v) :: ms, ms1, h => by
    simp only [LayM] at h
    obtain ⟨v', r, rfl, hv, hr⟩ := h
    simp only [Json.dupFreeMembers, lay_dupFree v v' hv, lay_dupFreeM ms r hr]
end


theorem lay_decString {x} (a : String) (v v' : Json) (h : Lay x v v') : decString a v' = decString a v := by
  cases v <;> simp only [Lay] at h
  case arr xs => obtain ⟨ys, rfl, _⟩ := h; rfl
  case obj ms => obtain ⟨_, _, _, rfl, _⟩ := h; rfl
  all_goals subst h; rfl

theorem lay_decInt {x} (a : String) (v v' : Json) (h : Lay x v v') : decInt a v' = decInt a v := by
  cases v <;> simp only [Lay] at h
  case arr xs => obtain ⟨ys, rfl, _⟩ := h; rfl
  case obj ms => obtain ⟨_, _, _, rfl, _⟩ := h; rfl
  all_goals subst h; rfl

theorem lay_mapM_decString {x} (a : String) : (xs ys : List Json) → LayL x xs ys →
    ys.mapM (decString a) = xs.mapM (decString a)
  | [], ys, h => by simp only [LayL] at h; subst h; rfl
  | b :: bs, ys, h => by
    simp only [LayL] at h
    obtain ⟨c, cs, rfl, hbc, hr⟩ := h
    simp only [List.mapM_cons, lay_decString a b c hbc, lay_mapM_decString a bs cs hr]

theorem lay_decStrings {x} (a : String) (v v' : Json) (h : Lay x v v') : decStrings a v' = decStrings a v := by
  cases v <;> simp only [Lay] at h
  case arr xs => obtain ⟨ys, rfl, hl⟩ := h; simp only [decStrings, lay_mapM_decString a xs ys hl]
  case obj ms => obtain ⟨_, _, _, rfl, _⟩ := h; rfl
  all_goals subst h; rfl

/-- decoding one member is insensitive to the layout of its value, given that for the value -/
theorem decodeAttr_congr (k : String) (v v' : Json) {f f' g g'}
    (hs : decString k v' = decString k v) (hi : decInt k v' = decInt k v) (hy : decStrings k v' = decStrings k v)
    (hd : v'.dupFree = v.dupFree)
    (hf : PResult.opt (f' ()) = PResult.opt (f ())) (hg : PResult.opt (g' ()) = PResult.opt (g ())) :
    PResult.opt (decodeAttr k v' f' g') = PResult.opt (decodeAttr k v f g) := by
  unfold decodeAttr
  rw [hs, hi, hy, hd]
  repeat' split
  all_goals first
    | rfl
    | exact PResult.opt_bind_congr hf (fun _ => rfl)
    | exact PResult.opt_bind_congr hg (fun _ => rfl)

theorem decodeFAttr_congr (k : String) (v v' : Json) {f f'}
    (hs : decString k v' = decString k v) (hd : v'.dupFree = v.dupFree)
    (hf : PResult.opt (f' ()) = PResult.opt (f ())) :
    PResult.opt (decodeFAttr k v' f') = PResult.opt (decodeFAttr k v f) := by
  unfold decodeFAttr
  rw [hs, hd]
  repeat' split
  all_goals first
    | rfl
    | exact PResult.opt_bind_congr hf (fun _ => rfl)


theorem decObj_unknown (k : String) (v : Json) (hk : k ∉ knownKeys) (hd : v.dupFree = true) :
    decObj k v = .ok none := by
  simp only [knownKeys, objectKeys, List.mem_cons, List.not_mem_nil, or_false, not_or] at hk
  simp [decObj, decodeAttr, hk, hd]

theorem decFld_unknown (k : String) (v : Json) (hk : k ∉ knownKeys) (hd : v.dupFree = true) :
    decFld k v = .ok none := by
  simp only [knownKeys, objectKeys, List.mem_cons, List.not_mem_nil, or_false, not_or] at hk
  simp [decFld, decodeFAttr, hk, hd]

/-- one object level: members laid out differently (values already known to be insensitive) -/
theorem fold_layout {α σ} (dec : String → Json → PResult (Option α)) (app : Option α → σ → σ)
    (hc : Commutes dec app) (hnone : ∀ st, app none st = st)
    (hunk : ∀ k v, k ∉ knownKeys → v.dupFree = true → dec k v = .ok none)
    (ms ms1 ex ms' : List (String × Json)) (st : σ)
    (e1 : PResult.opt (foldMembers dec app [] st ms1) = PResult.opt (foldMembers dec app [] st ms))
    (hp : List.Perm (ms1 ++ ex) ms') (hex : Extras (ms1.map (·.1)) ex) :
    PResult.opt (foldMembers dec app [] st ms') = PResult.opt (foldMembers dec app [] st ms) := by
  have e2 : foldMembers dec app [] st (ms1 ++ ex) = foldMembers dec app [] st ms1 :=
    fold_append_extras dec app hnone ms1 ex (fun e he => hunk e.1 e.2 (hex.1 e he).1 (hex.1 e he).2.2)
      hex.2 (fun e he => (hex.1 e he).2.1) [] (fun _ _ => by simp) st
  rw [← fold_perm dec app hc hp [] st, e2, e1]

mutual
theorem lay_schema {x} : (j : Json) → ∀ j', Lay x j j' →
    PResult.opt (parseSchema j') = PResult.opt (parseSchema j)
  | .null, j', h | .bool _, j', h | .num _, j', h | .numRaw _, j', h | .str _, j', h => by
    simp only [Lay] at h; subst h; rfl
  | .arr xs, j', h => by
    simp only [Lay] at h
    obtain ⟨ys, rfl, hl⟩ := h
    simp only [parseSchema]
    exact PResult.opt_bind_congr (lay_schemas xs ys hl) (fun _ => rfl)
  | .obj ms, j', h => by
    simp only [Lay] at h
    obtain ⟨ms1, ex, ms', rfl, hm, hp, hex, _⟩ := h
    have e1 := lay_members ms ms1 hm [] SchemaObject.zero
    simp only [pOM_eq_fold] at e1
    simp only [parseSchema, pOM_eq_fold]
    exact PResult.opt_bind_congr
      (fold_layout decObj applyAttr commutes_obj (fun _ => rfl) decObj_unknown ms ms1 ex ms' _ e1 hp hex)
      (fun _ => rfl)
theorem lay_schemas {x} : (xs : List Json) → ∀ ys, LayL x xs ys →
    PResult.opt (parseSchemas ys) = PResult.opt (parseSchemas xs)
  | [], ys, h => by simp only [LayL] at h; subst h; rfl
  | a :: as, ys, h => by
    simp only [LayL] at h
    obtain ⟨b, bs, rfl, hab, hr⟩ := h
    simp only [parseSchemas]
    exact PResult.opt_bind_congr (lay_schema a b hab)
      (fun _ => PResult.opt_bind_congr (lay_schemas as bs hr) (fun _ => rfl))
theorem lay_fields {x} : (j : Json) → ∀ j', Lay x j j' →
    PResult.opt (parseFields j') = PResult.opt (parseFields j)
  | .null, j', h | .bool _, j', h | .num _, j', h | .numRaw _, j', h | .str _, j', h => by
    simp only [Lay] at h; subst h; rfl
  | .arr xs, j', h => by
    simp only [Lay] at h
    obtain ⟨ys, rfl, hl⟩ := h
    simp only [parseFields]
    exact lay_fieldList xs ys hl
  | .obj ms, j', h => by
    simp only [Lay] at h
    obtain ⟨ms1, ex, ms', rfl, _⟩ := h
    rfl
theorem lay_fieldList {x} : (xs : List Json) → ∀ ys, LayL x xs ys →
    PResult.opt (parseFieldList ys) = PResult.opt (parseFieldList xs)
  | [], ys, h => by simp only [LayL] at h; subst h; rfl
  | a :: as, ys, h => by
    simp only [LayL] at h
    obtain ⟨b, bs, rfl, hab, hr⟩ := h
    simp only [parseFieldList]
    exact PResult.opt_bind_congr (lay_field a b hab)
      (fun _ => PResult.opt_bind_congr (lay_fieldList as bs hr) (fun _ => rfl))
theorem lay_field {x} : (j : Json) → ∀ j', Lay x j j' →
    PResult.opt (parseField j') = PResult.opt (parseField j)
  | .null, j', h | .bool _, j', h | .num _, j', h | .numRaw _, j', h | .str _, j', h => by
    simp only [Lay] at h; subst h; rfl
  | .arr xs, j', h => by
    simp only [Lay] at h
    obtain ⟨ys, rfl, hl⟩ := h
    rfl
  | .obj ms, j', h => by
    simp only [Lay] at h
    obtain ⟨ms1, ex, ms', rfl, hm, hp, hex, _⟩ := h
    have e1 := lay_fmembers ms ms1 hm [] SchemaField.zero
    simp only [pFM_eq_fold] at e1
    simp only [parseField, pFM_eq_fold]
    exact fold_layout decFld applyFAttr commutes_fld (fun _ => rfl) decFld_unknown ms ms1 ex ms' _ e1 hp hex
theorem lay_members {x} : (ms : List (String × Json)) → ∀ ms1, LayM x ms ms1 → ∀ seen o,
    PResult.opt (parseObjMembers seen o ms1) = PResult.opt (parseObjMembers seen o ms)
  | [], ms1, h, seen, o => by simp only [LayM] at h; subst h; rfl
  | (k, v) :: ms, ms1, h, seen, o => by
    simp only [LayM] at h
    obtain ⟨v', r, rfl, hv, hr⟩ := h
    simp only [parseObjMembers]
    split
    · rfl
    · exact PResult.opt_bind_congr
        (decodeAttr_congr k v v' (lay_decString k v v' hv) (lay_decInt k v v' hv) (lay_decStrings k v v' hv)
          (lay_dupFree v v' hv) (lay_schema v v' hv) (lay_fields v v' hv))
        (fun a => lay_members ms r hr _ _)
theorem lay_fmembers {x} : (ms : List (String × Json)) → ∀ ms1, LayM x ms ms1 → ∀ seen f,
    PResult.opt (parseFieldMembers seen f ms1) = PResult.opt (parseFieldMembers seen f ms)
  | [], ms1, h, seen, f => by simp only [LayM] at h; subst h; rfl
  | (k, v) :: ms, ms1, h, seen, f => by
    simp only [LayM] at h
    obtain ⟨v', r, rfl, hv, hr⟩ := h
    simp only [parseFieldMembers]
    split
    · rfl
    · exact PResult.opt_bind_congr
        (decodeFAttr_congr k v v' (lay_decString k v v' hv) (lay_dupFree v v' hv) (lay_schema v v' hv))
        (fun a => lay_fmembers ms r hr _ _)
end


mutual
theorem Lay_refl {x} : (j : Json) → Lay x j j
  | .null | .bool _ | .num _ | .numRaw _ | .str _ => by simp [Lay]
  | .arr xs => by simp only [Lay]; exact ⟨xs, rfl, LayL_refl xs⟩
  | .obj ms => by
    simp only [Lay]
    exact ⟨ms, [], ms, rfl, LayM_refl ms, by simp, ⟨by simp, by simp⟩, fun _ => rfl⟩
theorem LayL_refl {x} : (xs : List Json) → LayL x xs xs
  | [] => by simp [LayL]
  | a :: as => by simp only [LayL]; exact ⟨a, as, rfl, Lay_refl a, LayL_refl as⟩
theorem LayM_refl {x} : (ms : List (String × Json)) → LayM x ms ms
  | [] => by simp [LayM]
  | (k, v) :: ms => by simp only [LayM]; exact ⟨v, ms, rfl, Lay_refl v, LayM_refl ms⟩
end

/-- Master statement: a document and any re-layout of it (members permuted and unknown attributes
added, at every depth) are either both rejected or parse to the same schema. -/
theorem layout_invariant {x : Bool} {j j' : Json} (h : Lay x j j') :
    PResult.opt (parseSchema j') = PResult.opt (parseSchema j) := lay_schema j j' h

/-- `j ≈ₚ j'`: same document up to the order of object members at any depth. -/
def JPerm (j j' : Json) : Prop := Lay false j j'

/-- permuting the members of the top-level object is an instance of `JPerm` (deeper levels: by the
recursive clauses of `Lay`) -/
theorem JPerm_of_perm {ms ms' : List (String × Json)} (h : List.Perm ms ms') : JPerm (.obj ms) (.obj ms') := by
  simp only [JPerm, Lay]
  exact ⟨ms, [], ms', rfl, LayM_refl ms, by simpa using h, ⟨by simp, by simp⟩, fun _ => rfl⟩

/-- C14 "independent of JSON key order": permuting object members at any depth does not change the
result of parsing. -/
theorem key_order {j j' : Json} (h : JPerm j j') :
    PResult.opt (parseSchema j') = PResult.opt (parseSchema j) := layout_invariant h

/-- C14 "independent of unknown attributes": inserting, at any position of an object, a member whose
name is not an attribute name (`doc`, `default`, `aliases`, `order`, `precision`, …; names are
case-sensitive, so `Type` counts as unknown) and whose value is any JSON value does not change the
result. (`k ∉ keys`, `x.dupFree`: the tokenizer rejects repeated member names anywhere, see
`malformed_duplicate`.) Insertion at deeper levels: `layout_invariant` with `Lay true`. -/
theorem unknown_attr (pre post : List (String × Json)) (k : String) (x : Json)
    (hk : k ∉ knownKeys) (hnew : k ∉ (pre ++ post).map (·.1)) (hx : x.dupFree = true) :
    PResult.opt (parseSchema (.obj (pre ++ (k, x) :: post))) = PResult.opt (parseSchema (.obj (pre ++ post))) := by
  apply layout_invariant (x := true)
  simp only [Lay]
  refine ⟨pre ++ post, [(k, x)], _, rfl, LayM_refl _, ?_, ⟨?_, by simp⟩, by simp⟩
  · exact (List.perm_append_singleton (k, x) (pre ++ post)).trans List.perm_middle.symm
  · intro e he
    simp only [List.mem_singleton] at he
    subst he
    exact ⟨hk, hnew, hx⟩

/-- C14 "parsing preserves structure": take any well-formed schema value `s` (type, name, namespace,
logical type, fields in order, items, values, size, symbols, union branches in order), write it as
a document in ANY layout — members of every object in any order, unknown attributes added anywhere —
and parsing returns exactly `s`. -/
theorem structure_preserved (s : Schema) (h : WF s) {j : Json} (hl : Lay true (marshalSchema s) j) :
    PResult.opt (parseSchema j) = some s := by
  rw [layout_invariant hl, marshal_parse s h]; rfl

/-! ## Malformed documents are rejected -/

/-- C14 "malformed JSON yields an error", non-schema top level (also at every position where a
schema is expected: items, values, field type, union branch — see `malformed_nested`,
`malformed_branch`): `null`, `true`/`false` and numbers are not schemas. -/
theorem malformed_toplevel :
    parseSchema .null = .error .unexpectedToken ∧ (∀ b, parseSchema (.bool b) = .error .unexpectedToken) ∧
    (∀ n, parseSchema (.num n) = .error .unexpectedToken) ∧
    (∀ s, parseSchema (.numRaw s) = .error .unexpectedToken) := by
  simp [parseSchema]

/-- the JSON kind of `v` does not fit the Go type of the known attribute `k` -/
def badKind (k : String) (v : Json) : Bool :=
  if k = "type" ∨ k = "logicalType" ∨ k = "name" ∨ k = "namespace" then
    (match v with | .str _ | .null => false | _ => true)
  else if k = "fields" ∨ k = "symbols" then (match v with | .arr _ | .null => false | _ => true)
  else if k = "items" ∨ k = "values" then (match v with | .str _ | .arr _ | .obj _ => false | _ => true)
  else if k = "size" then
    (match v with | .num n => !(decide (minInt64 ≤ n ∧ n ≤ maxInt64)) | .null => false | _ => true)
  else false

theorem badKind_fails (k : String) (v : Json) (h : badKind k v = true) : PResult.opt (decObj k v) = none := by
  unfold badKind at h
  unfold decObj decodeAttr
  split at h
  · rename_i hk
    rcases hk with hk | hk | hk | hk <;> subst hk <;> cases v <;> simp_all [decString, bind, Except.bind]
  · split at h
    · rename_i hk
      rcases hk with hk | hk <;> subst hk <;> cases v <;>
        simp_all [decStrings, parseFields, bind, Except.bind]
    · split at h
      · rename_i hk
        rcases hk with hk | hk <;> subst hk <;> cases v <;> simp_all [parseSchema, bind, Except.bind]
      · split at h
        · rename_i hk
          subst hk
          cases v <;> simp_all [decInt, bind, Except.bind]
          rename_i n
          split <;> simp_all
          rename_i heq
          split at heq
          · rename_i hr; omega
          · simp at heq
        · simp at h

/-- C14 "malformed JSON yields an error", wrong kind for a known attribute: an object with a member
(at any position, whatever the other members are) whose value has the wrong JSON kind — e.g.
`"size":"4"`, `"size":4.0`, `"size":9223372036854775808`, `"fields":{}`, `"name":1`,
`"type":{"type":"array",…}` (the attribute `type` of an object must be a string), `"items":null` —
is rejected. -/
theorem malformed_attr (ms : List (String × Json)) (k : String) (v : Json) (hm : (k, v) ∈ ms)
    (hb : badKind k v = true) : PResult.opt (parseSchema (.obj ms)) = none := by
  have := fold_member_error decObj applyAttr ms k v hm (badKind_fails k v hb) [] SchemaObject.zero
  simp only [parseSchema, pOM_eq_fold]
  cases hf : foldMembers decObj applyAttr [] SchemaObject.zero ms <;> simp_all [bind, Except.bind]

/-- an invalid schema in `items` / `values` position makes the enclosing schema invalid -/
theorem malformed_nested (ms : List (String × Json)) (k : String) (v : Json) (hm : (k, v) ∈ ms)
    (hk : k = "items" ∨ k = "values") (hv : PResult.opt (parseSchema v) = none) :
    PResult.opt (parseSchema (.obj ms)) = none := by
  have hd : PResult.opt (decObj k v) = none := by
    unfold decObj decodeAttr
    cases hp : parseSchema v <;> rcases hk with hk | hk <;> subst hk <;> simp_all [bind, Except.bind]
  have := fold_member_error decObj applyAttr ms k v hm hd [] SchemaObject.zero
  simp only [parseSchema, pOM_eq_fold]
  cases hf : foldMembers decObj applyAttr [] SchemaObject.zero ms <;> simp_all [bind, Except.bind]

theorem parseSchemas_fails (xs : List Json) (x : Json) (hx : x ∈ xs) (hv : PResult.opt (parseSchema x) = none) :
    PResult.opt (parseSchemas xs) = none := by
  induction xs with
  | nil => simp at hx
  | cons a as ih =>
    simp only [parseSchemas]
    cases ha : parseSchema a with
    | error e => simp [bind, Except.bind]
    | ok s =>
      rcases List.mem_cons.1 hx with h | h
      · subst h; simp [ha] at hv
      · have := ih h
        cases hr : parseSchemas as <;> simp_all [bind, Except.bind]

/-- an invalid union branch makes the union invalid -/
theorem malformed_branch (xs : List Json) (x : Json) (hx : x ∈ xs) (hv : PResult.opt (parseSchema x) = none) :
    PResult.opt (parseSchema (.arr xs)) = none := by
  have := parseSchemas_fails xs x hx hv
  simp only [parseSchema]
  cases hr : parseSchemas xs <;> simp_all [bind, Except.bind]

/-- C14 "malformed JSON yields an error", duplicate member: an object in schema position with two
members of the same name (known or unknown) is rejected, whatever their values. -/
theorem malformed_duplicate (ms : List (String × Json)) (h : ¬ (ms.map (·.1)).Nodup) :
    PResult.opt (parseSchema (.obj ms)) = none := by
  simp only [parseSchema, pOM_eq_fold]
  cases hf : foldMembers decObj applyAttr [] SchemaObject.zero ms with
  | error e => simp [bind, Except.bind]
  | ok o => exact absurd (fold_ok_nodup decObj applyAttr ms [] _ _ hf).1 h

/-- … and a duplicate member name anywhere inside the value of an unknown attribute as well -/
theorem malformed_duplicate_in_unknown (ms : List (String × Json)) (k : String) (v : Json) (hm : (k, v) ∈ ms)
    (hk : k ∉ knownKeys) (hv : v.dupFree = false) : PResult.opt (parseSchema (.obj ms)) = none := by
  have hd : PResult.opt (decObj k v) = none := by
    simp only [knownKeys, objectKeys, List.mem_cons, List.not_mem_nil, or_false, not_or] at hk
    simp [decObj, decodeAttr, hk, hv]
  have := fold_member_error decObj applyAttr ms k v hm hd [] SchemaObject.zero
  simp only [parseSchema, pOM_eq_fold]
  cases hf : foldMembers decObj applyAttr [] SchemaObject.zero ms <;> simp_all [bind, Except.bind]


theorem parseFieldList_fails (xs : List Json) (x : Json) (hx : x ∈ xs) (hv : PResult.opt (parseField x) = none) :
    PResult.opt (parseFieldList xs) = none := by
  induction xs with
  | nil => simp at hx
  | cons a as ih =>
    simp only [parseFieldList]
    cases ha : parseField a with
    | error e => simp [bind, Except.bind]
    | ok s =>
      rcases List.mem_cons.1 hx with h | h
      · subst h; simp [ha] at hv
      · have := ih h
        cases hr : parseFieldList as <;> simp_all [bind, Except.bind]

/-- an invalid record field (wrong kind, duplicate member, invalid type) makes the record invalid -/
theorem malformed_field (ms : List (String × Json)) (fs : List Json) (f : Json)
    (hm : ("fields", Json.arr fs) ∈ ms) (hf : f ∈ fs) (hv : PResult.opt (parseField f) = none) :
    PResult.opt (parseSchema (.obj ms)) = none := by
  have hd : PResult.opt (decObj "fields" (.arr fs)) = none := by
    have := parseFieldList_fails fs f hf hv
    cases hr : parseFieldList fs <;> simp_all [decObj, decodeAttr, parseFields, bind, Except.bind]
  have := fold_member_error decObj applyAttr ms _ _ hm hd [] SchemaObject.zero
  simp only [parseSchema, pOM_eq_fold]
  cases hf : foldMembers decObj applyAttr [] SchemaObject.zero ms <;> simp_all [bind, Except.bind]

/-- a record field object with a repeated member name is invalid; so is a field that is not an
object (or `null`), and a field whose `type` is not a schema -/
theorem malformed_field_duplicate (ms : List (String × Json)) (h : ¬ (ms.map (·.1)).Nodup) :
    PResult.opt (parseField (.obj ms)) = none := by
  simp only [parseField, pFM_eq_fold]
  cases hf : foldMembers decFld applyFAttr [] SchemaField.zero ms with
  | error e => rfl
  | ok o => exact absurd (fold_ok_nodup decFld applyFAttr ms [] _ _ hf).1 h

/-! ## What parsing produces is well-formed -/

/-- invariant of the decoding loop on a document whose attributes fit the type `t` -/
def Inv (t : String) (o : SchemaObject) : Prop :=
  (o.type = "" ∨ o.type = t) ∧ (t = "record" ∨ o.fields = []) ∧ (t = "array" ∨ o.items = Schema.zero) ∧
  (t = "map" ∨ o.values = Schema.zero) ∧ (t = "fixed" ∨ o.size = 0) ∧ (t = "enum" ∨ o.symbols = []) ∧
  (minInt64 ≤ o.size ∧ o.size ≤ maxInt64) ∧
  SchemaField.wfList o.fields = true ∧ o.items.wf = true ∧ o.values.wf = true

theorem zero_wf : Schema.zero.wf = true := by decide
theorem range0 : minInt64 ≤ 0 ∧ 0 ≤ maxInt64 := by decide
theorem decInt_range {a : String} {v : Json} {n : Int} (h : decInt a v = .ok n) : minInt64 ≤ n ∧ n ≤ maxInt64 := by
  cases v <;> simp [decInt] at h
  · subst h; exact range0
  · split at h <;> simp at h
    subst h; assumption

theorem step_inv (t k : String) (v : Json) (a : Option Attr) (o : SchemaObject)
    (hd : decObj k v = .ok a)
    (hfit : attrFit t k v (fun _ => v.isSchemaDoc) (fun _ => v.isFieldsDoc) = true)
    (ihS : ∀ x, parseSchema v = .ok x → v.isSchemaDoc = true → x.wf = true)
    (ihF : ∀ fs, parseFields v = .ok fs → v.isFieldsDoc = true → SchemaField.wfList fs = true)
    (hinv : Inv t o) : Inv t (applyAttr a o) := by
  obtain ⟨ot, ol, on, ons, f, i, vv, sz, y⟩ := o
  unfold decObj decodeAttr at hd
  unfold attrFit at hfit
  simp only [Inv, SchemaObject.type, SchemaObject.fields, SchemaObject.items, SchemaObject.values,
    SchemaObject.size, SchemaObject.symbols] at hinv ⊢
  repeat' split at hd
  all_goals try simp only [bind, Except.bind] at hd
  all_goals try split at hd
  all_goals try simp at hd
  all_goals try subst hd
  all_goals simp_all [applyAttr, zero_wf, range0, SchemaField.wfList]
  · rename_i heq; cases v <;> simp_all [decString]
  · rename_i heq; exact decInt_range heq

theorem fstep_inv (k : String) (v : Json) (a : Option FAttr) (f : SchemaField)
    (hd : decFld k v = .ok a) (hfit : fieldAttrFit k v (fun _ => v.isSchemaDoc) = true)
    (ihS : ∀ x, parseSchema v = .ok x → v.isSchemaDoc = true → x.wf = true)
    (hinv : f.type.wf = true) : (applyFAttr a f).type.wf = true := by
  obtain ⟨n, ft⟩ := f
  unfold decFld decodeFAttr at hd
  unfold fieldAttrFit at hfit
  repeat' split at hd
  all_goals try simp only [bind, Except.bind] at hd
  all_goals try split at hd
  all_goals try simp at hd
  all_goals try subst hd
  all_goals simp_all [applyFAttr, SchemaField.type]

theorem applyAttr_type_other {k : String} {v : Json} {a : Option Attr} (hd : decObj k v = .ok a)
    (hk : k ≠ "type") (o : SchemaObject) : (applyAttr a o).type = o.type := by
  cases a with
  | none => rfl
  | some a =>
    have := decodeAttr_key hd
    cases o; cases a <;> simp_all [applyAttr, SchemaObject.type, Attr.key]

theorem applyAttr_type_set {t : String} {v : Json} {a : Option Attr} (hd : decObj "type" v = .ok a)
    (hfit : attrFit t "type" v (fun _ => v.isSchemaDoc) (fun _ => v.isFieldsDoc) = true) (o : SchemaObject) :
    (applyAttr a o).type = t := by
  cases o
  cases v <;> simp_all [attrFit, decObj, decodeAttr, decString, bind, Except.bind]
  subst hd; simp [applyAttr, SchemaObject.type]

theorem type_final (t : String) (ms : List (String × Json)) (seen : List String) (o o' : SchemaObject)
    (h : parseObjMembers seen o ms = .ok o') (hfit : Json.membersFit t ms = true) :
    o'.type = if "type" ∈ ms.map (·.1) then t else o.type := by
  induction ms generalizing seen o with
  | nil => simp [parseObjMembers] at h; simp [h]
  | cons m ms ih =>
    obtain ⟨k, v⟩ := m
    simp only [Json.membersFit, Bool.and_eq_true] at hfit
    simp only [parseObjMembers] at h
    split at h
    · simp at h
    · cases hd : decodeAttr k v (fun _ => parseSchema v) (fun _ => parseFields v) with
      | error e => simp [hd, bind, Except.bind] at h
      | ok a =>
        simp only [hd, bind, Except.bind] at h
        have := ih _ _ h hfit.2
        rw [this]
        by_cases hk : k = "type"
        · subst hk
          simp [applyAttr_type_set hd hfit.1]
        · have hk' : ¬ "type" = k := fun h => hk h.symm
          rw [applyAttr_type_other hd hk]
          by_cases hm : "type" ∈ ms.map (·.1)
          · rw [if_pos hm, if_pos (by simp [hm])]
          · rw [if_neg hm, if_neg (by simp [hm, hk'])]

theorem typeOfMembers_absent (ms : List (String × Json)) (h : "type" ∉ ms.map (·.1)) : typeOfMembers ms = "" := by
  have : ms.lookup "type" = none := by
    induction ms with
    | nil => rfl
    | cons m ms ih =>
      obtain ⟨k, v⟩ := m
      simp only [List.map_cons, List.mem_cons, not_or] at h
      have hk : ("type" == k) = false := by simpa using h.1
      simp [List.lookup, hk, ih h.2]
  simp [typeOfMembers, this]

theorem hoist_wf (t : String) (o : SchemaObject) (hinv : Inv t o) (ht : o.type = t) : (hoist o).wf = true := by
  obtain ⟨ot, ol, on, ons, f, i, vv, sz, y⟩ := o
  simp only [Inv, SchemaObject.type, SchemaObject.fields, SchemaObject.items, SchemaObject.values,
    SchemaObject.size, SchemaObject.symbols] at hinv ht
  subst ht
  simp only [hoist, Schema.wf, SchemaObject.attrsFit, SchemaObject.wfKids, SchemaObject.type, SchemaObject.fields,
    SchemaObject.items, SchemaObject.values, SchemaObject.size, SchemaObject.symbols, List.isEmpty_nil,
    Bool.and_eq_true, Bool.or_eq_true, beq_iff_eq, List.isEmpty_iff, Schema.marshalsEmpty_iff, decide_eq_true_eq]
  simp_all

theorem inv_zero (t : String) : Inv t SchemaObject.zero := by
  simp [Inv, SchemaObject.zero, SchemaObject.type, SchemaObject.fields, SchemaObject.items, SchemaObject.values,
    SchemaObject.size, SchemaObject.symbols, zero_wf, range0, SchemaField.wfList]

mutual
theorem pw_schema : (j : Json) → ∀ s, parseSchema j = .ok s → j.isSchemaDoc = true → s.wf = true
  | .null, s, h, _ | .bool _, s, h, _ | .num _, s, h, _ | .numRaw _, s, h, _ => by simp [parseSchema] at h
  | .str t, s, h, hg => by
    simp only [parseSchema, Except.ok.injEq] at h
    subst h
    simpa [Schema.wf, Json.isSchemaDoc] using hg
  | .arr [], s, h, hg => by simp [Json.isSchemaDoc] at hg
  | .arr (x :: xs), s, h, hg => by
    simp only [parseSchema] at h
    cases hp : parseSchemas (x :: xs) with
    | error e => simp [hp, bind, Except.bind] at h
    | ok ss =>
      simp only [hp, bind, Except.bind, Except.ok.injEq] at h
      subst h
      have hg' : Json.isSchemaDocs (x :: xs) = true := by simpa [Json.isSchemaDoc, Json.isSchemaDocs] using hg
      have := pw_schemas (x :: xs) ss hp hg'
      cases ss with
      | nil =>
        simp only [parseSchemas] at hp
        cases h1 : parseSchema x <;> cases h2 : parseSchemas xs <;> simp [h1, h2, bind, Except.bind] at hp
      | cons u us => simp [Schema.wf, this]
  | .obj ms, s, h, hg => by
    simp only [parseSchema] at h
    cases hp : parseObjMembers [] SchemaObject.zero ms with
    | error e => simp [hp, bind, Except.bind] at h
    | ok o =>
      simp only [hp, bind, Except.bind, Except.ok.injEq] at h
      subst h
      simp only [Json.isSchemaDoc] at hg
      have hinv := pw_members (typeOfMembers ms) ms [] _ o hp hg (inv_zero _)
      have ht := type_final (typeOfMembers ms) ms [] _ o hp hg
      apply hoist_wf (typeOfMembers ms) o hinv
      rw [ht]
      split
      · rfl
      · rename_i hn; simp [SchemaObject.zero, SchemaObject.type, typeOfMembers_absent ms hn]
theorem pw_schemas : (xs : List Json) → ∀ ss, parseSchemas xs = .ok ss → Json.isSchemaDocs xs = true →
    Schema.wfList ss = true
  | [], ss, h, _ => by simp [parseSchemas] at h; subst h; rfl
  | x :: xs, ss, h, hg => by
    simp only [parseSchemas] at h
    simp only [Json.isSchemaDocs, Bool.and_eq_true] at hg
    cases h1 : parseSchema x with
    | error e => simp [h1, bind, Except.bind] at h
    | ok s =>
      cases h2 : parseSchemas xs with
      | error e => simp [h1, h2, bind, Except.bind] at h
      | ok ss' =>
        simp only [h1, h2, bind, Except.bind, Except.ok.injEq] at h
        subst h
        simp [Schema.wfList, pw_schema x s h1 hg.1, pw_schemas xs ss' h2 hg.2]
theorem pw_members (t : String) : (ms : List (String × Json)) → ∀ seen o o', parseObjMembers seen o ms = .ok o' →
    Json.membersFit t ms = true → Inv t o → Inv t o'
  | [], seen, o, o', h, _, hinv => by simp [parseObjMembers] at h; subst h; exact hinv
  | (k, v) :: ms, seen, o, o', h, hg, hinv => by
    simp only [Json.membersFit, Bool.and_eq_true] at hg
    simp only [parseObjMembers] at h
    split at h
    · simp at h
    · cases hd : decodeAttr k v (fun _ => parseSchema v) (fun _ => parseFields v) with
      | error e => simp [hd, bind, Except.bind] at h
      | ok a =>
        simp only [hd, bind, Except.bind] at h
        exact pw_members t ms _ _ o' h hg.2
          (step_inv t k v a o hd hg.1 (fun x hx hd => pw_schema v x hx hd) (fun fs hx hd => pw_fields v fs hx hd) hinv)
theorem pw_fields : (j : Json) → ∀ fs, parseFields j = .ok fs → j.isFieldsDoc = true → SchemaField.wfList fs = true
  | .null, fs, _, hg | .bool _, fs, _, hg | .num _, fs, _, hg | .numRaw _, fs, _, hg | .str _, fs, _, hg
  | .obj _, fs, _, hg => by simp [Json.isFieldsDoc] at hg
  | .arr xs, fs, h, hg => by
    simp only [parseFields] at h
    simp only [Json.isFieldsDoc] at hg
    exact pw_fieldList xs fs h hg
theorem pw_fieldList : (xs : List Json) → ∀ fs, parseFieldList xs = .ok fs → Json.isFieldDocs xs = true →
    SchemaField.wfList fs = true
  | [], fs, h, _ => by simp [parseFieldList] at h; subst h; rfl
  | x :: xs, fs, h, hg => by
    simp only [parseFieldList] at h
    simp only [Json.isFieldDocs, Bool.and_eq_true] at hg
    cases h1 : parseField x with
    | error e => simp [h1, bind, Except.bind] at h
    | ok f =>
      cases h2 : parseFieldList xs with
      | error e => simp [h1, h2, bind, Except.bind] at h
      | ok fs' =>
        simp only [h1, h2, bind, Except.bind, Except.ok.injEq] at h
        subst h
        have := pw_field x f h1 hg.1
        obtain ⟨n, ft⟩ := f
        simp only [SchemaField.type] at this
        simp [SchemaField.wfList, this, pw_fieldList xs fs' h2 hg.2]
theorem pw_field : (j : Json) → ∀ f, parseField j = .ok f → j.isFieldDoc = true → f.type.wf = true
  | .null, f, _, hg | .bool _, f, _, hg | .num _, f, _, hg | .numRaw _, f, _, hg | .str _, f, _, hg
  | .arr _, f, _, hg => by simp [Json.isFieldDoc] at hg
  | .obj ms, f, h, hg => by
    simp only [parseField] at h
    simp only [Json.isFieldDoc] at hg
    exact pw_fmembers ms [] _ f h hg (by simp [SchemaField.zero, SchemaField.type, zero_wf])
theorem pw_fmembers : (ms : List (String × Json)) → ∀ seen f f', parseFieldMembers seen f ms = .ok f' →
    Json.fieldMembersFit ms = true → f.type.wf = true → f'.type.wf = true
  | [], seen, f, f', h, _, hinv => by simp [parseFieldMembers] at h; subst h; exact hinv
  | (k, v) :: ms, seen, f, f', h, hg, hinv => by
    simp only [Json.fieldMembersFit, Bool.and_eq_true] at hg
    simp only [parseFieldMembers] at h
    split at h
    · simp at h
    · cases hd : decodeFAttr k v (fun _ => parseSchema v) with
      | error e => simp [hd, bind, Except.bind] at h
      | ok a =>
        simp only [hd, bind, Except.bind] at h
        exact pw_fmembers ms _ _ f' h hg.2 (fstep_inv k v a f hd hg.1 (fun x hx hd => pw_schema v x hx hd) hinv)
end

/-- C14 "all schema values produced by parsing": what `SchemaFromString` returns for a document in
the grammar is well-formed … -/
theorem parse_wf (j : Json) (s : Schema) (h : parseSchema j = .ok s) (hg : j.isSchemaDoc = true) : WF s :=
  pw_schema j s h hg

/-- … hence serialising it and parsing again gives the same value: parse ∘ marshal ∘ parse = parse. -/
theorem parse_marshal_parse (j : Json) (s : Schema) (h : parseSchema j = .ok s) (hg : j.isSchemaDoc = true) :
    parseSchema (marshalSchema s) = parseSchema j := by
  rw [h]; exact marshal_parse s (parse_wf j s h hg)


/-! introduction rules for `Lay` (convenient for concrete documents) -/
theorem LayM.cons {x k v v' ms r} (h1 : Lay x v v') (h2 : LayM x ms r) : LayM x ((k, v) :: ms) ((k, v') :: r) := by
  simp only [LayM]; exact ⟨v', r, rfl, h1, h2⟩
theorem LayM.nil {x} : LayM x [] [] := by simp [LayM]
theorem LayL.cons {x a b as bs} (h1 : Lay x a b) (h2 : LayL x as bs) : LayL x (a :: as) (b :: bs) := by
  simp only [LayL]; exact ⟨b, bs, rfl, h1, h2⟩
theorem Lay.arr {x xs ys} (h : LayL x xs ys) : Lay x (.arr xs) (.arr ys) := by
  simp only [Lay]; exact ⟨ys, rfl, h⟩
theorem Lay.obj {x ms ms1 ex ms'} (h1 : LayM x ms ms1) (h2 : List.Perm (ms1 ++ ex) ms')
    (h3 : Extras (ms1.map (·.1)) ex) (h4 : x = false → ex = []) : Lay x (.obj ms) (.obj ms') := by
  simp only [Lay]; exact ⟨ms1, ex, ms', rfl, h1, h2, h3, h4⟩
theorem Extras.nil {ks} : Extras ks [] := ⟨by simp, by simp⟩

/-! ## Non-vacuity: concrete nested schemas and documents -/

/-- record { f : array of map of union [null, long(timestamp-micros), enum E {A,B}, fixed F 16] ; g : string }
— union inside map inside array inside record -/
def exSchema : Schema :=
  .mk "record" (some (.mk "" "" "r" "a.b"
    [ .mk "f" (.mk "array" (some (.mk "" "" "" "" []
        (.mk "map" (some (.mk "" "" "" "" [] Schema.zero
          (.mk "union" none
            [ Schema.prim "null",
              .mk "long" (some (.mk "" "timestamp-micros" "" "" [] Schema.zero Schema.zero 0 [])) [],
              .mk "enum" (some (.mk "" "" "E" "" [] Schema.zero Schema.zero 0 ["A", "B"])) [],
              .mk "fixed" (some (.mk "" "" "F" "" [] Schema.zero Schema.zero 16 [])) [] ])
          0 [])) [])
        Schema.zero 0 [])) []),
      .mk "g" (Schema.prim "string") ]
    Schema.zero Schema.zero 0 [])) []

example : WF exSchema := by decide

/-- the hypotheses of `marshal_parse` are satisfiable on a nested schema, and the conclusion is
the expected one (evaluated, not assumed) -/
example : parseSchema (marshalSchema exSchema) = .ok exSchema := marshal_parse exSchema (by decide)

/-- the same schema written by hand: members shuffled at every level, unknown attributes (`doc`,
`default` with a nested object and array, `aliases`, `order`, `precision`, case variants `Type` /
`NAME`) sprinkled in -/
def exDoc : Json :=
  .obj [ ("doc", .str "a record"),
    ("fields", .arr [
      .obj [ ("default", .obj [("x", .arr [.num 1, .null, .obj [("type", .str "inner")]])]),
             ("type", .obj [ ("items", .obj [ ("values", .arr [
                 .str "null",
                 .obj [("logicalType", .str "timestamp-micros"), ("precision", .numRaw "1e3"), ("type", .str "long")],
                 .obj [("symbols", .arr [.str "A", .str "B"]), ("name", .str "E"), ("type", .str "enum"), ("aliases", .arr [.str "EE"])],
                 .obj [("size", .num 16), ("Type", .str "ignored"), ("type", .str "fixed"), ("name", .str "F")] ]),
               ("type", .str "map") ]),
               ("type", .str "array"), ("NAME", .bool true) ]),
             ("name", .str "f"), ("order", .str "ascending") ],
      .obj [ ("type", .str "string"), ("name", .str "g") ] ]),
    ("namespace", .str "a.b"), ("type", .str "record"), ("aliases", .arr []), ("name", .str "r") ]

example : parseSchema exDoc = .ok exSchema := by rfl
example : exDoc.isSchemaDoc = true ∧ exDoc.dupFree = true := by decide
/-- `parse_wf` and `parse_marshal_parse` apply to it -/
example : parseSchema (marshalSchema exSchema) = parseSchema exDoc :=
  parse_marshal_parse exDoc exSchema (by rfl) (by decide)

/-- `unknown_attr`, instantiated: an unknown member with a nested value in the middle of a record -/
example :
    PResult.opt (parseSchema (.obj ([("type", .str "fixed")] ++ ("default", .obj [("a", .arr [.null])]) :: [("size", .num 4)])))
      = PResult.opt (parseSchema (.obj ([("type", .str "fixed")] ++ [("size", .num 4)]))) :=
  unknown_attr _ _ "default" _ (by decide) (by decide) (by decide)

/-- `key_order`, instantiated at depth 2 (inner object permuted inside an outer permuted object) -/
example : JPerm
    (.obj [("type", .str "array"), ("items", .obj [("type", .str "map"), ("values", .str "int")])])
    (.obj [("items", .obj [("values", .str "int"), ("type", .str "map")]), ("type", .str "array")]) :=
  Lay.obj (ex := [])
    (LayM.cons (Lay_refl _) (LayM.cons (Lay.obj (ex := []) (LayM_refl _) (List.Perm.swap _ _ _) Extras.nil (fun _ => rfl)) LayM.nil))
    (List.Perm.swap _ _ _) Extras.nil (fun _ => rfl)

/-- `structure_preserved`, instantiated: a `fixed` schema written with an extra attribute, in a
different order -/
example : PResult.opt (parseSchema
    (.obj [("size", .num 16), ("doc", .str "sixteen bytes"), ("type", .str "fixed"), ("name", .str "F")])) =
    some (.mk "fixed" (some (.mk "" "" "F" "" [] Schema.zero Schema.zero 16 [])) []) := by
  apply structure_preserved _ (by decide)
  show Lay true (.obj [("type", .str "fixed"), ("name", .str "F"), ("size", .num 16)]) _
  refine Lay.obj (ex := [("doc", .str "sixteen bytes")]) (LayM_refl _) ?_ ⟨?_, by simp⟩ (fun h => by simp at h)
  · -- [type, name, size, doc] ~ [size, doc, type, name]
    exact (List.perm_append_comm (l₁ := [("type", Json.str "fixed"), ("name", .str "F")])
      (l₂ := [("size", .num 16), ("doc", .str "sixteen bytes")]))
  · intro e he
    simp only [List.mem_singleton] at he
    subst he
    decide

/-! ## Outside `WF` / outside the grammar: what the implementation does (documented, not claimed) -/

/-- The full-strength reading "EVERY schema value produced by parsing re-serialises to a document
that parses back to it" is false: attributes that do not belong to the type are kept by the parser
and dropped by the serialiser. -/
def marshal_parse_full : Prop := ∀ j s, parseSchema j = .ok s → parseSchema (marshalSchema s) = .ok s

/-- witness: `{"type":"record","size":4}` parses (Size = 4) and re-serialises as
`{"type":"record","fields":[]}` -/
theorem marshal_parse_full_false : ¬ marshal_parse_full := by
  intro h
  have := h (.obj [("type", .str "record"), ("size", .num 4)])
    (.mk "record" (some (.mk "" "" "" "" [] Schema.zero Schema.zero 4 [])) []) rfl
  have e : parseSchema (marshalSchema (.mk "record" (some (.mk "" "" "" "" [] Schema.zero Schema.zero 4 [])) [])) =
      .ok (.mk "record" (some (.mk "" "" "" "" [] Schema.zero Schema.zero 0 [])) []) := rfl
  rw [e] at this
  simp at this

/-- the empty union `[]` is accepted; its value `{Type:"union"}` serialises as the *string* "union" -/
example : parseSchema (.arr []) = .ok (.mk "union" none []) ∧ marshalSchema (.mk "union" none []) = .str "union" :=
  ⟨rfl, rfl⟩
example : ¬ WF (.mk "union" none []) := by decide

/-- accepted although hardly schemas: `{}`, `{"type":null}`, a record field `null` -/
example : parseSchema (.obj []) = .ok (.mk "" (some SchemaObject.zero) []) := by rfl
example : parseSchema (.obj [("type", .null)]) = .ok (.mk "" (some SchemaObject.zero) []) := by rfl
example : parseSchema (.obj [("type", .str "record"), ("fields", .arr [.null])]) =
    .ok (.mk "record" (some (.mk "" "" "" "" [SchemaField.zero] Schema.zero Schema.zero 0 [])) []) := by rfl

/-- `key_order` cannot be stated with the error class: which defect is reported first depends on
the order of the members -/
theorem key_order_error_class_differs :
    parseSchema (.obj [("type", .num 1), ("name", .num 2)]) = .error (.wrongKind "type") ∧
    parseSchema (.obj [("name", .num 2), ("type", .num 1)]) = .error (.wrongKind "name") := ⟨rfl, rfl⟩

/-- malformed instances (non-vacuity of the `malformed_*` theorems) -/
example : PResult.opt (parseSchema (.obj [("type", .str "fixed"), ("name", .str "x"), ("size", .str "4")])) = none :=
  malformed_attr _ "size" (.str "4") (by simp) (by decide)
example : PResult.opt (parseSchema (.obj [("type", .obj [("type", .str "array"), ("items", .str "int")])])) = none :=
  malformed_attr _ "type" (.obj [("type", .str "array"), ("items", .str "int")]) (by simp) (by decide)
example : PResult.opt (parseSchema (.obj [("type", .str "int"), ("doc", .num 1), ("doc", .num 2)])) = none :=
  malformed_duplicate _ (by decide)


end Avro.C14
