import AvroModel.Schema
import AvroModel.Lemmas.Schema
/-! # C14 — Schema JSON parsing and serialisation are faithful inverses

Model: `AvroModel/Schema.lean` (`parseSchema` mirrors `Schema.UnmarshalJSONFrom` + the JSON library's
default struct decoding, `marshalSchema` mirrors `Schema.MarshalJSONTo`; documents are `Json` trees
with ordered members). JSON *text* (whitespace, escapes, syntax errors) is handled by the tokenizer of
`go-json-experiment/json`, which is in the trusted base and exercised by the correspondence run. -/
set_option linter.unusedSimpArgs false
namespace Avro.C14
open Avro

/-! ## Serialising then parsing is the identity on well-formed schemas -/

mutual
private theorem mp_schema : (s : Schema) → s.wf = true → parseSchema (marshalSchema s) = .ok s
  | .mk t none [], _ => by simp [marshalSchema, parseSchema]
  | .mk t none (u :: us), h => by
    simp only [Schema.wf, Bool.and_eq_true, beq_iff_eq] at h
    have ih := mp_list (u :: us) h.2
    simp only [marshalSchema, parseSchema, ih, h.1]
    rfl
  | .mk t (some (.mk ot l n ns f i v sz y)) u, h => by
    simp only [Schema.wf, Bool.and_eq_true, SchemaObject.attrsFit, SchemaObject.wfKids, List.isEmpty_iff,
      beq_iff_eq, Bool.or_eq_true, SchemaObject.type, SchemaObject.fields, SchemaObject.items,
      SchemaObject.values, SchemaObject.size, SchemaObject.symbols, Schema.marshalsEmpty_iff,
      decide_eq_true_eq] at h
    obtain ⟨⟨hu, ⟨⟨⟨⟨⟨hot, hf⟩, hi⟩, hv⟩, hsz⟩, hy⟩, hrange⟩, ⟨hkf, hki⟩, hkv⟩ := h
    subst hu hot
    have ihf := mp_fields f hkf
    have ihi := mp_schema i hki
    have ihv := mp_schema v hkv
    have := pOM_marshal t l n ns f i v sz y hf hi hv hsz hy (of_decide_eq_true hrange) ihf ihi ihv
    simp only [marshalSchema, parseSchema, SchemaObject.logicalType, SchemaObject.name, SchemaObject.nspace, this]
    rfl
private theorem mp_list : (ss : List Schema) → Schema.wfList ss = true → parseSchemas (marshalSchemas ss) = .ok ss
  | [], _ => by simp [marshalSchemas, parseSchemas]
  | s :: ss, h => by
    simp only [Schema.wfList, Bool.and_eq_true] at h
    simp only [marshalSchemas, parseSchemas, mp_schema s h.1, mp_list ss h.2]
    rfl
private theorem mp_fields : (fs : List SchemaField) → SchemaField.wfList fs = true →
    parseFieldList (marshalFields fs) = .ok fs
  | [], _ => by simp [marshalFields, parseFieldList]
  | .mk n t :: fs, h => by
    simp only [SchemaField.wfList, Bool.and_eq_true] at h
    simp only [marshalFields, parseFieldList, pFM_marshal n t (mp_schema t h.1), mp_fields fs h.2]
    rfl
end

/-- C14 "serialising a schema yields valid JSON that parses back to an identical schema": for every
well-formed schema value (DESIGN.md §9), at any nesting depth. -/
theorem marshal_parse (s : Schema) (h : WF s) : parseSchema (marshalSchema s) = .ok s := mp_schema s h

/-! ## Independence of key order, layout and unknown attributes

Whitespace and escapes do not exist at the level of `Json` trees (they are the tokenizer's
business). What remains of "layout" is the order of object members and the presence of unknown
attributes, at any depth. Results are compared with the error class forgotten (`PResult.opt`):
when a document is rejected, which of several defects is reported first may depend on the order. -/

/-- `ex` are extra members that may be added to an object whose other member names are `ks`: their
names are not known attribute names, are new and pairwise distinct, and their values are JSON
values without duplicate member names (anything else the tokenizer accepts). -/
def Extras (ks : List String) (ex : List (String × Json)) : Prop :=
  (∀ e ∈ ex, e.1 ∉ knownKeys ∧ e.1 ∉ ks ∧ e.2.dupFree = true) ∧ (ex.map (·.1)).Nodup

mutual
/-- `Lay x j j'`: `j'` is the document `j` laid out differently — at every depth the members of each
object are permuted and, when `x = true`, unknown attributes are added. -/
def Lay (x : Bool) : Json → Json → Prop
  | .arr xs, j' => ∃ ys, j' = .arr ys ∧ LayL x xs ys
  | .obj ms, j' => ∃ ms1 ex ms', j' = .obj ms' ∧ LayM x ms ms1 ∧ List.Perm (ms1 ++ ex) ms' ∧
      Extras (ms1.map (·.1)) ex ∧ (x = false → ex = [])
  | .null, j' => j' = .null
  | .bool b, j' => j' = .bool b
  | .num n, j' => j' = .num n
  | .numRaw s, j' => j' = .numRaw s
  | .str s, j' => j' = .str s
def LayL (x : Bool) : List Json → List Json → Prop
  | [], ys => ys = []
  | a :: as, ys => ∃ b bs, ys = b :: bs ∧ Lay x a b ∧ LayL x as bs
def LayM (x : Bool) : List (String × Json) → List (String × Json) → Prop
  | [], ms' => ms' = []
  | (k, v) :: ms, ms' => ∃ v' r, ms' = (k, v') :: r ∧ Lay x v v' ∧ LayM x ms r
end

theorem LayM_keys {x} : (ms ms1 : List (String × Json)) → LayM x ms ms1 → ms1.map (·.1) = ms.map (·.1)
  | [], ms1, h => by simp [LayM] at h; simp [h]
  | (k, v) :: ms, ms1, h => by
    simp only [LayM] at h
    obtain ⟨v', r, rfl, _, hr⟩ := h
    simp [LayM_keys ms r hr]


theorem keys_eq_map : (ms : List (String × Json)) → Json.keys ms = ms.map (·.1)
  | [] => rfl
  | (k, v) :: ms => by simp [Json.keys, keys_eq_map ms]

theorem dupFreeMembers_eq_all : (ms : List (String × Json)) → Json.dupFreeMembers ms = ms.all (fun m => m.2.dupFree)
  | [] => rfl
  | (k, v) :: ms => by simp [Json.dupFreeMembers, dupFreeMembers_eq_all ms]

theorem firstDup_isNone_iff (ks : List String) (seen : List String) :
    (firstDup seen ks).isNone = true ↔ ks.Nodup ∧ ∀ k ∈ ks, k ∉ seen := by
  induction ks generalizing seen with
  | nil => simp [firstDup]
  | cons k ks ih =>
    simp only [firstDup, List.contains_eq_mem]
    by_cases hk : k ∈ seen
    · simp [hk]
    · rw [if_neg (by simpa using hk), ih]
      simp only [List.nodup_cons, List.mem_cons, forall_eq_or_imp, not_or]
      constructor
      · rintro ⟨h1, h2⟩
        exact ⟨⟨fun hm => (h2 k hm).1 rfl, h1⟩, hk, fun a ha => (h2 a ha).2⟩
      · rintro ⟨⟨h1, h2⟩, _, h4⟩
        exact ⟨h2, fun a ha => ⟨fun h => h1 (h ▸ ha), h4 a ha⟩⟩

/-- `dupFree` of an object, in terms of library list predicates -/
theorem dupFree_obj (ms : List (String × Json)) :
    (Json.obj ms).dupFree = (decide (ms.map (·.1)).Nodup && ms.all (fun m => m.2.dupFree)) := by
  simp only [Json.dupFree, keys_eq_map, dupFreeMembers_eq_all]
  congr 1
  rw [Bool.eq_iff_iff, firstDup_isNone_iff]
  simp

mutual
theorem lay_dupFree {x} : (j : Json) → ∀ j', Lay x j j' → j'.dupFree = j.dupFree
  | .null, j', h | .bool _, j', h | .num _, j', h | .numRaw _, j', h | .str _, j', h => by
    simp only [Lay] at h; subst h; rfl
  | .arr xs, j', h => by
    simp only [Lay] at h
    obtain ⟨ys, rfl, hl⟩ := h
    simp only [Json.dupFree, lay_dupFreeL xs ys hl]
  | .obj ms, j', h => by
    simp only [Lay] at h
    obtain ⟨ms1, ex, ms', rfl, hm, hp, ⟨hex, hnd⟩, _⟩ := h
    have hk := LayM_keys ms ms1 hm
    have ih := lay_dupFreeM ms ms1 hm
    rw [dupFreeMembers_eq_all, dupFreeMembers_eq_all] at ih
    rw [dupFree_obj, dupFree_obj, ← hp.all_eq, List.all_append, ih]
    have hexall : ex.all (fun m => m.2.dupFree) = true := by
      rw [List.all_eq_true]; intro e he; exact (hex e he).2.2
    rw [hexall, Bool.and_true]
    congr 1
    rw [Bool.eq_iff_iff]
    simp only [decide_eq_true_eq]
    rw [← (hp.map (·.1)).nodup_iff, List.map_append, List.nodup_append, hk]
    constructor
    · exact fun h => h.1
    · intro h
      refine ⟨h, hnd, ?_⟩
      intro a ha b hb hab
      obtain ⟨e, he, rfl⟩ := List.mem_map.1 hb
      exact (hex e he).2.1 (hk ▸ hab ▸ ha)
theorem lay_dupFreeL {x} : (xs : List Json) → ∀ ys, LayL x xs ys → Json.dupFreeList ys = Json.dupFreeList xs
  | [], ys, h => by simp only [LayL] at h; subst h; rfl
  | a :: as, ys, h => by
    simp only [LayL] at h
    obtain ⟨b, bs, rfl, hab, hr⟩ := h
    simp only [Json.dupFreeList, lay_dupFree a b hab, lay_dupFreeL as bs hr]
theorem lay_dupFreeM {x} : (ms : List (String × Json)) → ∀ ms1, LayM x ms ms1 →
    Json.dupFreeMembers ms1 = Json.dupFreeMembers ms
  | [], ms1, h => by simp only [LayM] at h; subst h; rfl
  | (k, v) :: ms, ms1, h => by
    simp only [LayM] at h
    obtain ⟨v', r, rfl, hv, hr⟩ := h
    simp only [Json.dupFreeMembers, lay_dupFree v v' hv, lay_dupFreeM ms r hr]
end


theorem lay_decString {x} (a : String) (v v' : Json) (h : Lay x v v') : decString a v' = decString a v := by
  cases v <;> simp only [Lay] at h
  case arr xs => obtain ⟨ys, rfl, _⟩ := h; rfl
  case obj ms => obtain ⟨_, _, _, rfl, _⟩ := h; rfl
  all_goals subst h; rfl

theorem lay_decInt {x} (a : String) (v v' : Json) (h : Lay x v v') : decInt a v' = decInt a v := by
  cases v <;> simp only [Lay] at h
  case arr xs => obtain ⟨ys, rfl, _⟩ := h; rfl
  case obj ms => obtain ⟨_, _, _, rfl, _⟩ := h; rfl
  all_goals subst h; rfl

theorem lay_mapM_decString {x} (a : String) : (xs ys : List Json) → LayL x xs ys →
    ys.mapM (decString a) = xs.mapM (decString a)
  | [], ys, h => by simp only [LayL] at h; subst h; rfl
  | b :: bs, ys, h => by
    simp only [LayL] at h
    obtain ⟨c, cs, rfl, hbc, hr⟩ := h
    simp only [List.mapM_cons, lay_decString a b c hbc, lay_mapM_decString a bs cs hr]

theorem lay_decStrings {x} (a : String) (v v' : Json) (h : Lay x v v') : decStrings a v' = decStrings a v := by
  cases v <;> simp only [Lay] at h
  case arr xs => obtain ⟨ys, rfl, hl⟩ := h; simp only [decStrings, lay_mapM_decString a xs ys hl]
  case obj ms => obtain ⟨_, _, _, rfl, _⟩ := h; rfl
  all_goals subst h; rfl

/-- decoding one member is insensitive to the layout of its value, given that for the value -/
theorem decodeAttr_congr (k : String) (v v' : Json) {f f' g g'}
    (hs : decString k v' = decString k v) (hi : decInt k v' = decInt k v) (hy : decStrings k v' = decStrings k v)
    (hd : v'.dupFree = v.dupFree)
    (hf : PResult.opt (f' ()) = PResult.opt (f ())) (hg : PResult.opt (g' ()) = PResult.opt (g ())) :
    PResult.opt (decodeAttr k v' f' g') = PResult.opt (decodeAttr k v f g) := by
  unfold decodeAttr
  rw [hs, hi, hy, hd]
  repeat' split
  all_goals first
    | rfl
    | exact PResult.opt_bind_congr hf (fun _ => rfl)
    | exact PResult.opt_bind_congr hg (fun _ => rfl)

theorem decodeFAttr_congr (k : String) (v v' : Json) {f f'}
    (hs : decString k v' = decString k v) (hd : v'.dupFree = v.dupFree)
    (hf : PResult.opt (f' ()) = PResult.opt (f ())) :
    PResult.opt (decodeFAttr k v' f') = PResult.opt (decodeFAttr k v f) := by
  unfold decodeFAttr
  rw [hs, hd]
  repeat' split
  all_goals first
    | rfl
    | exact PResult.opt_bind_congr hf (fun _ => rfl)


theorem decObj_unknown (k : String) (v : Json) (hk : k ∉ knownKeys) (hd : v.dupFree = true) :
    decObj k v = .ok none := by
  simp only [knownKeys, objectKeys, List.mem_cons, List.not_mem_nil, or_false, not_or] at hk
  simp [decObj, decodeAttr, hk, hd]

theorem decFld_unknown (k : String) (v : Json) (hk : k ∉ knownKeys) (hd : v.dupFree = true) :
    decFld k v = .ok none := by
  simp only [knownKeys, objectKeys, List.mem_cons, List.not_mem_nil, or_false, not_or] at hk
  simp [decFld, decodeFAttr, hk, hd]

/-- one object level: members laid out differently (values already known to be insensitive) -/
theorem fold_layout {α σ} (dec : String → Json → PResult (Option α)) (app : Option α → σ → σ)
    (hc : Commutes dec app) (hnone : ∀ st, app none st = st)
    (hunk : ∀ k v, k ∉ knownKeys → v.dupFree = true → dec k v = .ok none)
    (ms ms1 ex ms' : List (String × Json)) (st : σ)
    (e1 : PResult.opt (foldMembers dec app [] st ms1) = PResult.opt (foldMembers dec app [] st ms))
    (hp : List.Perm (ms1 ++ ex) ms') (hex : Extras (ms1.map (·.1)) ex) :
    PResult.opt (foldMembers dec app [] st ms') = PResult.opt (foldMembers dec app [] st ms) := by
  have e2 : foldMembers dec app [] st (ms1 ++ ex) = foldMembers dec app [] st ms1 :=
    fold_append_extras dec app hnone ms1 ex (fun e he => hunk e.1 e.2 (hex.1 e he).1 (hex.1 e he).2.2)
      hex.2 (fun e he => (hex.1 e he).2.1) [] (fun _ _ => by simp) st
  rw [← fold_perm dec app hc hp [] st, e2, e1]

mutual
theorem lay_schema {x} : (j : Json) → ∀ j', Lay x j j' →
    PResult.opt (parseSchema j') = PResult.opt (parseSchema j)
  | .null, j', h | .bool _, j', h | .num _, j', h | .numRaw _, j', h | .str _, j', h => by
    simp only [Lay] at h; subst h; rfl
  | .arr xs, j', h => by
    simp only [Lay] at h
    obtain ⟨ys, rfl, hl⟩ := h
    simp only [parseSchema]
    exact PResult.opt_bind_congr (lay_schemas xs ys hl) (fun _ => rfl)
  | .obj ms, j', h => by
    simp only [Lay] at h
    obtain ⟨ms1, ex, ms', rfl, hm, hp, hex, _⟩ := h
    have e1 := lay_members ms ms1 hm [] SchemaObject.zero
    simp only [pOM_eq_fold] at e1
    simp only [parseSchema, pOM_eq_fold]
    exact PResult.opt_bind_congr
      (fold_layout decObj applyAttr commutes_obj (fun _ => rfl) decObj_unknown ms ms1 ex ms' _ e1 hp hex)
      (fun _ => rfl)
theorem lay_schemas {x} : (xs : List Json) → ∀ ys, LayL x xs ys →
    PResult.opt (parseSchemas ys) = PResult.opt (parseSchemas xs)
  | [], ys, h => by simp only [LayL] at h; subst h; rfl
  | a :: as, ys, h => by
    simp only [LayL] at h
    obtain ⟨b, bs, rfl, hab, hr⟩ := h
    simp only [parseSchemas]
    exact PResult.opt_bind_congr (lay_schema a b hab)
      (fun _ => PResult.opt_bind_congr (lay_schemas as bs hr) (fun _ => rfl))
theorem lay_fields {x} : (j : Json) → ∀ j', Lay x j j' →
    PResult.opt (parseFields j') = PResult.opt (parseFields j)
  | .null, j', h | .bool _, j', h | .num _, j', h | .numRaw _, j', h | .str _, j', h => by
    simp only [Lay] at h; subst h; rfl
  | .arr xs, j', h => by
    simp only [Lay] at h
    obtain ⟨ys, rfl, hl⟩ := h
    simp only [parseFields]
    exact lay_fieldList xs ys hl
  | .obj ms, j', h => by
    simp only [Lay] at h
    obtain ⟨ms1, ex, ms', rfl, _⟩ := h
    rfl
theorem lay_fieldList {x} : (xs : List Json) → ∀ ys, LayL x xs ys →
    PResult.opt (parseFieldList ys) = PResult.opt (parseFieldList xs)
  | [], ys, h => by simp only [LayL] at h; subst h; rfl
  | a :: as, ys, h => by
    simp only [LayL] at h
    obtain ⟨b, bs, rfl, hab, hr⟩ := h
    simp only [parseFieldList]
    exact PResult.opt_bind_congr (lay_field a b hab)
      (fun _ => PResult.opt_bind_congr (lay_fieldList as bs hr) (fun _ => rfl))
theorem lay_field {x} : (j : Json) → ∀ j', Lay x j j' →
    PResult.opt (parseField j') = PResult.opt (parseField j)
  | .null, j', h | .bool _, j', h | .num _, j', h | .numRaw _, j', h | .str _, j', h => by
    simp only [Lay] at h; subst h; rfl
  | .arr xs, j', h => by
    simp only [Lay] at h
    obtain ⟨ys, rfl, hl⟩ := h
    rfl
  | .obj ms, j', h => by
    simp only [Lay] at h
    obtain ⟨ms1, ex, ms', rfl, hm, hp, hex, _⟩ := h
    have e1 := lay_fmembers ms ms1 hm [] SchemaField.zero
    simp only [pFM_eq_fold] at e1
    simp only [parseField, pFM_eq_fold]
    exact fold_layout decFld applyFAttr commutes_fld (fun _ => rfl) decFld_unknown ms ms1 ex ms' _ e1 hp hex
theorem lay_members {x} : (ms : List (String × Json)) → ∀ ms1, LayM x ms ms1 → ∀ seen o,
    PResult.opt (parseObjMembers seen o ms1) = PResult.opt (parseObjMembers seen o ms)
  | [], ms1, h, seen, o => by simp only [LayM] at h; subst h; rfl
  | (k, v) :: ms, ms1, h, seen, o => by
    simp only [LayM] at h
    obtain ⟨v', r, rfl, hv, hr⟩ := h
    simp only [parseObjMembers]
    split
    · rfl
    · exact PResult.opt_bind_congr
        (decodeAttr_congr k v v' (lay_decString k v v' hv) (lay_decInt k v v' hv) (lay_decStrings k v v' hv)
          (lay_dupFree v v' hv) (lay_schema v v' hv) (lay_fields v v' hv))
        (fun a => lay_members ms r hr _ _)
theorem lay_fmembers {x} : (ms : List (String × Json)) → ∀ ms1, LayM x ms ms1 → ∀ seen f,
    PResult.opt (parseFieldMembers seen f ms1) = PResult.opt (parseFieldMembers seen f ms)
  | [], ms1, h, seen, f => by simp only [LayM] at h; subst h; rfl
  | (k, v) :: ms, ms1, h, seen, f => by
    simp only [LayM] at h
    obtain ⟨v', r, rfl, hv, hr⟩ := h
    simp only [parseFieldMembers]
    split
    · rfl
    · exact PResult.opt_bind_congr
        (decodeFAttr_congr k v v' (lay_decString k v v' hv) (lay_dupFree v v' hv) (lay_schema v v' hv))
        (fun a => lay_fmembers ms r hr _ _)
end


mutual
theorem Lay_refl {x} : (j : Json) → Lay x j j
  | .null | .bool _ | .num _ | .numRaw _ | .str _ => by simp [Lay]
  | .arr xs => by simp only [Lay]; exact ⟨xs, rfl, LayL_refl xs⟩
  | .obj ms => by
    simp only [Lay]
    exact ⟨ms, [], ms, rfl, LayM_refl ms, by simp, ⟨by simp, by simp⟩, fun _ => rfl⟩
theorem LayL_refl {x} : (xs : List Json) → LayL x xs xs
  | [] => by simp [LayL]
  | a :: as => by simp only [LayL]; exact ⟨a, as, rfl, Lay_refl a, LayL_refl as⟩
theorem LayM_refl {x} : (ms : List (String × Json)) → LayM x ms ms
  | [] => by simp [LayM]
  | (k, v) :: ms => by simp only [LayM]; exact ⟨v, ms, rfl, Lay_refl v, LayM_refl ms⟩
end

/-- Master statement: a document and any re-layout of it (members permuted and unknown attributes
added, at every depth) are either both rejected or parse to the same schema. -/
theorem layout_invariant {x : Bool} {j j' : Json} (h : Lay x j j') :
    PResult.opt (parseSchema j') = PResult.opt (parseSchema j) := lay_schema j j' h

/-- `j ≈ₚ j'`: same document up to the order of object members at any depth. -/
def JPerm (j j' : Json) : Prop := Lay false j j'

/-- permuting the members of the top-level object is an instance of `JPerm` (deeper levels: by the
recursive clauses of `Lay`) -/
theorem JPerm_of_perm {ms ms' : List (String × Json)} (h : List.Perm ms ms') : JPerm (.obj ms) (.obj ms') := by
  simp only [JPerm, Lay]
  exact ⟨ms, [], ms', rfl, LayM_refl ms, by simpa using h, ⟨by simp, by simp⟩, fun _ => rfl⟩

/-- C14 "independent of JSON key order": permuting object members at any depth does not change the
result of parsing. -/
theorem key_order {j j' : Json} (h : JPerm j j') :
    PResult.opt (parseSchema j') = PResult.opt (parseSchema j) := layout_invariant h

/-- C14 "independent of unknown attributes": inserting, at any position of an object, a member whose
name is not an attribute name (`doc`, `default`, `aliases`, `order`, `precision`, …; names are
case-sensitive, so `Type` counts as unknown) and whose value is any JSON value does not change the
result. (`k ∉ keys`, `x.dupFree`: the tokenizer rejects repeated member names anywhere, see
`malformed_duplicate`.) Insertion at deeper levels: `layout_invariant` with `Lay true`. -/
theorem unknown_attr (pre post : List (String × Json)) (k : String) (x : Json)
    (hk : k ∉ knownKeys) (hnew : k ∉ (pre ++ post).map (·.1)) (hx : x.dupFree = true) :
    PResult.opt (parseSchema (.obj (pre ++ (k, x) :: post))) = PResult.opt (parseSchema (.obj (pre ++ post))) := by
  apply layout_invariant (x := true)
  simp only [Lay]
  refine ⟨pre ++ post, [(k, x)], _, rfl, LayM_refl _, ?_, ⟨?_, by simp⟩, by simp⟩
  · exact (List.perm_append_singleton (k, x) (pre ++ post)).trans List.perm_middle.symm
  · intro e he
    simp only [List.mem_singleton] at he
    subst he
    exact ⟨hk, hnew, hx⟩

/-- C14 "parsing preserves structure": take any well-formed schema value `s` (type, name, namespace,
logical type, fields in order, items, values, size, symbols, union branches in order), write it as
a document in ANY layout — members of every object in any order, unknown attributes added anywhere —
and parsing returns exactly `s`. -/
theorem structure_preserved (s : Schema) (h : WF s) {j : Json} (hl : Lay true (marshalSchema s) j) :
    PResult.opt (parseSchema j) = some s := by
  rw [layout_invariant hl, marshal_parse s h]; rfl

end Avro.C14
