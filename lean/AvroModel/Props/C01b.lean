import AvroModel.Props.C01
import AvroModel.Lemmas.TypeCodec
import AvroModel.Lemmas.BuildOk
/-!
# C01 for a Go type: the codec is the one the library builds for the type

`C01.value_roundtrip_spec` is stated for a codec `c` with `fieldCodec N T false = some c`
and an Avro schema `s` with `CodecFor c s`. Here both are determined by the Go type `T` alone, the way
`NewEncoderFor[T]` / `ReadFile` into `T` determine them: the schema is the one `schemaForType`
generates for `T`, the codec the one `buildCodec` builds from that schema for `T` with the library's
registry, the Avro schema the one the generated schema denotes (`Lemmas/TypeCodec.lean`:
`built_is_fieldCodec`, `classify_frag`).
-/
namespace Avro.C01
open Avro

variable (env : Env)

/-- **For every Go type of the fragment the library generates a schema, builds a codec from it, and
the schema denotes an Avro schema** — with any stack budget above the nesting depth of the type and
any build / classification fuel from `T.bfuel + 3` on; the codec is `fieldCodec N T false`. -/
theorem typed_codec_exists (T : GoType) (hT : Frag T = true) (sf bf cf N : Nat)
    (hsf : T.depth < sf) (hbf : T.bfuel + 3 ≤ bf) (hcf : T.bfuel + 3 ≤ cf) (hN : 2 * T.depth + 2 ≤ N) :
    ∃ sch c a, schemaForType SReg.empty TEnv.empty sf [] T = .ok sch ∧
      buildCodec libReg bf sch (some T) false = .ok c ∧ classify cf sch = some a ∧
      fieldCodec N T false = some c ∧ CodecFor c a := by
  obtain ⟨c, hc⟩ := frag_field T hT N hN false
  obtain ⟨h1, h2⟩ := built_of_fieldCodec hc sf bf hsf hbf
  obtain ⟨a, ha⟩ := classify_frag T hT cf hcf
  exact ⟨genSchema T, c, a, h1, h2, ha, hc,
    (buildOkAt libReg (fun _ => rfl) bf).build _ _ _ _ h2 cf a ha⟩

/-- **C01 for a Go type, against the documented normalisations.** Let `T` be a Go type of the
fragment (`Frag`: bool, int16/32/64, float32/64, string, `[]byte`, slices, string-keyed maps,
pointers of any depth, `time.Time`, `null.*`, structs whose encoded fields have distinct names and
arbitrary `omitempty` tags), `sch` the schema the library generates for `T`, `c` the codec it builds
from `sch` for `T` (library registry, no user registrations), `a` the Avro schema `sch` denotes —
all three determined by `T` (`typed_codec_exists`). For a well-typed value `g : T` (`Typed`), if
writing `g` yields `bs` (and these are the specification's bytes for its datum `v`), then reading
`bs`, followed by anything, into a fresh destination succeeds, consumes exactly `bs`, and the value
`r` read back equals the value written up to the documented normalisations and the three recorded
deviations D27 / D30 / D32: `normSpec T r = normSpecD 7 T g`.
The remaining hypotheses are those of `value_roundtrip_spec` about budgets (`hm'`, `hk`, `hnf`), about
the written value being writable (`hw`, `ht`, `he`) and within the ranges of its type (`hok`). -/
theorem typed_roundtrip (h : EnvLaws env) (T : GoType) (hT : Frag T = true) (sf bf cf : Nat)
    (hsf : T.depth < sf) (hbf : T.bfuel + 3 ≤ bf)
    (sch : Schema) (c : Codec) (a : ASchema)
    (hs : schemaForType SReg.empty TEnv.empty sf [] T = .ok sch)
    (hb : buildCodec libReg bf sch (some T) false = .ok c)
    (ha : classify cf sch = some a)
    (M k n n' m m' : Nat) (g : GoVal) (bs bs' rest : Bytes) (v : Value)
    (hty : Typed M T g) (hm' : 2 * T.depth + 2 ≤ m') (hk : 2 * T.depth + 2 ≤ k)
    (hw : write env n c g = some bs) (ht : toAvro env (omits env) m c g = some v)
    (he : encode (canonPlan v) a v = some bs') (hok : RTOk env m' c g)
    (hnf : read env n' c (bs ++ rest) (Codec.zero env c) ≠ .fuel) :
    ∃ r, read env n' c (bs ++ rest) (Codec.zero env c) = .ok (r, rest) ∧
      normSpec k T false r = normSpecD 7 k T false g := by
  obtain ⟨c', hc'⟩ := frag_field T hT (2 * T.depth + 2) (Nat.le_refl _) false
  obtain ⟨h1, h2⟩ := built_of_fieldCodec hc' sf bf hsf hbf
  rw [h1] at hs; cases hs
  rw [h2] at hb; cases hb
  have hcf : CodecFor c a := (buildOkAt libReg (fun _ => rfl) bf).build _ _ _ _ h2 cf a ha
  exact value_roundtrip_spec env h T (2 * T.depth + 2) M k c a hcf n n' m m' g bs bs' rest v hc' hty hm' hk
    hw ht he hok hnf

/-! non-vacuity: `exType = struct{M map[string]int64; P *string; Q *[]int32}` is in the fragment, its
generated schema, built codec and Avro schema are `exCodec` / `exSchema` of C01.lean, and the example
value satisfies every hypothesis -/

example : Frag exType = true := by decide

/-- the Avro schema the generated schema of `exType` denotes (int32 ↦ long) -/
def exSchemaT : ASchema := .record ["M", "P", "Q"] [.map .long, .union [.null, .string], .array .long]

private def isFuel' {α : Type} : Outcome α → Bool | .fuel => true | _ => false
private theorem ne_fuel_of' {α : Type} {o : Outcome α} (h : isFuel' o = false) : o ≠ .fuel := by
  intro h'; subst h'; cases h

example : ∃ sch c a, schemaForType SReg.empty TEnv.empty 4000 [] exType = .ok sch ∧
    buildCodec libReg 200 sch (some exType) false = .ok c ∧ classify 64 sch = some a ∧
    fieldCodec 8 exType false = some c ∧ CodecFor c a :=
  typed_codec_exists exType (by decide) 4000 200 64 8 (by decide) (by decide) (by decide) (by decide)

example : ∃ r, read toyEnv 10 exCodec (exBytes ++ [255]) (Codec.zero toyEnv exCodec) = .ok (r, [255]) ∧
    normSpec 8 exType false r = normSpecD 7 8 exType false exVal :=
  typed_roundtrip toyEnv toyEnv_laws exType (by decide) 100 100 64 (by decide) (by decide)
    (genSchema exType) exCodec exSchemaT (by rfl) (by rfl) (by rfl)
    5 8 10 10 10 8 exVal exBytes exBytes [255] exDatum
    (by simp [Typed, TypedFields, exType, exVal, GoField.type, isU8n]; rfl) (by decide) (by decide)
    (by decide +kernel) (by rfl) (by decide +kernel)
    (by simp [RTOk, exCodec, exVal, FieldsOk, Codec.zero, inRange, Codec.ptrDepth])
    (ne_fuel_of' (by decide +kernel))

end Avro.C01
