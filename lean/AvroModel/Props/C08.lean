import AvroModel.Props.C07
/-!
# C08 — A truncated file yields a prefix of its records and an error

Model: `AvroModel/File.lean`; valid files as in `Props/C07.lean`. For a valid file
`f = hdr ++ body H.sync bl` and every cut position `k ≤ f.length` (the file a writer leaves behind
when it dies after `k` bytes) `truncation` gives the exact behaviour of the reader on `f.take k`.

The boundary, decided from the code (file.go:177-208): a block's records are handed to the
callback as soon as its *payload* is completely present (`io.ReadFull` of the payload succeeded),
before the 16-byte sync marker is read. So with `payloadEnd i` the absolute position just after
block `i`'s payload and `blockEnd i` the position just after its sync marker:

* delivered = the records of exactly the blocks with `payloadEnd i ≤ k` (`completeVals`), in order,
  each one whole — a prefix of the file's records (`truncation_prefix`);
* the result is success iff `k` is the end of the header or some `blockEnd i` (`boundaries`);
  every other cut is an error — in particular `payloadEnd i ≤ k < blockEnd i` delivers block `i`
  and then reports an error.

The compressor enters only through `decompress (compress x) = ok x` on *complete* payloads
(`GoodBlk.decomp`): an incomplete payload fails in `io.ReadFull` before the decompressor is reached.
-/
namespace Avro.C08
open Avro Avro.File

variable {α ε : Type}

/-- **C08 (truncation)**: reading the first `k` bytes of a valid file delivers exactly the records of
the blocks whose payload ends at or before `k`, and returns success iff `k` is the end of the
header or of a block; every other cut position is an error. -/
theorem truncation {X : Ext α} {fuel : Nat} {hdr : Bytes} {H : Header} {sel : CodecSel} {rc : RecCodec α} {bl : List (Blk α)}
    (hv : ValidFile X fuel hdr H sel rc bl) (cb : Nat → Option ε) (hcb : ∀ i, cb i = none)
    (k : Nat) (hk : k ≤ (hdr ++ body H.sync bl).length) :
    (readFile X fuel cb ((hdr ++ body H.sync bl).take k)).delivered = completeVals H.sync hdr.length bl k ∧
    (k ∈ boundaries H.sync hdr.length bl → (readFile X fuel cb ((hdr ++ body H.sync bl).take k)).res = .ok) ∧
    (k ∉ boundaries H.sync hdr.length bl → ∃ e, (readFile X fuel cb ((hdr ++ body H.sync bl).take k)).res = .err e) := by
  by_cases hlt : k < hdr.length
  · -- the cut falls inside the header
    obtain ⟨e, he⟩ := readFile_header_cut hv.toValidHeader cb k hlt
    rw [take_append_lt hlt, he]
    have hnb : k ∉ boundaries H.sync hdr.length bl := fun h => by
      have := boundaries_ge H.sync bl _ _ h; omega
    refine ⟨?_, fun h => absurd h hnb, fun _ => ⟨e, rfl⟩⟩
    rw [completeVals_before H.sync bl hdr.length k (by omega)]
  · have hge : hdr.length ≤ k := by omega
    rw [take_append_ge hge, readFile_header hv.toValidHeader cb]
    have hcut := readBlocks_cut (cfgOf X sel rc H cb) hv.sync16 hcb bl fuel 0 (k - hdr.length) hv.blocks hv.fuel
    have heq := cutOut_eq H.sync hv.sync16 bl hdr.length k hge (by simpa using hk)
    simp only [cfgOf] at hcut ⊢
    refine ⟨by rw [hcut.1, heq.1], ?_, ?_⟩
    · intro hb
      have := heq.2.mpr hb
      simpa [this] using hcut.2
    · intro hnb
      have : (cutOut H.sync bl (k - hdr.length)).2 = false := by
        cases h : (cutOut H.sync bl (k - hdr.length)).2 with
        | true => exact absurd (heq.2.mp h) hnb
        | false => rfl
      simpa [this] using hcut.2

/-- **C08 (prefix, nothing partial or invented)**: what a truncated file delivers is a prefix of the
records of the whole file. -/
theorem truncation_prefix {X : Ext α} {fuel : Nat} {hdr : Bytes} {H : Header} {sel : CodecSel} {rc : RecCodec α} {bl : List (Blk α)}
    (hv : ValidFile X fuel hdr H sel rc bl) (cb : Nat → Option ε) (hcb : ∀ i, cb i = none)
    (k : Nat) (hk : k ≤ (hdr ++ body H.sync bl).length) :
    (readFile X fuel cb ((hdr ++ body H.sync bl).take k)).delivered <+: allVals bl := by
  rw [(truncation hv cb hcb k hk).1]
  by_cases hlt : k < hdr.length
  · rw [completeVals_before H.sync bl hdr.length k (by omega)]; exact List.nil_prefix
  · rw [← (cutOut_eq H.sync hv.sync16 bl hdr.length k (by omega) (by simpa using hk)).1]
    exact cutOut_prefix _ _ _

/-- **C08 (success only at boundaries)**: success is reported iff the cut is the end of the header or of a block. -/
theorem ok_iff_boundary {X : Ext α} {fuel : Nat} {hdr : Bytes} {H : Header} {sel : CodecSel} {rc : RecCodec α} {bl : List (Blk α)}
    (hv : ValidFile X fuel hdr H sel rc bl) (cb : Nat → Option ε) (hcb : ∀ i, cb i = none)
    (k : Nat) (hk : k ≤ (hdr ++ body H.sync bl).length) :
    (readFile X fuel cb ((hdr ++ body H.sync bl).take k)).res = .ok ↔ k ∈ boundaries H.sync hdr.length bl := by
  obtain ⟨_, h1, h2⟩ := truncation hv cb hcb k hk
  constructor
  · intro hok
    apply Classical.byContradiction
    intro hnb
    obtain ⟨e, he⟩ := h2 hnb
    rw [he] at hok; cases hok
  · exact h1

/-- The whole file is its own last boundary (so `C07.delivers` is the case `k = length`). -/
theorem length_mem_boundaries (sync : Bytes) : ∀ (bl : List (Blk α)) (off : Nat),
    off + (body sync bl).length ∈ boundaries sync off bl := by
  intro bl
  induction bl with
  | nil => intro off; simp [body, boundaries]
  | cons b bl ih =>
    intro off
    have := ih (off + (frame sync b).length)
    simp only [boundaries, List.mem_cons]
    right
    have e : off + (body sync (b :: bl)).length = off + (frame sync b).length + (body sync bl).length := by
      simp [body]; omega
    rw [e]; exact this

/-! ### Non-vacuity: cut positions of the concrete file of `Props/C07.lean`, evaluated by the model

`exFile` is 92 bytes: header 52 (magic 4, map 32, sync 16), block one 53..72 (count, length,
two payload bytes ending at 56, sync), block two 73..92 (payload ends at 76). -/

open Avro.C07 in
example : exHdr.length = 52 ∧ exFile.length = 92 := by decide +kernel

open Avro.C07 in
/-- inside the header: error, nothing delivered -/
example : readFile exX 5 (fun _ => (none : Option Unit)) (exFile.take 30) = ⟨[], .err .metaVal⟩ := by decide +kernel

open Avro.C07 in
/-- exactly the header: success, nothing delivered -/
example : readFile exX 5 (fun _ => (none : Option Unit)) (exFile.take 52) = ⟨[], .ok⟩ := by decide +kernel

open Avro.C07 in
/-- after the first block's count varint / inside its payload: error, nothing delivered -/
example : readFile exX 5 (fun _ => (none : Option Unit)) (exFile.take 53) = ⟨[], .err .length⟩ ∧
    readFile exX 5 (fun _ => (none : Option Unit)) (exFile.take 55) = ⟨[], .err .payload⟩ := by decide +kernel

open Avro.C07 in
/-- first payload complete, sync marker missing or cut short: block one delivered, then an error -/
example : readFile exX 5 (fun _ => (none : Option Unit)) (exFile.take 56) = ⟨[1, 2], .err .syncRead⟩ ∧
    readFile exX 5 (fun _ => (none : Option Unit)) (exFile.take 71) = ⟨[1, 2], .err .syncRead⟩ := by decide +kernel

open Avro.C07 in
/-- end of block one: success -/
example : readFile exX 5 (fun _ => (none : Option Unit)) (exFile.take 72) = ⟨[1, 2], .ok⟩ := by decide +kernel

open Avro.C07 in
/-- one byte into block two: the count varint is complete, the length is missing: error -/
example : readFile exX 5 (fun _ => (none : Option Unit)) (exFile.take 73) = ⟨[1, 2], .err .length⟩ := by decide +kernel

open Avro.C07 in
example : boundaries exSync exHdr.length [exB1, exB2] = [52, 72, 92] ∧
    completeVals exSync exHdr.length [exB1, exB2] 75 = [1, 2] ∧
    completeVals exSync exHdr.length [exB1, exB2] 76 = [1, 2, 3] := by decide +kernel

end Avro.C08
